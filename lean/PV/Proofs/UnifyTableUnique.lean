import PV.Proofs.UnifyTableModel
/-
  C16 (T-gen), part 8: a decidable guard on targets that discharges `c16SafeTop` (no tuple / list is
  an operand of an n-ary node: then the factory never hands a tuple / list to
  `unification_record_from_equation`), and uniqueness: `unifyE` is the ONLY function that satisfies
  the dispatch equation of the table.
-/
open PV PV.Unify
namespace PV.Unify

/-! ### what `flattened_sum` / `flattened_product` can return -/

mutual
/-- not a tuple / list, and — through nested applications of `o` — no operand is -/
def c16Flat (o : NaryOp) : Expr → Bool
  | .nary o' cs => if o' = o then c16FlatL o cs else true
  | .tuple _ => false
  | .list _ => false
  | _ => true
def c16FlatL (o : NaryOp) : List Expr → Bool
  | [] => true
  | c :: cs => c16Flat o c && c16FlatL o cs
end

theorem c16FlatL_iff (o : NaryOp) : ∀ cs : List Expr, c16FlatL o cs = true ↔ ∀ c ∈ cs, c16Flat o c = true
  | [] => by simp [c16FlatL]
  | c :: cs => by simp [c16FlatL, c16FlatL_iff o cs]

theorem c16Flat_notSeq {o : NaryOp} {e : Expr} (h : c16Flat o e = true) : c16IsSeq e = false := by
  cases e <;> simp_all [c16Flat, c16IsSeq]

theorem flattenedSumLoop_flat : ∀ (fuel : Nat) (queue done : List Expr),
    (∀ c ∈ queue, c16Flat .sum c = true) → (∀ c ∈ done, c16Flat .sum c = true) →
    ∀ c ∈ flattenedSumLoop fuel queue done, c16Flat .sum c = true
  | 0, _, _, _, hd => by simpa [flattenedSumLoop] using hd
  | _ + 1, [], _, _, hd => by simpa [flattenedSumLoop] using hd
  | fuel + 1, item :: queue, done, hq, hd => by
    have hi := hq item (by simp)
    have hq' : ∀ c ∈ queue, c16Flat .sum c = true := fun c hc => hq c (by simp [hc])
    simp only [flattenedSumLoop]
    split
    · exact flattenedSumLoop_flat fuel queue done hq' hd
    · split
      · refine flattenedSumLoop_flat fuel _ done ?_ hd
        intro c hc
        rcases List.mem_append.1 hc with h | h
        · simp only [c16Flat, if_true] at hi
          exact (c16FlatL_iff _ _).1 hi c h
        · exact hq' c h
      · refine flattenedSumLoop_flat fuel queue (done ++ [item]) hq' ?_
        intro c hc
        rcases List.mem_append.1 hc with h | h
        · exact hd c h
        · simp at h; subst h; exact hi

theorem flattenedProductLoop_flat : ∀ (fuel : Nat) (queue done out : List Expr),
    (∀ c ∈ queue, c16Flat .prod c = true) → (∀ c ∈ done, c16Flat .prod c = true) →
    flattenedProductLoop fuel queue done = some out → ∀ c ∈ out, c16Flat .prod c = true
  | 0, _, _, _, _, hd, h => by simp [flattenedProductLoop] at h; subst h; exact hd
  | _ + 1, [], _, _, _, hd, h => by simp [flattenedProductLoop] at h; subst h; exact hd
  | fuel + 1, item :: queue, done, out, hq, hd, h => by
    have hi := hq item (by simp)
    have hq' : ∀ c ∈ queue, c16Flat .prod c = true := fun c hc => hq c (by simp [hc])
    simp only [flattenedProductLoop] at h
    split at h
    · cases h
    · split at h
      · exact flattenedProductLoop_flat fuel queue done out hq' hd h
      · split at h
        · refine flattenedProductLoop_flat fuel _ done out ?_ hd h
          intro c hc
          rcases List.mem_append.1 hc with h' | h'
          · simp only [c16Flat, if_true] at hi
            exact (c16FlatL_iff _ _).1 hi c h'
          · exact hq' c h'
        · refine flattenedProductLoop_flat fuel queue (done ++ [item]) out hq' ?_ h
          intro c hc
          rcases List.mem_append.1 hc with h' | h'
          · exact hd c h'
          · simp at h'; subst h'; exact hi

theorem factory_notSeq (o : NaryOp) (items : List Expr)
    (hs : ∀ c ∈ items, c16Flat .sum c = true) (hp : ∀ c ∈ items, c16Flat .prod c = true) :
    c16IsSeq (factory o items) = false := by
  have hsum : c16IsSeq (flattenedSum items) = false := by
    have := flattenedSumLoop_flat (Expr.sizeL items + items.length + 1) items [] hs (by simp)
    simp only [flattenedSum]
    split
    · rfl
    · rename_i x hx
      exact c16Flat_notSeq (this x (by simp [hx]))
    · rfl
  have hprod : c16IsSeq (flattenedProduct items) = false := by
    simp only [flattenedProduct]
    split
    · rfl
    · rfl
    · rename_i x hx
      exact c16Flat_notSeq
        (flattenedProductLoop_flat _ items [] _ hp (by simp) hx x (by simp))
    · rfl
  cases o <;> simp only [factory, hsum, hprod]

/-! ### a decidable guard on targets -/

def c16NoSeqL : List Expr → Bool
  | [] => true
  | c :: cs => !c16IsSeq c && c16NoSeqL cs

mutual
/-- no tuple / list is an operand of an n-ary node, anywhere in the tree -/
def c16TgtSafe : Expr → Bool
  | .nary _ cs => c16NoSeqL cs && c16TgtSafeL cs
  | .bin _ a b => c16TgtSafe a && c16TgtSafe b
  | .un _ a => c16TgtSafe a
  | .cmp _ a b => c16TgtSafe a && c16TgtSafe b
  | .ite c t e => c16TgtSafe c && c16TgtSafe t && c16TgtSafe e
  | .call f as => c16TgtSafe f && c16TgtSafeL as
  | .subscript a i => c16TgtSafe a && c16TgtSafe i
  | .lookup a _ => c16TgtSafe a
  | .tuple cs => c16TgtSafeL cs
  | .list cs => c16TgtSafeL cs
  | _ => true
def c16TgtSafeL : List Expr → Bool
  | [] => true
  | c :: cs => c16TgtSafe c && c16TgtSafeL cs
end

theorem c16TgtSafeL_iff : ∀ cs : List Expr, c16TgtSafeL cs = true ↔ ∀ c ∈ cs, c16TgtSafe c = true
  | [] => by simp [c16TgtSafeL]
  | c :: cs => by simp [c16TgtSafeL, c16TgtSafeL_iff cs]

theorem c16NoSeqL_iff : ∀ cs : List Expr, c16NoSeqL cs = true ↔ ∀ c ∈ cs, c16IsSeq c = false
  | [] => by simp [c16NoSeqL]
  | c :: cs => by simp [c16NoSeqL, c16NoSeqL_iff cs]

mutual
theorem c16Flat_of_safe (o : NaryOp) : ∀ e : Expr, c16TgtSafe e = true → c16IsSeq e = false →
    c16Flat o e = true
  | .nary o' cs, hs, _ => by
    simp only [c16TgtSafe, Bool.and_eq_true] at hs
    simp only [c16Flat]
    split
    · exact c16FlatL_of_safe o cs hs.1 hs.2
    · rfl
  | .tuple _, _, hq => by simp [c16IsSeq] at hq
  | .list _, _, hq => by simp [c16IsSeq] at hq
  | .const _, _, _ => rfl
  | .var _, _, _ => rfl
  | .bin .., _, _ => rfl
  | .un .., _, _ => rfl
  | .cmp .., _, _ => rfl
  | .ite .., _, _ => rfl
  | .call .., _, _ => rfl
  | .callKw .., _, _ => rfl
  | .subscript .., _, _ => rfl
  | .lookup .., _, _ => rfl
  | .cse .., _, _ => rfl
  | .subst .., _, _ => rfl
  | .deriv .., _, _ => rfl
  | .slice _, _, _ => rfl
  | .nan, _, _ => rfl
  | .wildcard, _, _ => rfl
  | .dotWild _, _, _ => rfl
  | .starWild _, _, _ => rfl
  | .funcSym, _, _ => rfl
theorem c16FlatL_of_safe (o : NaryOp) : ∀ cs : List Expr, c16NoSeqL cs = true →
    c16TgtSafeL cs = true → c16FlatL o cs = true
  | [], _, _ => rfl
  | c :: cs, hn, hs => by
    simp only [c16NoSeqL, Bool.and_eq_true, Bool.not_eq_true'] at hn
    simp only [c16TgtSafeL, Bool.and_eq_true] at hs
    simp only [c16FlatL, Bool.and_eq_true]
    exact ⟨c16Flat_of_safe o c hs.1 hn.1, c16FlatL_of_safe o cs hn.2 hs.2⟩
end

/-- **the guard discharges the safety hypothesis** -/
theorem c16Safe_of_tgtSafe (o o' : NaryOp) (ds : List Expr) (h : c16TgtSafe (.nary o' ds) = true) :
    c16Safe o ds := by
  intro sub
  simp only [c16TgtSafe, Bool.and_eq_true] at h
  have hflat : ∀ (oo : NaryOp) (c : Expr), c ∈ (sub.map fun i => ds.getD i zero) → c16Flat oo c = true := by
    intro oo c hc
    simp only [List.mem_map] at hc
    obtain ⟨i, _, rfl⟩ := hc
    by_cases hi : i < ds.length
    · have hm : ds.getD i zero ∈ ds := by
        simp [List.getD_eq_getElem?_getD, List.getElem?_eq_getElem hi]
      exact (c16FlatL_iff oo ds).1 (c16FlatL_of_safe oo ds h.1 h.2) _ hm
    · have : ds.getD i zero = zero := by
        simp [List.getD_eq_getElem?_getD, List.getElem?_eq_none (by omega : ds.length ≤ i)]
      rw [this]; rfl
  exact factory_notSeq o _ (hflat .sum) (hflat .prod)

theorem c16SafeTop_of_tgtSafe (e oth : Expr) (h : c16TgtSafe oth = true) : c16SafeTop e oth := by
  cases e <;> cases oth <;> simp only [c16SafeTop] <;> try trivial
  intro _
  exact c16Safe_of_tgtSafe _ _ _ h

/-! ### uniqueness -/

mutual
/-- every node of the pattern is of a kind the model handles -/
def c16PatOk : Expr → Bool
  | .const (.int _) => true
  | .const (.bool _) => true
  | .const (.flt ..) => true
  | .var _ => true
  | .nary o cs => (o == .sum || o == .prod) && c16PatOkL cs
  | .bin _ a b => c16PatOk a && c16PatOk b
  | .un _ a => c16PatOk a
  | .cmp _ a b => c16PatOk a && c16PatOk b
  | .ite c t e => c16PatOk c && c16PatOk t && c16PatOk e
  | .call f as => c16PatOk f && c16PatOkL as
  | .subscript a i => c16PatOk a && c16PatOk i
  | .lookup a _ => c16PatOk a
  | .tuple cs => c16PatOkL cs
  | _ => false
def c16PatOkL : List Expr → Bool
  | [] => true
  | c :: cs => c16PatOk c && c16PatOkL cs
end

theorem c16PatOkL_iff : ∀ cs : List Expr, c16PatOkL cs = true ↔ ∀ c ∈ cs, c16PatOk c = true
  | [] => by simp [c16PatOkL]
  | c :: cs => by simp [c16PatOkL, c16PatOkL_iff cs]

theorem c16Top_of_patOk {e : Expr} (h : c16PatOk e = true) : c16Top e = true := by
  cases e with
  | const c => cases c <;> simp_all [c16PatOk, c16Top]
  | nary o cs => simp only [c16PatOk, Bool.and_eq_true] at h; simpa [c16Top] using h.1
  | _ => first | rfl | (simp [c16PatOk] at h)

theorem unpackIndex_patOk {i : Expr} (h : c16PatOk i = true) : c16PatOk (unpackIndex i) = true := by
  cases i with
  | tuple cs =>
    match cs, h with
    | [], h => exact h
    | [x], h => simpa [unpackIndex, c16PatOk, c16PatOkL] using h
    | x :: y :: l, h => exact h
  | _ => exact h

theorem unpackIndex_safe {i : Expr} (h : c16TgtSafe i = true) : c16TgtSafe (unpackIndex i) = true := by
  cases i with
  | tuple cs =>
    match cs, h with
    | [], h => exact h
    | [x], h => simpa [unpackIndex, c16TgtSafe, c16TgtSafeL] using h
    | x :: y :: l, h => exact h
  | _ => exact h

theorem getD_safe {ds : List Expr} (h : c16TgtSafeL ds = true) (j : Nat) :
    c16TgtSafe (ds.getD j zero) = true := by
  by_cases hj : j < ds.length
  · have hm : ds.getD j zero ∈ ds := by
      simp [List.getD_eq_getElem?_getD, List.getElem?_eq_getElem hj]
    exact (c16TgtSafeL_iff ds).1 h _ hm
  · have : ds.getD j zero = zero := by
      simp [List.getD_eq_getElem?_getD, List.getElem?_eq_none (by omega : ds.length ≤ j)]
    rw [this]; rfl

theorem c16_filterMap_congr {α β : Type} {f g : α → Option β} : ∀ {l : List α},
    (∀ a ∈ l, f a = g a) → l.filterMap f = l.filterMap g
  | [], _ => rfl
  | a :: l, h => by
    simp only [List.filterMap_cons, h a (by simp),
      c16_filterMap_congr (l := l) (fun b hb => h b (by simp [hb]))]

section
variable (cands : List String) (f g : Expr → Expr → List URec → List URec)

/-- one unfolding only looks at the recursive calls on SMALLER patterns (well-formed records, guarded
targets) -/
theorem c16UnifyF_congr (e : Expr)
    (hfg : ∀ a, a.size < e.size → c16PatOk a = true → ∀ b vs, (∀ v ∈ vs, v.WF) →
      c16TgtSafe b = true → f a b vs = g a b vs)
    (hgwf : ∀ a b vs, (∀ v ∈ vs, v.WF) → ∀ r ∈ g a b vs, r.WF)
    (hp : c16PatOk e = true) (oth : Expr) (us : List URec) (hus : ∀ u ∈ us, u.WF)
    (hs : c16TgtSafe oth = true) :
    c16UnifyF cands f e oth us = c16UnifyF cands g e oth us := by
  cases e with
  | const c => rfl
  | var x => rfl
  | nary o cs =>
    cases oth <;> simp only [c16UnifyF]
    rename_i o' ds
    split
    · simp only [c16PatOk, Bool.and_eq_true] at hp
      simp only [c16TgtSafe, Bool.and_eq_true] at hs
      simp only [c16CommutF]
      congr 1
      apply List.map_congr_left
      intro c hc
      have hcm : c ∈ cs := (List.mem_filter.1 hc).1
      simp only [c16RowF]
      apply c16_filterMap_congr
      intro j _
      rw [hfg c (by have := c16_size_le_of_mem hcm; simp [Expr.size]; omega)
        ((c16PatOkL_iff cs).1 hp.2 c hcm) _ us hus (getD_safe hs.2 j)]
    · rfl
  | bin o a b =>
    cases oth <;> simp only [c16UnifyF]
    rename_i o' a' b'
    simp only [c16PatOk, Bool.and_eq_true] at hp
    simp only [c16TgtSafe, Bool.and_eq_true] at hs
    have h1 := c16_size_pos a; have h2 := c16_size_pos b
    split
    · rw [hfg b (by simp [Expr.size]; omega) hp.2 b' us hus hs.2,
        hfg a (by simp [Expr.size]; omega) hp.1 a' _ (hgwf b b' us hus) hs.1]
    · rfl
  | un o a =>
    cases oth <;> simp only [c16UnifyF]
    simp only [c16PatOk] at hp
    simp only [c16TgtSafe] at hs
    split
    · rw [hfg a (by simp [Expr.size]) hp _ us hus hs]
    · rfl
  | cmp o a b =>
    cases oth <;> simp only [c16UnifyF]
    rename_i o' a' b'
    simp only [c16PatOk, Bool.and_eq_true] at hp
    simp only [c16TgtSafe, Bool.and_eq_true] at hs
    have h1 := c16_size_pos a; have h2 := c16_size_pos b
    split
    · rw [hfg b (by simp [Expr.size]; omega) hp.2 b' us hus hs.2,
        hfg a (by simp [Expr.size]; omega) hp.1 a' _ (hgwf b b' us hus) hs.1]
    · rfl
  | ite c t e =>
    cases oth <;> simp only [c16UnifyF]
    rename_i c' t' e'
    simp only [c16PatOk, Bool.and_eq_true] at hp
    simp only [c16TgtSafe, Bool.and_eq_true] at hs
    have h1 := c16_size_pos c; have h2 := c16_size_pos t; have h3 := c16_size_pos e
    rw [hfg e (by simp [Expr.size]; omega) hp.2 e' us hus hs.2,
      hfg t (by simp [Expr.size]; omega) hp.1.2 t' _ (hgwf e e' us hus) hs.1.2,
      hfg c (by simp [Expr.size]; omega) hp.1.1 c' _ (hgwf t t' _ (hgwf e e' us hus)) hs.1.1]
  | call fn as =>
    cases oth <;> simp only [c16UnifyF]
    rename_i fn' as'
    simp only [c16PatOk, Bool.and_eq_true] at hp
    simp only [c16TgtSafe, Bool.and_eq_true] at hs
    have h1 := c16_size_pos fn
    rw [hfg (.tuple as) (by simp [Expr.size]; omega) (by simpa [c16PatOk] using hp.2) (.tuple as') us hus
        (by simpa [c16TgtSafe] using hs.2),
      hfg fn (by simp [Expr.size]; omega) hp.1 fn' _ (hgwf _ _ us hus) hs.1]
  | subscript a i =>
    cases oth <;> simp only [c16UnifyF]
    rename_i a' i'
    simp only [c16PatOk, Bool.and_eq_true] at hp
    simp only [c16TgtSafe, Bool.and_eq_true] at hs
    have h1 := c16_size_pos a; have h2 := c16_size_pos i; have h3 := unpackIndex_size i
    rw [hfg (unpackIndex i) (by simp [Expr.size]; omega) (unpackIndex_patOk hp.2) _ us hus
        (unpackIndex_safe hs.2),
      hfg a (by simp [Expr.size]; omega) hp.1 a' _ (hgwf _ _ us hus) hs.1]
  | lookup a n =>
    cases oth <;> simp only [c16UnifyF]
    simp only [c16PatOk] at hp
    simp only [c16TgtSafe] at hs
    split
    · rw [hfg a (by simp [Expr.size]) hp _ us hus hs]
    · rfl
  | tuple cs =>
    cases oth <;> simp only [c16UnifyF]
    rename_i ds
    simp only [c16PatOk] at hp
    simp only [c16TgtSafe] at hs
    split
    · have hz : ∀ (L : List (Expr × Expr)) (vs : List URec), (∀ p ∈ L, p.1 ∈ cs ∧ p.2 ∈ ds) →
          (∀ v ∈ vs, v.WF) → c16ZipF f L vs = c16ZipF g L vs := by
        intro L
        induction L with
        | nil => intro vs _ _; rfl
        | cons p L ih =>
          intro vs hL hv
          obtain ⟨c, d⟩ := p
          obtain ⟨hc, hd⟩ := hL (c, d) (by simp)
          simp only at hc hd
          simp only [c16ZipF]
          rw [hfg c (by have := c16_size_le_of_mem hc; simp [Expr.size]; omega)
            ((c16PatOkL_iff cs).1 hp c hc) d vs hv ((c16TgtSafeL_iff ds).1 hs d hd)]
          split
          · rfl
          · exact ih _ (fun q hq => hL q (by simp [hq])) (hgwf c d vs hv)
      exact hz _ _ (fun p hp' => ⟨(List.of_mem_zip hp').1, (List.of_mem_zip hp').2⟩) hus
    · rfl
  | _ => simp [c16PatOk] at hp

end

/-- **`unifyE` is the only solution of the dispatch equation.**  Any function that, on every node
kind of the model, every guarded target and every list of well-formed records, returns what one
handler call of the table returns when the recursive calls go through the function itself, IS
`unifyE` — on every pattern made of node kinds of the model. -/
theorem unifyE_unique (cands : List String) (f : Expr → Expr → List URec → List URec)
    (hf : ∀ e oth us, c16Top e = true → (∀ u ∈ us, u.WF) → c16TgtSafe oth = true →
      f e oth us = c16UnifyF cands f e oth us) :
    ∀ (n : Nat) (e : Expr), e.size ≤ n → c16PatOk e = true → ∀ (oth : Expr) (us : List URec),
      (∀ u ∈ us, u.WF) → c16TgtSafe oth = true → f e oth us = unifyE cands e oth us
  | 0, e, h, _ => by have := c16_size_pos e; omega
  | n + 1, e, h, hp => by
    intro oth us hus hs
    rw [hf e oth us (c16Top_of_patOk hp) hus hs, unifyE_eq_F]
    exact c16UnifyF_congr cands f (unifyE cands) e
      (fun a ha hpa b vs hv hb => unifyE_unique cands f hf n a (by omega) hpa b vs hv hb)
      (fun a b vs hv => unifyE_wf' cands a b vs hv) hp oth us hus hs

/-! ### the fragment of the driver lies inside the guards -/

mutual
theorem tgtSafe_of_tgtOk : ∀ e : Expr, tgtOk e = true → c16TgtSafe e = true ∧ c16IsSeq e = false
  | .const _, _ => ⟨rfl, rfl⟩
  | .var _, _ => ⟨rfl, rfl⟩
  | .nary o cs, h => by
    simp only [tgtOk, Bool.and_eq_true] at h
    have := tgtSafeL_of_tgtOkL cs h.2
    exact ⟨by simp [c16TgtSafe, this.1, this.2], rfl⟩
  | .bin _ a b, h => by
    simp only [tgtOk, Bool.and_eq_true] at h
    exact ⟨by simp [c16TgtSafe, (tgtSafe_of_tgtOk a h.1).1, (tgtSafe_of_tgtOk b h.2).1], rfl⟩
  | .un _ a, h => by
    simp only [tgtOk] at h
    exact ⟨by simp [c16TgtSafe, (tgtSafe_of_tgtOk a h).1], rfl⟩
  | .cmp _ a b, h => by
    simp only [tgtOk, Bool.and_eq_true] at h
    exact ⟨by simp [c16TgtSafe, (tgtSafe_of_tgtOk a h.1).1, (tgtSafe_of_tgtOk b h.2).1], rfl⟩
  | .ite c t e, h => by
    simp only [tgtOk, Bool.and_eq_true] at h
    exact ⟨by simp [c16TgtSafe, (tgtSafe_of_tgtOk c h.1.1).1, (tgtSafe_of_tgtOk t h.1.2).1,
      (tgtSafe_of_tgtOk e h.2).1], rfl⟩
  | .call f as, h => by
    simp only [tgtOk, Bool.and_eq_true] at h
    exact ⟨by simp [c16TgtSafe, (tgtSafe_of_tgtOk f h.1).1, (tgtSafeL_of_tgtOkL as h.2).1], rfl⟩
  | .subscript a (.tuple is), h => by
    simp only [tgtOk, Bool.and_eq_true] at h
    exact ⟨by simp [c16TgtSafe, (tgtSafe_of_tgtOk a h.1).1, (tgtSafeL_of_tgtOkL is h.2).1], rfl⟩
  | .subscript a (.const c), h => by
    simp only [tgtOk, Bool.and_eq_true] at h
    exact ⟨by simp [c16TgtSafe, (tgtSafe_of_tgtOk a h.1).1], rfl⟩
  | .subscript a (.var x), h => by
    simp only [tgtOk, Bool.and_eq_true] at h
    exact ⟨by simp [c16TgtSafe, (tgtSafe_of_tgtOk a h.1).1], rfl⟩
  | .subscript a (.nary o cs), h => by
    simp only [tgtOk, Bool.and_eq_true] at h
    have := tgtSafe_of_tgtOk (.nary o cs) (by simpa [tgtOk] using h.2)
    exact ⟨by simp_all [c16TgtSafe, (tgtSafe_of_tgtOk a h.1).1], rfl⟩
  | .subscript a (.bin o x y), h => by
    simp only [tgtOk, Bool.and_eq_true] at h
    have := tgtSafe_of_tgtOk (.bin o x y) (by simpa [tgtOk] using h.2)
    exact ⟨by simp_all [c16TgtSafe, (tgtSafe_of_tgtOk a h.1).1], rfl⟩
  | .subscript a (.un o x), h => by
    simp only [tgtOk, Bool.and_eq_true] at h
    have := tgtSafe_of_tgtOk (.un o x) (by simpa [tgtOk] using h.2)
    exact ⟨by simp_all [c16TgtSafe, (tgtSafe_of_tgtOk a h.1).1], rfl⟩
  | .subscript a (.cmp o x y), h => by
    simp only [tgtOk, Bool.and_eq_true] at h
    have := tgtSafe_of_tgtOk (.cmp o x y) (by simpa [tgtOk] using h.2)
    exact ⟨by simp_all [c16TgtSafe, (tgtSafe_of_tgtOk a h.1).1], rfl⟩
  | .subscript a (.ite x y z), h => by
    simp only [tgtOk, Bool.and_eq_true] at h
    have := tgtSafe_of_tgtOk (.ite x y z) (by simpa [tgtOk] using h.2)
    exact ⟨by simp_all [c16TgtSafe, (tgtSafe_of_tgtOk a h.1).1], rfl⟩
  | .subscript a (.call x y), h => by
    simp only [tgtOk, Bool.and_eq_true] at h
    have := tgtSafe_of_tgtOk (.call x y) (by simpa [tgtOk] using h.2)
    exact ⟨by simp_all [c16TgtSafe, (tgtSafe_of_tgtOk a h.1).1], rfl⟩
  | .subscript a (.subscript x y), h => by
    simp only [tgtOk, Bool.and_eq_true] at h
    have := tgtSafe_of_tgtOk (.subscript x y) h.2
    exact ⟨by simp_all [c16TgtSafe, (tgtSafe_of_tgtOk a h.1).1], rfl⟩
  | .subscript a (.lookup x y), h => by
    simp only [tgtOk, Bool.and_eq_true] at h
    have := tgtSafe_of_tgtOk (.lookup x y) (by simpa [tgtOk] using h.2)
    exact ⟨by simp_all [c16TgtSafe, (tgtSafe_of_tgtOk a h.1).1], rfl⟩
  | .subscript _ (.callKw ..), h => by simp [tgtOk] at h
  | .subscript _ (.cse ..), h => by simp [tgtOk] at h
  | .subscript _ (.subst ..), h => by simp [tgtOk] at h
  | .subscript _ (.deriv ..), h => by simp [tgtOk] at h
  | .subscript _ (.slice _), h => by simp [tgtOk] at h
  | .subscript _ .nan, h => by simp [tgtOk] at h
  | .subscript _ .wildcard, h => by simp [tgtOk] at h
  | .subscript _ (.dotWild _), h => by simp [tgtOk] at h
  | .subscript _ (.starWild _), h => by simp [tgtOk] at h
  | .subscript _ .funcSym, h => by simp [tgtOk] at h
  | .subscript _ (.list _), h => by simp [tgtOk] at h
  | .lookup a _, h => by
    simp only [tgtOk] at h
    exact ⟨by simp [c16TgtSafe, (tgtSafe_of_tgtOk a h).1], rfl⟩
  | .callKw .., h => by simp [tgtOk] at h
  | .cse .., h => by simp [tgtOk] at h
  | .subst .., h => by simp [tgtOk] at h
  | .deriv .., h => by simp [tgtOk] at h
  | .slice _, h => by simp [tgtOk] at h
  | .nan, h => by simp [tgtOk] at h
  | .wildcard, h => by simp [tgtOk] at h
  | .dotWild _, h => by simp [tgtOk] at h
  | .starWild _, h => by simp [tgtOk] at h
  | .funcSym, h => by simp [tgtOk] at h
  | .tuple _, h => by simp [tgtOk] at h
  | .list _, h => by simp [tgtOk] at h
theorem tgtSafeL_of_tgtOkL : ∀ cs : List Expr, tgtOkL cs = true →
    c16TgtSafeL cs = true ∧ c16NoSeqL cs = true
  | [], _ => ⟨rfl, rfl⟩
  | c :: cs, h => by
    simp only [tgtOkL, Bool.and_eq_true] at h
    have h1 := tgtSafe_of_tgtOk c h.1
    have h2 := tgtSafeL_of_tgtOkL cs h.2
    exact ⟨by simp [c16TgtSafeL, h1.1, h2.1], by simp [c16NoSeqL, h1.2, h2.2]⟩
end

mutual
theorem patOk_c16PatOk : ∀ e : Expr, patOk e = true → c16PatOk e = true
  | .const c, h => by cases c <;> simp_all [patOk, constOkPattern, c16PatOk]
  | .var _, _ => rfl
  | .nary o cs, h => by
    simp only [patOk, Bool.and_eq_true] at h
    simp [c16PatOk, patOkL_c16PatOkL cs h.2]
    simpa using h.1
  | .bin _ a b, h => by
    simp only [patOk, Bool.and_eq_true] at h
    simp [c16PatOk, patOk_c16PatOk a h.1, patOk_c16PatOk b h.2]
  | .un _ a, h => by
    simp only [patOk] at h
    simp [c16PatOk, patOk_c16PatOk a h]
  | .cmp _ a b, h => by
    simp only [patOk, Bool.and_eq_true] at h
    simp [c16PatOk, patOk_c16PatOk a h.1, patOk_c16PatOk b h.2]
  | .ite c t e, h => by
    simp only [patOk, Bool.and_eq_true] at h
    simp [c16PatOk, patOk_c16PatOk c h.1.1, patOk_c16PatOk t h.1.2, patOk_c16PatOk e h.2]
  | .call f as, h => by
    simp only [patOk, Bool.and_eq_true] at h
    simp [c16PatOk, patOk_c16PatOk f h.1, patOkL_c16PatOkL as h.2]
  | .subscript a (.tuple is), h => by
    simp only [patOk, Bool.and_eq_true] at h
    simp [c16PatOk, patOk_c16PatOk a h.1, patOkL_c16PatOkL is h.2]
  | .subscript a (.const c), h => by
    simp only [patOk, Bool.and_eq_true] at h
    have := patOk_c16PatOk (.const c) (by simpa [patOk] using h.2)
    simp_all [c16PatOk, patOk_c16PatOk a h.1]
  | .subscript a (.var x), h => by
    simp only [patOk, Bool.and_eq_true] at h
    simp [c16PatOk, patOk_c16PatOk a h.1]
  | .subscript a (.nary o cs), h => by
    simp only [patOk, Bool.and_eq_true] at h
    have := patOk_c16PatOk (.nary o cs) (by simpa [patOk] using h.2)
    simp_all [c16PatOk, patOk_c16PatOk a h.1]
  | .subscript a (.bin o x y), h => by
    simp only [patOk, Bool.and_eq_true] at h
    have := patOk_c16PatOk (.bin o x y) (by simpa [patOk] using h.2)
    simp_all [c16PatOk, patOk_c16PatOk a h.1]
  | .subscript a (.un o x), h => by
    simp only [patOk, Bool.and_eq_true] at h
    have := patOk_c16PatOk (.un o x) (by simpa [patOk] using h.2)
    simp_all [c16PatOk, patOk_c16PatOk a h.1]
  | .subscript a (.cmp o x y), h => by
    simp only [patOk, Bool.and_eq_true] at h
    have := patOk_c16PatOk (.cmp o x y) (by simpa [patOk] using h.2)
    simp_all [c16PatOk, patOk_c16PatOk a h.1]
  | .subscript a (.ite x y z), h => by
    simp only [patOk, Bool.and_eq_true] at h
    have := patOk_c16PatOk (.ite x y z) (by simpa [patOk] using h.2)
    simp_all [c16PatOk, patOk_c16PatOk a h.1]
  | .subscript a (.call x y), h => by
    simp only [patOk, Bool.and_eq_true] at h
    have := patOk_c16PatOk (.call x y) (by simpa [patOk] using h.2)
    simp_all [c16PatOk, patOk_c16PatOk a h.1]
  | .subscript a (.subscript x y), h => by
    simp only [patOk, Bool.and_eq_true] at h
    have := patOk_c16PatOk (.subscript x y) h.2
    simp_all [c16PatOk, patOk_c16PatOk a h.1]
  | .subscript a (.lookup x y), h => by
    simp only [patOk, Bool.and_eq_true] at h
    have := patOk_c16PatOk (.lookup x y) (by simpa [patOk] using h.2)
    simp_all [c16PatOk, patOk_c16PatOk a h.1]
  | .subscript _ (.callKw ..), h => by simp [patOk] at h
  | .subscript _ (.cse ..), h => by simp [patOk] at h
  | .subscript _ (.subst ..), h => by simp [patOk] at h
  | .subscript _ (.deriv ..), h => by simp [patOk] at h
  | .subscript _ (.slice _), h => by simp [patOk] at h
  | .subscript _ (.nan), h => by simp [patOk] at h
  | .subscript _ (.wildcard), h => by simp [patOk] at h
  | .subscript _ (.dotWild _), h => by simp [patOk] at h
  | .subscript _ (.starWild _), h => by simp [patOk] at h
  | .subscript _ (.funcSym), h => by simp [patOk] at h
  | .subscript _ (.list _), h => by simp [patOk] at h
  | .lookup a _, h => by
    simp only [patOk] at h
    simp [c16PatOk, patOk_c16PatOk a h]
  | .callKw .., h => by simp [patOk] at h
  | .cse .., h => by simp [patOk] at h
  | .subst .., h => by simp [patOk] at h
  | .deriv .., h => by simp [patOk] at h
  | .slice _, h => by simp [patOk] at h
  | .nan, h => by simp [patOk] at h
  | .wildcard, h => by simp [patOk] at h
  | .dotWild _, h => by simp [patOk] at h
  | .starWild _, h => by simp [patOk] at h
  | .funcSym, h => by simp [patOk] at h
  | .tuple _, h => by simp [patOk] at h
  | .list _, h => by simp [patOk] at h
theorem patOkL_c16PatOkL : ∀ cs : List Expr, patOkL cs = true → c16PatOkL cs = true
  | [], _ => rfl
  | c :: cs, h => by
    simp only [patOkL, Bool.and_eq_true] at h
    simp [c16PatOkL, patOk_c16PatOk c h.1, patOkL_c16PatOkL cs h.2]
end

end PV.Unify
