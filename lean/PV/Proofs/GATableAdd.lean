import PV.Proofs.GATableInv
/-
  C18 (T-gen), part 3c: `MultiVector.__add__` of the expected function table is `mvAddZ` (with the
  model's iteration order of the key union).
-/
set_option linter.unusedSectionVars false
set_option linter.unusedVariables false
set_option linter.unusedSimpArgs false
namespace PV.GA.C18T

section
variable {R : Type} [Add R] [Mul R] [Neg R] [OfNat R 0] [OfNat R 1]
variable (Γ : C18Ctx R) (fuel : Nat) (callee : C18Callee R)

@[simp] theorem c18Global_set :
    (c18Global c18ExpectedModule "set" : C18Res (C18Val R)) = .ok (.prim "set") := rfl

def natVals (l : List Nat) : List (C18Val R) := l.map fun k => .nat k

theorem any_natVals (l : List Nat) (k : Nat) :
    (natVals l : List (C18Val R)).any (fun y => c18NatEq (.nat k) y) = l.contains k := by
  induction l with
  | nil => rfl
  | cons a l ih =>
    simp only [natVals, List.map_cons, List.any_cons, List.contains_cons, c18NatEq] at ih ⊢
    rw [ih]

theorem any_natVals' (l : List Nat) (k : Nat) :
    (natVals l : List (C18Val R)).any (fun x => c18NatEq x (.nat k)) = l.contains k := by
  induction l with
  | nil => rfl
  | cons a l ih =>
    simp only [natVals, List.map_cons, List.any_cons, List.contains_cons, c18NatEq] at ih ⊢
    rw [ih]
    congr 1
    exact Bool.beq_comm

theorem dedup_natVals : ∀ (l acc : List Nat), l.Nodup → (∀ k ∈ l, k ∉ acc) →
    c18Dedup (natVals acc : List (C18Val R)) (natVals l) = natVals (acc ++ l) := by
  intro l
  induction l with
  | nil => intro acc _ _; simp [natVals, c18Dedup]
  | cons k l ih =>
    intro acc hnd hdis
    simp only [List.nodup_cons] at hnd
    have hk : acc.contains k = false := by
      simp only [List.contains_eq_mem, decide_eq_false_iff_not]
      exact hdis k (List.mem_cons_self)
    have hany := any_natVals (R := R) acc k
    rw [hk] at hany
    have h2 := ih (acc ++ [k]) hnd.2 (by
      intro k' hk'
      simp only [List.mem_append, List.mem_singleton, not_or]
      refine ⟨hdis k' (List.mem_cons_of_mem _ hk'), ?_⟩
      rintro rfl; exact hnd.1 hk')
    have hstep : c18Dedup (natVals acc : List (C18Val R)) (natVals (k :: l))
        = c18Dedup (natVals (acc ++ [k])) (natVals l) := by
      simp only [natVals, List.map_cons, c18Dedup, List.map_append, List.map_nil]
      simp only [natVals] at hany
      rw [hany]
      simp
    rw [hstep, h2]
    simp [natVals]

theorem dictGet_isNone_iff (x : MVOf R) (k : Nat) :
    (dictGet x k).isNone = !(dkeys x).contains k := by
  induction x with
  | nil => rfl
  | cons p x ih =>
    obtain ⟨k', v⟩ := p
    by_cases h : k' = k
    · subst h; simp [dictGet, dkeys]
    · have h' : (k == k') = false := by
        simp only [beq_eq_false_iff_ne, ne_eq]; exact fun e => h e.symm
      simp only [dictGet, h, if_false, dkeys, List.map_cons, List.contains_cons, h', Bool.false_or]
      exact ih

theorem dictGet_some_of_mem (x : MVOf R) (k : Nat) (h : k ∈ dkeys x) : ∃ c, dictGet x k = some c := by
  have := dictGet_isNone_iff x k
  have hc : (dkeys x).contains k = true := by simpa using h
  rw [hc] at this
  cases hg : dictGet x k with
  | none => rw [hg] at this; simp at this
  | some c => exact ⟨c, rfl⟩

/-- the key union as the table computes it is the model's -/
theorem union_natVals (kx ky : List Nat) (p : Nat → Bool) (hp : ∀ k, p k = !kx.contains k) :
    (natVals kx : List (C18Val R)) ++ (natVals ky).filter (fun b =>
        !(natVals kx : List (C18Val R)).any fun a => c18NatEq a b)
      = natVals (kx ++ ky.filter p) := by
  have hf : (natVals ky : List (C18Val R)).filter (fun b =>
        !(natVals kx : List (C18Val R)).any fun a => c18NatEq a b)
      = natVals (ky.filter p) := by
    induction ky with
    | nil => rfl
    | cons k ky ih =>
      have h1 := any_natVals' (R := R) kx k
      simp only [natVals, List.map_cons, List.filter_cons] at ih h1 ⊢
      rw [h1, hp]
      cases hc : kx.contains k <;>
        simp only [Bool.not_false, Bool.not_true, if_true, if_false, List.map_cons, ih,
          Bool.false_eq_true]
  rw [hf]
  simp [natVals]

theorem keys_natVals (x : MVOf R) :
    x.map (fun p => (C18Val.nat p.1 : C18Val R)) = natVals (dkeys x) := by
  simp [natVals, dkeys]

def addStep (z : R → Bool) (x y : MVOf R) (acc : MVOf R) : C18Val R → MVOf R
  | .nat k =>
    let nc := (dictGet x k).getD 0 + (dictGet y k).getD 0
    if z nc then acc else dictSet acc k nc
  | _ => acc

theorem foldl_addStep (z : R → Bool) (x y : MVOf R) (l : List Nat) (acc : MVOf R) :
    (natVals l : List (C18Val R)).foldl (addStep z x y) acc
      = l.foldl (fun acc bits =>
          let nc := (dictGet x bits).getD 0 + (dictGet y bits).getD 0
          if z nc then acc else dictSet acc bits nc) acc := by
  induction l generalizing acc with
  | nil => rfl
  | cons k l ih => simp only [natVals, List.map_cons, List.foldl_cons, addStep] at ih ⊢; exact ih _

@[simp] theorem c18CallMethod_dict_get (rt : C18Rt R) (d : MVOf R) (k : Nat) (dflt : C18Val R) :
    c18CallMethod rt (.dict d) "get" [.nat k, dflt] []
      = .ok (match dictGet d k with | some c => .coef c | none => dflt) := by
  simp only [c18CallMethod]
  cases dictGet d k <;> rfl

@[simp] theorem c18BinVal_bor_list (Γ : C18Ctx R) (a b : List (C18Val R)) :
    c18BinVal Γ .bor (.list a) (.list b)
      = .ok (.list (a ++ b.filter fun y => !a.any fun x => c18NatEq x y)) := rfl

@[simp] theorem c18Prim_set_list (rt : C18Rt R) (xs : List (C18Val R)) :
    c18Prim rt "set" [.list xs] [] = .ok (.list (c18Dedup [] xs)) := rfl

/-- **`__add__` of the table is `mvAddZ`** (both operands `MultiVector`s) -/
theorem c18_add (hc : C18HasCast Γ callee) (hinit : C18HasInit callee) (x y : MVOf R)
    (hx : (dkeys x).Nodup) (hy : (dkeys y).Nodup) :
    c18RunFn c18ExpectedModule Γ fuel callee c18X_MultiVector___add__ [.mv x, .mv y] []
      = .ok (.mv (mvAddZ Γ.z x y)) := by
  have hcast := hc (.mv y) y rfl
  have hmodel : mvAddZ Γ.z x y = (dkeys x ++ (dkeys y).filter fun k => (dictGet x k).isNone).foldl
      (fun acc bits =>
        let nc := (dictGet x bits).getD 0 + (dictGet y bits).getD 0
        if Γ.z nc then acc else dictSet acc bits nc) [] := rfl
  have hkx1 := keys_natVals x
  have hky1 := keys_natVals y
  have hsomex := dictGet_some_of_mem x
  have hsomey := dictGet_some_of_mem y
  have hnone := dictGet_isNone_iff x
  generalize dkeys x = kx at *
  generalize dkeys y = ky at *
  simp only [c18RunFn, c18X_MultiVector___add__, c18BindArgs, List.nil_append, List.cons_append,
    List.map_cons, List.map_nil]
  have hdx : c18Dedup [] (natVals kx : List (C18Val R)) = natVals kx :=
    dedup_natVals (R := R) kx [] hx (by simp)
  have hdy : c18Dedup [] (natVals ky : List (C18Val R)) = natVals ky :=
    dedup_natVals (R := R) ky [] hy (by simp)
  have hun := union_natVals (R := R) kx ky (fun k => (dictGet x k).isNone) hnone
  obtain ⟨env', hfor, b, c, rfl⟩ := c18For_fold
    (bind := c18BindNames ["bits"])
    (body := c18ExecList (c18Rt Γ fuel callee) [
      .assign [.name "new_coeff"] false (.bin .add (.callMethod (.attr (.name "self") "data") "get" [(.name "bits"), (.nat 0)] [] []) (.callMethod (.attr (.name "other") "data") "get" [(.name "bits"), (.nat 0)] [] [])),
      .ifThen (.un .not (.call (.name "is_zero") [(.name "new_coeff")] [] []))
        [.assign [.index "new_data" (.name "bits")] false (.name "new_coeff")] []])
    (fun env acc => ∃ b c, env = [("self", .mv x), ("other", .mv y),
      ("all_bits", .list (natVals (kx ++ ky.filter fun k => (dictGet x k).isNone))),
      ("is_zero", .prim "pymbolic.primitives.is_zero"), ("new_data", .dict acc), ("bits", b),
      ("new_coeff", c)])
    (addStep Γ.z x y)
    (natVals (kx ++ ky.filter fun k => (dictGet x k).isNone))
    [("self", .mv x), ("other", .mv y),
      ("all_bits", .list (natVals (kx ++ ky.filter fun k => (dictGet x k).isNone))),
      ("is_zero", .prim "pymbolic.primitives.is_zero"), ("new_data", .dict []), ("bits", .unbound),
      ("new_coeff", .unbound)] [] ⟨_, _, rfl⟩
    (by
      intro env acc xv hxv ⟨b, c', henv⟩
      simp only [natVals, List.mem_map] at hxv
      obtain ⟨k, hkmem, rfl⟩ := hxv
      subst henv
      have hsome : (∃ cx, dictGet x k = some cx) ∨ (∃ cy, dictGet y k = some cy) := by
        rcases List.mem_append.mp hkmem with h | h
        · exact Or.inl (hsomex k h)
        · exact Or.inr (hsomey k (List.mem_filter.mp h).1)
      refine ⟨[("self", .mv x), ("other", .mv y),
          ("all_bits", .list (natVals (kx ++ ky.filter fun k => (dictGet x k).isNone))),
          ("is_zero", .prim "pymbolic.primitives.is_zero"), ("new_data", .dict acc),
          ("bits", .nat k), ("new_coeff", c')],
        [("self", .mv x), ("other", .mv y),
          ("all_bits", .list (natVals (kx ++ ky.filter fun k => (dictGet x k).isNone))),
          ("is_zero", .prim "pymbolic.primitives.is_zero"),
          ("new_data", .dict (addStep Γ.z x y acc (.nat k))), ("bits", .nat k),
          ("new_coeff", .coef ((dictGet x k).getD 0 + (dictGet y k).getD 0))], ?_, ?_,
        ⟨_, _, rfl⟩⟩
      · simp [c18BindNames, c18Set]
      · cases hgx : dictGet x k with
        | none =>
          cases hgy : dictGet y k with
          | none => rcases hsome with ⟨_, h⟩ | ⟨_, h⟩ <;> simp [hgx, hgy] at h
          | some cy => cases hz : Γ.z (0 + cy) <;> c18sym [hgx, hgy, addStep, hz]
        | some cx =>
          cases hgy : dictGet y k with
          | none => cases hz : Γ.z (cx + 0) <;> c18sym [hgx, hgy, addStep, hz]
          | some cy => cases hz : Γ.z (cx + cy) <;> c18sym [hgx, hgy, addStep, hz])
  rw [hmodel, ← foldl_addStep]
  c18sym [hcast, hkx1, hky1, hdx, hdy, hun, hfor, hinit _]

end
end PV.GA.C18T
