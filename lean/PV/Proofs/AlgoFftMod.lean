import PV.Proofs.AlgoFft
import Mathlib.Data.ZMod.Basic
import Mathlib.RingTheory.RootsOfUnity.PrimitiveRoots

/-!
  PV.Proofs.AlgoFftMod — (1) the model of `fft` is natural in the carrier (a map that preserves
  `add`, `mul`, `zero` and the twiddles commutes with it); (2) hence the instance the driver runs
  (naturals with `% p` arithmetic) is the image of the `ZMod p` instance of the ring theorem,
  so the driver's answers ARE the DFT modulo `p`; (3) in an integral domain primitive roots are
  principal.
-/

namespace PV.Algo

open Finset

/-! ### naturality of the model -/

section Hom

variable {A : Type*} {B : Type*} (f : A → B)
  (addA mulA : A → A → A) (zeroA : A) (addB mulB : B → B → B) (zeroB : B)

theorem c19_integerPowerLoop_map (hmul : ∀ a b, f (mulA a b) = mulB (f a) (f b))
    (aux x : A) (n : ℕ) :
    f (integerPowerLoop mulA aux x n) = integerPowerLoop mulB (f aux) (f x) n := by
  induction n using Nat.strong_induction_on generalizing aux x with
  | _ n ih =>
    conv_lhs => rw [integerPowerLoop]
    conv_rhs => rw [integerPowerLoop]
    split_ifs with h0 h1 h2
    · exact hmul _ _
    · rw [ih (n / 2) (by omega), hmul, hmul]
    · rw [ih (n / 2) (by omega), hmul]
    · rfl

theorem c19_stride_map (x : List A) (s k : ℕ) (hk : 1 ≤ k) :
    stride (x.map f) s k = (stride x s k).map f := by
  apply List.ext_getElem?
  intro j
  rw [stride_getElem? _ s k j hk, List.getElem?_map, List.getElem?_map,
    stride_getElem? _ s k j hk]

theorem c19VecAdd_map (hadd : ∀ a b, f (addA a b) = addB (f a) (f b)) (a b : List A) :
    (c19VecAdd addA a b).map f = c19VecAdd addB (a.map f) (b.map f) := by
  unfold c19VecAdd
  rw [List.map_zipWith, List.zipWith_map]
  congr 1
  funext a b
  exact hadd a b

theorem c19PySum_map (hadd : ∀ a b, f (addA a b) = addB (f a) (f b)) (hzero : f zeroA = zeroB)
    (ts : List (List A)) :
    (c19PySum addA zeroA ts).map f = c19PySum addB zeroB (ts.map (List.map f)) := by
  cases ts with
  | nil => rfl
  | cons t ts =>
    simp only [c19PySum, List.map_cons]
    have hfold : ∀ (ts : List (List A)) (acc : List A),
        (ts.foldl (c19VecAdd addA) acc).map f =
          (ts.map (List.map f)).foldl (c19VecAdd addB) (acc.map f) := by
      intro ts
      induction ts with
      | nil => intro acc; rfl
      | cons u us ih =>
        intro acc
        simp only [List.foldl_cons, List.map_cons]
        rw [ih, c19VecAdd_map f addA addB hadd]
    rw [hfold]
    congr 1
    simp only [List.map_map]
    refine List.map_congr_left fun v _ => ?_
    simp only [Function.comp]
    rw [hadd, hzero]

theorem c19FftStep_map (hadd : ∀ a b, f (addA a b) = addB (f a) (f b))
    (hmul : ∀ a b, f (mulA a b) = mulB (f a) (f b)) (hzero : f zeroA = zeroB)
    (rpA : ℕ → ℕ → A) (rpB : ℕ → ℕ → B) (hrp : ∀ m k, f (rpA m k) = rpB m k)
    (subA : List A → List A) (subB : List B → List B) (x : List A)
    (hsub : ∀ n1 < (findFactors x.length).1,
      (subA (stride x n1 (findFactors x.length).1)).map f =
        subB ((stride x n1 (findFactors x.length).1).map f)) :
    (c19FftStep addA mulA zeroA rpA subA x).map f =
      c19FftStep addB mulB zeroB rpB subB (x.map f) := by
  unfold c19FftStep
  simp only [List.length_map]
  generalize (findFactors x.length).1 = N1 at *
  generalize (findFactors x.length).2 = N2 at *
  rw [List.map_flatMap]
  refine List.flatMap_congr fun k1 _ => ?_
  rw [c19PySum_map f addA zeroA addB zeroB hadd hzero]
  congr 1
  -- the sub-transform lists correspond
  have hsubs : (List.range N1).map (fun n1 =>
        c19VecMul mulB (subB (stride (x.map f) n1 N1)) (c19Twiddles rpB N1 N2 n1)) =
      ((List.range N1).map fun n1 =>
        c19VecMul mulA (subA (stride x n1 N1)) (c19Twiddles rpA N1 N2 n1)).map (List.map f) := by
    rw [List.map_map]
    refine List.map_congr_left fun n1 hn1 => ?_
    have hn1 : n1 < N1 := List.mem_range.mp hn1
    simp only [Function.comp]
    unfold c19VecMul c19Twiddles
    rw [List.map_zipWith, c19_stride_map f x n1 N1 (by omega), ← hsub n1 hn1]
    simp only [hmul, ← hrp, List.zipWith_map_left, List.zipWith_map_right]
  rw [hsubs]
  simp only [List.zipIdx_map, List.map_map]
  refine List.map_congr_left fun pr _ => ?_
  simp only [Function.comp, Prod.map, id, c19VecScale, List.map_map]
  refine List.map_congr_left fun v _ => ?_
  simp only [Function.comp]
  rw [hmul, hrp]

/-- Naturality of the whole recursion. -/
theorem c19FftAux_map (hadd : ∀ a b, f (addA a b) = addB (f a) (f b))
    (hmul : ∀ a b, f (mulA a b) = mulB (f a) (f b)) (hzero : f zeroA = zeroB)
    (rpA : ℕ → ℕ → A) (rpB : ℕ → ℕ → B) (hrp : ∀ m k, f (rpA m k) = rpB m k) (fuel : ℕ) :
    ∀ x : List A, (c19FftAux addA mulA zeroA rpA fuel x).map f =
      c19FftAux addB mulB zeroB rpB fuel (x.map f) := by
  induction fuel with
  | zero => intro x; rfl
  | succ fuel ih =>
    intro x
    unfold c19FftAux
    simp only [List.length_map]
    split_ifs with h1
    · rfl
    · exact c19FftStep_map f addA mulA zeroA addB mulB zeroB hadd hmul hzero rpA rpB hrp _ _ x
        (fun n1 _ => ih _)

theorem c19Fft_map (hadd : ∀ a b, f (addA a b) = addB (f a) (f b))
    (hmul : ∀ a b, f (mulA a b) = mulB (f a) (f b)) (hzero : f zeroA = zeroB)
    (rpA : ℕ → ℕ → A) (rpB : ℕ → ℕ → B) (hrp : ∀ m k, f (rpA m k) = rpB m k) (x : List A) :
    (c19Fft addA mulA zeroA rpA x).map f = c19Fft addB mulB zeroB rpB (x.map f) := by
  unfold c19Fft
  rw [List.length_map]
  exact c19FftAux_map f addA mulA zeroA addB mulB zeroB hadd hmul hzero rpA rpB hrp _ x

end Hom

/-! ### the driver's instance: naturals with `% p` arithmetic = image of `ZMod p` under `val` -/

section Mod

variable (p : ℕ) [NeZero p]

omit [NeZero p] in
theorem c19RpMod_eq_val (n z m k : ℕ) :
    c19RpMod p n z m k = ((z : ZMod p) ^ (n / m * k)).val := by
  unfold c19RpMod integerPower
  rw [← integerPower_eq_pow, integerPower,
    c19_integerPowerLoop_map (ZMod.val (n := p)) (· * ·) (c19MulMod p)
      (fun a b => ZMod.val_mul a b)]
  congr 1
  · rw [ZMod.val_one_eq_one_mod]
  · rw [ZMod.val_natCast]

/-- The transform the driver computes over `Z_p` is the `val`-image of the ring-generic model
instantiated at `ZMod p`. -/
theorem c19FftMod_eq_val (z : ℕ) (x : List ℕ) (rp : ℕ → ℕ → ZMod p)
    (hrp : ∀ m k, rp m k = (z : ZMod p) ^ (x.length / m * k)) :
    c19Fft (c19AddMod p) (c19MulMod p) 0 (c19RpMod p x.length z) (x.map (· % p)) =
      (c19Fft (· + ·) (· * ·) (0 : ZMod p) rp (x.map (Nat.cast))).map ZMod.val := by
  rw [c19Fft_map (ZMod.val (n := p)) (· + ·) (· * ·) 0 (c19AddMod p) (c19MulMod p) 0
    (fun a b => ZMod.val_add a b) (fun a b => ZMod.val_mul a b) ZMod.val_zero rp
    (c19RpMod p x.length z) (fun m k => by rw [c19RpMod_eq_val, hrp])]
  congr 1
  rw [List.map_map]
  refine List.map_congr_left fun a _ => ?_
  simp only [Function.comp, ZMod.val_natCast]

/-- DFT modulo `p` written with naturals only. -/
def c19DftMod (p z : ℕ) (x : List ℕ) : List ℕ :=
  (List.range x.length).map fun k => (∑ j ∈ range x.length, z ^ (k * j) * x.getD j 0) % p

omit [NeZero p] in
theorem c19DftMod_eq_val (z : ℕ) (x : List ℕ) :
    c19DftMod p z x = (c19Dft (z : ZMod p) (x.map Nat.cast)).map ZMod.val := by
  unfold c19DftMod c19Dft
  rw [List.map_map, List.length_map]
  refine List.map_congr_left fun k _ => ?_
  simp only [Function.comp]
  rw [← ZMod.val_natCast p]
  congr 1
  push_cast
  refine Finset.sum_congr rfl fun j _ => ?_
  congr 1
  rw [List.getD_eq_getElem?_getD, List.getD_eq_getElem?_getD, List.getElem?_map]
  cases x[j]? <;> simp

/-- What the compiled driver answers to `(c19-fft p z (x…))` is exactly the DFT modulo `p`,
for every modulus `p ≥ 1`, every `z` with `z^n ≡ 1 (mod p)` and every vector of length `n ≥ 1`. -/
theorem c19FftMod_eq_dftMod (z : ℕ) (x : List ℕ) (hpos : 1 ≤ x.length)
    (hz : z ^ x.length % p = 1 % p) :
    c19FftMod p z x = some (c19DftMod p z x) := by
  have hzz : (z : ZMod p) ^ x.length = 1 := by
    have := (ZMod.natCast_eq_natCast_iff' (z ^ x.length) 1 p).mpr hz
    simpa using this
  unfold c19FftMod c19FftPy
  rw [List.length_map]
  have hne : findFactorsPy x.length ≠ none := by
    rw [Ne, findFactorsPy_eq_none_iff]; omega
  cases hff : findFactorsPy x.length with
  | none => exact absurd hff hne
  | some v =>
    simp only []
    rw [c19FftMod_eq_val p z x (fun m k => (z : ZMod p) ^ (x.length / m * k)) (fun _ _ => rfl),
      c19Fft_eq_dft (z : ZMod p) _ (x.map Nat.cast) (by simpa using hpos) (by simpa using hzz)
        (by intro m k _; simp),
      c19DftMod_eq_val]

/-- What the driver answers to `(c19-ifft p zinv ninv (y…))` on the transform of `x` is `x`
(reduced mod `p`): `zinv`, `ninv` inverse to `z`, `n` modulo `p`, and `z` a principal `n`-th root
in `ZMod p` (e.g. `p` prime and `z` of multiplicative order `n`). -/
theorem c19IfftMod_fftMod (z zinv ninv : ℕ) (x : List ℕ) (hpos : 1 ≤ x.length)
    (hz : z ^ x.length % p = 1 % p) (hzi : z * zinv % p = 1 % p)
    (hn : ninv * x.length % p = 1 % p) (horth : c19Principal (z : ZMod p) x.length) :
    c19IfftMod p zinv ninv (c19DftMod p z x) = some (x.map (· % p)) := by
  have cast1 : ∀ a : ℕ, a % p = 1 % p → (a : ZMod p) = 1 := fun a h => by
    have := (ZMod.natCast_eq_natCast_iff' a 1 p).mpr h
    simpa using this
  have hzz : (z : ZMod p) ^ x.length = 1 := by simpa using cast1 _ hz
  have hzzi : (z : ZMod p) * (zinv : ZMod p) = 1 := by simpa using cast1 _ hzi
  have hnn : (ninv : ZMod p) * (x.length : ZMod p) = 1 := by simpa using cast1 _ hn
  have hzinv : (zinv : ZMod p) ^ x.length = 1 := by
    have : ((z : ZMod p) * zinv) ^ x.length = 1 := by rw [hzzi, one_pow]
    rwa [mul_pow, hzz, one_mul] at this
  have hlen : (c19DftMod p z x).length = x.length := by simp [c19DftMod]
  unfold c19IfftMod c19IfftPy
  rw [List.length_map, hlen, if_neg (by omega)]
  congr 1
  unfold c19Ifft
  have hy : (c19DftMod p z x).map (Nat.cast : ℕ → ZMod p) = c19Dft (z : ZMod p) (x.map Nat.cast) := by
    rw [c19DftMod_eq_val, List.map_map]
    conv_rhs => rw [← List.map_id (c19Dft (z : ZMod p) (x.map Nat.cast))]
    refine List.map_congr_left fun v _ => ?_
    simp only [Function.comp, id, ZMod.natCast_zmod_val]
  have h1 := c19FftMod_eq_val p zinv (c19DftMod p z x)
    (fun m k => (zinv : ZMod p) ^ (x.length / m * k)) (fun m k => by rw [hlen])
  rw [hlen] at h1
  rw [h1, hy, c19Fft_eq_dft (zinv : ZMod p) _ _ (by simpa using hpos) (by simpa using hzinv)
    (by intro m k _; simp)]
  have h2 := c19Dft_inv (z : ZMod p) (zinv : ZMod p) (ninv : ZMod p) (x.map Nat.cast)
    (by simpa using hzz) hzzi (by simpa using hnn) (by simpa using horth)
  have h3 : x.map (· % p) = (x.map (Nat.cast : ℕ → ZMod p)).map ZMod.val := by
    rw [List.map_map]
    refine List.map_congr_left fun a _ => ?_
    simp only [Function.comp, ZMod.val_natCast]
  have h4 : ∀ L : List (ZMod p), (L.map ZMod.val).map (fun v => c19MulMod p (ninv % p) v) =
      (L.map fun v => (ninv : ZMod p) * v).map ZMod.val := fun L => by
    rw [List.map_map, List.map_map]
    refine List.map_congr_left fun v _ => ?_
    simp only [Function.comp, c19MulMod]
    rw [ZMod.val_mul, ZMod.val_natCast, Nat.mod_mul_mod]
  rw [h4, h2, h3]

end Mod

/-! ### primitive roots in integral domains are principal -/

theorem c19Principal_of_isPrimitiveRoot {R : Type*} [CommRing R] [IsDomain R] {z : R} {n : ℕ}
    (h : IsPrimitiveRoot z n) : c19Principal z n := by
  intro d hd0 hdn
  have hne : z ^ d ≠ 1 := h.pow_ne_one_of_pos_of_lt hd0.ne' hdn
  have hg : (1 - z ^ d) * ∑ k ∈ range n, (z ^ d) ^ k = 1 - (z ^ d) ^ n := mul_neg_geom_sum _ _
  rw [← pow_mul, mul_comm d n, pow_mul, h.pow_eq_one, one_pow, sub_self] at hg
  have h0 := (mul_eq_zero.mp hg).resolve_left (sub_ne_zero_of_ne hne.symm)
  rw [← h0]
  exact Finset.sum_congr rfl fun k _ => by rw [← pow_mul, mul_comm]

end PV.Algo
