import PV.Proofs.SyntaxLexGood
/-
  C06.  The printed form of a lexically safe tree (`LexSafe S e`) is a `Good` piece list; hence
  the model lexer reads the rendered STRING back as the printer's token list
  (`lex_render`).  The printer table `S` is arbitrary.
-/
set_option linter.unusedSimpArgs false
namespace PV.Lexer
open PV PV.Syntax


/-! ### the lexical side conditions on a tree -/

mutual
/-- **lexical safety** of a tree for the printer table `S`: every name is lexed as one
identifier (`identOk`), every float constant prints with a `repr` spelling that reads back as the
same constant (`fltPieceOk`), integers have at most 4300 digits, n-ary nodes are non-empty,
slices have at least two parts, and the printed aggregate of an attribute look-up does not end
in an integer literal (`1.u` is lexed as a float with a letter tag) -/
def LexSafe (S : PrintPrec) : Expr → Bool
  | .const (.int n) => natOk n.natAbs
  | .const (.bool _) => true
  | .const (.flt r n d) =>
      if r.startsWith "-" then fltPieceOk (r.drop 1).toString (-n) d else fltPieceOk r n d
  | .var x => identOk x.toList
  | .nary .min _ => false
  | .nary .max _ => false
  | .nary _ cs => !cs.isEmpty && LexSafeL S cs
  | .bin _ a b => LexSafe S a && LexSafe S b
  | .un _ a => LexSafe S a
  | .cmp _ a b => LexSafe S a && LexSafe S b
  | .ite c t e => LexSafe S c && LexSafe S t && LexSafe S e
  | .call f as => LexSafe S f && LexSafeL S as
  | .callKw f as ns vs =>
      LexSafe S f && LexSafeL S as && LexSafeL S vs && ns.all (fun k => identOk k.toList)
  | .subscript a i => LexSafe S a && LexSafe S i
  | .lookup a n =>
      LexSafe S a && identOk n.toList &&
        (match strE S a S.call with
         | .ok ap => !endsInt ap
         | .error _ => true)
  | .tuple cs => LexSafeL S cs
  | .list cs => LexSafeL S cs
  | .slice cs => decide (2 ≤ cs.length) && LexSafeSlice S cs
  | _ => false
def LexSafeL (S : PrintPrec) : List Expr → Bool
  | [] => true
  | c :: cs => LexSafe S c && LexSafeL S cs
/-- parts of a slice: an omitted part (`None`) prints as nothing -/
def LexSafeSlice (S : PrintPrec) : List Expr → Bool
  | [] => true
  | .const .none :: cs => LexSafeSlice S cs
  | c :: cs => LexSafe S c && LexSafeSlice S cs
end


theorem cmp_sym_entry (o : CmpOp) : (symEntry o.sym.toList).isSome = true := by
  cases o <;> rfl

theorem good_kw {k : String} (hk : identOk k.toList = true) {v : Pieces} (hv : Good v) :
    Good ((.tok (.ident k) : Piece) :: sy "=" :: v) := by
  have hgk := good_ident hk
  have hp : PreOk [(.tok (.ident k) : Piece), sy "="] := by
    refine ⟨by simp, ?_, fun c hc => ?_⟩
    · obtain ⟨c, hc, hs⟩ := hgk.start
      exact ⟨c, hc, hs⟩
    · have hne : c ≠ '=' := start_ne hc (by decide)
      have h1 : nextCharN [sy "="] (some c) = some '=' := rfl
      have h2 : nextCharN [] (some c) = some c := rfl
      have h3 : pieceOk (.tok (.ident k)) (some '=') = true := by
        simp only [pieceOk, hk, Bool.true_and]; decide
      have h4 : pieceOk (sy "=") (some c) = true := by
        rw [pieceOk_sym se_assign]; simp [nextNot, hne]
      simp only [adjOkN, h1, h2, h3, h4, Bool.and_self]
  simpa using Good.pre hp hv

theorem good_kws : ∀ (ns : List String) (vp : List Pieces),
    ns.all (fun k => identOk k.toList) = true → (∀ v ∈ vp, Good v) →
    ∀ x ∈ (ns.zip vp).map (fun p => (.tok (.ident p.1) : Piece) :: sy "=" :: p.2), Good x
  | [], _, _, _, x, hx => by simp at hx
  | _ :: _, [], _, _, x, hx => by simp at hx
  | k :: ns, v :: vp, hk, hv, x, hx => by
    simp only [List.all_cons, Bool.and_eq_true] at hk
    simp only [List.zip_cons_cons, List.map_cons, List.mem_cons] at hx
    rcases hx with rfl | hx
    · exact good_kw hk.1 (hv v (List.mem_cons_self ..))
    · exact good_kws ns vp hk.2 (fun w hw => hv w (List.mem_cons_of_mem _ hw)) x hx


theorem good_spaced {x y : Pieces} {op : String} (hx : Good x) (hy : Good y)
    (ho : (symEntry op.toList).isSome = true) : Good (x ++ [.sp, sy op, .sp] ++ y) :=
  hx.sep (sepOk_spaced ho) hy

theorem good_joinSpaced {op : String} (ho : (symEntry op.toList).isSome = true)
    {xs : List Pieces} (hne : xs ≠ []) (hx : ∀ x ∈ xs, Good x) (enc my : Nat) :
    Good (parenIf (joinWith [.sp, sy op, .sp] xs) enc my) :=
  good_parenIf (good_joinWith (sepOk_spaced ho) xs hne hx) enc my

theorem strL_length {S : PrintPrec} : ∀ {cs : List Expr} {enc : Nat} {xs : List Pieces},
    strL S cs enc = .ok xs → xs.length = cs.length
  | [], _, xs, h => by rw [strL_nil h]; rfl
  | c :: cs, _, xs, h => by
    obtain ⟨x, xs', _, hxs, rfl⟩ := strL_cons h
    simp [strL_length hxs]

theorem strForceL_length {S : PrintPrec} {all : Bool} : ∀ {cs : List Expr} {enc : Nat}
    {xs : List Pieces}, strForceL S all cs enc = .ok xs → xs.length = cs.length
  | [], _, xs, h => by rw [strForceL_nil h]; rfl
  | c :: cs, _, xs, h => by
    obtain ⟨x, xs', _, hxs, rfl⟩ := strForceL_cons h
    simp [strForceL_length hxs]

theorem ne_nil_of_length {α β : Type} {xs : List α} {cs : List β} (h : xs.length = cs.length)
    (hc : cs.isEmpty = false) : xs ≠ [] := by
  rintro rfl
  cases cs with
  | nil => simp at hc
  | cons _ _ => simp at h

theorem strE_subscript_inv {S : PrintPrec} {a i : Expr} {enc : Nat} {ps : Pieces}
    (hi : ∀ cs, i ≠ .tuple cs) (h : strE S (.subscript a i) enc = .ok ps) :
    ∃ ap ip, strE S a S.call = .ok ap ∧ strE S i S.none = .ok ip ∧
      ps = parenIf (ap ++ [sy "["] ++ ip ++ [sy "]"]) enc S.call := by
  have hi' : ∀ cs, i = .tuple cs → False := hi
  rw [strE] at h
  · simp only [bind_eq_ok, pure, Except.pure, Except.ok.injEq] at h
    obtain ⟨y, hy, x, hx, rfl⟩ := h
    exact ⟨x, y, hx, hy, rfl⟩
  · exact hi'

mutual
theorem strE_good (S : PrintPrec) : ∀ (e : Expr) (enc : Nat) (ps : Pieces),
    LexSafe S e = true → strE S e enc = .ok ps → Good ps
  | .const (.int n), enc, ps, hs, h => by
    simp only [LexSafe] at hs
    simp only [strE, constPieces] at h
    split at h
    · simp only [pure, Except.pure, Except.ok.injEq] at h
      have hg : Good [sy "-", .tok (.int n.natAbs)] := by
        simpa using Good.pre preOk_minus (good_nat hs)
      subst h
      split
      · exact good_parens hg
      · exact hg
    · simp only [pure, Except.pure, Except.ok.injEq] at h
      subst h
      have : n.toNat = n.natAbs := by omega
      rw [this]; exact good_nat hs
  | .const (.bool b), enc, ps, hs, h => by
    simp only [strE, constPieces, pure, Except.pure, Except.ok.injEq] at h
    subst h
    cases b
    · exact good_false
    · exact good_true
  | .const (.flt r n d), enc, ps, hs, h => by
    simp only [LexSafe] at hs
    simp only [strE, constPieces] at h
    split at h
    · cases h
    · simp only [pure, Except.pure, Except.ok.injEq] at h
      subst h
      by_cases hneg : r.startsWith "-" = true
      · simp only [hneg, if_true] at hs ⊢
        have hg : Good [sy "-", .tok (.flt (r.drop 1).toString (-n) d)] := by
          simpa using Good.pre preOk_minus (good_flt hs)
        split
        · exact good_parens hg
        · exact hg
      · simp only [hneg, Bool.false_eq_true, if_false] at hs ⊢
        split
        · exact good_parens (good_flt hs)
        · exact good_flt hs
  | .const (.str _), enc, ps, hs, h => by simp [strE, constPieces] at h
  | .const .none, enc, ps, hs, h => by simp [strE, constPieces] at h
  | .var x, enc, ps, hs, h => by
    simp only [LexSafe] at hs
    simp only [strE, pure, Except.pure, Except.ok.injEq] at h
    subst h; exact good_ident hs
  | .call f as, enc, ps, hs, h => by
    simp only [LexSafe, Bool.and_eq_true] at hs
    simp only [strE, bind_eq_ok, pure, Except.pure, Except.ok.injEq] at h
    obtain ⟨fp, hf, ap, ha, rfl⟩ := h
    exact good_bracketed (strE_good S f _ _ hs.1 hf) sepOk_lpar sufOk_rpar sufOk_call0
      (strL_good S as _ _ hs.2 ha)
  | .callKw f as ns vs, enc, ps, hs, h => by
    simp only [LexSafe, Bool.and_eq_true] at hs
    simp only [strE, bind_eq_ok, pure, Except.pure, Except.ok.injEq] at h
    obtain ⟨ap, ha, vp, hv, fp, hf, rfl⟩ := h
    refine good_bracketed (strE_good S f _ _ hs.1.1.1 hf) sepOk_lpar sufOk_rpar sufOk_call0 ?_
    intro x hx
    rcases List.mem_append.mp hx with hx | hx
    · exact strL_good S as _ _ hs.1.1.2 ha x hx
    · exact good_kws ns vp hs.2 (strL_good S vs _ _ hs.1.2 hv) x hx
  | .subscript a i, enc, ps, hs, h => by
    simp only [LexSafe, Bool.and_eq_true] at hs
    have iha := fun ps h1 => strE_good S a S.call ps hs.1 h1
    have ihi := fun ps h1 h2 => strE_good S i S.none ps h1 h2
    cases i with
    | tuple cs =>
      simp only [strE, bind_eq_ok, pure, Except.pure, Except.ok.injEq] at h
      obtain ⟨ip, hi, ap, ha, rfl⟩ := h
      have hsl : LexSafeL S cs = true := by simpa [LexSafe] using hs.2
      exact good_parenIf (good_bracketed (iha _ ha) sepOk_lbr sufOk_rbr sufOk_index0
        (strL_good S cs _ _ hsl hi)) _ _
    | _ =>
      obtain ⟨ap, ip, ha, hi, rfl⟩ := strE_subscript_inv (by intro cs h; cases h) h
      exact good_parenIf (((iha _ ha).sep sepOk_lbr (ihi _ hs.2 hi)).suf sufOk_rbr) _ _
  | .lookup a n, enc, ps, hs, h => by
    simp only [LexSafe, Bool.and_eq_true] at hs
    simp only [strE, bind_eq_ok, pure, Except.pure, Except.ok.injEq] at h
    obtain ⟨ap, ha, rfl⟩ := h
    have hd : endsInt ap = false := by
      have := hs.2
      rw [ha] at this
      simpa using this
    exact good_parenIf (good_lookup (strE_good S a _ _ hs.1.1 ha) hd hs.1.2) _ _
  | .nary o cs, enc, ps, hs, h => by
    cases o with
    | min => simp [LexSafe] at hs
    | max => simp [LexSafe] at hs
    | prod =>
      simp only [LexSafe, Bool.and_eq_true, Bool.not_eq_true'] at hs
      simp only [strE, bind_eq_ok, pure, Except.pure, Except.ok.injEq] at h
      obtain ⟨xs, hx, rfl⟩ := h
      exact good_parenIf (good_joinWith sepOk_times xs
        (ne_nil_of_length (strForceL_length hx) hs.1) (strForceL_good S false cs _ _ hs.2 hx)) _ _
    | sum | bor | bxor | band | lor | land =>
      simp only [LexSafe, Bool.and_eq_true, Bool.not_eq_true'] at hs
      simp only [strE, bind_eq_ok, pure, Except.pure, Except.ok.injEq] at h
      obtain ⟨xs, hx, rfl⟩ := h
      exact good_joinSpaced rfl (ne_nil_of_length (strL_length hx) hs.1)
        (strL_good S cs _ _ hs.2 hx) _ _
  | .bin o a b, enc, ps, hs, h => by
    simp only [LexSafe, Bool.and_eq_true] at hs
    cases o <;> simp only [strE, bind_eq_ok, pure, Except.pure, Except.ok.injEq] at h <;>
      obtain ⟨x, hx, y, hy, rfl⟩ := h
    · exact good_parenIf (good_spaced (good_forceWrap (strE_good S a _ _ hs.1 hx) _ _)
        (good_forceWrap (strE_good S b _ _ hs.2 hy) _ _) rfl) _ _
    · exact good_parenIf (good_spaced (good_forceWrap (strE_good S a _ _ hs.1 hx) _ _)
        (good_forceWrap (strE_good S b _ _ hs.2 hy) _ _) rfl) _ _
    · exact good_parenIf (good_spaced (good_forceWrap (strE_good S a _ _ hs.1 hx) _ _)
        (good_forceWrap (strE_good S b _ _ hs.2 hy) _ _) rfl) _ _
    · exact good_parenIf ((strE_good S a _ _ hs.1 hx).sep sepOk_pow (strE_good S b _ _ hs.2 hy)) _ _
    · exact good_parenIf (good_spaced (strE_good S a _ _ hs.1 hx) (strE_good S b _ _ hs.2 hy) rfl) _ _
    · exact good_parenIf (good_spaced (strE_good S a _ _ hs.1 hx) (strE_good S b _ _ hs.2 hy) rfl) _ _
  | .un o a, enc, ps, hs, h => by
    simp only [LexSafe] at hs
    cases o <;> simp only [strE, bind_eq_ok, pure, Except.pure, Except.ok.injEq] at h <;>
      obtain ⟨x, hx, rfl⟩ := h
    · exact good_parenIf (by simpa using Good.pre preOk_bnot (strE_good S a _ _ hs hx)) _ _
    · exact good_parenIf (by simpa using Good.pre preOk_not (strE_good S a _ _ hs hx)) _ _
  | .cmp o a b, enc, ps, hs, h => by
    simp only [LexSafe, Bool.and_eq_true] at hs
    simp only [strE, bind_eq_ok, pure, Except.pure, Except.ok.injEq] at h
    obtain ⟨x, hx, y, hy, rfl⟩ := h
    exact good_parenIf (good_spaced (strE_good S a _ _ hs.1 hx) (strE_good S b _ _ hs.2 hy)
      (cmp_sym_entry o)) _ _
  | .ite c t e, enc, ps, hs, h => by
    simp only [LexSafe, Bool.and_eq_true] at hs
    simp only [strE, bind_eq_ok, pure, Except.pure, Except.ok.injEq] at h
    obtain ⟨tp, ht, cp, hc, ep, he, rfl⟩ := h
    exact good_parenIf (good_spaced (good_spaced (strE_good S t _ _ hs.1.2 ht)
      (strE_good S c _ _ hs.1.1 hc) rfl) (strE_good S e _ _ hs.2 he) rfl) _ _
  | .tuple cs, enc, ps, hs, h => by
    simp only [LexSafe] at hs
    simp only [strE, bind_eq_ok, pure, Except.pure, Except.ok.injEq] at h
    obtain ⟨xs, hx, rfl⟩ := h
    have hg := strL_good S cs _ _ hs hx
    cases xs with
    | nil =>
      have : cs.length = 0 := by simpa using (strL_length hx).symm
      simpa [this, joinWith, parens] using good_unit
    | cons x xs =>
      have hj := good_joinWith sepOk_comma (x :: xs) (by simp) hg
      split
      · exact good_parens (hj.suf sufOk_comma)
      · exact good_parens hj
  | .list cs, enc, ps, hs, h => by
    simp only [LexSafe] at hs
    simp only [strE, bind_eq_ok, pure, Except.pure, Except.ok.injEq] at h
    obtain ⟨xs, hx, rfl⟩ := h
    exact good_seq preOk_lbr sufOk_rbr good_nil (strL_good S cs _ _ hs hx)
  | .slice cs, enc, ps, hs, h => by
    simp only [LexSafe, Bool.and_eq_true, decide_eq_true_eq] at hs
    simp only [strE, bind_eq_ok, pure, Except.pure, Except.ok.injEq] at h
    obtain ⟨xs, hx, rfl⟩ := h
    obtain ⟨hl, hg⟩ := strSliceL_good S cs _ hs.2 hx
    have hne : xs ≠ [] := by
      rintro rfl; simp at hl; omega
    exact good_parenIf ((good_slice xs hne hg).2 (by omega)) _ _
  | .cse .., _, _, hs, _ => by simp [LexSafe] at hs
  | .subst .., _, _, hs, _ => by simp [LexSafe] at hs
  | .deriv .., _, _, hs, _ => by simp [LexSafe] at hs
  | .nan, _, _, hs, _ => by simp [LexSafe] at hs
  | .wildcard, _, _, hs, _ => by simp [LexSafe] at hs
  | .dotWild _, _, _, hs, _ => by simp [LexSafe] at hs
  | .starWild _, _, _, hs, _ => by simp [LexSafe] at hs
  | .funcSym, _, _, hs, _ => by simp [LexSafe] at hs
theorem strL_good (S : PrintPrec) : ∀ (cs : List Expr) (enc : Nat) (xs : List Pieces),
    LexSafeL S cs = true → strL S cs enc = .ok xs → ∀ x ∈ xs, Good x
  | [], _, xs, _, h => by rw [strL_nil h]; intro x hx; cases hx
  | c :: cs, enc, xs, hs, h => by
    simp only [LexSafeL, Bool.and_eq_true] at hs
    obtain ⟨x, xs', hx, hxs, rfl⟩ := strL_cons h
    intro y hy
    rcases List.mem_cons.mp hy with rfl | hy
    · exact strE_good S c _ _ hs.1 hx
    · exact strL_good S cs _ _ hs.2 hxs y hy
theorem strForceL_good (S : PrintPrec) (all : Bool) : ∀ (cs : List Expr) (enc : Nat)
    (xs : List Pieces), LexSafeL S cs = true → strForceL S all cs enc = .ok xs → ∀ x ∈ xs, Good x
  | [], _, xs, _, h => by rw [strForceL_nil h]; intro x hx; cases hx
  | c :: cs, enc, xs, hs, h => by
    simp only [LexSafeL, Bool.and_eq_true] at hs
    obtain ⟨x, xs', hx, hxs, rfl⟩ := strForceL_cons h
    intro y hy
    rcases List.mem_cons.mp hy with rfl | hy
    · exact good_forceWrap (strE_good S c _ _ hs.1 hx) _ _
    · exact strForceL_good S all cs _ _ hs.2 hxs y hy
theorem strSliceL_good (S : PrintPrec) : ∀ (cs : List Expr) (xs : List Pieces),
    LexSafeSlice S cs = true → strSliceL S cs = .ok xs →
    xs.length = cs.length ∧ ∀ x ∈ xs, x = [] ∨ Good x
  | [], xs, _, h => by rw [strSliceL_nil h]; exact ⟨rfl, fun x hx => by cases hx⟩
  | c :: cs, xs, hs, h => by
    by_cases hc : c = .const .none
    · subst hc
      simp only [LexSafeSlice] at hs
      obtain ⟨xs', hxs, rfl⟩ := strSliceL_none h
      obtain ⟨hl, hg⟩ := strSliceL_good S cs xs' hs hxs
      refine ⟨by simp [hl], fun y hy => ?_⟩
      rcases List.mem_cons.mp hy with rfl | hy
      · exact Or.inl rfl
      · exact hg y hy
    · obtain ⟨x, xs', hx, hxs, rfl⟩ := strSliceL_cons hc h
      have hs' : LexSafe S c = true ∧ LexSafeSlice S cs = true := by
        rw [LexSafeSlice] at hs
        · simpa using hs
        · exact fun h' => hc h'
      obtain ⟨hl, hg⟩ := strSliceL_good S cs xs' hs'.2 hxs
      refine ⟨by simp [hl], fun y hy => ?_⟩
      rcases List.mem_cons.mp hy with rfl | hy
      · exact Or.inr (strE_good S c _ _ hs'.1 hx)
      · exact hg y hy
end


/-- **the lexer reads the string form of a lexically safe tree back as the printer's tokens** -/
theorem lex_render_safe {S : PrintPrec} {e : Expr} {ps : Pieces} (hs : LexSafe S e = true)
    (h : strTop S e = .ok ps) : lex (render ps) = .ok (toks ps) :=
  lex_render_of_adjOk ((strE_good S e S.none ps hs h).adj none (by decide))

/-- the printed form of a lexically safe tree passes the piece-level check -/
theorem adjOk_of_lexSafe {S : PrintPrec} {e : Expr} {ps : Pieces} (hs : LexSafe S e = true)
    (h : strTop S e = .ok ps) : adjOk ps = true :=
  (strE_good S e S.none ps hs h).adj none (by decide)

end PV.Lexer
