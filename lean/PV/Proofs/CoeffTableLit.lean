import PV.Model.CoeffTable
/-
  C15, T-gen tie.  The table the hand-written model (PV/Model/Coeff.lean) was written against: what
  `extract/coefficient.py` read from pymbolic/mapper/coefficient.py, pymbolic/mapper/__init__.py and
  pymbolic/algorithm.py at the pinned commit, kept here as a LITERAL.  `PV.C15.table_current`
  (PV/Properties/C15Table.lean) proves that the table regenerated on this run equals this literal;
  PV/Proofs/CoeffTable*.lean prove, for all inputs, that the table interpreter run on this literal
  is the hand-written model.  After a source edit that changes a handler, a loop, an operator, a
  copy, … the regenerated table differs and `table_current` breaks.
-/
namespace PV.Coeff
open PV

/-- `CoefficientCollector.__init__`: parameters with defaults, attributes stored -/
def c15ExpInit : C15Init :=
  { definedIn := "CoefficientCollector.__init__",
    params := [("target_names", "None")],
    stores := [("target_names", "target_names")] }

/-- node class ↦ dataclass fields, handler the dispatch reaches on the collector -/
def c15ExpClasses : List C15Class := [
  { cls := "Variable", fields := ["name"], handler := (some "map_variable") },
  { cls := "Sum", fields := ["children"], handler := (some "map_sum") },
  { cls := "Product", fields := ["children"], handler := (some "map_product") },
  { cls := "BitwiseOr", fields := ["children"], handler := none },
  { cls := "BitwiseXor", fields := ["children"], handler := none },
  { cls := "BitwiseAnd", fields := ["children"], handler := none },
  { cls := "LogicalOr", fields := ["children"], handler := none },
  { cls := "LogicalAnd", fields := ["children"], handler := none },
  { cls := "Min", fields := ["children"], handler := none },
  { cls := "Max", fields := ["children"], handler := none },
  { cls := "Quotient", fields := ["numerator", "denominator"], handler := (some "map_quotient") },
  { cls := "FloorDiv", fields := ["numerator", "denominator"], handler := none },
  { cls := "Remainder", fields := ["numerator", "denominator"], handler := none },
  { cls := "Power", fields := ["base", "exponent"], handler := (some "map_power") },
  { cls := "LeftShift", fields := ["shiftee", "shift"], handler := none },
  { cls := "RightShift", fields := ["shiftee", "shift"], handler := none },
  { cls := "BitwiseNot", fields := ["child"], handler := none },
  { cls := "LogicalNot", fields := ["child"], handler := none },
  { cls := "Comparison", fields := ["left", "operator", "right"], handler := none },
  { cls := "If", fields := ["condition", "then", "else_"], handler := none },
  { cls := "Call", fields := ["function", "parameters"], handler := (some "map_call") },
  { cls := "CallWithKwargs", fields := ["function", "parameters", "kw_parameters"], handler := (some "map_algebraic_leaf") },
  { cls := "Subscript", fields := ["aggregate", "index"], handler := (some "map_subscript") },
  { cls := "Lookup", fields := ["aggregate", "name"], handler := (some "map_lookup") },
  { cls := "CommonSubexpression", fields := ["child", "prefix", "scope"], handler := none },
  { cls := "Substitution", fields := ["child", "variables", "values"], handler := none },
  { cls := "Derivative", fields := ["child", "variables"], handler := none },
  { cls := "Slice", fields := ["children"], handler := none },
  { cls := "NaN", fields := ["data_type"], handler := (some "map_nan") },
  { cls := "Wildcard", fields := [], handler := (some "map_algebraic_leaf") },
  { cls := "DotWildcard", fields := ["name"], handler := (some "map_algebraic_leaf") },
  { cls := "StarWildcard", fields := ["name"], handler := (some "map_algebraic_leaf") },
  { cls := "FunctionSymbol", fields := [], handler := (some "map_algebraic_leaf") }]

/-- every handler the dispatch can reach, body translated statement by statement -/
def c15ExpHandlers : List C15Fn := [
  { name := "map_algebraic_leaf", definedIn := "CoefficientCollector.map_algebraic_leaf", params := [], vararg := "",
    body := [
      .ifThen (.or_ (.is_ (.selfAttr "target_names") .pyNone) (.in_ (.getattrOr "name" .pyNone) (.selfAttr "target_names"))) [
        .ret (.mkDict .node (.lit 1))] [
        .ret (.mkDict (.lit 1) .node)]] },
  { name := "map_call", definedIn := "Mapper.map_call", params := [], vararg := "",
    body := [
      .delegate "map_algebraic_leaf"] },
  { name := "map_constant", definedIn := "CoefficientCollector.map_constant", params := [], vararg := "",
    body := [
      .ret (.mkDict (.lit 1) .node)] },
  { name := "map_list", definedIn := "Mapper.map_list", params := [], vararg := "",
    body := [
      .raise_ "NotImplementedError" ""] },
  { name := "map_lookup", definedIn := "Mapper.map_lookup", params := [], vararg := "",
    body := [
      .delegate "map_algebraic_leaf"] },
  { name := "map_nan", definedIn := "Mapper.map_nan", params := [], vararg := "",
    body := [
      .delegate "map_algebraic_leaf"] },
  { name := "map_power", definedIn := "CoefficientCollector.map_power", params := [], vararg := "",
    body := [
      .assign (.name "d_base") (.recField "base"),
      .assign (.name "d_exponent") (.recField "exponent"),
      .ifThen (.or_ (.cmp .gt (.call "len" [(.var "d_exponent")]) (.lit 1)) (.notIn (.lit 1) (.var "d_exponent"))) [
        .raise_ "RuntimeError" "nonlinear expression"] [],
      .ifThen (.or_ (.cmp .gt (.call "len" [(.var "d_base")]) (.lit 1)) (.notIn (.lit 1) (.var "d_base"))) [
        .raise_ "RuntimeError" "nonlinear expression"] [],
      .ret (.mkDict (.lit 1) .node)] },
  { name := "map_product", definedIn := "CoefficientCollector.map_product", params := [], vararg := "",
    body := [
      .assign (.name "result") .emptyDict,
      .assign (.name "children_coeffs") (.recList "children"),
      .assign (.name "idx_of_child_with_vars") .pyNone,
      .forIn (.tup2 (.name "i") (.name "child_coeffs")) (.call "enumerate" [(.var "children_coeffs")]) [
        .forIn (.name "k") (.var "child_coeffs") [
          .ifThen (.cmp .ne (.var "k") (.lit 1)) [
            .ifThen (.and_ (.isNot (.var "idx_of_child_with_vars") .pyNone) (.cmp .ne (.var "idx_of_child_with_vars") (.var "i"))) [
              .raise_ "RuntimeError" "nonlinear expression"] [],
            .assign (.name "idx_of_child_with_vars") (.var "i")] []]],
      .assign (.name "other_coeffs") (.lit 1),
      .forIn (.tup2 (.name "i") (.name "child_coeffs")) (.call "enumerate" [(.var "children_coeffs")]) [
        .ifThen (.cmp .ne (.var "i") (.var "idx_of_child_with_vars")) [
          .assert_ (.cmp .eq (.call "len" [(.var "child_coeffs")]) (.lit 1)),
          .aug "other_coeffs" .mul (.index (.var "child_coeffs") (.lit 1))] []],
      .ifThen (.is_ (.var "idx_of_child_with_vars") .pyNone) [
        .ret (.mkDict (.lit 1) (.var "other_coeffs"))] [
        .ret (.dictComp (.var "var") (.bin .mul (.var "other_coeffs") (.var "coeff")) (.tup2 (.name "var") (.name "coeff")) (.meth (.index (.var "children_coeffs") (.var "idx_of_child_with_vars")) "items"))],
      .ret (.var "result")] },
  { name := "map_quotient", definedIn := "CoefficientCollector.map_quotient", params := [], vararg := "",
    body := [
      .importName "pymbolic.primitives" "Quotient" "Quotient",
      .assign (.name "d_num") (.recField "numerator"),
      .assign (.name "d_den") (.recField "denominator"),
      .ifThen (.or_ (.cmp .gt (.call "len" [(.var "d_den")]) (.lit 1)) (.notIn (.lit 1) (.var "d_den"))) [
        .raise_ "RuntimeError" "nonlinear expression"] [],
      .assign (.name "val") (.index (.var "d_den") (.lit 1)),
      .mapValues "d_num" .mul (.mkNode "Quotient" [(.lit 1), (.var "val")]),
      .ret (.var "d_num")] },
  { name := "map_subscript", definedIn := "Mapper.map_subscript", params := [], vararg := "",
    body := [
      .delegate "map_algebraic_leaf"] },
  { name := "map_sum", definedIn := "CoefficientCollector.map_sum", params := [], vararg := "",
    body := [
      .assign (.name "stride_dicts") (.recList "children"),
      .assign (.name "result") .emptyDict,
      .forIn (.name "stride_dict") (.var "stride_dicts") [
        .forIn (.tup2 (.name "var") (.name "stride")) (.meth (.var "stride_dict") "items") [
          .ifThen (.in_ (.var "var") (.var "result")) [
            .augSub "result" (.var "var") .add (.var "stride")] [
            .setSubs ["result"] [(.var "var")] [(.var "stride")]]]],
      .ret (.var "result")] },
  { name := "map_tuple", definedIn := "Mapper.map_tuple", params := [], vararg := "",
    body := [
      .raise_ "NotImplementedError" ""] },
  { name := "map_variable", definedIn := "Mapper.map_variable", params := [], vararg := "",
    body := [
      .delegate "map_algebraic_leaf"] }]

/-- `gaussian_elimination`, `solve_affine_equations_for` and the helpers they call -/
def c15ExpFns : List C15Fn := [
  { name := "gaussian_elimination", definedIn := "gaussian_elimination", params := ["mat", "rhs"], vararg := "",
    body := [
      .assign (.tup2 (.name "m") (.name "n")) (.attr (.var "mat") "shape"),
      .assign (.name "i") (.lit 0),
      .assign (.name "j") (.lit 0),
      .while_ (.and_ (.cmp .lt (.var "i") (.var "m")) (.cmp .lt (.var "j") (.var "n"))) [
        .assign (.name "nonz_row") .pyNone,
        .forIn (.name "k") (.call "range" [(.var "i"), (.var "m")]) [
          .ifThen (.index2 (.var "mat") (.var "k") (.var "j")) [
            .assign (.name "nonz_row") (.var "k"),
            .break_] []],
        .ifThen (.isNot (.var "nonz_row") .pyNone) [
          .setSubs ["mat", "mat"] [(.var "i"), (.var "nonz_row")] [(.meth (.index (.var "mat") (.var "nonz_row")) "copy"), (.meth (.index (.var "mat") (.var "i")) "copy")],
          .setSubs ["rhs", "rhs"] [(.var "i"), (.var "nonz_row")] [(.meth (.index (.var "rhs") (.var "nonz_row")) "copy"), (.meth (.index (.var "rhs") (.var "i")) "copy")],
          .forIn (.name "u") (.call "range" [(.lit 0), (.var "m")]) [
            .ifThen (.cmp .eq (.var "u") (.var "i")) [
              .continue_] [],
            .ifThen (.not_ (.index2 (.var "mat") (.var "u") (.var "j"))) [
              .continue_] [],
            .assign (.name "ell") (.call "lcm" [(.index2 (.var "mat") (.var "u") (.var "j")), (.index2 (.var "mat") (.var "i") (.var "j"))]),
            .assign (.name "u_fac") (.bin .floordiv (.var "ell") (.index2 (.var "mat") (.var "u") (.var "j"))),
            .assign (.name "i_fac") (.bin .floordiv (.var "ell") (.index2 (.var "mat") (.var "i") (.var "j"))),
            .setSubs ["mat"] [(.var "u")] [(.bin .sub (.bin .mul (.var "u_fac") (.index (.var "mat") (.var "u"))) (.bin .mul (.var "i_fac") (.index (.var "mat") (.var "i"))))],
            .setSubs ["rhs"] [(.var "u")] [(.bin .sub (.bin .mul (.var "u_fac") (.index (.var "rhs") (.var "u"))) (.bin .mul (.var "i_fac") (.index (.var "rhs") (.var "i"))))],
            .assert_ (.cmp .eq (.index2 (.var "mat") (.var "u") (.var "j")) (.lit 0))],
          .aug "i" .add (.lit 1)] [],
        .aug "j" .add (.lit 1)],
      .forIn (.name "i") (.call "range" [(.var "m")]) [
        .assign (.name "g") (.callStar "gcd_many" (.bin .add (.listCompIf (.var "a") (.name "a") (.index (.var "mat") (.var "i")) (.var "a")) (.listCompIf (.var "a") (.name "a") (.index (.var "rhs") (.var "i")) (.var "a")))),
        .augSub "mat" (.var "i") .floordiv (.var "g"),
        .augSub "rhs" (.var "i") .floordiv (.var "g")],
      .ret (.tuple2 (.var "mat") (.var "rhs"))] },
  { name := "gcd", definedIn := "gcd", params := ["q", "r"], vararg := "",
    body := [
      .ret (.index (.call "extended_euclidean" [(.var "q"), (.var "r")]) (.lit 0))] },
  { name := "gcd_many", definedIn := "gcd_many", params := [], vararg := "args",
    body := [
      .ifThen (.cmp .eq (.call "len" [(.var "args")]) (.lit 0)) [
        .ret (.lit 1)] [
        .ifThen (.cmp .eq (.call "len" [(.var "args")]) (.lit 1)) [
          .ret (.index (.var "args") (.lit 0))] [
          .importName "functools" "reduce" "reduce",
          .ret (.reduce "gcd" (.var "args"))]]] },
  { name := "lcm", definedIn := "lcm", params := ["q", "r"], vararg := "",
    body := [
      .ret (.bin .floordiv (.call "abs" [(.bin .mul (.var "q") (.var "r"))]) (.call "gcd" [(.var "q"), (.var "r")]))] },
  { name := "solve_affine_equations_for", definedIn := "solve_affine_equations_for", params := ["unknowns", "equations"], vararg := "",
    body := [
      .importName "numpy" "" "np",
      .importName "pymbolic.mapper.dependency" "DependencyMapper" "DependencyMapper",
      .assign (.name "dep_map") (.construct "DependencyMapper" ["composite_leaves"] [(.boolLit true)]),
      .importName "pymbolic" "var" "var",
      .assign (.name "unknowns") (.listComp (.mkNode "Variable" [(.var "u")]) (.name "u") (.var "unknowns")),
      .assign (.name "unknowns_set") (.call "set" [(.var "unknowns")]),
      .assign (.name "unknown_idx_lut") (.dictComp (.var "tgt_name") (.var "idx") (.tup2 (.name "idx") (.name "tgt_name")) (.call "enumerate" [(.var "unknowns")])),
      .assign (.name "parameters") (.call "set" []),
      .forIn (.tup2 (.name "lhs") (.name "rhs")) (.var "equations") [
        .setUpdate "parameters" (.bin .sub (.callVar "dep_map" [(.var "lhs")]) (.var "unknowns_set")),
        .setUpdate "parameters" (.bin .sub (.callVar "dep_map" [(.var "rhs")]) (.var "unknowns_set"))],
      .assign (.name "parameters_list") (.call "list" [(.var "parameters")]),
      .assign (.name "parameter_idx_lut") (.dictComp (.var "var_name") (.var "idx") (.tup2 (.name "idx") (.name "var_name")) (.call "enumerate" [(.var "parameters_list")])),
      .importName "pymbolic.mapper.coefficient" "CoefficientCollector" "CoefficientCollector",
      .assign (.name "coeff_coll") (.construct "CoefficientCollector" [] []),
      .assign (.name "mat") (.call "numpy.zeros" [(.call "len" [(.var "equations")]), (.call "len" [(.var "unknowns_set")])]),
      .assign (.name "rhs_mat") (.call "numpy.zeros" [(.call "len" [(.var "equations")]), (.bin .add (.call "len" [(.var "parameters")]) (.lit 1))]),
      .forIn (.tup2 (.name "i_eqn") (.tup2 (.name "lhs") (.name "rhs"))) (.call "enumerate" [(.var "equations")]) [
        .forIn (.tup2 (.name "lhs_factor") (.name "coeffs")) (.listLit [(.tuple2 (.lit 1) (.callVar "coeff_coll" [(.var "lhs")])), (.tuple2 (.lit (-1)) (.callVar "coeff_coll" [(.var "rhs")]))]) [
          .forIn (.tup2 (.name "key") (.name "coeff")) (.meth (.var "coeffs") "items") [
            .ifThen (.in_ (.var "key") (.var "unknowns_set")) [
              .augSub2 "mat" (.var "i_eqn") (.index (.var "unknown_idx_lut") (.var "key")) .add (.bin .mul (.var "lhs_factor") (.var "coeff"))] [
              .ifThen (.in_ (.var "key") (.var "parameters")) [
                .augSub2 "rhs_mat" (.var "i_eqn") (.index (.var "parameter_idx_lut") (.var "key")) .add (.bin .mul (.neg (.var "lhs_factor")) (.var "coeff"))] [
                .ifThen (.cmp .eq (.var "key") (.lit 1)) [
                  .augSub2 "rhs_mat" (.var "i_eqn") (.lit (-1)) .add (.bin .mul (.neg (.var "lhs_factor")) (.var "coeff"))] [
                  .raise_ "ValueError" "key '{}' not understood"]]]]]],
      .assign (.tup2 (.name "mat") (.name "rhs_mat")) (.call "gaussian_elimination" [(.var "mat"), (.var "rhs_mat")]),
      .assign (.name "result") .emptyDict,
      .forIn (.tup2 (.name "j") (.name "unknown")) (.call "enumerate" [(.var "unknowns")]) [
        .unpack1 "nonz_row" (.call "numpy.where" [(.col (.var "mat") (.var "j"))]),
        .ifThen (.cmp .ne (.call "len" [(.var "nonz_row")]) (.lit 1)) [
          .raise_ "RuntimeError" "cannot uniquely solve for '{}'"] [],
        .unpack1 "nonz_row" (.var "nonz_row"),
        .ifThen (.cmp .ne (.call "abs" [(.index2 (.var "mat") (.var "nonz_row") (.var "j"))]) (.lit 1)) [
          .raise_ "RuntimeError" "division with remainder in linear solve for '{}'"] [],
        .assign (.name "div") (.index2 (.var "mat") (.var "nonz_row") (.var "j")),
        .assign (.name "unknown_val") (.bin .floordiv (.call "int" [(.index2 (.var "rhs_mat") (.var "nonz_row") (.lit (-1)))]) (.var "div")),
        .forIn (.tup2 (.name "parameter") (.name "coeff")) (.call "zip" [(.var "parameters_list"), (.index (.var "rhs_mat") (.var "nonz_row"))]) [
          .aug "unknown_val" .add (.bin .mul (.bin .floordiv (.call "int" [(.var "coeff")]) (.var "div")) (.var "parameter"))],
        .setSubs ["result"] [(.var "unknown")] [(.var "unknown_val")]],
      .deadIf,
      .ret (.var "result")] }]

def c15ExpTable : C15Table :=
  { init := c15ExpInit, classes := c15ExpClasses, handlers := c15ExpHandlers, fns := c15ExpFns,
    foreign := [("constant", "map_constant"), ("numpy", "map_numpy_array"), ("list", "map_list"), ("tuple", "map_tuple")],
    foreignElse := "ValueError",
    constKinds := ["int", "bool", "float"],
    primitives := ["extended_euclidean"] }

end PV.Coeff
