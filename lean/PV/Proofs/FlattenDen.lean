import PV.Model.Eval
import PV.Model.Stringify
import PV.Proofs.SyntaxFlatten
/-
  C06, the VALUE half.  "Once nested sums and products are flattened" does not change the
  meaning: `den env (flattenAssoc e) = den env e` for every environment — the same value when the
  evaluation succeeds, and the same error (the same exception class, or the same abstention
  `.noClaim`) when it does not.

  Why it holds although `+`/`*` on Python values are partial: `sum(gen)` / `product(gen)` start
  from `0` / `1`, so the running accumulator is an `int` or a `Fraction` (never a `bool`, never a
  non-number) from the first step on.  For such an accumulator
  * `acc + v` fails exactly when `0 + v` fails, with the same error (the error of `arith` only
    depends on the non-numeric operand), and succeeds with an `int`/`Fraction`;
  * `+` is associative, `acc + 0 = acc` (as VALUES: no `bool`/`int` change), likewise `*`, `1`;
  * the leaves are evaluated in the same order before and after flattening.
-/
namespace PV.FlattenDen
open PV PV.Syntax

/-- the values a running sum/product can have after its start: `int` or `Fraction` -/
def NB : Value → Prop
  | .int _ => True
  | .frac _ => True
  | _ => False

/-- what the fold of `o` from the start value `u` needs: closed on `NB`, associative including
the failure behaviour of the last operand, `u` a right unit. -/
structure Good (o : NaryOp) (u : Value) : Prop where
  unitNB : NB u
  unit : ∀ {a}, NB a → o.apply a u = .ok a
  closed : ∀ {a b}, NB a → NB b → ∃ ab, NB ab ∧ o.apply a b = .ok ab
  right : ∀ {b v w}, NB b → o.apply b v = .ok w → NB w
  assoc : ∀ {a b}, NB a → NB b → ∀ v,
    (o.apply b v >>= o.apply a) = (o.apply a b >>= fun ab => o.apply ab v)

theorem good_sum : Good .sum (.int 0) where
  unitNB := trivial
  unit := by
    intro a ha
    cases a <;> simp only [NB] at ha
    · simp [NaryOp.apply, Value.add, arith, Value.isInexact, Value.isSeq, Value.num?, addN, pure,
        Except.pure]
    · simp [NaryOp.apply, Value.add, arith, Value.isInexact, Value.isSeq, Value.num?, addN, pure,
        Except.pure, Num.toRat, Rat.add_zero]
  closed := by
    intro a b ha hb
    cases a <;> simp only [NB] at ha <;> cases b <;> simp only [NB] at hb <;>
      simp [NaryOp.apply, Value.add, arith, Value.isInexact, Value.isSeq, Value.num?, addN, pure,
        Except.pure, NB]
  right := by
    intro b v w hb h
    cases b <;> simp only [NB] at hb <;> cases v <;>
      simp [NaryOp.apply, Value.add, arith, Value.isInexact, Value.isSeq, Value.num?, addN, pure,
        Except.pure, throw, throwThe, MonadExceptOf.throw] at h <;> subst h <;> trivial
  assoc := by
    intro a b ha hb v
    cases a <;> simp only [NB] at ha <;> cases b <;> simp only [NB] at hb <;> cases v <;>
      simp [NaryOp.apply, Value.add, arith, Value.isInexact, Value.isSeq, Value.num?, addN, pure,
        Except.pure, throw, throwThe, MonadExceptOf.throw, bind, Except.bind, Num.toRat,
        Rat.intCast_add, Rat.add_assoc, Int.add_assoc]

theorem good_prod : Good .prod (.int 1) where
  unitNB := trivial
  unit := by
    intro a ha
    cases a <;> simp only [NB] at ha
    · simp [NaryOp.apply, Value.mul, arith, Value.isInexact, Value.isSeq, Value.num?, mulN, pure,
        Except.pure]
    · simp [NaryOp.apply, Value.mul, arith, Value.isInexact, Value.isSeq, Value.num?, mulN, pure,
        Except.pure, Num.toRat, Rat.mul_one]
  closed := by
    intro a b ha hb
    cases a <;> simp only [NB] at ha <;> cases b <;> simp only [NB] at hb <;>
      simp [NaryOp.apply, Value.mul, arith, Value.isInexact, Value.isSeq, Value.num?, mulN, pure,
        Except.pure, NB]
  right := by
    intro b v w hb h
    cases b <;> simp only [NB] at hb <;> cases v <;>
      simp [NaryOp.apply, Value.mul, arith, Value.isInexact, Value.isSeq, Value.num?, mulN, pure,
        Except.pure, throw, throwThe, MonadExceptOf.throw] at h <;> subst h <;> trivial
  assoc := by
    intro a b ha hb v
    cases a <;> simp only [NB] at ha <;> cases b <;> simp only [NB] at hb <;> cases v <;>
      simp [NaryOp.apply, Value.mul, arith, Value.isInexact, Value.isSeq, Value.num?, mulN, pure,
        Except.pure, throw, throwThe, MonadExceptOf.throw, bind, Except.bind, Num.toRat,
        Rat.intCast_mul, Rat.mul_assoc, Int.mul_assoc]


/-! ### folds -/

theorem denFold_append (env : Env) (o : NaryOp) : ∀ (xs ys : List Expr) (a : Value),
    denFold env o a (xs ++ ys) = (denFold env o a xs >>= fun a' => denFold env o a' ys)
  | [], ys, a => by simp [denFold, pure, Except.pure, bind, Except.bind]
  | x :: xs, ys, a => by
    simp only [List.cons_append, denFold, bind, Except.bind]
    cases den env x with
    | error err => rfl
    | ok v =>
      dsimp only
      cases o.apply a v with
      | error err => rfl
      | ok a' => exact denFold_append env o xs ys a'

/-- a fold started at an `int`/`Fraction` ends at one -/
theorem denFold_nb (env : Env) {o : NaryOp} {u : Value} (G : Good o u) :
    ∀ (ds : List Expr) (a w : Value), NB a → denFold env o a ds = .ok w → NB w
  | [], a, w, ha, h => by
    simp only [denFold, pure, Except.pure, Except.ok.injEq] at h
    exact h ▸ ha
  | d :: ds, a, w, ha, h => by
    simp only [denFold, bind, Except.bind] at h
    cases hd : den env d with
    | error err => simp [hd] at h
    | ok v =>
      simp only [hd] at h
      cases hv : o.apply a v with
      | error err => simp [hv] at h
      | ok a' =>
        simp only [hv] at h
        exact denFold_nb env G ds a' w (G.right ha hv) h

/-- **the accumulator can be moved out of a fold**: folding `ds` from `b` and then combining
with `a` on the left is folding `ds` from `a ∘ b` — including which error comes first. -/
theorem denFold_shift (env : Env) {o : NaryOp} {u : Value} (G : Good o u) :
    ∀ (ds : List Expr) (a b : Value), NB a → NB b →
      (denFold env o b ds >>= o.apply a) = (o.apply a b >>= fun ab => denFold env o ab ds)
  | [], a, b, ha, hb => by
    obtain ⟨ab, _, hab⟩ := G.closed ha hb
    simp [denFold, pure, Except.pure, bind, Except.bind, hab]
  | d :: ds, a, b, ha, hb => by
    obtain ⟨ab, habNB, hab⟩ := G.closed ha hb
    have hassoc := G.assoc ha hb
    simp only [hab, bind, Except.bind] at hassoc ⊢
    simp only [denFold, bind, Except.bind]
    cases den env d with
    | error err => rfl
    | ok v =>
      have hv := hassoc v
      cases hbv : o.apply b v with
      | error err =>
        simp only [hbv] at hv ⊢
        rw [← hv]
      | ok b' =>
        simp only [hbv] at hv ⊢
        have ih := denFold_shift env G ds a b' ha (G.right hb hbv)
        simp only [bind, Except.bind] at ih
        rw [ih, hv]

/-- folding from an `int`/`Fraction` accumulator = folding from the start value, then combining -/
theorem denFold_from_unit (env : Env) {o : NaryOp} {u : Value} (G : Good o u) (ds : List Expr)
    {a : Value} (ha : NB a) :
    denFold env o a ds = (denFold env o u ds >>= o.apply a) := by
  rw [denFold_shift env G ds a u ha G.unitNB, G.unit ha]
  rfl


/-- one (already flattened) operand `y` of an `o` node, spliced: its operands are folded in
place — which is evaluating `y` and combining -/
theorem denFold_flatOne (env : Env) {o : NaryOp} {u : Value} (G : Good o u)
    (hden : ∀ ds, den env (.nary o ds) = denFold env o u ds) (y : Expr) {a : Value} (ha : NB a) :
    denFold env o a (flatOne o y) = (den env y >>= o.apply a) := by
  have single : denFold env o a [y] = (den env y >>= o.apply a) := by
    simp only [denFold, bind, Except.bind]
    cases den env y with
    | error err => rfl
    | ok v =>
      dsimp only
      cases o.apply a v <;> rfl
  unfold flatOne
  split
  · rename_i o' ds
    split
    · rename_i h
      have : o' = o := by simpa using h
      subst this
      rw [hden ds]
      exact denFold_from_unit env G ds ha
    · exact single
  · exact single

/-! ### the main statement -/

mutual
/-- **flattening nested sums and products does not change the denotation**: same value, or the
same error -/
theorem den_flattenAssoc (env : Env) : ∀ (e : Expr), den env (flattenAssoc e) = den env e
  | .const _ => by simp only [flattenAssoc]
  | .var _ => by simp only [flattenAssoc]
  | .nary .sum cs => by
    simp only [flattenAssoc, den]
    exact denFold_flattenInto env good_sum (fun _ => by simp only [den]) cs (.int 0) trivial
  | .nary .prod cs => by
    simp only [flattenAssoc, den]
    exact denFold_flattenInto env good_prod (fun _ => by simp only [den]) cs (.int 1) trivial
  | .nary .bor cs => by simp only [flattenAssoc, den, denReduce_flattenL env .bor cs]
  | .nary .bxor cs => by simp only [flattenAssoc, den, denReduce_flattenL env .bxor cs]
  | .nary .band cs => by simp only [flattenAssoc, den, denReduce_flattenL env .band cs]
  | .nary .lor cs => by simp only [flattenAssoc, den, denAny_flattenL env cs]
  | .nary .land cs => by simp only [flattenAssoc, den, denAll_flattenL env cs]
  | .nary .min cs => by simp only [flattenAssoc, den, denMinMax_flattenL env true cs none]
  | .nary .max cs => by simp only [flattenAssoc, den, denMinMax_flattenL env false cs none]
  | .bin o a b => by simp only [flattenAssoc, den, den_flattenAssoc env a, den_flattenAssoc env b]
  | .un .bnot a => by simp only [flattenAssoc, den, den_flattenAssoc env a]
  | .un .lnot a => by simp only [flattenAssoc, den, den_flattenAssoc env a]
  | .cmp o a b => by simp only [flattenAssoc, den, den_flattenAssoc env a, den_flattenAssoc env b]
  | .ite c t e => by
    simp only [flattenAssoc, den, den_flattenAssoc env c, den_flattenAssoc env t,
      den_flattenAssoc env e]
  | .call f as => by simp only [flattenAssoc, den, den_flattenAssoc env f, denList_flattenL env as]
  | .callKw f as ns vs => by
    simp only [flattenAssoc, den, den_flattenAssoc env f, denList_flattenL env as,
      denList_flattenL env vs]
  | .subscript a i => by
    simp only [flattenAssoc, den, den_flattenAssoc env a, den_flattenAssoc env i]
  | .lookup a n => by simp only [flattenAssoc, den, den_flattenAssoc env a]
  | .cse _ _ _ => by simp only [flattenAssoc]
  | .subst _ _ _ => by simp only [flattenAssoc]
  | .deriv _ _ => by simp only [flattenAssoc]
  | .slice cs => by simp only [flattenAssoc, den]
  | .nan => by simp only [flattenAssoc]
  | .wildcard => by simp only [flattenAssoc]
  | .dotWild _ => by simp only [flattenAssoc]
  | .starWild _ => by simp only [flattenAssoc]
  | .funcSym => by simp only [flattenAssoc]
  | .tuple cs => by simp only [flattenAssoc, den, denList_flattenL env cs]
  | .list cs => by simp only [flattenAssoc, den, denList_flattenL env cs]
/-- the operands of a sum / product with nested sums / products spliced in place, folded from an
`int`/`Fraction` accumulator -/
theorem denFold_flattenInto (env : Env) {o : NaryOp} {u : Value} (G : Good o u)
    (hden : ∀ ds, den env (.nary o ds) = denFold env o u ds) :
    ∀ (cs : List Expr) (a : Value), NB a →
      denFold env o a (flattenInto o cs) = denFold env o a cs
  | [], a, _ => by simp only [flattenInto]
  | c :: cs, a, ha => by
    rw [flattenInto_cons, denFold_append, denFold_flatOne env G hden _ ha, den_flattenAssoc env c]
    simp only [denFold, bind, Except.bind]
    cases den env c with
    | error err => rfl
    | ok v =>
      dsimp only
      cases hv : o.apply a v with
      | error err => rfl
      | ok a' => exact denFold_flattenInto env G hden cs a' (G.right ha hv)
theorem denFold_flattenL (env : Env) (o : NaryOp) : ∀ (cs : List Expr) (a : Value),
    denFold env o a (flattenAssocL cs) = denFold env o a cs
  | [], a => by simp only [flattenAssocL]
  | c :: cs, a => by
    simp only [flattenAssocL, denFold, den_flattenAssoc env c, bind, Except.bind]
    cases den env c with
    | error err => rfl
    | ok v =>
      dsimp only
      cases o.apply a v with
      | error err => rfl
      | ok a' => exact denFold_flattenL env o cs a'
theorem denReduce_flattenL (env : Env) (o : NaryOp) : ∀ (cs : List Expr),
    denReduce env o (flattenAssocL cs) = denReduce env o cs
  | [] => by simp only [flattenAssocL]
  | c :: cs => by
    simp only [flattenAssocL, denReduce, den_flattenAssoc env c, bind, Except.bind]
    cases den env c with
    | error err => rfl
    | ok v => exact denFold_flattenL env o cs v
theorem denAny_flattenL (env : Env) : ∀ (cs : List Expr),
    denAny env (flattenAssocL cs) = denAny env cs
  | [] => by simp only [flattenAssocL]
  | c :: cs => by
    simp only [flattenAssocL, denAny, den_flattenAssoc env c, denAny_flattenL env cs]
theorem denAll_flattenL (env : Env) : ∀ (cs : List Expr),
    denAll env (flattenAssocL cs) = denAll env cs
  | [] => by simp only [flattenAssocL]
  | c :: cs => by
    simp only [flattenAssocL, denAll, den_flattenAssoc env c, denAll_flattenL env cs]
theorem denMinMax_flattenL (env : Env) (isMin : Bool) : ∀ (cs : List Expr) (cur : Option Value),
    denMinMax env isMin cur (flattenAssocL cs) = denMinMax env isMin cur cs
  | [], cur => by simp only [flattenAssocL]
  | c :: cs, cur => by
    simp only [flattenAssocL, denMinMax, den_flattenAssoc env c, bind, Except.bind]
    cases den env c with
    | error err => rfl
    | ok v =>
      dsimp only
      cases cur with
      | none => exact denMinMax_flattenL env isMin cs (some v)
      | some m =>
        dsimp only
        cases Value.better isMin v m with
        | error err => rfl
        | ok b => exact denMinMax_flattenL env isMin cs _
theorem denList_flattenL (env : Env) : ∀ (cs : List Expr),
    denList env (flattenAssocL cs) = denList env cs
  | [] => by simp only [flattenAssocL]
  | c :: cs => by
    simp only [flattenAssocL, denList, den_flattenAssoc env c, denList_flattenL env cs]
end

/-- success on either side gives the same value on the other -/
theorem den_flattenAssoc_ok (env : Env) (e : Expr) (v : Value) :
    den env (flattenAssoc e) = .ok v ↔ den env e = .ok v := by
  rw [den_flattenAssoc]

/-- failure on either side is failure on the other (with the same error, by `den_flattenAssoc`) -/
theorem den_flattenAssoc_error (env : Env) (e : Expr) :
    (∃ err, den env (flattenAssoc e) = .error err) ↔ (∃ err, den env e = .error err) := by
  rw [den_flattenAssoc]

/-- **two trees that are the same once nested sums and products are flattened have the same
denotation in every environment** -/
theorem den_eq_of_flatten_eq {e e' : Expr} (h : flattenAssoc e' = flattenAssoc e) (env : Env) :
    den env e' = den env e := by
  rw [← den_flattenAssoc env e', h, den_flattenAssoc]

end PV.FlattenDen
