import PV.Proofs.SyntaxLexPieces
/-
  C07.  General facts about the lexer model, for an ARBITRARY table: `lex` partitions its input
  into non-empty items (`lexLoop_partition`); and, for the table of the current code, which
  literal rules hide a later rule (`shadowed`).
-/
set_option linter.unusedSimpArgs false
namespace PV.Lexer
open PV

theorem firstMatch_pos {tbl : LexTable} : ∀ {rules : LexTable} {cs : List Char} {tag : String}
    {n : Nat}, firstMatch tbl rules cs = some (tag, n) → 0 < n
  | [], _, _, _, h => by simp [firstMatch] at h
  | (t, b) :: rules, cs, tag, n, h => by
    simp only [firstMatch] at h
    split at h
    · exact firstMatch_pos h
    · simp only [Option.some.injEq, Prod.mk.injEq] at h
      omega

/-- **`lex` partitions the input**: the texts of the lexed items, in order, concatenate to the
input string, and no item is empty (for every rule table) -/
theorem lexLoop_partition (tbl : LexTable) : ∀ (fuel i : Nat) (cs : List Char) (ls : List Lexed),
    lexLoop tbl fuel i cs = .ok ls → (ls.map (·.2)).flatten = cs ∧ ∀ l ∈ ls, l.2 ≠ []
  | _, _, [], ls, h => by
    have : ls = [] := by
      cases ‹Nat› <;> simpa [lexLoop, pure, Except.pure] using h.symm
    subst this; exact ⟨rfl, fun l hl => by cases hl⟩
  | 0, i, c :: cs, ls, h => by simp [lexLoop, throw, throwThe, MonadExceptOf.throw] at h
  | fuel + 1, i, c :: cs, ls, h => by
    simp only [lexLoop] at h
    split at h
    · simp [throw, throwThe, MonadExceptOf.throw] at h
    · rename_i tag n hf
      cases hr : lexLoop tbl fuel (i + n) (List.drop n (c :: cs)) with
      | error e => rw [hr] at h; simp [bind, Except.bind] at h
      | ok rest =>
        rw [hr] at h
        simp only [bind, Except.bind, pure, Except.pure, Except.ok.injEq] at h
        subst h
        obtain ⟨h1, h2⟩ := lexLoop_partition tbl fuel (i + n) _ rest hr
        have hpos := firstMatch_pos hf
        refine ⟨?_, fun l hl => ?_⟩
        · simp only [List.map_cons, List.flatten_cons, h1, List.take_append_drop]
        · rcases List.mem_cons.mp hl with rfl | hl
          · cases n with
            | zero => omega
            | succ n => simp
          · exact h2 l hl

theorem lexRawWith_partition {tbl : LexTable} {cs : List Char} {ls : List Lexed}
    (h : lexRawWith tbl cs = .ok ls) : (ls.map (·.2)).flatten = cs ∧ ∀ l ∈ ls, l.2 ≠ [] := by
  unfold lexRawWith at h
  split at h
  · exact lexLoop_partition tbl _ _ _ _ h
  · simp [throw, throwThe, MonadExceptOf.throw] at h

/-! ### rule order -/

/-- the literal text of a rule that matches a fixed string (`kw`: followed by `\b`) -/
def litOf : Body → Option (List Char)
  | .one (.re src) =>
    match reOf src with
    | some (.lit l) => some l
    | some (.kw l) => some l
    | _ => none
  | _ => none

/-- pairs (earlier rule, later rule) of literal rules such that the earlier text is a prefix of
the later one: the later rule can then never produce its full text -/
def shadowedIn : LexTable → List (String × String)
  | [] => []
  | (t, b) :: rest =>
    (match litOf b with
     | some l => rest.filterMap fun r =>
        match litOf r.2 with
        | some l' => if l.isPrefixOf l' then some (t, r.1) else none
        | none => none
     | none => []) ++ shadowedIn rest

/-- the rule of `tag` is a literal followed by a word boundary `\\b` -/
def hasBoundary (tbl : LexTable) (tag : String) : Bool :=
  match dictGet tbl tag with
  | some (.one (.re src)) =>
    match reOf src with
    | some (.kw _) => true
    | _ => false
  | _ => false

/-- position of the first rule with a tag -/
def ruleIndex (tbl : LexTable) (tag : String) : Nat := tbl.findIdx (fun r => r.1 == tag)

/-! ### the `imaginary` rule is dead -/


/-- a matcher result: `rest` is what is left of `cs` after a prefix, and does not start with a
letter -/
def EndsLetters (cs rest : List Char) : Prop :=
  rest <:+ cs ∧ nextNot isAlpha rest.head? = true

theorem dropWhile_head_not (p : Char → Bool) : ∀ (l : List Char),
    nextNot p (l.dropWhile p).head? = true
  | [] => rfl
  | c :: l => by
    by_cases h : p c = true
    · simp only [List.dropWhile_cons, h, if_true]; exact dropWhile_head_not p l
    · simp [List.dropWhile_cons, h, nextNot]

theorem dropWhile_suffix' (p : Char → Bool) (l : List Char) : l.dropWhile p <:+ l :=
  List.dropWhile_suffix p

theorem plusM_suffix {p : Char → Bool} {cs r : List Char} (h : plusM p cs = some r) : r <:+ cs := by
  cases cs with
  | nil => simp [plusM] at h
  | cons c cs =>
    simp only [plusM] at h
    split at h
    · simp only [Option.some.injEq] at h; subst h
      exact (List.dropWhile_suffix p).trans (List.suffix_cons c cs)
    · cases h

theorem expM_suffix {cs r : List Char} (h : expM cs = some r) : r <:+ cs := by
  cases cs with
  | nil => simp [expM] at h
  | cons x cs =>
    simp only [expM] at h
    split at h
    · split at h
      · rename_i s cs'
        split at h
        · exact (plusM_suffix h).trans ((List.suffix_cons s cs').trans (List.suffix_cons x _))
        · exact (plusM_suffix h).trans (List.suffix_cons x _)
      · cases h
    · cases h

theorem optM_expM_suffix (cs : List Char) : optM expM cs <:+ cs := by
  unfold optM
  cases h : expM cs with
  | none => exact List.suffix_refl _
  | some r => exact expM_suffix h

theorem lettersAfter {l cs : List Char} (h : l <:+ cs) :
    EndsLetters cs (l.dropWhile isAlpha) :=
  ⟨(List.dropWhile_suffix _).trans h, dropWhile_head_not _ _⟩

theorem float1M_ends {cs r : List Char} (h : float1M cs = some r) : EndsLetters cs r := by
  unfold float1M at h
  cases hp : plusM isDigit cs with
  | none => rw [hp] at h; simp at h
  | some r1 =>
    rw [hp] at h
    cases r1 with
    | nil => simp at h
    | cons c r2 =>
      by_cases hc : c = '.'
      · subst hc
        simp only [Option.some.injEq] at h
        subst h
        exact lettersAfter ((optM_expM_suffix _).trans ((List.dropWhile_suffix _).trans
          ((List.suffix_cons _ _).trans (plusM_suffix hp))))
      · simp [hc] at h


theorem float2M_ends {cs r : List Char} (h : float2M cs = some r) : EndsLetters cs r := by
  unfold float2M at h
  cases hp : plusM isDigit cs with
  | none => rw [hp] at h; simp at h
  | some r1 =>
    rw [hp] at h
    simp only at h
    split at h
    · cases h
    · rename_i r3 he
      split at h
      · simp only [Option.some.injEq] at h; subst h
        refine lettersAfter ((expM_suffix he).trans ?_)
        split
        · exact (List.dropWhile_suffix _).trans ((List.suffix_cons _ _).trans (plusM_suffix hp))
        · exact plusM_suffix hp
      · cases h

theorem float3M_ends {cs r : List Char} (h : float3M cs = some r) : EndsLetters cs r := by
  unfold float3M at h
  have hs := List.dropWhile_suffix (l := cs) isDigit
  cases hd : cs.dropWhile isDigit with
  | nil => rw [hd] at h; simp at h
  | cons c r2 =>
    rw [hd] at h hs
    by_cases hc : c = '.'
    · subst hc
      simp only at h
      cases hp : plusM isDigit r2 with
      | none => rw [hp] at h; simp at h
      | some r' =>
        rw [hp] at h
        simp only [Option.some.injEq] at h; subst h
        exact lettersAfter ((optM_expM_suffix _).trans ((plusM_suffix hp).trans
          ((List.suffix_cons _ _).trans hs)))
    · simp [hc] at h

theorem float4M_ends {cs r : List Char} (h : float4M cs = some r) : EndsLetters cs r := by
  unfold float4M at h
  have hs := List.dropWhile_suffix (l := cs) isDigit
  cases hd : cs.dropWhile isDigit with
  | nil => rw [hd] at h; simp at h
  | cons c r2 =>
    rw [hd] at h hs
    by_cases hc : c = '.'
    · subst hc
      simp only at h
      cases hp : plusM isDigit r2 with
      | none => rw [hp] at h; simp at h
      | some r' =>
        rw [hp] at h
        simp only at h
        cases he : expM r' with
        | none => rw [he] at h; simp at h
        | some r3 =>
          rw [he] at h
          simp only at h
          split at h
          · simp only [Option.some.injEq] at h; subst h
            exact lettersAfter ((expM_suffix he).trans ((plusM_suffix hp).trans
              ((List.suffix_cons _ _).trans hs)))
          · cases h
    · simp [hc] at h

theorem float5M_ends {cs r : List Char} (h : float5M cs = some r) : EndsLetters cs r := by
  unfold float5M at h
  cases hp : plusM isDigit cs with
  | none => rw [hp] at h; simp at h
  | some r1 =>
    rw [hp] at h
    simp only at h
    cases r1 with
    | nil => simp [plusM] at h
    | cons c r2 =>
      simp only [plusM] at h
      split at h
      · simp only [Option.some.injEq] at h; subst h
        exact lettersAfter ((List.suffix_cons _ _).trans (plusM_suffix hp))
      · cases h

/-- the text after a match of length `lenOf m cs` -/
theorem drop_lenOf {m : List Char → Option (List Char)} {cs r : List Char} (h : m cs = some r)
    (hs : r <:+ cs) : cs.drop (lenOf m cs) = r := by
  obtain ⟨t, rfl⟩ := hs
  simp [lenOf, h, olen]

/-- **the `imaginary` rule never matches**: whatever the `float` rule matches is not followed by
a letter (all five forms end in a greedy letter run), so the `j` of the `imaginary` rule never
finds its letter — complex literals are lexed as floats with a letter tag. -/
theorem imagLen_zero (cs : List Char) : imagLen cs = 0 := by
  have key : ∀ (m : List Char → Option (List Char)),
      (∀ r, m cs = some r → EndsLetters cs r) → lenOf m cs ≠ 0 →
      lenOf (litM ['j']) (cs.drop (lenOf m cs)) = 0 := by
    intro m hm hne
    cases h : m cs with
    | none => simp [lenOf, h, olen] at hne
    | some r =>
      obtain ⟨hs, hl⟩ := hm r h
      rw [drop_lenOf h hs]
      cases r with
      | nil => simp [lenOf, litM, olen]
      | cons c r' =>
        simp only [List.head?_cons, nextNot, Bool.not_eq_true'] at hl
        have : c ≠ 'j' := by rintro rfl; exact absurd hl (by decide)
        simp [lenOf, litM, this, olen]
  simp only [imagLen, seqLen, imagItem, floatLen, firstNZ]
  by_cases h1 : lenOf float1M cs = 0
  · by_cases h2 : lenOf float2M cs = 0
    · by_cases h3 : lenOf float3M cs = 0
      · by_cases h4 : lenOf float4M cs = 0
        · by_cases h5 : lenOf float5M cs = 0
          · simp [h1, h2, h3, h4, h5]
          · simp [h1, h2, h3, h4, h5, key float5M (fun r => float5M_ends) h5]
        · simp [h1, h2, h3, h4, key float4M (fun r => float4M_ends) h4]
      · simp [h1, h2, h3, key float3M (fun r => float3M_ends) h3]
    · simp [h1, h2, key float2M (fun r => float2M_ends) h2]
  · simp [h1, key float1M (fun r => float1M_ends) h1]


theorem firstC_mem : ∀ {rs : List RuleC} {cs : List Char} {tag : String} {n : Nat},
    firstC rs cs = some (tag, n) → ∃ r ∈ rs, r.1 = tag ∧ r.2 cs = n ∧ n ≠ 0
  | [], _, _, _, h => by simp [firstC] at h
  | (t, m) :: rs, cs, tag, n, h => by
    simp only [firstC] at h
    split at h
    · obtain ⟨r, hr, h1⟩ := firstC_mem h
      exact ⟨r, List.mem_cons_of_mem _ hr, h1⟩
    · rename_i hne
      simp only [Option.some.injEq, Prod.mk.injEq] at h
      exact ⟨(t, m), List.mem_cons_self .., h.1, h.2, h.2 ▸ hne⟩

theorem firstC_not_imaginary {cs : List Char} {tag : String} {n : Nat}
    (h : firstC rulesC cs = some (tag, n)) : tag ≠ "imaginary" := by
  obtain ⟨r, hr, h1, h2, h3⟩ := firstC_mem h
  rintro rfl
  obtain ⟨t, m⟩ := r
  simp only at h1 h2
  subst h1
  simp only [rulesC, List.mem_cons, Prod.mk.injEq, List.not_mem_nil, or_false] at hr
  simp at hr
  subst hr
  exact h3 (h2 ▸ imagLen_zero cs)

theorem lexLoop_tags (tbl : LexTable) (P : String → Prop)
    (hP : ∀ cs tag n, firstMatch tbl tbl cs = some (tag, n) → P tag) :
    ∀ (fuel i : Nat) (cs : List Char) (ls : List Lexed),
    lexLoop tbl fuel i cs = .ok ls → ∀ l ∈ ls, P l.1
  | _, _, [], ls, h => by
    have : ls = [] := by
      cases ‹Nat› <;> simpa [lexLoop, pure, Except.pure] using h.symm
    subst this; intro l hl; cases hl
  | 0, i, c :: cs, ls, h => by simp [lexLoop, throw, throwThe, MonadExceptOf.throw] at h
  | fuel + 1, i, c :: cs, ls, h => by
    simp only [lexLoop] at h
    split at h
    · simp [throw, throwThe, MonadExceptOf.throw] at h
    · rename_i tag n hf
      cases hr : lexLoop tbl fuel (i + n) (List.drop n (c :: cs)) with
      | error e => rw [hr] at h; simp [bind, Except.bind] at h
      | ok rest =>
        rw [hr] at h
        simp only [bind, Except.bind, pure, Except.pure, Except.ok.injEq] at h
        subst h
        intro l hl
        rcases List.mem_cons.mp hl with rfl | hl
        · exact hP _ _ _ hf
        · exact lexLoop_tags tbl P hP fuel (i + n) _ rest hr l hl

/-- no item of the current table's lexer carries the tag `imaginary` -/
theorem lexRaw_no_imaginary {cs : List Char} {ls : List Lexed} (h : lexRaw cs = .ok ls) :
    ∀ l ∈ ls, l.1 ≠ "imaginary" := by
  unfold lexRaw lexRawWith at h
  split at h
  · exact lexLoop_tags table (· ≠ "imaginary")
      (fun cs tag n hf => firstC_not_imaginary (firstMatch_table cs ▸ hf)) _ _ _ _ h
  · simp [throw, throwThe, MonadExceptOf.throw] at h


end PV.Lexer
