/-
  PV/Proofs/OptCollect.lean — lemmas about the method gathering of the mapper optimizer
  (`PV/Model/OptCollect.lean`) used by `PV/Properties/C05Collect.lean`.
-/
import PV.Model.OptCollect

namespace PV.OptCollect

/-! ### the dictionary -/

theorem getD_setD_same {α : Type} (d : List (String × α)) (k : String) (v : α) :
    getD (setD d k v) k = some v := by
  induction d with
  | nil => simp [setD, getD]
  | cons p r ih =>
    obtain ⟨a, b⟩ := p
    by_cases h : a = k
    · simp [setD, getD, h]
    · simp [setD, getD, h, ih]

theorem getD_setD_other {α : Type} (d : List (String × α)) (k k' : String) (v : α) (hk : k' ≠ k) :
    getD (setD d k v) k' = getD d k' := by
  induction d with
  | nil =>
    have : ¬ k = k' := fun e => hk e.symm
    simp [setD, getD, this]
  | cons p r ih =>
    obtain ⟨a, b⟩ := p
    by_cases h : a = k
    · have : ¬ k = k' := fun e => hk e.symm
      have h2 : ¬ a = k' := by rw [h]; exact this
      simp [setD, getD, h, this]
    · by_cases h2 : a = k'
      · subst h2; simp [setD, getD, hk]
      · simp [setD, getD, h, h2, ih]

/-! ### the loop over `dir(cls)` -/

/-- rows whose names differ from `k` leave the entry of `k` alone -/
theorem collect_other {α : Type} (dir : List (DirRow α)) (d : List (String × α)) (k : String)
    (h : ∀ r ∈ dir, r.name ≠ k) : getD (collect d dir) k = getD d k := by
  induction dir generalizing d with
  | nil => rfl
  | cons x xs ih =>
    have hx : x.name ≠ k := h x (List.mem_cons_self ..)
    have hxs : ∀ r ∈ xs, r.name ≠ k := fun r hr => h r (List.mem_cons_of_mem _ hr)
    show getD (collect (if x.taken then setD d x.name x.body else d) xs) k = getD d k
    rw [ih _ hxs]
    split
    · exact getD_setD_other d x.name k x.body (fun e => hx e.symm)
    · rfl

/-- **Every gathered name ends up bound to the body Python resolved for it**, whatever the class
defines itself and whatever was collected before it. -/
theorem collect_get {α : Type} (dir : List (DirRow α)) (own : List (String × α))
    (hd : dir.Pairwise (fun a b => a.name ≠ b.name)) (r : DirRow α) (hr : r ∈ dir)
    (ht : r.taken = true) : getD (collect own dir) r.name = some r.body := by
  induction dir generalizing own with
  | nil => cases hr
  | cons x xs ih =>
    rw [List.pairwise_cons] at hd
    show getD (collect (if x.taken then setD own x.name x.body else own) xs) r.name = some r.body
    rcases List.mem_cons.mp hr with e | hm
    · subst e
      rw [collect_other xs _ r.name (fun q hq => fun e => hd.1 q hq e.symm)]
      simp [ht, getD_setD_same]
    · exact ih _ hd.2 hm

/-! ### the class-level assignments of the body -/

theorem flatNamespace_keeps {α : Type} (dir : List (DirRow α)) (aliases : List (String × String))
    (ns : List (String × α)) (ha : AliasesAgree dir aliases)
    (hi : ∀ r ∈ dir, r.taken = true → getD ns r.name = some r.body) :
    ∀ r ∈ dir, r.taken = true → getD (flatNamespace ns aliases) r.name = some r.body := by
  induction aliases generalizing ns with
  | nil => exact hi
  | cons ab rest ih =>
    have ha' : AliasesAgree dir rest := fun x hx => ha x (List.mem_cons_of_mem _ hx)
    show ∀ r ∈ dir, r.taken = true →
      getD (flatNamespace (match getD ns ab.2 with
                           | some v => setD ns ab.1 v
                           | none => ns) rest) r.name = some r.body
    apply ih _ ha'
    intro r hr ht
    cases hv : getD ns ab.2 with
    | none => exact hi r hr ht
    | some v =>
      show getD (setD ns ab.1 v) r.name = some r.body
      by_cases hn : r.name = ab.1
      · obtain ⟨q, hq, hqt, hqn, hqb⟩ := ha ab (List.mem_cons_self ..) r hr ht hn
        have : getD ns ab.2 = some q.body := by rw [← hqn]; exact hi q hq hqt
        rw [hv] at this
        rw [hn, getD_setD_same, Option.some.inj this, hqb]
      · rw [getD_setD_other _ _ _ _ hn]; exact hi r hr ht

end PV.OptCollect
