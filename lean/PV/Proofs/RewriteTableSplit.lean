import PV.Proofs.RewriteTableBase
set_option linter.unusedSimpArgs false
set_option linter.unusedVariables false
/-
  C11 (T-gen), part 4: `TermCollector.split_term` of the table, interpreted, is `splitTerm`:
  the nested functions `base` / `exponent` are `termBase` / `termExp`, the `isinstance` chain is
  `splitFactors`, the first loop (`in` / `+=` / `=` on the dictionary) is `b2eBuild`, the second
  loop (`get_dependencies(term) <= self.parameters`) is `b2eSplit`, the frozenset of pairs hashes
  the exponents, `self.rec(flattened_product(coefficients))` closes.  Needs two facts about what
  `b2eBuild` returns: its keys are hashable and pairwise different under `==` (so the second
  dictionary only ever appends).
-/
namespace PV
open PV.Generated (c04Classes c04IdentityTable)
open PV.C11Expected

theorem c11_get_dependencies (ctx : C11Ctx) (fuel : Nat) (t : Expr) :
    c11RunFn ctx fuel c11_TermCollector_get_dependencies [.expr t] =
      (match depsR t with
       | .ok d => .ok (.set (d.map .expr))
       | .error e => .error (.py e)) := by
  simp [c11RunFn, c11_TermCollector_get_dependencies, c11RunBody, c11Frame, c11ExecL, c11Exec,
    c11Eval, c11EvalL, c11Get, c11Apply]
  cases h : depsR t <;>
  simp [c11Lift, bind, Except.bind, c11OutToR, throw, throwThe, MonadExceptOf.throw, pure, Except.pure,
    Functor.map, Except.map]

def c11SplitDefs : List C11Def := c11_TermCollector_split_term.defs

theorem c11_call_base (ctx : C11Ctx) (F : Nat) (t : Expr) :
    c11CallLocal ctx c11SplitDefs F "base" [.expr t] = .ok (.expr (termBase t)) := by
  cases F <;> cases t <;> (try rename_i o a b; cases o) <;>
  simp [c11CallLocal, c11SplitDefs, c11_TermCollector_split_term, c11FindDef, c11RunBody, c11Frame,
    c11ExecL, c11Exec, c11Eval, c11EvalL, c11Get, c11Apply, c11IsInstance, Expr.isPow, c11Truthy,
    pure, Except.pure, bind, Except.bind, c11OutToR, termBase, c11Attr, Expr.c04Field,
    Expr.c04Fields, c04Assoc]

theorem c11_call_exponent (ctx : C11Ctx) (F : Nat) (t : Expr) :
    c11CallLocal ctx c11SplitDefs F "exponent" [.expr t] = .ok (.expr (termExp t)) := by
  cases F <;> cases t <;> (try rename_i o a b; cases o) <;>
  simp [c11CallLocal, c11SplitDefs, c11_TermCollector_split_term, c11FindDef, c11RunBody, c11Frame,
    c11ExecL, c11Exec, c11Eval, c11EvalL, c11Get, c11Apply, c11IsInstance, Expr.isPow, c11Truthy,
    pure, Except.pure, bind, Except.bind, c11OutToR, termExp, c11Attr, Expr.c04Field,
    Expr.c04Fields, c04Assoc, one]

/-! ### dictionaries keyed by expressions -/

/-- a `{base: exponent}` dictionary (also: a frozenset of `(base, exponent)` pairs) as a value -/
def c11B2E (d : List (Expr × Expr)) : List C11Val := d.map fun p => .list [.expr p.1, .expr p.2]

/-- `d[b] = v` on the association list: the first key with `stored == b` keeps its place -/
def b2eSet (b v : Expr) : List (Expr × Expr) → List (Expr × Expr)
  | [] => [(b, v)]
  | (b', e') :: r => if b'.pyEq b then (b', v) :: r else (b', e') :: b2eSet b v r

theorem c11B2E_cons (p : Expr × Expr) (d : List (Expr × Expr)) :
    c11B2E (p :: d) = .list [.expr p.1, .expr p.2] :: c11B2E d := rfl

theorem c11Eq_expr (a b : Expr) : c11Eq (.expr a) (.expr b) = a.pyEq b := rfl

theorem c11_b2e_any (b : Expr) (d : List (Expr × Expr)) :
    c11DictHas (.expr b) (c11B2E d) = d.any (fun p => p.1.pyEq b) := by
  induction d with
  | nil => rfl
  | cons p d ih => simp [c11B2E_cons, c11DictHas, ih, c11Eq_expr]

theorem c11_b2e_find (b : Expr) (d : List (Expr × Expr)) :
    c11DictFind (.expr b) (c11B2E d) =
      (d.find? (fun p => p.1.pyEq b)).map (fun p => C11Val.expr p.2) := by
  induction d with
  | nil => rfl
  | cons p d ih =>
    simp only [c11B2E_cons, c11DictFind, c11Eq_expr, List.find?_cons]
    by_cases h : p.1.pyEq b = true <;> simp [h, ih]

theorem c11_b2e_set (b v : Expr) (d : List (Expr × Expr)) :
    c11DictSet (.expr b) (.expr v) (c11B2E d) = c11B2E (b2eSet b v d) := by
  induction d with
  | nil => rfl
  | cons p d ih =>
    simp only [c11B2E_cons, c11DictSet, c11Eq_expr, b2eSet]
    by_cases h : p.1.pyEq b = true <;> simp [h, ih, c11B2E_cons]

theorem b2eInsert_eq (b e : Expr) (d : List (Expr × Expr)) :
    b2eInsert b e d =
      (if b.hasList then .error .typeError
       else match d.find? (fun p => p.1.pyEq b) with
        | some p => (match pyAdd p.2 e with
            | .ok s => .ok (b2eSet b s d)
            | .error er => .error er)
        | none => .ok (b2eSet b e d)) := by
  induction d with
  | nil => cases h : b.hasList <;> simp [b2eInsert, b2eSet, h, throw, throwThe, MonadExceptOf.throw, pure, Except.pure]
  | cons p d ih =>
    obtain ⟨b', e'⟩ := p
    cases h : b.hasList
    · simp only [b2eInsert, h, Bool.false_eq_true, if_false, List.find?_cons, b2eSet] at ih ⊢
      cases h2 : b'.pyEq b
      · simp only [Bool.false_eq_true, if_false, ih, bind, Except.bind]
        cases d.find? (fun p => p.1.pyEq b) with
        | none => simp [pure, Except.pure]
        | some q => cases h3 : pyAdd q.2 e <;> simp [pure, Except.pure, h3]
      · simp only [if_true, bind, Except.bind]
        cases h3 : pyAdd e' e <;> simp [pure, Except.pure, h3]
    · simp [b2eInsert, h, throw, throwThe, MonadExceptOf.throw]

/-! ### `split_term` -/

/-- the frame of `split_term` -/
def c11SplitEnvG (m bv xv terms dv t mb me co cl ex : C11Val) : C11Env :=
  [("mul_term", m), ("base", bv), ("exponent", xv), ("terms", terms),
   ("base2exp", dv), ("term", t), ("mybase", mb), ("myexp", me), ("coefficients", co),
   ("cleaned_base2exp", cl), ("exp", ex)]

def c11SplitEnv (m terms : C11Val) (d : List (Expr × Expr)) (t mb me : C11Val) (co cl ex : C11Val) :
    C11Env :=
  c11SplitEnvG m (.closure "base") (.closure "exponent") terms (.dict (c11B2E d)) t mb me co cl ex

def c11Split1Stmts : List C11Stmt := [
        .assign "mybase" (.call (.var "base") [(.var "term")]),
        .assign "myexp" (.call (.var "exponent") [(.var "term")]),
        .ifThen (.cmp .isIn (.var "mybase") (.var "base2exp")) [
          .augItem "base2exp" (.var "mybase") .add (.var "myexp")]
          [
          .setItem "base2exp" (.var "mybase") (.var "myexp")]]

def c11Split1Body (ctx : C11Ctx) (F : Nat) (item : C11Val) (env : C11Env) : C11Out :=
  match c11Bind c11Set ["term"] item env with
  | some env' => c11ExecL ctx F c11Split1Stmts env'
  | none => .fail .stuck

/-- what the nested functions `base` / `exponent` do, as hypotheses on the context -/
structure C11SplitLocals (ctx : C11Ctx) : Prop where
  base : ∀ t, ctx.callLocal "base" [.expr t] = .ok (.expr (termBase t))
  exponent : ∀ t, ctx.callLocal "exponent" [.expr t] = .ok (.expr (termExp t))

theorem c11_split_loop1 (ctx : C11Ctx) (hl : C11SplitLocals ctx) (F : Nat) (m terms co cl ex : C11Val) :
    ∀ (fs : List Expr) (d : List (Expr × Expr)) (t mb me : C11Val),
      match b2eBuild fs d with
      | .ok d' => ∃ t' mb' me',
          c11For (c11Split1Body ctx F) (fs.map .expr) (c11SplitEnv m terms d t mb me co cl ex)
            = .fell (c11SplitEnv m terms d' t' mb' me' co cl ex)
      | .error er =>
          c11For (c11Split1Body ctx F) (fs.map .expr) (c11SplitEnv m terms d t mb me co cl ex)
            = .fail (.py er)
  | [], d, t, mb, me => by
    simp only [b2eBuild, c11For, pure, Except.pure, List.map_nil]
    exact ⟨t, mb, me, rfl⟩
  | f :: fs, d, t, mb, me => by
    have ih := c11_split_loop1 ctx hl F m terms co cl ex fs
    simp only [b2eBuild, b2eInsert_eq, List.map_cons, c11For]
    cases hh : (termBase f).hasList with
    | true =>
      simp [bind, Except.bind, c11Split1Body, c11Bind, c11Set, c11SplitEnv, c11SplitEnvG, c11Split1Stmts, c11ExecL,
        c11Exec, c11Eval, c11EvalL, c11Get, c11Apply, hl.base, hl.exponent, c11Cmp, c11Hashable,
        c11Hashable0, hh, pure, Except.pure, throw, throwThe, MonadExceptOf.throw]
    | false =>
      cases hf : d.find? (fun p => p.1.pyEq (termBase f)) with
      | none =>
        have := ih (b2eSet (termBase f) (termExp f) d) (.expr f) (.expr (termBase f)) (.expr (termExp f))
        have hany : d.any (fun p => p.1.pyEq (termBase f)) = false := by
          rw [List.find?_eq_none] at hf
          simpa [List.any_eq_false] using hf
        simp [bind, Except.bind, c11Split1Body, c11Bind, c11Set, c11SplitEnv, c11SplitEnvG, c11Split1Stmts, c11ExecL,
        c11Exec, c11Eval, c11EvalL, c11Get, c11Apply, hl.base, hl.exponent, c11Cmp, c11Hashable,
        c11Hashable0, hh, pure, Except.pure, throw, throwThe, MonadExceptOf.throw, c11_b2e_any,
        c11_b2e_find, c11_b2e_set, hf, c11Truthy, List.any_eq_true, c11Bin, c11Lift, hany] at this ⊢
        exact this
      | some p =>
        have hany : d.any (fun p => p.1.pyEq (termBase f)) = true := by
          rw [List.any_eq_true]
          exact ⟨p, List.mem_of_find?_eq_some hf, by simpa using List.find?_some hf⟩
        cases hadd : pyAdd p.2 (termExp f) with
        | error er =>
          simp [bind, Except.bind, c11Split1Body, c11Bind, c11Set, c11SplitEnv, c11SplitEnvG, c11Split1Stmts, c11ExecL,
        c11Exec, c11Eval, c11EvalL, c11Get, c11Apply, hl.base, hl.exponent, c11Cmp, c11Hashable,
        c11Hashable0, hh, pure, Except.pure, throw, throwThe, MonadExceptOf.throw, c11_b2e_any,
        c11_b2e_find, c11_b2e_set, hf, c11Truthy, List.any_eq_true, c11Bin, c11Lift, hany, hadd]
        | ok sm =>
          have := ih (b2eSet (termBase f) sm d) (.expr f) (.expr (termBase f)) (.expr (termExp f))
          simp [bind, Except.bind, c11Split1Body, c11Bind, c11Set, c11SplitEnv, c11SplitEnvG, c11Split1Stmts, c11ExecL,
        c11Exec, c11Eval, c11EvalL, c11Get, c11Apply, hl.base, hl.exponent, c11Cmp, c11Hashable,
        c11Hashable0, hh, pure, Except.pure, throw, throwThe, MonadExceptOf.throw, c11_b2e_any,
        c11_b2e_find, c11_b2e_set, hf, c11Truthy, List.any_eq_true, c11Bin, c11Lift, hany, hadd] at this ⊢
          exact this

/-! #### what `b2eBuild` guarantees about its keys -/

def b2eKeysOk (d : List (Expr × Expr)) : Prop :=
  (∀ p ∈ d, p.1.hasList = false) ∧ d.Pairwise (fun p q => p.1.pyEq q.1 = false)

theorem b2eSet_of_found (b v : Expr) : ∀ (d : List (Expr × Expr)),
    d.any (fun p => p.1.pyEq b) = true → (b2eSet b v d).map Prod.fst = d.map Prod.fst
  | [], h => by simp at h
  | (b', e') :: r, h => by
    simp only [b2eSet]
    by_cases hb : b'.pyEq b = true
    · simp [hb]
    · simp only [List.any_cons, Bool.or_eq_true] at h
      have hr := h.resolve_left hb
      simp [hb, b2eSet_of_found b v r hr]

theorem b2eSet_of_not_found (b v : Expr) : ∀ (d : List (Expr × Expr)),
    d.any (fun p => p.1.pyEq b) = false → b2eSet b v d = d ++ [(b, v)]
  | [], _ => rfl
  | (b', e') :: r, h => by
    simp only [List.any_cons, Bool.or_eq_false_iff] at h
    simp [b2eSet, h.1, b2eSet_of_not_found b v r h.2]

theorem b2eKeysOk_congr {d d' : List (Expr × Expr)} (h : d'.map Prod.fst = d.map Prod.fst)
    (hd : b2eKeysOk d) : b2eKeysOk d' := by
  obtain ⟨h1, h2⟩ := hd
  have e1 : ∀ l : List (Expr × Expr), (∀ p ∈ l, p.1.hasList = false) ↔
      ∀ k ∈ l.map Prod.fst, k.hasList = false := by
    intro l; simp
  have e2 : ∀ l : List (Expr × Expr), l.Pairwise (fun p q => p.1.pyEq q.1 = false) ↔
      (l.map Prod.fst).Pairwise (fun a b => a.pyEq b = false) := by
    intro l; rw [List.pairwise_map]
  exact ⟨(e1 d').2 (h ▸ (e1 d).1 h1), (e2 d').2 (h ▸ (e2 d).1 h2)⟩

theorem b2eInsert_keysOk {b e : Expr} {d d' : List (Expr × Expr)} (h : b2eInsert b e d = .ok d')
    (hd : b2eKeysOk d) : b2eKeysOk d' := by
  rw [b2eInsert_eq] at h
  cases hh : b.hasList with
  | true => simp [hh] at h
  | false =>
    simp only [hh, Bool.false_eq_true, if_false] at h
    cases hf : d.find? (fun p => p.1.pyEq b) with
    | some p =>
      rw [hf] at h
      have hany : d.any (fun p => p.1.pyEq b) = true := by
        rw [List.any_eq_true]
        exact ⟨p, List.mem_of_find?_eq_some hf, by simpa using List.find?_some hf⟩
      cases hadd : pyAdd p.2 e with
      | error er => simp [hadd] at h
      | ok sm =>
        simp only [hadd, Except.ok.injEq] at h
        subst h
        exact b2eKeysOk_congr (b2eSet_of_found b sm d hany) hd
    | none =>
      rw [hf] at h
      simp only [Except.ok.injEq] at h
      subst h
      have hany : d.any (fun p => p.1.pyEq b) = false := by
        rw [List.find?_eq_none] at hf
        simpa [List.any_eq_false] using hf
      rw [b2eSet_of_not_found b e d hany]
      obtain ⟨h1, h2⟩ := hd
      refine ⟨?_, ?_⟩
      · intro p hp
        rcases List.mem_append.1 hp with hp | hp
        · exact h1 p hp
        · simp only [List.mem_singleton] at hp; subst hp; exact hh
      · rw [List.pairwise_append]
        refine ⟨h2, List.pairwise_singleton _ _, ?_⟩
        intro p hp q hq
        simp only [List.mem_singleton] at hq; subst hq
        simp only [List.any_eq_false] at hany
        simpa using hany p hp

theorem b2eBuild_keysOk : ∀ {fs : List Expr} {d d' : List (Expr × Expr)},
    b2eBuild fs d = .ok d' → b2eKeysOk d → b2eKeysOk d'
  | [], d, d', h, hd => by
    simp only [b2eBuild, pure, Except.pure, Except.ok.injEq] at h; subst h; exact hd
  | f :: fs, d, d', h, hd => by
    simp only [b2eBuild, bind, Except.bind] at h
    cases hi : b2eInsert (termBase f) (termExp f) d with
    | error er => simp [hi] at h
    | ok d1 =>
      rw [hi] at h
      exact b2eBuild_keysOk h (b2eInsert_keysOk hi hd)

def c11Split2Stmts : List C11Stmt := [
        .assign "term" (.bin .pow (.var "base") (.var "exp")),
        .ifThen (.cmp .le (.selfCall "get_dependencies" [(.var "term")]) (.selfAttr "parameters")) [
          .append "coefficients" (.var "term")]
          [
          .setItem "cleaned_base2exp" (.var "base") (.var "exp")]]

def c11Split2Body (ctx : C11Ctx) (F : Nat) (item : C11Val) (env : C11Env) : C11Out :=
  match c11Bind c11Set ["base", "exp"] item env with
  | some env' => c11ExecL ctx F c11Split2Stmts env'
  | none => .fail .stuck

/-- what `self.get_dependencies` / `self.parameters` are, as hypotheses on the context -/
structure C11CollCtx (ctx : C11Ctx) (params : List Expr) : Prop where
  deps : ∀ t, ctx.callSelf "get_dependencies" [.expr t] =
    (match depsR t with
     | .ok d => .ok (.set (d.map .expr))
     | .error e => .error (.py e))
  params : c11Get "parameters" ctx.selfAttrs = .set (params.map .expr)

theorem c11Subset_exprs (d ps : List Expr) :
    c11Subset (d.map .expr) (ps.map .expr) = subsetPy d ps := by
  simp [c11Subset, subsetPy, List.all_map, List.any_map, c11Eq1, c11Eq0, Function.comp_def]

theorem c11_split_loop2 (ctx : C11Ctx) (params : List Expr) (hc : C11CollCtx ctx params) (F : Nat)
    (m xv terms dv mb me : C11Val) :
    ∀ (rest : List (Expr × Expr)) (co : List Expr) (cl : List (Expr × Expr)) (bv t ex : C11Val),
      (∀ p ∈ rest, p.1.hasList = false) →
      rest.Pairwise (fun p q => p.1.pyEq q.1 = false) →
      (∀ k ∈ cl, ∀ p ∈ rest, k.1.pyEq p.1 = false) →
      match b2eSplit params rest with
      | .ok (cs, cln) => ∃ bv' t' ex',
          c11For (c11Split2Body ctx F) (c11B2E rest)
            (c11SplitEnvG m bv xv terms dv t mb me (.list (co.map .expr)) (.dict (c11B2E cl)) ex)
          = .fell (c11SplitEnvG m bv' xv terms dv t' mb me (.list ((co ++ cs).map .expr))
              (.dict (c11B2E (cl ++ cln))) ex')
      | .error er =>
          c11For (c11Split2Body ctx F) (c11B2E rest)
            (c11SplitEnvG m bv xv terms dv t mb me (.list (co.map .expr)) (.dict (c11B2E cl)) ex)
          = .fail (.py er)
  | [], co, cl, bv, t, ex, _, _, _ => by
    simp only [b2eSplit, pure, Except.pure, c11B2E, List.map_nil, c11For, List.append_nil]
    exact ⟨bv, t, ex, rfl⟩
  | (b, e) :: rest, co, cl, bv, t, ex, h1, h2, h3 => by
    have hb : b.hasList = false := h1 (b, e) (List.mem_cons_self ..)
    have h1' : ∀ p ∈ rest, p.1.hasList = false := fun p hp => h1 p (List.mem_cons_of_mem _ hp)
    rw [List.pairwise_cons] at h2
    have hcl : (cl.any fun p => p.1.pyEq b) = false := by
      simp only [List.any_eq_false]
      intro p hp; simpa using h3 p hp (b, e) (List.mem_cons_self ..)
    have ih := c11_split_loop2 ctx params hc F m xv terms dv mb me rest
    simp only [b2eSplit, c11B2E_cons, c11For]
    cases hpow : pyPow b e with
    | error er =>
      simp [bind, Except.bind, c11Split2Body, c11Bind, c11Set, c11SplitEnvG, c11Split2Stmts, c11ExecL,
        c11Exec, c11Eval, c11EvalL, c11Get, c11Bin, hpow, c11Lift, pure, Except.pure]
    | ok term =>
      cases hd : depsR term with
      | error er =>
        simp [bind, Except.bind, c11Split2Body, c11Bind, c11Set, c11SplitEnvG, c11Split2Stmts,
          c11ExecL, c11Exec, c11Eval, c11EvalL, c11Get, c11Bin, hpow, c11Lift, pure, Except.pure,
          hc.deps, hd]
      | ok dd =>
        cases hsub : subsetPy dd params with
        | true =>
          have := ih (co ++ [term]) cl (.expr b) (.expr term) (.expr e) h1' h2.2
            (fun k hk p hp => h3 k hk p (List.mem_cons_of_mem _ hp))
          cases hrest : b2eSplit params rest with
          | error er =>
            rw [hrest] at this
            simp [bind, Except.bind, c11Split2Body, c11Bind, c11Set, c11SplitEnvG, c11Split2Stmts,
              c11ExecL, c11Exec, c11Eval, c11EvalL, c11Get, c11Bin, hpow, c11Lift, pure, Except.pure,
              hc.deps, hd, hc.params, c11Cmp, c11Subset_exprs, hsub, c11Truthy] at this ⊢
            exact this
          | ok r =>
            obtain ⟨cs, cln⟩ := r
            rw [hrest] at this
            simp [bind, Except.bind, c11Split2Body, c11Bind, c11Set, c11SplitEnvG, c11Split2Stmts,
              c11ExecL, c11Exec, c11Eval, c11EvalL, c11Get, c11Bin, hpow, c11Lift, pure, Except.pure,
              hc.deps, hd, hc.params, c11Cmp, c11Subset_exprs, hsub, c11Truthy] at this ⊢
            exact this
        | false =>
          have := ih co (cl ++ [(b, e)]) (.expr b) (.expr term) (.expr e) h1' h2.2
            (fun k hk p hp => by
              rcases List.mem_append.1 hk with hk | hk
              · exact h3 k hk p (List.mem_cons_of_mem _ hp)
              · simp only [List.mem_singleton] at hk; subst hk; exact h2.1 p hp)
          cases hrest : b2eSplit params rest with
          | error er =>
            rw [hrest] at this
            simp [bind, Except.bind, c11Split2Body, c11Bind, c11Set, c11SplitEnvG, c11Split2Stmts,
              c11ExecL, c11Exec, c11Eval, c11EvalL, c11Get, c11Bin, hpow, c11Lift, pure, Except.pure,
              hc.deps, hd, hc.params, c11Cmp, c11Subset_exprs, hsub, c11Truthy, c11Hashable,
              c11Hashable0, hb, c11_b2e_set, b2eSet_of_not_found b e cl hcl] at this ⊢
            exact this
          | ok r =>
            obtain ⟨cs, cln⟩ := r
            rw [hrest] at this
            simp [bind, Except.bind, c11Split2Body, c11Bind, c11Set, c11SplitEnvG, c11Split2Stmts,
              c11ExecL, c11Exec, c11Eval, c11EvalL, c11Get, c11Bin, hpow, c11Lift, pure, Except.pure,
              hc.deps, hd, hc.params, c11Cmp, c11Subset_exprs, hsub, c11Truthy, c11Hashable,
              c11Hashable0, hb, c11_b2e_set, b2eSet_of_not_found b e cl hcl] at this ⊢
            exact this

theorem c11ExecL_append (ctx : C11Ctx) (F : Nat) : ∀ (a b : List C11Stmt) (env : C11Env),
    c11ExecL ctx F (a ++ b) env =
      (match c11ExecL ctx F a env with
       | .fell env' => c11ExecL ctx F b env'
       | o => o)
  | [], b, env => rfl
  | s :: a, b, env => by
    simp only [List.cons_append, c11ExecL]
    cases c11Exec ctx F s env with
    | fell env' => exact c11ExecL_append ctx F a b env'
    | _ => rfl

def c11SplitPrefix : List C11Stmt := [
      .defFn "base",
      .defFn "exponent",
      .ifThen (.call (.glob .pyIsinstance) [(.var "mul_term"), (.glob .clsProduct)]) [
        .assign "terms" (.attr (.var "mul_term") "children")]
        [
        .ifThen (.call (.glob .pyIsinstance) [(.var "mul_term"), (.seq [(.glob .clsPower), (.glob .clsAlgebraicLeaf)])]) [
          .assign "terms" (.seq [(.var "mul_term")])]
          [
          .ifThen (.not (.call (.glob .pyBool) [(.selfCall "get_dependencies" [(.var "mul_term")])])) [
            .assign "terms" (.seq [(.var "mul_term")])]
            [
            .raise .runtimeError]]]]

def c11SplitEnv0 (t : Expr) : C11Env :=
  c11SplitEnvG (.expr t) .unbound .unbound .unbound .unbound .unbound .unbound .unbound .unbound
    .unbound .unbound

theorem c11_split_prefix (ctx : C11Ctx) (params : List Expr) (hc : C11CollCtx ctx params) (F : Nat)
    (t : Expr) :
    c11ExecL ctx F c11SplitPrefix (c11SplitEnv0 t) =
      (match splitFactors t with
       | .ok fs => .fell (c11SplitEnvG (.expr t) (.closure "base") (.closure "exponent")
           (.list (fs.map .expr)) .unbound .unbound .unbound .unbound .unbound .unbound .unbound)
       | .error er => .fail (.py er)) := by
  have hdef : ∀ t : Expr, t.isAlgebraicLeaf = false → t.isPow = false → isProdE t = false →
      c11ExecL ctx F c11SplitPrefix (c11SplitEnv0 t) =
      (match (do let d ← depsR t; if d.isEmpty then pure [t] else throw .runtime :
          Except RwErr (List Expr)) with
       | .ok fs => .fell (c11SplitEnvG (.expr t) (.closure "base") (.closure "exponent")
           (.list (fs.map .expr)) .unbound .unbound .unbound .unbound .unbound .unbound .unbound)
       | .error er => .fail (.py er)) := by
    intro t h1 h2 h3
    cases hd : depsR t with
    | error er =>
      simp [c11SplitPrefix, c11SplitEnv0, c11SplitEnvG, c11ExecL, c11Exec, c11Set, c11Eval, c11EvalL,
        c11Get, c11Apply, c11IsInstance, h1, h2, h3, c11Truthy, pure, Except.pure, bind, Except.bind,
        hc.deps, hd]
    | ok d =>
      cases hde : d.isEmpty <;>
      simp [c11SplitPrefix, c11SplitEnv0, c11SplitEnvG, c11ExecL, c11Exec, c11Set, c11Eval, c11EvalL,
        c11Get, c11Apply, c11IsInstance, h1, h2, h3, c11Truthy, pure, Except.pure, bind, Except.bind,
        hc.deps, hd, hde, throw, throwThe, MonadExceptOf.throw]
  cases t with
  | nary o cs =>
    cases o with
    | prod =>
      simp [c11SplitPrefix, c11SplitEnv0, c11SplitEnvG, c11ExecL, c11Exec, c11Set, c11Eval, c11EvalL,
        c11Get, c11Apply, c11IsInstance, isProdE, c11Truthy, pure, Except.pure, bind, Except.bind,
        splitFactors, c11Attr, Expr.c04Field, Expr.c04Fields, c04Assoc]
    | _ => exact hdef _ rfl rfl rfl
  | bin o a b =>
    cases o with
    | pow =>
      simp [c11SplitPrefix, c11SplitEnv0, c11SplitEnvG, c11ExecL, c11Exec, c11Set, c11Eval, c11EvalL,
        c11Get, c11Apply, c11IsInstance, isProdE, Expr.isPow, c11Truthy, pure, Except.pure, bind,
        Except.bind, splitFactors]
    | _ => exact hdef _ rfl rfl rfl
  | un o a => cases o <;> exact hdef _ rfl rfl rfl
  | const k => exact hdef _ rfl rfl rfl
  | _ =>
    first
    | exact hdef _ rfl rfl rfl
    | simp [c11SplitPrefix, c11SplitEnv0, c11SplitEnvG, c11ExecL, c11Exec, c11Set, c11Eval, c11EvalL,
        c11Get, c11Apply, c11IsInstance, isProdE, Expr.isPow, c11Truthy, pure, Except.pure, bind,
        Except.bind, splitFactors, Expr.isAlgebraicLeaf]

def c11SplitTail : List C11Stmt := [
      .assign "term" (.call (.glob .pyFrozenset) [(.comp (.seq [(.var "base"), (.var "exp")]) ["base", "exp"] (.method (.var "cleaned_base2exp") "items" []))]),
      .ret (.seq [(.var "term"), (.selfCall "rec" [(.call (.glob .flattenedProduct) [(.var "coefficients")])])])]

theorem c11MapM_pairs_id (f : C11Val → C11R C11Val)
    (hf : ∀ b e : Expr, f (.list [.expr b, .expr e]) = .ok (.list [.expr b, .expr e])) :
    ∀ d : List (Expr × Expr), c11MapM f (c11B2E d) = .ok (c11B2E d)
  | [] => rfl
  | p :: d => by
    simp [c11B2E_cons, c11MapM, c11MapM_pairs_id f hf d, hf, pure, Except.pure, bind, Except.bind]

/-- `[(base, exp) for base, exp in ITER]` rebuilds the pairs -/
theorem c11_comp_pairs (ctx : C11Ctx) (env : C11Env) (iter : C11Tm) (d : List (Expr × Expr))
    (h : c11Eval ctx env iter = .ok (.list (c11B2E d))) :
    c11Eval ctx env (.comp (.seq [(.var "base"), (.var "exp")]) ["base", "exp"] iter)
      = .ok (.list (c11B2E d)) := by
  simp only [c11Eval, h, c11Items, bind, Except.bind, pure, Except.pure]
  rw [c11MapM_pairs_id]
  intro b e
  simp [c11Bind, c11Push, c11EvalL, c11Eval, c11Get, pure, Except.pure, bind, Except.bind]

theorem c11_b2e_hashable (d : List (Expr × Expr)) (h : ∀ p ∈ d, p.1.hasList = false) :
    (c11B2E d).all c11Hashable = !d.any (fun p => p.2.hasList) := by
  induction d with
  | nil => rfl
  | cons p d ih =>
    have h1 := h p (List.mem_cons_self ..)
    have h2 := ih (fun q hq => h q (List.mem_cons_of_mem _ hq))
    simp only [c11B2E_cons, List.all_cons, h2, List.any_cons, c11Hashable, c11Hashable0, List.all_nil,
      h1, Bool.not_false, Bool.true_and, Bool.and_true, Bool.not_or]

theorem c11_split_tail (ctx : C11Ctx) (F : Nat) (m bv xv terms dv t mb me ex : C11Val)
    (coeffs : List Expr) (cleaned : List (Expr × Expr)) (hk : ∀ p ∈ cleaned, p.1.hasList = false) :
    c11OutToR (c11ExecL ctx F c11SplitTail
      (c11SplitEnvG m bv xv terms dv t mb me (.list (coeffs.map .expr)) (.dict (c11B2E cleaned)) ex)) =
    (if cleaned.any (fun p => p.2.hasList) then .error (.py .typeError)
     else match flatProd coeffs with
      | .error er => .error (.py er)
      | .ok cf => match ctx.recur cf with
        | .error er => .error (.py er)
        | .ok coeff => .ok (.list [.set (c11B2E cleaned), .expr coeff])) := by
  have hcomp := c11_comp_pairs ctx
    (c11SplitEnvG m bv xv terms dv t mb me (.list (coeffs.map .expr)) (.dict (c11B2E cleaned)) ex)
    (.method (.var "cleaned_base2exp") "items" []) cleaned
    (by simp [c11SplitEnvG, c11Eval, c11EvalL, c11Get, c11Method, pure, Except.pure, bind, Except.bind])
  simp only [c11SplitTail, c11ExecL, c11Exec]
  simp only [c11Eval, c11EvalL] at hcomp ⊢
  simp only [hcomp]
  cases hh : cleaned.any (fun p => p.2.hasList) with
  | true =>
    simp [c11SplitTail, c11SplitEnvG, c11ExecL, c11Exec, c11Eval, c11EvalL, c11Get, c11Method, c11Items,
      c11Apply, c11_b2e_hashable cleaned hk, hh, pure, Except.pure, bind, Except.bind,
      throw, throwThe, MonadExceptOf.throw, c11OutToR]
  | false =>
    cases hf : flatProd coeffs with
    | error er =>
      simp [c11SplitTail, c11SplitEnvG, c11ExecL, c11Exec, c11Eval, c11EvalL, c11Get, c11Method,
        c11Items, c11Apply, c11_b2e_hashable cleaned hk, hh, pure, Except.pure, bind,
        Except.bind, throw, throwThe, MonadExceptOf.throw, c11OutToR, c11Set, c11AsExprs_exprs, hf,
        c11Lift]
    | ok cf =>
      cases hr : ctx.recur cf <;>
      simp [c11SplitTail, c11SplitEnvG, c11ExecL, c11Exec, c11Eval, c11EvalL, c11Get, c11Method,
        c11Items, c11Apply, c11_b2e_hashable cleaned hk, hh, pure, Except.pure, bind,
        Except.bind, throw, throwThe, MonadExceptOf.throw, c11OutToR, c11Set, c11AsExprs_exprs, hf,
        c11Lift, hr, Functor.map, Except.map]

theorem b2eSplit_mem {params : List Expr} : ∀ {d : List (Expr × Expr)} {cs : List Expr}
    {cln : List (Expr × Expr)}, b2eSplit params d = .ok (cs, cln) → ∀ p ∈ cln, p ∈ d
  | [], cs, cln, h, p, hp => by
    simp only [b2eSplit, pure, Except.pure, Except.ok.injEq, Prod.mk.injEq] at h
    rw [← h.2] at hp; cases hp
  | (b, e) :: rest, cs, cln, h, p, hp => by
    simp only [b2eSplit, bind, Except.bind] at h
    cases hpow : pyPow b e with
    | error er => simp [hpow] at h
    | ok term =>
      cases hd : depsR term with
      | error er => simp [hpow, hd] at h
      | ok dd =>
        cases hr : b2eSplit params rest with
        | error er => simp [hpow, hd, hr] at h
        | ok r =>
          obtain ⟨cs', cl'⟩ := r
          simp only [hpow, hd, hr] at h
          cases hsub : subsetPy dd params
          case true =>
            simp only [hsub, if_true, pure, Except.pure, Except.ok.injEq, Prod.mk.injEq] at h
            rw [← h.2] at hp
            exact List.mem_cons_of_mem _ (b2eSplit_mem hr p hp)
          case false =>
            simp only [hsub, Bool.false_eq_true, if_false, pure, Except.pure, Except.ok.injEq,
              Prod.mk.injEq] at h
            rw [← h.2] at hp
            rcases List.mem_cons.1 hp with hp | hp
            · rw [hp]; exact List.mem_cons_self ..
            · exact List.mem_cons_of_mem _ (b2eSplit_mem hr p hp)

theorem c11Exec_split_for1 (ctx : C11Ctx) (F : Nat) (env : C11Env) :
    c11Exec ctx F (.for ["term"] (.var "terms") c11Split1Stmts) env =
      (match c11Eval ctx env (.var "terms") with
       | .error e => .fail e
       | .ok v => match c11Items v with
         | .error e => .fail e
         | .ok items => c11For (c11Split1Body ctx F) items env) := rfl

theorem c11Exec_split_for2 (ctx : C11Ctx) (F : Nat) (env : C11Env) :
    c11Exec ctx F (.for ["base", "exp"] (.method (.var "base2exp") "items" []) c11Split2Stmts) env =
      (match c11Eval ctx env (.method (.var "base2exp") "items" []) with
       | .error e => .fail e
       | .ok v => match c11Items v with
         | .error e => .fail e
         | .ok items => c11For (c11Split2Body ctx F) items env) := rfl

theorem c11_split_body : c11_TermCollector_split_term.body =
    c11SplitPrefix ++ ([.assign "base2exp" .emptyDict,
      .for ["term"] (.var "terms") c11Split1Stmts] ++ ([
      .assign "coefficients" (.seq []),
      .assign "cleaned_base2exp" .emptyDict,
      .for ["base", "exp"] (.method (.var "base2exp") "items" []) c11Split2Stmts] ++ c11SplitTail)) :=
  rfl

/-- the value `split_term` returns: `(frozenset of (base, exponent) pairs, coefficient)` -/
def c11SplitResult : Except RwErr (List (Expr × Expr) × Expr) → C11R C11Val
  | .ok (k, coeff) => .ok (.list [.set (c11B2E k), .expr coeff])
  | .error er => .error (.py er)

theorem c11_split_term (ctx : C11Ctx) (params : List Expr) (hc : C11CollCtx ctx params) (fuel : Nat)
    (t : Expr) :
    c11RunFn ctx fuel c11_TermCollector_split_term [.expr t] =
      c11SplitResult (splitTerm ctx.recur params t) := by
  generalize hctx' : ({ ctx with callLocal := c11CallLocal ctx c11_TermCollector_split_term.defs fuel } : C11Ctx) = ctx'
  have hrec : ctx'.recur = ctx.recur := by rw [← hctx']
  have hc' : C11CollCtx ctx' params := by rw [← hctx']; exact ⟨hc.deps, hc.params⟩
  have hl : C11SplitLocals ctx' := by
    rw [← hctx']; exact ⟨c11_call_base ctx fuel, c11_call_exponent ctx fuel⟩
  unfold c11RunFn
  rw [hctx']
  simp only [c11RunBody, c11_split_body]
  have hframe : c11Frame c11_TermCollector_split_term.params c11_TermCollector_split_term.locals []
      [.expr t] = some (c11SplitEnv0 t) := rfl
  rw [hframe]
  simp only [c11ExecL_append, c11_split_prefix ctx' params hc' fuel t, splitTerm]
  cases hsf : splitFactors t with
  | error er => rfl
  | ok fs =>
    simp only [bind, Except.bind]
    -- first loop
    have h1 := c11_split_loop1 ctx' hl fuel (.expr t) (.list (fs.map .expr)) .unbound .unbound .unbound
      fs [] .unbound .unbound .unbound
    simp only [c11ExecL, c11Exec_split_for1, c11Exec_split_for2]
    simp only [c11SplitEnv, c11SplitEnvG, c11B2E, List.map_nil] at h1
    simp [c11Exec, c11Eval, c11SplitEnvG, c11Set, c11Get, c11Items, pure, Except.pure, bind,
      Except.bind]
    cases hb : b2eBuild fs [] with
    | error er =>
      rw [hb] at h1
      simp only at h1
      rw [h1]; rfl
    | ok d =>
      rw [hb] at h1
      obtain ⟨t', mb', me', h1⟩ := h1
      rw [h1]
      have hk : b2eKeysOk d := b2eBuild_keysOk hb ⟨by simp, List.Pairwise.nil⟩
      have h2 := c11_split_loop2 ctx' params hc' fuel (.expr t) (.closure "exponent")
        (.list (fs.map .expr)) (.dict (c11B2E d)) mb' me' d [] [] (.closure "base") t' .unbound
        hk.1 hk.2 (by simp)
      simp only [c11SplitEnvG, List.map_nil, List.nil_append] at h2
      simp [c11EvalL, c11Method, c11Set, c11Get, c11Items, pure, Except.pure, bind, Except.bind]
      cases hs : b2eSplit params d with
      | error er =>
        rw [hs] at h2
        simp only [c11B2E, List.map_nil] at h2
        rw [h2]; rfl
      | ok r =>
        obtain ⟨cs, cln⟩ := r
        rw [hs] at h2
        obtain ⟨bv', t'', ex', h2⟩ := h2
        have hcl : ∀ p ∈ cln, p.1.hasList = false := fun p hp => hk.1 p (b2eSplit_mem hs p hp)
        have htail := c11_split_tail ctx' fuel (.expr t) bv' (.closure "exponent")
          (.list (fs.map .expr)) (.dict (c11B2E d)) t'' mb' me' ex' cs cln hcl
        simp only [c11SplitEnvG] at htail
        simp only [c11B2E, List.map_nil] at h2 htail
        rw [h2]
        simp only [htail, hrec]
        cases hh : cln.any (fun p => p.2.hasList) with
        | true => simp [c11SplitResult, throw, throwThe, MonadExceptOf.throw]
        | false =>
          cases hf : flatProd cs with
          | error er => simp [c11SplitResult]
          | ok cf => cases hr : ctx.recur cf <;> simp [c11SplitResult, c11B2E, hr]
end PV
