import PV.Model.NodeCount
import PV.Proofs.WalkSpec
import PV.Proofs.PyEqEquiv
import PV.Proofs.SyntaxBEq
import Mathlib.Data.List.Nodup
import Mathlib.Data.List.Perm.Subperm
import Mathlib.Data.Finset.Card
import Mathlib.Tactic.Choose
/-
  C09 — the exact cached walk of `get_num_nodes` (`c09CountWalk`, `PV/Model/NodeCount.lean`):
  a generic unfolding over `walkChildren`, the subterm list `c09Subterms` (an independent
  specification), and the invariants of the cache.
-/
set_option linter.unusedSimpArgs false
set_option linter.unusedTactic false
set_option linter.unreachableTactic false
namespace PV

/-! ### sequencing -/

theorem c09Seq_ok_zero (r : Except DepErr (Nat × List Expr)) :
    c09Seq r (fun c => .ok (0, c)) = r := by
  rcases r with err | ⟨x, c⟩ <;> simp [c09Seq]

theorem c09Seq_zero_ok (cache : List Expr) (k : List Expr → Except DepErr (Nat × List Expr)) :
    c09Seq (.ok (0, cache)) k = k cache := by
  simp only [c09Seq]
  rcases k cache with err | ⟨y, c⟩ <;> simp

theorem c09Seq_assoc (r : Except DepErr (Nat × List Expr))
    (k1 k2 : List Expr → Except DepErr (Nat × List Expr)) :
    c09Seq (c09Seq r k1) k2 = c09Seq r (fun c => c09Seq (k1 c) k2) := by
  rcases r with err | ⟨x, c⟩
  · simp [c09Seq]
  · simp only [c09Seq]
    rcases k1 c with err | ⟨y, c1⟩
    · simp
    · simp only
      rcases k2 c1 with err | ⟨z, c2⟩ <;> simp [Nat.add_assoc]

theorem c09Seq_eq_ok {r : Except DepErr (Nat × List Expr)}
    {k : List Expr → Except DepErr (Nat × List Expr)} {n : Nat} {c' : List Expr}
    (h : c09Seq r k = .ok (n, c')) :
    ∃ x c1 y, r = .ok (x, c1) ∧ k c1 = .ok (y, c') ∧ n = x + y := by
  rcases r with err | ⟨x, c1⟩
  · simp [c09Seq] at h
  · simp only [c09Seq] at h
    rcases hk : k c1 with err | ⟨y, c2⟩
    · simp [hk] at h
    · simp only [hk, Except.ok.injEq, Prod.mk.injEq] at h
      exact ⟨x, c1, y, rfl, by rw [hk, h.2], h.1.symm⟩

theorem c09Store_eq_ok {e : Expr} {r : Except DepErr (Nat × List Expr)} {n : Nat} {c' : List Expr}
    (h : c09Store e r = .ok (n, c')) : ∃ m c1, r = .ok (m, c1) ∧ n = m + 1 ∧ c' = c1 ++ [e] := by
  rcases r with err | ⟨m, c1⟩
  · simp [c09Store] at h
  · simp only [c09Store, Except.ok.injEq, Prod.mk.injEq] at h
    exact ⟨m, c1, rfl, h.1.symm, h.2.symm⟩

/-! ### the list traversals -/

theorem c09CountWalkL_append : ∀ (as bs : List Expr) (cache : List Expr),
    c09CountWalkL (as ++ bs) cache = c09Seq (c09CountWalkL as cache) (fun c1 => c09CountWalkL bs c1)
  | [], bs, cache => by simp [c09CountWalkL, c09Seq_zero_ok]
  | a :: as, bs, cache => by
    simp only [List.cons_append, c09CountWalkL, c09Seq_assoc]
    congr 1
    funext c
    exact c09CountWalkL_append as bs c

theorem c09CountWalkS_eq : ∀ (cs : List Expr) (cache : List Expr),
    c09CountWalkS cs cache = c09CountWalkL (cs.filter (fun c => !c.isNoneConst)) cache
  | [], cache => by simp [c09CountWalkS, c09CountWalkL]
  | c :: cs, cache => by
    by_cases hc : c = .const .none
    · subst hc
      simp [c09CountWalkS, Expr.isNoneConst, c09CountWalkS_eq cs cache]
    · have hn : c.isNoneConst = false := by
        cases c with
        | const k => cases k <;> simp_all [Expr.isNoneConst]
        | _ => simp [Expr.isNoneConst]
      have : c09CountWalkS (c :: cs) cache =
          c09Seq (c09CountWalk c cache) (fun c1 => c09CountWalkS cs c1) := by
        cases c with
        | const k => cases k <;> simp_all [c09CountWalkS]
        | _ => simp [c09CountWalkS]
      rw [this]
      simp only [List.filter_cons, hn, Bool.not_false, if_true, c09CountWalkL]
      congr 1
      funext c1
      exact c09CountWalkS_eq cs c1

/-! ### the walk, generically: lookup, reject, children in `walkChildren` order, store -/

theorem c09CountWalk_eq (e : Expr) (cache : List Expr) :
    c09CountWalk e cache =
      if c09Hit cache e then .ok (0, cache)
      else if e.isRejectedConst then .error .foreign
      else c09Store e (c09CountWalkL (walkChildren e) cache) := by
  cases e with
  | const c =>
    cases c <;> simp [c09CountWalk, c09Cached, Expr.isRejectedConst, walkChildren, Expr.children,
      c09CountWalkL]
  | bin o a b =>
    cases o <;> simp [c09CountWalk, c09Cached, Expr.isRejectedConst, walkChildren, Expr.children,
      c09CountWalkL, BinOp.isShift, c09Seq_ok_zero]
  | slice cs =>
    simp [c09CountWalk, c09Cached, Expr.isRejectedConst, walkChildren, c09CountWalkS_eq]
  | callKw f as ns vs =>
    simp [c09CountWalk, c09Cached, Expr.isRejectedConst, walkChildren, Expr.children,
      c09CountWalkL, c09CountWalkL_append]
  | _ =>
    simp [c09CountWalk, c09Cached, Expr.isRejectedConst, walkChildren, Expr.children,
      c09CountWalkL, c09Seq_ok_zero]

/-! ### the subterms of a tree (independent of the walk: no cache, no counting) -/

mutual
/-- every subexpression of `e`, `e` itself included, each occurrence listed once: the node, then
the subterms of its expression-valued fields (constants are subterms; the absent `None` parts of
a slice are not) -/
def c09Subterms : Expr → List Expr
  | .nary o cs => .nary o cs :: c09SubtermsL cs
  | .bin o a b => .bin o a b :: (c09Subterms a ++ c09Subterms b)
  | .un o a => .un o a :: c09Subterms a
  | .cmp o a b => .cmp o a b :: (c09Subterms a ++ c09Subterms b)
  | .ite c t e => .ite c t e :: (c09Subterms c ++ (c09Subterms t ++ c09Subterms e))
  | .call f as => .call f as :: (c09Subterms f ++ c09SubtermsL as)
  | .callKw f as ns vs => .callKw f as ns vs :: (c09Subterms f ++ (c09SubtermsL as ++ c09SubtermsL vs))
  | .subscript a i => .subscript a i :: (c09Subterms a ++ c09Subterms i)
  | .lookup a n => .lookup a n :: c09Subterms a
  | .cse c p s => .cse c p s :: c09Subterms c
  | .subst c vs xs => .subst c vs xs :: (c09Subterms c ++ c09SubtermsL xs)
  | .deriv c vs => .deriv c vs :: c09Subterms c
  | .slice cs => .slice cs :: c09SubtermsS cs
  | .tuple cs => .tuple cs :: c09SubtermsL cs
  | .list cs => .list cs :: c09SubtermsL cs
  | .const c => [.const c]
  | .var x => [.var x]
  | .nan => [.nan]
  | .wildcard => [.wildcard]
  | .dotWild n => [.dotWild n]
  | .starWild n => [.starWild n]
  | .funcSym => [.funcSym]
def c09SubtermsL : List Expr → List Expr
  | [] => []
  | c :: cs => c09Subterms c ++ c09SubtermsL cs
/-- the parts of a slice: `None` stands for an absent part -/
def c09SubtermsS : List Expr → List Expr
  | [] => []
  | .const .none :: cs => c09SubtermsS cs
  | c :: cs => c09Subterms c ++ c09SubtermsS cs
end

theorem mem_c09SubtermsL {s : Expr} : ∀ {cs : List Expr},
    s ∈ c09SubtermsL cs ↔ ∃ c ∈ cs, s ∈ c09Subterms c
  | [] => by simp [c09SubtermsL]
  | c :: cs => by simp [c09SubtermsL, mem_c09SubtermsL (cs := cs)]

theorem mem_c09SubtermsS {s : Expr} : ∀ {cs : List Expr},
    s ∈ c09SubtermsS cs ↔ ∃ c ∈ cs.filter (fun c => !c.isNoneConst), s ∈ c09Subterms c
  | [] => by simp [c09SubtermsS]
  | c :: cs => by
    by_cases hc : c = .const .none
    · subst hc
      simp [c09SubtermsS, Expr.isNoneConst, mem_c09SubtermsS (cs := cs)]
    · have hn : c.isNoneConst = false := by
        cases c with
        | const k => cases k <;> simp_all [Expr.isNoneConst]
        | _ => simp [Expr.isNoneConst]
      have : c09SubtermsS (c :: cs) = c09Subterms c ++ c09SubtermsS cs := by
        cases c with
        | const k => cases k <;> simp_all [c09SubtermsS]
        | _ => simp [c09SubtermsS]
      rw [this]
      simp [List.filter_cons, hn, mem_c09SubtermsS (cs := cs)]

/-- the subterms of `e` are `e` and the subterms of the children the walk descends into -/
theorem mem_c09Subterms {s e : Expr} :
    s ∈ c09Subterms e ↔ s = e ∨ ∃ c ∈ walkChildren e, s ∈ c09Subterms c := by
  cases e with
  | bin o a b =>
    cases o <;> simp [c09Subterms, walkChildren, BinOp.isShift, or_comm]
  | slice cs => simp [c09Subterms, walkChildren, mem_c09SubtermsS]
  | callKw f as ns vs =>
    simp [c09Subterms, walkChildren, Expr.children, mem_c09SubtermsL, or_and_right, exists_or]
  | _ => simp [c09Subterms, walkChildren, Expr.children, mem_c09SubtermsL]

theorem self_mem_c09Subterms (e : Expr) : e ∈ c09Subterms e := mem_c09Subterms.2 (Or.inl rfl)

theorem c09Subterms_child {s c e : Expr} (hc : c ∈ walkChildren e) (hs : s ∈ c09Subterms c) :
    s ∈ c09Subterms e := mem_c09Subterms.2 (Or.inr ⟨c, hc, hs⟩)

theorem c09Subterms_trans {a b : Expr} (hab : a ∈ c09Subterms b) :
    ∀ {c : Expr}, b ∈ c09Subterms c → a ∈ c09Subterms c := by
  intro c
  induction c using walkChildren_induct with
  | step c ih =>
    intro hbc
    rcases mem_c09Subterms.1 hbc with rfl | ⟨d, hd, hbd⟩
    · exact hab
    · exact c09Subterms_child hd (ih d hd hbd)

theorem c09Subterms_size_le {s e : Expr} : s ∈ c09Subterms e → s.size ≤ e.size := by
  induction e using walkChildren_induct with
  | step e ih =>
    intro h
    rcases mem_c09Subterms.1 h with rfl | ⟨d, hd, hsd⟩
    · exact Nat.le_refl _
    · exact Nat.le_of_lt (Nat.lt_of_le_of_lt (ih d hd hsd) (walkChildren_size_lt hd))

/-! ### what the cache looks like after a walk -/

theorem c09Hit_false_iff {cache : List Expr} {e : Expr} :
    c09Hit cache e = false ↔ ∀ k ∈ cache, k.keyEq e = false := by
  simp [c09Hit]

theorem c09Hit_true_iff {cache : List Expr} {e : Expr} :
    c09Hit cache e = true ↔ ∃ k ∈ cache, k.keyEq e = true := by
  simp [c09Hit]

/-- an `ok` walk appends `n` keys to the cache; each is a subterm of `e` that was dispatched -/
def C09Shape (e : Expr) : Prop :=
  ∀ cache n c', c09CountWalk e cache = .ok (n, c') →
    ∃ new, c' = cache ++ new ∧ new.length = n ∧
      ∀ k ∈ new, k ∈ c09Subterms e ∧ k.isRejectedConst = false

def C09ShapeL (cs : List Expr) : Prop :=
  ∀ cache n c', c09CountWalkL cs cache = .ok (n, c') →
    ∃ new, c' = cache ++ new ∧ new.length = n ∧
      ∀ k ∈ new, (∃ c ∈ cs, k ∈ c09Subterms c) ∧ k.isRejectedConst = false

theorem c09ShapeL_of : ∀ (cs : List Expr), (∀ c ∈ cs, C09Shape c) → C09ShapeL cs
  | [], _ => by
    intro cache n c' h
    simp only [c09CountWalkL, Except.ok.injEq, Prod.mk.injEq] at h
    exact ⟨[], by simp [h.2], by simp [h.1], by simp⟩
  | c :: cs, ih => by
    intro cache n c' h
    simp only [c09CountWalkL] at h
    obtain ⟨x, c1, y, h1, h2, rfl⟩ := c09Seq_eq_ok h
    obtain ⟨new1, rfl, rfl, hn1⟩ := ih c List.mem_cons_self cache _ c1 h1
    obtain ⟨new2, rfl, rfl, hn2⟩ :=
      c09ShapeL_of cs (fun d hd => ih d (List.mem_cons_of_mem _ hd)) _ _ c' h2
    refine ⟨new1 ++ new2, by simp, by simp, ?_⟩
    intro k hk
    rcases List.mem_append.1 hk with hk | hk
    · exact ⟨⟨c, List.mem_cons_self, (hn1 k hk).1⟩, (hn1 k hk).2⟩
    · obtain ⟨⟨d, hd, hkd⟩, hr⟩ := hn2 k hk
      exact ⟨⟨d, List.mem_cons_of_mem _ hd, hkd⟩, hr⟩

theorem c09Shape (e : Expr) : C09Shape e := by
  induction e using walkChildren_induct with
  | step e ih =>
    intro cache n c' h
    rw [c09CountWalk_eq] at h
    split at h
    · simp only [Except.ok.injEq, Prod.mk.injEq] at h
      exact ⟨[], by simp [h.2], by simp [h.1], by simp⟩
    · split at h
      · simp at h
      · rename_i _ hrej
        obtain ⟨m, c1, hL, rfl, rfl⟩ := c09Store_eq_ok h
        obtain ⟨new, rfl, rfl, hn⟩ := c09ShapeL_of _ ih cache m c1 hL
        refine ⟨new ++ [e], by simp, by simp, ?_⟩
        intro k hk
        rcases List.mem_append.1 hk with hk | hk
        · obtain ⟨⟨d, hd, hkd⟩, hr⟩ := hn k hk
          exact ⟨c09Subterms_child hd hkd, hr⟩
        · simp only [List.mem_singleton] at hk
          subst hk
          exact ⟨self_mem_c09Subterms _, by simpa using hrej⟩

theorem c09ShapeL (cs : List Expr) : C09ShapeL cs := c09ShapeL_of cs (fun c _ => c09Shape c)

/-! ### no key is stored twice -/

def C09Nodup (e : Expr) : Prop :=
  (∀ s ∈ c09Subterms e, s.keyEq s = true) →
    ∀ cache n c', cache.Nodup → c09CountWalk e cache = .ok (n, c') → c'.Nodup

theorem c09NodupL_of : ∀ (cs : List Expr), (∀ c ∈ cs, C09Nodup c) →
    (∀ c ∈ cs, ∀ s ∈ c09Subterms c, s.keyEq s = true) →
    ∀ cache n c', cache.Nodup → c09CountWalkL cs cache = .ok (n, c') → c'.Nodup
  | [], _, _ => by
    intro cache n c' hc h
    simp only [c09CountWalkL, Except.ok.injEq, Prod.mk.injEq] at h
    exact h.2 ▸ hc
  | c :: cs, ih, hr => by
    intro cache n c' hc h
    simp only [c09CountWalkL] at h
    obtain ⟨x, c1, y, h1, h2, rfl⟩ := c09Seq_eq_ok h
    have hc1 := ih c List.mem_cons_self (hr c List.mem_cons_self) cache _ c1 hc h1
    exact c09NodupL_of cs (fun d hd => ih d (List.mem_cons_of_mem _ hd))
      (fun d hd => hr d (List.mem_cons_of_mem _ hd)) c1 _ c' hc1 h2

theorem c09Nodup (e : Expr) : C09Nodup e := by
  induction e using walkChildren_induct with
  | step e ih =>
    intro hr cache n c' hc h
    rw [c09CountWalk_eq] at h
    split at h
    · simp only [Except.ok.injEq, Prod.mk.injEq] at h
      exact h.2 ▸ hc
    · rename_i hmiss
      split at h
      · simp at h
      · obtain ⟨m, c1, hL, rfl, rfl⟩ := c09Store_eq_ok h
        have hc1 := c09NodupL_of _ ih
          (fun d hd s hs => hr s (c09Subterms_child hd hs)) cache m c1 hc hL
        obtain ⟨new, rfl, -, hn⟩ := c09ShapeL _ cache m c1 hL
        have hnot : e ∉ cache ++ new := by
          intro hmem
          rcases List.mem_append.1 hmem with hm | hm
          · have := c09Hit_false_iff.1 (by simpa using hmiss) e hm
            rw [hr e (self_mem_c09Subterms e)] at this
            exact Bool.noConfusion this
          · obtain ⟨⟨d, hd, hkd⟩, -⟩ := hn e hm
            have h1 := c09Subterms_size_le hkd
            have h2 := walkChildren_size_lt hd
            omega
        exact List.Nodup.append hc1 (List.nodup_singleton e) (by simpa using hnot)

/-! ### the only exception is the rejected constant, and only when one is reached -/

theorem c09CountWalkL_total_of : ∀ (cs : List Expr),
    (∀ c ∈ cs, ∀ cache, (∃ n c', c09CountWalk c cache = .ok (n, c')) ∨
      c09CountWalk c cache = .error .foreign) →
    ∀ cache, (∃ n c', c09CountWalkL cs cache = .ok (n, c')) ∨
      c09CountWalkL cs cache = .error .foreign
  | [], _, cache => Or.inl ⟨0, cache, rfl⟩
  | c :: cs, ih, cache => by
    simp only [c09CountWalkL]
    rcases ih c List.mem_cons_self cache with ⟨x, c1, h1⟩ | h1
    · rcases c09CountWalkL_total_of cs (fun d hd => ih d (List.mem_cons_of_mem _ hd)) c1 with
        ⟨y, c2, h2⟩ | h2
      · exact Or.inl ⟨x + y, c2, by simp [c09Seq, h1, h2]⟩
      · exact Or.inr (by simp [c09Seq, h1, h2])
    · exact Or.inr (by simp [c09Seq, h1])

theorem c09CountWalk_total (e : Expr) : ∀ cache,
    (∃ n c', c09CountWalk e cache = .ok (n, c')) ∨ c09CountWalk e cache = .error .foreign := by
  induction e using walkChildren_induct with
  | step e ih =>
    intro cache
    rw [c09CountWalk_eq]
    split
    · exact Or.inl ⟨0, cache, rfl⟩
    · split
      · exact Or.inr rfl
      · rcases c09CountWalkL_total_of _ ih cache with ⟨m, c1, h⟩ | h
        · exact Or.inl ⟨m + 1, c1 ++ [e], by simp [h, c09Store]⟩
        · exact Or.inr (by simp [h, c09Store])

theorem c09CountWalkL_ok_of : ∀ (cs : List Expr),
    (∀ c ∈ cs, ∀ cache, ∃ n c', c09CountWalk c cache = .ok (n, c')) →
    ∀ cache, ∃ n c', c09CountWalkL cs cache = .ok (n, c')
  | [], _, cache => ⟨0, cache, rfl⟩
  | c :: cs, ih, cache => by
    simp only [c09CountWalkL]
    obtain ⟨x, c1, h1⟩ := ih c List.mem_cons_self cache
    obtain ⟨y, c2, h2⟩ := c09CountWalkL_ok_of cs (fun d hd => ih d (List.mem_cons_of_mem _ hd)) c1
    exact ⟨x + y, c2, by simp [c09Seq, h1, h2]⟩

/-- no string / `None` among the subterms: the walk raises nothing, whatever the cache -/
theorem c09CountWalk_ok_of (e : Expr) :
    (∀ s ∈ c09Subterms e, s.isRejectedConst = false) →
    ∀ cache, ∃ n c', c09CountWalk e cache = .ok (n, c') := by
  induction e using walkChildren_induct with
  | step e ih =>
    intro hr cache
    rw [c09CountWalk_eq]
    split
    · exact ⟨0, cache, rfl⟩
    · rw [if_neg (by simp [hr e (self_mem_c09Subterms e)])]
      obtain ⟨m, c1, h⟩ := c09CountWalkL_ok_of _
        (fun d hd => ih d hd (fun s hs => hr s (c09Subterms_child hd hs))) cache
      exact ⟨m + 1, c1 ++ [e], by simp [h, c09Store]⟩

/-! ### unconfusable trees: every subterm is stored -/

/-- no two subterms of `r` are confusable: the cache key `(type, ==)` identifies exactly the
structurally identical ones (in particular every subterm is `==` to itself: no nan constant) -/
def C09Unconf (r : Expr) : Prop :=
  ∀ a ∈ c09Subterms r, ∀ b ∈ c09Subterms r, (a.keyEq b = true ↔ a = b)

/-- the cache holds, with every key, all subterms of that key -/
def C09Closed (cache : List Expr) : Prop :=
  ∀ k ∈ cache, ∀ s ∈ c09Subterms k, s ∈ cache

def C09Full (r e : Expr) : Prop :=
  e ∈ c09Subterms r → ∀ cache n c', (∀ k ∈ cache, k ∈ c09Subterms r) → C09Closed cache →
    c09CountWalk e cache = .ok (n, c') → C09Closed c' ∧ ∀ s ∈ c09Subterms e, s ∈ c'

theorem c09FullL_of (r : Expr) : ∀ (cs : List Expr), (∀ c ∈ cs, C09Full r c) →
    (∀ c ∈ cs, c ∈ c09Subterms r) →
    ∀ cache n c', (∀ k ∈ cache, k ∈ c09Subterms r) → C09Closed cache →
      c09CountWalkL cs cache = .ok (n, c') →
      C09Closed c' ∧ ∀ c ∈ cs, ∀ s ∈ c09Subterms c, s ∈ c'
  | [], _, _ => by
    intro cache n c' _ hcl h
    simp only [c09CountWalkL, Except.ok.injEq, Prod.mk.injEq] at h
    exact ⟨h.2 ▸ hcl, by simp⟩
  | c :: cs, ih, hsub => by
    intro cache n c' hin hcl h
    simp only [c09CountWalkL] at h
    obtain ⟨x, c1, y, h1, h2, rfl⟩ := c09Seq_eq_ok h
    obtain ⟨hcl1, hall1⟩ := ih c List.mem_cons_self (hsub c List.mem_cons_self) cache _ c1 hin hcl h1
    obtain ⟨new1, rfl, -, hn1⟩ := c09Shape c cache _ c1 h1
    have hin1 : ∀ k ∈ cache ++ new1, k ∈ c09Subterms r := by
      intro k hk
      rcases List.mem_append.1 hk with hk | hk
      · exact hin k hk
      · exact c09Subterms_trans (hn1 k hk).1 (hsub c List.mem_cons_self)
    obtain ⟨hcl2, hall2⟩ := c09FullL_of r cs (fun d hd => ih d (List.mem_cons_of_mem _ hd))
      (fun d hd => hsub d (List.mem_cons_of_mem _ hd)) _ _ c' hin1 hcl1 h2
    obtain ⟨new2, rfl, -, -⟩ := c09ShapeL cs _ _ c' h2
    refine ⟨hcl2, ?_⟩
    intro d hd s hs
    rcases List.mem_cons.1 hd with rfl | hd
    · exact List.mem_append_left _ (hall1 s hs)
    · exact hall2 d hd s hs

theorem c09Full {r : Expr} (hU : C09Unconf r) (e : Expr) : C09Full r e := by
  induction e using walkChildren_induct with
  | step e ih =>
    intro her cache n c' hin hcl h
    rw [c09CountWalk_eq] at h
    split at h
    · rename_i hhit
      simp only [Except.ok.injEq, Prod.mk.injEq] at h
      obtain ⟨k, hk, hke⟩ := c09Hit_true_iff.1 hhit
      have : k = e := (hU k (hin k hk) e her).1 hke
      subst this
      exact ⟨h.2 ▸ hcl, fun s hs => h.2 ▸ hcl k hk s hs⟩
    · split at h
      · simp at h
      · obtain ⟨m, c1, hL, rfl, rfl⟩ := c09Store_eq_ok h
        obtain ⟨hcl1, hall1⟩ := c09FullL_of r _ ih
          (fun d hd => c09Subterms_child hd (self_mem_c09Subterms d) |> fun h' =>
            c09Subterms_trans h' her) cache m c1 hin hcl hL
        have hsub : ∀ s ∈ c09Subterms e, s ∈ c1 ++ [e] := by
          intro s hs
          rcases mem_c09Subterms.1 hs with rfl | ⟨d, hd, hsd⟩
          · simp
          · exact List.mem_append_left _ (hall1 d hd s hsd)
        refine ⟨?_, hsub⟩
        intro k hk s hs
        rcases List.mem_append.1 hk with hk | hk
        · exact List.mem_append_left _ (hcl1 k hk s hs)
        · simp only [List.mem_singleton] at hk
          subst hk
          exact hsub s hs

/-! ### well-formed trees: every subterm has an `==` representative in the cache -/

theorem c09_wf_children {e c : Expr} (h : e.wf = true) (hc : c ∈ e.children) : c.wf = true := by
  cases e <;> simp only [Expr.children, List.mem_cons, List.mem_append, List.not_mem_nil,
    or_false] at hc <;> simp only [Expr.wf, Bool.and_eq_true, wfL_iff] at h
  all_goals first
    | exact h c hc
    | (rcases hc with rfl | rfl | rfl <;> simp_all)
    | (rcases hc with rfl | rfl <;> simp_all)
    | (rcases hc with rfl | hc | hc
       · exact h.1.1.1.1
       · exact h.1.1.1.2 c hc
       · exact h.2 c hc)
    | (rcases hc with rfl | hc
       · exact h.1
       · exact h.2 c hc)
    | (subst hc; simp_all)
    | simp at hc

theorem c09Subterms_wf {e : Expr} (h : e.wf = true) : ∀ {s : Expr}, s ∈ c09Subterms e → s.wf = true := by
  induction e using walkChildren_induct with
  | step e ih =>
    intro s hs
    rcases mem_c09Subterms.1 hs with rfl | ⟨d, hd, hsd⟩
    · exact h
    · exact ih d hd (c09_wf_children h (mem_children_of_mem_walkChildren hd)) hsd

/-! ### `==` descends to the children the walk visits -/

theorem pyEqL_mem : ∀ {as bs : List Expr}, Expr.pyEqL as bs = true →
    ∀ c ∈ as, ∃ c' ∈ bs, c.pyEq c' = true
  | [], _, _ => by simp
  | _ :: _, [], h => by simp [Expr.pyEqL] at h
  | a :: as, b :: bs, h => by
    simp only [Expr.pyEqL, Bool.and_eq_true] at h
    intro c hc
    rcases List.mem_cons.1 hc with rfl | hc
    · exact ⟨b, List.mem_cons_self, h.1⟩
    · obtain ⟨c', hc', hcc⟩ := pyEqL_mem h.2 c hc
      exact ⟨c', List.mem_cons_of_mem _ hc', hcc⟩

theorem pyEq_isNoneConst {a b : Expr} (h : a.pyEq b = true) : b.isNoneConst = a.isNoneConst := by
  cases a <;> cases b <;> simp_all [Expr.pyEq, Expr.isNoneConst]
  rename_i c d
  cases c <;> cases d <;> simp_all [Const.pyEq, Const.numVal?]
  all_goals (split at h <;> simp_all)

theorem pyEq_walkChildren {a b : Expr} (ha : a.wf = true) (h : a.pyEq b = true) :
    ∀ c ∈ walkChildren a, ∃ c' ∈ walkChildren b, c.pyEq c' = true := by
  cases a <;> cases b <;> simp only [Expr.pyEq, Bool.and_eq_true, beq_iff_eq, Bool.false_eq_true] at h
  case const.const => simp [walkChildren, Expr.children]
  case var.var => simp [walkChildren, Expr.children]
  case nan.nan => simp [walkChildren, Expr.children]
  case wildcard.wildcard => simp [walkChildren, Expr.children]
  case dotWild.dotWild => simp [walkChildren, Expr.children]
  case starWild.starWild => simp [walkChildren, Expr.children]
  case funcSym.funcSym => simp [walkChildren, Expr.children]
  case nary.nary => simpa [walkChildren, Expr.children] using pyEqL_mem h.2
  case tuple.tuple => simpa [walkChildren, Expr.children] using pyEqL_mem h
  case list.list => simpa [walkChildren, Expr.children] using pyEqL_mem h
  case bin.bin o a1 a2 o' b1 b2 =>
    obtain ⟨⟨rfl, h1⟩, h2⟩ := h
    cases o <;> simp [walkChildren, BinOp.isShift, h1, h2]
  case un.un => simp [walkChildren, Expr.children, h.2]
  case cmp.cmp => simp [walkChildren, Expr.children, h.1.2, h.2]
  case ite.ite => simp [walkChildren, Expr.children, h.1.1, h.1.2, h.2]
  case subscript.subscript => simp [walkChildren, Expr.children, h.1, h.2]
  case lookup.lookup => simp [walkChildren, Expr.children, h.1]
  case cse.cse => simp [walkChildren, Expr.children, h.1.1]
  case deriv.deriv => simp [walkChildren, Expr.children, h.1]
  case call.call f as f' as' =>
    intro c hc
    simp only [walkChildren, Expr.children, List.mem_cons] at hc ⊢
    rcases hc with rfl | hc
    · exact ⟨f', Or.inl rfl, h.1⟩
    · obtain ⟨c', hc', hcc⟩ := pyEqL_mem h.2 c hc
      exact ⟨c', Or.inr hc', hcc⟩
  case subst.subst f vs as f' vs' as' =>
    intro c hc
    simp only [walkChildren, Expr.children, List.mem_cons] at hc ⊢
    rcases hc with rfl | hc
    · exact ⟨f', Or.inl rfl, h.1.1⟩
    · obtain ⟨c', hc', hcc⟩ := pyEqL_mem h.2 c hc
      exact ⟨c', Or.inr hc', hcc⟩
  case slice.slice cs cs' =>
    intro c hc
    simp only [walkChildren, List.mem_filter] at hc ⊢
    obtain ⟨c', hc', hcc⟩ := pyEqL_mem h c hc.1
    exact ⟨c', ⟨hc', by rw [pyEq_isNoneConst hcc]; exact hc.2⟩, hcc⟩
  case callKw.callKw f as ns vs f' as' ns' vs' =>
    intro c hc
    simp only [walkChildren, Expr.children, List.mem_cons, List.mem_append] at hc ⊢
    rcases hc with rfl | hc | hc
    · exact ⟨f', Or.inl rfl, h.1.1.1⟩
    · obtain ⟨c', hc', hcc⟩ := pyEqL_mem h.1.1.2 c hc
      exact ⟨c', Or.inr (Or.inl hc'), hcc⟩
    · simp only [Expr.wf, Bool.and_eq_true, beq_iff_eq] at ha
      have hlen : ns.length = vs.length := ha.1.2
      obtain ⟨i, hi, rfl⟩ := List.getElem_of_mem hc
      have hz : (ns[i]'(by omega), vs[i]) ∈ ns.zip vs := by
        have : (ns.zip vs)[i]'(by simp; omega) = (ns[i]'(by omega), vs[i]) := by simp
        rw [← this]; exact List.getElem_mem _
      obtain ⟨w, hw, hr⟩ := (pyEqKw_iff_lookup ns vs ns' vs').1 h.2 _ _ hz
      exact ⟨w, Or.inr (Or.inr (List.of_mem_zip (lookup_mem hw)).2), hr⟩

theorem pyEq_subterms : ∀ (a : Expr) {b : Expr}, a.wf = true → a.pyEq b = true →
    ∀ s ∈ c09Subterms a, ∃ s' ∈ c09Subterms b, s.pyEq s' = true := by
  intro a
  induction a using walkChildren_induct with
  | step a ih =>
    intro b ha h s hs
    rcases mem_c09Subterms.1 hs with rfl | ⟨d, hd, hsd⟩
    · exact ⟨b, self_mem_c09Subterms b, h⟩
    · obtain ⟨d', hd', hdd⟩ := pyEq_walkChildren ha h d hd
      obtain ⟨s', hs', hss⟩ := ih d hd (c09_wf_children ha (mem_children_of_mem_walkChildren hd)) hdd s hsd
      exact ⟨s', c09Subterms_child hd' hs', hss⟩

/-- the cache holds, for every subterm of every key, a key that is `==` to it -/
def C09ClosedEq (cache : List Expr) : Prop :=
  ∀ k ∈ cache, ∀ s ∈ c09Subterms k, ∃ r ∈ cache, r.pyEq s = true

def C09Rep (e : Expr) : Prop :=
  e.wf = true → ∀ cache n c', (∀ k ∈ cache, k.wf = true) → C09ClosedEq cache →
    c09CountWalk e cache = .ok (n, c') →
    C09ClosedEq c' ∧ ∀ s ∈ c09Subterms e, ∃ r ∈ c', r.pyEq s = true

theorem C09ClosedEq.mono_rep {c1 new : List Expr} {s : Expr}
    (h : ∃ r ∈ c1, r.pyEq s = true) : ∃ r ∈ c1 ++ new, r.pyEq s = true := by
  obtain ⟨r, hr, hrs⟩ := h
  exact ⟨r, List.mem_append_left _ hr, hrs⟩

theorem c09RepL_of : ∀ (cs : List Expr), (∀ c ∈ cs, C09Rep c) → (∀ c ∈ cs, c.wf = true) →
    ∀ cache n c', (∀ k ∈ cache, k.wf = true) → C09ClosedEq cache →
      c09CountWalkL cs cache = .ok (n, c') →
      C09ClosedEq c' ∧ ∀ c ∈ cs, ∀ s ∈ c09Subterms c, ∃ r ∈ c', r.pyEq s = true
  | [], _, _ => by
    intro cache n c' _ hcl h
    simp only [c09CountWalkL, Except.ok.injEq, Prod.mk.injEq] at h
    exact ⟨h.2 ▸ hcl, by simp⟩
  | c :: cs, ih, hwf => by
    intro cache n c' hin hcl h
    simp only [c09CountWalkL] at h
    obtain ⟨x, c1, y, h1, h2, rfl⟩ := c09Seq_eq_ok h
    obtain ⟨hcl1, hall1⟩ := ih c List.mem_cons_self (hwf c List.mem_cons_self) cache _ c1 hin hcl h1
    obtain ⟨new1, rfl, -, hn1⟩ := c09Shape c cache _ c1 h1
    have hin1 : ∀ k ∈ cache ++ new1, k.wf = true := by
      intro k hk
      rcases List.mem_append.1 hk with hk | hk
      · exact hin k hk
      · exact c09Subterms_wf (hwf c List.mem_cons_self) (hn1 k hk).1
    obtain ⟨hcl2, hall2⟩ := c09RepL_of cs (fun d hd => ih d (List.mem_cons_of_mem _ hd))
      (fun d hd => hwf d (List.mem_cons_of_mem _ hd)) _ _ c' hin1 hcl1 h2
    obtain ⟨new2, rfl, -, -⟩ := c09ShapeL cs _ _ c' h2
    refine ⟨hcl2, ?_⟩
    intro d hd s hs
    rcases List.mem_cons.1 hd with rfl | hd
    · exact C09ClosedEq.mono_rep (hall1 s hs)
    · exact hall2 d hd s hs

theorem c09Rep (e : Expr) : C09Rep e := by
  induction e using walkChildren_induct with
  | step e ih =>
    intro hwf cache n c' hin hcl h
    rw [c09CountWalk_eq] at h
    split at h
    · rename_i hhit
      simp only [Except.ok.injEq, Prod.mk.injEq] at h
      obtain ⟨k, hk, hke⟩ := c09Hit_true_iff.1 hhit
      have hkwf := hin k hk
      have hke' : k.pyEq e = true := by
        simp only [Expr.keyEq, Bool.and_eq_true] at hke; exact hke.2
      have hek : e.pyEq k = true := pyEq_symm k e hkwf hwf hke'
      refine ⟨h.2 ▸ hcl, fun s hs => ?_⟩
      obtain ⟨s', hs', hss⟩ := pyEq_subterms e hwf hek s hs
      obtain ⟨r, hr, hrs⟩ := hcl k hk s' hs'
      have hswf := c09Subterms_wf hwf hs
      have hs'wf := c09Subterms_wf hkwf hs'
      exact ⟨r, h.2 ▸ hr, pyEq_trans r s' s (hin r hr) hs'wf hswf hrs
        (pyEq_symm s s' hswf hs'wf hss)⟩
    · split at h
      · simp at h
      · obtain ⟨m, c1, hL, rfl, rfl⟩ := c09Store_eq_ok h
        obtain ⟨hcl1, hall1⟩ := c09RepL_of _ ih
          (fun d hd => c09_wf_children hwf (mem_children_of_mem_walkChildren hd)) cache m c1 hin hcl hL
        have hsub : ∀ s ∈ c09Subterms e, ∃ r ∈ c1 ++ [e], r.pyEq s = true := by
          intro s hs
          rcases mem_c09Subterms.1 hs with rfl | ⟨d, hd, hsd⟩
          · exact ⟨s, by simp, pyEq_refl s hwf⟩
          · exact C09ClosedEq.mono_rep (hall1 d hd s hsd)
        refine ⟨?_, hsub⟩
        intro k hk s hs
        rcases List.mem_append.1 hk with hk | hk
        · exact C09ClosedEq.mono_rep (hcl1 k hk s hs)
        · simp only [List.mem_singleton] at hk
          subst hk
          exact hsub s hs

/-! ### counting -/

/-- a family of pairwise unrelated elements, each represented in `N`, where one representative
serves at most one element, is at most as long as `N` -/
theorem length_le_of_reps {α : Type} {D N : List α} (R : α → α → Prop) (hD : D.Nodup)
    (hrep : ∀ d ∈ D, ∃ r ∈ N, R r d)
    (hinj : ∀ r ∈ N, ∀ d1 ∈ D, ∀ d2 ∈ D, R r d1 → R r d2 → d1 = d2) : D.length ≤ N.length := by
  have : ∀ d : {d // d ∈ D}, ∃ r, r ∈ N ∧ R r d.1 := fun d => hrep d.1 d.2
  choose f hfN hfR using this
  have hnd : (D.attach.map f).Nodup := by
    refine List.Nodup.map_on ?_ (List.nodup_attach.2 hD)
    intro x _ y _ hxy
    exact Subtype.ext (hinj (f x) (hfN x) x.1 x.2 y.1 y.2 (hfR x) (hxy ▸ hfR y))
  have hsub : D.attach.map f ⊆ N := by
    intro r hr
    obtain ⟨d, -, rfl⟩ := List.mem_map.1 hr
    exact hfN d
  have := (hnd.subperm hsub).length_le
  simpa using this

/-! ### the old definition: dedup the `post_visit` nodes of the uncached walk afterwards -/

/-- the nodes of the `post_visit` events of the uncached walk -/
def c09PostNodes (e : Expr) : List Expr :=
  ((walkSpec [] false e).filter (·.post)).map (·.node)

theorem mem_c09PostNodes_iff {x e : Expr} :
    x ∈ c09PostNodes e ↔ ∃ ev ∈ walkSpec [] false e, ev.post = true ∧ ev.node = x := by
  simp [c09PostNodes, List.mem_map, List.mem_filter, and_assoc]

theorem walkChildren_leaf {e : Expr} (h : e.isLeafNode = true) : walkChildren e = [] := by
  cases e <;> simp_all [Expr.isLeafNode, walkChildren, Expr.children]

theorem mem_c09PostNodes {e : Expr} : ∀ {x : Expr}, x ∈ c09PostNodes e ↔ x ∈ c09Subterms e := by
  induction e using walkChildren_induct with
  | step e ih =>
    intro x
    rw [mem_c09PostNodes_iff, mem_c09Subterms]
    cases hleaf : e.isLeafNode
    · rw [walkSpec_node [] false hleaf]
      simp only [List.contains_nil, Bool.false_eq_true, if_false, List.mem_cons, List.mem_append,
        List.mem_flatMap, List.mem_singleton, List.not_mem_nil, or_false]
      constructor
      · rintro ⟨ev, (rfl | ⟨c, hc, hev⟩ | rfl), hp, hn⟩
        · simp at hp
        · exact Or.inr ⟨c, hc, (ih c hc).1 (mem_c09PostNodes_iff.2 ⟨ev, hev, hp, hn⟩)⟩
        · exact Or.inl hn.symm
      · rintro (rfl | ⟨c, hc, hx⟩)
        · exact ⟨⟨true, x, false⟩, Or.inr (Or.inr rfl), rfl, rfl⟩
        · obtain ⟨ev, hev, hp, hn⟩ := mem_c09PostNodes_iff.1 ((ih c hc).2 hx)
          exact ⟨ev, Or.inr (Or.inl ⟨c, hc, hev⟩), hp, hn⟩
    · rw [walkSpec_leaf [] false hleaf, walkChildren_leaf hleaf]
      simp only [List.mem_cons, List.not_mem_nil, or_false, false_and, exists_false]
      constructor
      · rintro ⟨ev, (rfl | rfl), hp, hn⟩
        · simp at hp
        · exact hn.symm
      · rintro rfl
        exact ⟨⟨true, x, false⟩, Or.inr rfl, rfl, rfl⟩

theorem dedupFold_spec {R : Expr → Expr → Bool} : ∀ (l acc : List Expr),
    (∀ a ∈ acc ++ l, ∀ b ∈ acc ++ l, (R a b = true ↔ a = b)) → acc.Nodup →
    (l.foldl (fun acc x => if acc.any (fun y => R y x) then acc else acc ++ [x]) acc).Nodup ∧
    ∀ x, x ∈ l.foldl (fun acc x => if acc.any (fun y => R y x) then acc else acc ++ [x]) acc ↔
      x ∈ acc ∨ x ∈ l
  | [], acc, _, hn => by simp [hn]
  | x :: l, acc, hR, hn => by
    simp only [List.foldl_cons]
    have hany : acc.any (fun y => R y x) = true ↔ x ∈ acc := by
      simp only [List.any_eq_true]
      constructor
      · rintro ⟨y, hy, hyx⟩
        have := (hR y (by simp [hy]) x (by simp)).1 hyx
        exact this ▸ hy
      · intro hx
        exact ⟨x, hx, (hR x (by simp) x (by simp)).2 rfl⟩
    by_cases hx : x ∈ acc
    · rw [if_pos (hany.2 hx)]
      obtain ⟨h1, h2⟩ := dedupFold_spec l acc
        (fun a ha b hb => hR a (by simp at ha ⊢; tauto) b (by simp at hb ⊢; tauto)) hn
      refine ⟨h1, fun y => ?_⟩
      rw [h2 y]
      simp only [List.mem_cons]
      constructor
      · rintro (h | h)
        · exact Or.inl h
        · exact Or.inr (Or.inr h)
      · rintro (h | rfl | h)
        · exact Or.inl h
        · exact Or.inl hx
        · exact Or.inr h
    · rw [if_neg (fun h => hx (hany.1 h))]
      obtain ⟨h1, h2⟩ := dedupFold_spec l (acc ++ [x])
        (fun a ha b hb => hR a (by simp at ha ⊢; tauto) b (by simp at hb ⊢; tauto))
        (List.Nodup.append hn (List.nodup_singleton x) (by simpa using hx))
      refine ⟨h1, fun y => ?_⟩
      rw [h2 y]
      simp only [List.mem_append, List.mem_singleton, List.mem_cons, List.not_mem_nil, false_or,
        or_assoc]

/-- when the relation is equality on the list, `dedupBy` leaves one copy of each element -/
theorem dedupBy_length_of_eq {R : Expr → Expr → Bool} {l : List Expr}
    (hR : ∀ a ∈ l, ∀ b ∈ l, (R a b = true ↔ a = b)) :
    (dedupBy R l).length = l.toFinset.card := by
  obtain ⟨h1, h2⟩ := dedupFold_spec (R := R) l [] (by simpa using hR) List.nodup_nil
  have : (dedupBy R l).toFinset = l.toFinset := List.toFinset.ext (by simpa [dedupBy] using h2)
  rw [← this, List.toFinset_card_of_nodup (by simpa [dedupBy] using h1)]

theorem walkOK_nil_iff (e : Expr) :
    walkOK [] e = true ↔ ∀ s ∈ c09Subterms e, s.isRejectedConst = false := by
  induction e using walkChildren_induct with
  | step e ih =>
    rw [walkOK_eq]
    simp only [List.contains_nil, Bool.and_false, Bool.false_or, Bool.and_eq_true,
      Bool.not_eq_eq_eq_not, Bool.not_true, List.all_eq_true]
    constructor
    · rintro ⟨h1, h2⟩ s hs
      rcases mem_c09Subterms.1 hs with rfl | ⟨d, hd, hsd⟩
      · exact h1
      · exact (ih d hd).1 (h2 d hd) s hsd
    · intro h
      exact ⟨h e (self_mem_c09Subterms e),
        fun d hd => (ih d hd).2 (fun s hs => h s (c09Subterms_child hd hs))⟩

theorem dedupFold_pairwise {R : Expr → Expr → Bool} : ∀ (l acc : List Expr),
    acc.Pairwise (fun a b => R a b = false) →
    (l.foldl (fun acc x => if acc.any (fun y => R y x) then acc else acc ++ [x]) acc).Pairwise
        (fun a b => R a b = false) ∧
    ∀ x ∈ l.foldl (fun acc x => if acc.any (fun y => R y x) then acc else acc ++ [x]) acc,
      x ∈ acc ∨ x ∈ l
  | [], acc, hp => by simp [hp]
  | x :: l, acc, hp => by
    simp only [List.foldl_cons]
    by_cases hany : acc.any (fun y => R y x) = true
    · rw [if_pos hany]
      obtain ⟨h1, h2⟩ := dedupFold_pairwise l acc hp
      exact ⟨h1, fun y hy => (h2 y hy).imp id (List.mem_cons_of_mem _)⟩
    · rw [if_neg hany]
      have hnone : ∀ a ∈ acc, R a x = false := by
        intro a ha
        by_contra hc
        exact hany (List.any_eq_true.2 ⟨a, ha, by simpa using hc⟩)
      obtain ⟨h1, h2⟩ := dedupFold_pairwise l (acc ++ [x])
        (List.pairwise_append.2 ⟨hp, List.pairwise_singleton _ _, by simpa using hnone⟩)
      refine ⟨h1, fun y hy => ?_⟩
      rcases h2 y hy with h | h
      · rcases List.mem_append.1 h with h | h
        · exact Or.inl h
        · exact Or.inr (by simp at h; simp [h])
      · exact Or.inr (List.mem_cons_of_mem _ h)

theorem dedupBy_pairwise (R : Expr → Expr → Bool) (l : List Expr) :
    (dedupBy R l).Pairwise (fun a b => R a b = false) ∧ ∀ x ∈ dedupBy R l, x ∈ l := by
  obtain ⟨h1, h2⟩ := dedupFold_pairwise (R := R) l [] List.Pairwise.nil
  exact ⟨by simpa [dedupBy] using h1, fun x hx => by simpa using h2 x (by simpa [dedupBy] using hx)⟩

theorem pairwise_or_flip {α : Type} {R : α → α → Prop} : ∀ {l : List α}, l.Pairwise R →
    ∀ a ∈ l, ∀ b ∈ l, a ≠ b → R a b ∨ R b a
  | [], _, a, ha, _, _, _ => by simp at ha
  | x :: l, h, a, ha, b, hb, hne => by
    obtain ⟨h1, h2⟩ := List.pairwise_cons.1 h
    rcases List.mem_cons.1 ha with hax | hal
    · rcases List.mem_cons.1 hb with hbx | hbl
      · exact absurd (hax.trans hbx.symm) hne
      · exact Or.inl (hax ▸ h1 b hbl)
    · rcases List.mem_cons.1 hb with hbx | hbl
      · exact Or.inr (hbx ▸ h1 a hal)
      · exact pairwise_or_flip h2 a hal b hbl hne

end PV
