import PV.Model.Coeff
import PV.Proofs.CoeffSound
import PV.Proofs.Gauss
import Mathlib.Tactic.LinearCombination
/-
  C15 helper lemmas: the expression `solve_affine_equations_for` assembles for one unknown
  evaluates to `constant + Σ coefficient · parameter`.
-/
namespace PV.Coeff
open PV

variable {env : Env}

/-- `Σ kᵢ · qᵢ` over the common prefix (Python `zip`) -/
def dotQ : List Int → List Rat → Rat
  | k :: ks, q :: qs => (k : Rat) * q + dotQ ks qs
  | _, _ => 0

theorem assembleLoop_nv : ∀ (ps : List Expr) (ks : Row) (acc t : Expr) (qa : Rat) (qs : List Rat),
    assembleLoop acc ps ks = .ok t → nv env acc = some qa → nvL env ps = some qs →
    nv env t = some (qa + dotQ ks qs)
  | [], ks, acc, t, qa, qs, h, ha, hq => by
    simp only [assembleLoop, pure, Except.pure, Except.ok.injEq] at h
    subst h
    simp only [nvL, Option.some.injEq] at hq
    subst hq
    cases ks <;> simp [dotQ, ha]
  | p :: ps, [], acc, t, qa, qs, h, ha, hq => by
    simp only [assembleLoop, pure, Except.pure, Except.ok.injEq] at h
    subst h
    simp [dotQ, ha]
  | p :: ps, k :: ks, acc, t, qa, qs, h, ha, hq => by
    obtain ⟨q, qs', hp, hps, rfl⟩ := nvL_cons hq
    simp only [assembleLoop, bind, Except.bind] at h
    cases hm : pyBin .mul (.const (.int k)) p with
    | error e => rw [hm] at h; cases h
    | ok tm =>
      rw [hm] at h
      simp only at h
      cases hadd : pyBin .add acc tm with
      | error e => rw [hadd] at h; cases h
      | ok acc' =>
        rw [hadd] at h
        simp only at h
        have h1 := pyMul_nv hm (nv_int k) hp
        have h2 := pyAdd_nv hadd ha h1
        rw [assembleLoop_nv ps ks acc' t _ qs' h h2 hps]
        simp only [dotQ]
        congr 1; ring

/-- the value assembled for one unknown: `row[-1] + Σ row[i] · parameterᵢ` -/
theorem assembleVal_nv {params : List Expr} {row : Row} {t : Expr} {qs : List Rat}
    (h : assembleVal params row = .ok t) (hq : nvL env params = some qs) :
    nv env t = some ((row.getLastD 0 : Int) + dotQ row qs) :=
  assembleLoop_nv params row _ t _ qs h (nv_int _) hq

/-! ### from the matrix solution to the returned expressions -/

/-- the column values of the right-hand side: the parameter values, then `1` for the constant -/
def pOf (qs : List Rat) (i : Nat) : Rat := (qs[i]?).getD 1

theorem dotFrom_pOf : ∀ (qs : List Rat) (row : Row) (i : Nat) (p : Nat → Rat),
    (∀ k, p (i + k) = (qs[k]?).getD 1) → row.length = qs.length + 1 →
    dotFrom p i row = (row.getLastD 0 : Int) + dotQ row qs
  | [], row, i, p, hp, hl => by
    match row, hl with
    | [a], _ =>
      have := hp 0
      simp only [Nat.add_zero, List.getElem?_nil, Option.getD_none] at this
      simp [dotFrom, dotQ, this]
  | q :: qs, row, i, p, hp, hl => by
    match row, hl with
    | a :: row', hl =>
      have hl' : row'.length = qs.length + 1 := by simpa using hl
      have h0 := hp 0
      simp only [Nat.add_zero, List.getElem?_cons_zero, Option.getD_some] at h0
      have ih := dotFrom_pOf qs row' (i + 1) p (fun k => by
        have := hp (k + 1)
        simp only [List.getElem?_cons_succ] at this
        rw [← this]; congr 1; omega) hl'
      have hlast : (a :: row').getLastD 0 = row'.getLastD 0 := by
        cases row' with
        | nil => simp at hl'
        | cons b bs => simp [List.getLastD]
      simp only [dotFrom, dotQ, ih, h0, hlast]
      ring

theorem dot_pOf {qs : List Rat} {row : Row} (hl : row.length = qs.length + 1) :
    dot (pOf qs) row = (row.getLastD 0 : Int) + dotQ row qs :=
  dotFrom_pOf qs row 0 (pOf qs) (fun k => by simp [pOf]) hl

theorem solveRows_spec {params : List Expr} {s : List ARow} : ∀ (js : List Nat) (vals : List Expr),
    solveRows params s js = .ok vals →
    ∃ rows, js.mapM (solveCol s) = .ok rows ∧
      List.Forall₂ (fun row v => assembleVal params row = .ok v) rows vals
  | [], vals, h => by
    simp only [solveRows, pure, Except.pure, Except.ok.injEq] at h
    subst h
    exact ⟨[], rfl, List.Forall₂.nil⟩
  | j :: js, vals, h => by
    simp only [solveRows, bind, Except.bind] at h
    cases hc : solveCol s j with
    | error e => rw [hc] at h; cases h
    | ok row =>
      rw [hc] at h
      simp only at h
      cases ha : assembleVal params row with
      | error e => rw [ha] at h; cases h
      | ok v =>
        rw [ha] at h
        simp only at h
        cases hr : solveRows params s js with
        | error e => rw [hr] at h; cases h
        | ok vs =>
          rw [hr] at h
          simp only [pure, Except.pure, Except.ok.injEq] at h
          subst h
          obtain ⟨rows, h1, h2⟩ := solveRows_spec js vs hr
          refine ⟨row :: rows, ?_, List.Forall₂.cons ha h2⟩
          rw [List.mapM_cons]
          simp [bind, Except.bind, hc, h1, pure, Except.pure]

/-- `solveAffine` = assemble the integer matrix, read off the rows with `solveMat`, turn every row
into an expression with `assembleVal` -/
theorem solveAffine_spec {names : List String} {eqs : List (Expr × Expr)} {params : List Expr}
    {sol : List (Expr × Expr)} (h : solveAffine names eqs params = .ok sol) :
    ∃ mat rows vals, eqs.mapM (assembleRow (names.map Expr.var) params) = .ok mat ∧
      solveMat eqs.length (names.map Expr.var).length mat = .ok rows ∧
      sol = (names.map Expr.var).zip vals ∧
      List.Forall₂ (fun row v => assembleVal params row = .ok v) rows vals := by
  unfold solveAffine at h
  simp only [bind, Except.bind] at h
  split at h
  · cases h
  · cases hm : eqs.mapM (assembleRow (names.map Expr.var) params) with
    | error e => rw [hm] at h; cases h
    | ok mat =>
      rw [hm] at h
      simp only at h
      cases hr : solveRows params (gaussElim eqs.length (names.map Expr.var).length mat)
          (List.range (names.map Expr.var).length) with
      | error e => rw [hr] at h; cases h
      | ok vals =>
        rw [hr] at h
        simp only [pure, Except.pure, Except.ok.injEq] at h
        obtain ⟨rows, h1, h2⟩ := solveRows_spec _ vals hr
        exact ⟨mat, rows, vals, rfl, h1, h.symm, h2⟩

/-- lengths of an assembled row -/
theorem assembleSide_length {unknowns params : List Expr} {factor : Int} :
    ∀ (d : Dict) (row row' : ARow), assembleSide unknowns params factor row d = .ok row' →
      row'.1.length = row.1.length ∧ row'.2.length = row.2.length
  | [], row, row', h => by
    simp only [assembleSide, pure, Except.pure, Except.ok.injEq] at h
    subst h; exact ⟨rfl, rfl⟩
  | (key, coeff) :: rest, row, row', h => by
    simp only [assembleSide] at h
    split at h
    · simp only [bind, Except.bind] at h
      split at h
      · cases h
      · split at h
        · cases h
        · have := assembleSide_length rest _ row' h
          simpa using this
    · split at h
      · simp only [bind, Except.bind] at h
        split at h
        · cases h
        · split at h
          · cases h
          · have := assembleSide_length rest _ row' h
            simpa using this
      · split at h
        · simp only [bind, Except.bind] at h
          split at h
          · cases h
          · split at h
            · cases h
            · have := assembleSide_length rest _ row' h
              simpa using this
        · cases h

theorem assembleRow_length {unknowns params : List Expr} {eq : Expr × Expr} {row : ARow}
    (h : assembleRow unknowns params eq = .ok row) :
    row.1.length = unknowns.length ∧ row.2.length = params.length + 1 := by
  unfold assembleRow at h
  simp only [bind, Except.bind] at h
  cases hl : coeffs none eq.1 with
  | error e => rw [hl] at h; cases h
  | ok dl =>
    rw [hl] at h
    simp only at h
    cases hr : coeffs none eq.2 with
    | error e => rw [hr] at h; cases h
    | ok dr =>
      rw [hr] at h
      simp only at h
      cases h1 : assembleSide unknowns params 1
          (zeroRow unknowns.length, zeroRow (params.length + 1)) dl with
      | error e => rw [h1] at h; cases h
      | ok row1 =>
        rw [h1] at h
        simp only at h
        have l1 := assembleSide_length dl _ row1 h1
        have l2 := assembleSide_length dr _ row h
        simp only [zeroRow, List.length_replicate] at l1
        exact ⟨l2.1.trans l1.1, l2.2.trans l1.2⟩

theorem mapM_mem {α β : Type} {f : α → CR β} : ∀ (l : List α) (rs : List β),
    l.mapM f = .ok rs → ∀ r ∈ rs, ∃ a ∈ l, f a = .ok r
  | [], rs, h, r, hr => by
    simp only [List.mapM_nil, pure, Except.pure, Except.ok.injEq] at h
    subst h; simp at hr
  | a :: l, rs, h, r, hr => by
    rw [List.mapM_cons] at h
    simp only [bind, Except.bind] at h
    cases hf : f a with
    | error e => rw [hf] at h; cases h
    | ok v =>
      rw [hf] at h
      simp only at h
      cases hrest : l.mapM f with
      | error e => rw [hrest] at h; cases h
      | ok vs =>
        rw [hrest] at h
        simp only [pure, Except.pure, Except.ok.injEq] at h
        subst h
        simp only [List.mem_cons] at hr
        rcases hr with rfl | hr
        · exact ⟨a, by simp, hf⟩
        · obtain ⟨a', ha', hfa'⟩ := mapM_mem l vs hrest r hr
          exact ⟨a', by simp [ha'], hfa'⟩

theorem nvL_length : ∀ (ps : List Expr) (qs : List Rat), nvL env ps = some qs → qs.length = ps.length
  | [], qs, h => by
    simp only [nvL, Option.some.injEq] at h
    subst h; rfl
  | p :: ps, qs, h => by
    obtain ⟨q, qs', _, hps, rfl⟩ := nvL_cons h
    simp [nvL_length ps qs' hps]

theorem solveCol_length {s : List ARow} {j : Nat} {row : Row} (h : solveCol s j = .ok row) :
    ∃ r ∈ s, row.length = r.2.length := by
  unfold solveCol at h
  split at h
  · rename_i r hf
    simp only at h
    split at h
    · cases h
    · simp only [pure, Except.pure, Except.ok.injEq] at h
      subst h
      have : r ∈ s.filter (fun r => rowGet r.1 j ≠ 0) := by rw [hf]; simp
      exact ⟨r, (List.mem_filter.1 this).1, by simp⟩
  · cases h

theorem vals_values {params : List Expr} {qs : List Rat} (hq : nvL env params = some qs) :
    ∀ (rows : List Row) (vals : List Expr),
      List.Forall₂ (fun row v => assembleVal params row = .ok v) rows vals →
      (∀ row ∈ rows, row.length = qs.length + 1) →
      List.Forall₂ (fun v x => nv env v = some x) vals (rows.map (dot (pOf qs)))
  | [], vals, h, _ => by
    cases h; exact List.Forall₂.nil
  | row :: rows, vals, h, hl => by
    cases h with
    | cons h1 h2 =>
      refine List.Forall₂.cons ?_ (vals_values hq rows _ h2 (fun r hr => hl r (by simp [hr])))
      rw [assembleVal_nv h1 hq, dot_pOf (hl row (by simp))]

theorem getD_map_dot (p : Nat → Rat) (rows : List Row) (j : Nat) :
    (rows.map (dot p)).getD j 0 = dot p (rows.getD j []) := by
  rw [List.getD_eq_getElem?_getD, List.getD_eq_getElem?_getD, List.getElem?_map]
  cases rows[j]? with
  | none => simp [dot, dotFrom]
  | some r => simp

/-! ### the assembled row represents `lhs - rhs` -/

theorem dotFrom_set (x : Nat → Rat) (v : Int) : ∀ (l : Row) (i j : Nat), j < l.length →
    dotFrom x i (l.set j (rowGet l j + v)) = dotFrom x i l + (v : Rat) * x (i + j)
  | [], _, j, h => by simp at h
  | a :: as, i, 0, _ => by
    simp only [List.set_cons_zero, dotFrom, rowGet_cons_zero, Nat.add_zero]
    push_cast; ring
  | a :: as, i, j + 1, h => by
    simp only [List.set_cons_succ, dotFrom, rowGet_cons_succ]
    rw [dotFrom_set x v as (i + 1) j (by simpa using h)]
    have : i + 1 + j = i + (j + 1) := by omega
    rw [this]; ring

theorem idxOf_spec : ∀ (keys : List Expr) (k : Expr) (j : Nat), idxOf keys k = some j →
    ∃ u, keys[j]? = some u ∧ u.pyEq k = true
  | [], k, j, h => by simp [idxOf] at h
  | k' :: rest, k, j, h => by
    simp only [idxOf] at h
    split at h
    · rename_i heq
      simp only [Option.some.injEq] at h
      subst h
      exact ⟨k', by simp, heq⟩
    · cases hr : idxOf rest k with
      | none => rw [hr] at h; simp at h
      | some j' =>
        rw [hr] at h
        simp only [Option.map_some, Option.some.injEq] at h
        subst h
        obtain ⟨u, hu, he⟩ := idxOf_spec rest k j' hr
        exact ⟨u, by simpa using hu, he⟩

theorem intOf_ok {t : Expr} {v : Int} (h : intOf t = .ok v) : t = .const (.int v) := by
  unfold intOf at h
  split at h
  · simp only [pure, Except.pure, Except.ok.injEq] at h
    subst h; rfl
  · cases h

/-- one step `entry += factor'·coeff`: the stored integer is `factor'·value(coeff)` -/
theorem scaled_int {factor : Int} {coeff t : Expr} {v : Int} {qc : Rat}
    (hm : pyBin .mul (.const (.int factor)) coeff = .ok t) (hi : intOf t = .ok v)
    (hc : nv env coeff = some qc) : (v : Rat) = factor * qc := by
  have h1 := pyMul_nv hm (nv_int factor) hc
  rw [intOf_ok hi, nv_int] at h1
  simpa using h1

/-- Processing one side of an equation adds `factor · Σ coefficient·value(key)` to the residual
`a·x - b·p` of the row, where the value of an unknown key is `x j`, of a parameter key `p c`, and
of the constant key `p (number of parameters) = 1`. -/
theorem assembleSide_value {unknowns params : List Expr} {factor : Int} (x p : Nat → Rat)
    (hx : ∀ j u, unknowns[j]? = some u → nv env u = some (x j))
    (hp : ∀ c u, params[c]? = some u → nv env u = some (p c))
    (hp1 : p params.length = 1)
    (hus : ∀ u ∈ unknowns, u.simple = true) (hpss : ∀ u ∈ params, u.simple = true) :
    ∀ (d : Dict) (row row' : ARow) (qd : Rat), KeysSimple d →
      row.1.length = unknowns.length → row.2.length = params.length + 1 →
      assembleSide unknowns params factor row d = .ok row' → dictNV env d = some qd →
      res x p row' = res x p row + factor * qd
  | [], row, row', qd, _, _, _, h, hd => by
    simp only [assembleSide, pure, Except.pure, Except.ok.injEq] at h
    subst h
    simp only [dictNV, Option.some.injEq] at hd
    subst hd
    ring
  | (key, coeff) :: rest, row, row', qd, hks, hl1, hl2, h, hd => by
    obtain ⟨qc, qk, qr, hc, hk, hr, rfl⟩ := dictNV_cons hd
    have hkeys : key.simple = true := hks (key, coeff) (by simp)
    have hrs : KeysSimple rest := fun kc hkc => hks kc (by simp [hkc])
    simp only [assembleSide] at h
    split at h
    · -- an unknown
      rename_i j hidx
      obtain ⟨u, hu, heq⟩ := idxOf_spec unknowns key j hidx
      have hjl : j < unknowns.length := (List.getElem?_eq_some_iff.1 hu).1
      have : u = key := key_eq_of_pyEq (hus u (List.mem_of_getElem? hu)) hkeys heq
      subst this
      have hqk : qk = x j := by
        have := hx j u hu
        rw [hk] at this
        exact Option.some.inj this
      simp only [bind, Except.bind] at h
      cases hm : pyBin .mul (.const (.int factor)) coeff with
      | error e => rw [hm] at h; cases h
      | ok t =>
        rw [hm] at h
        simp only at h
        cases hi : intOf t with
        | error e => rw [hi] at h; cases h
        | ok v =>
          rw [hi] at h
          simp only at h
          have hv := scaled_int hm hi hc
          have ih := assembleSide_value x p hx hp hp1 hus hpss rest
            (row.1.set j (rowGet row.1 j + v), row.2) row' qr hrs
            (by simpa using hl1) hl2 h hr
          rw [ih]
          unfold res dot
          simp only
          rw [dotFrom_set x v row.1 0 j (by rw [hl1]; exact hjl), hv, hqk]
          simp only [Nat.zero_add]
          ring
    · split at h
      · -- a parameter
        rename_i j hidx
        obtain ⟨u, hu, heq⟩ := idxOf_spec params key j hidx
        have hjl : j < params.length := (List.getElem?_eq_some_iff.1 hu).1
        have : u = key := key_eq_of_pyEq (hpss u (List.mem_of_getElem? hu)) hkeys heq
        subst this
        have hqk : qk = p j := by
          have := hp j u hu
          rw [hk] at this
          exact Option.some.inj this
        simp only [bind, Except.bind] at h
        cases hm : pyBin .mul (.const (.int (-factor))) coeff with
        | error e => rw [hm] at h; cases h
        | ok t =>
          rw [hm] at h
          simp only at h
          cases hi : intOf t with
          | error e => rw [hi] at h; cases h
          | ok v =>
            rw [hi] at h
            simp only at h
            have hv := scaled_int hm hi hc
            have ih := assembleSide_value x p hx hp hp1 hus hpss rest
              (row.1, row.2.set j (rowGet row.2 j + v)) row' qr hrs
              hl1 (by simpa using hl2) h hr
            rw [ih]
            unfold res dot
            simp only
            rw [dotFrom_set p v row.2 0 j (by rw [hl2]; omega), hv, hqk]
            simp only [Nat.zero_add]
            push_cast
            ring
      · split at h
        · -- the constant key
          rename_i heq
          have : key = one := key_eq_of_pyEq hkeys one_simple heq
          subst this
          have hqk : qk = 1 := by
            rw [nv_one] at hk
            exact (Option.some.inj hk).symm
          simp only [bind, Except.bind] at h
          cases hm : pyBin .mul (.const (.int (-factor))) coeff with
          | error e => rw [hm] at h; cases h
          | ok t =>
            rw [hm] at h
            simp only at h
            cases hi : intOf t with
            | error e => rw [hi] at h; cases h
            | ok v =>
              rw [hi] at h
              simp only at h
              have hv := scaled_int hm hi hc
              have ih := assembleSide_value x p hx hp hp1 hus hpss rest
                (row.1, row.2.set params.length (rowGet row.2 params.length + v)) row' qr hrs
                hl1 (by simpa using hl2) h hr
              rw [ih]
              unfold res dot
              simp only
              rw [dotFrom_set p v row.2 0 params.length (by rw [hl2]; omega), hv, hqk]
              simp only [Nat.zero_add, hp1]
              push_cast
              ring
        · cases h

theorem dotFrom_replicate (x : Nat → Rat) : ∀ (n i : Nat), dotFrom x i (List.replicate n 0) = 0
  | 0, _ => rfl
  | n + 1, i => by
    simp only [List.replicate_succ, dotFrom, Int.cast_zero, zero_mul, zero_add]
    exact dotFrom_replicate x n (i + 1)

/-- **The assembled row represents `lhs - rhs`.**  If both sides of the equation evaluate (through
their coefficient dictionaries) to `ql` and `qr` in an environment in which unknown `j` has the
value `x j` and parameter `c` the value `p c`, then the residual `a·x - b·p` of the assembled
integer row `(a | b)` is `ql - qr`. -/
theorem assembleRow_value {unknowns params : List Expr} {eq : Expr × Expr} {row : ARow}
    (x p : Nat → Rat) {ql qr : Rat}
    (hx : ∀ j u, unknowns[j]? = some u → nv env u = some (x j))
    (hp : ∀ c u, params[c]? = some u → nv env u = some (p c))
    (hp1 : p params.length = 1)
    (hus : ∀ u ∈ unknowns, u.simple = true) (hpss : ∀ u ∈ params, u.simple = true)
    (h : assembleRow unknowns params eq = .ok row)
    (hs1 : eq.1.simple = true) (hs2 : eq.2.simple = true)
    (hr1 : recipOK env none eq.1 = true) (hr2 : recipOK env none eq.2 = true)
    (hl : nv env eq.1 = some ql) (hr : nv env eq.2 = some qr) :
    res x p row = ql - qr := by
  unfold assembleRow at h
  simp only [bind, Except.bind] at h
  cases hdl : coeffs none eq.1 with
  | error e => rw [hdl] at h; cases h
  | ok dl =>
    rw [hdl] at h
    simp only at h
    cases hdr : coeffs none eq.2 with
    | error e => rw [hdr] at h; cases h
    | ok dr =>
      rw [hdr] at h
      simp only at h
      cases h1 : assembleSide unknowns params 1
          (zeroRow unknowns.length, zeroRow (params.length + 1)) dl with
      | error e => rw [h1] at h; cases h
      | ok row1 =>
        rw [h1] at h
        simp only at h
        have l1 := assembleSide_length dl _ row1 h1
        simp only [zeroRow, List.length_replicate] at l1
        have v1 := assembleSide_value x p hx hp hp1 hus hpss dl _ row1 ql
          (coeffs_keys_simple none eq.1 dl hs1 hdl) (by simp [zeroRow]) (by simp [zeroRow]) h1
          (coeffs_nv none eq.1 dl ql hs1 hdl hr1 hl)
        have v2 := assembleSide_value x p hx hp hp1 hus hpss dr _ row qr
          (coeffs_keys_simple none eq.2 dr hs2 hdr) l1.1 l1.2 h
          (coeffs_nv none eq.2 dr qr hs2 hdr hr2 hr)
        rw [v2, v1]
        simp only [res, dot, zeroRow, dotFrom_replicate]
        push_cast
        ring

theorem mapM_of_mem {α β : Type} {f : α → CR β} : ∀ (l : List α) (rs : List β),
    l.mapM f = .ok rs → ∀ a ∈ l, ∃ r ∈ rs, f a = .ok r
  | [], rs, _, a, ha => by simp at ha
  | a0 :: l, rs, h, a, ha => by
    rw [List.mapM_cons] at h
    simp only [bind, Except.bind] at h
    cases hf : f a0 with
    | error e => rw [hf] at h; cases h
    | ok v =>
      rw [hf] at h
      simp only at h
      cases hrest : l.mapM f with
      | error e => rw [hrest] at h; cases h
      | ok vs =>
        rw [hrest] at h
        simp only [pure, Except.pure, Except.ok.injEq] at h
        subst h
        simp only [List.mem_cons] at ha
        rcases ha with rfl | ha
        · exact ⟨v, by simp, hf⟩
        · obtain ⟨r, hr, hfr⟩ := mapM_of_mem l vs hrest a ha
          exact ⟨r, by simp [hr], hfr⟩

theorem nvL_get : ∀ (ps : List Expr) (qs : List Rat) (c : Nat) (u : Expr),
    nvL env ps = some qs → ps[c]? = some u → ∃ q, qs[c]? = some q ∧ nv env u = some q
  | [], qs, c, u, _, hu => by simp at hu
  | p0 :: ps, qs, c, u, h, hu => by
    obtain ⟨q, qs', hq, hqs, rfl⟩ := nvL_cons h
    cases c with
    | zero =>
      simp only [List.getElem?_cons_zero, Option.some.injEq] at hu
      subst hu
      exact ⟨q, by simp, hq⟩
    | succ c =>
      simp only [List.getElem?_cons_succ] at hu
      obtain ⟨q', h1, h2⟩ := nvL_get ps qs' c u hqs hu
      exact ⟨q', by simpa using h1, h2⟩

theorem forall2_get {α β : Type} {R : α → β → Prop} : ∀ {l1 : List α} {l2 : List β},
    List.Forall₂ R l1 l2 → ∀ (j : Nat) (a : α), l1[j]? = some a → ∃ b, l2[j]? = some b ∧ R a b
  | [], [], _, j, a, h => by simp at h
  | a0 :: l1, b0 :: l2, .cons h0 hrest, j, a, h => by
    cases j with
    | zero =>
      simp only [List.getElem?_cons_zero, Option.some.injEq] at h
      subst h; exact ⟨b0, by simp, h0⟩
    | succ j =>
      simp only [List.getElem?_cons_succ] at h
      obtain ⟨b, hb, hr⟩ := forall2_get hrest j a h
      exact ⟨b, by simpa using hb, hr⟩

theorem forall2_length {α β : Type} {R : α → β → Prop} : ∀ {l1 : List α} {l2 : List β},
    List.Forall₂ R l1 l2 → l1.length = l2.length
  | [], [], _ => rfl
  | _ :: _, _ :: _, .cons _ hrest => by simp [forall2_length hrest]

end PV.Coeff
