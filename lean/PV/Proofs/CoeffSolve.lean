import PV.Model.Coeff
import PV.Proofs.CoeffSound
import PV.Proofs.Gauss
/-
  C15 helper lemmas: the expression `solve_affine_equations_for` assembles for one unknown
  evaluates to `constant + Σ coefficient · parameter`.
-/
namespace PV.Coeff
open PV

variable {env : Env}

/-- `Σ kᵢ · qᵢ` over the common prefix (Python `zip`) -/
def dotQ : List Int → List Rat → Rat
  | k :: ks, q :: qs => (k : Rat) * q + dotQ ks qs
  | _, _ => 0

theorem assembleLoop_nv : ∀ (ps : List Expr) (ks : Row) (acc t : Expr) (qa : Rat) (qs : List Rat),
    assembleLoop acc ps ks = .ok t → nv env acc = some qa → nvL env ps = some qs →
    nv env t = some (qa + dotQ ks qs)
  | [], ks, acc, t, qa, qs, h, ha, hq => by
    simp only [assembleLoop, pure, Except.pure, Except.ok.injEq] at h
    subst h
    simp only [nvL, Option.some.injEq] at hq
    subst hq
    cases ks <;> simp [dotQ, ha]
  | p :: ps, [], acc, t, qa, qs, h, ha, hq => by
    simp only [assembleLoop, pure, Except.pure, Except.ok.injEq] at h
    subst h
    simp [dotQ, ha]
  | p :: ps, k :: ks, acc, t, qa, qs, h, ha, hq => by
    obtain ⟨q, qs', hp, hps, rfl⟩ := nvL_cons hq
    simp only [assembleLoop, bind, Except.bind] at h
    cases hm : pyBin .mul (.const (.int k)) p with
    | error e => rw [hm] at h; cases h
    | ok tm =>
      rw [hm] at h
      simp only at h
      cases hadd : pyBin .add acc tm with
      | error e => rw [hadd] at h; cases h
      | ok acc' =>
        rw [hadd] at h
        simp only at h
        have h1 := pyMul_nv hm (nv_int k) hp
        have h2 := pyAdd_nv hadd ha h1
        rw [assembleLoop_nv ps ks acc' t _ qs' h h2 hps]
        simp only [dotQ]
        congr 1; ring

/-- the value assembled for one unknown: `row[-1] + Σ row[i] · parameterᵢ` -/
theorem assembleVal_nv {params : List Expr} {row : Row} {t : Expr} {qs : List Rat}
    (h : assembleVal params row = .ok t) (hq : nvL env params = some qs) :
    nv env t = some ((row.getLastD 0 : Int) + dotQ row qs) :=
  assembleLoop_nv params row _ t _ qs h (nv_int _) hq

/-! ### from the matrix solution to the returned expressions -/

/-- the column values of the right-hand side: the parameter values, then `1` for the constant -/
def pOf (qs : List Rat) (i : Nat) : Rat := (qs[i]?).getD 1

theorem dotFrom_pOf : ∀ (qs : List Rat) (row : Row) (i : Nat) (p : Nat → Rat),
    (∀ k, p (i + k) = (qs[k]?).getD 1) → row.length = qs.length + 1 →
    dotFrom p i row = (row.getLastD 0 : Int) + dotQ row qs
  | [], row, i, p, hp, hl => by
    match row, hl with
    | [a], _ =>
      have := hp 0
      simp only [Nat.add_zero, List.getElem?_nil, Option.getD_none] at this
      simp [dotFrom, dotQ, this]
  | q :: qs, row, i, p, hp, hl => by
    match row, hl with
    | a :: row', hl =>
      have hl' : row'.length = qs.length + 1 := by simpa using hl
      have h0 := hp 0
      simp only [Nat.add_zero, List.getElem?_cons_zero, Option.getD_some] at h0
      have ih := dotFrom_pOf qs row' (i + 1) p (fun k => by
        have := hp (k + 1)
        simp only [List.getElem?_cons_succ] at this
        rw [← this]; congr 1; omega) hl'
      have hlast : (a :: row').getLastD 0 = row'.getLastD 0 := by
        cases row' with
        | nil => simp at hl'
        | cons b bs => simp [List.getLastD]
      simp only [dotFrom, dotQ, ih, h0, hlast]
      ring

theorem dot_pOf {qs : List Rat} {row : Row} (hl : row.length = qs.length + 1) :
    dot (pOf qs) row = (row.getLastD 0 : Int) + dotQ row qs :=
  dotFrom_pOf qs row 0 (pOf qs) (fun k => by simp [pOf]) hl

theorem solveRows_spec {params : List Expr} {s : List ARow} : ∀ (js : List Nat) (vals : List Expr),
    solveRows params s js = .ok vals →
    ∃ rows, js.mapM (solveCol s) = .ok rows ∧
      List.Forall₂ (fun row v => assembleVal params row = .ok v) rows vals
  | [], vals, h => by
    simp only [solveRows, pure, Except.pure, Except.ok.injEq] at h
    subst h
    exact ⟨[], rfl, List.Forall₂.nil⟩
  | j :: js, vals, h => by
    simp only [solveRows, bind, Except.bind] at h
    cases hc : solveCol s j with
    | error e => rw [hc] at h; cases h
    | ok row =>
      rw [hc] at h
      simp only at h
      cases ha : assembleVal params row with
      | error e => rw [ha] at h; cases h
      | ok v =>
        rw [ha] at h
        simp only at h
        cases hr : solveRows params s js with
        | error e => rw [hr] at h; cases h
        | ok vs =>
          rw [hr] at h
          simp only [pure, Except.pure, Except.ok.injEq] at h
          subst h
          obtain ⟨rows, h1, h2⟩ := solveRows_spec js vs hr
          refine ⟨row :: rows, ?_, List.Forall₂.cons ha h2⟩
          rw [List.mapM_cons]
          simp [bind, Except.bind, hc, h1, pure, Except.pure]

/-- `solveAffine` = assemble the integer matrix, read off the rows with `solveMat`, turn every row
into an expression with `assembleVal` -/
theorem solveAffine_spec {names : List String} {eqs : List (Expr × Expr)} {params : List Expr}
    {sol : List (Expr × Expr)} (h : solveAffine names eqs params = .ok sol) :
    ∃ mat rows vals, eqs.mapM (assembleRow (names.map Expr.var) params) = .ok mat ∧
      solveMat eqs.length (names.map Expr.var).length mat = .ok rows ∧
      sol = (names.map Expr.var).zip vals ∧
      List.Forall₂ (fun row v => assembleVal params row = .ok v) rows vals := by
  unfold solveAffine at h
  simp only [bind, Except.bind] at h
  split at h
  · cases h
  · cases hm : eqs.mapM (assembleRow (names.map Expr.var) params) with
    | error e => rw [hm] at h; cases h
    | ok mat =>
      rw [hm] at h
      simp only at h
      cases hr : solveRows params (gaussElim eqs.length (names.map Expr.var).length mat)
          (List.range (names.map Expr.var).length) with
      | error e => rw [hr] at h; cases h
      | ok vals =>
        rw [hr] at h
        simp only [pure, Except.pure, Except.ok.injEq] at h
        obtain ⟨rows, h1, h2⟩ := solveRows_spec _ vals hr
        exact ⟨mat, rows, vals, rfl, h1, h.symm, h2⟩

/-- lengths of an assembled row -/
theorem assembleSide_length {unknowns params : List Expr} {factor : Int} :
    ∀ (d : Dict) (row row' : ARow), assembleSide unknowns params factor row d = .ok row' →
      row'.1.length = row.1.length ∧ row'.2.length = row.2.length
  | [], row, row', h => by
    simp only [assembleSide, pure, Except.pure, Except.ok.injEq] at h
    subst h; exact ⟨rfl, rfl⟩
  | (key, coeff) :: rest, row, row', h => by
    simp only [assembleSide] at h
    split at h
    · simp only [bind, Except.bind] at h
      split at h
      · cases h
      · split at h
        · cases h
        · have := assembleSide_length rest _ row' h
          simpa using this
    · split at h
      · simp only [bind, Except.bind] at h
        split at h
        · cases h
        · split at h
          · cases h
          · have := assembleSide_length rest _ row' h
            simpa using this
      · split at h
        · simp only [bind, Except.bind] at h
          split at h
          · cases h
          · split at h
            · cases h
            · have := assembleSide_length rest _ row' h
              simpa using this
        · cases h

theorem assembleRow_length {unknowns params : List Expr} {eq : Expr × Expr} {row : ARow}
    (h : assembleRow unknowns params eq = .ok row) :
    row.1.length = unknowns.length ∧ row.2.length = params.length + 1 := by
  unfold assembleRow at h
  simp only [bind, Except.bind] at h
  cases hl : coeffs none eq.1 with
  | error e => rw [hl] at h; cases h
  | ok dl =>
    rw [hl] at h
    simp only at h
    cases hr : coeffs none eq.2 with
    | error e => rw [hr] at h; cases h
    | ok dr =>
      rw [hr] at h
      simp only at h
      cases h1 : assembleSide unknowns params 1
          (zeroRow unknowns.length, zeroRow (params.length + 1)) dl with
      | error e => rw [h1] at h; cases h
      | ok row1 =>
        rw [h1] at h
        simp only at h
        have l1 := assembleSide_length dl _ row1 h1
        have l2 := assembleSide_length dr _ row h
        simp only [zeroRow, List.length_replicate] at l1
        exact ⟨l2.1.trans l1.1, l2.2.trans l1.2⟩

theorem mapM_mem {α β : Type} {f : α → CR β} : ∀ (l : List α) (rs : List β),
    l.mapM f = .ok rs → ∀ r ∈ rs, ∃ a ∈ l, f a = .ok r
  | [], rs, h, r, hr => by
    simp only [List.mapM_nil, pure, Except.pure, Except.ok.injEq] at h
    subst h; simp at hr
  | a :: l, rs, h, r, hr => by
    rw [List.mapM_cons] at h
    simp only [bind, Except.bind] at h
    cases hf : f a with
    | error e => rw [hf] at h; cases h
    | ok v =>
      rw [hf] at h
      simp only at h
      cases hrest : l.mapM f with
      | error e => rw [hrest] at h; cases h
      | ok vs =>
        rw [hrest] at h
        simp only [pure, Except.pure, Except.ok.injEq] at h
        subst h
        simp only [List.mem_cons] at hr
        rcases hr with rfl | hr
        · exact ⟨a, by simp, hf⟩
        · obtain ⟨a', ha', hfa'⟩ := mapM_mem l vs hrest r hr
          exact ⟨a', by simp [ha'], hfa'⟩

theorem nvL_length : ∀ (ps : List Expr) (qs : List Rat), nvL env ps = some qs → qs.length = ps.length
  | [], qs, h => by
    simp only [nvL, Option.some.injEq] at h
    subst h; rfl
  | p :: ps, qs, h => by
    obtain ⟨q, qs', _, hps, rfl⟩ := nvL_cons h
    simp [nvL_length ps qs' hps]

theorem solveCol_length {s : List ARow} {j : Nat} {row : Row} (h : solveCol s j = .ok row) :
    ∃ r ∈ s, row.length = r.2.length := by
  unfold solveCol at h
  split at h
  · rename_i r hf
    simp only at h
    split at h
    · cases h
    · simp only [pure, Except.pure, Except.ok.injEq] at h
      subst h
      have : r ∈ s.filter (fun r => rowGet r.1 j ≠ 0) := by rw [hf]; simp
      exact ⟨r, (List.mem_filter.1 this).1, by simp⟩
  · cases h

theorem vals_values {params : List Expr} {qs : List Rat} (hq : nvL env params = some qs) :
    ∀ (rows : List Row) (vals : List Expr),
      List.Forall₂ (fun row v => assembleVal params row = .ok v) rows vals →
      (∀ row ∈ rows, row.length = qs.length + 1) →
      List.Forall₂ (fun v x => nv env v = some x) vals (rows.map (dot (pOf qs)))
  | [], vals, h, _ => by
    cases h; exact List.Forall₂.nil
  | row :: rows, vals, h, hl => by
    cases h with
    | cons h1 h2 =>
      refine List.Forall₂.cons ?_ (vals_values hq rows _ h2 (fun r hr => hl r (by simp [hr])))
      rw [assembleVal_nv h1 hq, dot_pOf (hl row (by simp))]

theorem getD_map_dot (p : Nat → Rat) (rows : List Row) (j : Nat) :
    (rows.map (dot p)).getD j 0 = dot p (rows.getD j []) := by
  rw [List.getD_eq_getElem?_getD, List.getD_eq_getElem?_getD, List.getElem?_map]
  cases rows[j]? with
  | none => simp [dot, dotFrom]
  | some r => simp

end PV.Coeff
