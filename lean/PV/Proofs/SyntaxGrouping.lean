import PV.Proofs.SyntaxParse
import PV.Proofs.SyntaxBEq
/-
  C07.  How the parser model groups two consecutive binary operators, and a prefix operator
  followed by a binary operator, as a function of the precedence table.
-/
namespace PV.Syntax
open PV

variable {P : ParserPrec}

/-- the binary operator tokens of the postfix loop: the `Infix` ones and the binary minus -/
inductive BinTok where
  | op (o : Infix)
  | minus
  deriving Repr, DecidableEq

def BinTok.sym : BinTok → String
  | .op o => o.sym
  | .minus => "-"

def BinTok.guard (P : ParserPrec) : BinTok → Nat
  | .op o => o.guard P
  | .minus => P.plus

def BinTok.rhs (P : ParserPrec) : BinTok → Nat
  | .op o => o.rhs P
  | .minus => P.plus

/-- the node built from the two operands (`a - b` negates `b` with Python's unary minus) -/
def BinTok.build : BinTok → Expr → Expr → Except PErr Expr
  | .op o, l, r => pure (o.build l r)
  | .minus, l, r => do
      let n ← parseNeg r
      pure (spliceNary .sum l n)

theorem PL_minus {k1 k2 m ts l fin r n r1 res} (hg : P.plus > m)
    (hr : PEok P k1 P.plus ts (r, r1)) (hn : parseNeg r = .ok n)
    (hl : PLok P k2 m (spliceNary .sum l n) false r1 res) :
    PLok P (max k1 k2 + 1) m l fin (.sym "-" :: ts) res := by
  intro j hj
  obtain ⟨j', rfl⟩ : ∃ j', j = j' + 1 := ⟨j - 1, by omega⟩
  have h1 := hr j' (by omega)
  have h2 := hl j' (by omega)
  simp_all [postfixLoop, bind, Except.bind]

theorem PL_bintok (o : BinTok) {k1 k2 m ts l fin r e r1 res} (hg : o.guard P > m)
    (hr : PEok P k1 (o.rhs P) ts (r, r1)) (hb : o.build l r = .ok e)
    (hl : PLok P k2 m e false r1 res) :
    PLok P (max k1 k2 + 1) m l fin (.sym o.sym :: ts) res := by
  cases o with
  | op o =>
    simp only [BinTok.build, pure, Except.pure, Except.ok.injEq] at hb
    subst hb
    exact PL_infix o hg hr hl
  | minus =>
    simp only [BinTok.build, bind, Except.bind] at hb
    split at hb
    · cases hb
    · rename_i n hn
      simp only [pure, Except.pure, Except.ok.injEq] at hb
      subst hb
      exact PL_minus hg hr hn hl

theorem absorbs_bintok (o : BinTok) {m : Nat} {r} :
    absorbs P m (.sym o.sym :: r) ↔ o.guard P > m := by
  cases o with
  | op o => exact absorbs_infix o
  | minus => simp [absorbs, tokGuard, BinTok.sym, BinTok.guard]


/-- Python's `-e` for a node `e` (`__neg__` = `-1*self`, spliced into a product) -/
def negNode (e : Expr) : Expr :=
  match e with
  | .nary .prod cs => .nary .prod (negOne :: cs)
  | e => .nary .prod [negOne, e]

theorem parseNeg_node {e : Expr} (h : e.isNode = true) : parseNeg e = .ok (negNode e) := by
  cases e <;> simp [Expr.isNode] at h
  case nary o cs =>
    cases o <;> simp [parseNeg, negE, Expr.isNode, rmulD, negOne, Expr.isConstant, Expr.isZero,
      Expr.truthy, Const.truthy, Expr.isOne, Const.isOne, negNode, pure, Except.pure]
  all_goals simp [parseNeg, negE, Expr.isNode, rmulD, negOne, Expr.isConstant, Expr.isZero,
      Expr.truthy, Const.truthy, Expr.isOne, Const.isOne, negNode, pure, Except.pure]

theorem negNode_isNode (e : Expr) : (negNode e).isNode = true := by
  unfold negNode; split <;> rfl

theorem spliceNary_isNode (op : NaryOp) (l r : Expr) : (spliceNary op l r).isNode = true := by
  unfold spliceNary; split
  · split <;> rfl
  · rfl

theorem build_isNode (o : BinTok) {l r : Expr} (hr : r.isNode = true) :
    ∃ e, o.build l r = .ok e ∧ e.isNode = true := by
  cases o with
  | op o =>
    refine ⟨_, rfl, ?_⟩
    cases o <;> first | exact spliceNary_isNode _ _ _ | rfl
  | minus =>
    refine ⟨spliceNary .sum l (negNode r), ?_, spliceNary_isNode _ _ _⟩
    simp [BinTok.build, parseNeg_node hr, bind, Except.bind, pure, Except.pure]

/-- **Grouping of two binary operators.**  `a o1 b o2 c` is read as `a o1 (b o2 c)` when the
guard of `o2` exceeds the level at which the right operand of `o1` is parsed, and as
`(a o1 b) o2 c` otherwise. -/
theorem grouping (hpos : ∀ o : BinTok, o.guard P > 0) (o1 o2 : BinTok) (a b c : String) :
    parseTop P 0 [.ident a, .sym o1.sym, .ident b, .sym o2.sym, .ident c] =
      if o2.guard P > o1.rhs P then o2.build (.var b) (.var c) >>= o1.build (.var a)
      else o1.build (.var a) (.var b) >>= fun l => o2.build l (.var c) := by
  by_cases h : o2.guard P > o1.rhs P
  · obtain ⟨e2, he2, hn2⟩ := build_isNode o2 (l := .var b) (r := .var c) rfl
    obtain ⟨e1, he1, -⟩ := build_isNode o1 (l := .var a) (r := e2) hn2
    have inner : PEok P _ (o1.rhs P) [.ident b, .sym o2.sym, .ident c] (e2, []) :=
      PE_mk PP_ident (PL_bintok o2 h (PE_mk PP_ident (PL_stop not_absorbs_nil)) he2
        (PL_stop not_absorbs_nil))
    have outer : PEok P _ 0 [.ident a, .sym o1.sym, .ident b, .sym o2.sym, .ident c] (e1, []) :=
      PE_mk PP_ident (PL_bintok o1 (hpos o1) inner he1 (PL_stop not_absorbs_nil))
    have := outer 18 (by decide)
    simp [parseTop, this, h, he1, he2, bind, Except.bind, pure, Except.pure]
  · obtain ⟨e1, he1, hn1⟩ := build_isNode o1 (l := .var a) (r := .var b) rfl
    obtain ⟨e2, he2, -⟩ := build_isNode o2 (l := e1) (r := .var c) rfl
    have inner : PEok P _ (o1.rhs P) [.ident b, .sym o2.sym, .ident c]
        (.var b, [.sym o2.sym, .ident c]) :=
      PE_mk PP_ident (PL_stop (by rw [absorbs_bintok]; exact h))
    have outer : PEok P _ 0 [.ident a, .sym o1.sym, .ident b, .sym o2.sym, .ident c] (e2, []) :=
      PE_mk PP_ident (PL_bintok o1 (hpos o1) inner he1
        (PL_bintok o2 (hpos o2) (PE_mk PP_ident (PL_stop not_absorbs_nil)) he2
          (PL_stop not_absorbs_nil)))
    have := outer 18 (by decide)
    simp [parseTop, this, h, he1, he2, bind, Except.bind, pure, Except.pure]


/-! ### a prefix operator followed by a binary operator -/

inductive PreTok where
  | neg | bnot | lnot
  deriving Repr, DecidableEq

def PreTok.sym : PreTok → String
  | .neg => "-" | .bnot => "~" | .lnot => "not"

def PreTok.build : PreTok → Expr → Except PErr Expr
  | .neg, e => parseNeg e
  | .bnot, e => pure (.un .bnot e)
  | .lnot, e => pure (.un .lnot e)

theorem PP_pretok (p : PreTok) {k ts e n r} (h : PEok P k P.unary ts (e, r))
    (hb : p.build e = .ok n) : PPok P (k + 1) (.sym p.sym :: ts) ((n, false), r) := by
  cases p with
  | neg => exact PP_neg h hb
  | bnot =>
    simp only [PreTok.build, pure, Except.pure, Except.ok.injEq] at hb; subst hb; exact PP_bnot h
  | lnot =>
    simp only [PreTok.build, pure, Except.pure, Except.ok.injEq] at hb; subst hb; exact PP_lnot h

theorem prebuild_isNode (p : PreTok) {e : Expr} (he : e.isNode = true) :
    ∃ n, p.build e = .ok n ∧ n.isNode = true := by
  cases p with
  | neg => exact ⟨_, parseNeg_node he, negNode_isNode e⟩
  | bnot => exact ⟨_, rfl, rfl⟩
  | lnot => exact ⟨_, rfl, rfl⟩

/-- **Grouping of a prefix and a binary operator.**  `p a o b` is read as `p (a o b)` when the
guard of `o` exceeds the level `unary` at which the operand of a prefix operator is parsed, and
as `(p a) o b` otherwise. -/
theorem prefix_grouping (hpos : ∀ o : BinTok, o.guard P > 0) (p : PreTok) (o : BinTok)
    (a b : String) :
    parseTop P 0 [.sym p.sym, .ident a, .sym o.sym, .ident b] =
      if o.guard P > P.unary then o.build (.var a) (.var b) >>= p.build
      else p.build (.var a) >>= fun l => o.build l (.var b) := by
  by_cases h : o.guard P > P.unary
  · obtain ⟨e2, he2, hn2⟩ := build_isNode o (l := .var a) (r := .var b) rfl
    obtain ⟨e1, he1, -⟩ := prebuild_isNode p hn2
    have inner : PEok P _ P.unary [.ident a, .sym o.sym, .ident b] (e2, []) :=
      PE_mk PP_ident (PL_bintok o h (PE_mk PP_ident (PL_stop not_absorbs_nil)) he2
        (PL_stop not_absorbs_nil))
    have outer : PEok P _ 0 [.sym p.sym, .ident a, .sym o.sym, .ident b] (e1, []) :=
      PE_mk (PP_pretok p inner he1) (PL_stop not_absorbs_nil)
    have := outer 16 (by decide)
    simp [parseTop, this, h, he1, he2, bind, Except.bind, pure, Except.pure]
  · obtain ⟨e1, he1, hn1⟩ := prebuild_isNode p (e := .var a) rfl
    obtain ⟨e2, he2, -⟩ := build_isNode o (l := e1) (r := .var b) rfl
    have inner : PEok P _ P.unary [.ident a, .sym o.sym, .ident b]
        (.var a, [.sym o.sym, .ident b]) :=
      PE_mk PP_ident (PL_stop (by rw [absorbs_bintok]; exact h))
    have outer : PEok P _ 0 [.sym p.sym, .ident a, .sym o.sym, .ident b] (e2, []) :=
      PE_mk (PP_pretok p inner he1)
        (PL_bintok o (hpos o) (PE_mk PP_ident (PL_stop not_absorbs_nil)) he2
          (PL_stop not_absorbs_nil))
    have := outer 16 (by decide)
    simp [parseTop, this, h, he1, he2, bind, Except.bind, pure, Except.pure]

end PV.Syntax
