import PV.Model.SymFft
import PV.Proofs.OpsSound
import PV.Proofs.AlgoFftMod
/-!
  PV.Proofs.SymFft — the symbolic FFT: (1) `c19FftW` with the identity wrapper is `c19Fft`;
  (2) `c19FftW` is natural in the carrier (a map that preserves `add`, `mul`, `zero`, the twiddles
  and commutes with the wrapper commutes with the transform); (3) the expression trees `symFft`
  builds evaluate (`den`) to the transform of the values of the inputs: the carrier
  `SymVal env` of expressions with an exact numeric value is closed under the overloaded `+` and
  `*` (C03: `bin_sound`) and under `CommonSubexpression`, the projection to the tree and the
  valuation into ℚ are both homomorphisms.
-/
namespace PV.Algo
open PV

/-! ### 1. the identity wrapper -/

section Id
variable {α : Type*} (add mul : α → α → α) (zero : α) (rp : ℕ → ℕ → α)

theorem c19FftStepW_id (sub : List α → List α) (x : List α) :
    c19FftStepW add mul zero rp (fun v => v) sub x = c19FftStep add mul zero rp sub x := rfl

theorem c19FftAuxW_id (fuel : ℕ) (x : List α) :
    c19FftAuxW add mul zero rp (fun v => v) fuel x = c19FftAux add mul zero rp fuel x := by
  induction fuel generalizing x with
  | zero => rfl
  | succ fuel ih =>
    unfold c19FftAuxW c19FftAux
    split_ifs
    · rfl
    · rw [c19FftStepW_id]
      congr 1
      funext y
      exact ih y

/-- **`fft` with the default wrapper** (`wrap_intermediate_with_level(level, x) = x`) is the
transform the C19 theorems speak about -/
theorem c19FftW_id (x : List α) :
    c19FftW add mul zero rp (fun v => v) x = c19Fft add mul zero rp x :=
  c19FftAuxW_id add mul zero rp x.length x
end Id

/-! ### 2. naturality -/

section Hom
variable {A : Type*} {B : Type*} (f : A → B)
  (addA mulA : A → A → A) (zeroA : A) (addB mulB : B → B → B) (zeroB : B)

theorem c19FftStepW_map (hadd : ∀ a b, f (addA a b) = addB (f a) (f b))
    (hmul : ∀ a b, f (mulA a b) = mulB (f a) (f b)) (hzero : f zeroA = zeroB)
    (rpA : ℕ → ℕ → A) (rpB : ℕ → ℕ → B) (hrp : ∀ m k, f (rpA m k) = rpB m k)
    (wrapA : List A → List A) (wrapB : List B → List B)
    (hwrap : ∀ l, (wrapA l).map f = wrapB (l.map f))
    (subA : List A → List A) (subB : List B → List B) (x : List A)
    (hsub : ∀ n1 < (findFactors x.length).1,
      (subA (stride x n1 (findFactors x.length).1)).map f =
        subB ((stride x n1 (findFactors x.length).1).map f)) :
    (c19FftStepW addA mulA zeroA rpA wrapA subA x).map f =
      c19FftStepW addB mulB zeroB rpB wrapB subB (x.map f) := by
  unfold c19FftStepW
  simp only [List.length_map]
  generalize (findFactors x.length).1 = N1 at *
  generalize (findFactors x.length).2 = N2 at *
  rw [List.map_flatMap]
  refine List.flatMap_congr fun k1 _ => ?_
  rw [c19PySum_map f addA zeroA addB zeroB hadd hzero]
  congr 1
  have hsubs : (List.range N1).map (fun n1 =>
        wrapB (c19VecMul mulB (subB (stride (x.map f) n1 N1)) (c19Twiddles rpB N1 N2 n1))) =
      ((List.range N1).map fun n1 =>
        wrapA (c19VecMul mulA (subA (stride x n1 N1)) (c19Twiddles rpA N1 N2 n1))).map
          (List.map f) := by
    rw [List.map_map]
    refine List.map_congr_left fun n1 hn1 => ?_
    have hn1 : n1 < N1 := List.mem_range.mp hn1
    simp only [Function.comp]
    rw [hwrap]
    congr 1
    unfold c19VecMul c19Twiddles
    rw [List.map_zipWith, c19_stride_map f x n1 N1 (by omega), ← hsub n1 hn1]
    simp only [hmul, ← hrp, List.zipWith_map_left, List.zipWith_map_right]
  rw [hsubs]
  simp only [List.zipIdx_map, List.map_map]
  refine List.map_congr_left fun pr _ => ?_
  simp only [Function.comp, Prod.map, id, c19VecScale, List.map_map]
  refine List.map_congr_left fun v _ => ?_
  simp only [Function.comp]
  rw [hmul, hrp]

theorem c19FftAuxW_map (hadd : ∀ a b, f (addA a b) = addB (f a) (f b))
    (hmul : ∀ a b, f (mulA a b) = mulB (f a) (f b)) (hzero : f zeroA = zeroB)
    (rpA : ℕ → ℕ → A) (rpB : ℕ → ℕ → B) (hrp : ∀ m k, f (rpA m k) = rpB m k)
    (wrapA : List A → List A) (wrapB : List B → List B)
    (hwrap : ∀ l, (wrapA l).map f = wrapB (l.map f)) (fuel : ℕ) :
    ∀ x : List A, (c19FftAuxW addA mulA zeroA rpA wrapA fuel x).map f =
      c19FftAuxW addB mulB zeroB rpB wrapB fuel (x.map f) := by
  induction fuel with
  | zero => intro x; rfl
  | succ fuel ih =>
    intro x
    unfold c19FftAuxW
    simp only [List.length_map]
    split_ifs with h1
    · rfl
    · exact c19FftStepW_map f addA mulA zeroA addB mulB zeroB hadd hmul hzero rpA rpB hrp
        wrapA wrapB hwrap _ _ x (fun n1 _ => ih _)

/-- **naturality of `fft` with a wrapper** -/
theorem c19FftW_map (hadd : ∀ a b, f (addA a b) = addB (f a) (f b))
    (hmul : ∀ a b, f (mulA a b) = mulB (f a) (f b)) (hzero : f zeroA = zeroB)
    (rpA : ℕ → ℕ → A) (rpB : ℕ → ℕ → B) (hrp : ∀ m k, f (rpA m k) = rpB m k)
    (wrapA : List A → List A) (wrapB : List B → List B)
    (hwrap : ∀ l, (wrapA l).map f = wrapB (l.map f)) (x : List A) :
    (c19FftW addA mulA zeroA rpA wrapA x).map f = c19FftW addB mulB zeroB rpB wrapB (x.map f) := by
  unfold c19FftW
  rw [List.length_map]
  exact c19FftAuxW_map f addA mulA zeroA addB mulB zeroB hadd hmul hzero rpA rpB hrp wrapA wrapB
    hwrap _ x
end Hom

/-! ### 3. expressions with an exact numeric value -/

section Sym
variable (env : Env)

/-- the expression evaluates to an exact number (int, bool or Fraction) with rational value `q` -/
def SymHas (t : Expr) (q : ℚ) : Prop := ∃ w f, den env t = .ok w ∧ w.view = some (q, f)

/-- what an object array may hold here: an expression or number with an exact value, not the
constants `True` / `False` (`True + x` trips an `assert`) -/
def SymExact (t : Expr) : Prop := t.isBoolConst = false ∧ ∃ q, SymHas env t q

/-- the rational value of an expression (0 when it has none) -/
def symValue (t : Expr) : ℚ :=
  match den env t with
  | .ok w => match w.view with
    | some (q, _) => q
    | none => 0
  | .error _ => 0

theorem symValue_of {t : Expr} {q : ℚ} (h : SymHas env t q) : symValue env t = q := by
  obtain ⟨w, f, hw, hv⟩ := h
  simp [symValue, hw, hv]

theorem SymExact.has {t : Expr} (h : SymExact env t) : SymHas env t (symValue env t) := by
  obtain ⟨_, q, hq⟩ := h
  rw [symValue_of env hq]; exact hq

/-- a constant with an exact value that is not a bool is an int -/
theorem symExact_const {c : Const} (h : SymExact env (.const c)) : ∃ n : Int, c = .int n := by
  obtain ⟨hb, q, w, f, hw, hv⟩ := h
  cases c with
  | int n => exact ⟨n, rfl⟩
  | bool b => simp [Expr.isBoolConst] at hb
  | flt r n d =>
    simp only [den, Const.den, pure, Except.pure] at hw
    cases hw; simp [Value.view] at hv
  | str s => simp [den, Const.den, throw, throwThe, MonadExceptOf.throw] at hw
  | none => simp [den, Const.den, throw, throwThe, MonadExceptOf.throw] at hw

theorem symExact_valid {t : Expr} (h : SymExact env t) : t.isArith = true := by
  obtain ⟨hb, q, w, f, hw, hv⟩ := h
  cases t <;> simp_all [Expr.isArith, Expr.isValidOperand, Expr.isNode, Expr.isConstant,
    Expr.isBoolConst]
  case const c =>
    cases c <;> simp_all [den, Const.den, pure, Except.pure, Value.view, throw, throwThe,
      MonadExceptOf.throw]
  case tuple cs =>
    simp only [den, bind, Except.bind] at hw
    cases h : denList env cs <;> simp [h, pure, Except.pure] at hw
    subst hw; simp [Value.view] at hv
  case list cs =>
    simp only [den, bind, Except.bind] at hw
    cases h : denList env cs <;> simp [h, pure, Except.pure] at hw
    subst hw; simp [Value.view] at hv

/-! #### the overloaded operators succeed on such operands -/

theorem isArith_valid {e : Expr} (h : e.isArith = true) : e.isValidOperand = true := by
  simp only [Expr.isArith, Bool.and_eq_true] at h; exact h.2

theorem addD_ret (a b : Expr) (hb : b.isArith = true) :
    ∃ r, addD a b = .ret r ∧ (r = a ∨ r = b ∨ r.isNode = true) := by
  have hv := isArith_valid hb
  unfold addD
  split
  · simp only [hv, Bool.not_true, Bool.false_eq_true, if_false]
    split
    · exact ⟨_, rfl, Or.inr (Or.inr rfl)⟩
    · split
      · exact ⟨_, rfl, Or.inl rfl⟩
      · exact ⟨_, rfl, Or.inr (Or.inr rfl)⟩
  · unfold exprAdd
    simp only [hb, Bool.not_true, Bool.false_eq_true, if_false]
    split
    · split
      · split
        · exact ⟨_, rfl, Or.inr (Or.inr rfl)⟩
        · exact ⟨_, rfl, Or.inr (Or.inr rfl)⟩
      · exact ⟨_, rfl, Or.inr (Or.inl rfl)⟩
    · exact ⟨_, rfl, Or.inl rfl⟩

theorem raddD_ret (b a : Expr) (hc : a.isConstant = true) (hn : a.isNumber = true) :
    ∃ r, raddD b a = .ret r ∧ (r = a ∨ r = b ∨ r.isNode = true) := by
  unfold raddD
  split
  · simp only [hc, Bool.not_true, Bool.false_eq_true, if_false]
    split
    · exact ⟨_, rfl, Or.inr (Or.inl rfl)⟩
    · exact ⟨_, rfl, Or.inr (Or.inr rfl)⟩
  · simp only [hn, Bool.not_true, Bool.false_eq_true, if_false]
    split
    · split
      · exact ⟨_, rfl, Or.inr (Or.inr rfl)⟩
      · exact ⟨_, rfl, Or.inl rfl⟩
    · exact ⟨_, rfl, Or.inr (Or.inl rfl)⟩

theorem mulD_ret (a b : Expr) (hb : b.isValidOperand = true) :
    ∃ r, mulD a b = .ret r ∧ (r = a ∨ r = zero ∨ r.isNode = true) := by
  unfold mulD
  simp only [hb, Bool.not_true, Bool.false_eq_true, if_false]
  split
  · split
    · exact ⟨_, rfl, Or.inr (Or.inr rfl)⟩
    · split
      · exact ⟨_, rfl, Or.inr (Or.inl rfl)⟩
      · split
        · exact ⟨_, rfl, Or.inl rfl⟩
        · exact ⟨_, rfl, Or.inr (Or.inr rfl)⟩
  · split
    · exact ⟨_, rfl, Or.inl rfl⟩
    · split
      · exact ⟨_, rfl, Or.inr (Or.inl rfl)⟩
      · exact ⟨_, rfl, Or.inr (Or.inr rfl)⟩

theorem rmulD_ret (b a : Expr) (hc : a.isConstant = true) :
    ∃ r, rmulD b a = .ret r ∧ (r = b ∨ r = zero ∨ r.isNode = true) := by
  unfold rmulD
  simp only [hc, Bool.not_true, Bool.false_eq_true, if_false]
  split
  · split
    · exact ⟨_, rfl, Or.inr (Or.inl rfl)⟩
    · split
      · exact ⟨_, rfl, Or.inl rfl⟩
      · exact ⟨_, rfl, Or.inr (Or.inr rfl)⟩
  · split
    · exact ⟨_, rfl, Or.inl rfl⟩
    · split
      · exact ⟨_, rfl, Or.inr (Or.inl rfl)⟩
      · exact ⟨_, rfl, Or.inr (Or.inr rfl)⟩

theorem isNode_not_boolConst {e : Expr} (h : e.isNode = true) : e.isBoolConst = false := by
  cases e <;> simp_all [Expr.isNode, Expr.isBoolConst]

theorem arith_node_or_number {e : Expr} (h : e.isArith = true) :
    e.isNode = true ∨ (e.isConstant = true ∧ e.isNumber = true) := by
  cases e <;> simp_all [Expr.isArith, Expr.isValidOperand, Expr.isNode, Expr.isConstant,
    Expr.isNumber, Expr.isBoolConst]
  case const c => cases c <;> simp_all

/-- `dispatch` on two arithmetic operands of which one is a node, given that the forward method
answers on a valid operand and the reflected one on a number -/
theorem dispatch_ret {fwd refl : Expr → Expr → Dunder} (a b : Expr) (P : Expr → Prop)
    (ha : a.isArith = true) (hnode : a.isNode = true ∨ b.isNode = true)
    (hf : ∃ r, fwd a b = .ret r ∧ P r)
    (hr : a.isConstant = true → a.isNumber = true → ∃ r, refl b a = .ret r ∧ P r) :
    ∃ r, dispatch fwd refl a b = .ok r ∧ P r := by
  unfold dispatch
  by_cases han : a.isNode = true
  · obtain ⟨r, hr', hp⟩ := hf
    simp only [han, if_true, hr']
    exact ⟨r, rfl, hp⟩
  · have hbn : b.isNode = true := by
      rcases hnode with h | h
      · exact absurd h han
      · exact h
    rcases arith_node_or_number ha with h | ⟨hc, hn⟩
    · exact absurd h han
    · obtain ⟨r, hr', hp⟩ := hr hc hn
      simp only [han, hbn, if_true, hc, hr']
      exact ⟨r, rfl, hp⟩

/-! #### closure under `+`, `*`, `CommonSubexpression` -/

theorem symBin_of_not_consts (o : PyBinOp) (a b : Expr)
    (h : ∀ x y, a = .const x → b = .const y → False) :
    symBin o a b = (Ops.bin o a b).toOption := by
  unfold symBin
  split
  · rename_i x y
    exact (h x y rfl rfl).elim
  · rfl

theorem symExact_node_of_not_consts {a b : Expr} (ha : SymExact env a) (hb : SymExact env b)
    (h : ∀ x y, a = .const x → b = .const y → False) : a.isNode = true ∨ b.isNode = true := by
  by_contra hcon
  simp only [not_or] at hcon
  have h1 : ∃ x, a = .const x := by
    have := symExact_valid env ha
    cases a <;> simp_all [Expr.isNode, Expr.isArith, Expr.isValidOperand, Expr.isConstant,
      Expr.isBoolConst]
  have h2 : ∃ y, b = .const y := by
    have := symExact_valid env hb
    cases b <;> simp_all [Expr.isNode, Expr.isArith, Expr.isValidOperand, Expr.isConstant,
      Expr.isBoolConst]
  obtain ⟨x, hx⟩ := h1
  obtain ⟨y, hy⟩ := h2
  exact h x y hx hy

theorem symHas_int (n : Int) : SymHas env (.const (.int n)) (n : ℚ) :=
  ⟨.int n, false, rfl, rfl⟩

/-- **`+` on two such objects**: it succeeds, the result is such an object again and its value is
the sum of the values (C03 `bin_sound` for trees, Python's own `+` for two ints) -/
theorem symBin_add_closed {a b : Expr} (ha : SymExact env a) (hb : SymExact env b) :
    ∃ t, symBin .add a b = some t ∧ SymExact env t ∧
      symValue env t = symValue env a + symValue env b := by
  by_cases hc : ∃ x y, a = .const x ∧ b = .const y
  · obtain ⟨x, y, rfl, rfl⟩ := hc
    obtain ⟨m, rfl⟩ := symExact_const env ha
    obtain ⟨n, rfl⟩ := symExact_const env hb
    refine ⟨.const (.int (m + n)), rfl, ⟨rfl, _, symHas_int env (m + n)⟩, ?_⟩
    rw [symValue_of env (symHas_int env (m + n)), symValue_of env (symHas_int env m),
      symValue_of env (symHas_int env n)]
    push_cast; ring
  · have hnc : ∀ x y, a = .const x → b = .const y → False :=
      fun x y hx hy => hc ⟨x, y, hx, hy⟩
    have hnode := symExact_node_of_not_consts env ha hb hnc
    have hA := symExact_valid env ha
    have hB := symExact_valid env hb
    obtain ⟨r, hr, hshape⟩ := dispatch_ret (fwd := addD) (refl := raddD) a b
      (fun r => r = a ∨ r = b ∨ r.isNode = true) hA hnode (addD_ret a b hB)
      (fun hcn hnum => by
        obtain ⟨r, hr, hs⟩ := raddD_ret b a hcn hnum
        exact ⟨r, hr, by tauto⟩)
    have hbin : Ops.bin .add a b = .ok r := hr
    obtain ⟨wa, fa, hwa, hva⟩ := ha.has
    obtain ⟨wb, fb, hwb, hvb⟩ := hb.has
    obtain ⟨v, hv, hvv⟩ := add_spec hva hvb
    obtain ⟨w, hw, href⟩ := bin_sound (env := env) hbin hwa hwb (show PyBinOp.onValues .add wa wb = .ok v from hv) rfl
    obtain ⟨fw, hwv, _⟩ := href.view_right hvv
    have hhas : SymHas env r (symValue env a + symValue env b) := ⟨w, fw, hw, hwv⟩
    refine ⟨r, by rw [symBin_of_not_consts _ _ _ hnc, hbin]; rfl, ⟨?_, _, hhas⟩,
      symValue_of env hhas⟩
    rcases hshape with rfl | rfl | hn
    · exact ha.1
    · exact hb.1
    · exact isNode_not_boolConst hn

/-- **`*` on two such objects** -/
theorem symBin_mul_closed {a b : Expr} (ha : SymExact env a) (hb : SymExact env b) :
    ∃ t, symBin .mul a b = some t ∧ SymExact env t ∧
      symValue env t = symValue env a * symValue env b := by
  by_cases hc : ∃ x y, a = .const x ∧ b = .const y
  · obtain ⟨x, y, rfl, rfl⟩ := hc
    obtain ⟨m, rfl⟩ := symExact_const env ha
    obtain ⟨n, rfl⟩ := symExact_const env hb
    refine ⟨.const (.int (m * n)), rfl, ⟨rfl, _, symHas_int env (m * n)⟩, ?_⟩
    rw [symValue_of env (symHas_int env (m * n)), symValue_of env (symHas_int env m),
      symValue_of env (symHas_int env n)]
    push_cast; ring
  · have hnc : ∀ x y, a = .const x → b = .const y → False :=
      fun x y hx hy => hc ⟨x, y, hx, hy⟩
    have hnode := symExact_node_of_not_consts env ha hb hnc
    have hA := symExact_valid env ha
    have hB := symExact_valid env hb
    obtain ⟨r, hr, hshape⟩ := dispatch_ret (fwd := mulD) (refl := rmulD) a b
      (fun r => r = a ∨ r = b ∨ r = zero ∨ r.isNode = true) hA hnode
      (by
        obtain ⟨r, hr, hs⟩ := mulD_ret a b (isArith_valid hB)
        exact ⟨r, hr, by tauto⟩)
      (fun hcn _ => by
        obtain ⟨r, hr, hs⟩ := rmulD_ret b a hcn
        exact ⟨r, hr, by tauto⟩)
    have hbin : Ops.bin .mul a b = .ok r := hr
    obtain ⟨wa, fa, hwa, hva⟩ := ha.has
    obtain ⟨wb, fb, hwb, hvb⟩ := hb.has
    obtain ⟨v, hv, hvv⟩ := mul_spec hva hvb
    obtain ⟨w, hw, href⟩ := bin_sound (env := env) hbin hwa hwb (show PyBinOp.onValues .mul wa wb = .ok v from hv) rfl
    obtain ⟨fw, hwv, _⟩ := href.view_right hvv
    have hhas : SymHas env r (symValue env a * symValue env b) := ⟨w, fw, hw, hwv⟩
    refine ⟨r, by rw [symBin_of_not_consts _ _ _ hnc, hbin]; rfl, ⟨?_, _, hhas⟩,
      symValue_of env hhas⟩
    rcases hshape with rfl | rfl | rfl | hn
    · exact ha.1
    · exact hb.1
    · rfl
    · exact isNode_not_boolConst hn

/-- `CommonSubexpression(e)` evaluates like `e` (and is never a bool constant) -/
theorem symCse_closed {a : Expr} {q : ℚ} (ha : SymHas env a q) :
    SymExact env (symCse a) ∧ symValue env (symCse a) = q := by
  have h : SymHas env (symCse a) q := by
    obtain ⟨w, f, hw, hv⟩ := ha
    exact ⟨w, f, by simpa [symCse, den] using hw, hv⟩
  exact ⟨⟨rfl, q, h⟩, symValue_of env h⟩

end Sym

/-! ### 4. the trees of the symbolic FFT evaluate to the transform of the values -/

section Main
variable (env : Env)

/-- the carrier of the proof: expressions with an exact value -/
abbrev SymVal := {t : Expr // SymExact env t}

noncomputable def SymVal.add (a b : SymVal env) : SymVal env :=
  ⟨Classical.choose (symBin_add_closed env a.2 b.2),
    (Classical.choose_spec (symBin_add_closed env a.2 b.2)).2.1⟩

noncomputable def SymVal.mul (a b : SymVal env) : SymVal env :=
  ⟨Classical.choose (symBin_mul_closed env a.2 b.2),
    (Classical.choose_spec (symBin_mul_closed env a.2 b.2)).2.1⟩

def SymVal.zero : SymVal env := ⟨PV.zero, rfl, _, symHas_int env 0⟩

def SymVal.cse (a : SymVal env) : SymVal env :=
  ⟨symCse a.1, (symCse_closed env a.2.has).1⟩

def SymVal.wrap (l : List (SymVal env)) : List (SymVal env) :=
  if l.length > 1 then l.map (SymVal.cse env) else l

def SymVal.tree (a : SymVal env) : Option Expr := some a.1
def SymVal.val (a : SymVal env) : ℚ := symValue env a.1

theorem SymVal.tree_add (a b : SymVal env) :
    SymVal.tree env (SymVal.add env a b) = symOp .add (SymVal.tree env a) (SymVal.tree env b) :=
  (Classical.choose_spec (symBin_add_closed env a.2 b.2)).1.symm
theorem SymVal.tree_mul (a b : SymVal env) :
    SymVal.tree env (SymVal.mul env a b) = symOp .mul (SymVal.tree env a) (SymVal.tree env b) :=
  (Classical.choose_spec (symBin_mul_closed env a.2 b.2)).1.symm
theorem SymVal.val_add (a b : SymVal env) : SymVal.val env (SymVal.add env a b) = SymVal.val env a + SymVal.val env b :=
  (Classical.choose_spec (symBin_add_closed env a.2 b.2)).2.2
theorem SymVal.val_mul (a b : SymVal env) : SymVal.val env (SymVal.mul env a b) = SymVal.val env a * SymVal.val env b :=
  (Classical.choose_spec (symBin_mul_closed env a.2 b.2)).2.2
theorem SymVal.val_zero : SymVal.val env (SymVal.zero env) = 0 := by
  have := symValue_of env (symHas_int env 0)
  simpa [SymVal.val, SymVal.zero, PV.zero] using this
theorem SymVal.val_cse (a : SymVal env) : SymVal.val env (SymVal.cse env a) = SymVal.val env a :=
  (symCse_closed env a.2.has).2

theorem SymVal.wrap_tree (l : List (SymVal env)) :
    (SymVal.wrap env l).map (SymVal.tree env) = symWrap (l.map (SymVal.tree env)) := by
  unfold SymVal.wrap symWrap
  simp only [List.length_map]
  split_ifs
  · simp only [List.map_map]
    rfl
  · rfl

theorem SymVal.wrap_val (l : List (SymVal env)) :
    (SymVal.wrap env l).map (SymVal.val env) = l.map (SymVal.val env) := by
  unfold SymVal.wrap
  split_ifs
  · simp only [List.map_map]
    refine List.map_congr_left fun a _ => ?_
    exact SymVal.val_cse env a
  · rfl

theorem pow_mod_of_pow_eq_one {R : Type*} [Monoid R] (z : R) (n e : ℕ) (hz : z ^ n = 1) :
    z ^ (e % n) = z ^ e := by
  conv_rhs => rw [← Nat.div_add_mod e n, pow_add, pow_mul, hz, one_pow, one_mul]

/-- **The symbolic FFT evaluates to the transform of the values.**  `xs`: the input expressions
(ANY expressions: `sym_fft` wraps each in a `CommonSubexpression` first), each with an exact value
in `env`; `tw e` (`e < n`): the expression standing for the `e`-th power of the root, with exact
value `ζ^e`, `ζ^n = 1`.  Then every operator application inside `fft` succeeds, and the `k`-th
tree `fft` returns evaluates (`den`) to an exact number whose value is
`∑_j ζ^(k·j) · value(x_j)`. -/
theorem symFft_den (tw : ℕ → Expr) (xs : List Expr) (ζ : ℚ) (hlen : 2 ≤ xs.length)
    (hx : ∀ x ∈ xs, ∃ q, SymHas env x q) (hζ : ζ ^ xs.length = 1)
    (htw : ∀ e < xs.length, (tw e).isBoolConst = false ∧ SymHas env (tw e) (ζ ^ e)) :
    ∃ ts : List Expr, symFft tw xs = ts.map some ∧ ts.length = xs.length ∧
      ∀ k (hk : k < ts.length), SymHas env ts[k]
        (∑ j ∈ Finset.range xs.length, ζ ^ (k * j) * (xs.map (symValue env)).getD j 0) := by
  classical
  have hn : 0 < xs.length := by omega
  -- the inputs, wrapped, as elements of the carrier
  let xA : List (SymVal env) := xs.pmap (fun x (h : ∃ q, SymHas env x q) =>
    (⟨symCse x, (symCse_closed env (Classical.choose_spec h)).1⟩ : SymVal env)) hx
  have hxA_tree : xA.map (SymVal.tree env) = symWrap (xs.map some) := by
    unfold symWrap
    simp only [List.length_map, show xs.length > 1 from hlen, if_true, xA, List.map_pmap,
      List.map_map]
    exact List.pmap_eq_map (f := fun x => some (symCse x)) hx
  have hxA_val : xA.map (SymVal.val env) = xs.map (symValue env) := by
    simp only [xA, List.map_pmap]
    rw [← List.pmap_eq_map (f := fun x => symValue env x) hx]
    refine List.pmap_congr_left xs fun x _ h _ => ?_
    simp only [SymVal.val]
    rw [(symCse_closed env (Classical.choose_spec h)).2,
      symValue_of env (Classical.choose_spec h)]
  have hxA_len : xA.length = xs.length := by simp [xA]
  -- the twiddles as elements of the carrier
  let rpA : ℕ → ℕ → SymVal env := fun m k =>
    ⟨tw ((xs.length / m * k) % xs.length),
      (htw _ (Nat.mod_lt _ hn)).1, _, (htw _ (Nat.mod_lt _ hn)).2⟩
  let R := c19FftW (SymVal.add env) (SymVal.mul env) (SymVal.zero env) rpA (SymVal.wrap env) xA
  have htree : R.map (SymVal.tree env) = symFft tw xs := by
    have := c19FftW_map (SymVal.tree env) (SymVal.add env) (SymVal.mul env)
      (SymVal.zero env) (symOp .add) (symOp .mul) (some PV.zero)
      (SymVal.tree_add env) (SymVal.tree_mul env) rfl rpA
      (fun m k => some (tw ((xs.length / m * k) % xs.length))) (fun _ _ => rfl)
      (SymVal.wrap env) symWrap (SymVal.wrap_tree env) xA
    rw [this, hxA_tree]
    rfl
  have hval : R.map (SymVal.val env) = c19Dft ζ (xs.map (symValue env)) := by
    have := c19FftW_map (SymVal.val env) (SymVal.add env) (SymVal.mul env)
      (SymVal.zero env) (· + ·) (· * ·) 0
      (SymVal.val_add env) (SymVal.val_mul env) (SymVal.val_zero env) rpA
      (fun m k => ζ ^ (xs.length / m * k))
      (fun m k => by
        show symValue env (tw ((xs.length / m * k) % xs.length)) = _
        rw [symValue_of env (htw _ (Nat.mod_lt _ hn)).2, pow_mod_of_pow_eq_one ζ _ _ hζ])
      (SymVal.wrap env) (fun v => v) (SymVal.wrap_val env) xA
    rw [this, hxA_val, c19FftW_id]
    exact c19Fft_eq_dft ζ _ _ (by simp; omega) (by simpa using hζ)
      (fun m k _ => by simp)
  refine ⟨R.map (·.1), ?_, ?_, ?_⟩
  · rw [← htree, List.map_map]; rfl
  · have := congrArg List.length hval
    simpa using this
  · intro k hk
    have hk' : k < R.length := by simpa using hk
    have hq : SymVal.val env (R[k]) = (c19Dft ζ (xs.map (symValue env)))[k]'(by
        rw [← hval]; simpa using hk') := by
      have := List.getElem_map (SymVal.val env) (l := R) (i := k) (h := by simpa using hk')
      rw [← this]
      congr 1
    have hhas := (R[k]).2.has
    simp only [List.getElem_map]
    rw [show symValue env (R[k]).1 = SymVal.val env (R[k]) from rfl, hq] at hhas
    simpa [c19Dft] using hhas

/-- the single input: `fft` returns its argument, `wrap_intermediate` leaves arrays of length
one alone -/
theorem symFft_singleton (tw : ℕ → Expr) (x : Expr) : symFft tw [x] = [some x] := rfl

/-- `Power(z, e)` evaluates to `ζ^e` when the variable `z` holds an exact number of value `ζ`
(`e ≤ 4096`: beyond that the model of Python numbers abstains on powers) -/
theorem symTw_has (z : String) (v : Value) (ζ : ℚ) (f : Bool) (hz : env.get z = some v)
    (hv : v.view = some (ζ, f)) (e : ℕ) (he : e ≤ 4096) :
    (symTw z e).isBoolConst = false ∧ SymHas env (symTw z e) (ζ ^ e) := by
  unfold symTw
  by_cases h0 : e = 0
  · subst h0
    simp only [if_true, pow_zero]
    exact ⟨rfl, by simpa using symHas_int env 1⟩
  · simp only [h0, if_false]
    refine ⟨rfl, ?_⟩
    have hden : den env (.bin .pow (.var z) (.const (.int e))) = Value.pow v (.int e) := by
      simp [den, hz, Const.den, BinOp.apply, bind, Except.bind, pure, Except.pure]
    have hbig : e ≤ bigLimit := by simp only [bigLimit]; omega
    have hge : (e : Int) ≥ 0 := Int.natCast_nonneg e
    rcases view_cases hv with ⟨n, rfl, rfl, rfl⟩ | ⟨b, rfl, rfl, rfl⟩ | ⟨rfl, rfl⟩
    · refine ⟨.int (n ^ e), false, ?_, by simp [Value.view]⟩
      rw [hden]
      simp [Value.pow, arith, Value.isInexact, Value.isSeq, Value.num?, powN, hbig, hge, pure,
        Except.pure]
    · refine ⟨.int ((if b then 1 else 0) ^ e), false, ?_, by simp [Value.view]⟩
      rw [hden]
      simp [Value.pow, arith, Value.isInexact, Value.isSeq, Value.num?, powN, hbig, hge, pure,
        Except.pure]
    · refine ⟨.frac (ζ ^ e), true, ?_, by simp [Value.view]⟩
      rw [hden]
      simp [Value.pow, arith, Value.isInexact, Value.isSeq, Value.num?, powN, fracPowInt, hbig,
        hge, pure, Except.pure]

end Main

end PV.Algo
