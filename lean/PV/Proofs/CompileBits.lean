import PV.Model.Compile
/-
  C13 — two's-complement bitwise operators on `Int` are associative (via the bit function), and
  Python's `| ^ &` on ints and bools (`bitop`) as a total, associative operation on the carrier
  `IB` (an int or a bool).
-/
namespace PV

def Int.bit' : Int → Nat → Bool
  | .ofNat m, k => m.testBit k
  | .negSucc m, k => !m.testBit k

theorem bit'_lor' (a b : Int) (k : Nat) : Int.bit' (Int.lor' a b) k = (Int.bit' a k || Int.bit' b k) := by
  cases a <;> cases b <;>
    simp only [Int.lor', Int.bit', Nat.testBit_or, Nat.testBit_and, Nat.testBit_xor] <;>
    (rename_i m n; cases m.testBit k <;> cases n.testBit k <;> rfl)

theorem bit'_land' (a b : Int) (k : Nat) : Int.bit' (Int.land' a b) k = (Int.bit' a k && Int.bit' b k) := by
  cases a <;> cases b <;>
    simp only [Int.land', Int.bit', Nat.testBit_or, Nat.testBit_and, Nat.testBit_xor] <;>
    (rename_i m n; cases m.testBit k <;> cases n.testBit k <;> rfl)

theorem bit'_xor' (a b : Int) (k : Nat) : Int.bit' (Int.xor' a b) k = (Int.bit' a k != Int.bit' b k) := by
  cases a <;> cases b <;>
    simp only [Int.xor', Int.bit', Nat.testBit_xor] <;>
    (rename_i m n; cases m.testBit k <;> cases n.testBit k <;> rfl)

theorem bit'_ext {a b : Int} (h : ∀ k, Int.bit' a k = Int.bit' b k) : a = b := by
  cases a with
  | ofNat m =>
    cases b with
    | ofNat n => exact congrArg _ (Nat.eq_of_testBit_eq h)
    | negSucc n =>
      exfalso
      have hk := h (m + n)
      have h1 : m.testBit (m + n) = false :=
        Nat.testBit_lt_two_pow (Nat.lt_of_lt_of_le Nat.lt_two_pow_self (Nat.pow_le_pow_right (by omega) (by omega)))
      have h2 : n.testBit (m + n) = false :=
        Nat.testBit_lt_two_pow (Nat.lt_of_lt_of_le Nat.lt_two_pow_self (Nat.pow_le_pow_right (by omega) (by omega)))
      simp [Int.bit', h1, h2] at hk
  | negSucc m =>
    cases b with
    | ofNat n =>
      exfalso
      have hk := h (m + n)
      have h1 : m.testBit (m + n) = false :=
        Nat.testBit_lt_two_pow (Nat.lt_of_lt_of_le Nat.lt_two_pow_self (Nat.pow_le_pow_right (by omega) (by omega)))
      have h2 : n.testBit (m + n) = false :=
        Nat.testBit_lt_two_pow (Nat.lt_of_lt_of_le Nat.lt_two_pow_self (Nat.pow_le_pow_right (by omega) (by omega)))
      simp [Int.bit', h1, h2] at hk
    | negSucc n =>
      have : m = n := Nat.eq_of_testBit_eq fun k => by
        have := h k
        simp only [Int.bit'] at this
        cases hm : m.testBit k <;> cases hn : n.testBit k <;> simp_all
      rw [this]

theorem lor'_assoc (a b c : Int) : Int.lor' (Int.lor' a b) c = Int.lor' a (Int.lor' b c) :=
  bit'_ext fun k => by simp only [bit'_lor', Bool.or_assoc]
theorem land'_assoc (a b c : Int) : Int.land' (Int.land' a b) c = Int.land' a (Int.land' b c) :=
  bit'_ext fun k => by simp only [bit'_land', Bool.and_assoc]
theorem xor'_assoc (a b c : Int) : Int.xor' (Int.xor' a b) c = Int.xor' a (Int.xor' b c) :=
  bit'_ext fun k => by
    simp only [bit'_xor']
    cases Int.bit' a k <;> cases Int.bit' b k <;> cases Int.bit' c k <;> rfl

/-! ### ints and bools under the bitwise operators -/

inductive IB where
  | i (n : Int)
  | b (v : Bool)

def IB.toInt : IB → Int
  | .i n => n
  | .b v => if v then 1 else 0

def IB.toValue : IB → Value
  | .i n => .int n
  | .b v => .bool v

def Value.ib? : Value → Option IB
  | .int n => some (.i n)
  | .bool v => some (.b v)
  | _ => Option.none

theorem IB.ib_toValue (x : IB) : x.toValue.ib? = some x := by cases x <;> rfl

theorem ib_roundtrip {v : Value} {x : IB} (h : v.ib? = some x) : x.toValue = v := by
  cases v <;> simp [Value.ib?] at h <;> subst h <;> rfl

/-- `bitop` on the carrier -/
def ibOp (fi : Int → Int → Int) (fb : Bool → Bool → Bool) : IB → IB → IB
  | .b x, .b y => .b (fb x y)
  | x, y => .i (fi x.toInt y.toInt)

theorem bitop_ib (fi : Int → Int → Int) (fb : Bool → Bool → Bool) {a b : Value} {x y : IB}
    (ha : a.ib? = some x) (hb : b.ib? = some y) :
    bitop fi fb a b = .ok (ibOp fi fb x y).toValue := by
  cases a <;> simp [Value.ib?] at ha <;> cases b <;> simp [Value.ib?] at hb <;> subst ha <;>
    subst hb <;> rfl

theorem ibOp_assoc {fi : Int → Int → Int} {fb : Bool → Bool → Bool}
    (hfi : ∀ a b c, fi (fi a b) c = fi a (fi b c))
    (hfb : ∀ a b c, fb (fb a b) c = fb a (fb b c))
    (hom : ∀ x y : Bool, (IB.b (fb x y)).toInt = fi (IB.b x).toInt (IB.b y).toInt)
    (x y z : IB) : ibOp fi fb (ibOp fi fb x y) z = ibOp fi fb x (ibOp fi fb y z) := by
  have hom' : ∀ x y : Bool, (if fb x y = true then (1 : Int) else 0)
      = fi (if x = true then 1 else 0) (if y = true then 1 else 0) :=
    fun x y => by simpa [IB.toInt] using hom x y
  cases x <;> cases y <;> cases z <;> simp only [ibOp, IB.toInt, hom', hfi, hfb]

theorem lor'_hom (x y : Bool) :
    (IB.b (x || y)).toInt = Int.lor' (IB.b x).toInt (IB.b y).toInt := by
  cases x <;> cases y <;> decide

theorem land'_hom (x y : Bool) :
    (IB.b (x && y)).toInt = Int.land' (IB.b x).toInt (IB.b y).toInt := by
  cases x <;> cases y <;> decide

theorem xor'_hom (x y : Bool) :
    (IB.b (x != y)).toInt = Int.xor' (IB.b x).toInt (IB.b y).toInt := by
  cases x <;> cases y <;> decide

theorem bor_ib {a b : Value} {x y : IB} (ha : a.ib? = some x) (hb : b.ib? = some y) :
    NaryOp.apply .bor a b = .ok (ibOp Int.lor' (· || ·) x y).toValue := bitop_ib _ _ ha hb
theorem band_ib {a b : Value} {x y : IB} (ha : a.ib? = some x) (hb : b.ib? = some y) :
    NaryOp.apply .band a b = .ok (ibOp Int.land' (· && ·) x y).toValue := bitop_ib _ _ ha hb
theorem bxor_ib {a b : Value} {x y : IB} (ha : a.ib? = some x) (hb : b.ib? = some y) :
    NaryOp.apply .bxor a b = .ok (ibOp Int.xor' (fun x y => x != y) x y).toValue :=
  bitop_ib _ _ ha hb

theorem ibOr_assoc (x y z : IB) : ibOp Int.lor' (· || ·) (ibOp Int.lor' (· || ·) x y) z
    = ibOp Int.lor' (· || ·) x (ibOp Int.lor' (· || ·) y z) :=
  ibOp_assoc lor'_assoc (fun a b c => Bool.or_assoc a b c) lor'_hom x y z
theorem ibAnd_assoc (x y z : IB) : ibOp Int.land' (· && ·) (ibOp Int.land' (· && ·) x y) z
    = ibOp Int.land' (· && ·) x (ibOp Int.land' (· && ·) y z) :=
  ibOp_assoc land'_assoc (fun a b c => Bool.and_assoc a b c) land'_hom x y z
theorem ibXor_assoc (x y z : IB) :
    ibOp Int.xor' (fun x y => x != y) (ibOp Int.xor' (fun x y => x != y) x y) z
    = ibOp Int.xor' (fun x y => x != y) x (ibOp Int.xor' (fun x y => x != y) y z) :=
  ibOp_assoc xor'_assoc (fun a b c => by cases a <;> cases b <;> cases c <;> rfl) xor'_hom x y z

end PV
