import PV.Model.Coeff
import PV.Proofs.OpsSound
import PV.Proofs.Simple
import PV.Proofs.PyEqEquiv
import Mathlib.Tactic.Ring
import Mathlib.Tactic.FieldSimp
/-
  C15 helper lemmas: the dictionary computed by `coeffs` evaluates (entry by entry, through `den`)
  to the value of the input expression.
-/
namespace PV.Coeff
open PV

variable {env : Env}

/-! ### exact numeric value of an expression -/

/-- the rational value of `e` when `den env e` is an exact number (int, bool, Fraction) -/
def nv (env : Env) (e : Expr) : Option Rat :=
  match den env e with
  | .ok v => match v.view with
    | some (q, _) => some q
    | none => none
  | .error _ => none

theorem nv_iff {e : Expr} {q : Rat} :
    nv env e = some q ↔ ∃ v f, den env e = .ok v ∧ v.view = some (q, f) := by
  unfold nv
  constructor
  · intro h
    split at h
    · rename_i v hd
      split at h
      · rename_i q' f' hv
        simp only [Option.some.injEq] at h
        subst h
        exact ⟨v, f', hd, hv⟩
      · cases h
    · cases h
  · rintro ⟨v, f, hd, hv⟩
    rw [hd]
    simp [hv]

theorem nv_one : nv env one = some 1 := by
  apply nv_iff.2
  exact ⟨.int 1, false, rfl, by simp [Value.view]⟩

theorem nv_int (n : Int) : nv env (.const (.int n)) = some (n : Rat) :=
  nv_iff.2 ⟨.int n, false, rfl, rfl⟩

def nvL (env : Env) : List Expr → Option (List Rat)
  | [] => some []
  | c :: cs => match nv env c, nvL env cs with
    | some q, some qs => some (q :: qs)
    | _, _ => none

def qsum : List Rat → Rat
  | [] => 0
  | a :: as => a + qsum as

def qprod : List Rat → Rat
  | [] => 1
  | a :: as => a * qprod as

theorem listView_nvL {g : Rat → Rat → Rat} {z : Rat} : ∀ (cs : List Expr) (q : Rat) (f : Bool),
    listView env g z cs = some (q, f) → ∃ qs, nvL env cs = some qs ∧ q = qs.foldr g z
  | [], q, f, h => by
    simp only [listView, Option.some.injEq, Prod.mk.injEq] at h
    exact ⟨[], rfl, by simp [h.1]⟩
  | c :: cs, q, f, h => by
    simp only [listView] at h
    cases hc : den env c with
    | error e => rw [hc] at h; cases h
    | ok vc =>
      rw [hc] at h
      simp only at h
      cases hvc : vc.view with
      | none => rw [hvc] at h; cases h
      | some pr =>
        obtain ⟨qc, fc⟩ := pr
        cases hl : listView env g z cs with
        | none => rw [hvc, hl] at h; cases h
        | some pr' =>
          obtain ⟨qs', fs'⟩ := pr'
          rw [hvc, hl] at h
          simp only [Option.some.injEq, Prod.mk.injEq] at h
          obtain ⟨qs, hqs, rfl⟩ := listView_nvL cs qs' fs' hl
          have hn : nv env c = some qc := nv_iff.2 ⟨vc, fc, hc, hvc⟩
          exact ⟨qc :: qs, by simp [nvL, hn, hqs], by simp [h.1]⟩

theorem nvL_listView {g : Rat → Rat → Rat} {z : Rat} : ∀ (cs : List Expr) (qs : List Rat),
    nvL env cs = some qs → ∃ f, listView env g z cs = some (qs.foldr g z, f)
  | [], qs, h => by
    simp only [nvL, Option.some.injEq] at h
    subst h
    exact ⟨false, rfl⟩
  | c :: cs, qs, h => by
    simp only [nvL] at h
    cases hn : nv env c with
    | none => rw [hn] at h; cases h
    | some qc =>
      cases hl : nvL env cs with
      | none => rw [hn, hl] at h; cases h
      | some qs' =>
        rw [hn, hl] at h
        simp only [Option.some.injEq] at h
        subst h
        obtain ⟨v, fc, hd, hv⟩ := nv_iff.1 hn
        obtain ⟨f, hf⟩ := nvL_listView (g := g) (z := z) cs qs' hl
        exact ⟨fc || f, by simp [listView, hd, hv, hf]⟩

theorem foldr_add (qs : List Rat) : qs.foldr (· + ·) 0 = qsum qs := by
  induction qs with
  | nil => rfl
  | cons a as ih => simp [qsum, ih]

theorem foldr_mul (qs : List Rat) : qs.foldr (· * ·) 1 = qprod qs := by
  induction qs with
  | nil => rfl
  | cons a as ih => simp [qprod, ih]

theorem nv_sum {cs : List Expr} {q : Rat} (h : nv env (.nary .sum cs) = some q) :
    ∃ qs, nvL env cs = some qs ∧ q = qsum qs := by
  obtain ⟨v, f, hd, hv⟩ := nv_iff.1 h
  obtain ⟨qs, h1, h2⟩ := listView_nvL cs q f (sum_children_view hd hv)
  exact ⟨qs, h1, by rw [h2, foldr_add]⟩

theorem nv_sum_of {cs : List Expr} {qs : List Rat} (h : nvL env cs = some qs) :
    nv env (.nary .sum cs) = some (qsum qs) := by
  obtain ⟨f, hf⟩ := nvL_listView (g := (· + ·)) (z := 0) cs qs h
  obtain ⟨r, hr, hv⟩ := sum_den_of_view hf
  rw [foldr_add] at hv
  exact nv_iff.2 ⟨r, f, hr, hv⟩

theorem nv_prod {cs : List Expr} {q : Rat} (h : nv env (.nary .prod cs) = some q) :
    ∃ qs, nvL env cs = some qs ∧ q = qprod qs := by
  obtain ⟨v, f, hd, hv⟩ := nv_iff.1 h
  obtain ⟨qs, h1, h2⟩ := listView_nvL cs q f (prod_children_view hd hv)
  exact ⟨qs, h1, by rw [h2, foldr_mul]⟩

theorem nv_prod_of {cs : List Expr} {qs : List Rat} (h : nvL env cs = some qs) :
    nv env (.nary .prod cs) = some (qprod qs) := by
  obtain ⟨f, hf⟩ := nvL_listView (g := (· * ·)) (z := 1) cs qs h
  obtain ⟨r, hr, hv⟩ := prod_den_of_view hf
  rw [foldr_mul] at hv
  exact nv_iff.2 ⟨r, f, hr, hv⟩

/-- exact quotient: both operands are exact, the divisor is not zero -/
theorem nv_quot {a b : Expr} {q : Rat} (h : nv env (.bin .quot a b) = some q) :
    ∃ qa qb, nv env a = some qa ∧ nv env b = some qb ∧ qb ≠ 0 ∧ q = qa / qb := by
  obtain ⟨v, f, hd, hv⟩ := nv_iff.1 h
  obtain ⟨x, y, hx, hy, hxy⟩ := bin_den_ok hd
  simp only [BinOp.apply] at hxy
  obtain ⟨qa, fa, qb, fb, hva, hvb, hres⟩ := div_view hxy
  have hq : v.view = some (qa / qb, true) := by
    rcases hres with rfl | hres
    · simp [Value.view] at hv
    · exact hres
  obtain ⟨rfl, _⟩ := view_inj hv hq
  refine ⟨qa, qb, nv_iff.2 ⟨x, fa, hx, hva⟩, nv_iff.2 ⟨y, fb, hy, hvb⟩, ?_, rfl⟩
  -- a zero divisor raises
  intro h0
  subst h0
  obtain ⟨nx, ny, hnx, hny, hf, _, hyv⟩ := arith_ok_view hxy
  rw [hvb] at hyv
  simp only [Option.some.injEq, Prod.mk.injEq] at hyv
  have hy0 : ny.toRat = 0 := hyv.1.symm
  cases nx <;> cases ny <;> simp only [divN, Num.toRat] at hf hy0
  · rename_i a' b'
    have : b' = 0 := by exact_mod_cast hy0
    simp [this] at hf
  all_goals simp [hy0, Num.toRat] at hf

/-! ### arithmetic on stored coefficients -/

theorem liftOp_ok {r : OpR} {t : Expr} (h : liftOp r = .ok t) : r = .ok t := by
  cases r with
  | ok e => simpa [liftOp] using h
  | error err => cases err <;> simp [liftOp] at h

theorem constBin_nv {o : PyBinOp} {g : Rat → Rat → Rat}
    (hspec : ∀ {va vb : Value} {qa qb : Rat} {fa fb : Bool}, va.view = some (qa, fa) →
      vb.view = some (qb, fb) → ∃ r, o.onValues va vb = .ok r ∧ r.view = some (g qa qb, fa || fb))
    {x y : Const} {t : Expr} {qa qb : Rat} (h : constBin o x y = .ok t)
    (ha : nv env (.const x) = some qa) (hb : nv env (.const y) = some qb) :
    nv env t = some (g qa qb) := by
  obtain ⟨va, fa, hda, hva⟩ := nv_iff.1 ha
  obtain ⟨vb, fb, hdb, hvb⟩ := nv_iff.1 hb
  unfold constBin at h
  split at h
  · rename_i vx vy hx hy
    have h1 := toValue_den (env := env) hx
    have h2 := toValue_den (env := env) hy
    rw [hda] at h1; rw [hdb] at h2
    simp only [Except.ok.injEq] at h1 h2
    subst h1; subst h2
    obtain ⟨r, hr, hrv⟩ := hspec hva hvb
    rw [hr] at h
    simp only at h
    split at h
    · rename_i c hc
      simp only [pure, Except.pure, Except.ok.injEq] at h
      subst h
      exact nv_iff.2 ⟨r, _, (toConst_den hc).1, hrv⟩
    · cases h
  · cases h

theorem pyBin_nv {o : PyBinOp} {g : Rat → Rat → Rat}
    (hspec : ∀ {va vb : Value} {qa qb : Rat} {fa fb : Bool}, va.view = some (qa, fa) →
      vb.view = some (qb, fb) → ∃ r, o.onValues va vb = .ok r ∧ r.view = some (g qa qb, fa || fb))
    (hside : ∀ a b va vb v, sideCond o a b va vb v = true)
    {a b t : Expr} {qa qb : Rat} (h : pyBin o a b = .ok t)
    (ha : nv env a = some qa) (hb : nv env b = some qb) : nv env t = some (g qa qb) := by
  unfold pyBin at h
  split at h
  · exact constBin_nv hspec (liftOp_ok h) ha hb
  · obtain ⟨va, fa, hda, hva⟩ := nv_iff.1 ha
    obtain ⟨vb, fb, hdb, hvb⟩ := nv_iff.1 hb
    obtain ⟨r, hr, hrv⟩ := hspec hva hvb
    obtain ⟨w, hw, href⟩ := bin_sound (liftOp_ok h) hda hdb hr (hside _ _ _ _ _)
    obtain ⟨fw, hwv, _⟩ := href.view_right hrv
    exact nv_iff.2 ⟨w, fw, hw, hwv⟩

theorem pyAdd_nv {a b t : Expr} {qa qb : Rat} (h : pyBin .add a b = .ok t)
    (ha : nv env a = some qa) (hb : nv env b = some qb) : nv env t = some (qa + qb) :=
  pyBin_nv (o := .add) (g := (· + ·)) (fun h1 h2 => add_spec h1 h2) (fun _ _ _ _ _ => rfl) h ha hb

theorem pyMul_nv {a b t : Expr} {qa qb : Rat} (h : pyBin .mul a b = .ok t)
    (ha : nv env a = some qa) (hb : nv env b = some qb) : nv env t = some (qa * qb) :=
  pyBin_nv (o := .mul) (g := (· * ·)) (fun h1 h2 => mul_spec h1 h2) (fun _ _ _ _ _ => rfl) h ha hb

/-! ### the value of a dictionary -/

/-- `Σ value(coefficient) * value(key)`, defined when every coefficient and key is exact -/
def dictNV (env : Env) : Dict → Option Rat
  | [] => some 0
  | (k, c) :: rest => match nv env c, nv env k, dictNV env rest with
    | some qc, some qk, some qr => some (qc * qk + qr)
    | _, _, _ => none

def dictNVL (env : Env) : List Dict → Option (List Rat)
  | [] => some []
  | d :: ds => match dictNV env d, dictNVL env ds with
    | some q, some qs => some (q :: qs)
    | _, _ => none

theorem dictNV_cons {k c : Expr} {rest : Dict} {q : Rat} (h : dictNV env ((k, c) :: rest) = some q) :
    ∃ qc qk qr, nv env c = some qc ∧ nv env k = some qk ∧ dictNV env rest = some qr ∧
      q = qc * qk + qr := by
  simp only [dictNV] at h
  cases hc : nv env c with
  | none => rw [hc] at h; cases h
  | some qc =>
    cases hk : nv env k with
    | none => rw [hc, hk] at h; cases h
    | some qk =>
      cases hr : dictNV env rest with
      | none => rw [hc, hk, hr] at h; cases h
      | some qr =>
        rw [hc, hk, hr] at h
        simp only [Option.some.injEq] at h
        exact ⟨qc, qk, qr, rfl, rfl, rfl, h.symm⟩

theorem dictNV_cons_of {k c : Expr} {rest : Dict} {qc qk qr : Rat} (hc : nv env c = some qc)
    (hk : nv env k = some qk) (hr : dictNV env rest = some qr) :
    dictNV env ((k, c) :: rest) = some (qc * qk + qr) := by
  simp [dictNV, hc, hk, hr]

theorem dictNVL_cons {d : Dict} {ds : List Dict} {qs : List Rat}
    (h : dictNVL env (d :: ds) = some qs) :
    ∃ q qs', dictNV env d = some q ∧ dictNVL env ds = some qs' ∧ qs = q :: qs' := by
  simp only [dictNVL] at h
  cases hd : dictNV env d with
  | none => rw [hd] at h; cases h
  | some q =>
    cases hds : dictNVL env ds with
    | none => rw [hd, hds] at h; cases h
    | some qs' =>
      rw [hd, hds] at h
      simp only [Option.some.injEq] at h
      exact ⟨q, qs', rfl, rfl, h.symm⟩

theorem nvL_cons {c : Expr} {cs : List Expr} {qs : List Rat} (h : nvL env (c :: cs) = some qs) :
    ∃ q qs', nv env c = some q ∧ nvL env cs = some qs' ∧ qs = q :: qs' := by
  simp only [nvL] at h
  cases hd : nv env c with
  | none => rw [hd] at h; cases h
  | some q =>
    cases hds : nvL env cs with
    | none => rw [hd, hds] at h; cases h
    | some qs' =>
      rw [hd, hds] at h
      simp only [Option.some.injEq] at h
      exact ⟨q, qs', rfl, rfl, h.symm⟩

/-- the reconstruction `Σ c·k` as a tree evaluates to the value of the dictionary -/
theorem recon_nv : ∀ (d : Dict) (q : Rat), dictNV env d = some q →
    ∃ qs, nvL env (d.map fun kc => .nary .prod [kc.2, kc.1]) = some qs ∧ qsum qs = q
  | [], q, h => by
    simp only [dictNV, Option.some.injEq] at h
    exact ⟨[], rfl, by simp [qsum, h]⟩
  | (k, c) :: rest, q, h => by
    obtain ⟨qc, qk, qr, hc, hk, hr, rfl⟩ := dictNV_cons h
    obtain ⟨qs, hqs, hsum⟩ := recon_nv rest qr hr
    have hterm : nv env (.nary .prod [c, k]) = some (qc * qk) := by
      have : nvL env [c, k] = some [qc, qk] := by simp [nvL, hc, hk]
      rw [nv_prod_of this]
      simp [qprod]
    exact ⟨(qc * qk) :: qs, by simp [nvL, hterm, hqs], by simp [qsum, hsum]⟩

theorem recon_den {d : Dict} {q : Rat} (h : dictNV env d = some q) : nv env (recon d) = some q := by
  obtain ⟨qs, hqs, hsum⟩ := recon_nv d q h
  unfold recon
  rw [nv_sum_of hqs, hsum]

/-! ### keys -/

def KeysSimple (d : Dict) : Prop := ∀ kc ∈ d, kc.1.simple = true

theorem one_simple : one.simple = true := rfl

theorem key_eq_of_pyEq {k k' : Expr} (h1 : k'.simple = true) (h2 : k.simple = true)
    (h : k'.pyEq k = true) : k' = k := pyEq_eq_of_simple k' k h1 h2 h

/-! ### `map_sum` -/

theorem addTo_nv : ∀ (d : Dict) (k c : Expr) (d' : Dict) (q0 qc qk : Rat), KeysSimple d →
    k.simple = true → d.addTo k c = .ok d' → dictNV env d = some q0 → nv env c = some qc →
    nv env k = some qk → dictNV env d' = some (q0 + qc * qk) ∧ KeysSimple d'
  | [], k, c, d', q0, qc, qk, _, hk, h, h0, hc, hkv => by
    simp only [Dict.addTo, pure, Except.pure, Except.ok.injEq] at h
    subst h
    simp only [dictNV, Option.some.injEq] at h0
    subst h0
    refine ⟨by rw [dictNV_cons_of hc hkv rfl]; congr 1; ring, ?_⟩
    intro kc hkc
    simp only [List.mem_singleton] at hkc
    subst hkc; exact hk
  | (k', c') :: rest, k, c, d', q0, qc, qk, hks, hk, h, h0, hc, hkv => by
    obtain ⟨qc', qk', qr, hc', hk', hr, rfl⟩ := dictNV_cons h0
    have hk's : k'.simple = true := hks (k', c') (by simp)
    have hrs : KeysSimple rest := fun kc hkc => hks kc (by simp [hkc])
    simp only [Dict.addTo] at h
    split at h
    · rename_i heq
      have : k' = k := key_eq_of_pyEq hk's hk heq
      subst this
      simp only [bind, Except.bind] at h
      cases hs : pyBin .add c' c with
      | error e => rw [hs] at h; cases h
      | ok s =>
        rw [hs] at h
        simp only [pure, Except.pure, Except.ok.injEq] at h
        subst h
        have hsv := pyAdd_nv hs hc' hc
        rw [hk'] at hkv
        simp only [Option.some.injEq] at hkv
        subst hkv
        refine ⟨by rw [dictNV_cons_of hsv hk' hr]; congr 1; ring, ?_⟩
        intro kc hkc
        simp only [List.mem_cons] at hkc
        rcases hkc with rfl | hkc
        · exact hk
        · exact hrs kc hkc
    · simp only [bind, Except.bind] at h
      cases hr' : Dict.addTo rest k c with
      | error e => rw [hr'] at h; cases h
      | ok r =>
        rw [hr'] at h
        simp only [pure, Except.pure, Except.ok.injEq] at h
        subst h
        obtain ⟨ih1, ih2⟩ := addTo_nv rest k c r qr qc qk hrs hk hr' hr hc hkv
        refine ⟨by rw [dictNV_cons_of hc' hk' ih1]; congr 1; ring, ?_⟩
        intro kc hkc
        simp only [List.mem_cons] at hkc
        rcases hkc with rfl | hkc
        · exact hk's
        · exact ih2 kc hkc

theorem mergeInto_nv : ∀ (d result d' : Dict) (q0 qd : Rat), KeysSimple result → KeysSimple d →
    mergeInto result d = .ok d' → dictNV env result = some q0 → dictNV env d = some qd →
    dictNV env d' = some (q0 + qd) ∧ KeysSimple d'
  | [], result, d', q0, qd, hr, _, h, h0, hd => by
    simp only [mergeInto, pure, Except.pure, Except.ok.injEq] at h
    subst h
    simp only [dictNV, Option.some.injEq] at hd
    subst hd
    exact ⟨by rw [h0, add_zero], hr⟩
  | (k, c) :: rest, result, d', q0, qd, hr, hds, h, h0, hd => by
    obtain ⟨qc, qk, qr, hc, hk, hrest, rfl⟩ := dictNV_cons hd
    simp only [mergeInto, bind, Except.bind] at h
    cases ha : Dict.addTo result k c with
    | error e => rw [ha] at h; cases h
    | ok r =>
      rw [ha] at h
      simp only at h
      obtain ⟨h1, h2⟩ := addTo_nv result k c r q0 qc qk hr (hds (k, c) (by simp)) ha h0 hc hk
      obtain ⟨h3, h4⟩ := mergeInto_nv rest r d' _ qr h2 (fun kc hkc => hds kc (by simp [hkc])) h h1 hrest
      exact ⟨by rw [h3]; congr 1; ring, h4⟩

theorem sumDicts_nv : ∀ (ds : List Dict) (result d' : Dict) (q0 : Rat) (qs : List Rat),
    KeysSimple result → (∀ d ∈ ds, KeysSimple d) → sumDicts result ds = .ok d' →
    dictNV env result = some q0 → dictNVL env ds = some qs →
    dictNV env d' = some (q0 + qsum qs) ∧ KeysSimple d'
  | [], result, d', q0, qs, hr, _, h, h0, hqs => by
    simp only [sumDicts, pure, Except.pure, Except.ok.injEq] at h
    subst h
    simp only [dictNVL, Option.some.injEq] at hqs
    subst hqs
    exact ⟨by simp [qsum, h0], hr⟩
  | d :: ds, result, d', q0, qs, hr, hds, h, h0, hqs => by
    obtain ⟨q, qs', hd, hds', rfl⟩ := dictNVL_cons hqs
    simp only [sumDicts, bind, Except.bind] at h
    cases hm : mergeInto result d with
    | error e => rw [hm] at h; cases h
    | ok r =>
      rw [hm] at h
      simp only at h
      obtain ⟨h1, h2⟩ := mergeInto_nv d result r q0 q hr (hds d (by simp)) hm h0 hd
      obtain ⟨h3, h4⟩ := sumDicts_nv ds r d' _ qs' h2 (fun d' hd' => hds d' (by simp [hd'])) h h1 hds'
      exact ⟨by rw [h3]; simp only [qsum]; congr 1; ring, h4⟩

/-! ### `map_product` -/

theorem splitVars_nv : ∀ (ds : List Dict) (v : Option Dict) (os : List Dict) (qs : List Rat),
    splitVars ds = .ok (v, os) → dictNVL env ds = some qs →
    ∃ qv qos, (match v with | some d => dictNV env d = some qv | none => qv = 1) ∧
      dictNVL env os = some qos ∧ qprod qs = qv * qprod qos ∧
      (∀ d ∈ os, d ∈ ds) ∧ (∀ d, v = some d → d ∈ ds)
  | [], v, os, qs, h, hqs => by
    simp only [splitVars, pure, Except.pure, Except.ok.injEq, Prod.mk.injEq] at h
    obtain ⟨rfl, rfl⟩ := h
    simp only [dictNVL, Option.some.injEq] at hqs
    subst hqs
    exact ⟨1, [], rfl, rfl, by simp [qprod], by simp, by simp⟩
  | d :: ds, v, os, qs, h, hqs => by
    obtain ⟨q, qs', hd, hds', rfl⟩ := dictNVL_cons hqs
    simp only [splitVars, bind, Except.bind] at h
    cases hsp : splitVars ds with
    | error e => rw [hsp] at h; cases h
    | ok pr =>
      obtain ⟨v', os'⟩ := pr
      rw [hsp] at h
      simp only at h
      obtain ⟨qv, qos, hv, hos, hprod, hmem1, hmem2⟩ := splitVars_nv ds v' os' qs' hsp hds'
      split at h
      · split at h
        · cases h
        · simp only [pure, Except.pure, Except.ok.injEq, Prod.mk.injEq] at h
          obtain ⟨rfl, rfl⟩ := h
          simp only at hv
          subst hv
          refine ⟨q, qos, hd, hos, by simp only [qprod]; rw [hprod]; ring, ?_, ?_⟩
          · intro d' hd'; exact List.mem_cons_of_mem _ (hmem1 d' hd')
          · intro d' hd'; simp only [Option.some.injEq] at hd'; subst hd'; simp
      · simp only [pure, Except.pure, Except.ok.injEq, Prod.mk.injEq] at h
        obtain ⟨rfl, rfl⟩ := h
        refine ⟨qv, q :: qos, hv, by simp [dictNVL, hd, hos], by simp only [qprod]; rw [hprod]; ring, ?_, ?_⟩
        · intro d' hd'
          simp only [List.mem_cons] at hd'
          rcases hd' with rfl | hd'
          · simp
          · exact List.mem_cons_of_mem _ (hmem1 d' hd')
        · intro d' hd'; exact List.mem_cons_of_mem _ (hmem2 d' hd')

theorem find_one_single {d : Dict} {c : Expr} (hks : KeysSimple d) (hl : d.length = 1)
    (hf : d.find one = some c) : d = [(one, c)] := by
  match d, hl with
  | [(k, c')], _ =>
    simp only [Dict.find] at hf
    split at hf
    · rename_i heq
      simp only [Option.some.injEq] at hf
      subst hf
      have : k = one := key_eq_of_pyEq (hks (k, c') (by simp)) one_simple heq
      rw [this]
    · cases hf

theorem otherCoeffs_nv : ∀ (os : List Dict) (acc other : Expr) (qa : Rat) (qos : List Rat),
    (∀ d ∈ os, KeysSimple d) → otherCoeffs acc os = .ok other → nv env acc = some qa →
    dictNVL env os = some qos → nv env other = some (qa * qprod qos)
  | [], acc, other, qa, qos, _, h, ha, hq => by
    simp only [otherCoeffs, pure, Except.pure, Except.ok.injEq] at h
    subst h
    simp only [dictNVL, Option.some.injEq] at hq
    subst hq
    simp [qprod, ha]
  | d :: os, acc, other, qa, qos, hks, h, ha, hq => by
    obtain ⟨q, qs', hd, hds', rfl⟩ := dictNVL_cons hq
    simp only [otherCoeffs] at h
    split at h
    · cases h
    · rename_i hlen
      split at h
      · cases h
      · rename_i c hfind
        have hl : d.length = 1 := by simpa using hlen
        have hdeq := find_one_single (hks d (by simp)) hl hfind
        subst hdeq
        obtain ⟨qc, qk, qr, hc, hk, hr, rfl⟩ := dictNV_cons hd
        rw [nv_one] at hk
        simp only [Option.some.injEq] at hk
        subst hk
        simp only [dictNV, Option.some.injEq] at hr
        subst hr
        simp only [bind, Except.bind] at h
        cases hm : pyBin .mul acc c with
        | error e => rw [hm] at h; cases h
        | ok acc' =>
          rw [hm] at h
          simp only at h
          have := otherCoeffs_nv os acc' other _ qs' (fun d' hd' => hks d' (by simp [hd'])) h
            (pyMul_nv hm ha hc) hds'
          rw [this]
          simp only [qprod]
          congr 1; ring

theorem scaleLeft_nv : ∀ (d d' : Dict) (other : Expr) (qo qd : Rat), scaleLeft other d = .ok d' →
    nv env other = some qo → dictNV env d = some qd → dictNV env d' = some (qo * qd)
  | [], d', other, qo, qd, h, _, hd => by
    simp only [scaleLeft, pure, Except.pure, Except.ok.injEq] at h
    subst h
    simp only [dictNV, Option.some.injEq] at hd
    subst hd
    simp [dictNV]
  | (k, c) :: rest, d', other, qo, qd, h, ho, hd => by
    obtain ⟨qc, qk, qr, hc, hk, hr, rfl⟩ := dictNV_cons hd
    simp only [scaleLeft, bind, Except.bind] at h
    cases hm : pyBin .mul other c with
    | error e => rw [hm] at h; cases h
    | ok c' =>
      rw [hm] at h
      simp only at h
      cases hrest : scaleLeft other rest with
      | error e => rw [hrest] at h; cases h
      | ok r =>
        rw [hrest] at h
        simp only [pure, Except.pure, Except.ok.injEq] at h
        subst h
        rw [dictNV_cons_of (pyMul_nv hm ho hc) hk (scaleLeft_nv rest r other qo qr hrest ho hr)]
        congr 1; ring

theorem scaleRight_nv : ∀ (d d' : Dict) (qe : Expr) (qo qd : Rat), scaleRight qe d = .ok d' →
    nv env qe = some qo → dictNV env d = some qd → dictNV env d' = some (qd * qo)
  | [], d', qe, qo, qd, h, _, hd => by
    simp only [scaleRight, pure, Except.pure, Except.ok.injEq] at h
    subst h
    simp only [dictNV, Option.some.injEq] at hd
    subst hd
    simp [dictNV]
  | (k, c) :: rest, d', qe, qo, qd, h, ho, hd => by
    obtain ⟨qc, qk, qr, hc, hk, hr, rfl⟩ := dictNV_cons hd
    simp only [scaleRight, bind, Except.bind] at h
    cases hm : pyBin .mul c qe with
    | error e => rw [hm] at h; cases h
    | ok c' =>
      rw [hm] at h
      simp only at h
      cases hrest : scaleRight qe rest with
      | error e => rw [hrest] at h; cases h
      | ok r =>
        rw [hrest] at h
        simp only [pure, Except.pure, Except.ok.injEq] at h
        subst h
        rw [dictNV_cons_of (pyMul_nv hm hc ho) hk (scaleRight_nv rest r qe qo qr hrest ho hr)]
        congr 1; ring

theorem scaleLeft_keys : ∀ (d d' : Dict) (other : Expr), scaleLeft other d = .ok d' →
    d'.map Prod.fst = d.map Prod.fst
  | [], d', other, h => by
    simp only [scaleLeft, pure, Except.pure, Except.ok.injEq] at h
    subst h; rfl
  | (k, c) :: rest, d', other, h => by
    simp only [scaleLeft, bind, Except.bind] at h
    cases hm : pyBin .mul other c with
    | error e => rw [hm] at h; cases h
    | ok c' =>
      rw [hm] at h
      simp only at h
      cases hrest : scaleLeft other rest with
      | error e => rw [hrest] at h; cases h
      | ok r =>
        rw [hrest] at h
        simp only [pure, Except.pure, Except.ok.injEq] at h
        subst h
        simp [scaleLeft_keys rest r other hrest]

theorem scaleRight_keys : ∀ (d d' : Dict) (qe : Expr), scaleRight qe d = .ok d' →
    d'.map Prod.fst = d.map Prod.fst
  | [], d', qe, h => by
    simp only [scaleRight, pure, Except.pure, Except.ok.injEq] at h
    subst h; rfl
  | (k, c) :: rest, d', qe, h => by
    simp only [scaleRight, bind, Except.bind] at h
    cases hm : pyBin .mul c qe with
    | error e => rw [hm] at h; cases h
    | ok c' =>
      rw [hm] at h
      simp only at h
      cases hrest : scaleRight qe rest with
      | error e => rw [hrest] at h; cases h
      | ok r =>
        rw [hrest] at h
        simp only [pure, Except.pure, Except.ok.injEq] at h
        subst h
        simp [scaleRight_keys rest r qe hrest]

theorem keysSimple_of_keys {d d' : Dict} (h : d'.map Prod.fst = d.map Prod.fst)
    (hd : KeysSimple d) : KeysSimple d' := by
  intro kc hkc
  have : kc.1 ∈ d'.map Prod.fst := List.mem_map_of_mem hkc
  rw [h] at this
  obtain ⟨kc', hkc', heq⟩ := List.mem_map.1 this
  rw [← heq]; exact hd kc' hkc'

/-! ### inversion of `coeffs` -/

def _root_.PV.Expr.isAlgLeaf : Expr → Bool
  | .var _ | .subscript _ _ | .call _ _ | .callKw _ _ _ _ | .lookup _ _ | .nan | .wildcard
  | .dotWild _ | .starWild _ | .funcSym => true
  | _ => false

def _root_.PV.Expr.isNumConst : Expr → Bool
  | .const (.int _) | .const (.bool _) | .const (.flt ..) => true
  | _ => false

/-- the shapes of a successful call of the collector -/
inductive CView (tg : Option (List String)) : Expr → Dict → Prop
  | leaf (e : Expr) : Expr.isAlgLeaf e = true → CView tg e (leafDict tg e)
  | num (e : Expr) : Expr.isNumConst e = true → CView tg e [(one, e)]
  | sum (cs : List Expr) (ds : List Dict) (d : Dict) : coeffsL tg cs = .ok ds →
      sumDicts [] ds = .ok d → CView tg (.nary .sum cs) d
  | prodConst (cs : List Expr) (ds os : List Dict) (other : Expr) : coeffsL tg cs = .ok ds →
      splitVars ds = .ok (none, os) → otherCoeffs one os = .ok other →
      CView tg (.nary .prod cs) [(one, other)]
  | prodVar (cs : List Expr) (ds os : List Dict) (dv d : Dict) (other : Expr) :
      coeffsL tg cs = .ok ds → splitVars ds = .ok (some dv, os) → otherCoeffs one os = .ok other →
      scaleLeft other dv = .ok d → CView tg (.nary .prod cs) d
  | quot (a b : Expr) (dn dd d : Dict) (val : Expr) : coeffs tg a = .ok dn → coeffs tg b = .ok dd →
      constOnly dd = some val → scaleRight (.bin .quot one val) dn = .ok d →
      CView tg (.bin .quot a b) d
  | pow (a b : Expr) (db de : Dict) (vb ve : Expr) : coeffs tg a = .ok db → coeffs tg b = .ok de →
      constOnly de = some ve → constOnly db = some vb → CView tg (.bin .pow a b) [(one, .bin .pow a b)]

theorem leafR_ok {tg : Option (List String)} {e : Expr} {d : Dict} (h : leafR tg e = .ok d) :
    d = leafDict tg e := by
  unfold leafR at h
  split at h
  · cases h
  · simpa [pure, Except.pure] using h.symm

theorem coeffs_view (tg : Option (List String)) (e : Expr) (d : Dict) (h : coeffs tg e = .ok d) :
    CView tg e d := by
  cases e with
  | const c =>
    cases c <;> simp only [coeffs, pure, Except.pure, Except.ok.injEq, throw, throwThe,
      MonadExceptOf.throw, reduceCtorEq] at h
    all_goals (subst h; exact CView.num _ rfl)
  | var n =>
    simp only [coeffs] at h; rw [leafR_ok h]; exact CView.leaf _ rfl
  | subscript a i =>
    simp only [coeffs] at h; rw [leafR_ok h]; exact CView.leaf _ rfl
  | call f as =>
    simp only [coeffs] at h; rw [leafR_ok h]; exact CView.leaf _ rfl
  | callKw f as ns vs =>
    simp only [coeffs] at h; rw [leafR_ok h]; exact CView.leaf _ rfl
  | lookup a n =>
    simp only [coeffs] at h; rw [leafR_ok h]; exact CView.leaf _ rfl
  | nan =>
    simp only [coeffs] at h; rw [leafR_ok h]; exact CView.leaf _ rfl
  | wildcard =>
    simp only [coeffs] at h; rw [leafR_ok h]; exact CView.leaf _ rfl
  | dotWild n =>
    simp only [coeffs] at h; rw [leafR_ok h]; exact CView.leaf _ rfl
  | starWild n =>
    simp only [coeffs] at h; rw [leafR_ok h]; exact CView.leaf _ rfl
  | funcSym =>
    simp only [coeffs] at h; rw [leafR_ok h]; exact CView.leaf _ rfl
  | nary o cs =>
    cases o <;> simp only [coeffs, throw, throwThe, MonadExceptOf.throw, reduceCtorEq] at h
    · -- sum
      simp only [bind, Except.bind] at h
      cases hds : coeffsL tg cs with
      | error err => rw [hds] at h; cases h
      | ok ds => rw [hds] at h; exact CView.sum cs ds d hds h
    · -- product
      simp only [bind, Except.bind] at h
      cases hds : coeffsL tg cs with
      | error err => rw [hds] at h; cases h
      | ok ds =>
        rw [hds] at h
        simp only at h
        cases hsp : splitVars ds with
        | error err => rw [hsp] at h; cases h
        | ok pr =>
          obtain ⟨v, os⟩ := pr
          rw [hsp] at h
          simp only at h
          cases ho : otherCoeffs one os with
          | error err => rw [ho] at h; cases h
          | ok other =>
            rw [ho] at h
            simp only at h
            cases v with
            | none =>
              simp only [pure, Except.pure, Except.ok.injEq] at h
              subst h
              exact CView.prodConst cs ds os other hds hsp ho
            | some dv => exact CView.prodVar cs ds os dv d other hds hsp ho h
  | bin o a b =>
    cases o <;> simp only [coeffs, throw, throwThe, MonadExceptOf.throw, reduceCtorEq] at h
    · -- quotient
      simp only [bind, Except.bind] at h
      cases hdn : coeffs tg a with
      | error err => rw [hdn] at h; cases h
      | ok dn =>
        rw [hdn] at h
        simp only at h
        cases hdd : coeffs tg b with
        | error err => rw [hdd] at h; cases h
        | ok dd =>
          rw [hdd] at h
          simp only at h
          cases hc : constOnly dd with
          | none => rw [hc] at h; cases h
          | some val => rw [hc] at h; exact CView.quot a b dn dd d val hdn hdd hc h
    · -- power
      simp only [bind, Except.bind] at h
      cases hdb : coeffs tg a with
      | error err => rw [hdb] at h; cases h
      | ok db =>
        rw [hdb] at h
        simp only at h
        cases hde : coeffs tg b with
        | error err => rw [hde] at h; cases h
        | ok de =>
          rw [hde] at h
          simp only at h
          cases hce : constOnly de with
          | none => rw [hce] at h; cases h
          | some ve =>
            rw [hce] at h
            simp only at h
            cases hcb : constOnly db with
            | none => rw [hcb] at h; cases h
            | some vb =>
              rw [hcb] at h
              simp only [pure, Except.pure, Except.ok.injEq] at h
              subst h
              exact CView.pow a b db de vb ve hdb hde hce hcb
  | un o a => simp [coeffs, throw, throwThe, MonadExceptOf.throw] at h
  | cmp o a b => simp [coeffs, throw, throwThe, MonadExceptOf.throw] at h
  | ite c t e => simp [coeffs, throw, throwThe, MonadExceptOf.throw] at h
  | cse c p s => simp [coeffs, throw, throwThe, MonadExceptOf.throw] at h
  | subst c vs xs => simp [coeffs, throw, throwThe, MonadExceptOf.throw] at h
  | deriv c vs => simp [coeffs, throw, throwThe, MonadExceptOf.throw] at h
  | slice cs => simp [coeffs, throw, throwThe, MonadExceptOf.throw] at h
  | tuple cs => simp [coeffs, throw, throwThe, MonadExceptOf.throw] at h
  | list cs => simp [coeffs, throw, throwThe, MonadExceptOf.throw] at h

theorem coeffsL_cons {tg : Option (List String)} {c : Expr} {cs : List Expr} {ds : List Dict}
    (h : coeffsL tg (c :: cs) = .ok ds) :
    ∃ d ds', coeffs tg c = .ok d ∧ coeffsL tg cs = .ok ds' ∧ ds = d :: ds' := by
  simp only [coeffsL, bind, Except.bind] at h
  cases hd : coeffs tg c with
  | error e => rw [hd] at h; cases h
  | ok d =>
    rw [hd] at h
    simp only at h
    cases hds : coeffsL tg cs with
    | error e => rw [hds] at h; cases h
    | ok ds' =>
      rw [hds] at h
      simp only [pure, Except.pure, Except.ok.injEq] at h
      exact ⟨d, ds', rfl, rfl, h.symm⟩

theorem constOnly_single {d : Dict} {val : Expr} (hks : KeysSimple d) (h : constOnly d = some val) :
    d = [(one, val)] := by
  unfold constOnly at h
  split at h
  · cases h
  · rename_i hl
    match d, hl with
    | [], _ => simp [Dict.find] at h
    | [kc], _ => exact find_one_single hks rfl h
    | _ :: _ :: _, hl => simp at hl

/-! ### keys of the result are simple -/

theorem leafDict_keys {tg : Option (List String)} {e : Expr} (h : e.simple = true) :
    KeysSimple (leafDict tg e) := by
  unfold leafDict
  split <;> intro kc hkc <;> simp only [List.mem_singleton] at hkc <;> subst hkc
  · exact h
  · exact one_simple

theorem single_one_keys (c : Expr) : KeysSimple [(one, c)] := by
  intro kc hkc
  simp only [List.mem_singleton] at hkc
  subst hkc; exact one_simple

theorem addTo_keys : ∀ (d : Dict) (k c : Expr) (d' : Dict), KeysSimple d → k.simple = true →
    d.addTo k c = .ok d' → KeysSimple d'
  | [], k, c, d', _, hk, h => by
    simp only [Dict.addTo, pure, Except.pure, Except.ok.injEq] at h
    subst h
    intro kc hkc
    simp only [List.mem_singleton] at hkc
    subst hkc; exact hk
  | (k', c') :: rest, k, c, d', hks, hk, h => by
    simp only [Dict.addTo] at h
    split at h
    · simp only [bind, Except.bind] at h
      cases hs : pyBin .add c' c with
      | error e => rw [hs] at h; cases h
      | ok s =>
        rw [hs] at h
        simp only [pure, Except.pure, Except.ok.injEq] at h
        subst h
        intro kc hkc
        simp only [List.mem_cons] at hkc
        rcases hkc with rfl | hkc
        · exact hks (k', c') (by simp)
        · exact hks kc (by simp [hkc])
    · simp only [bind, Except.bind] at h
      cases hr' : Dict.addTo rest k c with
      | error e => rw [hr'] at h; cases h
      | ok r =>
        rw [hr'] at h
        simp only [pure, Except.pure, Except.ok.injEq] at h
        subst h
        have ih := addTo_keys rest k c r (fun kc hkc => hks kc (by simp [hkc])) hk hr'
        intro kc hkc
        simp only [List.mem_cons] at hkc
        rcases hkc with rfl | hkc
        · exact hks (k', c') (by simp)
        · exact ih kc hkc

theorem mergeInto_keys : ∀ (d result d' : Dict), KeysSimple result → KeysSimple d →
    mergeInto result d = .ok d' → KeysSimple d'
  | [], result, d', hr, _, h => by
    simp only [mergeInto, pure, Except.pure, Except.ok.injEq] at h
    subst h; exact hr
  | (k, c) :: rest, result, d', hr, hds, h => by
    simp only [mergeInto, bind, Except.bind] at h
    cases ha : Dict.addTo result k c with
    | error e => rw [ha] at h; cases h
    | ok r =>
      rw [ha] at h
      simp only at h
      exact mergeInto_keys rest r d' (addTo_keys result k c r hr (hds (k, c) (by simp)) ha)
        (fun kc hkc => hds kc (by simp [hkc])) h

theorem sumDicts_keys : ∀ (ds : List Dict) (result d' : Dict), KeysSimple result →
    (∀ d ∈ ds, KeysSimple d) → sumDicts result ds = .ok d' → KeysSimple d'
  | [], result, d', hr, _, h => by
    simp only [sumDicts, pure, Except.pure, Except.ok.injEq] at h
    subst h; exact hr
  | d :: ds, result, d', hr, hds, h => by
    simp only [sumDicts, bind, Except.bind] at h
    cases hm : mergeInto result d with
    | error e => rw [hm] at h; cases h
    | ok r =>
      rw [hm] at h
      simp only at h
      exact sumDicts_keys ds r d' (mergeInto_keys d result r hr (hds d (by simp)) hm)
        (fun d' hd' => hds d' (by simp [hd'])) h

theorem splitVars_mem : ∀ (ds : List Dict) (v : Option Dict) (os : List Dict),
    splitVars ds = .ok (v, os) → (∀ d ∈ os, d ∈ ds) ∧ (∀ d, v = some d → d ∈ ds)
  | [], v, os, h => by
    simp only [splitVars, pure, Except.pure, Except.ok.injEq, Prod.mk.injEq] at h
    obtain ⟨rfl, rfl⟩ := h
    simp
  | d :: ds, v, os, h => by
    simp only [splitVars, bind, Except.bind] at h
    cases hsp : splitVars ds with
    | error e => rw [hsp] at h; cases h
    | ok pr =>
      obtain ⟨v', os'⟩ := pr
      rw [hsp] at h
      simp only at h
      obtain ⟨hmem1, hmem2⟩ := splitVars_mem ds v' os' hsp
      split at h
      · split at h
        · cases h
        · simp only [pure, Except.pure, Except.ok.injEq, Prod.mk.injEq] at h
          obtain ⟨rfl, rfl⟩ := h
          refine ⟨fun d' hd' => List.mem_cons_of_mem _ (hmem1 d' hd'), ?_⟩
          intro d' hd'; simp only [Option.some.injEq] at hd'; subst hd'; simp
      · simp only [pure, Except.pure, Except.ok.injEq, Prod.mk.injEq] at h
        obtain ⟨rfl, rfl⟩ := h
        refine ⟨?_, fun d' hd' => List.mem_cons_of_mem _ (hmem2 d' hd')⟩
        intro d' hd'
        simp only [List.mem_cons] at hd'
        rcases hd' with rfl | hd'
        · simp
        · exact List.mem_cons_of_mem _ (hmem1 d' hd')

theorem coeffs_keys_simple (tg : Option (List String)) (e : Expr) :
    ∀ d, e.simple = true → coeffs tg e = .ok d → KeysSimple d := by
  induction e using Expr.induct with
  | h e ih =>
    intro d hs h
    have hL : ∀ (cs : List Expr), (∀ c ∈ cs, c ∈ e.children) → ∀ ds, coeffsL tg cs = .ok ds →
        ∀ d ∈ ds, KeysSimple d := by
      intro cs
      induction cs with
      | nil =>
        intro _ ds hds
        simp only [coeffsL, pure, Except.pure, Except.ok.injEq] at hds
        subst hds; simp
      | cons c cs ihcs =>
        intro hsub ds hds
        obtain ⟨d0, ds', hd0, hds', rfl⟩ := coeffsL_cons hds
        intro d' hd'
        simp only [List.mem_cons] at hd'
        rcases hd' with rfl | hd'
        · exact ih c (hsub c (by simp)) _ (simple_children hs c (hsub c (by simp))) hd0
        · exact ihcs (fun c' hc' => hsub c' (by simp [hc'])) ds' hds' d' hd'
    cases coeffs_view tg e d h with
    | leaf _ _ => exact leafDict_keys hs
    | num _ _ => exact single_one_keys _
    | sum cs ds _ hds hsum =>
      exact sumDicts_keys ds [] d (by intro kc hkc; simp at hkc)
        (hL cs (fun c hc => by simpa [Expr.children] using hc) ds hds) hsum
    | prodConst cs ds os other hds hsp ho => exact single_one_keys _
    | prodVar cs ds os dv _ other hds hsp ho hsc =>
      have hall := hL cs (fun c hc => by simpa [Expr.children] using hc) ds hds
      exact keysSimple_of_keys (scaleLeft_keys dv d other hsc)
        (hall dv ((splitVars_mem ds _ os hsp).2 dv rfl))
    | quot a b dn dd _ val hdn hdd hc hsc =>
      have hsa : a.simple = true := simple_children hs a (by simp [Expr.children])
      exact keysSimple_of_keys (scaleRight_keys dn d _ hsc)
        (ih a (by simp [Expr.children]) dn hsa hdn)
    | pow a b db de vb ve _ _ _ _ => exact single_one_keys _

/-! ### the side condition on reciprocals -/

mutual
/-- every reciprocal `Quotient(1, val)` the collector builds (one per `Quotient` node, `val` the
constant coefficient of the denominator) evaluates to an exact number -/
def recipOK (env : Env) (tg : Option (List String)) : Expr → Bool
  | .nary .sum cs => recipOKL env tg cs
  | .nary .prod cs => recipOKL env tg cs
  | .bin .quot a b =>
    recipOK env tg a && recipOK env tg b &&
      (match coeffs tg b with
       | .ok dd => match constOnly dd with
         | some val => (nv env (.bin .quot one val)).isSome
         | none => true
       | .error _ => true)
  | _ => true
def recipOKL (env : Env) (tg : Option (List String)) : List Expr → Bool
  | [] => true
  | c :: cs => recipOK env tg c && recipOKL env tg cs
end

theorem recipOKL_mem {tg : Option (List String)} : ∀ {cs : List Expr}, recipOKL env tg cs = true →
    ∀ c ∈ cs, recipOK env tg c = true
  | [], _, c, hc => by simp at hc
  | d :: ds, h, c, hc => by
    simp only [recipOKL, Bool.and_eq_true] at h
    simp only [List.mem_cons] at hc
    rcases hc with rfl | hc
    · exact h.1
    · exact recipOKL_mem h.2 c hc

/-! ### the main induction -/

theorem coeffs_nv (tg : Option (List String)) (e : Expr) :
    ∀ d q, e.simple = true → coeffs tg e = .ok d → recipOK env tg e = true →
      nv env e = some q → dictNV env d = some q := by
  induction e using Expr.induct with
  | h e ih =>
    intro d q hs h hrec hq
    -- the list version for the children of a Sum / Product
    have hL : ∀ (cs : List Expr), (∀ c ∈ cs, c ∈ e.children) → recipOKL env tg cs = true →
        ∀ ds qs, coeffsL tg cs = .ok ds → nvL env cs = some qs →
        dictNVL env ds = some qs ∧ ∀ d ∈ ds, KeysSimple d := by
      intro cs
      induction cs with
      | nil =>
        intro _ _ ds qs hds hqs
        simp only [coeffsL, pure, Except.pure, Except.ok.injEq] at hds
        simp only [nvL, Option.some.injEq] at hqs
        subst hds; subst hqs
        exact ⟨rfl, by simp⟩
      | cons c cs ihcs =>
        intro hsub hr ds qs hds hqs
        obtain ⟨d0, ds', hd0, hds', rfl⟩ := coeffsL_cons hds
        obtain ⟨q0, qs', hq0, hqs', rfl⟩ := nvL_cons hqs
        simp only [recipOKL, Bool.and_eq_true] at hr
        have hcs : c.simple = true := simple_children hs c (hsub c (by simp))
        have h1 := ih c (hsub c (by simp)) d0 q0 hcs hd0 hr.1 hq0
        obtain ⟨h2, h3⟩ := ihcs (fun c' hc' => hsub c' (by simp [hc'])) hr.2 ds' qs' hds' hqs'
        refine ⟨by simp [dictNVL, h1, h2], ?_⟩
        intro d' hd'
        simp only [List.mem_cons] at hd'
        rcases hd' with rfl | hd'
        · exact coeffs_keys_simple tg c _ hcs hd0
        · exact h3 d' hd'
    cases coeffs_view tg e d h with
    | leaf _ _ =>
      unfold leafDict
      split
      · rw [dictNV_cons_of nv_one hq rfl]; congr 1; ring
      · rw [dictNV_cons_of hq nv_one rfl]; congr 1; ring
    | num _ _ => rw [dictNV_cons_of hq nv_one rfl]; congr 1; ring
    | sum cs ds _ hds hsum =>
      obtain ⟨qs, hqs, rfl⟩ := nv_sum hq
      simp only [recipOK] at hrec
      obtain ⟨h1, h2⟩ := hL cs (fun c hc => by simpa [Expr.children] using hc) hrec ds qs hds hqs
      have := (sumDicts_nv ds [] d 0 qs (by intro kc hkc; simp at hkc) h2 hsum rfl h1).1
      rw [this]; congr 1; ring
    | prodConst cs ds os other hds hsp ho =>
      obtain ⟨qs, hqs, rfl⟩ := nv_prod hq
      simp only [recipOK] at hrec
      obtain ⟨h1, h2⟩ := hL cs (fun c hc => by simpa [Expr.children] using hc) hrec ds qs hds hqs
      obtain ⟨qv, qos, hv, hos, hprod, hmem1, _⟩ := splitVars_nv ds none os qs hsp h1
      simp only at hv
      subst hv
      have hoth := otherCoeffs_nv os one other 1 qos (fun d' hd' => h2 d' (hmem1 d' hd')) ho nv_one hos
      rw [dictNV_cons_of hoth nv_one rfl, hprod]; congr 1; ring
    | prodVar cs ds os dv _ other hds hsp ho hsc =>
      obtain ⟨qs, hqs, rfl⟩ := nv_prod hq
      simp only [recipOK] at hrec
      obtain ⟨h1, h2⟩ := hL cs (fun c hc => by simpa [Expr.children] using hc) hrec ds qs hds hqs
      obtain ⟨qv, qos, hv, hos, hprod, hmem1, _⟩ := splitVars_nv ds (some dv) os qs hsp h1
      simp only at hv
      have hoth := otherCoeffs_nv os one other 1 qos (fun d' hd' => h2 d' (hmem1 d' hd')) ho nv_one hos
      rw [scaleLeft_nv dv d other _ qv hsc hoth hv, hprod]; congr 1; ring
    | quot a b dn dd _ val hdn hdd hc hsc =>
      obtain ⟨qa, qb, hqa, hqb, hb0, rfl⟩ := nv_quot hq
      have hsa : a.simple = true := simple_children hs a (by simp [Expr.children])
      have hsb : b.simple = true := simple_children hs b (by simp [Expr.children])
      simp only [recipOK, Bool.and_eq_true, hdd, hc] at hrec
      obtain ⟨⟨hra, hrb⟩, hrecip⟩ := hrec
      have h1 := ih a (by simp [Expr.children]) dn qa hsa hdn hra hqa
      have h2 := ih b (by simp [Expr.children]) dd qb hsb hdd hrb hqb
      have hdd' := constOnly_single (coeffs_keys_simple tg b dd hsb hdd) hc
      subst hdd'
      obtain ⟨qc, qk, qr, hval, hk, hr, hqbeq⟩ := dictNV_cons h2
      rw [nv_one] at hk
      simp only [Option.some.injEq] at hk
      subst hk
      simp only [dictNV, Option.some.injEq] at hr
      subst hr
      have hvalb : nv env val = some qb := by rw [hval, hqbeq]; congr 1; ring
      obtain ⟨r, hr⟩ := Option.isSome_iff_exists.1 hrecip
      obtain ⟨q1, qv, hq1, hqv, _, rfl⟩ := nv_quot hr
      rw [nv_one] at hq1
      rw [hvalb] at hqv
      simp only [Option.some.injEq] at hq1 hqv
      subst hq1; subst hqv
      rw [scaleRight_nv dn d _ _ qa hsc hr h1]
      congr 1
      field_simp
    | pow a b db de vb ve _ _ _ _ => rw [dictNV_cons_of hq nv_one rfl]; congr 1; ring

end PV.Coeff
