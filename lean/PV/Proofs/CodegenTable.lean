import PV.Model.CodegenTable
import PV.Generated.Codegen
import PV.Generated.Traversal
import PV.Generated.Analysis
/-
  C13 (T-gen), helper lemmas: the folding helper of `PymbolicToASTMapper` as a list fold, the list
  forms of the hand-written recursions as sequences of suspended calls, the two-operand handlers
  through the folding helper, `ast.Slice(*parts)`, the constant printer of `CompileMapper` as a text
  condition, the statement-by-statement run of `_compile` in closed form.
-/
namespace PV.C13
open PV

abbrev fromTableCurrent : C13FromTable := Generated.c13FromTable
abbrev toTableCurrent : C13ToTable := Generated.c13ToTable
abbrev classesCurrent : List C04NodeClass := Generated.c04Classes
abbrev compileMapperCurrent : C13CompileMapperTable := Generated.c13CompileMapperTable
abbrev compiledCurrent : C13CompiledTable := Generated.c13CompiledTable
abbrev funcSrcCurrent : C13FuncSrcTable := Generated.c13FuncSrcTable

/-! ### `ASTToPymbolic` -/

theorem fromAstL_eq_seq : ∀ as : List PyAst, fromAstL as = c13SeqF (c13ModelRunsF as)
  | [] => rfl
  | a :: as => by
      simp only [fromAstL, c13ModelRunsF, c13SeqF, fromAstL_eq_seq as]

/-! ### the folding helper -/

/-- the row the hand-written `foldBin` was written from -/
def foldRowExpected : C13FoldRow :=
  { name := "_map_multi_children_op", init := -1, lo := some (-2), hi := none, step := some (-1),
    ctor := "BinOp", argNames := ["left", "op", "right"], argRoles := [.item, .opParam, .acc] }

theorem c13FoldLoop_expected (o : PyBin) : ∀ (items : List PyAst) (acc : PyAst),
    c13FoldLoop foldRowExpected (.opB o) acc items
      = pure (items.foldl (fun a c => PyAst.binop c o a) acc)
  | [], _ => rfl
  | c :: cs, acc => by
      show c13FoldLoop foldRowExpected (.opB o) (.binop c o acc) cs = _
      rw [c13FoldLoop_expected o cs]; rfl

theorem foldBin_snoc (o : PyBin) : ∀ (ys : List PyAst) (l : PyAst),
    foldBin o (ys ++ [l]) = pure (ys.foldr (fun c a => PyAst.binop c o a) l)
  | [], _ => rfl
  | [_], _ => rfl
  | y :: y2 :: ys, l => by
      have ih := foldBin_snoc o (y2 :: ys) l
      simp only [List.cons_append] at ih ⊢
      simp only [foldBin, ih]; rfl

/-- `foldBin` (right nesting, the last operand innermost, `IndexError` without operands) is the
loop of the expected row -/
theorem foldBin_eq_table (o : PyBin) (xs : List PyAst) :
    foldBin o xs = c13FoldT foldRowExpected (.opB o) xs := by
  rcases List.eq_nil_or_concat xs with rfl | ⟨ys, l, rfl⟩
  · rfl
  · have h1 : c13FoldOrder foldRowExpected (ys ++ [l]) = .ok (l, ys.reverse) := by
      simp [c13FoldOrder, foldRowExpected, pure, Except.pure]
    simp only [List.concat_eq_append, c13FoldT, h1, c13FoldLoop_expected, List.foldl_reverse,
      foldBin_snoc]

/-! ### `PymbolicToASTMapper`, memo-free reading -/

theorem toAstL_eq_seq : ∀ cs : List Expr, toAstL cs = c13SeqT (c13ModelRunsP cs)
  | [] => rfl
  | c :: cs => by simp only [toAstL, c13ModelRunsP, c13SeqT, toAstL_eq_seq cs]

theorem mapIdxE_eq (f : Nat → Except AErr PyAst) : ∀ is, mapIdxE f is = c13MapIdx f is
  | [] => rfl
  | i :: is => by simp only [mapIdxE, c13MapIdx, mapIdxE_eq f is]

theorem toAstNth_eq_run' : ∀ (vs : List Expr) (i : Nat),
    toAstNth vs i = c13RunNth c13LiftId (c13ModelRunsP vs) i
  | [], _ => rfl
  | _ :: _, 0 => rfl
  | _ :: vs, i + 1 => by simp only [toAstNth, c13ModelRunsP, c13RunNth, toAstNth_eq_run' vs i]

theorem toAstNth_eq_run (vs : List Expr) :
    (fun i => toAstNth vs i) = c13RunNth c13LiftId (c13ModelRunsP vs) :=
  funext (toAstNth_eq_run' vs)

/-- `ast.Slice(*parts)`: more parts than fields is a `TypeError` -/
theorem mkSlice_eq_table : mkSlice = fun xs =>
    if xs.length > ["lower", "upper", "step"].length then throw .typeError
    else c13MkAst "Slice" (["lower", "upper", "step"].zip (xs.map C13TVal.ast)) := by
  funext xs
  match xs with
  | [] => rfl
  | [_] => rfl
  | [_, _] => rfl
  | [_, _, _] => rfl
  | _ :: _ :: _ :: _ :: _ => simp [mkSlice]

/-- a two-operand handler goes through the folding helper: mapped operands, then one `BinOp` -/
theorem seq2_fold_except (ra rb : Except AErr PyAst) (op : PyBin) :
    (c13SeqT [ra, rb] >>= fun xs => c13FoldT foldRowExpected (.opB op) xs)
      = (ra >>= fun x => rb >>= fun y => pure (PyAst.binop x op y)) := by
  cases ra <;> cases rb <;> rfl

/-! ### `PymbolicToASTMapper` as coded (memo table) -/

theorem toAstCL_eq_seq : ∀ cs : List Expr, toAstCL cs = c13SeqT (c13ModelRunsC cs)
  | [] => rfl
  | c :: cs => by simp only [toAstCL, c13ModelRunsC, c13SeqT, toAstCL_eq_seq cs]; rfl

theorem mapIdxM_eq (f : Nat → AstM PyAst) : ∀ is, mapIdxM f is = c13MapIdx f is
  | [] => rfl
  | i :: is => by simp only [mapIdxM, c13MapIdx, mapIdxM_eq f is]; rfl

theorem toAstCNth_eq_run' : ∀ (vs : List Expr) (i : Nat),
    toAstCNth vs i = c13RunNth AstM.lift (c13ModelRunsC vs) i
  | [], _ => rfl
  | _ :: _, 0 => rfl
  | _ :: vs, i + 1 => by simp only [toAstCNth, c13ModelRunsC, c13RunNth, toAstCNth_eq_run' vs i]

theorem toAstCNth_eq_run (vs : List Expr) :
    (fun i => toAstCNth vs i) = c13RunNth AstM.lift (c13ModelRunsC vs) :=
  funext (toAstCNth_eq_run' vs)

theorem seq2_fold_astM (ra rb : AstM PyAst) (op : PyBin) :
    (c13SeqT [ra, rb] >>= fun xs => AstM.lift (c13FoldT foldRowExpected (.opB op) xs))
      = (ra >>= fun x => rb >>= fun y => AstM.pure (PyAst.binop x op y)) := by
  funext s
  show AstM.bind (AstM.bind ra fun x => AstM.bind (AstM.bind rb fun y => AstM.bind (AstM.pure [])
      fun ys => AstM.pure (y :: ys)) fun xs => AstM.pure (x :: xs))
      (fun xs => AstM.lift (c13FoldT foldRowExpected (.opB op) xs)) s
    = AstM.bind ra (fun x => AstM.bind rb fun y => AstM.pure (PyAst.binop x op y)) s
  simp only [AstM.bind]
  rcases ra s with e | ⟨x, s1⟩
  · rfl
  · simp only []
    rcases rb s1 with e | ⟨y, s2⟩ <;> rfl

theorem liftMkSlice_eq_table : (fun xs => AstM.lift (mkSlice xs)) = fun xs =>
    if xs.length > ["lower", "upper", "step"].length then AstM.lift (throw .typeError)
    else AstM.lift (c13MkAst "Slice" (["lower", "upper", "step"].zip (xs.map C13TVal.ast))) := by
  funext xs
  rw [mkSlice_eq_table]
  simp only []
  split <;> rfl

/-! ### `CompileMapper` -/

/-- the text condition the hand-written `constPiecesRepr` was written from:
`not (result.startswith("(") and result.endswith(")")) and ("-" in result or "+" in result)
and enclosing_prec > PREC_SUM` -/
def constCondExpected : C13TextCond :=
  .and (.not .wrapped) (.and (.or (.has "-") (.has "+")) (.encGt "PREC_SUM"))

theorem constPiecesRepr_eq_table (S : PrintPrec) :
    constPiecesRepr S = c13ConstT S "repr" constCondExpected true false := by
  funext c enc
  cases c with
  | int n =>
    by_cases h : n < 0 <;> by_cases h2 : enc > S.sum <;>
      simp [constPiecesRepr, c13ConstT, constPiecesReprBare, c13TextCondEval, constCondExpected,
        Const.c13ReprHas, c13PrecByName, h, h2, pure, Except.pure]
  | bool b =>
    simp [constPiecesRepr, c13ConstT, constPiecesReprBare, c13TextCondEval, constCondExpected,
        Const.c13ReprHas, c13PrecByName, pure, Except.pure]
  | flt r n d =>
    by_cases hd : d = 0
    · simp [constPiecesRepr, c13ConstT, constPiecesReprBare, hd, throw, throwThe, MonadExceptOf.throw]
    · by_cases h2 : enc > S.sum <;> cases h3 : r.startsWith "-" <;> cases h4 : r.contains '+' <;>
        cases h5 : r.contains '-' <;>
        simp [constPiecesRepr, c13ConstT, constPiecesReprBare, c13TextCondEval, constCondExpected,
          Const.c13ReprHas, c13PrecByName, hd, h2, h3, h4, h5, pure, Except.pure]
  | str s => rfl
  | none => rfl

/-! ### `CompiledExpression._compile` -/

theorem dep_flags_current_aux :
    c09InitFlags Generated.c09DepInit {} (some false) = compileDepFlags := rfl

/-- the statement-by-statement run of the regenerated `_compile` table, in closed form -/
theorem compileT_unfold (S : PrintPrec) (e : Expr) (listed : List String) :
    c13CompileT Generated.c09DepInit (c13Printers compileMapperCurrent S) compiledCurrent S e listed
    = (match deps compileDepFlags e with
      | .error err => .error (CompErr.ofDep err)
      | .ok used =>
        match c13StrT compileMapperCurrent S e S.none with
        | .error err => .error (CompErr.ofStr err)
        | .ok ps => .ok (Compiled.mk e listed
            (listed ++ sortStrings (((varNames used).filter (fun v => !listed.contains v)).filter
              (fun v => !(["math"] ++ ["numpy"]).contains v)))
            (render ps))) := by
  cases hd : deps compileDepFlags e with
  | error err =>
    simp only [c13CompileT, compiledCurrent, Generated.c13CompiledTable, c13CStepsRun, c13CStepRun,
      dep_flags_current_aux, hd, pure, Except.pure]
    simp [throw, throwThe, MonadExceptOf.throw]
  | ok used =>
    cases hs : c13StrT compileMapperCurrent S e S.none with
    | error err =>
      simp [c13CompileT, compiledCurrent, Generated.c13CompiledTable, c13CStepsRun, c13CStepRun,
        dep_flags_current_aux, hd, hs, pure, Except.pure, c13Printers, c13PrecByName,
        throw, throwThe, MonadExceptOf.throw]
    | ok ps =>
      simp [c13CompileT, compiledCurrent, Generated.c13CompiledTable, c13CStepsRun, c13CStepRun,
        dep_flags_current_aux, hd, hs, pure, Except.pure, c13Printers, c13PrecByName]

end PV.C13
