import PV.Proofs.SyntaxMain
/-
  C06.  The parser's normal form `pnf e` of a tree of the fragment and the tree itself are equal
  "once nested sums and products are flattened".
-/
namespace PV.Syntax
open PV

/-- contribution of one (already flattened) child to the operand list of an `op` node -/
def flatOne (op : NaryOp) (y : Expr) : List Expr :=
  match y with
  | .nary o ds => if o == op then ds else [.nary o ds]
  | y => [y]

theorem flattenInto_cons (op : NaryOp) (c : Expr) (cs : List Expr) :
    flattenInto op (c :: cs) = flatOne op (flattenAssoc c) ++ flattenInto op cs := by
  simp only [flattenInto, flatOne]
  split <;> simp_all
  split <;> simp

theorem flattenInto_nil (op : NaryOp) : flattenInto op [] = [] := by simp [flattenInto]

theorem flattenInto_append (op : NaryOp) : ∀ (xs ys : List Expr),
    flattenInto op (xs ++ ys) = flattenInto op xs ++ flattenInto op ys
  | [], ys => by simp [flattenInto_nil]
  | x :: xs, ys => by
    simp only [List.cons_append, flattenInto_cons, flattenInto_append op xs ys, List.append_assoc]

theorem flattenAssoc_sum (cs : List Expr) :
    flattenAssoc (.nary .sum cs) = .nary .sum (flattenInto .sum cs) := by simp [flattenAssoc]
theorem flattenAssoc_prod (cs : List Expr) :
    flattenAssoc (.nary .prod cs) = .nary .prod (flattenInto .prod cs) := by simp [flattenAssoc]

theorem flattenAssoc_splice (op : NaryOp) (hop : op = .sum ∨ op = .prod) (l r : Expr) :
    flattenAssoc (spliceNary op l r)
      = .nary op (flatOne op (flattenAssoc l) ++ flatOne op (flattenAssoc r)) := by
  unfold spliceNary
  rcases hop with rfl | rfl
  all_goals
    split
    · split
      · rename_i o cs h
        cases o <;> simp at h
        simp [flattenAssoc, flattenInto_append, flattenInto_cons, flattenInto_nil, flatOne]
      · simp [flattenAssoc, flattenInto_cons, flattenInto_nil]
    · simp [flattenAssoc, flattenInto_cons, flattenInto_nil]


theorem flatOne_self (op : NaryOp) (A : List Expr) : flatOne op (.nary op A) = A := by
  simp [flatOne]

theorem flatten_pnfSum : ∀ (cs : List Expr) (acc : Expr) (A : List Expr),
    (∀ c ∈ cs, flattenAssoc (pnf c) = flattenAssoc c) → flattenAssoc acc = .nary .sum A →
    flattenAssoc (pnfSum acc cs) = .nary .sum (A ++ flattenInto .sum cs)
  | [], acc, A, _, h => by simp [pnfSum, h, flattenInto_nil]
  | c :: cs, acc, A, hc, h => by
    simp only [pnfSum]
    rw [flatten_pnfSum cs _ (A ++ flatOne .sum (flattenAssoc c))
      (fun d hd => hc d (List.mem_cons_of_mem _ hd))
      (by rw [flattenAssoc_splice .sum (Or.inl rfl), h, hc c (List.mem_cons_self ..),
            flatOne_self])]
    simp [flattenInto_cons]

theorem flatten_pnfProd : ∀ (c : Expr) (cs : List Expr),
    (∀ d ∈ c :: cs, flattenAssoc (pnf d) = flattenAssoc d) →
    flatOne .prod (flattenAssoc (pnfProd (c :: cs))) = flattenInto .prod (c :: cs)
  | c, [], h => by
    simp [pnfProd_one, h c (List.mem_cons_self ..), flattenInto_cons, flattenInto_nil]
  | c, d :: ds, h => by
    rw [pnfProd_cons2, flattenAssoc_splice .prod (Or.inr rfl), flatOne_self,
      h c (List.mem_cons_self ..),
      flatten_pnfProd d ds (fun e he => h e (List.mem_cons_of_mem _ he))]
    simp only [flattenInto_cons]

theorem printableAll_mem {P : ParserPrec} {S : PrintPrec} {pos : Pos} : ∀ {ds : List Expr},
    PrintableAll P S pos ds = true → ∀ e ∈ ds, Printable P S e = true
  | [], _, e, he => by cases he
  | d :: ds, h, e, he => by
    simp only [PrintableAll, Bool.and_eq_true] at h
    rcases List.mem_cons.mp he with rfl | he
    · exact h.1.2
    · exact printableAll_mem h.2 e he

theorem printableProd_mem {P : ParserPrec} {S : PrintPrec} : ∀ {ds : List Expr},
    PrintableProd P S ds = true → ∀ e ∈ ds, Printable P S e = true
  | [], _, e, he => by cases he
  | [d], h, e, he => by
    simp only [PrintableProd, Bool.and_eq_true] at h
    rcases List.mem_cons.mp he with rfl | he
    · exact h.2
    · cases he
  | d :: d' :: ds', h, e, he => by
    have h' : (okAt P S (.left .times) d && Printable P S d
        && PrintableProd P S (d' :: ds')) = true := by simpa [PrintableProd] using h
    simp only [Bool.and_eq_true] at h'
    rcases List.mem_cons.mp he with rfl | he
    · exact h'.1.2
    · exact printableProd_mem h'.2 e he

/-- every direct child of a tree of the fragment is in the fragment -/
theorem printable_children {P : ParserPrec} {S : PrintPrec} {e : Expr}
    (hp : Printable P S e = true) (hns : ∀ cs, e ≠ .slice cs) :
    ∀ c ∈ e.children, Printable P S c = true := by
  cases e with
  | slice cs => exact absurd rfl (hns cs)
  | nary o cs =>
    cases o with
    | sum =>
      match cs, hp with
      | c :: d :: cs', hp =>
        simp only [Printable, Bool.and_eq_true] at hp
        intro e he
        rcases List.mem_cons.mp he with rfl | he
        · exact hp.1.2
        · exact printableAll_mem hp.2 e he
      | [], hp => simp [Printable] at hp
      | [_], hp => simp [Printable] at hp
    | prod =>
      match cs, hp with
      | c :: d :: cs', hp =>
        simp only [Printable, Bool.and_eq_true] at hp
        exact printableProd_mem hp.1
      | [], hp => simp [Printable] at hp
      | [_], hp => simp [Printable] at hp
    | bor | bxor | band | lor | land | min | max =>
      match cs, hp with
      | [a, b], hp =>
        simp [Printable, naryInfix] at hp
        all_goals simp [Expr.children, hp]
      | [], hp => simp [Printable] at hp
      | [_], hp => simp [Printable] at hp
      | _ :: _ :: _ :: _, hp => simp [Printable] at hp
  | bin o a b => simp only [Printable, Bool.and_eq_true] at hp; simp [Expr.children, hp]
  | cmp o a b => simp only [Printable, Bool.and_eq_true] at hp; simp [Expr.children, hp]
  | un o a => simp only [Printable, Bool.and_eq_true] at hp; simp [Expr.children, hp]
  | ite c t e => simp only [Printable, Bool.and_eq_true] at hp; simp [Expr.children, hp]
  | const => simp [Expr.children]
  | var => simp [Expr.children]
  | lookup a n => simp only [Printable, Bool.and_eq_true] at hp; simp [Expr.children, hp]
  | subscript a i =>
    by_cases hi : ∀ cs, i ≠ .tuple cs
    · rw [printable_subscript hi] at hp
      simp only [Bool.and_eq_true] at hp; simp [Expr.children, hp]
    · have : ∃ cs, i = .tuple cs := by
        cases i <;> first | exact ⟨_, rfl⟩ | exact absurd (by intro cs h; cases h) hi
      obtain ⟨cs, rfl⟩ := this
      match cs, hp with
      | c :: d :: cs', hp =>
        have hp' := hp
        simp only [Printable, Bool.and_eq_true] at hp'
        simp [Expr.children, Printable, hp']
      | [], hp => simp [Printable] at hp
      | [_], hp => simp [Printable] at hp
  | call f as =>
    simp only [Printable, Bool.and_eq_true] at hp
    intro c hc
    simp only [Expr.children, List.mem_cons] at hc
    rcases hc with rfl | hc
    · exact hp.1.2
    · exact printableAll_mem hp.2 c hc
  | callKw f as ns vs =>
    simp only [Printable, Bool.and_eq_true] at hp
    intro c hc
    simp only [Expr.children, List.mem_cons, List.mem_append] at hc
    rcases hc with rfl | hc | hc
    · exact hp.1.1.1.1.1.2
    · exact printableAll_mem hp.1.1.1.1.2 c hc
    · exact printableAll_mem hp.1.1.1.2 c hc
  | tuple cs =>
    match cs, hp with
    | [], _ => simp [Expr.children]
    | c :: cs', hp =>
      simp only [Printable, Bool.and_eq_true] at hp
      intro e he
      simp only [Expr.children] at he
      rcases List.mem_cons.mp he with rfl | he
      · exact hp.1.1.2
      · exact printableAll_mem hp.1.2 e he
  | list cs =>
    match cs, hp with
    | [], _ => simp [Expr.children]
    | [c], hp => simp only [Printable, Bool.and_eq_true] at hp; simp [Expr.children, hp]
    | c :: d :: cs', hp =>
      simp only [Printable, Bool.and_eq_true] at hp
      intro e he
      simp only [Expr.children] at he
      rcases List.mem_cons.mp he with rfl | he
      · exact hp.1.1.2
      · exact printableAll_mem hp.1.2 e he
  | _ => simp [Printable] at hp

/-- the same for every node: a part of a slice may be omitted (`None`) -/
theorem printable_children' {P : ParserPrec} {S : PrintPrec} {e : Expr}
    (hp : Printable P S e = true) :
    ∀ c ∈ e.children, c = .const .none ∨ Printable P S c = true := by
  intro c hc
  by_cases hs : ∃ cs, e = .slice cs
  · obtain ⟨cs, rfl⟩ := hs
    by_cases hn : c = .const .none
    · exact Or.inl hn
    · refine Or.inr ?_
      simp only [Expr.children] at hc
      match cs, hp, hc with
      | c0 :: d :: cs', hp, hc =>
        simp only [Printable] at hp
        exact printableSlice_mem hp c hc hn
      | [], hp, _ => simp [Printable] at hp
      | [_], hp, _ => simp [Printable] at hp
  · exact Or.inr (printable_children hp (fun cs h => hs ⟨cs, h⟩) c hc)

theorem flattenL_pnfL : ∀ (cs : List Expr), (∀ c ∈ cs, flattenAssoc (pnf c) = flattenAssoc c) →
    flattenAssocL (pnfL cs) = flattenAssocL cs
  | [], _ => by simp [pnfL]
  | c :: cs, h => by
    simp only [pnfL, flattenAssocL, h c (List.mem_cons_self ..),
      flattenL_pnfL cs (fun d hd => h d (List.mem_cons_of_mem _ hd))]

theorem children_size {e c : Expr} (h : c ∈ e.children) : c.size < e.size := by
  cases e <;> simp only [Expr.children, Expr.size] at * <;>
    first
    | (have := size_lt_of_mem h; omega)
    | (simp at h; rcases h with rfl | rfl | rfl <;> omega)
    | (simp at h; rcases h with rfl | rfl <;> omega)
    | (simp at h; subst h; omega)
    | (simp at h)
    | skip
  · rcases h with rfl | h
    · omega
    · have := size_lt_of_mem h; omega
  · rcases h with rfl | h | h
    · omega
    · have := size_lt_of_mem h; omega
    · have := size_lt_of_mem h; omega
  · rcases h with rfl | h
    · omega
    · have := size_lt_of_mem h; omega


theorem flatten_pnf_aux {P : ParserPrec} {S : PrintPrec} : ∀ (n : Nat) (e : Expr), e.size ≤ n →
    Printable P S e = true → flattenAssoc (pnf e) = flattenAssoc e := by
  intro n
  induction n with
  | zero => intro e hsz; cases e <;> simp [Expr.size] at hsz
  | succ n ih =>
    intro e hsz hp
    have hch : ∀ c ∈ e.children, flattenAssoc (pnf c) = flattenAssoc c := fun c hc =>
      (printable_children' hp c hc).elim (fun h => by subst h; rfl)
        (fun h => ih c (by have := children_size hc; omega) h)
    cases e with
    | nary o cs =>
      simp only [Expr.children] at hch
      cases o with
      | sum =>
        match cs, hp, hch with
        | c :: d :: cs', hp, hch =>
          simp only [pnf, pnfSum]
          rw [flatten_pnfSum cs' _ (flatOne .sum (flattenAssoc c) ++ flatOne .sum (flattenAssoc d))
            (fun e he => hch e (by simp [he]))
            (by rw [flattenAssoc_splice .sum (Or.inl rfl), hch c (by simp), hch d (by simp)])]
          simp [flattenAssoc_sum, flattenInto_cons]
        | [], hp, _ => simp [Printable] at hp
        | [_], hp, _ => simp [Printable] at hp
      | prod =>
        match cs, hp, hch with
        | c :: d :: cs', hp, hch =>
          simp only [pnf, pnfProd_cons2]
          rw [flattenAssoc_splice .prod (Or.inr rfl), hch c (by simp),
            flatten_pnfProd d cs' (fun e he => hch e (List.mem_cons_of_mem _ he)),
            flattenAssoc_prod]
          simp only [flattenInto_cons]
        | [], hp, _ => simp [Printable] at hp
        | [_], hp, _ => simp [Printable] at hp
      | bor | bxor | band | lor | land | min | max =>
        match cs, hp, hch with
        | [a, b], hp, hch =>
          simp [pnf, pnfL, flattenAssoc, flattenAssocL, hch a (by simp), hch b (by simp)]
        | [], hp, _ => simp [Printable] at hp
        | [_], hp, _ => simp [Printable] at hp
        | _ :: _ :: _ :: _, hp, _ => simp [Printable] at hp
    | bin o a b => simp only [Expr.children] at hch; simp [pnf, flattenAssoc, hch]
    | cmp o a b => simp only [Expr.children] at hch; simp [pnf, flattenAssoc, hch]
    | un o a => simp only [Expr.children] at hch; simp [pnf, flattenAssoc, hch]
    | ite c t e => simp only [Expr.children] at hch; simp [pnf, flattenAssoc, hch]
    | const => simp [pnf]
    | var => simp [pnf]
    | lookup a n => simp only [Expr.children] at hch; simp [pnf, flattenAssoc, hch]
    | subscript a i => simp only [Expr.children] at hch; simp [pnf, flattenAssoc, hch]
    | call f as =>
      simp only [Expr.children] at hch
      simp [pnf, flattenAssoc, hch f (by simp),
        flattenL_pnfL as (fun c hc => hch c (by simp [hc]))]
    | callKw f as ns vs =>
      simp only [Expr.children] at hch
      simp [pnf, flattenAssoc, hch f (by simp),
        flattenL_pnfL as (fun c hc => hch c (by simp [hc])),
        flattenL_pnfL vs (fun c hc => hch c (by simp [hc]))]
    | tuple cs => simp only [Expr.children] at hch; simp [pnf, flattenAssoc, flattenL_pnfL cs hch]
    | list cs => simp only [Expr.children] at hch; simp [pnf, flattenAssoc, flattenL_pnfL cs hch]
    | slice cs => simp only [Expr.children] at hch; simp [pnf, flattenAssoc, flattenL_pnfL cs hch]
    | _ => simp [Printable] at hp

/-- the parser's normal form differs from the tree only by the nesting of sums and products -/
theorem flatten_pnf {P : ParserPrec} {S : PrintPrec} {e : Expr} (hp : Printable P S e = true) :
    flattenAssoc (pnf e) = flattenAssoc e :=
  flatten_pnf_aux e.size e (Nat.le_refl _) hp

end PV.Syntax
