import PV.Proofs.AlgoArith
import Mathlib.Data.List.Basic
import Mathlib.Data.List.Perm.Basic

/-!
  Proofs about the sparse-polynomial part of `PV.Model.Algo`.
-/

namespace PV.Algo

/-- Exponents strictly increasing: the class invariant documented for `Polynomial.Data`
("sorted in increasing order, one entry per degree"). -/
def StrictSorted (p : List Term) : Prop := p.Pairwise (fun a b => a.1 < b.1)

/-- Exponents weakly increasing. -/
def WeakSorted (p : List Term) : Prop := p.Pairwise (fun a b => a.1 ≤ b.1)

/-- No stored zero coefficient. -/
def NoZero (p : List Term) : Prop := ∀ t ∈ p, t.2 ≠ 0

instance (p : List Term) : Decidable (StrictSorted p) := by unfold StrictSorted; infer_instance
instance (p : List Term) : Decidable (WeakSorted p) := by unfold WeakSorted; infer_instance
instance (p : List Term) : Decidable (NoZero p) := by unfold NoZero; infer_instance

theorem StrictSorted.weak {p : List Term} (h : StrictSorted p) : WeakSorted p :=
  List.Pairwise.imp (fun h => Nat.le_of_lt h) h

/-! ## evalSpec basics -/

@[simp] theorem evalSpec_nil (x : ℤ) : evalSpec [] x = 0 := rfl

@[simp] theorem evalSpec_cons (e : ℕ) (c : ℤ) (rest : List Term) (x : ℤ) :
    evalSpec ((e, c) :: rest) x = c * x ^ e + evalSpec rest x := rfl

theorem evalSpec_cons' (t : Term) (rest : List Term) (x : ℤ) :
    evalSpec (t :: rest) x = t.2 * x ^ t.1 + evalSpec rest x := rfl

theorem evalSpec_append (l1 l2 : List Term) (x : ℤ) :
    evalSpec (l1 ++ l2) x = evalSpec l1 x + evalSpec l2 x := by
  induction l1 with
  | nil => simp
  | cons t l ih => obtain ⟨e, c⟩ := t; simp [ih]; ring

theorem evalSpec_reverse (l : List Term) (x : ℤ) : evalSpec l.reverse x = evalSpec l x := by
  induction l with
  | nil => rfl
  | cons t l ih => obtain ⟨e, c⟩ := t; simp [evalSpec_append, ih]; ring

/-! ## the stable sort -/

theorem insertByExp_perm (t : Term) (l : List Term) : (insertByExp t l).Perm (t :: l) := by
  induction l with
  | nil => exact List.Perm.refl _
  | cons u us ih =>
    rw [insertByExp]
    split_ifs with h
    · exact List.Perm.refl _
    · exact (List.Perm.cons u ih).trans (List.Perm.swap t u us)

theorem sortByExp_perm (l : List Term) : (sortByExp l).Perm l := by
  induction l with
  | nil => exact List.Perm.refl _
  | cons t ts ih =>
    rw [sortByExp]
    exact (insertByExp_perm t _).trans (List.Perm.cons t ih)

theorem evalSpec_insertByExp (t : Term) (l : List Term) (x : ℤ) :
    evalSpec (insertByExp t l) x = t.2 * x ^ t.1 + evalSpec l x := by
  induction l with
  | nil => rfl
  | cons u us ih =>
    rw [insertByExp]
    split_ifs with h
    · rfl
    · rw [evalSpec_cons', ih, evalSpec_cons']; ring

theorem evalSpec_sortByExp (l : List Term) (x : ℤ) : evalSpec (sortByExp l) x = evalSpec l x := by
  induction l with
  | nil => rfl
  | cons t ts ih => rw [sortByExp, evalSpec_insertByExp, ih]; rfl

theorem insertByExp_sorted (t : Term) (l : List Term) (h : WeakSorted l) :
    WeakSorted (insertByExp t l) := by
  induction l with
  | nil => simp [insertByExp, WeakSorted]
  | cons u us ih =>
    unfold WeakSorted at h ih ⊢
    rw [insertByExp]
    rw [List.pairwise_cons] at h
    split_ifs with hle
    · rw [List.pairwise_cons]
      refine ⟨?_, List.pairwise_cons.mpr h⟩
      intro y hy
      rcases List.mem_cons.mp hy with rfl | hy
      · exact hle
      · exact Nat.le_trans hle (h.1 y hy)
    · rw [List.pairwise_cons]
      refine ⟨?_, ih h.2⟩
      intro y hy
      rcases List.mem_cons.mp ((insertByExp_perm t us).mem_iff.mp hy) with rfl | hy
      · omega
      · exact h.1 y hy

theorem sortByExp_sorted (l : List Term) : WeakSorted (sortByExp l) := by
  induction l with
  | nil => simp [sortByExp, WeakSorted]
  | cons t ts ih => rw [sortByExp]; exact insertByExp_sorted t _ ih

/-- Stability: terms of equal exponent keep their relative order (together with
`sortByExp_perm` and `sortByExp_sorted` this pins down Python's stable `list.sort(key=exp)`). -/
theorem insertByExp_filter (t : Term) (l : List Term) (e : ℕ) :
    (insertByExp t l).filter (fun u => u.1 = e) = (t :: l).filter (fun u => u.1 = e) := by
  induction l with
  | nil => rfl
  | cons u us ih =>
    rw [insertByExp]
    split_ifs with h
    · rfl
    · rw [List.filter_cons, ih]
      simp only [List.filter_cons, decide_eq_true_eq]
      split_ifs <;> first | rfl | omega

theorem sortByExp_stable (l : List Term) (e : ℕ) :
    (sortByExp l).filter (fun u => u.1 = e) = l.filter (fun u => u.1 = e) := by
  induction l with
  | nil => rfl
  | cons t ts ih =>
    rw [sortByExp, insertByExp_filter, List.filter_cons, List.filter_cons, ih]

/-! ## the repaired merge loop -/

theorem mergeFix_nil (acc : List Term) (last : Option ℕ) :
    mergeFix acc last [] = acc.reverse := by
  cases acc <;> rfl

theorem mergeFix_cons (acc : List Term) (last : Option ℕ) (e : ℕ) (c : ℤ) (rest : List Term) :
    mergeFix acc last ((e, c) :: rest) =
      if last = some e then
        match acc with
        | [] => mergeFix [(e, c)] (some e) rest
        | (_, c') :: acc' =>
          if c' + c = 0 then mergeFix acc' none rest
          else mergeFix ((e, c' + c) :: acc') last rest
      else
        mergeFix ((e, c) :: acc) (some e) rest := by
  cases acc <;> rfl

theorem mergeFix_eval (acc : List Term) (last : Option ℕ) (rest : List Term) (x : ℤ)
    (hinv : ∀ e, last = some e → ∃ c acc', acc = (e, c) :: acc') :
    evalSpec (mergeFix acc last rest) x = evalSpec acc x + evalSpec rest x := by
  induction rest generalizing acc last with
  | nil => simp [mergeFix_nil, evalSpec_reverse]
  | cons t rest ih =>
    obtain ⟨e, c⟩ := t
    rw [mergeFix_cons]
    split_ifs with hl
    · obtain ⟨c', acc', rfl⟩ := hinv e hl
      simp only
      split_ifs with h0
      · rw [ih acc' none (by simp)]
        have : c' * x ^ e + c * x ^ e = 0 := by rw [← add_mul, h0, zero_mul]
        simp only [evalSpec_cons]; linarith
      · rw [ih _ last (by intro e' he'; rw [hl] at he'; cases he'; exact ⟨_, _, rfl⟩)]
        simp only [evalSpec_cons]; ring
    · rw [ih _ (some e) (by intro e' he'; cases he'; exact ⟨_, _, rfl⟩)]
      simp only [evalSpec_cons]; ring

/-- `c.` value preservation of the repaired `_sort_uniq`. -/
theorem sortUniq_eval (l : List Term) (x : ℤ) : evalSpec (sortUniq l) x = evalSpec l x := by
  rw [sortUniq, mergeFix_eval _ _ _ _ (by simp), evalSpec_sortByExp]; simp

theorem mergeFix_sorted (acc : List Term) (last : Option ℕ) (rest : List Term)
    (hacc : acc.Pairwise (fun a b => b.1 < a.1)) (hrest : WeakSorted rest)
    (hsome : ∀ e, last = some e → (∃ c acc', acc = (e, c) :: acc') ∧ ∀ t ∈ rest, e ≤ t.1)
    (hnone : last = none → ∀ a ∈ acc, ∀ t ∈ rest, a.1 < t.1) :
    StrictSorted (mergeFix acc last rest) := by
  induction rest generalizing acc last with
  | nil =>
    rw [mergeFix_nil]; unfold StrictSorted
    rw [List.pairwise_reverse]; exact hacc
  | cons t rest ih =>
    obtain ⟨e, c⟩ := t
    unfold WeakSorted at hrest
    rw [List.pairwise_cons] at hrest
    rw [mergeFix_cons]
    split_ifs with hl
    · obtain ⟨⟨c', acc', rfl⟩, hle⟩ := hsome e hl
      simp only
      rw [List.pairwise_cons] at hacc
      split_ifs with h0
      · apply ih acc' none hacc.2 hrest.2 (by simp)
        intro _ a ha t ht
        exact Nat.lt_of_lt_of_le (hacc.1 a ha) (hrest.1 t ht)
      · have hp : ((e, c' + c) :: acc').Pairwise (fun a b => b.1 < a.1) :=
          List.pairwise_cons.mpr ⟨hacc.1, hacc.2⟩
        apply ih _ last hp hrest.2
        · intro e' he'
          rw [hl] at he'; cases he'
          exact ⟨⟨_, _, rfl⟩, fun t ht => hrest.1 t ht⟩
        · intro hn; rw [hl] at hn; cases hn
    · have hlt : ∀ a ∈ acc, a.1 < e := by
        cases hlast : last with
        | none => exact fun a ha => hnone hlast a ha (e, c) (List.mem_cons_self ..)
        | some e' =>
          obtain ⟨⟨c', acc', rfl⟩, hle⟩ := hsome e' hlast
          have h1 : e' ≤ e := hle (e, c) (List.mem_cons_self ..)
          have h2 : e' ≠ e := by intro h; apply hl; rw [hlast, h]
          rw [List.pairwise_cons] at hacc
          intro a ha
          rcases List.mem_cons.mp ha with rfl | ha
          · exact Nat.lt_of_le_of_ne h1 h2
          · exact Nat.lt_trans (hacc.1 a ha) (Nat.lt_of_le_of_ne h1 h2)
      apply ih _ (some e) (List.pairwise_cons.mpr ⟨hlt, hacc⟩) hrest.2
      · intro e' he'; cases he'
        exact ⟨⟨_, _, rfl⟩, fun t ht => hrest.1 t ht⟩
      · intro hn; cases hn

/-- `c.` the repaired `_sort_uniq` returns strictly increasing exponents. -/
theorem sortUniq_sorted (l : List Term) : StrictSorted (sortUniq l) := by
  rw [sortUniq]
  exact mergeFix_sorted [] none _ List.Pairwise.nil (sortByExp_sorted l) (by simp) (by simp)

theorem mergeFix_noZero (acc : List Term) (last : Option ℕ) (rest : List Term)
    (hacc : NoZero acc) (hrest : NoZero rest) : NoZero (mergeFix acc last rest) := by
  induction rest generalizing acc last with
  | nil =>
    rw [mergeFix_nil]; intro t ht; exact hacc t (List.mem_reverse.mp ht)
  | cons t rest ih =>
    obtain ⟨e, c⟩ := t
    have hrest' : NoZero rest := fun t ht => hrest t (List.mem_cons_of_mem _ ht)
    have hc : c ≠ 0 := hrest (e, c) (List.mem_cons_self ..)
    rw [mergeFix_cons]
    split_ifs with hl
    · cases acc with
      | nil =>
        simp only
        apply ih _ _ _ hrest'
        intro t ht; rw [List.mem_singleton] at ht; subst ht; exact hc
      | cons a acc' =>
        obtain ⟨e', c'⟩ := a
        have hacc' : NoZero acc' := fun t ht => hacc t (List.mem_cons_of_mem _ ht)
        simp only
        split_ifs with h0
        · exact ih _ _ hacc' hrest'
        · apply ih _ _ _ hrest'
          intro t ht
          rcases List.mem_cons.mp ht with rfl | ht
          · exact h0
          · exact hacc' t ht
    · apply ih _ _ _ hrest'
      intro t ht
      rcases List.mem_cons.mp ht with rfl | ht
      · exact hc
      · exact hacc t ht

/-- Zero coefficients appear in the output only if the input already contains one. -/
theorem sortUniq_noZero (l : List Term) (h : NoZero l) : NoZero (sortUniq l) := by
  rw [sortUniq]
  apply mergeFix_noZero [] none _ (by intro t ht; cases ht)
  intro t ht
  exact h t ((sortByExp_perm l).mem_iff.mp ht)

/-! ## Horner evaluation (`EvaluationMapper.map_polynomial`) -/

/-- Loop invariant of Horner's scheme on the reversed (weakly decreasing) data. -/
theorem hornerLoop_spec (x res : ℤ) (e : ℕ) (c : ℤ) (rest : List Term)
    (h : ((e, c) :: rest).Pairwise (fun a b => b.1 ≤ a.1)) :
    hornerLoop x res ((e, c) :: rest) = res * x ^ e + evalSpec ((e, c) :: rest) x := by
  induction rest generalizing res e c with
  | nil => simp [hornerLoop]; ring
  | cons t rest ih =>
    obtain ⟨e', c'⟩ := t
    rw [List.pairwise_cons] at h
    have hle : e' ≤ e := h.1 (e', c') (List.mem_cons_self ..)
    rw [hornerLoop]
    rw [ih _ e' c' h.2]
    have : x ^ e = x ^ (e - e') * x ^ e' := by rw [← pow_add]; congr 1; omega
    simp only [evalSpec_cons]
    rw [this]; ring

theorem hornerLoopPy_eq (x res : ℤ) (l : List Term)
    (h : l.Pairwise (fun a b => b.1 ≤ a.1)) :
    hornerLoopPy x res l = some (hornerLoop x res l) := by
  induction l generalizing res with
  | nil => rfl
  | cons t rest ih =>
    obtain ⟨e, c⟩ := t
    rw [List.pairwise_cons] at h
    cases rest with
    | nil => simp [hornerLoopPy, hornerLoop]
    | cons u us =>
      obtain ⟨e', c'⟩ := u
      have hle : e' ≤ e := h.1 _ (List.mem_cons_self ..)
      have := ih ((res + c) * x ^ (e - e')) h.2
      rw [hornerLoopPy, hornerLoop]
      simp only [if_neg (Nat.not_lt.mpr hle)]
      exact this

/-- `d.` Horner evaluation equals the sum-of-monomials value for exponent-sorted data
(weakly increasing is enough; in particular for strictly increasing exponents). -/
theorem evalHorner_eq_spec_of_weak (p : Poly) (x : ℤ) (h : WeakSorted p) :
    evalHorner p x = evalSpec p x := by
  unfold evalHorner
  have hr : p.reverse.Pairwise (fun a b => b.1 ≤ a.1) := by
    rw [List.pairwise_reverse]; exact h
  cases hp : p.reverse with
  | nil =>
    have : p = [] := by simpa using hp
    subst this; rfl
  | cons t rest =>
    obtain ⟨e, c⟩ := t
    rw [hp] at hr
    rw [hornerLoop_spec x 0 e c rest hr, ← hp, evalSpec_reverse]; ring

theorem evalHorner_eq_spec (p : Poly) (x : ℤ) (h : StrictSorted p) :
    evalHorner p x = evalSpec p x :=
  evalHorner_eq_spec_of_weak p x h.weak

/-- The exact mirror stays in the integers on sorted data and computes the same value. -/
theorem evalHornerPy_eq_spec (p : Poly) (x : ℤ) (h : WeakSorted p) :
    evalHornerPy p x = some (evalSpec p x) := by
  unfold evalHornerPy
  rw [hornerLoopPy_eq x 0 p.reverse (by rw [List.pairwise_reverse]; exact h)]
  exact congrArg some (evalHorner_eq_spec_of_weak p x h)

/-! ## ring operations -/

theorem neg_eval (p : Poly) (x : ℤ) : evalSpec (neg p) x = - evalSpec p x := by
  induction p with
  | nil => rfl
  | cons t p ih =>
    obtain ⟨e, c⟩ := t
    simp only [neg, List.map_cons, evalSpec_cons] at ih ⊢
    rw [ih]; ring

theorem add_eval (p q : Poly) (x : ℤ) : evalSpec (add p q) x = evalSpec p x + evalSpec q x := by
  fun_induction add p q with
  | case1 q => simp
  | case2 p hp => simp
  | case3 c1 p e1 c2 q coeff hc ih =>
    simp only [evalSpec_cons, ih, coeff]; ring
  | case4 c1 p e1 c2 q coeff hc ih =>
    have h0 : c1 + c2 = 0 := by simpa [coeff] using hc
    have : c1 * x ^ e1 + c2 * x ^ e1 = 0 := by rw [← add_mul, h0, zero_mul]
    simp only [evalSpec_cons, ih]; linarith
  | case5 e1 c1 p e2 c2 q hne hgt ih =>
    simp only [evalSpec_cons] at ih ⊢; rw [ih]; ring
  | case6 e1 c1 p e2 c2 q hne hgt ih =>
    simp only [evalSpec_cons] at ih ⊢; rw [ih]; ring

theorem sub_eval (p q : Poly) (x : ℤ) : evalSpec (sub p q) x = evalSpec p x - evalSpec q x := by
  rw [sub, add_eval, neg_eval]; ring

theorem scale_eval (p : Poly) (k x : ℤ) : evalSpec (scale p k) x = evalSpec p x * k := by
  induction p with
  | nil => simp [scale]
  | cons t p ih =>
    obtain ⟨e, c⟩ := t
    simp only [scale, List.map_cons, evalSpec_cons] at ih ⊢
    rw [ih]; ring

theorem evalSpec_map_term (s : Term) (q : Poly) (x : ℤ) :
    evalSpec (q.map fun o => (s.1 + o.1, s.2 * o.2)) x = s.2 * x ^ s.1 * evalSpec q x := by
  induction q with
  | nil => simp
  | cons o q ih =>
    obtain ⟨e, c⟩ := o
    simp only [List.map_cons, evalSpec_cons, ih, pow_add]; ring

theorem mulRaw_eval (p q : Poly) (x : ℤ) :
    evalSpec (mulRaw p q) x = evalSpec p x * evalSpec q x := by
  induction p with
  | nil => simp [mulRaw]
  | cons s p ih =>
    unfold mulRaw at ih ⊢
    rw [List.flatMap_cons, evalSpec_append, ih, evalSpec_map_term, evalSpec_cons']; ring

theorem mul_eval (p q : Poly) (x : ℤ) : evalSpec (mul p q) x = evalSpec p x * evalSpec q x := by
  rw [mul, sortUniq_eval, mulRaw_eval]

theorem one_eval (x : ℤ) : evalSpec one x = 1 := by simp [one]

theorem pow_eval (p : Poly) (n : ℕ) (x : ℤ) : evalSpec (pow p n) x = evalSpec p x ^ n :=
  integerPower_hom (fun p => evalSpec p x) mul one (fun a b => mul_eval a b x) (one_eval x) p n

theorem mul_sorted (p q : Poly) : StrictSorted (mul p q) := sortUniq_sorted _

/-! ### `__add__` preserves the class invariant -/

theorem add_lower_bound (m : ℕ) (p q : Poly) (hp : ∀ t ∈ p, m < t.1) (hq : ∀ t ∈ q, m < t.1) :
    ∀ t ∈ add p q, m < t.1 := by
  fun_induction add p q with
  | case1 q => exact hq
  | case2 p _ => exact hp
  | case3 c1 p e1 c2 q coeff hc ih =>
    intro t ht
    rcases List.mem_cons.mp ht with rfl | ht
    · exact hp (e1, c1) (List.mem_cons_self ..)
    · exact ih (fun t h => hp t (List.mem_cons_of_mem _ h))
        (fun t h => hq t (List.mem_cons_of_mem _ h)) t ht
  | case4 c1 p e1 c2 q coeff hc ih =>
    exact ih (fun t h => hp t (List.mem_cons_of_mem _ h))
      (fun t h => hq t (List.mem_cons_of_mem _ h))
  | case5 e1 c1 p e2 c2 q hne hgt ih =>
    intro t ht
    rcases List.mem_cons.mp ht with rfl | ht
    · exact hq _ (List.mem_cons_self ..)
    · exact ih hp (fun t h => hq t (List.mem_cons_of_mem _ h)) t ht
  | case6 e1 c1 p e2 c2 q hne hgt ih =>
    intro t ht
    rcases List.mem_cons.mp ht with rfl | ht
    · exact hp _ (List.mem_cons_self ..)
    · exact ih (fun t h => hp t (List.mem_cons_of_mem _ h)) hq t ht

theorem add_sorted (p q : Poly) (hp : StrictSorted p) (hq : StrictSorted q) :
    StrictSorted (add p q) := by
  unfold StrictSorted at *
  fun_induction add p q with
  | case1 q => exact hq
  | case2 p _ => exact hp
  | case3 c1 p e1 c2 q coeff hc ih =>
    rw [List.pairwise_cons] at hp hq ⊢
    exact ⟨add_lower_bound e1 p q hp.1 hq.1, ih hp.2 hq.2⟩
  | case4 c1 p e1 c2 q coeff hc ih =>
    rw [List.pairwise_cons] at hp hq
    exact ih hp.2 hq.2
  | case5 e1 c1 p e2 c2 q hne hgt ih =>
    have hq' := List.pairwise_cons.mp hq
    have hp' := List.pairwise_cons.mp hp
    rw [List.pairwise_cons]
    refine ⟨add_lower_bound e2 _ q ?_ hq'.1, ih hp hq'.2⟩
    intro t ht
    rcases List.mem_cons.mp ht with rfl | ht
    · exact hgt
    · exact Nat.lt_trans hgt (hp'.1 t ht)
  | case6 e1 c1 p e2 c2 q hne hgt ih =>
    have hq' := List.pairwise_cons.mp hq
    have hp' := List.pairwise_cons.mp hp
    have hlt : e1 < e2 := by omega
    rw [List.pairwise_cons]
    refine ⟨add_lower_bound e1 p _ hp'.1 ?_, ih hp'.2 hq⟩
    intro t ht
    rcases List.mem_cons.mp ht with rfl | ht
    · exact hlt
    · exact Nat.lt_trans hlt (hq'.1 t ht)

theorem add_noZero (p q : Poly) (hp : NoZero p) (hq : NoZero q) : NoZero (add p q) := by
  unfold NoZero at *
  fun_induction add p q with
  | case1 q => exact hq
  | case2 p _ => exact hp
  | case3 c1 p e1 c2 q coeff hc ih =>
    intro t ht
    rcases List.mem_cons.mp ht with rfl | ht
    · exact hc
    · exact ih (fun t h => hp t (List.mem_cons_of_mem _ h))
        (fun t h => hq t (List.mem_cons_of_mem _ h)) t ht
  | case4 c1 p e1 c2 q coeff hc ih =>
    exact ih (fun t h => hp t (List.mem_cons_of_mem _ h))
      (fun t h => hq t (List.mem_cons_of_mem _ h))
  | case5 e1 c1 p e2 c2 q hne hgt ih =>
    intro t ht
    rcases List.mem_cons.mp ht with rfl | ht
    · exact hq _ (List.mem_cons_self ..)
    · exact ih hp (fun t h => hq t (List.mem_cons_of_mem _ h)) t ht
  | case6 e1 c1 p e2 c2 q hne hgt ih =>
    intro t ht
    rcases List.mem_cons.mp ht with rfl | ht
    · exact hp _ (List.mem_cons_self ..)
    · exact ih (fun t h => hp t (List.mem_cons_of_mem _ h)) hq t ht

theorem neg_sorted (p : Poly) (hp : StrictSorted p) : StrictSorted (neg p) := by
  unfold StrictSorted neg at *
  rw [List.pairwise_map]; exact hp

/-! ## The exact mirror `mergePy` / `sortUniqPy` / `mulPy` / `powPy` versus the repaired ones -/

theorem mergePy_nil (acc : List Term) (last : Option ℕ) :
    mergePy acc last [] = some acc.reverse := by
  cases acc <;> rfl

theorem mergePy_cons (acc : List Term) (last : Option ℕ) (e : ℕ) (c : ℤ) (rest : List Term) :
    mergePy acc last ((e, c) :: rest) =
      if last = some e then
        match acc with
        | [] => none
        | (_, c') :: acc' =>
          if c' + c = 0 then mergePy acc' last rest
          else mergePy ((e, c' + c) :: acc') last rest
      else
        mergePy ((e, c) :: acc) (some e) rest := by
  cases acc <;> rfl

/-- All stored coefficients are positive. -/
def AllPos (p : List Term) : Prop := ∀ t ∈ p, 0 < t.2

instance (p : List Term) : Decidable (AllPos p) := by unfold AllPos; infer_instance

/-- (A) With positive coefficients no partial sum vanishes, `pop()` never runs, and the code
as written agrees with the repaired loop. -/
theorem mergePy_eq_of_pos (acc : List Term) (last : Option ℕ) (rest : List Term)
    (hacc : AllPos acc) (hrest : AllPos rest) (hinv : ∀ e, last = some e → acc ≠ []) :
    mergePy acc last rest = some (mergeFix acc last rest) ∧
      AllPos (mergeFix acc last rest) := by
  induction rest generalizing acc last with
  | nil =>
    rw [mergePy_nil, mergeFix_nil]
    exact ⟨rfl, fun t ht => hacc t (List.mem_reverse.mp ht)⟩
  | cons t rest ih =>
    obtain ⟨e, c⟩ := t
    have hrest' : AllPos rest := fun t ht => hrest t (List.mem_cons_of_mem _ ht)
    have hc : 0 < c := hrest (e, c) (List.mem_cons_self ..)
    rw [mergePy_cons, mergeFix_cons]
    split_ifs with hl
    · cases acc with
      | nil => exact absurd rfl (hinv e hl)
      | cons a acc' =>
        obtain ⟨e', c'⟩ := a
        have hc' : 0 < c' := hacc (e', c') (List.mem_cons_self ..)
        have hacc' : AllPos acc' := fun t ht => hacc t (List.mem_cons_of_mem _ ht)
        have h0 : ¬ c' + c = 0 := by omega
        simp only [if_neg h0]
        apply ih _ _ _ hrest' (fun _ _ => List.cons_ne_nil _ _)
        intro t ht
        rcases List.mem_cons.mp ht with rfl | ht
        · show 0 < c' + c; omega
        · exact hacc' t ht
    · apply ih _ _ _ hrest' (fun _ _ => List.cons_ne_nil _ _)
      intro t ht
      rcases List.mem_cons.mp ht with rfl | ht
      · exact hc
      · exact hacc t ht

theorem sortUniqPy_eq_of_pos (l : List Term) (h : AllPos l) :
    sortUniqPy l = some (sortUniq l) ∧ AllPos (sortUniq l) := by
  unfold sortUniqPy sortUniq
  apply mergePy_eq_of_pos [] none _ (by intro t ht; cases ht) _ (by simp)
  intro t ht
  exact h t ((sortByExp_perm l).mem_iff.mp ht)

/-- (B) If no exponent occurs more than twice, a `pop()` is never followed by another term of
the same exponent, so the stale `last_exp` is harmless. -/
theorem mergePy_eq_of_count (acc : List Term) (lastPy lastFix : Option ℕ) (rest : List Term)
    (hrel : lastPy = lastFix ∨
      (lastFix = none ∧ ∃ e, lastPy = some e ∧ ∀ t ∈ rest, t.1 ≠ e))
    (h1 : ∀ e, lastFix = some e → acc ≠ [] ∧ rest.countP (fun t => t.1 = e) ≤ 1)
    (h2 : ∀ e, rest.countP (fun t => t.1 = e) ≤ 2) :
    mergePy acc lastPy rest = some (mergeFix acc lastFix rest) := by
  induction rest generalizing acc lastPy lastFix with
  | nil => rw [mergePy_nil, mergeFix_nil]
  | cons t rest ih =>
    obtain ⟨e, c⟩ := t
    have h2' : ∀ e', rest.countP (fun t => t.1 = e') ≤ 2 := by
      intro e'
      have := h2 e'
      rw [List.countP_cons] at this
      omega
    rw [mergePy_cons, mergeFix_cons]
    rcases hrel with rfl | ⟨hn, e0, hpy, hne⟩
    · split_ifs with hl
      · obtain ⟨hacc, hcnt⟩ := h1 e hl
        rw [List.countP_cons] at hcnt
        simp only [decide_true, if_true] at hcnt
        cases acc with
        | nil => exact absurd rfl hacc
        | cons a acc' =>
          obtain ⟨e', c'⟩ := a
          simp only
          split_ifs with h0
          · apply ih acc' lastPy none
            · right
              refine ⟨rfl, e, hl, ?_⟩
              have hz : rest.countP (fun t => decide (t.1 = e)) = 0 := by omega
              rw [List.countP_eq_zero] at hz
              intro t ht
              simpa using hz t ht
            · intro e' he'; cases he'
            · exact h2'
          · apply ih _ lastPy lastPy (Or.inl rfl)
            · intro e' he'
              rw [hl] at he'; cases he'
              exact ⟨List.cons_ne_nil _ _, by omega⟩
            · exact h2'
      · apply ih _ (some e) (some e) (Or.inl rfl)
        · intro e' he'
          cases he'
          have := h2 e
          rw [List.countP_cons] at this
          simp only [decide_true, if_true] at this
          exact ⟨List.cons_ne_nil _ _, by omega⟩
        · exact h2'
    · subst hn
      have hee : e ≠ e0 := hne (e, c) (List.mem_cons_self ..)
      have hl : ¬ lastPy = some e := by rw [hpy]; intro h; cases h; exact hee rfl
      rw [if_neg hl, if_neg (by simp)]
      apply ih _ (some e) (some e) (Or.inl rfl)
      · intro e' he'
        cases he'
        have := h2 e
        rw [List.countP_cons] at this
        simp only [decide_true, if_true] at this
        exact ⟨List.cons_ne_nil _ _, by omega⟩
      · exact h2'

theorem sortUniqPy_eq_of_count (l : List Term)
    (h : ∀ e, l.countP (fun t => t.1 = e) ≤ 2) : sortUniqPy l = some (sortUniq l) := by
  unfold sortUniqPy sortUniq
  apply mergePy_eq_of_count [] none none _ (Or.inl rfl) (by simp)
  intro e
  rw [(sortByExp_perm l).countP_eq]
  exact h e

/-! ### multiplication as coded -/

theorem mulRaw_pos (p q : Poly) (hp : AllPos p) (hq : AllPos q) : AllPos (mulRaw p q) := by
  intro t ht
  unfold mulRaw at ht
  rw [List.mem_flatMap] at ht
  obtain ⟨s, hs, ht⟩ := ht
  rw [List.mem_map] at ht
  obtain ⟨o, ho, rfl⟩ := ht
  exact Int.mul_pos (hp s hs) (hq o ho)

/-- `Polynomial.__mul__` as coded is correct on polynomials with positive coefficients. -/
theorem mulPy_eq_of_pos (p q : Poly) (hp : AllPos p) (hq : AllPos q) :
    mulPy p q = some (mul p q) ∧ AllPos (mul p q) :=
  sortUniqPy_eq_of_pos _ (mulRaw_pos p q hp hq)

theorem countP_map_shift (s : Term) (q : Poly) (hq : StrictSorted q) (e : ℕ) :
    (q.map fun o => ((s.1 + o.1, s.2 * o.2) : Term)).countP (fun t => t.1 = e) ≤ 1 := by
  induction q with
  | nil => simp
  | cons o q ih =>
    unfold StrictSorted at hq ih
    rw [List.pairwise_cons] at hq
    rw [List.map_cons, List.countP_cons]
    split_ifs with h
    · have hz : (q.map fun o => ((s.1 + o.1, s.2 * o.2) : Term)).countP
          (fun t => decide (t.1 = e)) = 0 := by
        rw [List.countP_eq_zero]
        intro t ht
        rw [List.mem_map] at ht
        obtain ⟨o', ho', rfl⟩ := ht
        have := hq.1 o' ho'
        simp only [decide_eq_true_eq] at h ⊢
        omega
      omega
    · have := ih hq.2
      omega

/-- `Polynomial.__mul__` as coded is correct when `self` has at most two terms and `other`
satisfies the class invariant (each exponent then receives at most two products). -/
theorem mulPy_eq_of_length_le_two (p q : Poly) (hp : p.length ≤ 2) (hq : StrictSorted q) :
    mulPy p q = some (mul p q) := by
  apply sortUniqPy_eq_of_count
  intro e
  match p, hp with
  | [], _ => simp [mulRaw]
  | [s], _ =>
    have := countP_map_shift s q hq e
    simp only [mulRaw, List.flatMap_cons, List.flatMap_nil, List.append_nil]
    exact Nat.le_trans this (by omega)
  | [s1, s2], _ =>
    have h1 := countP_map_shift s1 q hq e
    have h2 := countP_map_shift s2 q hq e
    simp only [mulRaw, List.flatMap_cons, List.flatMap_nil, List.append_nil, List.countP_append]
    exact Nat.add_le_add h1 h2

/-! ### `__pow__` as coded -/

theorem integerPowerLoop_option {α : Type*} (P : α → Prop) (mul : α → α → α)
    (mulO : Option α → Option α → Option α)
    (h : ∀ a b, P a → P b → mulO (some a) (some b) = some (mul a b) ∧ P (mul a b))
    (aux x : α) (n : ℕ) (ha : P aux) (hx : P x) :
    integerPowerLoop mulO (some aux) (some x) n = some (integerPowerLoop mul aux x n) ∧
      P (integerPowerLoop mul aux x n) := by
  induction n using Nat.strong_induction_on generalizing aux x with
  | _ n ih =>
    rw [integerPowerLoop, integerPowerLoop.eq_1 mul]
    split_ifs with h0 h1 h2
    · exact h aux x ha hx
    · rw [(h aux x ha hx).1, (h x x hx hx).1]
      exact ih (n / 2) (by omega) _ _ (h aux x ha hx).2 (h x x hx hx).2
    · rw [(h x x hx hx).1]
      exact ih (n / 2) (by omega) _ _ ha (h x x hx hx).2
    · exact ⟨rfl, ha⟩

/-- `Polynomial.__pow__` as coded is correct on polynomials with positive coefficients
(e.g. `(x+1)**n`). -/
theorem powPy_eq_of_pos (p : Poly) (n : ℕ) (hp : AllPos p) :
    powPy p n = some (pow p n) ∧ AllPos (pow p n) := by
  unfold powPy pow integerPower
  apply integerPowerLoop_option AllPos mul _ _ one p n _ hp
  · intro a b ha hb
    simpa using mulPy_eq_of_pos a b ha hb
  · intro t ht
    simp only [one, List.mem_singleton] at ht
    subst ht; decide

/-! ## `__divmod__` (integer coefficients): partial correctness -/

theorem divmodLoop_spec (other : Poly) (fuel : ℕ) (quot rem q' r' : Poly) (x : ℤ)
    (h : divmodLoop other fuel quot rem = some (q', r')) :
    evalSpec q' x * evalSpec other x + evalSpec r' x =
      evalSpec quot x * evalSpec other x + evalSpec rem x := by
  induction fuel generalizing quot rem with
  | zero => simp [divmodLoop] at h
  | succ fuel ih =>
    rw [divmodLoop] at h
    by_cases hdeg : degree rem ≥ degree other
    · rw [if_pos hdeg] at h
      by_cases hlead : Int.fmod (leadTerm rem).2 (leadTerm other).2 ≠ 0
      · rw [if_pos hlead] at h
        simp only [Option.some.injEq, Prod.mk.injEq] at h
        rw [← h.1, ← h.2]
      · rw [if_neg hlead] at h
        rw [ih _ _ h, add_eval, sub_eval, mul_eval]; ring
    · rw [if_neg hdeg] at h
      simp only [Option.some.injEq, Prod.mk.injEq] at h
      rw [← h.1, ← h.2]

/-- `f.` if `divmod(self, other)` returns `(quot, rem)` then `quot*other + rem == self`
(as values at every integer point). -/
theorem divmod_spec (p other q r : Poly) (x : ℤ) (h : divmod p other = some (q, r)) :
    evalSpec q x * evalSpec other x + evalSpec r x = evalSpec p x := by
  unfold divmod at h
  split_ifs at h with h1 h2
  rw [divmodLoop_spec other _ [] p q r x h]; simp

/-- When the loop stops, either the remainder has smaller degree than the divisor, or the
leading coefficient of the divisor does not divide that of the remainder (the early
`return quot, rem` of the non-field branch). -/
theorem divmodLoop_stop (other : Poly) (fuel : ℕ) (quot rem q' r' : Poly)
    (h : divmodLoop other fuel quot rem = some (q', r')) :
    degree r' < degree other ∨
      Int.fmod (leadTerm r').2 (leadTerm other).2 ≠ 0 := by
  induction fuel generalizing quot rem with
  | zero => simp [divmodLoop] at h
  | succ fuel ih =>
    rw [divmodLoop] at h
    by_cases hdeg : degree rem ≥ degree other
    · rw [if_pos hdeg] at h
      by_cases hlead : Int.fmod (leadTerm rem).2 (leadTerm other).2 ≠ 0
      · rw [if_pos hlead] at h
        simp only [Option.some.injEq, Prod.mk.injEq] at h
        rw [← h.2]; exact Or.inr hlead
      · rw [if_neg hlead] at h
        exact ih _ _ h
    · rw [if_neg hdeg] at h
      simp only [Option.some.injEq, Prod.mk.injEq] at h
      rw [← h.2]; left; omega

end PV.Algo
