import PV.Model.Lexer
/-
  C06/C07.  The lexer model with the table unfolded: `firstMatch table table` is a fixed chain of
  matchers (`firstC rulesC`).  The sources of the table are resolved here, once, by `decide`.
-/
namespace PV.Lexer
open PV

/-- match length of a matcher -/
def olen (cs : List Char) (o : Option (List Char)) : Nat :=
  match o with
  | some r => cs.length - r.length
  | none => 0

def lenOf (m : List Char → Option (List Char)) (cs : List Char) : Nat := olen cs (m cs)

theorem reLen_of {src : String} {r : Re} (h : reOf src = some r) (cs : List Char) :
    reLen src cs = lenOf r.run cs := by
  simp only [reLen, h, lenOf, olen]
  cases r.run cs <;> rfl

def firstNZ : List Nat → Nat
  | [] => 0
  | n :: ns => if n = 0 then firstNZ ns else n

/-- the `float` rule: first of the five forms with a non-zero match -/
def floatLen (cs : List Char) : Nat :=
  firstNZ [lenOf float1M cs, lenOf float2M cs, lenOf float3M cs, lenOf float4M cs, lenOf float5M cs]

/-- items of the `imaginary` rule, resolved -/
def imagItem : Item → List Char → Nat
  | .ref _, cs => floatLen cs
  | .re _, cs => lenOf (litM ['j']) cs

/-- the `imaginary` rule: the `float` rule, then `j` -/
def imagLen (cs : List Char) : Nat :=
  (seqLen imagItem [.ref "float", .re "j"] cs).getD 0

abbrev RuleC := String × (List Char → Nat)

def firstC : List RuleC → List Char → Option (String × Nat)
  | [], _ => none
  | (tag, m) :: rs, cs => if m cs = 0 then firstC rs cs else some (tag, m cs)

def rulesC : List RuleC :=
  [("equal", lenOf (litM ['=', '='])),
   ("notequal", lenOf (litM ['!', '='])),
   ("equal", lenOf (litM ['=', '='])),
   ("leftshift", lenOf (litM ['<', '<'])),
   ("rightshift", lenOf (litM ['>', '>'])),
   ("lessequal", lenOf (litM ['<', '='])),
   ("greaterequal", lenOf (litM ['>', '='])),
   ("less", lenOf (litM ['<'])),
   ("greater", lenOf (litM ['>'])),
   ("assign", lenOf (litM ['='])),
   ("and", lenOf (kwM ['a', 'n', 'd'])),
   ("or", lenOf (kwM ['o', 'r'])),
   ("not", lenOf (kwM ['n', 'o', 't'])),
   ("if", lenOf (kwM ['i', 'f'])),
   ("else", lenOf (kwM ['e', 'l', 's', 'e'])),
   ("imaginary", imagLen),
   ("float", floatLen),
   ("int", lenOf (plusM isDigit)),
   ("plus", lenOf (litM ['+'])),
   ("minus", lenOf (litM ['-'])),
   ("exp", lenOf (litM ['*', '*'])),
   ("times", lenOf (litM ['*'])),
   ("floordiv", lenOf (litM ['/', '/'])),
   ("over", lenOf (litM ['/'])),
   ("modulo", lenOf (litM ['%'])),
   ("bitwiseand", lenOf (litM ['&'])),
   ("bitwiseor", lenOf (litM ['|'])),
   ("bitwisenot", lenOf (litM ['~'])),
   ("bitwisexor", lenOf (litM ['^'])),
   ("openpar", lenOf (litM ['('])),
   ("closepar", lenOf (litM [')'])),
   ("openbracket", lenOf (litM ['['])),
   ("closebracket", lenOf (litM [']'])),
   ("True", lenOf (kwM ['T', 'r', 'u', 'e'])),
   ("False", lenOf (kwM ['F', 'a', 'l', 's', 'e'])),
   ("identifier", lenOf identM),
   ("whitespace", lenOf wsM),
   ("comma", lenOf (litM [','])),
   ("dot", lenOf (litM ['.'])),
   ("colon", lenOf (litM [':']))]

theorem dictGet_float : dictGet table "float" = some (.alt
    [.re "[0-9]+\\.[0-9]*([eEdD][+-]?[0-9]+)?([a-zA-Z]*)",
     .re "[0-9]+(\\.[0-9]*)?[eEdD][+-]?[0-9]+([a-zA-Z]*)\\b",
     .re "[0-9]*\\.[0-9]+([eEdD][+-]?[0-9]+)?([a-zA-Z]*)",
     .re "[0-9]*\\.[0-9]+[eEdD][+-]?[0-9]+([a-zA-Z]*)\\b",
     .re "[0-9]+([a-zA-Z]+)"]) := by decide

theorem firstMatch_table_aux (tbl : LexTable) (cs : List Char)
    (hd : dictGet tbl "float" = some (.alt
      [.re "[0-9]+\\.[0-9]*([eEdD][+-]?[0-9]+)?([a-zA-Z]*)",
       .re "[0-9]+(\\.[0-9]*)?[eEdD][+-]?[0-9]+([a-zA-Z]*)\\b",
       .re "[0-9]*\\.[0-9]+([eEdD][+-]?[0-9]+)?([a-zA-Z]*)",
       .re "[0-9]*\\.[0-9]+[eEdD][+-]?[0-9]+([a-zA-Z]*)\\b",
       .re "[0-9]+([a-zA-Z]+)"])) :
    firstMatch tbl table cs = firstC rulesC cs := by
  simp only [table, firstMatch, ruleLen, bodyLen, itemLen, innerLen, altLen, seqLen, hd,
    Option.getD, rulesC, firstC, floatLen, imagLen, imagItem, firstNZ,
    reLen_of (show reOf "==" = some (.lit ['=', '=']) by decide),
    reLen_of (show reOf "!=" = some (.lit ['!', '=']) by decide),
    reLen_of (show reOf "\\<\\<" = some (.lit ['<', '<']) by decide),
    reLen_of (show reOf "\\>\\>" = some (.lit ['>', '>']) by decide),
    reLen_of (show reOf "\\<=" = some (.lit ['<', '=']) by decide),
    reLen_of (show reOf "\\>=" = some (.lit ['>', '=']) by decide),
    reLen_of (show reOf "\\<" = some (.lit ['<']) by decide),
    reLen_of (show reOf "\\>" = some (.lit ['>']) by decide),
    reLen_of (show reOf "=" = some (.lit ['=']) by decide),
    reLen_of (show reOf "and\\b" = some (.kw ['a', 'n', 'd']) by decide),
    reLen_of (show reOf "or\\b" = some (.kw ['o', 'r']) by decide),
    reLen_of (show reOf "not\\b" = some (.kw ['n', 'o', 't']) by decide),
    reLen_of (show reOf "if\\b" = some (.kw ['i', 'f']) by decide),
    reLen_of (show reOf "else\\b" = some (.kw ['e', 'l', 's', 'e']) by decide),
    reLen_of (show reOf "j" = some (.lit ['j']) by decide),
    reLen_of (show reOf "[0-9]+\\.[0-9]*([eEdD][+-]?[0-9]+)?([a-zA-Z]*)" = some .float1 by decide),
    reLen_of (show reOf "[0-9]+(\\.[0-9]*)?[eEdD][+-]?[0-9]+([a-zA-Z]*)\\b" = some .float2 by decide),
    reLen_of (show reOf "[0-9]*\\.[0-9]+([eEdD][+-]?[0-9]+)?([a-zA-Z]*)" = some .float3 by decide),
    reLen_of (show reOf "[0-9]*\\.[0-9]+[eEdD][+-]?[0-9]+([a-zA-Z]*)\\b" = some .float4 by decide),
    reLen_of (show reOf "[0-9]+([a-zA-Z]+)" = some .float5 by decide),
    reLen_of (show reOf "[0-9]+" = some .int by decide),
    reLen_of (show reOf "\\+" = some (.lit ['+']) by decide),
    reLen_of (show reOf "-" = some (.lit ['-']) by decide),
    reLen_of (show reOf "\\*\\*" = some (.lit ['*', '*']) by decide),
    reLen_of (show reOf "\\*" = some (.lit ['*']) by decide),
    reLen_of (show reOf "//" = some (.lit ['/', '/']) by decide),
    reLen_of (show reOf "/" = some (.lit ['/']) by decide),
    reLen_of (show reOf "%" = some (.lit ['%']) by decide),
    reLen_of (show reOf "\\&" = some (.lit ['&']) by decide),
    reLen_of (show reOf "\\|" = some (.lit ['|']) by decide),
    reLen_of (show reOf "\\~" = some (.lit ['~']) by decide),
    reLen_of (show reOf "\\^" = some (.lit ['^']) by decide),
    reLen_of (show reOf "\\(" = some (.lit ['(']) by decide),
    reLen_of (show reOf "\\)" = some (.lit [')']) by decide),
    reLen_of (show reOf "\\[" = some (.lit ['[']) by decide),
    reLen_of (show reOf "\\]" = some (.lit [']']) by decide),
    reLen_of (show reOf "True\\b" = some (.kw ['T', 'r', 'u', 'e']) by decide),
    reLen_of (show reOf "False\\b" = some (.kw ['F', 'a', 'l', 's', 'e']) by decide),
    reLen_of (show reOf "[@$a-z_A-Z_][@$a-zA-Z_0-9]*" = some .ident by decide),
    reLen_of (show reOf "[ \n\t]*" = some .ws by decide),
    reLen_of (show reOf "," = some (.lit [',']) by decide),
    reLen_of (show reOf "\\." = some (.lit ['.']) by decide),
    reLen_of (show reOf "\\:" = some (.lit [':']) by decide),
    Re.run]
  rfl

theorem firstMatch_table (cs : List Char) : firstMatch table table cs = firstC rulesC cs :=
  firstMatch_table_aux table cs dictGet_float

end PV.Lexer
