import PV.Proofs.UnifySem
import PV.Proofs.MatchpyExact
/-
  C16, matchpy bridge: the flags the operation classes declare are sound for the arithmetic
  meaning `evalC` (values in a field of characteristic 0), and everything the round trip may change
  (`BridgeEq`) preserves that meaning.
-/
namespace PV.Matchpy
open PV PV.Unify

set_option linter.unusedSectionVars false

universe u
variable {K : Type u} [Field K] [CharZero K] (ρ : String → K)

/-- an operator the bridge declares commutative / associative is a sum or a product, or has no
arithmetic meaning under `evalC` (logical / bitwise operators: undefined on every operand list) -/
theorem bridgeAC_cases {o : NaryOp} (h : bridgeAC o) :
    isAC o ∨ ∀ cs, evalC ρ (.nary o cs) = none := by
  cases o <;> simp [bridgeAC, mopOfNary, isAC] at h ⊢ <;> intro cs <;> simp [evalC]

theorem evalC_bridge_perm {o : NaryOp} (h : bridgeAC o) {cs ds : List Expr} (hp : cs.Perm ds) :
    evalC ρ (.nary o cs) = evalC ρ (.nary o ds) := by
  rcases bridgeAC_cases ρ h with hac | hnone
  · exact evalC_perm ρ hac hp
  · rw [hnone, hnone]

theorem evalC_bridge_flat {o : NaryOp} (h : bridgeAC o) (xs ys zs : List Expr) :
    evalC ρ (.nary o (xs ++ .nary o ys :: zs)) = evalC ρ (.nary o (xs ++ ys ++ zs)) := by
  rcases bridgeAC_cases ρ h with hac | hnone
  · exact evalC_flat ρ hac xs ys zs
  · rw [hnone, hnone]

mutual
/-- **the round trip preserves the value**: `BridgeEq`-related trees have the same `evalC` value
(both undefined, or both defined and equal) under every assignment -/
theorem BridgeEq.evalC_eq : ∀ {a b : Expr}, BridgeEq a b → evalC ρ a = evalC ρ b
  | _, _, .refl _ => rfl
  | _, _, .symm h => (BridgeEq.evalC_eq h).symm
  | _, _, .trans h1 h2 => (BridgeEq.evalC_eq h1).trans (BridgeEq.evalC_eq h2)
  | _, _, .nary o h => by
      have := BridgeEqL.evalCL_eq h
      cases o <;> simp only [evalC, this]
  | _, _, .bin o h1 h2 => by
      have e1 := BridgeEq.evalC_eq h1
      have e2 := BridgeEq.evalC_eq h2
      cases o <;> simp only [evalC, e1, e2]
  | _, _, .un _ _ => by simp only [evalC]
  | _, _, .cmp _ _ _ => by simp only [evalC]
  | _, _, .ite _ _ _ => by simp only [evalC]
  | _, _, .call _ _ => by simp only [evalC]
  | _, _, .subscript _ _ => by simp only [evalC]
  | _, _, .tuple _ => by simp only [evalC]
  | _, _, .perm hac h => evalC_bridge_perm ρ hac h
  | _, _, .flat xs ys zs hac => evalC_bridge_flat ρ hac xs ys zs
  | _, _, .index _ _ _ => by simp only [evalC]
theorem BridgeEqL.evalCL_eq : ∀ {as bs : List Expr}, BridgeEqL as bs → evalCL ρ as = evalCL ρ bs
  | _, _, .nil => rfl
  | _, _, .cons h t => by simp only [evalCL, BridgeEq.evalC_eq h, BridgeEqL.evalCL_eq t]
end

/-- what matchpy's constructor does with the declared flags (flatten, sort) keeps the value: the
image of `cls(*operands)` has the value of the n-ary node over the images of the operands -/
theorem mk_value {mo : MOp} {o : NaryOp} (hn : mo.nary? = some o) {ts : List MTerm}
    {es : List Expr} (hes : fromML ts = .ok es) :
    ∃ e', fromM (mk mo ts) = .ok e' ∧ BridgeEq (.nary o es) e' := by
  have hac : mo.isAC = true := by simp [MOp.isAC, hn]
  obtain ⟨es2, hfl, hrel2⟩ := fromML_flatten hn hes
  obtain ⟨es3, hs, hp⟩ := fromML_perm (pySort_perm MTerm.lt (flattenOps mo ts)).symm hfl
  refine ⟨.nary o es3, by rw [mk_ac hac, fromM_ac hn, hs]; rfl, ?_⟩
  have h2 := hrel2 []
  simp only [List.nil_append] at h2
  exact h2.trans (.perm (by simp [bridgeAC, nary?_mopOfNary hn]) hp)

end PV.Matchpy
