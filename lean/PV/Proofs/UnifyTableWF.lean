import PV.Proofs.UnifyTableLink
/-
  C16 (T-gen), part 6: records with distinct keys stay so through every function of the model
  (`URec.WF`: what makes an association list a Python dict), in particular through `unifyE`.
-/
open PV PV.Unify
namespace PV.Unify

theorem c16_size_pos (e : Expr) : 0 < e.size := by
  cases e <;> simp [Expr.size] <;> omega

theorem c16_size_le_of_mem {c : Expr} : ∀ {cs : List Expr}, c ∈ cs → c.size ≤ Expr.sizeL cs
  | d :: ds, h => by
    simp only [List.mem_cons] at h
    simp only [Expr.sizeL]
    rcases h with rfl | h
    · omega
    · have := c16_size_le_of_mem h; omega

theorem unpackIndex_size (i : Expr) : (unpackIndex i).size ≤ i.size := by
  cases i with
  | tuple cs =>
    match cs with
    | [] => simp [unpackIndex]
    | [x] => simp [unpackIndex, Expr.size, Expr.sizeL]
    | x :: y :: l => simp [unpackIndex]
  | _ => simp [unpackIndex]

theorem bindParts_wf' {cands : List String} {o : NaryOp} {ds : List Expr} {zs cur u'} (hc : URec.WF cur)
    (h : bindParts cands o ds cur zs = some u') : u'.WF := bindParts_wf zs cur u' hc h

theorem matchPlain_wf {cands : List String} {o : NaryOp} {plain : List String} {hasNonvar : Bool}
    {ds : List Expr} {us : List URec} {u : URec} {left : List Nat} (hus : ∀ v ∈ us, v.WF) (hu : u.WF) :
    ∀ r ∈ matchPlain cands o plain hasNonvar ds us u left, r.WF := by
  intro r hr
  simp only [matchPlain] at hr
  split at hr
  · simp at hr; subst hr; exact hu
  · split at hr
    · simp only [Option.mem_toList, Option.mem_def] at hr
      have := List.mem_of_mem_head? hr
      simp only [List.mem_filterMap] at this
      obtain ⟨part, _, hb⟩ := this
      exact bindParts_wf' hu hb
    · simp only [List.mem_flatMap, List.mem_filterMap] at hr
      obtain ⟨res, ⟨part, _, hb⟩, hr⟩ := hr
      exact unifyMany_wf hus (bindParts_wf' hu hb) hr

theorem matchChildren_wf {cands : List String} {o : NaryOp} {plain : List String} {hasNonvar : Bool}
    {ds : List Expr} {us : List URec} (hus : ∀ v ∈ us, v.WF) :
    ∀ (t : List (List (Nat × List URec))) (u : URec) (left : List Nat),
      (∀ row ∈ t, ∀ p ∈ row, ∀ r ∈ p.2, r.WF) → u.WF →
      ∀ r ∈ matchChildren cands o plain hasNonvar ds us t u left, r.WF
  | [], u, left, _, hu => by
    intro r hr
    simp only [matchChildren] at hr
    exact matchPlain_wf hus hu r hr
  | row :: rest, u, left, ht, hu => by
    intro r hr
    simp only [matchChildren, List.mem_flatMap] at hr
    obtain ⟨p, hp, hr⟩ := hr
    obtain ⟨j, pairs⟩ := p
    simp only at hr
    split at hr
    · simp only [List.mem_flatMap, List.mem_filterMap] at hr
      obtain ⟨cu, ⟨q, hq, hqu⟩, hr⟩ := hr
      have hcu : cu.WF := unify_wf (ht row (by simp) (j, pairs) hp q hq) hu hqu
      exact matchChildren_wf hus rest cu _ (fun row' h' => ht row' (by simp [h'])) hcu r hr
    · simp at hr

/-- one unfolding keeps records well-formed when the recursive calls on SMALLER patterns do -/
theorem c16UnifyF_wf (cands : List String) (recur : Expr → Expr → List URec → List URec) (e : Expr)
    (hrec : ∀ a, a.size < e.size → ∀ b vs, (∀ v ∈ vs, v.WF) → ∀ r ∈ recur a b vs, r.WF)
    (oth : Expr) (us : List URec) (hus : ∀ v ∈ us, v.WF) :
    ∀ r ∈ c16UnifyF cands recur e oth us, r.WF := by
  intro r hr
  cases e with
  | const c =>
    simp only [c16UnifyF] at hr
    split at hr
    · exact hus r hr
    · simp at hr
  | var x =>
    simp only [c16UnifyF, mapVariable_eq] at hr
    split at hr
    · rename_i n hn
      exact unifyMany_wf hus (recFromEq_wf hn) hr
    · split at hr
      · exact hus r hr
      · simp at hr
  | nary o cs =>
    cases oth <;> simp only [c16UnifyF] at hr <;> try (simp at hr)
    rename_i o' ds
    obtain ⟨_, hr⟩ := hr
    simp only [c16CommutF] at hr
    refine matchChildren_wf hus _ _ _ ?_ wf_empty r hr
    intro row hrow
    simp only [List.mem_map, List.mem_filter] at hrow
    obtain ⟨c, ⟨hc, _⟩, rfl⟩ := hrow
    have hsz : c.size < (Expr.nary o cs).size := by
      have := c16_size_le_of_mem hc; simp [Expr.size]; omega
    exact c16RowF_wf (hrec c hsz) hus
  | bin o a b =>
    cases oth <;> simp only [c16UnifyF] at hr <;> try (simp at hr)
    rename_i o' a' b'
    obtain ⟨_, hr⟩ := hr
    exact hrec a (by simp [Expr.size]; have := c16_size_pos b; omega) _ _
      (hrec b (by simp [Expr.size]; have := c16_size_pos a; omega) _ _ hus) r hr
  | un o a =>
    cases oth <;> simp only [c16UnifyF] at hr <;> try (simp at hr)
    obtain ⟨_, hr⟩ := hr
    exact hrec a (by simp [Expr.size]) _ _ hus r hr
  | cmp o a b =>
    cases oth <;> simp only [c16UnifyF] at hr <;> try (simp at hr)
    obtain ⟨_, hr⟩ := hr
    exact hrec a (by simp [Expr.size]; have := c16_size_pos b; omega) _ _
      (hrec b (by simp [Expr.size]; have := c16_size_pos a; omega) _ _ hus) r hr
  | ite c t e =>
    cases oth <;> simp only [c16UnifyF] at hr <;> try (simp at hr)
    have h1 := c16_size_pos c; have h2 := c16_size_pos t; have h3 := c16_size_pos e
    exact hrec c (by simp [Expr.size]; omega) _ _
      (hrec t (by simp [Expr.size]; omega) _ _ (hrec e (by simp [Expr.size]; omega) _ _ hus)) r hr
  | call f as =>
    cases oth <;> simp only [c16UnifyF] at hr <;> try (simp at hr)
    have h1 := c16_size_pos f
    exact hrec f (by simp [Expr.size]; omega) _ _
      (hrec (.tuple as) (by simp [Expr.size]; omega) _ _ hus) r hr
  | subscript a i =>
    cases oth <;> simp only [c16UnifyF] at hr <;> try (simp at hr)
    have h1 := c16_size_pos a; have h2 := c16_size_pos i; have h3 := unpackIndex_size i
    exact hrec a (by simp [Expr.size]; omega) _ _
      (hrec (unpackIndex i) (by simp [Expr.size]; omega) _ _ hus) r hr
  | lookup a n =>
    cases oth <;> simp only [c16UnifyF] at hr <;> try (simp at hr)
    obtain ⟨_, hr⟩ := hr
    exact hrec a (by simp [Expr.size]) _ _ hus r hr
  | tuple cs =>
    cases oth <;> simp only [c16UnifyF] at hr <;> try (simp at hr)
    rename_i ds
    obtain ⟨_, hr⟩ := hr
    · have hz : ∀ (L : List (Expr × Expr)) (vs : List URec), (∀ p ∈ L, p.1 ∈ cs) → (∀ v ∈ vs, v.WF) →
          ∀ r ∈ c16ZipF recur L vs, r.WF := by
        intro L
        induction L with
        | nil => intro vs _ hv r hr; simpa [c16ZipF] using hv r hr
        | cons p L ih =>
          intro vs hL hv r hr
          obtain ⟨c, d⟩ := p
          simp only [c16ZipF] at hr
          split at hr
          · simp at hr
          · have hc : c ∈ cs := hL (c, d) (by simp)
            exact ih _ (fun q hq => hL q (by simp [hq]))
              (hrec c (by have := c16_size_le_of_mem hc; simp [Expr.size]; omega) d vs hv) r hr
      exact hz _ _ (fun p hp => (List.of_mem_zip hp).1) hus r hr
  | _ => simp [c16UnifyF] at hr

/-- **`unifyE` keeps records well-formed.** -/
theorem unifyE_wf (cands : List String) : ∀ (n : Nat) (e : Expr), e.size ≤ n → ∀ (oth : Expr)
    (us : List URec), (∀ v ∈ us, v.WF) → ∀ r ∈ unifyE cands e oth us, r.WF
  | 0, e, h => by have := c16_size_pos e; omega
  | n + 1, e, h => by
    intro oth us hus r hr
    rw [unifyE_eq_F] at hr
    exact c16UnifyF_wf cands (unifyE cands) e
      (fun a ha b vs hv q hq => unifyE_wf cands n a (by omega) b vs hv q hq) oth us hus r hr

theorem unifyE_wf' (cands : List String) (e oth : Expr) (us : List URec) (hus : ∀ v ∈ us, v.WF) :
    ∀ r ∈ unifyE cands e oth us, r.WF := unifyE_wf cands e.size e (Nat.le_refl _) oth us hus

end PV.Unify
