import PV.Model.CCode
/-
  C14.  C's reading of a chain of binary operators (`c14EvalChain`: group around the last operator
  of the lowest precedence) against the TREE the printer had in mind.

  `exposedOps d` : the binary operators of the text of `d` that are not inside parentheses
  `cwf d`        : every infix node of `d` has, on its left, only exposed operators that bind at
                   least as tightly as its own, and on its right only operators that bind tighter
                   — or equally tightly where regrouping does not change the value
                   (`a + (b - c)`, `a * (b * c)`, `a & (b & c)`, `a && (b && c)`, …); a prefix
                   operator is applied to a primary
  `denT d`       : the value of `d` read as the tree it is
  `denC_eq_denT` : on well-formed structures C's reading is the tree's value.
-/
namespace PV.C14
open PV

/-! ### the operators -/

theorem prec_le_ten (o : COp) : o.prec ≤ 10 := by
  cases o with
  | cmp c => cases c <;> simp [COp.prec]
  | _ => simp [COp.prec]

theorem prec_pos (o : COp) : 1 ≤ o.prec := by
  cases o with
  | cmp c => cases c <;> simp [COp.prec]
  | _ => simp [COp.prec]

/-- `(x op y) o2 z = x op (y o2 z)` for these pairs of one precedence level -/
def assocPair : COp → COp → Bool
  | .plus, .plus | .plus, .minus | .times, .times | .band, .band | .bxor, .bxor | .bor, .bor
  | .land, .land | .lor, .lor => true
  | _, _ => false

/-- `&`, `^`, `|` of C on non-negative operands -/
def bitC (f : Nat → Nat → Nat) (a b : Int) : Option Int :=
  if a < 0 ∨ b < 0 then none else some (Int.ofNat (f a.toNat b.toNat))

theorem bitC_assoc (f : Nat → Nat → Nat) (hf : ∀ a b c, f (f a b) c = f a (f b c)) (a b c : Int) :
    (bitC f a b).bind (fun ab => bitC f ab c) = (bitC f b c).bind (fun bc => bitC f a bc) := by
  unfold bitC
  by_cases ha : a < 0
  · simp only [ha, true_or, if_true, Option.bind_none]
    split <;> rfl
  · by_cases hb : b < 0
    · simp [hb]
    · by_cases hc : c < 0
      · simp only [hc, or_true, if_true, Option.bind_none]
        split <;> simp
      · simp [ha, hb, hc, hf]
        rw [if_neg (by omega), if_neg (by omega)]

theorem applyL_band (x y : Option Int) :
    COp.applyL .band x y = x.bind fun a => y.bind fun b => bitC (· &&& ·) a b := by
  cases x <;> cases y <;> simp [COp.applyL, COp.apply, bitC]

theorem applyL_bxor (x y : Option Int) :
    COp.applyL .bxor x y = x.bind fun a => y.bind fun b => bitC (· ^^^ ·) a b := by
  cases x <;> cases y <;> simp [COp.applyL, COp.apply, bitC]

theorem applyL_bor (x y : Option Int) :
    COp.applyL .bor x y = x.bind fun a => y.bind fun b => bitC (· ||| ·) a b := by
  cases x <;> cases y <;> simp [COp.applyL, COp.apply, bitC]

theorem bind_assoc3 (g : Int → Int → Option Int)
    (hg : ∀ a b c, (g a b).bind (fun ab => g ab c) = (g b c).bind (fun bc => g a bc))
    (x y z : Option Int) :
    ((x.bind fun a => y.bind fun b => g a b).bind fun ab => z.bind fun c => g ab c) =
      x.bind fun a => (y.bind fun b => z.bind fun c => g b c).bind fun bc => g a bc := by
  cases x with
  | none => rfl
  | some a =>
    cases y with
    | none => rfl
    | some b =>
      cases z with
      | none =>
        simp only [Option.bind_some, Option.bind_none]
        cases g a b <;> rfl
      | some c => simpa using hg a b c

theorem assoc_applyL {op o2 : COp} (h : assocPair op o2 = true) (x y z : Option Int) :
    o2.applyL (op.applyL x y) z = op.applyL x (o2.applyL y z) := by
  cases op <;> cases o2 <;> simp [assocPair] at h
  -- plus plus
  · cases x <;> cases y <;> cases z <;> simp [COp.applyL, COp.apply, Int.add_assoc]
  -- plus minus
  · cases x <;> cases y <;> cases z <;> simp [COp.applyL, COp.apply]
    omega
  -- times times
  · cases x <;> cases y <;> cases z <;> simp [COp.applyL, COp.apply, Int.mul_assoc]
  -- band
  · simp only [applyL_band]
    exact bind_assoc3 _ (bitC_assoc (· &&& ·) Nat.and_assoc) x y z
  -- bxor
  · simp only [applyL_bxor]
    exact bind_assoc3 _ (bitC_assoc (· ^^^ ·) Nat.xor_assoc) x y z
  -- bor
  · simp only [applyL_bor]
    exact bind_assoc3 _ (bitC_assoc (· ||| ·) Nat.or_assoc) x y z
  -- land
  · cases x with
    | none => simp [COp.applyL]
    | some a =>
      by_cases ha : a = 0
      · simp [COp.applyL, ha]
      · cases y with
        | none => simp [COp.applyL, ha]
        | some b =>
          by_cases hb : b = 0
          · simp [COp.applyL, ha, hb, c14B2I]
          · cases z with
            | none => simp [COp.applyL, ha, hb, c14B2I]
            | some c => by_cases hc : c = 0 <;> simp [COp.applyL, ha, hb, hc, c14B2I]
  -- lor
  · cases x with
    | none => simp [COp.applyL]
    | some a =>
      by_cases ha : a = 0
      · cases y with
        | none => simp [COp.applyL, ha]
        | some b =>
          by_cases hb : b = 0
          · cases z with
            | none => simp [COp.applyL, ha, hb, c14B2I]
            | some c => by_cases hc : c = 0 <;> simp [COp.applyL, ha, hb, hc, c14B2I]
          · simp [COp.applyL, ha, hb, c14B2I]
      · simp [COp.applyL, ha]

/-! ### chains -/

theorem minPrec_le_of_mem : ∀ (r : CRest) (x : COp × Option Int), x ∈ r → c14MinPrec r ≤ x.1.prec
  | [], _, h => by cases h
  | (o, v) :: t, x, h => by
      simp only [List.mem_cons] at h
      simp only [c14MinPrec]
      rcases h with rfl | h
      · exact Nat.min_le_left _ _
      · exact Nat.le_trans (Nat.min_le_right _ _) (minPrec_le_of_mem t x h)

theorem le_minPrec (m : Nat) (hm : m ≤ 100) : ∀ (r : CRest), (∀ x ∈ r, m ≤ x.1.prec) →
    m ≤ c14MinPrec r
  | [], _ => hm
  | (o, v) :: t, h => by
      simp only [c14MinPrec]
      exact Nat.le_min.mpr ⟨h (o, v) (by simp), le_minPrec m hm t (fun x hx => h x (by simp [hx]))⟩

theorem splitLast_none (m : Nat) : ∀ (r : CRest), (∀ x ∈ r, x.1.prec ≠ m) → c14SplitLast m r = none
  | [], _ => rfl
  | (o, v) :: t, h => by
      simp only [c14SplitLast, splitLast_none m t (fun x hx => h x (by simp [hx]))]
      have := h (o, v) (by simp)
      simp [this]

theorem splitLast_spec (m : Nat) : ∀ (r b : CRest) (o : COp) (v : Option Int) (a : CRest),
    c14SplitLast m r = some (b, o, v, a) →
    r = b ++ (o, v) :: a ∧ o.prec = m ∧ ∀ x ∈ a, x.1.prec ≠ m
  | [], b, o, v, a, h => by simp [c14SplitLast] at h
  | (o1, v1) :: t, b, o, v, a, h => by
      simp only [c14SplitLast] at h
      cases ht : c14SplitLast m t with
      | some w =>
        obtain ⟨b', o', v', a'⟩ := w
        simp only [ht, Option.some.injEq, Prod.mk.injEq] at h
        obtain ⟨rfl, rfl, rfl, rfl⟩ := h
        obtain ⟨h1, h2, h3⟩ := splitLast_spec m t b' o' v' a' ht
        exact ⟨by rw [h1]; rfl, h2, h3⟩
      | none =>
        simp only [ht] at h
        split at h
        · rename_i hp
          simp only [Option.some.injEq, Prod.mk.injEq] at h
          obtain ⟨rfl, rfl, rfl, rfl⟩ := h
          refine ⟨rfl, hp, ?_⟩
          intro x hx hxm
          -- an operator of precedence `m` in `t` would have been found
          have : ∀ (r : CRest), c14SplitLast m r = none → ∀ x ∈ r, x.1.prec ≠ m := by
            intro r
            induction r with
            | nil => intro _ x hx; cases hx
            | cons y ys ih =>
              intro hn x hx
              obtain ⟨o2, v2⟩ := y
              simp only [c14SplitLast] at hn
              cases hys : c14SplitLast m ys with
              | some w => simp [hys] at hn
              | none =>
                simp only [hys] at hn
                split at hn
                · cases hn
                · rename_i hne
                  simp only [List.mem_cons] at hx
                  rcases hx with rfl | hx
                  · exact hne
                  · exact ih hys x hx
          exact this _ ht x hx hxm
        · cases h

theorem splitLast_append (m : Nat) (b : CRest) : ∀ (a : CRest),
    c14SplitLast m (a ++ b) =
      match c14SplitLast m b with
      | some (b1, o, v, b2) => some (a ++ b1, o, v, b2)
      | none => (c14SplitLast m a).map fun w => (w.1, w.2.1, w.2.2.1, w.2.2.2 ++ b)
  | [] => by
      cases hb : c14SplitLast m b with
      | none => simp [c14SplitLast, hb]
      | some w => simp [hb]
  | (o, v) :: t => by
      simp only [List.cons_append, c14SplitLast, splitLast_append m b t]
      cases hb : c14SplitLast m b with
      | some w => simp
      | none =>
        simp only []
        cases ht : c14SplitLast m t with
        | some w => simp
        | none =>
          simp only [Option.map_none]
          split <;> simp

theorem evalChain_fuel : ∀ (n k : Nat) (f : Option Int) (r : CRest), r.length ≤ n → r.length ≤ k →
    c14EvalChain n f r = c14EvalChain k f r
  | _, _, f, [], _, _ => by
      unfold c14EvalChain
      rfl
  | 0, _, _, _ :: _, h, _ => by simp at h
  | _ + 1, 0, _, _ :: _, _, h => by simp at h
  | n + 1, k + 1, f, x :: t, hn, hk => by
      simp only [c14EvalChain]
      cases hs : c14SplitLast (c14MinPrec (x :: t)) (x :: t) with
      | none => rfl
      | some w =>
        obtain ⟨b, o, v, a⟩ := w
        obtain ⟨h1, _, _⟩ := splitLast_spec _ _ b o v a hs
        have hl : b.length + a.length + 1 = (x :: t).length := by
          rw [h1]
          simp only [List.length_append, List.length_cons]
          omega
        simp only [List.length_cons] at hl hn hk
        simp only []
        rw [evalChain_fuel n k f b (by omega) (by omega),
          evalChain_fuel n k v a (by omega) (by omega)]

theorem ev_nil (f : Option Int) : c14Ev (f, []) = f := by
  simp [c14Ev, c14EvalChain]

/-- a non-empty chain is grouped around the last operator of the lowest precedence -/
theorem ev_split (f : Option Int) (r b : CRest) (o : COp) (v : Option Int) (a : CRest)
    (hs : c14SplitLast (c14MinPrec r) r = some (b, o, v, a)) :
    c14Ev (f, r) = o.applyL (c14Ev (f, b)) (c14Ev (v, a)) := by
  obtain ⟨h1, _, _⟩ := splitLast_spec _ _ b o v a hs
  cases r with
  | nil => simp [c14SplitLast] at hs
  | cons x t =>
    have hl : b.length + a.length + 1 = (x :: t).length := by
      rw [h1]
      simp only [List.length_append, List.length_cons]
      omega
    simp only [List.length_cons] at hl
    simp only [c14Ev, List.length_cons, c14EvalChain, hs]
    rw [evalChain_fuel t.length b.length f b (by omega) (Nat.le_refl _),
      evalChain_fuel t.length a.length v a (by omega) (Nat.le_refl _)]

/-- the right operand of `op` may expose operators that bind tighter, or equally tight ones that
can be regrouped -/
def rightOK (op o : COp) : Bool := decide (op.prec < o.prec) || (o.prec == op.prec && assocPair op o)

/-- **C groups `‹chain 1› op ‹chain 2›` as `(‹chain 1›) op (‹chain 2›)`** when chain 1 exposes only
operators binding at least as tightly as `op` and chain 2 only operators binding tighter (or
regroupable ones of the same level). -/
theorem ev_cat (op : COp) : ∀ (n : Nat) (f1 : Option Int) (r1 : CRest) (f2 : Option Int)
    (r2 : CRest), r2.length ≤ n → (∀ x ∈ r1, op.prec ≤ x.1.prec) →
    (∀ x ∈ r2, rightOK op x.1 = true) →
    c14Ev (f1, r1 ++ (op, f2) :: r2) = op.applyL (c14Ev (f1, r1)) (c14Ev (f2, r2)) := by
  intro n
  induction n with
  | zero =>
    intro f1 r1 f2 r2 hn h1 _
    have : r2 = [] := List.eq_nil_of_length_eq_zero (Nat.le_zero.mp hn)
    subst this
    have hmin : c14MinPrec (r1 ++ [(op, f2)]) = op.prec := by
      apply Nat.le_antisymm
      · exact minPrec_le_of_mem _ (op, f2) (by simp)
      · apply le_minPrec _ (Nat.le_trans (prec_le_ten op) (by decide))
        intro x hx
        simp only [List.mem_append, List.mem_singleton] at hx
        rcases hx with hx | rfl
        · exact h1 x hx
        · exact Nat.le_refl _
    have hs : c14SplitLast (c14MinPrec (r1 ++ [(op, f2)])) (r1 ++ [(op, f2)]) =
        some (r1, op, f2, []) := by
      rw [hmin, splitLast_append]
      simp [c14SplitLast]
    rw [ev_split f1 _ r1 op f2 [] hs]
  | succ n ih =>
    intro f1 r1 f2 r2 hn h1 h2
    have h2' : ∀ x ∈ r2, op.prec ≤ x.1.prec := by
      intro x hx
      have := h2 x hx
      simp only [rightOK, Bool.or_eq_true, decide_eq_true_eq, Bool.and_eq_true, beq_iff_eq] at this
      rcases this with h | ⟨h, _⟩ <;> omega
    have hmin : c14MinPrec (r1 ++ (op, f2) :: r2) = op.prec := by
      apply Nat.le_antisymm
      · exact minPrec_le_of_mem _ (op, f2) (by simp)
      · apply le_minPrec _ (Nat.le_trans (prec_le_ten op) (by decide))
        intro x hx
        simp only [List.mem_append, List.mem_cons] at hx
        rcases hx with hx | rfl | hx
        · exact h1 x hx
        · exact Nat.le_refl _
        · exact h2' x hx
    cases hs2 : c14SplitLast op.prec r2 with
    | none =>
      have hs : c14SplitLast (c14MinPrec (r1 ++ (op, f2) :: r2)) (r1 ++ (op, f2) :: r2) =
          some (r1, op, f2, r2) := by
        rw [hmin, splitLast_append]
        simp [c14SplitLast, hs2]
      rw [ev_split f1 _ r1 op f2 r2 hs]
    | some w =>
      obtain ⟨b, o2, v, a⟩ := w
      obtain ⟨hr2, hp2, _⟩ := splitLast_spec _ _ b o2 v a hs2
      have hs : c14SplitLast (c14MinPrec (r1 ++ (op, f2) :: r2)) (r1 ++ (op, f2) :: r2) =
          some (r1 ++ (op, f2) :: b, o2, v, a) := by
        rw [hmin, splitLast_append]
        simp [c14SplitLast, hs2]
      rw [ev_split f1 _ _ o2 v a hs]
      have hlen : b.length ≤ n := by
        rw [hr2] at hn
        simp only [List.length_append, List.length_cons] at hn
        omega
      have hb : ∀ x ∈ b, rightOK op x.1 = true := by
        intro x hx
        exact h2 x (by rw [hr2]; simp [hx])
      rw [ih f1 r1 f2 b hlen h1 hb]
      have hmin2 : c14MinPrec r2 = op.prec := by
        apply Nat.le_antisymm
        · have := minPrec_le_of_mem r2 (o2, v) (by rw [hr2]; simp)
          simpa [hp2] using this
        · exact le_minPrec _ (Nat.le_trans (prec_le_ten op) (by decide)) r2 h2'
      have hs2' : c14SplitLast (c14MinPrec r2) r2 = some (b, o2, v, a) := by rw [hmin2]; exact hs2
      rw [ev_split f2 r2 b o2 v a hs2']
      have ho2 := h2 (o2, v) (by rw [hr2]; simp)
      simp only [rightOK, Bool.or_eq_true, decide_eq_true_eq, Bool.and_eq_true, beq_iff_eq] at ho2
      rcases ho2 with h | ⟨_, h⟩
      · omega
      · exact assoc_applyL h _ _ _

/-! ### printed structures -/

/-- the binary operators of the text of `d` that are not inside parentheses -/
def exposedOps : Doc → List COp
  | .bin l op r => exposedOps l ++ op :: exposedOps r
  | .un _ d => exposedOps d
  | _ => []

theorem ops_chainOf (env : Env) : ∀ d : Doc, (chainOf env d).2.map (·.1) = exposedOps d
  | .lit _ | .var _ | .atom _ | .paren _ | .tern .. | .call2 .. => by simp [chainOf, exposedOps]
  | .bin l op r => by
      simp [chainOf, exposedOps, ops_chainOf env l, ops_chainOf env r]
  | .un _ d => by simp [chainOf, exposedOps, ops_chainOf env d]

theorem mem_chain_ops (env : Env) (d : Doc) (x : COp × Option Int) (h : x ∈ (chainOf env d).2) :
    x.1 ∈ exposedOps d := by
  rw [← ops_chainOf env d]
  exact List.mem_map.mpr ⟨x, h, rfl⟩

def fitsL (op : COp) (d : Doc) : Bool := (exposedOps d).all fun o => decide (op.prec ≤ o.prec)

def fitsR (op : COp) (d : Doc) : Bool := (exposedOps d).all fun o => rightOK op o

/-- the text of the structure, read by C, groups as the structure does (up to regrouping of
`+`/`-`, `*`, `&`, `^`, `|`, `&&`, `||` chains) -/
def cwf : Doc → Bool
  | .bin l op r => cwf l && cwf r && fitsL op l && fitsR op r
  | .un _ d => cwf d && (exposedOps d).isEmpty
  | .paren d => cwf d
  | .tern c t e => cwf c && cwf t && cwf e
  | .call2 _ a b => cwf a && cwf b
  | _ => true

/-- the value of the structure read as a tree -/
def denT (env : Env) : Doc → Option Int
  | .lit n => some n
  | .var x => envInt env x
  | .atom _ => none
  | .paren d => denT env d
  | .bin l op r => op.applyL (denT env l) (denT env r)
  | .un op d => op.apply (denT env d)
  | .tern c t e => c14Tern (denT env c) (denT env t) (denT env e)
  | .call2 f a b => c14Call2 f (denT env a) (denT env b)

/-- **On well-formed structures C's reading of the text is the value of the tree.** -/
theorem denC_eq_denT (env : Env) : ∀ d : Doc, cwf d = true → denC env d = denT env d
  | .lit _, _ => by simp [denC, chainOf, ev_nil, denT]
  | .var _, _ => by simp [denC, chainOf, ev_nil, denT]
  | .atom _, _ => by simp [denC, chainOf, ev_nil, denT]
  | .paren d, h => by
      simp only [cwf] at h
      have := denC_eq_denT env d h
      simp only [denC] at this
      simp [denC, chainOf, ev_nil, denT, this]
  | .tern c t e, h => by
      simp only [cwf, Bool.and_eq_true] at h
      have h1 := denC_eq_denT env c h.1.1
      have h2 := denC_eq_denT env t h.1.2
      have h3 := denC_eq_denT env e h.2
      simp only [denC] at h1 h2 h3
      simp [denC, chainOf, ev_nil, denT, h1, h2, h3]
  | .call2 f a b, h => by
      simp only [cwf, Bool.and_eq_true] at h
      have h1 := denC_eq_denT env a h.1
      have h2 := denC_eq_denT env b h.2
      simp only [denC] at h1 h2
      simp [denC, chainOf, ev_nil, denT, h1, h2]
  | .un op d, h => by
      simp only [cwf, Bool.and_eq_true, List.isEmpty_iff] at h
      have h1 := denC_eq_denT env d h.1
      have hnil : (chainOf env d).2 = [] := by
        have := ops_chainOf env d
        rw [h.2] at this
        exact List.map_eq_nil_iff.mp this
      simp only [denC, c14Ev, hnil, List.length_nil] at h1
      simp only [denC, chainOf, c14Ev, hnil, List.length_nil, denT]
      simp only [c14EvalChain] at h1 ⊢
      rw [h1]
  | .bin l op r, h => by
      simp only [cwf, Bool.and_eq_true, fitsL, fitsR, List.all_eq_true, decide_eq_true_eq] at h
      obtain ⟨⟨⟨hl, hr⟩, hfl⟩, hfr⟩ := h
      have h1 := denC_eq_denT env l hl
      have h2 := denC_eq_denT env r hr
      simp only [denC] at h1 h2
      simp only [denC, chainOf, denT]
      rw [ev_cat op (chainOf env r).2.length (chainOf env l).1 (chainOf env l).2 (chainOf env r).1
        (chainOf env r).2 (Nat.le_refl _)
        (fun x hx => hfl x.1 (mem_chain_ops env l x hx))
        (fun x hx => hfr x.1 (mem_chain_ops env r x hx))]
      rw [← h1, ← h2]

end PV.C14
