import PV.Proofs.AlgoTableMap
import PV.Model.RationalOps
/-
  C19 (T-gen): `Rational` arithmetic and `primitives.quotient` as Python 3 runs them — the table
  regenerated from the current source, `/` being TRUE division.

  `Rational.__init__` leaves two floats in the object.  `traits(float)` is `FieldTraits()`, a class
  with no `lcm`, `gcd`, `get_unit`: the interpreter sends such a method call to the environment
  `ext` under the name `FieldTraits.<method>`; Python raises `AttributeError` (hypotheses `hlcm`,
  `hgcd`, `hunit`).  Every arithmetic method of a `Rational` with float fields ends there.
-/
namespace PV.Algo
open PV.Generated
variable {α : Type}

/-- a `Rational` object whose fields are floats (`a/b`, `c/e`): what the constructor leaves under
Python 3 -/
def c19RatObjF (a b c e : Int) : C19V α :=
  .obj "Rational" ["Numerator", "Denominator"] [.frac a b, .frac c e]

/-- the other operand: a plain int or a `Rational` with float fields -/
inductive RatArgF where
  | int (i : Int)
  | rat (a b c e : Int)

def c19EncRatArgF : RatArgF → C19V α
  | .int i => .int i
  | .rat a b c e => c19RatObjF a b c e

/-- results on the wire (Python 3: only exceptions and plain ints occur) -/
def c19EncRatRes3 : RatRes → C19R (C19V α)
  | .int i => .ok (.int i)
  | .rat n d => .ok (.obj "Rational" ["Numerator", "Denominator"] [.int n, .int d])
  | .raise k => .raise k

section
variable (ops : C19Ops α) (ext : String → List (C19V α) → C19R (C19V α))

theorem c19p3_traits_frac_run (a b : Int) (n : Nat) :
    c19RunFn ops c19Table ext (n + 1) "traits.traits" [.frac a b]
      = .ok (.obj "FieldTraits" [] []) := by
  rw [c19RunFn_succ ops c19Table ext _ _ _ _ _ c19_find_traits rfl]
  simp only [c19Fn_traits_traits]
  have h1 : c19IsInst (c19CxAt ops c19Table ext n (n + 1)) (.frac a b) ["complex", "float"] = true := rfl
  have h2 : c19New (c19CxAt ops c19Table ext n (n + 1)) "FieldTraits" []
      = .ok (.obj "FieldTraits" [] []) := rfl
  c19_run [c19Method, h1, h2]
  rfl

theorem c19p3_traitsTwo (n k : Nat) :
    c19TraitsTwo (c19CxAt ops c19Table ext n k)
      ["ySubX", "xSubY", "raiseNoCommonTraits"] (.obj "FieldTraits" [] [])
      (.obj "FieldTraits" [] []) = .ok (.obj "FieldTraits" [] []) := by
  have hinst : c19IsInst (c19CxAt ops c19Table ext n k) (.obj "FieldTraits" [] [])
      ((c19ClassesOf (c19CxAt ops c19Table ext n k).tbl
        (.obj "FieldTraits" [] [] : C19V α)).take 1) = true := rfl
  rw [c19TraitsTwo]
  simp only [String.reduceEq, if_true, hinst]

theorem c19p3_traitsFold (n k : Nat) (l : List (Int × Int)) :
    c19TraitsFold (c19CxAt ops c19Table ext n k) (.obj "FieldTraits" [] [])
      (l.map fun _ => (.obj "FieldTraits" [] [] : C19V α)) = .ok (.obj "FieldTraits" [] []) := by
  have hrules : (c19CxAt ops c19Table ext n k).tbl.commonTraits
      = ["ySubX", "xSubY", "raiseNoCommonTraits"] := rfl
  induction l with
  | nil => rfl
  | cons a l ih =>
    simp only [List.map_cons, c19TraitsFold, hrules, c19p3_traitsTwo, C19R.bind_ok]
    exact ih

theorem c19p3_mapM_traits (n k : Nat) (l : List (Int × Int)) :
    c19MapM (fun v => (c19CxAt ops c19Table ext (n + 1) k).calls "traits.traits" [v])
      (l.map fun p => (.frac p.1 p.2 : C19V α))
      = .ok (l.map fun _ => (.obj "FieldTraits" [] [] : C19V α)) := by
  induction l with
  | nil => rfl
  | cons a l ih =>
    simp only [List.map_cons, c19MapM, c19CxAt_calls, c19p3_traits_frac_run, C19R.bind_ok]
    simp only [c19CxAt_calls] at ih
    rw [ih]
    rfl

/-- `common_traits` of floats is `FieldTraits()` -/
theorem c19p3_commonTraits_fracs (n k : Nat) (a : Int × Int) (l : List (Int × Int)) :
    c19CommonTraits (c19CxAt ops c19Table ext (n + 1) k)
        ((a :: l).map fun p => (.frac p.1 p.2 : C19V α))
      = .ok (.obj "FieldTraits" [] []) := by
  unfold c19CommonTraits
  rw [c19p3_mapM_traits]
  simp only [List.map_cons, C19R.bind_ok]
  exact c19p3_traitsFold ops ext (n + 1) k l

theorem c19p3_commonTraits_two (n k : Nat) (a b c e : Int) :
    c19CommonTraits (c19CxAt ops c19Table ext (n + 1) k) [.frac a b, .frac c e]
      = .ok (.obj "FieldTraits" [] []) :=
  c19p3_commonTraits_fracs ops ext n k (a, b) [(c, e)]

theorem c19p3_commonTraits_four (n k : Nat) (a b c e a' b' c' e' : Int) :
    c19CommonTraits (c19CxAt ops c19Table ext (n + 1) k)
        [.frac a b, .frac c e, .frac a' b', .frac c' e']
      = .ok (.obj "FieldTraits" [] []) :=
  c19p3_commonTraits_fracs ops ext n k (a, b) [(c, e), (a', b'), (c', e')]

/-- a method `FieldTraits` does not have goes to the environment -/
theorem c19p3_Method_field (n k : Nat) (name : String) (vs : List (C19V α))
    (hn : name ≠ "__class__")
    (h1 : c19FindFn c19Table ("FieldTraits" ++ "." ++ name) = none)
    (h2 : c19FindFn c19Table ("IntegralDomainTraits" ++ "." ++ name) = none)
    (h3 : c19FindFn c19Table ("Traits" ++ "." ++ name) = none) :
    c19Method (c19CxAt ops c19Table ext (n + 1) k) (.obj "FieldTraits" [] []) name vs
      = ext ("FieldTraits" ++ "." ++ name) (.obj "FieldTraits" [] [] :: vs) := by
  have hcls : c19ClassesOf (c19CxAt ops c19Table ext (n + 1) k).tbl
      (.obj "FieldTraits" [] [] : C19V α) = ["FieldTraits", "IntegralDomainTraits", "Traits"] := rfl
  have hres : c19ResolveIn c19Table name ["FieldTraits", "IntegralDomainTraits", "Traits"] = none := by
    simp only [c19ResolveIn, h1, h2, h3]
  rw [c19Method]
  simp only [hn, if_false]
  rw [hcls, c19CxAt_tbl, hres]
  exact c19RunFn_ext ops c19Table ext n _ _ h1

theorem c19p3_Method_get_unit (n k : Nat) (vs : List (C19V α)) :
    c19Method (c19CxAt ops c19Table ext (n + 1) k) (.obj "FieldTraits" [] []) "get_unit" vs
      = ext "FieldTraits.get_unit" (.obj "FieldTraits" [] [] :: vs) :=
  c19p3_Method_field ops ext n k "get_unit" vs (by decide) rfl rfl rfl
theorem c19p3_Method_lcm (n k : Nat) (vs : List (C19V α)) :
    c19Method (c19CxAt ops c19Table ext (n + 1) k) (.obj "FieldTraits" [] []) "lcm" vs
      = ext "FieldTraits.lcm" (.obj "FieldTraits" [] [] :: vs) :=
  c19p3_Method_field ops ext n k "lcm" vs (by decide) rfl rfl rfl
theorem c19p3_Method_gcd (n k : Nat) (vs : List (C19V α)) :
    c19Method (c19CxAt ops c19Table ext (n + 1) k) (.obj "FieldTraits" [] []) "gcd" vs
      = ext "FieldTraits.gcd" (.obj "FieldTraits" [] [] :: vs) :=
  c19p3_Method_field ops ext n k "gcd" vs (by decide) rfl rfl rfl

variable (hlcm : ∀ vs, ext "FieldTraits.lcm" vs = .raise "AttributeError")
  (hgcd : ∀ vs, ext "FieldTraits.gcd" vs = .raise "AttributeError")
  (hunit : ∀ vs, ext "FieldTraits.get_unit" vs = .raise "AttributeError")

include hunit in
/-- `Rational(x, <float>)`: `traits(denominator).get_unit` does not exist -/
theorem c19p3_rational_init_float (x : C19V α) (c e : Int) (n : Nat) :
    c19RunFn ops c19Table ext (n + 1 + 1) "Rational.__init__"
        [.obj "Rational" [] [], x, .frac c e] = .raise "AttributeError" := by
  rw [c19RunFn_succ ops c19Table ext _ _ _ _ _ c19_find_rational_init rfl]
  simp only [c19Fn_Rational___init__]
  c19_run [c19Call_traits, c19p3_traits_frac_run, c19p3_Method_get_unit, hunit]
  rfl

theorem c19p3_New_rational (n k : Nat) (a b : C19V α) :
    c19New (c19CxAt ops c19Table ext n k) "Rational" [a, b]
      = c19RunFn ops c19Table ext n "Rational.__init__" [.obj "Rational" [] [], a, b] := rfl

theorem c19p3_IsInst_int_rational (n k : Nat) (i : Int) :
    c19IsInst (c19CxAt ops c19Table ext n k) (.int i) ["Rational"] = false := rfl
theorem c19p3_IsInst_rat_rational (n k : Nat) (a b c e : Int) :
    c19IsInst (c19CxAt ops c19Table ext n k) (c19RatObjF a b c e) ["Rational"] = true := rfl
theorem c19p3_Attr_num (cx : C19Cx α) (a b c e : Int) :
    c19Attr cx (c19RatObjF a b c e) "Numerator" = .ok (.frac a b) := rfl
theorem c19p3_Attr_den (cx : C19Cx α) (a b c e : Int) :
    c19Attr cx (c19RatObjF a b c e) "Denominator" = .ok (.frac c e) := rfl

/-- the fields `Rational(other)` gets for a plain int, resp. the fields of a `Rational` operand -/
def RatArgF.fields : RatArgF → (Int × Int) × (Int × Int)
  | .int i => ((i, 1), (1, 1))
  | .rat a b c e => ((a, b), (c, e))

def c19RatCoerce3 : List C19S := [
  .ite (.not (.isinst (.var "other") ["Rational"])) [
    .assign (.pat (.name "newother")) (.new "Rational" [(.var "other"), (.int 1)])] [
    .assign (.pat (.name "newother")) (.var "other")]]

theorem c19p3_coerce_run (n k : Nat) (S : C19V α) (other : RatArgF) :
    c19ExecL (c19CxAt ops c19Table ext (n + 1 + 1 + 1) k) c19RatCoerce3
        [("self", S), ("other", c19EncRatArgF other)]
      = .next [("self", S), ("other", c19EncRatArgF other),
          ("newother", c19RatObjF other.fields.1.1 other.fields.1.2 other.fields.2.1
            other.fields.2.2)] := by
  unfold c19RatCoerce3
  cases other with
  | int i =>
    have hi := c19_rational_init_run ops ext i 1 n
    have h1 : c19RationalInit i 1 = some ((i, 1), (1, 1)) := by simp [c19RationalInit]
    rw [h1] at hi
    simp only [c19EncRatArgF, RatArgF.fields]
    c19_run [c19p3_IsInst_int_rational, c19p3_New_rational, hi, c19EncRational]
    rfl
  | rat a b c e =>
    simp only [c19EncRatArgF, RatArgF.fields]
    c19_run [c19p3_IsInst_rat_rational]

/-- `try: B except NoTraitsError: … except NoCommonTraitsError: …` around a body that raises
`AttributeError`: neither clause fires -/
theorem c19_try2_attr (cx : C19Cx α) (body h1 h2 : List C19S) (σ : C19Store α)
    (hb : c19ExecL cx body σ = .raise "AttributeError") :
    c19Exec cx (.tryExcept [.tryExcept body "NoTraitsError" h1] "NoCommonTraitsError" h2) σ
      = .raise "AttributeError" := by
  have hin : c19Exec cx (.tryExcept body "NoTraitsError" h1) σ = .raise "AttributeError" := by
    rw [c19Exec, hb]
    simp
  rw [c19Exec]
  simp only [c19ExecL, hin]
  simp

/-- the frame of `__add__` / `__mul__` as the table has it (Python 3) -/
def c19RatFrame3 (tryB : List C19S) (fb : String) : List C19S :=
  c19RatCoerce3 ++ [
    .assign (.pat (.name "_handler")) (.int 0),
    .tryExcept [.tryExcept tryB "NoTraitsError" [.assign (.pat (.name "_handler")) (.int 1)]]
      "NoCommonTraitsError" [.assign (.pat (.name "_handler")) (.int 2)],
    .ite (.cmp .eq (.var "_handler") (.int 1)) [
        .ret (.call fb [(.var "self"), (.var "other")])] [
      .ite (.cmp .eq (.var "_handler") (.int 2)) [
        .ret (.call fb [(.var "self"), (.var "other")])] []]]

theorem c19p3_frame_run (name fb : String) (tryB : List C19S) (M : Nat) (a b c e : Int)
    (other : RatArgF)
    (hf : c19FindFn c19Table name = some ⟨name, .method, ["self", "other"], [],
      c19RatFrame3 tryB fb⟩)
    (ht : c19ExecL (c19CxAt ops c19Table ext (M + 1 + 1 + 1) (M + 1 + 1 + 1 + 1)) tryB
        [("self", c19RatObjF a b c e), ("other", c19EncRatArgF other),
          ("newother", c19RatObjF other.fields.1.1 other.fields.1.2 other.fields.2.1
            other.fields.2.2), ("_handler", .int 0)]
      = .raise "AttributeError") :
    c19RunFn ops c19Table ext (M + 1 + 1 + 1 + 1) name [c19RatObjF a b c e, c19EncRatArgF other]
      = .raise "AttributeError" := by
  rw [c19RunFn_succ ops c19Table ext _ _ _ _ _ hf rfl]
  simp only [c19RatFrame3]
  rw [c19ExecL_append, c19p3_coerce_run, C19O.andThen_next]
  have htry := c19_try2_attr (c19CxAt ops c19Table ext (M + 1 + 1 + 1) (M + 1 + 1 + 1 + 1))
    tryB [.assign (.pat (.name "_handler")) (.int 1)] [.assign (.pat (.name "_handler")) (.int 2)]
    _ ht
  have ha : c19Exec (c19CxAt ops c19Table ext (M + 1 + 1 + 1) (M + 1 + 1 + 1 + 1))
      (.assign (.pat (.name "_handler")) (.int 0))
      [("self", c19RatObjF a b c e), ("other", c19EncRatArgF other),
        ("newother", c19RatObjF other.fields.1.1 other.fields.1.2 other.fields.2.1
            other.fields.2.2)]
      = .next [("self", c19RatObjF a b c e), ("other", c19EncRatArgF other),
        ("newother", c19RatObjF other.fields.1.1 other.fields.1.2 other.fields.2.1
            other.fields.2.2), ("_handler", .int 0)] := by
    c19_run []
  simp only [c19ExecL]
  rw [ha, C19O.andThen_next, htry]
  rfl

/-- the body of `Rational.__add__` in the current source -/
theorem c19p3_rational_add_body_current :
    c19Fn_Rational___add__ = ⟨"Rational.__add__", .method, ["self", "other"], [],
      c19RatFrame3 [
        .assign (.pat (.name "t")) (.commonTraits [(.attr (.var "self") "Denominator"), (.attr (.var "newother") "Denominator")]),
        .assign (.pat (.name "newden")) (.method (.var "t") "lcm" [(.attr (.var "self") "Denominator"), (.attr (.var "newother") "Denominator")]),
        .assign (.pat (.name "newnum")) (.bin .add (.bin .truediv (.bin .mul (.attr (.var "self") "Numerator") (.var "newden")) (.attr (.var "self") "Denominator")) (.bin .truediv (.bin .mul (.attr (.var "newother") "Numerator") (.var "newden")) (.attr (.var "newother") "Denominator"))),
        .assign (.pat (.name "gcd")) (.method (.var "t") "gcd" [(.var "newden"), (.var "newnum")]),
        .ret (.call "primitives.quotient" [(.bin .truediv (.var "newnum") (.var "gcd")), (.bin .truediv (.var "newden") (.var "gcd"))])]
        "Expression.__add__"⟩ := rfl

/-- `__radd__ = __add__`: the same body under the other name -/
theorem c19p3_rational_radd_body_current :
    c19Fn_Rational___radd__ = { c19Fn_Rational___add__ with name := "Rational.__radd__" } := rfl

/-- the body of `Rational.__mul__` in the current source -/
theorem c19p3_rational_mul_body_current :
    c19Fn_Rational___mul__ = ⟨"Rational.__mul__", .method, ["self", "other"], [],
      c19RatFrame3 [
        .assign (.pat (.name "t")) (.commonTraits [(.attr (.var "self") "Numerator"), (.attr (.var "newother") "Numerator"), (.attr (.var "self") "Denominator"), (.attr (.var "newother") "Denominator")]),
        .assign (.pat (.name "gcd_1")) (.method (.var "t") "gcd" [(.attr (.var "self") "Numerator"), (.attr (.var "newother") "Denominator")]),
        .assign (.pat (.name "gcd_2")) (.method (.var "t") "gcd" [(.attr (.var "newother") "Numerator"), (.attr (.var "self") "Denominator")]),
        .assign (.pat (.name "new_num")) (.bin .truediv (.bin .mul (.bin .truediv (.attr (.var "self") "Numerator") (.var "gcd_1")) (.attr (.var "newother") "Numerator")) (.var "gcd_2")),
        .assign (.pat (.name "new_denom")) (.bin .truediv (.bin .mul (.bin .truediv (.attr (.var "self") "Denominator") (.var "gcd_2")) (.attr (.var "newother") "Denominator")) (.var "gcd_1")),
        .ite (.not (.bin .sub (.var "new_denom") (.int 1))) [
          .ret (.var "new_num")] [],
        .ret (.new "Rational" [(.var "new_num"), (.var "new_denom")])]
        "Expression.__mul__"⟩ := rfl

theorem c19p3_rational_rmul_body_current :
    c19Fn_Rational___rmul__ = { c19Fn_Rational___mul__ with name := "Rational.__rmul__" } := rfl

theorem c19p3_find_add : c19FindFn c19Table "Rational.__add__" = some c19Fn_Rational___add__ := rfl
theorem c19p3_find_radd : c19FindFn c19Table "Rational.__radd__" = some c19Fn_Rational___radd__ := rfl
theorem c19p3_find_mul : c19FindFn c19Table "Rational.__mul__" = some c19Fn_Rational___mul__ := rfl
theorem c19p3_find_rmul : c19FindFn c19Table "Rational.__rmul__" = some c19Fn_Rational___rmul__ := rfl

include hlcm in
/-- **Python 3: `Rational.__add__` on float fields raises `AttributeError`** (`FieldTraits` has no
`lcm`) — whatever the operand, a plain int or another `Rational` -/
theorem c19p3_rational_add_run (a b c e : Int) (other : RatArgF) (M : Nat) :
    c19RunFn ops c19Table ext (M + 1 + 1 + 1 + 1) "Rational.__add__"
        [c19RatObjF a b c e, c19EncRatArgF other] = .raise "AttributeError" := by
  refine c19p3_frame_run ops ext "Rational.__add__" "Expression.__add__" _ M a b c e other
    (by rw [c19p3_find_add, c19p3_rational_add_body_current]) ?_
  c19_run [c19p3_Attr_num, c19p3_Attr_den, c19p3_commonTraits_two, c19p3_Method_lcm, hlcm]

include hlcm in
theorem c19p3_rational_radd_run (a b c e : Int) (other : RatArgF) (M : Nat) :
    c19RunFn ops c19Table ext (M + 1 + 1 + 1 + 1) "Rational.__radd__"
        [c19RatObjF a b c e, c19EncRatArgF other] = .raise "AttributeError" := by
  refine c19p3_frame_run ops ext "Rational.__radd__" "Expression.__add__" _ M a b c e other
    (by rw [c19p3_find_radd, c19p3_rational_radd_body_current, c19p3_rational_add_body_current]) ?_
  c19_run [c19p3_Attr_num, c19p3_Attr_den, c19p3_commonTraits_two, c19p3_Method_lcm, hlcm]

include hgcd in
/-- **Python 3: `Rational.__mul__` on float fields raises `AttributeError`** (`FieldTraits` has no
`gcd`) -/
theorem c19p3_rational_mul_run (a b c e : Int) (other : RatArgF) (M : Nat) :
    c19RunFn ops c19Table ext (M + 1 + 1 + 1 + 1) "Rational.__mul__"
        [c19RatObjF a b c e, c19EncRatArgF other] = .raise "AttributeError" := by
  refine c19p3_frame_run ops ext "Rational.__mul__" "Expression.__mul__" _ M a b c e other
    (by rw [c19p3_find_mul, c19p3_rational_mul_body_current]) ?_
  c19_run [c19p3_Attr_num, c19p3_Attr_den, c19p3_commonTraits_four, c19p3_Method_gcd, hgcd]

include hgcd in
theorem c19p3_rational_rmul_run (a b c e : Int) (other : RatArgF) (M : Nat) :
    c19RunFn ops c19Table ext (M + 1 + 1 + 1 + 1) "Rational.__rmul__"
        [c19RatObjF a b c e, c19EncRatArgF other] = .raise "AttributeError" := by
  refine c19p3_frame_run ops ext "Rational.__rmul__" "Expression.__mul__" _ M a b c e other
    (by rw [c19p3_find_rmul, c19p3_rational_rmul_body_current, c19p3_rational_mul_body_current]) ?_
  c19_run [c19p3_Attr_num, c19p3_Attr_den, c19p3_commonTraits_four, c19p3_Method_gcd, hgcd]

theorem c19Neg_frac (cx : C19Cx α) (a b : Int) : c19Neg cx (.frac a b) = .ok (.frac (-a) b) := rfl

include hunit in
/-- **Python 3: `-Rational(…)` raises `AttributeError`**: `Rational(-float, float)` asks
`FieldTraits()` for `get_unit` -/
theorem c19p3_rational_neg_run (a b c e : Int) (M : Nat) :
    c19RunFn ops c19Table ext (M + 1 + 1 + 1) "Rational.__neg__" [c19RatObjF a b c e]
      = .raise "AttributeError" := by
  have hf : c19FindFn c19Table "Rational.__neg__" = some c19Fn_Rational___neg__ := rfl
  rw [c19RunFn_succ ops c19Table ext _ _ _ _ _ hf rfl]
  simp only [c19Fn_Rational___neg__]
  c19_run [c19p3_Attr_num, c19p3_Attr_den, c19Neg_frac, c19p3_New_rational,
    c19p3_rational_init_float ops ext hunit]
  rfl

include hunit in
/-- **Python 3: `reciprocal` raises `AttributeError`** -/
theorem c19p3_rational_reciprocal_run (a b c e : Int) (M : Nat) :
    c19RunFn ops c19Table ext (M + 1 + 1 + 1) "Rational.reciprocal" [c19RatObjF a b c e]
      = .raise "AttributeError" := by
  have hf : c19FindFn c19Table "Rational.reciprocal" = some c19Fn_Rational_reciprocal := rfl
  rw [c19RunFn_succ ops c19Table ext _ _ _ _ _ hf rfl]
  simp only [c19Fn_Rational_reciprocal]
  c19_run [c19p3_Attr_num, c19p3_Attr_den, c19p3_New_rational,
    c19p3_rational_init_float ops ext hunit]
  rfl

theorem c19Arith_frac_int (o : C19Ops α) (op : C19Bin) (a b k : Int) :
    c19Arith o op (.frac a b) (.int k) = c19Scalar o op (.frac a b) (.int k) := rfl
theorem c19Scalar_pow_frac (o : C19Ops α) (a b k : Int) :
    c19Scalar o .pow (.frac a b) (.int k) =
      if 0 ≤ k then .ok (.frac (a ^ k.toNat) (b ^ k.toNat))
      else if a = 0 then .raise "ZeroDivisionError"
      else .ok (.frac (b ^ (-k).toNat) (a ^ (-k).toNat)) := rfl

include hunit in
/-- **Python 3: `Rational(…) ** k`**: the two float powers are computed (`0.0 ** negative` raises
`ZeroDivisionError`), then `Rational(float, float)` raises `AttributeError` (`c ≠ 0`: the stored
denominator is never zero) -/
theorem c19p3_rational_pow_run (a b c e : Int) (hc : c ≠ 0) (k : Int) (M : Nat) :
    c19RunFn ops c19Table ext (M + 1 + 1 + 1) "Rational.__pow__" [c19RatObjF a b c e, .int k]
      = c19EncRatRes3 (ratPowPy3 a k) := by
  have hf : c19FindFn c19Table "Rational.__pow__" = some c19Fn_Rational___pow__ := rfl
  rw [c19RunFn_succ ops c19Table ext _ _ _ _ _ hf rfl]
  simp only [c19Fn_Rational___pow__]
  unfold ratPowPy3
  by_cases hk : 0 ≤ k
  · have hk' : ¬ (k < 0 ∧ a = 0) := by omega
    c19_run [c19p3_Attr_num, c19p3_Attr_den, c19Arith_frac_int, c19Scalar_pow_frac, hk,
      c19p3_New_rational, c19p3_rational_init_float ops ext hunit]
    simp [hk', c19EncRatRes3, c19Finish]
  · by_cases ha : a = 0
    · have hk' : (k < 0 ∧ a = 0) := ⟨by omega, ha⟩
      c19_run [c19p3_Attr_num, c19p3_Attr_den, c19Arith_frac_int, c19Scalar_pow_frac, hk, hc, ha]
      simp [hk', c19EncRatRes3, c19Finish]
    · c19_run [c19p3_Attr_num, c19p3_Attr_den, c19Arith_frac_int, c19Scalar_pow_frac, hk, hc, ha,
        c19p3_New_rational, c19p3_rational_init_float ops ext hunit]
      simp [c19EncRatRes3, c19Finish]

theorem c19p3_Method_add (n k : Nat) (a b c e : Int) (v : C19V α) :
    c19Method (c19CxAt ops c19Table ext n k) (c19RatObjF a b c e) "__add__" [v]
      = c19RunFn ops c19Table ext n "Rational.__add__" [c19RatObjF a b c e, v] := rfl
theorem c19p3_Neg_rat (n k : Nat) (a b c e : Int) :
    c19Neg (c19CxAt ops c19Table ext n k) (c19RatObjF a b c e)
      = c19RunFn ops c19Table ext n "Rational.__neg__" [c19RatObjF a b c e] := rfl

include hlcm hunit in
/-- **Python 3: `Rational.__sub__` raises `AttributeError`**: for an int operand inside
`__add__`, for a `Rational` operand already in `-other` -/
theorem c19p3_rational_sub_run (a b c e : Int) (other : RatArgF) (M : Nat) :
    c19RunFn ops c19Table ext (M + 1 + 1 + 1 + 1 + 1) "Rational.__sub__"
        [c19RatObjF a b c e, c19EncRatArgF other] = .raise "AttributeError" := by
  have hf : c19FindFn c19Table "Rational.__sub__" = some c19Fn_Rational___sub__ := rfl
  rw [c19RunFn_succ ops c19Table ext _ _ _ _ _ hf rfl]
  simp only [c19Fn_Rational___sub__]
  cases other with
  | int i =>
    have ha := c19p3_rational_add_run ops ext hlcm a b c e (.int (-i)) M
    simp only [c19EncRatArgF] at ha ⊢
    c19_run [c19p3_Method_add, ha]
    rfl
  | rat a' b' c' e' =>
    simp only [c19EncRatArgF]
    c19_run [c19p3_Neg_rat, c19p3_rational_neg_run ops ext hunit]
    rfl

include hunit in
/-- **Python 3: `Rational.__rsub__` raises `AttributeError`** (in `-self`) -/
theorem c19p3_rational_rsub_run (a b c e : Int) (v : C19V α) (M : Nat) :
    c19RunFn ops c19Table ext (M + 1 + 1 + 1 + 1) "Rational.__rsub__"
        [c19RatObjF a b c e, v] = .raise "AttributeError" := by
  have hf : c19FindFn c19Table "Rational.__rsub__" = some c19Fn_Rational___rsub__ := rfl
  rw [c19RunFn_succ ops c19Table ext _ _ _ _ _ hf rfl]
  simp only [c19Fn_Rational___rsub__]
  c19_run [c19p3_Neg_rat, c19p3_rational_neg_run ops ext hunit]
  rfl

def c19RatCoerceSelf3 : List C19S := [
  .ite (.not (.isinst (.var "other") ["Rational"])) [
    .assign (.pat (.name "other")) (.new "Rational" [(.var "other"), (.int 1)])] []]

theorem c19p3_coerce_self_run (n k : Nat) (S : C19V α) (other : RatArgF) :
    c19ExecL (c19CxAt ops c19Table ext (n + 1 + 1 + 1) k) c19RatCoerceSelf3
        [("self", S), ("other", c19EncRatArgF other)]
      = .next [("self", S), ("other", c19RatObjF other.fields.1.1 other.fields.1.2
          other.fields.2.1 other.fields.2.2)] := by
  unfold c19RatCoerceSelf3
  cases other with
  | int i =>
    have hi := c19_rational_init_run ops ext i 1 n
    have h1 : c19RationalInit i 1 = some ((i, 1), (1, 1)) := by simp [c19RationalInit]
    rw [h1] at hi
    simp only [c19EncRatArgF, RatArgF.fields]
    c19_run [c19p3_IsInst_int_rational, c19p3_New_rational, hi, c19EncRational]
    rfl
  | rat a b c e =>
    simp only [c19EncRatArgF, RatArgF.fields]
    c19_run [c19p3_IsInst_rat_rational]

theorem c19p3_rational_div_body_current :
    c19Fn_Rational___div__ = ⟨"Rational.__div__", .method, ["self", "other"], [],
      c19RatCoerceSelf3 ++ [
      .ret (.method (.var "self") "__mul__" [(.new "Rational" [(.attr (.var "other") "Denominator"), (.attr (.var "other") "Numerator")])])]⟩ := rfl

include hunit in
/-- **Python 3: `Rational.__div__` raises `AttributeError`** (in
`Rational(other.Denominator, other.Numerator)`).  `a / b` does not even reach it: Python 3 calls
`__truediv__`, which `Rational` inherits from `Expression`. -/
theorem c19p3_rational_div_run (a b c e : Int) (other : RatArgF) (M : Nat) :
    c19RunFn ops c19Table ext (M + 1 + 1 + 1 + 1) "Rational.__div__"
        [c19RatObjF a b c e, c19EncRatArgF other] = .raise "AttributeError" := by
  have hf : c19FindFn c19Table "Rational.__div__" = some c19Fn_Rational___div__ := rfl
  rw [c19RunFn_succ ops c19Table ext _ _ _ _ _ hf rfl]
  simp only [c19p3_rational_div_body_current]
  rw [c19ExecL_append, c19p3_coerce_self_run, C19O.andThen_next]
  c19_run [c19p3_Attr_num, c19p3_Attr_den, c19p3_New_rational,
    c19p3_rational_init_float ops ext hunit]
  rfl

theorem c19p3_rational_rdiv_body_current :
    c19Fn_Rational___rdiv__ = ⟨"Rational.__rdiv__", .method, ["self", "other"], [],
      c19RatCoerceSelf3 ++ [
      .ret (.method (.new "Rational" [(.attr (.var "self") "Denominator"), (.attr (.var "self") "Numerator")]) "__rmul__" [(.var "other")])]⟩ := rfl

include hunit in
/-- **Python 3: `Rational.__rdiv__` raises `AttributeError`** -/
theorem c19p3_rational_rdiv_run (a b c e : Int) (other : RatArgF) (M : Nat) :
    c19RunFn ops c19Table ext (M + 1 + 1 + 1 + 1) "Rational.__rdiv__"
        [c19RatObjF a b c e, c19EncRatArgF other] = .raise "AttributeError" := by
  have hf : c19FindFn c19Table "Rational.__rdiv__" = some c19Fn_Rational___rdiv__ := rfl
  rw [c19RunFn_succ ops c19Table ext _ _ _ _ _ hf rfl]
  simp only [c19p3_rational_rdiv_body_current]
  rw [c19ExecL_append, c19p3_coerce_self_run, C19O.andThen_next]
  c19_run [c19p3_Attr_num, c19p3_Attr_den, c19p3_New_rational,
    c19p3_rational_init_float ops ext hunit]
  rfl

/-! ## `primitives.quotient` on two ints (Python 3) -/

/-- what `quotient(num, den)` returns on two Python ints: the numerator when `den - 1` is zero,
else what `Rational.__init__` leaves (two floats), `RuntimeError` for a zero denominator -/
def c19EncQuotientInt (num den : Int) : C19R (C19V α) :=
  if den - 1 = 0 then .ok (.int num) else c19EncRational (c19RationalInit num den)

theorem c19p3_find_quotient : c19FindFn c19Table "primitives.quotient"
    = some c19Fn_primitives_quotient := rfl

theorem c19p3_IsInst_traits_euclid (n k : Nat) :
    c19IsInst (c19CxAt ops c19Table ext n k) (.obj "IntegerTraits" [] [])
      ["EuclideanRingTraits"] = true := rfl

/-- **`primitives.quotient` on two ints as regenerated**: `numerator` itself when
`denominator - 1` is zero; otherwise the common traits of two ints are `IntegerTraits`, a
Euclidean ring, and `Rational(numerator, denominator)` is returned — never the `Quotient` node -/
theorem c19p3_quotient_int_run (num den : Int) (n : Nat) :
    c19RunFn ops c19Table ext (n + 1 + 1 + 1 + 1) "primitives.quotient" [.int num, .int den]
      = c19EncQuotientInt num den := by
  rw [c19RunFn_succ ops c19Table ext _ _ _ _ _ c19p3_find_quotient rfl]
  simp only [c19Fn_primitives_quotient]
  unfold c19EncQuotientInt
  by_cases h1 : den - 1 = 0
  · have hb : (den - 1 != 0) = false := by simp [h1]
    c19_run [hb]
    simp [h1]
  · have hb : (den - 1 != 0) = true := by simp [h1]
    have hi := c19_rational_init_run ops ext num den n
    simp only [h1, if_false]
    cases hr : c19RationalInit num den <;> rw [hr] at hi <;>
      c19_run [hb, c19p3_IsInst_int_rational, c19CommonTraits_ints, c19p3_IsInst_traits_euclid,
        c19p3_New_rational, hi, c19EncRational] <;> rfl

/-! ## evaluation: `EvaluationMapper.map_quotient` (also the handler of a `Rational`) -/

theorem c19p3_find_map_quotient : c19FindFn c19Table "EvaluationMapper.map_quotient"
    = some c19Fn_EvaluationMapper_map_quotient := rfl

theorem c19p3_Attr_numerator_prop (n k : Nat) (a b c e : Int) :
    c19Attr (c19CxAt ops c19Table ext n k) (c19RatObjF a b c e) "numerator"
      = c19RunFn ops c19Table ext n "Rational.numerator" [c19RatObjF a b c e] := rfl
theorem c19p3_Attr_denominator_prop (n k : Nat) (a b c e : Int) :
    c19Attr (c19CxAt ops c19Table ext n k) (c19RatObjF a b c e) "denominator"
      = c19RunFn ops c19Table ext n "Rational.denominator" [c19RatObjF a b c e] := rfl

theorem c19p3_numerator_run (a b c e : Int) (n : Nat) :
    c19RunFn ops c19Table ext (n + 1) "Rational.numerator" [c19RatObjF a b c e]
      = .ok (.frac a b) := by
  have hf : c19FindFn c19Table "Rational.numerator" = some c19Fn_Rational_numerator := rfl
  rw [c19RunFn_succ ops c19Table ext _ _ _ _ _ hf rfl]
  simp only [c19Fn_Rational_numerator]
  c19_run [c19p3_Attr_num]
  rfl

theorem c19p3_denominator_run (a b c e : Int) (n : Nat) :
    c19RunFn ops c19Table ext (n + 1) "Rational.denominator" [c19RatObjF a b c e]
      = .ok (.frac c e) := by
  have hf : c19FindFn c19Table "Rational.denominator" = some c19Fn_Rational_denominator := rfl
  rw [c19RunFn_succ ops c19Table ext _ _ _ _ _ hf rfl]
  simp only [c19Fn_Rational_denominator]
  c19_run [c19p3_Attr_den]
  rfl

theorem c19Arith_frac_frac (o : C19Ops α) (op : C19Bin) (a b c e : Int) :
    c19Arith o op (.frac a b) (.frac c e) = c19Scalar o op (.frac a b) (.frac c e) := rfl
theorem c19Scalar_truediv_frac (o : C19Ops α) (a b c e : Int) :
    c19Scalar o .truediv (.frac a b) (.frac c e) =
      if c = 0 then .raise "ZeroDivisionError" else .ok (.frac (a * e) (b * c)) := rfl

/-- **evaluating a `Rational` with float fields `a/b`, `c/e`** (`Mapper.map_rational` delegates to
`map_quotient`): `self.rec` of a number is the number, the result is the float
`(a/b) / (c/e)` -/
theorem c19p3_map_quotient_rational_run (ks : List String) (vs : List (C19V α)) (a b c e : Int)
    (hc : c ≠ 0)
    (hrec : ∀ p q : Int, ext "EvaluationMapper.rec" [c19EvalMapper ks vs, .frac p q] = .ok (.frac p q))
    (n : Nat) :
    c19RunFn ops c19Table ext (n + 1 + 1) "EvaluationMapper.map_quotient"
        [c19EvalMapper ks vs, c19RatObjF a b c e] = .ok (.frac (a * e) (b * c)) := by
  rw [c19RunFn_succ ops c19Table ext _ _ _ _ _ c19p3_find_map_quotient rfl]
  simp only [c19Fn_EvaluationMapper_map_quotient]
  c19_run [c19p3_Attr_numerator_prop, c19p3_numerator_run, c19p3_Attr_denominator_prop,
    c19p3_denominator_run, c19Method_eval_rec, hrec, c19Arith_frac_frac, c19Scalar_truediv_frac, hc]
  rfl

/-- a `Quotient` node over two Python ints -/
def c19QuotientObj (a b : Int) : C19V α :=
  .obj "Quotient" ["numerator", "denominator"] [.int a, .int b]

/-- **evaluating the `Quotient` node of two ints**: Python's `a / b` -/
theorem c19p3_map_quotient_node_run (ks : List String) (vs : List (C19V α)) (a b : Int)
    (hrec : ∀ p : Int, ext "EvaluationMapper.rec" [c19EvalMapper ks vs, .int p] = .ok (.int p))
    (n : Nat) :
    c19RunFn ops c19Table ext (n + 1 + 1) "EvaluationMapper.map_quotient"
        [c19EvalMapper ks vs, c19QuotientObj a b]
      = if b = 0 then .raise "ZeroDivisionError" else .ok (.frac a b) := by
  rw [c19RunFn_succ ops c19Table ext _ _ _ _ _ c19p3_find_map_quotient rfl]
  simp only [c19Fn_EvaluationMapper_map_quotient]
  have h1 : ∀ cx : C19Cx α, c19Attr cx (c19QuotientObj a b) "numerator" = .ok (.int a) := fun _ => rfl
  have h2 : ∀ cx : C19Cx α, c19Attr cx (c19QuotientObj a b) "denominator" = .ok (.int b) := fun _ => rfl
  c19_run [h1, h2, c19Method_eval_rec, hrec]
  split <;> rfl

end
end PV.Algo
