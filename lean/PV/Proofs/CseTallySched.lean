import PV.Model.CseTally
import PV.Proofs.CseShare
import PV.Proofs.CseEval
import PV.Proofs.SyntaxBEq
/-
  C12 helper: the SCHEDULE of an evaluator with a CSE result cache on tagged expressions — which
  operation nodes get their handler run, in which order, and which wrappers end up in the cache —
  is a function of the expressions and the cache alone (no values, no environment): `c12Sched`.
  Every successful run of the counting evaluator `evalCnt` follows it (`evalCnt_sched`), whatever
  the environment and whatever the functions in it compute.
-/
namespace PV

instance c12LawfulBEqExpr : LawfulBEq Expr where
  eq_of_beq := fun {a b} h => (PV.Syntax.beq_iff a b).mp h
  rfl := fun {a} => (PV.Syntax.beq_iff a a).mpr rfl

mutual
/-- tagged fragment: the fragment of the property plus wrappers -/
def Expr.tfrag : Expr → Bool
  | .const (.int _) => true
  | .var _ => true
  | .nary o cs => o.isComm && Expr.tfragL cs
  | .bin o a b => o.isDivPow && a.tfrag && b.tfrag
  | .call f as => f.tfrag && Expr.tfragL as
  | .cse c _ _ => c.tfrag
  | _ => false
def Expr.tfragL : List Expr → Bool
  | [] => true
  | c :: cs => c.tfrag && Expr.tfragL cs
end

mutual
theorem tfrag_simple : ∀ (e : Expr), e.tfrag = true → e.simple = true
  | .const c, h => by cases c <;> simp_all [Expr.tfrag, Expr.simple, Const.simple]
  | .var _, _ => by simp [Expr.simple]
  | .nary o cs, h => by
      simp only [Expr.tfrag, Bool.and_eq_true] at h
      simp only [Expr.simple]; exact tfragL_simple cs h.2
  | .bin o a b, h => by
      simp only [Expr.tfrag, Bool.and_eq_true] at h
      simp [Expr.simple, tfrag_simple a h.1.2, tfrag_simple b h.2]
  | .call f as, h => by
      simp only [Expr.tfrag, Bool.and_eq_true] at h
      simp [Expr.simple, tfrag_simple f h.1, tfragL_simple as h.2]
  | .cse c _ _, h => by
      simp only [Expr.tfrag] at h
      simp [Expr.simple, tfrag_simple c h]
  | .un .., h | .cmp .., h | .ite .., h | .callKw .., h | .subscript .., h | .lookup .., h
  | .subst .., h | .deriv .., h | .slice _, h | .nan, h | .wildcard, h
  | .dotWild _, h | .starWild _, h | .funcSym, h | .tuple _, h | .list _, h => by
      simp [Expr.tfrag] at h
theorem tfragL_simple : ∀ (cs : List Expr), Expr.tfragL cs = true → Expr.simpleL cs = true
  | [], _ => rfl
  | c :: cs, h => by
      simp only [Expr.tfragL, Bool.and_eq_true] at h
      simp [Expr.simpleL, tfrag_simple c h.1, tfragL_simple cs h.2]
end

mutual
/-- (operation nodes whose handler runs, in the order in which the handlers return; cache after) -/
def c12Sched : Expr → List Expr → List Expr × List Expr
  | .nary o cs, C => ((c12SchedL cs C).1 ++ [.nary o cs], (c12SchedL cs C).2)
  | .bin o a b, C =>
      ((c12Sched a C).1 ++ (c12Sched b (c12Sched a C).2).1 ++ [.bin o a b],
       (c12Sched b (c12Sched a C).2).2)
  | .call f as, C =>
      ((c12Sched f C).1 ++ (c12SchedL as (c12Sched f C).2).1 ++ [.call f as],
       (c12SchedL as (c12Sched f C).2).2)
  | .cse c p s, C =>
      if Expr.cse c p s ∈ C then ([], C) else ((c12Sched c C).1, Expr.cse c p s :: (c12Sched c C).2)
  | _, C => ([], C)
def c12SchedL : List Expr → List Expr → List Expr × List Expr
  | [], C => ([], C)
  | c :: cs, C =>
      ((c12Sched c C).1 ++ (c12SchedL cs (c12Sched c C).2).1, (c12SchedL cs (c12Sched c C).2).2)
end

/-! ### wrappers inside a tagged tree, and caches closed under them -/

mutual
def c12Wrappers : Expr → List Expr
  | .nary _ cs => c12WrappersL cs
  | .bin _ a b => c12Wrappers a ++ c12Wrappers b
  | .call f as => c12Wrappers f ++ c12WrappersL as
  | .cse c p s => .cse c p s :: c12Wrappers c
  | _ => []
def c12WrappersL : List Expr → List Expr
  | [] => []
  | c :: cs => c12Wrappers c ++ c12WrappersL cs
end

/-- with every wrapper the cache holds the wrappers inside it -/
def c12Closed (C : List Expr) : Prop := ∀ w ∈ C, ∀ w' ∈ c12Wrappers w, w' ∈ C

mutual
theorem c12Sched_closed : ∀ (e : Expr) (C : List Expr), c12Closed C →
    c12Closed (c12Sched e C).2 ∧ (∀ w ∈ c12Wrappers e, w ∈ (c12Sched e C).2) ∧
      ∀ w ∈ C, w ∈ (c12Sched e C).2
  | .nary o cs, C, h => by
      simp only [c12Sched, c12Wrappers]; exact c12SchedL_closed cs C h
  | .bin o a b, C, h => by
      obtain ⟨a1, a2, a3⟩ := c12Sched_closed a C h
      obtain ⟨b1, b2, b3⟩ := c12Sched_closed b _ a1
      simp only [c12Sched, c12Wrappers]
      refine ⟨b1, ?_, fun w hw => b3 w (a3 w hw)⟩
      intro w hw
      rcases List.mem_append.mp hw with hw | hw
      · exact b3 w (a2 w hw)
      · exact b2 w hw
  | .call f as, C, h => by
      obtain ⟨a1, a2, a3⟩ := c12Sched_closed f C h
      obtain ⟨b1, b2, b3⟩ := c12SchedL_closed as _ a1
      simp only [c12Sched, c12Wrappers]
      refine ⟨b1, ?_, fun w hw => b3 w (a3 w hw)⟩
      intro w hw
      rcases List.mem_append.mp hw with hw | hw
      · exact b3 w (a2 w hw)
      · exact b2 w hw
  | .cse c p s, C, h => by
      simp only [c12Sched, c12Wrappers]
      by_cases hm : Expr.cse c p s ∈ C
      · simp only [hm, if_true]
        refine ⟨h, ?_, fun w hw => hw⟩
        intro w hw
        rcases List.mem_cons.mp hw with rfl | hw
        · exact hm
        · exact h _ hm w (by simp [c12Wrappers, hw])
      · simp only [hm, if_false]
        obtain ⟨a1, a2, a3⟩ := c12Sched_closed c C h
        refine ⟨?_, ?_, fun w hw => List.mem_cons_of_mem _ (a3 w hw)⟩
        · intro w hw w' hw'
          rcases List.mem_cons.mp hw with rfl | hw
          · simp only [c12Wrappers, List.mem_cons] at hw'
            rcases hw' with rfl | hw'
            · simp
            · exact List.mem_cons_of_mem _ (a2 w' hw')
          · exact List.mem_cons_of_mem _ (a1 w hw w' hw')
        · intro w hw
          rcases List.mem_cons.mp hw with rfl | hw
          · simp
          · exact List.mem_cons_of_mem _ (a2 w hw)
  | .const _, C, h | .var _, C, h | .un .., C, h | .cmp .., C, h | .ite .., C, h
  | .callKw .., C, h | .subscript .., C, h | .lookup .., C, h | .subst .., C, h
  | .deriv .., C, h | .slice _, C, h | .nan, C, h | .wildcard, C, h | .dotWild _, C, h
  | .starWild _, C, h | .funcSym, C, h | .tuple _, C, h | .list _, C, h => by
      simp only [c12Sched, c12Wrappers]
      exact ⟨h, fun w hw => by simp at hw, fun w hw => hw⟩
theorem c12SchedL_closed : ∀ (cs : List Expr) (C : List Expr), c12Closed C →
    c12Closed (c12SchedL cs C).2 ∧ (∀ w ∈ c12WrappersL cs, w ∈ (c12SchedL cs C).2) ∧
      ∀ w ∈ C, w ∈ (c12SchedL cs C).2
  | [], C, h => by
      simp only [c12SchedL, c12WrappersL]
      exact ⟨h, fun w hw => by simp at hw, fun w hw => hw⟩
  | c :: cs, C, h => by
      obtain ⟨a1, a2, a3⟩ := c12Sched_closed c C h
      obtain ⟨b1, b2, b3⟩ := c12SchedL_closed cs _ a1
      simp only [c12SchedL, c12WrappersL]
      refine ⟨b1, ?_, fun w hw => b3 w (a3 w hw)⟩
      intro w hw
      rcases List.mem_append.mp hw with hw | hw
      · exact b3 w (a2 w hw)
      · exact b2 w hw
end

/-! ### logs -/

/-- the wrappers whose child has been computed, newest first -/
def c12Computed (t : C12Log) : List Expr := (c12CacheOf t).map Prod.fst

theorem c12CacheOf_append : ∀ (a b : C12Log), c12CacheOf (a ++ b) = c12CacheOf a ++ c12CacheOf b
  | [], _ => rfl
  | .child w v :: a, b => by simp [c12CacheOf, c12CacheOf_append a b]
  | .call .. :: a, b => by simp [c12CacheOf, c12CacheOf_append a b]
  | .arithN .. :: a, b => by simp [c12CacheOf, c12CacheOf_append a b]
  | .arithB .. :: a, b => by simp [c12CacheOf, c12CacheOf_append a b]
  | .node _ :: a, b => by simp [c12CacheOf, c12CacheOf_append a b]

theorem c12Computed_append (a b : C12Log) :
    c12Computed (a ++ b) = c12Computed a ++ c12Computed b := by
  simp [c12Computed, c12CacheOf_append]

theorem c12Nodes_append : ∀ (a b : C12Log), c12Nodes (a ++ b) = c12Nodes a ++ c12Nodes b
  | [], _ => rfl
  | .child w v :: a, b => by simp [c12Nodes, c12Nodes_append a b]
  | .call .. :: a, b => by simp [c12Nodes, c12Nodes_append a b]
  | .arithN .. :: a, b => by simp [c12Nodes, c12Nodes_append a b]
  | .arithB .. :: a, b => by simp [c12Nodes, c12Nodes_append a b]
  | .node _ :: a, b => by simp [c12Nodes, c12Nodes_append a b]

theorem c12Count_append (k : C12Kind) : ∀ (a b : C12Log),
    c12Count k (a ++ b) = c12Count k a + c12Count k b
  | [], _ => by simp [c12Count]
  | e :: a, b => by simp [c12Count, c12Count_append k a b]; omega

theorem c12Cost_append (k : C12Kind) : ∀ (a b : List Expr),
    c12Cost k (a ++ b) = c12Cost k a + c12Cost k b
  | [], _ => by simp [c12Cost]
  | e :: a, b => by simp [c12Cost, c12Cost_append k a b]; omega

theorem c12_bind_ok {α β : Type} {x : C12M α} {f : α → C12M β} {t t' : C12Log} {v : β}
    (h : (x >>= f) t = (.ok v, t')) : ∃ a t1, x t = (.ok a, t1) ∧ f a t1 = (.ok v, t') := by
  change C12M.bind x f t = _ at h
  unfold C12M.bind at h
  cases hx : x t with
  | mk r t1 =>
    rw [hx] at h
    cases r with
    | error e => simp at h
    | ok a => exact ⟨a, t1, rfl, h⟩

/-- the part `new` of the log written by a run from `t` to `t'` follows the schedule `r`; `extra`
are arithmetic operations performed for a handler that has not returned yet -/
def SchedOk (t t' : C12Log) (r : List Expr × List Expr) (extra : C12Kind → Nat) : Prop :=
  ∃ new, t' = new ++ t ∧ (c12Nodes new).reverse = r.1 ∧ c12Computed t' = r.2 ∧
    (∀ w ∈ c12Computed t', w.simple = true) ∧ ∀ k, c12Count k new = c12Cost k r.1 + extra k

theorem SchedOk.refl {t : C12Log} (hs : ∀ w ∈ c12Computed t, w.simple = true) :
    SchedOk t t ([], c12Computed t) (fun _ => 0) :=
  ⟨[], rfl, rfl, rfl, hs, fun _ => rfl⟩

theorem SchedOk.simpleC {t t' : C12Log} {r : List Expr × List Expr} {x : C12Kind → Nat}
    (h : SchedOk t t' r x) : ∀ w ∈ c12Computed t', w.simple = true := by
  obtain ⟨_, _, _, _, h, _⟩ := h; exact h

theorem SchedOk.cache {t t' : C12Log} {r : List Expr × List Expr} {x : C12Kind → Nat}
    (h : SchedOk t t' r x) : c12Computed t' = r.2 := by
  obtain ⟨_, _, _, h, _, _⟩ := h; exact h

theorem SchedOk.trans {t t1 t2 : C12Log} {r1 r2 : List Expr × List Expr} {x1 x2 : C12Kind → Nat}
    (h1 : SchedOk t t1 r1 x1) (h2 : SchedOk t1 t2 r2 x2) :
    SchedOk t t2 (r1.1 ++ r2.1, r2.2) (fun k => x1 k + x2 k) := by
  obtain ⟨n1, e1, a1, _, _, d1⟩ := h1
  obtain ⟨n2, e2, a2, b2, c2, d2⟩ := h2
  refine ⟨n2 ++ n1, by rw [e2, e1, List.append_assoc], ?_, b2, c2, ?_⟩
  · simp only [c12Nodes_append, List.reverse_append, a1, a2]
  · intro k
    simp only [c12Count_append, c12Cost_append, d1 k, d2 k]; omega

theorem c12Computed_cons_counted {ev : C12Ev} {k0 : C12Kind} (hk : ev.kind? = some k0)
    (t : C12Log) : c12Computed (ev :: t) = c12Computed t := by
  cases ev <;> simp [C12Ev.kind?] at hk <;> rfl

theorem c12Nodes_cons_counted {ev : C12Ev} {k0 : C12Kind} (hk : ev.kind? = some k0)
    (t : C12Log) : c12Nodes (ev :: t) = c12Nodes t := by
  cases ev <;> simp [C12Ev.kind?] at hk <;> rfl

/-- a counted event (an arithmetic operation, a call) that is not a handler return -/
theorem SchedOk.event {t : C12Log} (ev : C12Ev) (k0 : C12Kind) (hk : ev.kind? = some k0)
    (hs : ∀ w ∈ c12Computed t, w.simple = true) :
    SchedOk t (ev :: t) ([], c12Computed t) (fun k => if k = k0 then 1 else 0) := by
  refine ⟨[ev], rfl, ?_, ?_, ?_, ?_⟩
  · rw [c12Nodes_cons_counted hk]; rfl
  · exact c12Computed_cons_counted hk t
  · rw [c12Computed_cons_counted hk]; exact hs
  · intro k
    simp only [c12Count, hk, c12Cost, Option.some.injEq]
    by_cases h : k = k0
    · subst h; simp
    · have : ¬ k0 = k := fun h' => h h'.symm
      simp [h, this]

/-- the handler of `e` returns: the operations performed for it are accounted to the node -/
theorem SchedOk.done {t t1 : C12Log} {r : List Expr × List Expr} {x : C12Kind → Nat} (e : Expr)
    (h : SchedOk t t1 r x) (hx : ∀ k, x k = c12CostNode k e) :
    SchedOk t (.node e :: t1) (r.1 ++ [e], r.2) (fun _ => 0) := by
  obtain ⟨n1, e1, a1, b1, c1, d1⟩ := h
  refine ⟨.node e :: n1, by rw [e1]; rfl, ?_, ?_, ?_, ?_⟩
  · simp [c12Nodes, a1]
  · simpa [c12Computed, c12CacheOf] using b1
  · simpa [c12Computed, c12CacheOf] using c1
  · intro k
    simp only [c12Count, C12Ev.kind?, c12Cost_append, c12Cost, d1 k, hx k]
    simp

theorem SchedOk.congr {t t' : C12Log} {r r' : List Expr × List Expr} {x x' : C12Kind → Nat}
    (h : SchedOk t t' r x) (hr : r = r') (hx : ∀ k, x k = x' k) : SchedOk t t' r' x' := by
  subst hr
  obtain ⟨n1, e1, a1, b1, c1, d1⟩ := h
  exact ⟨n1, e1, a1, b1, c1, fun k => by rw [d1 k, hx k]⟩

theorem c12Done_op {e : Expr} (he : e.isCseOp = true) (t : C12Log) :
    c12Done e t = (.ok (), .node e :: t) := by
  simp [c12Done, he]

theorem findBy_mem_simple {w : Expr} (hw : w.simple = true) : ∀ {l : List (Expr × Value)} {v : Value},
    (∀ p ∈ l, p.1.simple = true) → findBy Expr.pyEq w l = some v → w ∈ l.map Prod.fst
  | [], _, _, h => by simp [findBy] at h
  | (k', v') :: rest, v, hs, h => by
    simp only [findBy] at h
    by_cases hk : k'.pyEq w = true
    · have : k' = w := pyEq_eq_of_simple k' w (hs (k', v') (by simp)) hw hk
      simp [this]
    · simp only [hk, Bool.false_eq_true, if_false] at h
      have := findBy_mem_simple hw (fun p hp => hs p (by simp [hp])) h
      simp only [List.map_cons, List.mem_cons]; exact Or.inr this

/-- cache look-up by Python `==` is membership, on simple expressions -/
theorem findBy_c12 {t : C12Log} {w : Expr} (hw : w.simple = true)
    (hs : ∀ w' ∈ c12Computed t, w'.simple = true) :
    (∃ v, findBy Expr.pyEq w (c12CacheOf t) = some v) ↔ w ∈ c12Computed t := by
  constructor
  · rintro ⟨v, h⟩
    refine findBy_mem_simple hw ?_ h
    intro p hp
    exact hs p.1 (by simp only [c12Computed, List.mem_map]; exact ⟨p, hp, rfl⟩)
  · intro h
    cases hf : findBy Expr.pyEq w (c12CacheOf t) with
    | some v => exact ⟨v, rfl⟩
    | none =>
      exfalso
      simp only [c12Computed, List.mem_map] at h
      obtain ⟨p, hp, rfl⟩ := h
      have := findBy_none hf p hp
      rw [pyEq_self_simple _ hw] at this
      cases this

theorem c12Call_ok {sem : C12Sem} {fv : Value} {avs : List Value} {ns : List String}
    {kvs : List Value} {t t' : C12Log} {v : Value}
    (h : c12Call sem fv avs ns kvs t = (.ok v, t')) :
    ∃ name, t' = .call name avs ns kvs :: t := by
  unfold c12Call at h
  cases fv <;> simp at h
  exact ⟨_, h.2.symm⟩

mutual
/-- **every successful run follows the schedule** -/
theorem evalCnt_sched (sem : C12Sem) (env : Env) : ∀ (e : Expr) (t t' : C12Log) (v : Value),
    e.tfrag = true → (∀ w ∈ c12Computed t, w.simple = true) →
    evalCnt sem env e t = (.ok v, t') →
    SchedOk t t' (c12Sched e (c12Computed t)) (fun _ => 0)
  | .const (.int n), t, t', v, _, hs, h => by
      simp only [evalCnt, C12M.lift] at h
      injection h with _ h; subst h
      simp only [c12Sched]; exact SchedOk.refl hs
  | .var x, t, t', v, _, hs, h => by
      simp only [evalCnt] at h
      cases hg : env.get x with
      | none => simp [hg, C12M.throw] at h
      | some v0 =>
        simp only [hg, C12M.pure] at h
        injection h with _ h; subst h
        simp only [c12Sched]; exact SchedOk.refl hs
  | .nary .sum cs, t, t', v, hf, hs, h => by
      simp only [Expr.tfrag, Bool.and_eq_true] at hf
      simp only [evalCnt] at h
      obtain ⟨r, t1, h1, h⟩ := c12_bind_ok h
      obtain ⟨_, t2, h2, h⟩ := c12_bind_ok h
      rw [c12Done_op (by rfl)] at h2
      injection h2 with _ h2; subst h2
      simp only [C12M.pure] at h
      injection h with _ h; subst h
      have := (evalCntFold_sched sem env .sum cs (.int 0) t t1 r hf.2 hs h1).done (.nary .sum cs)
        (fun k => by simp [c12CostNode])
      simpa only [c12Sched] using this
  | .nary .prod cs, t, t', v, hf, hs, h => by
      simp only [Expr.tfrag, Bool.and_eq_true] at hf
      simp only [evalCnt] at h
      obtain ⟨r, t1, h1, h⟩ := c12_bind_ok h
      obtain ⟨_, t2, h2, h⟩ := c12_bind_ok h
      rw [c12Done_op (by rfl)] at h2
      injection h2 with _ h2; subst h2
      simp only [C12M.pure] at h
      injection h with _ h; subst h
      have := (evalCntFold_sched sem env .prod cs (.int 1) t t1 r hf.2 hs h1).done (.nary .prod cs)
        (fun k => by simp [c12CostNode])
      simpa only [c12Sched] using this
  | .bin o a b, t, t', v, hf, hs, h => by
      simp only [Expr.tfrag, Bool.and_eq_true] at hf
      have hop : (Expr.bin o a b).isCseOp = true := by
        cases o <;> simp_all [BinOp.isDivPow, Expr.isCseOp]
      simp only [evalCnt] at h
      obtain ⟨x, t1, h1, h⟩ := c12_bind_ok h
      obtain ⟨y, t2, h2, h⟩ := c12_bind_ok h
      obtain ⟨_, t3, h3, h⟩ := c12_bind_ok h
      obtain ⟨r, t4, h4, h⟩ := c12_bind_ok h
      obtain ⟨_, t5, h5, h⟩ := c12_bind_ok h
      simp only [C12M.emit] at h3
      injection h3 with _ h3; subst h3
      simp only [C12M.lift] at h4
      injection h4 with _ h4; subst h4
      rw [c12Done_op hop] at h5
      injection h5 with _ h5; subst h5
      simp only [C12M.pure] at h
      injection h with _ h; subst h
      have s1 := evalCnt_sched sem env a t t1 x hf.1.2 hs h1
      have s2 := evalCnt_sched sem env b t1 t2 y hf.2 s1.simpleC h2
      rw [s1.cache] at s2
      have s3 := SchedOk.event (.arithB o x y) (.bin o) rfl s2.simpleC
      have := ((s1.trans s2).trans s3).done (.bin o a b)
        (fun k => by simp [c12CostNode])
      refine this.congr ?_ (fun _ => rfl)
      simp only [c12Sched, List.append_nil, s2.cache]
  | .call f as, t, t', v, hf, hs, h => by
      simp only [Expr.tfrag, Bool.and_eq_true] at hf
      simp only [evalCnt] at h
      obtain ⟨fv, t1, h1, h⟩ := c12_bind_ok h
      obtain ⟨avs, t2, h2, h⟩ := c12_bind_ok h
      obtain ⟨r, t3, h3, h⟩ := c12_bind_ok h
      obtain ⟨_, t4, h4, h⟩ := c12_bind_ok h
      obtain ⟨name, h3⟩ := c12Call_ok h3
      subst h3
      rw [c12Done_op (by rfl)] at h4
      injection h4 with _ h4; subst h4
      simp only [C12M.pure] at h
      injection h with _ h; subst h
      have s1 := evalCnt_sched sem env f t t1 fv hf.1 hs h1
      have s2 := evalCntList_sched sem env as t1 t2 avs hf.2 s1.simpleC h2
      rw [s1.cache] at s2
      have s3 := SchedOk.event (.call name avs [] []) .call rfl s2.simpleC
      have := ((s1.trans s2).trans s3).done (.call f as)
        (fun k => by simp [c12CostNode])
      refine this.congr ?_ (fun _ => rfl)
      simp only [c12Sched, List.append_nil, s2.cache]
  | .cse c p sc, t, t', v, hf, hs, h => by
      have hsim := tfrag_simple _ hf
      simp only [Expr.tfrag] at hf
      have hl : c.hasList = false := by
        have := simple_nolist _ hsim; simpa [Expr.hasList] using this
      simp only [evalCnt, hl, Bool.false_eq_true, if_false] at h
      cases hfb : findBy Expr.pyEq (.cse c p sc) (c12CacheOf t) with
      | some v0 =>
        simp only [hfb] at h
        injection h with _ h; subst h
        have hm : Expr.cse c p sc ∈ c12Computed t := (findBy_c12 hsim hs).mp ⟨v0, hfb⟩
        simp only [c12Sched, hm, if_true]
        exact SchedOk.refl hs
      | none =>
        simp only [hfb] at h
        have hm : ¬ Expr.cse c p sc ∈ c12Computed t := by
          intro hm
          obtain ⟨v0, hv0⟩ := (findBy_c12 hsim hs).mpr hm
          rw [hfb] at hv0; cases hv0
        cases hr : evalCnt sem env c t with
        | mk r t1 =>
          rw [hr] at h
          cases r with
          | error e => simp at h
          | ok v1 =>
            simp only at h
            injection h with _ h; subst h
            obtain ⟨n1, e1, a1, b1, c1, d1⟩ := evalCnt_sched sem env c t t1 v1 hf hs hr
            simp only [c12Sched, hm, if_false]
            refine ⟨.child (.cse c p sc) v1 :: n1, by rw [e1]; rfl, ?_, ?_, ?_, ?_⟩
            · simpa [c12Nodes] using a1
            · simp [c12Computed, c12CacheOf] at b1 ⊢; exact b1
            · intro w hw
              simp only [c12Computed, c12CacheOf, List.map_cons, List.mem_cons] at hw
              rcases hw with rfl | hw
              · exact hsim
              · exact c1 w hw
            · intro k; simpa [c12Count, C12Ev.kind?] using d1 k
  | .nary .bor _, _, _, _, hf, _, _ | .nary .bxor _, _, _, _, hf, _, _
  | .nary .band _, _, _, _, hf, _, _ | .nary .lor _, _, _, _, hf, _, _
  | .nary .land _, _, _, _, hf, _, _ | .nary .min _, _, _, _, hf, _, _
  | .nary .max _, _, _, _, hf, _, _ => by simp [Expr.tfrag, NaryOp.isComm] at hf
  | .const (.bool _), _, _, _, hf, _, _ | .const (.flt ..), _, _, _, hf, _, _
  | .const (.str _), _, _, _, hf, _, _ | .const .none, _, _, _, hf, _, _
  | .un .., _, _, _, hf, _, _ | .cmp .., _, _, _, hf, _, _ | .ite .., _, _, _, hf, _, _
  | .callKw .., _, _, _, hf, _, _ | .subscript .., _, _, _, hf, _, _
  | .lookup .., _, _, _, hf, _, _ | .subst .., _, _, _, hf, _, _
  | .deriv .., _, _, _, hf, _, _ | .slice _, _, _, _, hf, _, _ | .nan, _, _, _, hf, _, _
  | .wildcard, _, _, _, hf, _, _ | .dotWild _, _, _, _, hf, _, _
  | .starWild _, _, _, _, hf, _, _ | .funcSym, _, _, _, hf, _, _
  | .tuple _, _, _, _, hf, _, _ | .list _, _, _, _, hf, _, _ => by simp [Expr.tfrag] at hf
theorem evalCntFold_sched (sem : C12Sem) (env : Env) (o : NaryOp) :
    ∀ (cs : List Expr) (acc : Value) (t t' : C12Log) (v : Value),
    Expr.tfragL cs = true → (∀ w ∈ c12Computed t, w.simple = true) →
    evalCntFold sem env o acc cs t = (.ok v, t') →
    SchedOk t t' (c12SchedL cs (c12Computed t)) (fun k => if k = .nary o then cs.length else 0)
  | [], acc, t, t', v, _, hs, h => by
      simp only [evalCntFold, C12M.pure] at h
      injection h with _ h; subst h
      simp only [c12SchedL]
      exact (SchedOk.refl hs).congr rfl (fun k => by simp)
  | c :: cs, acc, t, t', v, hf, hs, h => by
      simp only [Expr.tfragL, Bool.and_eq_true] at hf
      simp only [evalCntFold] at h
      obtain ⟨x, t1, h1, h⟩ := c12_bind_ok h
      obtain ⟨_, t2, h2, h⟩ := c12_bind_ok h
      obtain ⟨acc', t3, h3, h⟩ := c12_bind_ok h
      simp only [C12M.emit] at h2
      injection h2 with _ h2; subst h2
      simp only [C12M.lift] at h3
      injection h3 with _ h3; subst h3
      have s1 := evalCnt_sched sem env c t t1 x hf.1 hs h1
      have s2 := SchedOk.event (.arithN o acc x) (.nary o) rfl s1.simpleC
      have s3 := evalCntFold_sched sem env o cs acc' _ t' v hf.2 s2.simpleC h
      have hc : c12Computed (C12Ev.arithN o acc x :: t1) = (c12Sched c (c12Computed t)).2 := by
        rw [← s1.cache]; simp [c12Computed, c12CacheOf]
      rw [hc] at s3
      refine ((s1.trans s2).trans s3).congr ?_ ?_
      · simp only [c12SchedL, List.append_nil]
      · intro k
        by_cases hk : k = .nary o <;> simp [hk]; omega
theorem evalCntList_sched (sem : C12Sem) (env : Env) :
    ∀ (cs : List Expr) (t t' : C12Log) (vs : List Value),
    Expr.tfragL cs = true → (∀ w ∈ c12Computed t, w.simple = true) →
    evalCntList sem env cs t = (.ok vs, t') →
    SchedOk t t' (c12SchedL cs (c12Computed t)) (fun _ => 0)
  | [], t, t', vs, _, hs, h => by
      simp only [evalCntList, C12M.pure] at h
      injection h with _ h; subst h
      simp only [c12SchedL]
      exact SchedOk.refl hs
  | c :: cs, t, t', vs, hf, hs, h => by
      simp only [Expr.tfragL, Bool.and_eq_true] at hf
      simp only [evalCntList] at h
      obtain ⟨x, t1, h1, h⟩ := c12_bind_ok h
      obtain ⟨xs, t2, h2, h⟩ := c12_bind_ok h
      simp only [C12M.pure] at h
      injection h with _ h; subst h
      have s1 := evalCnt_sched sem env c t t1 x hf.1 hs h1
      have s2 := evalCntList_sched sem env cs t1 t2 xs hf.2 s1.simpleC h2
      rw [s1.cache] at s2
      refine (s1.trans s2).congr ?_ (fun _ => rfl)
      simp only [c12SchedL]
end

end PV
