import PV.Proofs.RewriteTableDist
import PV.Proofs.RewriteTableFlat
set_option linter.unusedSimpArgs false
set_option linter.unusedVariables false
/-
  C11 (T-gen), part 8: the entry points.  `distribute(expr, parameters=None, commutative=True)` and
  `flatten(expr)` of the table, interpreted — defaults filled in, `TermCollector(parameters)` /
  `lambda x: x`, `DistributeMapper.__init__` with ITS defaults (`TermCollector()`,
  `CommutativeConstantFoldingMapper()`) run from the table — build exactly the instance the model's
  configuration `DistCfg` stands for; with parts 2–7 the public functions are `distM` / `flattenM`.
-/
namespace PV
open PV.Generated (c04Classes c04IdentityTable)
open PV.C11Expected

/-- the positional arguments of a call `distribute(e[, parameters[, commutative]])` -/
def c11DistributeArgs (e : Expr) (po : Option (List Expr)) (co : Option Bool) : List C11Val :=
  match po, co with
  | none, none => [.expr e]
  | some ps, none => [.expr e, .set (ps.map .expr)]
  | none, some c => [.expr e, .none, .bool c]
  | some ps, some c => [.expr e, .set (ps.map .expr), .bool c]

/-- the configuration of the model such a call stands for -/
def c11DistributeCfg (po : Option (List Expr)) (co : Option Bool) : DistCfg :=
  { collector := if co.getD true then some (po.getD []) else none }

theorem c11Table_flatten : c11Table.flatten = c11Class_flatten := rfl
theorem c11Table_commFolder : c11Table.commFolder = c11Class_commFolder := rfl
theorem c11Table_collector : c11Table.collector = c11Class_collector := rfl
theorem c11Table_distributor : c11Table.distributor = c11Class_distributor := rfl
theorem c11Table_plainFolder : c11Table.plainFolder = c11Class_plainFolder := rfl
theorem c11Table_entries : c11Table.entries = [c11_entry_flatten, c11_entry_distribute] := rfl

theorem c11Construct_commFolder (d : Nat) :
    c11Construct c11Table (d + 1) .commFolder [] = .ok (.inst .commFolder [] []) := by
  simp [c11Construct, c11ClassOf, c11Table_flatten, c11Table_commFolder, c11Table_collector,
    c11Table_distributor, c11FindMethod, c11Class_collector, c11Class_distributor,
    c11Class_commFolder, c11Class_flatten, c11_TermCollector___init__, c11_DistributeMapper___init__,
    c11FillDefaults, c11DefaultOf, c11Frame, c11ExecL, c11Exec, c11Eval, c11EvalL, c11Get, c11Set,
    c11Cmp, c11Truthy, c11Apply, c11SetSelfNames, pure, Except.pure, bind, Except.bind, throw, throwThe,
    MonadExceptOf.throw]

theorem c11Construct_flatten (d : Nat) :
    c11Construct c11Table (d + 1) .flattenMapper [] = .ok (.inst .flattenMapper [] []) := by
  simp [c11Construct, c11ClassOf, c11Table_flatten, c11Table_commFolder, c11Table_collector,
    c11Table_distributor, c11FindMethod, c11Class_collector, c11Class_distributor,
    c11Class_commFolder, c11Class_flatten, c11_TermCollector___init__, c11_DistributeMapper___init__,
    c11FillDefaults, c11DefaultOf, c11Frame, c11ExecL, c11Exec, c11Eval, c11EvalL, c11Get, c11Set,
    c11Cmp, c11Truthy, c11Apply, c11SetSelfNames, pure, Except.pure, bind, Except.bind, throw, throwThe,
    MonadExceptOf.throw]

theorem c11Construct_collector (d : Nat) (l : List C11Val) :
    c11Construct c11Table (d + 1) .termCollector [.set l] =
      .ok (.inst .termCollector ["parameters"] [.set l]) := by
  simp [c11Construct, c11ClassOf, c11Table_flatten, c11Table_commFolder, c11Table_collector,
    c11Table_distributor, c11FindMethod, c11Class_collector, c11Class_distributor,
    c11Class_commFolder, c11Class_flatten, c11_TermCollector___init__, c11_DistributeMapper___init__,
    c11FillDefaults, c11DefaultOf, c11Frame, c11ExecL, c11Exec, c11Eval, c11EvalL, c11Get, c11Set,
    c11Cmp, c11Truthy, c11Apply, c11SetSelfNames, pure, Except.pure, bind, Except.bind, throw, throwThe,
    MonadExceptOf.throw]

theorem c11Construct_collector0 (d : Nat) :
    c11Construct c11Table (d + 1) .termCollector [] =
      .ok (.inst .termCollector ["parameters"] [.set []]) := by
  simp [c11Construct, c11ClassOf, c11Table_flatten, c11Table_commFolder, c11Table_collector,
    c11Table_distributor, c11FindMethod, c11Class_collector, c11Class_distributor,
    c11Class_commFolder, c11Class_flatten, c11_TermCollector___init__, c11_DistributeMapper___init__,
    c11FillDefaults, c11DefaultOf, c11Frame, c11ExecL, c11Exec, c11Eval, c11EvalL, c11Get, c11Set,
    c11Cmp, c11Truthy, c11Apply, c11SetSelfNames, pure, Except.pure, bind, Except.bind, throw, throwThe,
    MonadExceptOf.throw]


theorem c11Construct_distributor (cv : C11Val)
    (h : (∃ a b, cv = .inst .termCollector a b) ∨ cv = .lambdaId) :
    c11Construct c11Table 3 .distributeMapper [cv] =
      .ok (.inst .distributeMapper ["collector", "const_folder"] [cv, .inst .commFolder [] []]) := by
  have hc : c11Construct c11Table 2 .commFolder [] = .ok (.inst .commFolder [] []) :=
    c11Construct_commFolder 1
  have hstep : c11Construct c11Table 3 .distributeMapper [cv] =
      (let ctx : C11Ctx :=
         { recur := fun _ => throw .noClaim, selfAttrs := [],
           callSelf := fun _ _ => throw .stuck, callLocal := fun _ _ => throw .stuck,
           sup := fun _ _ _ => throw .noClaim, applyInst := fun _ _ _ _ => throw .stuck,
           construct := c11Construct c11Table 2 }
       match c11ExecL ctx 0 c11_DistributeMapper___init__.body
          [("collector", cv), ("const_folder", .none)] with
       | .fell env' =>
         pure (.inst .distributeMapper ["collector", "const_folder"]
           [c11Get "self.collector" env', c11Get "self.const_folder" env'])
       | .ret .none => throw .stuck
       | .fail e => throw e
       | _ => throw .stuck) := rfl
  rw [hstep]
  rcases h with ⟨a, b, rfl⟩ | rfl <;>
  simp [c11_DistributeMapper___init__, c11ExecL, c11Exec, c11Eval,
    c11EvalL, c11Get, c11Set, c11Cmp, c11Truthy, c11Apply, pure, Except.pure, bind,
    Except.bind, throw, throwThe, MonadExceptOf.throw, hc]

/-- the context an entry point runs in -/
def c11EntryCtx (run : C11Glob → List String → List C11Val → List C11Val → C11R C11Val) : C11Ctx :=
  { recur := fun _ => throw .noClaim, selfAttrs := [],
    callSelf := fun _ _ => throw .stuck, callLocal := fun _ _ => throw .stuck,
    sup := fun _ _ _ => throw .noClaim, applyInst := run,
    construct := c11Construct c11Table 3 }

theorem c11Entry_distribute_step (run : C11Glob → List String → List C11Val → List C11Val → C11R C11Val)
    (e : Expr) (pv cv : C11Val) (args : List C11Val)
    (h : c11FillDefaults ["expr", "parameters", "commutative"]
      [("parameters", .pyNone), ("commutative", (.pyBool true))] args = some [.expr e, pv, cv]) :
    c11Entry c11Table "distribute" args run =
      c11OutToR (c11ExecL { c11EntryCtx run with callLocal := c11CallLocal (c11EntryCtx run) [] 0 } 0
        c11_entry_distribute.body [("expr", .expr e), ("parameters", pv), ("commutative", cv)]) := by
  simp only [c11Entry, c11Table_entries, List.find?, c11_entry_flatten, c11_entry_distribute,
    String.reduceBEq, h, c11RunFn, c11RunBody, c11Frame]
  rfl

theorem c11_entry_distribute_eq (e : Expr) (po : Option (List Expr)) (co : Option Bool)
    (run : C11Glob → List String → List C11Val → List C11Val → C11R C11Val) :
    c11Entry c11Table "distribute" (c11DistributeArgs e po co) run =
      run .distributeMapper ["collector", "const_folder"]
        [c11CollVal (c11DistributeCfg po co), .inst .commFolder [] []] [.expr e] := by
  have h1 : ∀ l, c11Construct c11Table 3 .termCollector [.set l] =
      .ok (.inst .termCollector ["parameters"] [.set l]) := c11Construct_collector 2
  have h2 := c11Construct_distributor
  cases po with
  | none =>
    cases co with
    | none =>
      rw [c11Entry_distribute_step run e .none (.bool true) _ rfl]
      have h2' := h2 (.inst .termCollector ["parameters"] [.set []]) (Or.inl ⟨_, _, rfl⟩)
      simp [c11_entry_distribute, c11ExecL, c11Exec, c11Eval, c11EvalL, c11Get, c11Set, c11Cmp,
        c11Truthy, c11Apply, c11EntryCtx, h1, h2', pure, Except.pure, bind, Except.bind, c11CollVal,
        c11DistributeCfg]
      generalize run _ _ _ _ = r; cases r <;> rfl
    | some c =>
      rw [c11Entry_distribute_step run e .none (.bool c) _ rfl]
      cases c with
      | true =>
        have h2' := h2 (.inst .termCollector ["parameters"] [.set []]) (Or.inl ⟨_, _, rfl⟩)
        simp [c11_entry_distribute, c11ExecL, c11Exec, c11Eval, c11EvalL, c11Get, c11Set, c11Cmp,
        c11Truthy, c11Apply, c11EntryCtx, h1, h2', pure, Except.pure, bind, Except.bind, c11CollVal,
        c11DistributeCfg]
        generalize run _ _ _ _ = r; cases r <;> rfl
      | false =>
        have h2' := h2 .lambdaId (Or.inr rfl)
        simp [c11_entry_distribute, c11ExecL, c11Exec, c11Eval, c11EvalL, c11Get, c11Set, c11Cmp,
        c11Truthy, c11Apply, c11EntryCtx, h1, h2', pure, Except.pure, bind, Except.bind, c11CollVal,
        c11DistributeCfg]
        generalize run _ _ _ _ = r; cases r <;> rfl
  | some ps =>
    cases co with
    | none =>
      rw [c11Entry_distribute_step run e (.set (ps.map .expr)) (.bool true) _ rfl]
      have h2' := h2 (.inst .termCollector ["parameters"] [.set (ps.map .expr)]) (Or.inl ⟨_, _, rfl⟩)
      simp [c11_entry_distribute, c11ExecL, c11Exec, c11Eval, c11EvalL, c11Get, c11Set, c11Cmp,
        c11Truthy, c11Apply, c11EntryCtx, h1, h2', pure, Except.pure, bind, Except.bind, c11CollVal,
        c11DistributeCfg]
      generalize run _ _ _ _ = r; cases r <;> rfl
    | some c =>
      rw [c11Entry_distribute_step run e (.set (ps.map .expr)) (.bool c) _ rfl]
      cases c with
      | true =>
        have h2' := h2 (.inst .termCollector ["parameters"] [.set (ps.map .expr)]) (Or.inl ⟨_, _, rfl⟩)
        simp [c11_entry_distribute, c11ExecL, c11Exec, c11Eval, c11EvalL, c11Get, c11Set, c11Cmp,
        c11Truthy, c11Apply, c11EntryCtx, h1, h2', pure, Except.pure, bind, Except.bind, c11CollVal,
        c11DistributeCfg]
        generalize run _ _ _ _ = r; cases r <;> rfl
      | false =>
        have h2' := h2 .lambdaId (Or.inr rfl)
        simp [c11_entry_distribute, c11ExecL, c11Exec, c11Eval, c11EvalL, c11Get, c11Set, c11Cmp,
        c11Truthy, c11Apply, c11EntryCtx, h1, h2', pure, Except.pure, bind, Except.bind, c11CollVal,
        c11DistributeCfg]
        generalize run _ _ _ _ = r; cases r <;> rfl

theorem c11_entry_flatten_eq (e : Expr)
    (run : C11Glob → List String → List C11Val → List C11Val → C11R C11Val) :
    c11Entry c11Table "flatten" [.expr e] run = run .flattenMapper [] [] [.expr e] := by
  have h1 : c11Construct c11Table 3 .flattenMapper [] = .ok (.inst .flattenMapper [] []) :=
    c11Construct_flatten 2
  have hstep : c11Entry c11Table "flatten" [.expr e] run =
      c11OutToR (c11ExecL { c11EntryCtx run with callLocal := c11CallLocal (c11EntryCtx run) [] 0 } 0
        c11_entry_flatten.body [("expr", .expr e)]) := rfl
  rw [hstep]
  simp [c11_entry_flatten, c11ExecL, c11Exec, c11Eval, c11EvalL, c11Get, c11Apply, c11EntryCtx, h1,
    pure, Except.pure, bind, Except.bind]
  generalize run _ _ _ _ = r; cases r <;> rfl

/-- **`pymbolic.expand(e, …)` / `pymbolic.distribute(e, …)` of the table, run end to end**, is
`distM` with the configuration the arguments and defaults stand for. -/
theorem c11RunPublic_distribute (name : String) (hn : name = "expand" ∨ name = "distribute")
    (e : Expr) (po : Option (List Expr)) (co : Option Bool) (fuel : Nat) :
    c11RunPublic c04Classes c04IdentityTable c11Table name (c11DistributeArgs e po co) fuel =
      distM (c11DistributeCfg po co) fuel e := by
  have hp : c11Public c11Table name = some "distribute" := by
    rcases hn with rfl | rfl <;> rfl
  rw [c11RunPublic, hp]
  simp only [c11_entry_distribute_eq]
  rw [← c11DistT_eq]
  simp only [c11Inst, c11DistT, c11Table_distributor, c11DistSelfAttrs, List.zip_cons_cons,
    List.zip_nil_right, bind, Except.bind, pure, Except.pure]
  cases c11Mapper c04Classes c04IdentityTable c11Class_distributor
    [("collector", c11CollVal (c11DistributeCfg po co)), ("const_folder", C11Val.inst .commFolder [] [])]
    (c11LeafInst c04Classes c04IdentityTable c11Table) fuel e <;> rfl

theorem c11RunPublic_flatten (e : Expr) (fuel : Nat) :
    c11RunPublic c04Classes c04IdentityTable c11Table "flatten" [.expr e] fuel = flattenM fuel e := by
  have hp : c11Public c11Table "flatten" = some "flatten" := rfl
  rw [c11RunPublic, hp]
  simp only [c11_entry_flatten_eq]
  rw [← c11FlattenT_eq]
  simp only [c11Inst, c11LeafInst, c11FlattenT, c11Table_flatten, List.zip_nil_left, bind, Except.bind,
    pure, Except.pure]
  cases c11Mapper c04Classes c04IdentityTable c11Class_flatten [] c11NoInst fuel e <;> rfl

/-! ### the classes instantiated directly -/

theorem c11Construct_plainFolder (d : Nat) :
    c11Construct c11Table (d + 1) .plainFolder [] = .ok (.inst .plainFolder [] []) := by
  simp [c11Construct, c11ClassOf, c11Table, c11FindMethod, c11Class_plainFolder, pure, Except.pure]

theorem c11RunClass_flatten (e : Expr) (fuel : Nat) :
    c11RunClass c04Classes c04IdentityTable c11Table .flattenMapper [] e fuel = flattenM fuel e := by
  rw [c11RunClass, c11Construct_flatten 2, ← c11FlattenT_eq]
  simp only [c11Inst, c11LeafInst, c11FlattenT, c11Table_flatten, List.zip_nil_left, bind, Except.bind,
    pure, Except.pure]
  cases c11Mapper c04Classes c04IdentityTable c11Class_flatten [] c11NoInst fuel e <;> rfl

theorem c11RunClass_folder (comm : Bool) (e : Expr) (fuel : Nat) :
    c11RunClass c04Classes c04IdentityTable c11Table (if comm then .commFolder else .plainFolder) [] e
      fuel = foldM comm fuel e := by
  rw [← c11FoldT_eq]
  cases comm
  · simp only [Bool.false_eq_true, if_false, c11RunClass, c11Construct_plainFolder 2, c11Inst,
      c11LeafInst, c11FoldT, List.zip_nil_left, bind, Except.bind, pure, Except.pure,
      c11Table_plainFolder]
    cases c11Mapper c04Classes c04IdentityTable c11Class_plainFolder [] c11NoInst fuel e <;> rfl
  · simp only [if_true, c11RunClass, c11Construct_commFolder 2, c11Inst,
      c11LeafInst, c11FoldT, List.zip_nil_left, bind, Except.bind, pure, Except.pure,
      c11Table_commFolder]
    cases c11Mapper c04Classes c04IdentityTable c11Class_commFolder [] c11NoInst fuel e <;> rfl

theorem c11RunClass_collector (ps : List Expr) (e : Expr) (fuel : Nat) :
    c11RunClass c04Classes c04IdentityTable c11Table .termCollector [.set (ps.map .expr)] e fuel =
      collectM ps fuel e := by
  rw [c11RunClass, c11Construct_collector 2, ← c11CollectT_eq]
  simp only [c11Inst, c11LeafInst, c11CollectT, c11Table_collector, List.zip_cons_cons,
    List.zip_nil_right, bind, Except.bind, pure, Except.pure]
  cases c11Mapper c04Classes c04IdentityTable c11Class_collector
    [("parameters", C11Val.set (ps.map .expr))] c11NoInst fuel e <;> rfl

end PV
