import PV.Model.StockNodes
/-
  C04: helper lemmas for PV/Properties/C04Stock.lean (user node classes nothing handles; arrays
  under the walk handler).
-/
namespace PV

theorem c04BodyOf_none_of_find_none (tbl : List C04Handler) (fuel : Nat) (n : String)
    (h : c04FindHandler tbl n = none) : c04BodyOf tbl fuel n = none := by
  cases fuel with
  | zero => rfl
  | succ k => simp [c04BodyOf, h]

theorem aWalkObj_entry (body : C04Body) (skip args : Bool) (fuel : Nat) (i : Nat) :
    aWalkObj body skip args fuel (.entry i) = pure (aLeaf args i) := by
  cases fuel <;> rfl

theorem seqL_entries (body : C04Body) (skip args : Bool) (fuel off : Nat) (l : List Nat) :
    c04SeqL (fun o => aWalkObj body skip args fuel o) (l.map (fun i => AObj.entry (off + i)))
      = .ok (l.flatMap (fun i => aLeaf args (off + i))) := by
  induction l with
  | nil => rfl
  | cons a rest ih =>
    simp only [List.map_cons, c04SeqL, aWalkObj_entry, ih, List.flatMap_cons]
    rfl

end PV
