import PV.Proofs.GATableExpected
/-
  C18 (T-gen): rewriting lemmas for the symbolic execution of the table interpreter
  (PV/Model/GATable.lean) — every primitive on the shapes of operands the translated functions
  meet — and the tactic `c18sym` that runs a body.
-/
namespace PV.GA.C18T

section
variable {R : Type} [Add R] [Mul R] [Neg R] [OfNat R 0] [OfNat R 1]

@[simp] theorem C18Res.ok_bind {α β : Type} (a : α) (f : α → C18Res β) :
    (C18Res.ok a >>= f) = f a := rfl
@[simp] theorem C18Res.raise_bind {α β : Type} (e : String) (f : α → C18Res β) :
    (C18Res.raise e >>= f) = .raise e := rfl
@[simp] theorem C18Res.stuck_bind {α β : Type} (e : String) (f : α → C18Res β) :
    (C18Res.stuck e >>= f) = .stuck e := rfl
@[simp] theorem C18Res.fuel_bind {α β : Type} (f : α → C18Res β) :
    (C18Res.fuel >>= f) = .fuel := rfl
@[simp] theorem C18Res.pure_eq {α : Type} (a : α) : (pure a : C18Res α) = .ok a := rfl
@[simp] theorem C18Res.ok_bind' {α β : Type} (a : α) (f : α → C18Res β) :
    (C18Res.ok a).bind f = f a := rfl
@[simp] theorem C18Res.raise_bind' {α β : Type} (e : String) (f : α → C18Res β) :
    (C18Res.raise e).bind f = .raise e := rfl
@[simp] theorem C18Res.stuck_bind' {α β : Type} (e : String) (f : α → C18Res β) :
    (C18Res.stuck e).bind f = .stuck e := rfl
@[simp] theorem C18Res.fuel_bind' {α β : Type} (f : α → C18Res β) :
    (C18Res.fuel : C18Res α).bind f = .fuel := rfl

@[simp] theorem C18Out.ofRes_ok {α : Type} (a : α) (f : α → C18Out R) :
    C18Out.ofRes (.ok a) f = f a := rfl
@[simp] theorem C18Out.ofRes_raise {α : Type} (e : String) (f : α → C18Out R) :
    C18Out.ofRes (.raise e) f = .raise e := rfl
@[simp] theorem C18Out.ofRes_stuck {α : Type} (e : String) (f : α → C18Out R) :
    C18Out.ofRes (.stuck e) f = .stuck e := rfl
@[simp] theorem C18Out.ofRes_fuel {α : Type} (f : α → C18Out R) :
    C18Out.ofRes (.fuel : C18Res α) f = .fuel := rfl

@[simp] theorem C18Out.andThen_normal (env : C18Env R) (k : C18Env R → C18Out R) :
    (C18Out.normal env).andThen k = k env := rfl
@[simp] theorem C18Out.andThen_ret (v : C18Val R) (k : C18Env R → C18Out R) :
    (C18Out.ret v).andThen k = .ret v := rfl
@[simp] theorem C18Out.andThen_raise (e : String) (k : C18Env R → C18Out R) :
    (C18Out.raise e : C18Out R).andThen k = .raise e := rfl
@[simp] theorem C18Out.andThen_stuck (e : String) (k : C18Env R → C18Out R) :
    (C18Out.stuck e : C18Out R).andThen k = .stuck e := rfl
@[simp] theorem C18Out.andThen_fuel (k : C18Env R → C18Out R) :
    (C18Out.fuel : C18Out R).andThen k = .fuel := rfl

@[simp] theorem c18Branch_true (env : C18Env R) (t e : C18Env R → C18Out R) :
    c18Branch (.ok (true, env)) t e = t env := rfl
@[simp] theorem c18Branch_false (env : C18Env R) (t e : C18Env R → C18Out R) :
    c18Branch (.ok (false, env)) t e = e env := rfl
@[simp] theorem c18Branch_raise (x : String) (t e : C18Env R → C18Out R) :
    c18Branch (.raise x) t e = .raise x := rfl
@[simp] theorem c18Branch_stuck (x : String) (t e : C18Env R → C18Out R) :
    c18Branch (.stuck x) t e = .stuck x := rfl

/-- a branch on a condition that is not known yet -/
theorem c18Branch_ok (b : Bool) (env : C18Env R) (t e : C18Env R → C18Out R) :
    c18Branch (.ok (b, env)) t e = if b = true then t env else e env := by
  cases b <;> rfl

/-- one iteration of a `while` loop whose condition holds and whose body completes -/
theorem c18While_iter {cond : C18Env R → C18Res (Bool × C18Env R)} {body : C18Env R → C18Out R}
    {n : Nat} {env env1 env2 : C18Env R} (hc : cond env = .ok (true, env1))
    (hb : body env1 = .normal env2) :
    c18While cond body (n + 1) env = c18While cond body n env2 := by
  simp [c18While, hc, hb]

/-- a `while` loop whose condition fails -/
theorem c18While_exit {cond : C18Env R → C18Res (Bool × C18Env R)} {body : C18Env R → C18Out R}
    {n : Nat} {env env1 : C18Env R} (hc : cond env = .ok (false, env1)) :
    c18While cond body (n + 1) env = .normal env1 := by
  simp [c18While, hc]

/-- an iteration of a `while` loop that leaves it (return / exception) -/
theorem c18While_leave {cond : C18Env R → C18Res (Bool × C18Env R)} {body : C18Env R → C18Out R}
    {n : Nat} {env env1 : C18Env R} {o : C18Out R} (hc : cond env = .ok (true, env1))
    (hb : body env1 = o) (ho : ∀ e, o ≠ .normal e) :
    c18While cond body (n + 1) env = o := by
  simp only [c18While, hc, c18Branch_true, hb]
  cases o <;> simp_all [C18Out.andThen]

/-- one iteration of a `for` loop whose body completes -/
theorem c18For_iter {bind : C18Val R → C18Env R → C18Res (C18Env R)} {body : C18Env R → C18Out R}
    {x : C18Val R} {xs : List (C18Val R)} {env env1 env2 : C18Env R}
    (hbind : bind x env = .ok env1) (hb : body env1 = .normal env2) :
    c18For bind body (x :: xs) env = c18For bind body xs env2 := by
  simp [c18For, hbind, hb]

/-- **a `for` loop is a fold.**  If every iteration (binding + body) completes and carries the
invariant `P` from state `s` to `step s x`, the loop completes with the invariant at the fold. -/
theorem c18For_fold {α : Type} {bind : C18Val R → C18Env R → C18Res (C18Env R)}
    {body : C18Env R → C18Out R} (P : C18Env R → α → Prop) (step : α → C18Val R → α) :
    ∀ (xs : List (C18Val R)) (env : C18Env R) (s : α), P env s →
    (∀ env s x, x ∈ xs → P env s → ∃ env1 env2, bind x env = .ok env1 ∧
        body env1 = .normal env2 ∧ P env2 (step s x)) →
    ∃ env', c18For bind body xs env = .normal env' ∧ P env' (xs.foldl step s) := by
  intro xs
  induction xs with
  | nil => intro env s h _; exact ⟨env, rfl, h⟩
  | cons x xs ih =>
    intro env s h hstep
    obtain ⟨env1, env2, h1, h2, h3⟩ := hstep env s x (List.mem_cons_self) h
    rw [c18For_iter h1 h2]
    exact ih env2 (step s x) h3 fun env s y hy => hstep env s y (List.mem_cons_of_mem _ hy)

@[simp] theorem c18For_nil {bind : C18Val R → C18Env R → C18Res (C18Env R)}
    {body : C18Env R → C18Out R} (env : C18Env R) : c18For bind body [] env = .normal env := rfl

@[simp] theorem c18OfNat_zero : (c18OfNat 0 : R) = 0 := rfl
@[simp] theorem c18OfNat_one : (c18OfNat 1 : R) = 1 := rfl

@[simp] theorem C18Val.ofInt_natCast (n : Nat) : (C18Val.ofInt (n : Int) : C18Val R) = .nat n := rfl
@[simp] theorem C18Val.ofInt_negSucc (n : Nat) :
    (C18Val.ofInt (Int.negSucc n) : C18Val R) = .neg n := rfl
@[simp] theorem C18Val.ofInt_one : (C18Val.ofInt 1 : C18Val R) = .nat 1 := rfl
@[simp] theorem C18Val.ofInt_neg_one : (C18Val.ofInt (-1) : C18Val R) = .neg 0 := rfl
@[simp] theorem C18Val.ofInt_zero : (C18Val.ofInt 0 : C18Val R) = .nat 0 := rfl

@[simp] theorem c18NegOfNat_zero : (c18NegOfNat 0 : C18Val R) = .nat 0 := rfl
@[simp] theorem c18NegOfNat_succ (n : Nat) : (c18NegOfNat (n + 1) : C18Val R) = .neg n := rfl
@[simp] theorem c18NegOfNat_one : (c18NegOfNat 1 : C18Val R) = .neg 0 := rfl

/-! ### truth -/

variable (rt : C18Rt R)

@[simp] theorem c18Cond_nat (n : Nat) : c18Cond rt (.nat n) = .ok (n != 0) := by
  simp [c18Cond, c18UnOp, c18Truthy]
@[simp] theorem c18Cond_bool (b : Bool) : c18Cond rt (.bool b) = .ok b := by
  simp [c18Cond, c18UnOp, c18Truthy]
@[simp] theorem c18Cond_none : c18Cond rt .none = .ok false := by
  simp [c18Cond, c18UnOp, c18Truthy]
@[simp] theorem c18Cond_dict (d : MVOf R) : c18Cond rt (.dict d) = .ok (!d.isEmpty) := by
  simp [c18Cond, c18UnOp, c18Truthy]
@[simp] theorem c18Cond_tdict (d : List (List Nat × R)) :
    c18Cond rt (.tdict d) = .ok (!d.isEmpty) := by
  simp [c18Cond, c18UnOp, c18Truthy]
@[simp] theorem c18Cond_list (xs : List (C18Val R)) : c18Cond rt (.list xs) = .ok (!xs.isEmpty) := by
  simp [c18Cond, c18UnOp, c18Truthy]

@[simp] theorem c18UnOp_not_nat (n : Nat) : c18UnOp rt .not (.nat n) = .ok (.bool (!(n != 0))) := by
  simp [c18UnOp, c18Truthy]
@[simp] theorem c18UnOp_not_bool (b : Bool) : c18UnOp rt .not (.bool b) = .ok (.bool (!b)) := by
  simp [c18UnOp, c18Truthy]
@[simp] theorem c18UnOp_not_dict (d : MVOf R) :
    c18UnOp rt .not (.dict d) = .ok (.bool (!!d.isEmpty)) := by
  simp [c18UnOp, c18Truthy]
@[simp] theorem c18UnOp_neg_nat (n : Nat) :
    c18UnOp rt .neg (.nat n) = .ok (c18NegOfNat n) := rfl
@[simp] theorem c18UnOp_neg_neg (n : Nat) : c18UnOp rt .neg (.neg n) = .ok (.nat (n + 1)) := rfl
@[simp] theorem c18UnOp_neg_coef (c : R) : c18UnOp rt .neg (.coef c) = .ok (.coef (-c)) := rfl
@[simp] theorem c18UnOp_pos_nat (n : Nat) : c18UnOp rt .pos (.nat n) = .ok (.nat n) := rfl

/-! ### binary operators -/

@[simp] theorem c18BinOp_nat_nat (op : C18Bin) (a b : Nat) :
    c18BinOp rt op (.nat a) (.nat b) = c18BinVal rt.Γ op (.nat a) (.nat b) := rfl
@[simp] theorem c18BinOp_nat_neg (op : C18Bin) (a b : Nat) :
    c18BinOp rt op (.nat a) (.neg b) = c18BinVal rt.Γ op (.nat a) (.neg b) := rfl
@[simp] theorem c18BinOp_neg_nat (op : C18Bin) (a b : Nat) :
    c18BinOp rt op (.neg a) (.nat b) = c18BinVal rt.Γ op (.neg a) (.nat b) := rfl
@[simp] theorem c18BinOp_nat_coef (op : C18Bin) (a : Nat) (b : R) :
    c18BinOp rt op (.nat a) (.coef b) = c18BinVal rt.Γ op (.nat a) (.coef b) := rfl
@[simp] theorem c18BinOp_neg_coef (op : C18Bin) (a : Nat) (b : R) :
    c18BinOp rt op (.neg a) (.coef b) = c18BinVal rt.Γ op (.neg a) (.coef b) := rfl
@[simp] theorem c18BinOp_coef_nat (op : C18Bin) (a : R) (b : Nat) :
    c18BinOp rt op (.coef a) (.nat b) = c18BinVal rt.Γ op (.coef a) (.nat b) := rfl
@[simp] theorem c18BinOp_coef_neg (op : C18Bin) (a : R) (b : Nat) :
    c18BinOp rt op (.coef a) (.neg b) = c18BinVal rt.Γ op (.coef a) (.neg b) := rfl
@[simp] theorem c18BinOp_coef_coef (op : C18Bin) (a b : R) :
    c18BinOp rt op (.coef a) (.coef b) = c18BinVal rt.Γ op (.coef a) (.coef b) := rfl
@[simp] theorem c18BinOp_hash_hash (op : C18Bin) (a b : Nat) :
    c18BinOp rt op (.hash a) (.hash b) = c18BinVal rt.Γ op (.hash a) (.hash b) := rfl
@[simp] theorem c18BinOp_list_list (op : C18Bin) (a b : List (C18Val R)) :
    c18BinOp rt op (.list a) (.list b) = c18BinVal rt.Γ op (.list a) (.list b) := rfl

variable (Γ : C18Ctx R)

@[simp] theorem c18BinVal_add_nat (a b : Nat) :
    c18BinVal Γ .add (.nat a) (.nat b) = .ok (.nat (a + b)) := rfl
@[simp] theorem c18BinVal_sub_nat (a b : Nat) :
    c18BinVal Γ .sub (.nat a) (.nat b)
      = .ok (if b ≤ a then .nat (a - b) else .neg (b - a - 1)) := rfl
@[simp] theorem c18BinVal_mul_nat (a b : Nat) :
    c18BinVal Γ .mul (.nat a) (.nat b) = .ok (.nat (a * b)) := rfl
@[simp] theorem c18BinVal_floordiv_nat (a b : Nat) :
    c18BinVal Γ .floordiv (.nat a) (.nat b)
      = if b = 0 then .raise "ZeroDivisionError" else .ok (.nat (a / b)) := rfl
@[simp] theorem c18BinVal_mod_nat (a b : Nat) :
    c18BinVal Γ .mod (.nat a) (.nat b)
      = if b = 0 then .raise "ZeroDivisionError" else .ok (.nat (a % b)) := rfl
@[simp] theorem c18BinVal_pow_nat (a b : Nat) :
    c18BinVal Γ .pow (.nat a) (.nat b) = .ok (.nat (a ^ b)) := rfl
@[simp] theorem c18BinVal_band_nat (a b : Nat) :
    c18BinVal Γ .band (.nat a) (.nat b) = .ok (.nat (a &&& b)) := rfl
@[simp] theorem c18BinVal_bor_nat (a b : Nat) :
    c18BinVal Γ .bor (.nat a) (.nat b) = .ok (.nat (a ||| b)) := rfl
@[simp] theorem c18BinVal_bxor_nat (a b : Nat) :
    c18BinVal Γ .bxor (.nat a) (.nat b) = .ok (.nat (a ^^^ b)) := rfl
@[simp] theorem c18BinVal_shl_nat (a b : Nat) :
    c18BinVal Γ .shl (.nat a) (.nat b) = .ok (.nat (a <<< b)) := rfl
@[simp] theorem c18BinVal_shr_nat (a b : Nat) :
    c18BinVal Γ .shr (.nat a) (.nat b) = .ok (.nat (a >>> b)) := rfl
@[simp] theorem c18BinVal_mul_nat_neg (a b : Nat) :
    c18BinVal Γ .mul (.nat a) (.neg b) = .ok (c18NegOfNat (a * (b + 1))) := rfl
@[simp] theorem c18BinVal_mul_neg_nat (a b : Nat) :
    c18BinVal Γ .mul (.neg a) (.nat b) = .ok (c18NegOfNat ((a + 1) * b)) := rfl
@[simp] theorem c18BinVal_coef_coef (op : C18Bin) (a b : R) :
    c18BinVal Γ op (.coef a) (.coef b) = c18CoefOp Γ op a b := rfl
@[simp] theorem c18BinVal_nat_coef (op : C18Bin) (a : Nat) (b : R) :
    c18BinVal Γ op (.nat a) (.coef b) = c18CoefOp Γ op (c18OfNat a) b := rfl
@[simp] theorem c18BinVal_neg_coef (op : C18Bin) (a : Nat) (b : R) :
    c18BinVal Γ op (.neg a) (.coef b) = c18CoefOp Γ op (-(c18OfNat (a + 1))) b := rfl
@[simp] theorem c18BinVal_coef_nat (op : C18Bin) (a : R) (b : Nat) :
    c18BinVal Γ op (.coef a) (.nat b) = c18CoefOp Γ op a (c18OfNat b) := rfl
@[simp] theorem c18BinVal_coef_neg (op : C18Bin) (a : R) (b : Nat) :
    c18BinVal Γ op (.coef a) (.neg b) = c18CoefOp Γ op a (-(c18OfNat (b + 1))) := rfl
@[simp] theorem c18CoefOp_add (a b : R) : c18CoefOp Γ .add a b = .ok (.coef (a + b)) := rfl
@[simp] theorem c18CoefOp_mul (a b : R) : c18CoefOp Γ .mul a b = .ok (.coef (a * b)) := rfl
@[simp] theorem c18CoefOp_truediv (a b : R) :
    c18CoefOp Γ .truediv a b
      = if Γ.z b then .raise "ZeroDivisionError" else .ok (.coef (Γ.div a b)) := rfl
@[simp] theorem c18BinVal_bxor_hash (a b : Nat) :
    c18BinVal Γ .bxor (.hash a) (.hash b) = .ok (.hash (a ^^^ b)) := rfl

/-! ### iteration -/

@[simp] theorem c18Iter_list (xs : List (C18Val R)) : c18Iter (.list xs) = some xs := rfl
@[simp] theorem c18Iter_tuple (xs : List (C18Val R)) : c18Iter (.tuple xs) = some xs := rfl
@[simp] theorem c18Iter_dict (d : MVOf R) :
    c18Iter (.dict d) = some (d.map fun (k, _) => (.nat k : C18Val R)) := rfl

/-! ### builtins -/

@[simp] theorem c18Apply_fn (q : String) (args : List (C18Val R)) (kw : List (String × C18Val R)) :
    c18Apply rt (.fn q) args kw = rt.callee q args kw := rfl
@[simp] theorem c18Apply_prim (n : String) (args : List (C18Val R))
    (kw : List (String × C18Val R)) : c18Apply rt (.prim n) args kw = c18Prim rt n args kw := rfl
@[simp] theorem c18Prim_int_bool (b : Bool) :
    c18Prim rt "int" [.bool b] [] = .ok (.nat (if b then 1 else 0)) := rfl
@[simp] theorem c18Prim_int_nat (n : Nat) : c18Prim rt "int" [.nat n] [] = .ok (.nat n) := rfl
@[simp] theorem c18Prim_len_dict (d : MVOf R) :
    c18Prim rt "len" [.dict d] [] = .ok (.nat d.length) := rfl
@[simp] theorem c18Prim_is_zero_coef (c : R) :
    c18Prim rt "pymbolic.primitives.is_zero" [.coef c] [] = .ok (.bool (rt.Γ.z c)) := rfl
@[simp] theorem c18Prim_is_zero_nat (n : Nat) :
    c18Prim rt "pymbolic.primitives.is_zero" [.nat n] [] = .ok (.bool (rt.Γ.z (c18OfNat n))) := rfl
@[simp] theorem c18Prim_hash_space :
    c18Prim rt "hash" [(.space : C18Val R)] [] = .ok (.hash rt.Γ.hspace) := rfl
@[simp] theorem c18Prim_hash_nat (n : Nat) :
    c18Prim rt "hash" [.nat n] [] = .ok (.hash (rt.Γ.hb n)) := rfl
@[simp] theorem c18Prim_hash_coef (c : R) :
    c18Prim rt "hash" [.coef c] [] = .ok (.hash (rt.Γ.hc c)) := rfl

/-! ### attributes, indexing -/

@[simp] theorem c18GetAttr_space_metric :
    c18GetAttr rt (.space : C18Val R) "metric_matrix" = .ok .metric := rfl
@[simp] theorem c18GetAttr_space_dims :
    c18GetAttr rt (.space : C18Val R) "dimensions" = .ok (.nat rt.Γ.dims) := rfl
@[simp] theorem c18GetAttr_space_orth :
    c18GetAttr rt (.space : C18Val R) "is_orthogonal" = .ok (.bool rt.Γ.orth) := rfl
@[simp] theorem c18GetAttr_obj_data (sp : Bool) (d : MVOf R) :
    c18GetAttr rt (.obj sp (some d)) "data" = .ok (.dict d) := rfl
@[simp] theorem c18GetAttr_obj_space (d : Option (MVOf R)) :
    c18GetAttr rt (.obj true d) "space" = .ok .space := rfl
@[simp] theorem c18Index_metric_diag (i : Nat) :
    c18Index rt (.metric : C18Val R) [.nat i, .nat i] = .ok (.coef (rt.Γ.g i)) := by
  simp [c18Index]

/-! ### comparisons -/

@[simp] theorem c18CmpOp_eq_nat (a b : Nat) :
    c18CmpOp rt .eq (.nat a) (.nat b) = .ok (.bool (a == b)) := rfl
@[simp] theorem c18CmpOp_ne_nat (a b : Nat) :
    c18CmpOp rt .ne (.nat a) (.nat b) = .ok (.bool (!(a == b))) := rfl
@[simp] theorem c18CmpOp_gt_nat (a b : Nat) :
    c18CmpOp rt .gt (.nat a) (.nat b) = .ok (.bool (a > b)) := rfl
@[simp] theorem c18CmpOp_lt_nat (a b : Nat) :
    c18CmpOp rt .lt (.nat a) (.nat b) = .ok (.bool (a < b)) := rfl
@[simp] theorem c18CmpOp_is_none_none :
    c18CmpOp rt .is (.none : C18Val R) .none = .ok (.bool true) := rfl
@[simp] theorem c18CmpOp_is_nat_none (a : Nat) :
    c18CmpOp rt .is (.nat a) .none = .ok (.bool false) := rfl
@[simp] theorem c18CmpOp_is_obj_notimpl (s : Bool) (d : Option (MVOf R)) :
    c18CmpOp rt .is (.obj s d) .notImplemented = .ok (.bool false) := rfl
@[simp] theorem c18CmpOp_isNot_space :
    c18CmpOp rt .isNot (.space : C18Val R) .space = .ok (.bool false) := rfl
@[simp] theorem c18CmpOp_is_space_none :
    c18CmpOp rt .is (.space : C18Val R) .none = .ok (.bool false) := rfl
@[simp] theorem c18CmpOp_isNot_none_none :
    c18CmpOp rt .isNot (.none : C18Val R) .none = .ok (.bool false) := rfl

/-! ### the interpreter, one equation per constructor, for FULLY APPLIED calls only (a
continuation `c18ExecList rt rest` / `c18Eval rt k` that is not yet applied stays folded) -/

section Eqns
variable (rt : C18Rt R) (env : C18Env R)

theorem c18Eval_name (n : String) :
    c18Eval rt (.name n) env = (do let v ← c18Lookup rt n env; pure (v, env)) := by (rw [c18Eval]) <;> rfl
theorem c18Eval_nat (n : Nat) : c18Eval rt (.nat n) env = .ok (.nat n, env) := by (rw [c18Eval]) <;> rfl
theorem c18Eval_str (s : String) : c18Eval rt (.str s) env = .ok (.str s, env) := by (rw [c18Eval]) <;> rfl
theorem c18Eval_none : c18Eval rt .none env = .ok (.none, env) := by (rw [c18Eval]) <;> rfl
theorem c18Eval_bin (op : C18Bin) (a b : C18Expr) :
    c18Eval rt (.bin op a b) env = (do
      let (x, env) ← c18Eval rt a env
      let (y, env) ← c18Eval rt b env
      let r ← c18BinOp rt op x y
      pure (r, env)) := by (rw [c18Eval]) <;> rfl
theorem c18Eval_un (op : C18Un) (a : C18Expr) :
    c18Eval rt (.un op a) env = (do
      let (x, env) ← c18Eval rt a env
      let r ← c18UnOp rt op x
      pure (r, env)) := by (rw [c18Eval]) <;> rfl
theorem c18Eval_cmp (op : C18Cmp) (a b : C18Expr) :
    c18Eval rt (.cmp op a b) env = (do
      let (x, env) ← c18Eval rt a env
      let (y, env) ← c18Eval rt b env
      let r ← c18CmpOp rt op x y
      pure (r, env)) := by (rw [c18Eval]) <;> rfl
theorem c18Eval_and (a b : C18Expr) :
    c18Eval rt (.and a b) env = (do
      let (x, env) ← c18Eval rt a env
      let t ← c18Cond rt x
      if t then c18Eval rt b env else pure (x, env)) := by (rw [c18Eval]) <;> rfl
theorem c18Eval_or (a b : C18Expr) :
    c18Eval rt (.or a b) env = (do
      let (x, env) ← c18Eval rt a env
      let t ← c18Cond rt x
      if t then pure (x, env) else c18Eval rt b env) := by (rw [c18Eval]) <;> rfl
theorem c18Eval_ifExp (c t e : C18Expr) :
    c18Eval rt (.ifExp c t e) env = (do
      let (x, env) ← c18Eval rt c env
      let b ← c18Cond rt x
      if b then c18Eval rt t env else c18Eval rt e env) := by (rw [c18Eval]) <;> rfl
theorem c18Eval_attr (e : C18Expr) (a : String) :
    c18Eval rt (.attr e a) env = (do
      let (v, env) ← c18Eval rt e env
      let r ← c18GetAttr rt v a
      pure (r, env)) := by (rw [c18Eval]) <;> rfl
theorem c18Eval_index (e : C18Expr) (idx : List C18Expr) :
    c18Eval rt (.index e idx) env = (do
      let (v, env) ← c18Eval rt e env
      let (is, env) ← c18EvalList rt idx env
      let r ← c18Index rt v is
      pure (r, env)) := by (rw [c18Eval]) <;> rfl
theorem c18Eval_callMethod (recv : C18Expr) (m : String) (args : List C18Expr)
    (kwNames : List String) (kwVals : List C18Expr) :
    c18Eval rt (.callMethod recv m args kwNames kwVals) env = (do
      let (v, env) ← c18Eval rt recv env
      let (as, env) ← c18EvalList rt args env
      let (ks, env) ← c18EvalList rt kwVals env
      match v, m, as, recv with
      | .dict d, "setdefault", [.nat k, dflt], .name x =>
        match dictGet d k with
        | some c => pure (.coef c, env)
        | Option.none =>
          match dflt with
          | .nat i => pure (.nat i, c18Set x (.dict (dictSet d k (c18OfNat i))) env)
          | .coef c => pure (.coef c, c18Set x (.dict (dictSet d k c)) env)
          | _ => .stuck "setdefault with this default"
      | _, _, _, _ => do
        let r ← c18CallMethod rt v m as (c18ZipKw kwNames ks)
        pure (r, env)) := by (rw [c18Eval]) <;> rfl
theorem c18Eval_call (f : C18Expr) (args : List C18Expr) (kwNames : List String)
    (kwVals : List C18Expr) :
    c18Eval rt (.call f args kwNames kwVals) env = (do
      let (fv, env) ← c18Eval rt f env
      let (as, env) ← c18EvalList rt args env
      let (ks, env) ← c18EvalList rt kwVals env
      let r ← c18Apply rt fv as (c18ZipKw kwNames ks)
      pure (r, env)) := by (rw [c18Eval]) <;> rfl
theorem c18Eval_dict (keys vals : List C18Expr) :
    c18Eval rt (.dict keys vals) env = (do
      let (ks, env) ← c18EvalList rt keys env
      let (vs, env) ← c18EvalList rt vals env
      let d ← (ks.zip vs).foldl (fun acc kv => acc.bind (c18DictPut kv)) (.ok (.dict []))
      pure (d, env)) := by (rw [c18Eval]) <;> rfl
theorem c18Eval_list (items : List C18Expr) :
    c18Eval rt (.list items) env = (do
      let (xs, env) ← c18EvalList rt items env
      pure (.list xs, env)) := by (rw [c18Eval]) <;> rfl
theorem c18Eval_tuple (items : List C18Expr) :
    c18Eval rt (.tuple items) env = (do
      let (xs, env) ← c18EvalList rt items env
      pure (.tuple xs, env)) := by (rw [c18Eval]) <;> rfl
theorem c18Eval_dictComp (k v : C18Expr) (targets : List String) (iter : C18Expr) :
    c18Eval rt (.dictComp k v targets iter) env = (do
      let (it, env) ← c18Eval rt iter env
      match c18Iter it with
      | Option.none => .stuck "iteration over this value"
      | some xs =>
        let d ← xs.foldl (c18DictCompStep (c18Eval rt k) (c18Eval rt v) targets env) (.ok (.dict []))
        pure (d, env)) := by (rw [c18Eval]) <;> rfl
theorem c18Eval_gen (kind : String) (elt : C18Expr) (targets : List String) (iter : C18Expr)
    (conds : List C18Expr) :
    c18Eval rt (.gen kind elt targets iter conds) env = (do
      let (it, env) ← c18Eval rt iter env
      match c18Iter it with
      | Option.none => .stuck "iteration over this value"
      | some xs =>
        let out ← xs.foldl
          (c18GenStep (c18Cond rt) (c18EvalList rt conds) (c18Eval rt elt) targets env) (.ok [])
        pure (.list out, env)) := by (rw [c18Eval]) <;> rfl

theorem c18EvalList_nil : c18EvalList rt [] env = .ok ([], env) := by (rw [c18EvalList]) <;> rfl
theorem c18EvalList_cons (e : C18Expr) (es : List C18Expr) :
    c18EvalList rt (e :: es) env = (do
      let (v, env) ← c18Eval rt e env
      let (vs, env) ← c18EvalList rt es env
      pure (v :: vs, env)) := by (rw [c18EvalList]) <;> rfl

theorem c18Exec_assign (targets : List C18Target) (unpack : Bool) (e : C18Expr) :
    c18Exec rt (.assign targets unpack e) env =
      C18Out.ofRes (c18Eval rt e env) fun (v, env) =>
        if unpack then
          match c18Iter v with
          | some xs => C18Out.ofRes (c18StoreAll rt targets xs env) .normal
          | Option.none => .stuck "unpacking a non-iterable"
        else C18Out.ofRes (c18StoreAll rt targets (targets.map fun _ => v) env) .normal := by
  (rw [c18Exec]) <;> rfl
theorem c18Exec_aug (t : C18Target) (op : C18Bin) (e : C18Expr) :
    c18Exec rt (.aug t op e) env =
      C18Out.ofRes (c18Load rt t env) fun (x, env) =>
      C18Out.ofRes (c18Eval rt e env) fun (y, env) =>
      C18Out.ofRes (c18BinOp rt op x y) fun r =>
      C18Out.ofRes (c18Store rt t r env) .normal := by (rw [c18Exec]) <;> rfl
theorem c18Exec_ifThen (c : C18Expr) (body orelse : List C18Stmt) :
    c18Exec rt (.ifThen c body orelse) env =
      c18Branch (c18CondOf rt c env) (c18ExecList rt body) (c18ExecList rt orelse) := by
  (rw [c18Exec]) <;> rfl
theorem c18Exec_while (c : C18Expr) (body : List C18Stmt) :
    c18Exec rt (.while c body) env =
      c18While (c18CondOf rt c) (c18ExecList rt body) rt.fuel env := by (rw [c18Exec]) <;> rfl
theorem c18Exec_forIn (targets : List String) (iter : C18Expr) (body : List C18Stmt) :
    c18Exec rt (.forIn targets iter body) env =
      C18Out.ofRes (c18Eval rt iter env) fun (it, env) =>
        match c18Iter it with
        | Option.none => .stuck "iteration over this value"
        | some xs => c18For (c18BindNames targets) (c18ExecList rt body) xs env := by (rw [c18Exec]) <;> rfl
theorem c18Exec_ret (e : C18Expr) :
    c18Exec rt (.ret e) env = C18Out.ofRes (c18Eval rt e env) fun (v, _) => .ret v := by
  (rw [c18Exec]) <;> rfl
theorem c18Exec_raise (exc : String) : c18Exec rt (.raise exc) env = .raise exc := by (rw [c18Exec]) <;> rfl
theorem c18Exec_del (obj : String) (i : C18Expr) :
    c18Exec rt (.del obj i) env =
      C18Out.ofRes (c18Eval rt i env) fun (k, env) =>
        match c18Get obj env, k with
        | some (.dict d), .nat k =>
          if (dictGet d k).isSome then .normal (c18Set obj (.dict (dictDel d k)) env)
          else .raise "KeyError"
        | _, _ => .stuck "del on these operands" := by (rw [c18Exec]) <;> rfl
theorem c18Exec_pass : c18Exec rt .pass env = .normal env := by (rw [c18Exec]) <;> rfl
theorem c18Exec_assert (src : String) : c18Exec rt (.assert src) env = .normal env := by
  (rw [c18Exec]) <;> rfl
theorem c18Exec_importFrom (module name asname : String) :
    c18Exec rt (.importFrom module name asname) env =
      .normal (c18Set asname (.prim (module ++ "." ++ name)) env) := by (rw [c18Exec]) <;> rfl

theorem c18ExecList_nil : c18ExecList rt [] env = .normal env := by (rw [c18ExecList]) <;> rfl
theorem c18ExecList_cons (s : C18Stmt) (rest : List C18Stmt) :
    c18ExecList rt (s :: rest) env = (c18Exec rt s env).andThen (c18ExecList rt rest) := by
  (rw [c18ExecList]) <;> rfl

end Eqns

end

/-- symbolic execution of the interpreter: the control structure is unfolded, primitives are
rewritten by the lemmas above -/
macro "c18sym" : tactic => `(tactic|
  simp [c18CondOf, c18Eval_name, c18Eval_nat, c18Eval_str, c18Eval_none, c18Eval_bin, c18Eval_un,
    c18Eval_cmp, c18Eval_and, c18Eval_or, c18Eval_ifExp, c18Eval_attr, c18Eval_index, c18Eval_call,
    c18Eval_callMethod,
    c18Eval_dict, c18Eval_list, c18Eval_tuple, c18Eval_dictComp, c18Eval_gen, c18EvalList_nil,
    c18EvalList_cons, c18Exec_assign, c18Exec_aug, c18Exec_ifThen, c18Exec_while, c18Exec_forIn,
    c18Exec_ret, c18Exec_raise, c18Exec_del, c18Exec_pass, c18Exec_assert, c18Exec_importFrom,
    c18ExecList_nil, c18ExecList_cons, c18Lookup, c18Get, c18Set, c18Store, c18StoreAll, c18Load,
    c18ZipKw])

macro "c18sym" "[" ts:Lean.Parser.Tactic.simpLemma,* "]" : tactic => `(tactic|
  simp [c18CondOf, c18Eval_name, c18Eval_nat, c18Eval_str, c18Eval_none, c18Eval_bin, c18Eval_un,
    c18Eval_cmp, c18Eval_and, c18Eval_or, c18Eval_ifExp, c18Eval_attr, c18Eval_index, c18Eval_call,
    c18Eval_callMethod,
    c18Eval_dict, c18Eval_list, c18Eval_tuple, c18Eval_dictComp, c18Eval_gen, c18EvalList_nil,
    c18EvalList_cons, c18Exec_assign, c18Exec_aug, c18Exec_ifThen, c18Exec_while, c18Exec_forIn,
    c18Exec_ret, c18Exec_raise, c18Exec_del, c18Exec_pass, c18Exec_assert, c18Exec_importFrom,
    c18ExecList_nil, c18ExecList_cons, c18Lookup, c18Get, c18Set, c18Store, c18StoreAll, c18Load,
    c18ZipKw, $ts,*])

macro "c18sym" "[" ts:Lean.Parser.Tactic.simpLemma,* "]" "at" h:ident : tactic => `(tactic|
  simp [c18CondOf, c18Eval_name, c18Eval_nat, c18Eval_str, c18Eval_none, c18Eval_bin, c18Eval_un,
    c18Eval_cmp, c18Eval_and, c18Eval_or, c18Eval_ifExp, c18Eval_attr, c18Eval_index, c18Eval_call,
    c18Eval_callMethod,
    c18Eval_dict, c18Eval_list, c18Eval_tuple, c18Eval_dictComp, c18Eval_gen, c18EvalList_nil,
    c18EvalList_cons, c18Exec_assign, c18Exec_aug, c18Exec_ifThen, c18Exec_while, c18Exec_forIn,
    c18Exec_ret, c18Exec_raise, c18Exec_del, c18Exec_pass, c18Exec_assert, c18Exec_importFrom,
    c18ExecList_nil, c18ExecList_cons, c18Lookup, c18Get, c18Set, c18Store, c18StoreAll, c18Load,
    c18ZipKw, $ts,*] at $h:ident)


end PV.GA.C18T
