import PV.Model.DiffTable
/-
  C10, T-gen: the parametrised differentiator `diffG`, instantiated with the hand-written rules
  (`c10ModelRules`), IS the hand-written differentiator `diff`.  Independent of the regenerated
  table (proved once); `PV/Proofs/DiffTableCurrent.lean` adds `c10RulesOf Generated.c10DiffTable
  = c10ModelRules`.
-/
namespace PV

theorem liftOp_bind (x : OpR) (k : Expr → OpR) :
    liftOp (x >>= k) = (liftOp x >>= fun a => liftOp (k a)) := by
  cases x <;> rfl

theorem liftOp_pure (a : Expr) : liftOp (pure a) = pure a := rfl

section
variable (cfg : Smooth) (v : Expr)

mutual
theorem diffG_model : ∀ (e : Expr), diffG c10ModelRules cfg v e = diff cfg v e
  | .nary .sum cs => by simp only [diffG, diff, diffGL_model cs]
  | .nary .prod cs => by simp only [diffG, diff, diffGProd_model cs]
  | .bin .quot a b => by
      simp only [diffG, diff, diffG_model a, diffG_model b]
      rfl
  | .bin .pow a b => by
      simp only [diffG, diff, diffG_model a, diffG_model b]
      rfl
  | .ite c t e => by
      simp only [diffG, diff, diffG_model t, diffG_model e]
      by_cases h : cfg = .discontinuous <;> simp [c10ModelRules, h]
  | .cse c p s => by
      simp only [diffG, diff, diffG_model c]
      rfl
  | .call f [] => by simp only [diffG, diff]
  | .call f (p :: ps) => by
      simp only [diffG, diff, diffGCall_model]
      rfl
  | .const _ | .var _ | .subscript _ _ => by
      simp only [diffG, diff]
      rfl
  | .nary .bor _ | .nary .bxor _ | .nary .band _
  | .nary .lor _ | .nary .land _ | .nary .min _
  | .nary .max _ | .bin .floordiv _ _ | .bin .rem _ _
  | .bin .lshift _ _ | .bin .rshift _ _ | .un _ _
  | .cmp _ _ _ | .callKw _ _ _ _ | .lookup _ _
  | .subst _ _ _ | .deriv _ _ | .slice _ | .nan
  | .wildcard | .dotWild _ | .starWild _
  | .funcSym | .tuple _ | .list _ => by simp only [diffG, diff]
termination_by structural e => e
theorem diffGL_model : ∀ (cs : List Expr), diffGL c10ModelRules cfg v cs = diffL cfg v cs
  | [] => by simp only [diffGL, diffL]
  | c :: cs => by simp only [diffGL, diffL, diffG_model c, diffGL_model cs]
termination_by structural cs => cs
theorem diffGProd_model : ∀ (cs pre : List Expr),
    diffGProd c10ModelRules cfg v pre cs = diffProd cfg v pre cs
  | [], _ => by simp only [diffGProd, diffProd]
  | c :: cs, pre => by
      simp only [diffGProd, diffProd, diffG_model c, diffGProd_model cs]
termination_by structural cs => cs
theorem diffGCall_model : ∀ (ps : List Expr) (fm : Expr),
    diffGCall c10ModelRules cfg v fm ps = diffCall cfg v fm ps
  | [], _ => by simp only [diffGCall, diffCall]
  | p :: ps, fm => by
      simp only [diffGCall, diffCall, diffG_model p, diffGCall_model ps]
termination_by structural ps => ps
end

end

/-- `diffG` only depends on the rules -/
theorem diffG_congr {R R' : C10Rules} (h : R = R') (cfg : Smooth) (v e : Expr) :
    diffG R cfg v e = diffG R' cfg v e := by rw [h]

end PV
