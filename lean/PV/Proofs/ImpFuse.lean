import PV.Model.Imperative
import PV.Proofs.UnionPy
import Batteries.Data.List.Basic
/-
  Helper lemmas for C20: finite sets of names, the name generator, fusion of statement ids.
-/
namespace PV.Imp
open PV

/-! ### sets of names -/

theorem mem_insertS {xs : List String} {x y : String} : x ∈ insertS xs y ↔ x ∈ xs ∨ x = y := by
  unfold insertS
  split
  · constructor
    · exact Or.inl
    · rintro (h | rfl) <;> assumption
  · simp

theorem nodup_insertS {xs : List String} (y : String) (h : xs.Nodup) : (insertS xs y).Nodup := by
  unfold insertS
  split
  · exact h
  · rename_i hy
    rw [List.nodup_append]
    refine ⟨h, by simp, ?_⟩
    intro a ha b hb
    simp at hb
    subst hb
    rintro rfl
    exact hy ha

theorem mem_unionS {x : String} : ∀ {b a : List String}, x ∈ unionS a b ↔ x ∈ a ∨ x ∈ b
  | [], a => by simp [unionS]
  | y :: b, a => by
    have ih := mem_unionS (x := x) (b := b) (a := insertS a y)
    simp only [unionS, List.foldl_cons] at ih ⊢
    rw [ih, mem_insertS, List.mem_cons]
    constructor
    · rintro ((h | h) | h)
      · exact Or.inl h
      · exact Or.inr (Or.inl h)
      · exact Or.inr (Or.inr h)
    · rintro (h | h | h)
      · exact Or.inl (Or.inl h)
      · exact Or.inl (Or.inr h)
      · exact Or.inr h

theorem nodup_unionS : ∀ {b a : List String}, a.Nodup → (unionS a b).Nodup
  | [], _, h => by simpa [unionS] using h
  | y :: b, a, h => by
    have := nodup_unionS (b := b) (nodup_insertS y h)
    simpa [unionS] using this

theorem mem_dedupS {x : String} {xs : List String} : x ∈ dedupS xs ↔ x ∈ xs := by
  simp [dedupS, mem_unionS]

theorem nodup_dedupS (xs : List String) : (dedupS xs).Nodup :=
  nodup_unionS List.nodup_nil

theorem mem_interS {x : String} {a b : List String} : x ∈ interS a b ↔ x ∈ a ∧ x ∈ b := by
  simp [interS, List.mem_filter]

/-! ### `Forall₂` plumbing -/

theorem forall2_comp {α β γ : Type} {R : α → β → Prop} {S : β → γ → Prop} :
    ∀ {l₁ : List α} {l₂ : List β} {l₃ : List γ}, List.Forall₂ R l₁ l₂ → List.Forall₂ S l₂ l₃ →
      List.Forall₂ (fun a c => ∃ b, R a b ∧ S b c) l₁ l₃
  | _, _, _, .nil, .nil => .nil
  | _, _, _, .cons h1 t1, .cons h2 t2 => .cons ⟨_, h1, h2⟩ (forall2_comp t1 t2)

theorem forall2_and {α β : Type} {R S : α → β → Prop} :
    ∀ {l₁ : List α} {l₂ : List β}, List.Forall₂ R l₁ l₂ → List.Forall₂ S l₁ l₂ →
      List.Forall₂ (fun a b => R a b ∧ S a b) l₁ l₂
  | _, _, .nil, .nil => .nil
  | _, _, .cons h1 t1, .cons h2 t2 => .cons ⟨h1, h2⟩ (forall2_and t1 t2)

theorem forall2_imp {α β : Type} {R S : α → β → Prop} (H : ∀ a b, R a b → S a b) :
    ∀ {l₁ : List α} {l₂ : List β}, List.Forall₂ R l₁ l₂ → List.Forall₂ S l₁ l₂
  | _, _, .nil => .nil
  | _, _, .cons h t => .cons (H _ _ h) (forall2_imp H t)

theorem forall2_true {α β : Type} {R : α → β → Prop} (T : α → β → Prop) (H : ∀ a b, T a b) :
    ∀ {l₁ : List α} {l₂ : List β}, List.Forall₂ R l₁ l₂ → List.Forall₂ T l₁ l₂
  | _, _, .nil => .nil
  | _, _, .cons _ t => .cons (H _ _) (forall2_true T H t)

theorem forall2_map_eq {α β γ : Type} {R : α → β → Prop} {f : β → γ} {g : α → γ}
    (H : ∀ a b, R a b → f b = g a) :
    ∀ {l₁ : List α} {l₂ : List β}, List.Forall₂ R l₁ l₂ → l₂.map f = l₁.map g
  | _, _, .nil => rfl
  | _, _, .cons h t => by simp [H _ _ h, forall2_map_eq H t]

/-! ### association lists -/

theorem lookup_assocSet (m : List (String × String)) (k v k' : String) :
    (assocSet m k v).lookup k' = if k' = k then some v else m.lookup k' := by
  induction m with
  | nil =>
    simp only [assocSet, List.lookup_cons, List.lookup_nil]
    by_cases h : k' = k
    · simp [h]
    · have : (k' == k) = false := by simpa using h
      simp [this, h]
  | cons p rest ih =>
    obtain ⟨k₀, v₀⟩ := p
    simp only [assocSet]
    by_cases h0 : k₀ = k
    · subst h0
      simp only [beq_self_eq_true, ↓reduceIte, List.lookup_cons]
      by_cases h : k' = k₀
      · simp [h]
      · have : (k' == k₀) = false := by simpa using h
        simp [this, h]
    · have : (k₀ == k) = false := by simpa using h0
      simp only [this, Bool.false_eq_true, ↓reduceIte, List.lookup_cons, ih]
      by_cases h : k' = k₀
      · subst h
        simp [h0]
      · have : (k' == k₀) = false := by simpa using h
        simp [this]

/-! ### the pytools generator meets the contract -/

theorem searchName_fresh (ex : List String) (base : String) :
    ∀ (fuel num c : Nat) (name : String), searchName ex base fuel num = some (c, name) → name ∉ ex
  | 0, _, _, _, h => by simp [searchName] at h
  | fuel + 1, num, c, name, h => by
    simp only [searchName] at h
    split at h
    · exact searchName_fresh ex base fuel (num + 1) c name h
    · rename_i hn
      cases h
      exact hn

theorem find_fresh (g : GenState) (base : String) (cnt : Option Nat) (c : Nat) (name : String)
    (h : g.find base cnt = some (c, name)) : name ∉ g.existing := by
  cases cnt with
  | none =>
    simp only [GenState.find] at h
    split at h
    · exact searchName_fresh _ _ _ _ _ _ h
    · rename_i hne
      cases h
      exact hne
  | some c0 => exact searchName_fresh _ _ _ _ _ _ h

theorem call_fresh (g : GenState) (b n : String) (g' : GenState) (h : g.call b = some (n, g')) :
    n ∉ g.existing ∧ g'.existing = insertS g.existing n := by
  unfold GenState.call at h
  simp only at h
  split at h
  · cases h
  · rename_i c name hfound
    cases h
    exact ⟨find_fresh _ _ _ _ _ hfound, rfl⟩

theorem pyGen_fresh : pyGen.Fresh where
  init_used := fun xs x => by simp [pyGen, mem_dedupS]
  call_fresh := fun s b n s' h => (call_fresh s b n s' h).1
  call_used := fun s b n s' h x => by
    have := (call_fresh s b n s' h).2
    simp only [pyGen] at this ⊢
    rw [this, mem_insertS]
    exact or_comm

/-! ### fusion -/

section
variable {σ : Type} {G : NameGen σ}

theorem renameIds_spec (hG : G.Fresh) :
    ∀ (B : List Stmt) (s : σ) (m : List (String × String)) (bs : List Stmt)
      (m' : List (String × String)) (s' : σ),
    renameIds G s B m = some (bs, m', s') →
    List.Forall₂ (fun b b' => b'.kind = b.kind ∧ b'.dependsOn = b.dependsOn) B bs ∧
    (∀ n ∈ bs.map (·.id), n ∉ G.used s) ∧ (bs.map (·.id)).Nodup ∧
    (∀ x, x ∈ G.used s' ↔ (x ∈ bs.map (·.id) ∨ x ∈ G.used s)) ∧
    (∀ k, k ∉ B.map (·.id) → m'.lookup k = m.lookup k) ∧
    (∀ k ∈ B.map (·.id), ∃ v ∈ bs.map (·.id), m'.lookup k = some v) ∧
    ((B.map (·.id)).Nodup → List.Forall₂ (fun b b' => m'.lookup b.id = some b'.id) B bs)
  | [], s, m, bs, m', s', h => by
    simp only [renameIds, Option.some.injEq, Prod.mk.injEq] at h
    obtain ⟨rfl, rfl, rfl⟩ := h
    simp
  | b :: rest, s, m, bs, m', s', h => by
    simp only [renameIds] at h
    split at h
    · cases h
    · rename_i n s₁ hcall
      split at h
      · cases h
      · rename_i bs₁ m₁ s₂ hrec
        simp only [Option.some.injEq, Prod.mk.injEq] at h
        obtain ⟨rfl, rfl, rfl⟩ := h
        obtain ⟨h1, h2, h3, h4, h5, h5', h6⟩ := renameIds_spec hG rest s₁ _ bs₁ m₁ s₂ hrec
        have hfresh := hG.call_fresh _ _ _ _ hcall
        have hused := hG.call_used _ _ _ _ hcall
        refine ⟨.cons ⟨rfl, rfl⟩ h1, ?_, ?_, ?_, ?_, ?_, ?_⟩
        · intro x hx
          simp only [List.map_cons, List.mem_cons] at hx
          rcases hx with rfl | hx
          · exact hfresh
          · intro hu
            exact h2 x hx ((hused x).2 (Or.inr hu))
        · simp only [List.map_cons, List.nodup_cons]
          refine ⟨?_, h3⟩
          intro hn
          exact h2 n hn ((hused n).2 (Or.inl rfl))
        · intro x
          rw [h4 x, hused x]
          simp only [List.map_cons, List.mem_cons]
          constructor
          · rintro (h | rfl | h)
            · exact Or.inl (Or.inr h)
            · exact Or.inl (Or.inl rfl)
            · exact Or.inr h
          · rintro ((rfl | h) | h)
            · exact Or.inr (Or.inl rfl)
            · exact Or.inl h
            · exact Or.inr (Or.inr h)
        · intro k hk
          simp only [List.map_cons, List.mem_cons, not_or] at hk
          rw [h5 k hk.2, lookup_assocSet, if_neg hk.1]
        · intro k hk
          by_cases hkr : k ∈ rest.map (·.id)
          · obtain ⟨v, hv, hl⟩ := h5' k hkr
            exact ⟨v, by simp only [List.map_cons, List.mem_cons]; exact Or.inr hv, hl⟩
          · simp only [List.map_cons, List.mem_cons] at hk
            rcases hk with rfl | hk
            · refine ⟨n, by simp, ?_⟩
              rw [h5 _ hkr, lookup_assocSet, if_pos rfl]
            · exact absurd hk hkr
        · intro hnd
          simp only [List.map_cons, List.nodup_cons] at hnd
          refine .cons ?_ (h6 hnd.2)
          rw [h5 _ hnd.1, lookup_assocSet, if_pos rfl]

theorem remapDeps_spec (m : List (String × String)) :
    ∀ (ds r : List String), remapDeps m ds = .ok r →
      r.Nodup ∧ ∀ x, x ∈ r ↔ ∃ d ∈ ds, m.lookup d = some x
  | [], r, h => by
    simp only [remapDeps, pure, Except.pure, Except.ok.injEq] at h
    subst h
    simp
  | d :: ds, r, h => by
    simp only [remapDeps] at h
    split at h
    · cases h
    · rename_i n hn
      obtain ⟨r₁, hr₁, h⟩ := except_bind_ok h
      obtain ⟨hnd, hmem⟩ := remapDeps_spec m ds r₁ hr₁
      simp only [pure, Except.pure, Except.ok.injEq] at h
      subst h
      constructor
      · split
        · exact hnd
        · rename_i hnr
          exact List.nodup_cons.2 ⟨hnr, hnd⟩
      · intro x
        have : x ∈ (if n ∈ r₁ then r₁ else n :: r₁) ↔ x = n ∨ x ∈ r₁ := by
          split
          · rename_i hnr
            constructor
            · exact Or.inr
            · rintro (rfl | h)
              · exact hnr
              · exact h
          · simp
        rw [this, hmem x]
        simp only [List.mem_cons, exists_eq_or_imp, hn, Option.some.injEq]
        constructor
        · rintro (rfl | h)
          · exact Or.inl rfl
          · exact Or.inr h
        · rintro (h | h)
          · exact Or.inl h.symm
          · exact Or.inr h

theorem remapAll_spec (m : List (String × String)) :
    ∀ (bs bs' : List Stmt), remapAll m bs = .ok bs' →
      List.Forall₂ (fun b b' => b'.id = b.id ∧ b'.kind = b.kind ∧ b'.dependsOn.Nodup ∧
        ∀ x, x ∈ b'.dependsOn ↔ ∃ d ∈ b.dependsOn, m.lookup d = some x) bs bs'
  | [], bs', h => by
    simp only [remapAll, pure, Except.pure, Except.ok.injEq] at h
    subst h
    exact .nil
  | b :: bs, bs', h => by
    simp only [remapAll] at h
    obtain ⟨d, hd, h⟩ := except_bind_ok h
    obtain ⟨r, hr, h⟩ := except_bind_ok h
    simp only [pure, Except.pure, Except.ok.injEq] at h
    subst h
    obtain ⟨hnd, hmem⟩ := remapDeps_spec m _ _ hd
    exact .cons ⟨rfl, rfl, hnd, hmem⟩ (remapAll_spec m bs r hr)

theorem remapAll_ok (m : List (String × String)) :
    ∀ (bs : List Stmt), (∀ b ∈ bs, ∀ d ∈ b.dependsOn, (m.lookup d).isSome) →
      ∃ bs', remapAll m bs = .ok bs'
  | [], _ => ⟨[], rfl⟩
  | b :: bs, h => by
    have hd : ∀ ds : List String, (∀ d ∈ ds, (m.lookup d).isSome) → ∃ r, remapDeps m ds = .ok r := by
      intro ds
      induction ds with
      | nil => intro _; exact ⟨[], rfl⟩
      | cons d ds ih =>
        intro hds
        obtain ⟨r, hr⟩ := ih (fun d' hd' => hds d' (List.mem_cons_of_mem _ hd'))
        have := hds d (List.mem_cons_self ..)
        obtain ⟨n, hn⟩ := Option.isSome_iff_exists.1 this
        simp only [remapDeps, hn, hr]
        exact ⟨_, rfl⟩
    obtain ⟨r, hr⟩ := hd b.dependsOn (h b (List.mem_cons_self ..))
    obtain ⟨bs', hbs'⟩ := remapAll_ok m bs (fun b' hb' => h b' (List.mem_cons_of_mem _ hb'))
    simp only [remapAll, hr, hbs']
    exact ⟨_, rfl⟩

theorem remapAll_error (m : List (String × String)) :
    ∀ (bs : List Stmt) (e : ImpErr), remapAll m bs = .error e →
      e = .keyError ∧ ∃ b ∈ bs, ∃ d ∈ b.dependsOn, m.lookup d = none
  | [], e, h => by simp [remapAll, pure, Except.pure] at h
  | b :: bs, e, h => by
    have hd : ∀ ds : List String, ∀ e, remapDeps m ds = .error e →
        e = .keyError ∧ ∃ d ∈ ds, m.lookup d = none := by
      intro ds
      induction ds with
      | nil => intro e h; simp [remapDeps, pure, Except.pure] at h
      | cons d ds ih =>
        intro e h
        simp only [remapDeps] at h
        split at h
        · rename_i hn
          cases h
          exact ⟨rfl, d, List.mem_cons_self .., hn⟩
        · cases hr : remapDeps m ds with
          | error e' =>
            obtain ⟨h1, d', hd', hn'⟩ := ih e' hr
            rw [hr] at h
            cases h
            exact ⟨h1, d', List.mem_cons_of_mem _ hd', hn'⟩
          | ok r =>
            rw [hr] at h
            cases h
    simp only [remapAll] at h
    cases hr : remapDeps m b.dependsOn with
    | error e' =>
      obtain ⟨h1, d, hd1, hd2⟩ := hd _ _ hr
      rw [hr] at h
      cases h
      exact ⟨h1, b, List.mem_cons_self .., d, hd1, hd2⟩
    | ok r =>
      rw [hr] at h
      cases hr2 : remapAll m bs with
      | error e' =>
        obtain ⟨h1, b', hb', hx⟩ := remapAll_error m bs e' hr2
        rw [hr2] at h
        cases h
        exact ⟨h1, b', List.mem_cons_of_mem _ hb', hx⟩
      | ok r' =>
        rw [hr2] at h
        cases h

end

/-! ### fusion, assembled -/

section
variable {σ : Type} {G : NameGen σ}

/-- everything the fusion theorems need, in one statement -/
theorem fuse_spec (hG : G.Fresh) {A B out : List Stmt} {m : List (String × String)}
    (h : fuseG G A B = .ok (out, m)) :
    ∃ bs', out = A ++ bs' ∧ (bs'.map (·.id)).Nodup ∧ (∀ n ∈ bs'.map (·.id), n ∉ A.map (·.id)) ∧
      (∀ k, k ∉ B.map (·.id) → m.lookup k = none) ∧
      (∀ k ∈ B.map (·.id), ∃ v ∈ bs'.map (·.id), m.lookup k = some v) ∧
      List.Forall₂ (fun b b' => b'.kind = b.kind ∧
        ((B.map (·.id)).Nodup → m.lookup b.id = some b'.id) ∧ b'.dependsOn.Nodup ∧
        ∀ x, x ∈ b'.dependsOn ↔ ∃ d ∈ b.dependsOn, m.lookup d = some x) B bs' := by
  unfold fuseG at h
  split at h
  · cases h
  · rename_i bs m₁ s' hren
    obtain ⟨bs', hbs', h⟩ := except_bind_ok h
    simp only [pure, Except.pure, Except.ok.injEq, Prod.mk.injEq] at h
    obtain ⟨rfl, rfl⟩ := h
    obtain ⟨h1, h2, h3, _h4, h5, h5', h6⟩ := renameIds_spec hG B _ [] bs m₁ s' hren
    have hre := remapAll_spec m₁ bs bs' hbs'
    have hids : bs'.map (·.id) = bs.map (·.id) := forall2_map_eq (fun _ _ h => h.1) hre
    refine ⟨bs', rfl, hids ▸ h3, ?_, ?_, ?_, ?_⟩
    · intro n hn hA
      rw [hids] at hn
      exact h2 n hn ((hG.init_used _ _).2 hA)
    · intro k hk
      rw [h5 k hk]
      rfl
    · intro k hk
      rw [hids]
      exact h5' k hk
    · have h6' : List.Forall₂ (fun b b' : Stmt => (B.map (·.id)).Nodup → m₁.lookup b.id = some b'.id)
          B bs := by
        by_cases hnd : (B.map (·.id)).Nodup
        · exact forall2_imp (fun _ _ h _ => h) (h6 hnd)
        · exact forall2_true _ (fun _ _ h => absurd h hnd) h1
      refine forall2_imp ?_ (forall2_comp (forall2_and h1 h6') hre)
      rintro b b' ⟨c, ⟨⟨hk, hd⟩, hl⟩, hid, hk', hnd, hmem⟩
      refine ⟨hk'.trans hk, fun h => hid ▸ hl h, hnd, ?_⟩
      intro x
      rw [hmem x, hd]

end

end PV.Imp
