import PV.Proofs.EqHash
import PV.Generated.Classes
/-
  C01 — the stock node classes against the class table regenerated from the working tree: the
  object of every stock tree (`ofExpr`, lean/PV/Model/Pickle.lean) is an instance of the table's
  classes with one value per dataclass field (`conforms`), so the generic theorems about `eqGen` /
  `hashGen` apply to all stock trees.  Breaks — at a named obligation — when a stock class gains,
  loses or renames a field, or stops being a decorated class.
-/
namespace PV.EqHash
open PV PV.Pickle

/-- class `c` of the current table is decorated (dataclass path) and has `n` fields -/
def stockOk (c : String) (n : Nat) : Bool :=
  match Generated.classes.template? c with
  | some (tpl, lp) => !lp && tpl.fields.length == n
  | none => false

theorem conforms_inst {c : String} {n : Nat} {fs : List Obj} {h : Option Nat}
    (hc : stockOk c n = true) (hn : fs.length = n)
    (hfs : conformsL Generated.classes fs = true) :
    conforms Generated.classes (.inst c .dataclass fs h) = true := by
  unfold stockOk at hc
  simp only [conforms, hfs, Bool.and_true]
  cases ht : Generated.classes.template? c with
  | none => simp [ht] at hc
  | some p =>
    obtain ⟨tpl, lp⟩ := p
    simp only [ht, Bool.and_eq_true, Bool.not_eq_true', beq_iff_eq] at hc
    simp only [hc.1, Bool.false_eq_true, if_false, beq_self_eq_true, Bool.true_and, beq_iff_eq]
    rw [hn, hc.2]

theorem nary_stockOk (o : NaryOp) : stockOk o.name 1 = true := by cases o <;> decide
theorem bin_stockOk (o : BinOp) : stockOk o.name 2 = true := by cases o <;> decide
theorem un_stockOk (o : UnOp) : stockOk o.name 1 = true := by cases o <;> decide

theorem conformsL_strAtoms : ∀ vs : List String,
    conformsL Generated.classes (vs.map strAtom) = true
  | [] => rfl
  | _ :: vs => by simp [conformsL, conforms, strAtom, conformsL_strAtoms vs]

mutual
/-- **every stock tree is an object over the current class table** -/
theorem ofExpr_conforms : ∀ e : Expr, conforms Generated.classes (ofExpr e) = true
  | .const _ => rfl
  | .var _ => conforms_inst (n := 1) (by decide) rfl rfl
  | .nary o cs =>
      conforms_inst (nary_stockOk o) rfl (by simp [conformsL, conforms, ofExprL_conforms cs])
  | .bin o a b =>
      conforms_inst (bin_stockOk o) rfl (by simp [conformsL, ofExpr_conforms a, ofExpr_conforms b])
  | .un o a => conforms_inst (un_stockOk o) rfl (by simp [conformsL, ofExpr_conforms a])
  | .cmp _ a b =>
      conforms_inst (n := 3) (by decide) rfl
        (by simp [conformsL, conforms, strAtom, ofExpr_conforms a, ofExpr_conforms b])
  | .ite c t e =>
      conforms_inst (n := 3) (by decide) rfl
        (by simp [conformsL, ofExpr_conforms c, ofExpr_conforms t, ofExpr_conforms e])
  | .call f as =>
      conforms_inst (n := 2) (by decide) rfl
        (by simp [conformsL, conforms, ofExpr_conforms f, ofExprL_conforms as])
  | .callKw f as _ vs =>
      conforms_inst (n := 3) (by decide) rfl
        (by simp [conformsL, conforms, ofExpr_conforms f, ofExprL_conforms as, ofExprL_conforms vs])
  | .subscript a i =>
      conforms_inst (n := 2) (by decide) rfl
        (by simp [conformsL, ofExpr_conforms a, ofExpr_conforms i])
  | .lookup a _ =>
      conforms_inst (n := 2) (by decide) rfl (by simp [conformsL, conforms, strAtom, ofExpr_conforms a])
  | .cse c p _ =>
      conforms_inst (n := 3) (by decide) rfl
        (by cases p <;> simp [conformsL, conforms, strAtom, ofExpr_conforms c])
  | .subst c vs xs =>
      conforms_inst (n := 3) (by decide) rfl
        (by simp [conformsL, conforms, ofExpr_conforms c, ofExprL_conforms xs, conformsL_strAtoms vs])
  | .deriv c vs =>
      conforms_inst (n := 2) (by decide) rfl
        (by simp [conformsL, conforms, ofExpr_conforms c, conformsL_strAtoms vs])
  | .slice cs =>
      conforms_inst (n := 1) (by decide) rfl (by simp [conformsL, conforms, ofExprL_conforms cs])
  | .nan => conforms_inst (n := 1) (by decide) rfl rfl
  | .wildcard => conforms_inst (n := 0) (by decide) rfl rfl
  | .dotWild _ => conforms_inst (n := 1) (by decide) rfl rfl
  | .starWild _ => conforms_inst (n := 1) (by decide) rfl rfl
  | .funcSym => conforms_inst (n := 0) (by decide) rfl rfl
  | .tuple cs => by simp [ofExpr, conforms, ofExprL_conforms cs]
  | .list cs => by simp [ofExpr, conforms, ofExprL_conforms cs]
theorem ofExprL_conforms : ∀ es : List Expr, conformsL Generated.classes (ofExprL es) = true
  | [] => rfl
  | e :: es => by simp [ofExprL, conformsL, ofExpr_conforms e, ofExprL_conforms es]
end

end PV.EqHash
