import Lean
/- simp set used to run the C20 table interpreter symbolically (PV/Proofs/ImpTable*.lean) -/
register_simp_attr c20step
