import PV.Proofs.AlgoTableArith
import PV.Proofs.AlgoArith
/-
  C19 (T-gen): `fft` / `ifft` — the Cooley–Tukey recursion `c19FftAux` / `c19FftStep` of
  PV/Model/AlgoFft.lean is what the table interpreter computes on the body regenerated from the
  current source, over every carrier and for every length.
-/
namespace PV.Algo
open PV.Generated
variable {α : Type}

/-! ## vectors of carrier elements -/

def c19EncVec (x : List α) : C19V α := .vec (x.map .elem)

theorem c19ZipM_elem (ops : C19Ops α) (a b : List α) :
    c19ZipM (c19Scalar ops .mul) (a.map C19V.elem) (b.map C19V.elem)
      = .ok ((List.zipWith ops.mul a b).map C19V.elem) := by
  induction a generalizing b with
  | nil => simp [c19ZipM]
  | cons x xs ih =>
    cases b with
    | nil => simp [c19ZipM]
    | cons y ys => simp [c19ZipM, ih]

theorem c19ZipM_elem_add (ops : C19Ops α) (a b : List α) :
    c19ZipM (c19Scalar ops .add) (a.map C19V.elem) (b.map C19V.elem)
      = .ok ((List.zipWith ops.add a b).map C19V.elem) := by
  induction a generalizing b with
  | nil => simp [c19ZipM]
  | cons x xs ih =>
    cases b with
    | nil => simp [c19ZipM]
    | cons y ys => simp [c19ZipM, ih]

theorem c19Arith_vec_mul (ops : C19Ops α) (a b : List α) :
    c19Arith ops .mul (c19EncVec a) (c19EncVec b) = .ok (c19EncVec (c19VecMul ops.mul a b)) := by
  simp [c19Arith, c19EncVec, c19ZipM_elem, c19VecMul]

theorem c19Arith_vec_add (ops : C19Ops α) (a b : List α) :
    c19Arith ops .add (c19EncVec a) (c19EncVec b) = .ok (c19EncVec (c19VecAdd ops.add a b)) := by
  simp [c19Arith, c19EncVec, c19ZipM_elem_add, c19VecAdd]

theorem c19MapM_ok {β : Type} (f : β → C19R (C19V α)) (g : β → C19V α) (l : List β)
    (h : ∀ t ∈ l, f t = .ok (g t)) : c19MapM f l = .ok (l.map g) := by
  induction l with
  | nil => rfl
  | cons t ts ih =>
    simp only [c19MapM, h t (by simp), C19R.bind_ok, List.map_cons]
    rw [ih (fun u hu => h u (by simp [hu]))]
    rfl

theorem c19MapM_map_ok {β : Type} (f : C19V α → C19R (C19V α)) (enc : β → C19V α) (g : β → C19V α)
    (l : List β) (h : ∀ t ∈ l, f (enc t) = .ok (g t)) :
    c19MapM f (l.map enc) = .ok (l.map g) := by
  induction l with
  | nil => rfl
  | cons t ts ih =>
    simp only [List.map_cons, c19MapM, h t (by simp), C19R.bind_ok]
    rw [ih (fun u hu => h u (by simp [hu]))]
    rfl

theorem c19Arith_vec_scale (ops : C19Ops α) (a : List α) (s : α) :
    c19Arith ops .mul (c19EncVec a) (.elem s) = .ok (c19EncVec (c19VecScale ops.mul a s)) := by
  unfold c19Arith c19EncVec
  simp only []
  rw [c19MapM_ok _ (fun v => match v with | .elem e => .elem (ops.mul e s) | w => w) _ (by
    intro t ht
    obtain ⟨e, _, rfl⟩ := List.mem_map.mp ht
    rfl)]
  simp [c19VecScale, List.map_map, Function.comp_def]

theorem c19Arith_zero_add (ops : C19Ops α) (a : List α) :
    c19Arith ops .add (.int 0) (c19EncVec a)
      = .ok (c19EncVec (a.map fun v => ops.add (ops.ofInt 0) v)) := by
  unfold c19Arith c19EncVec
  simp only []
  rw [c19MapM_ok _ (fun v => match v with | .elem e => .elem (ops.add (ops.ofInt 0) e) | w => w) _ (by
    intro t ht
    obtain ⟨e, _, rfl⟩ := List.mem_map.mp ht
    rfl)]
  simp [List.map_map, Function.comp_def]

theorem c19Arith_frac_mul (ops : C19Ops α) (p q : Int) (a : List α) :
    c19Arith ops .mul (.frac p q) (c19EncVec a)
      = .ok (c19EncVec (a.map fun v => ops.mul (ops.ofFrac p q) v)) := by
  unfold c19Arith c19EncVec
  simp only []
  rw [c19MapM_ok _ (fun v => match v with | .elem e => .elem (ops.mul (ops.ofFrac p q) e) | w => w) _ (by
    intro t ht
    obtain ⟨e, _, rfl⟩ := List.mem_map.mp ht
    rfl)]
  simp [List.map_map, Function.comp_def]

/-- `sum(terms)` of vectors IS `c19PySum` (for a non-empty list of terms) -/
theorem c19SumFrom_vecs (ops : C19Ops α) (acc : List α) (ts : List (List α)) :
    c19SumFrom ops (c19EncVec acc) (ts.map c19EncVec)
      = .ok (c19EncVec (ts.foldl (c19VecAdd ops.add) acc)) := by
  induction ts generalizing acc with
  | nil => rfl
  | cons t r ih => simp [c19SumFrom, c19Arith_vec_add, ih]

theorem c19Sum_vecs (ops : C19Ops α) (t : List α) (ts : List (List α)) :
    c19SumFrom ops (.int 0) ((t :: ts).map c19EncVec)
      = .ok (c19EncVec (c19PySum ops.add (ops.ofInt 0) (t :: ts))) := by
  simp only [List.map_cons, c19SumFrom, c19Arith_zero_add, C19R.bind_ok, c19SumFrom_vecs, c19PySum]

theorem c19Concat_vecs (vs : List (List α)) :
    c19Concat (vs.map c19EncVec) = .ok ((vs.flatMap id).map C19V.elem) := by
  induction vs with
  | nil => rfl
  | cons v r ih => simp [c19Concat, c19EncVec, ih]

theorem c19Range_zero (N : Nat) :
    (c19Range 0 (N : Int) : List (C19V α)) = (List.range N).map fun (k : Nat) => .int (k : Int) := by
  simp [c19Range]

theorem c19TwVec_range (ops : C19Ops α) (s m c : Int) (l : List Nat) :
    c19TwVec ops s m c (l.map fun (k : Nat) => (.int (k : Int) : C19V α))
      = .ok (l.map fun (k : Nat) => .elem (ops.tw s m (c * (k : Int)))) := by
  induction l with
  | nil => rfl
  | cons k r ih => simp [c19TwVec, ih]

theorem c19_stride_nil_of_drop {β : Type} (x : List β) (s k : Nat) (h : x.drop s = []) :
    stride x s k = [] := by
  rw [stride]; split <;> simp_all

theorem c19_stride_cons_of_drop {β : Type} (x : List β) (s k : Nat) (a : β) (rest : List β)
    (h : x.drop s = a :: rest) : stride x s k = a :: stride rest (k - 1) k := by
  rw [stride]; split <;> simp_all

theorem c19t_stride_map {β γ : Type} (f : β → γ) (k : Nat) (x : List β) (s : Nat) :
    stride (x.map f) s k = (stride x s k).map f := by
  induction x, s using stride.induct k with
  | case1 x s h =>
    rw [c19_stride_nil_of_drop x s k h, c19_stride_nil_of_drop (x.map f) s k (by simp [← List.map_drop, h])]
    rfl
  | case2 x s a rest h ih =>
    rw [c19_stride_cons_of_drop x s k a rest h,
      c19_stride_cons_of_drop (x.map f) s k (f a) (rest.map f) (by simp [← List.map_drop, h]), ih]
    rfl


/-! ## `fft` -/

def c19FftElt1 : C19E :=
  .call "fft.wrap_intermediate_with_level" [(.var "level"), (.bin .mul (.call "algorithm.fft" [(.slice (.var "x") (.var "n1") (.var "N1")), (.var "sign"), (.var "wrap_intermediate"), .none, (.var "complex_dtype"), (.var "custom_np"), (.bin .add (.var "level") (.int 1))]) (.twiddle (.var "sign") [(.var "n1"), (.call "np.arange" [(.var "N2")])] (.bin .mul (.var "N1") (.var "N2"))))]

def c19FftElt2 : C19E :=
  .bin .mul (.var "subvec") (.call "fft.scalar_tp" [(.twiddle (.var "sign") [(.var "n1"), (.var "k1")] (.var "N1"))])

def c19FftSum : C19E :=
  .call "sum" [(.comp c19FftElt2 (.tuple [(.name "n1"), (.name "subvec")]) (.call "enumerate" [(.var "sub_ffts")]))]

def c19FftComp1 : C19E := .comp c19FftElt1 (.name "n1") (.call "range" [(.var "N1")])
def c19FftComp2 : C19E := .comp c19FftSum (.name "k1") (.call "range" [(.var "N1")])

/-- the body of `fft` (after the parameter-processing block) in the current source -/
theorem c19_fft_body_current :
    c19Fn_algorithm_fft = ⟨"algorithm.fft", .func,
      ["x", "sign", "wrap_intermediate", "wrap_intermediate_with_level", "complex_dtype",
        "custom_np", "level"], [(.int 1), .none, .none, .none, .none, (.int 0)], [
      .assign (.pat (.name "n")) (.call "len" [(.var "x")]),
      .ite (.cmp .eq (.var "n") (.int 1)) [.ret (.var "x")] [],
      .assign (.pat (.tuple [(.name "N1"), (.name "N2")])) (.call "algorithm.find_factors" [(.var "n")]),
      .assign (.pat (.name "sub_ffts")) c19FftComp1,
      .ret (.call "np.concatenate" [c19FftComp2])]⟩ :=
  rfl

theorem c19Call_fft (cx : C19Cx α) (a b c d e f g : C19V α) :
    c19Call cx "algorithm.fft" [a, b, c, d, e, f, g] = cx.calls "algorithm.fft" [a, b, c, d, e, f, g] :=
  rfl
theorem c19Call_find_factors (cx : C19Cx α) (a : C19V α) :
    c19Call cx "algorithm.find_factors" [a] = cx.calls "algorithm.find_factors" [a] := rfl
theorem c19Call_wrap (cx : C19Cx α) (a b : C19V α) :
    c19Call cx "fft.wrap_intermediate_with_level" [a, b]
      = cx.calls "fft.wrap_intermediate_with_level" [a, b] := rfl
theorem c19Call_scalar_tp (cx : C19Cx α) (a : C19V α) :
    c19Call cx "fft.scalar_tp" [a] = cx.calls "fft.scalar_tp" [a] := rfl
theorem c19Call_arange (cx : C19Cx α) (b : Int) :
    c19Call cx "np.arange" [.int b] = .ok (.tup (c19Range 0 b)) := rfl
theorem c19Call_sum (cx : C19Cx α) (vs : List (C19V α)) :
    c19Call cx "sum" [.tup vs] = c19SumFrom cx.ops (.int 0) vs := rfl
theorem c19Call_concatenate (cx : C19Cx α) (vs : List (C19V α)) :
    c19Call cx "np.concatenate" [.tup vs] = (c19Concat vs).bind fun ws => .ok (.vec ws) := rfl

theorem c19_find_fft : c19FindFn c19Table "algorithm.fft" = some c19Fn_algorithm_fft := rfl

theorem c19_ext_wrap_run (ops : C19Ops α) (ext : String → List (C19V α) → C19R (C19V α)) (n : Nat)
    (vs : List (C19V α)) :
    c19RunFn ops c19Table ext (n + 1) "fft.wrap_intermediate_with_level" vs
      = ext "fft.wrap_intermediate_with_level" vs := c19RunFn_ext ops c19Table ext n _ _ rfl
theorem c19_ext_scalar_tp_run (ops : C19Ops α) (ext : String → List (C19V α) → C19R (C19V α))
    (n : Nat) (vs : List (C19V α)) :
    c19RunFn ops c19Table ext (n + 1) "fft.scalar_tp" vs = ext "fft.scalar_tp" vs :=
  c19RunFn_ext ops c19Table ext n _ _ rfl

/-- the store of `fft` after `N1, N2 = find_factors(n)` -/
def c19FftStore (x : List α) (sign : Int) (wi wil dt np : C19V α) (level : Int) (N1 N2 : Nat) :
    C19Store α :=
  [("x", c19EncVec x), ("sign", .int sign), ("wrap_intermediate", wi),
   ("wrap_intermediate_with_level", wil), ("complex_dtype", dt), ("custom_np", np),
   ("level", .int level), ("n", .int x.length), ("N1", .int N1), ("N2", .int N2)]

section
variable (ops : C19Ops α) (ext : String → List (C19V α) → C19R (C19V α))
  (hwrap : ∀ l v, ext "fft.wrap_intermediate_with_level" [l, v] = .ok v)
  (hstp : ∀ v, ext "fft.scalar_tp" [v] = .ok v)

/-- the twiddles of the model for one value of `sign` -/
def c19Rp (sign : Int) (m k : Nat) : α := ops.tw sign (m : Int) (k : Int)

include hwrap in
/-- one element of the first comprehension of `fft`: the sub-transform times its twiddles -/
theorem c19_fft_elt1 (x : List α) (sign : Int) (wi wil dt np : C19V α) (level : Int)
    (N1 N2 n1 n : Nat) (hN1 : 1 ≤ N1) (sub : List α → List α)
    (hrec : c19RunFn ops c19Table ext (n + 1) "algorithm.fft"
        [c19EncVec (stride x n1 N1), .int sign, wi, .none, dt, np, .int (level + 1)]
      = .ok (c19EncVec (sub (stride x n1 N1)))) :
    c19EvalE (c19CxAt ops c19Table ext (n + 1) (n + 2)) c19FftElt1
        (c19Set "n1" (.int n1) (c19FftStore x sign wi wil dt np level N1 N2))
      = .ok (c19EncVec (c19VecMul ops.mul (sub (stride x n1 N1))
          (c19Twiddles (c19Rp ops sign) N1 N2 n1))) := by
  have hsl : c19Slice ((x.map C19V.elem : List (C19V α))) (.int (n1 : Int)) (.int (N1 : Int))
      = .ok ((stride x n1 N1).map C19V.elem) := by
    have : (0 : Int) ≤ (n1 : Int) ∧ (1 : Int) ≤ (N1 : Int) := by omega
    simp [c19Slice, this, c19t_stride_map]
  have htw : (List.map (fun (k : Nat) => (.elem (ops.tw sign ((N1 : Int) * (N2 : Int))
        ((n1 : Int) * 1 * (k : Int))) : C19V α)) (List.range N2))
      = (c19Twiddles (c19Rp ops sign) N1 N2 n1).map C19V.elem := by
    simp [c19Twiddles, c19Rp, List.map_map, Function.comp_def]
  have hmul := c19Arith_vec_mul ops (sub (stride x n1 N1)) (c19Twiddles (c19Rp ops sign) N1 N2 n1)
  unfold c19FftElt1 c19FftStore
  unfold c19EncVec at hrec hmul ⊢
  c19_run [hsl, c19Call_fft, hrec, c19Call_arange, c19Range_zero, c19TwNum, c19TwVec_range, htw,
    hmul, c19Call_wrap, c19_ext_wrap_run, hwrap]


include hstp in
/-- one element of the second comprehension of `fft`: the recombination `sum(…)` for one `k1` -/
theorem c19_fft_sum (x : List α) (sign : Int) (wi wil dt np : C19V α) (level : Int)
    (N1 N2 k1 n : Nat) (S : List (List α)) (hS : S ≠ []) :
    c19EvalE (c19CxAt ops c19Table ext (n + 1) (n + 2)) c19FftSum
        (c19Set "k1" (.int k1) (c19FftStore x sign wi wil dt np level N1 N2
          ++ [("sub_ffts", .tup (S.map c19EncVec))]))
      = .ok (c19EncVec (c19PySum ops.add (ops.ofInt 0)
          (S.zipIdx.map fun (p : List α × Nat) =>
            c19VecScale ops.mul p.1 (c19Rp ops sign N1 (p.2 * k1))))) := by
  have henum : (c19Enumerate (S.map c19EncVec) : List (C19V α))
      = S.zipIdx.map fun (p : List α × Nat) => (.tup [.int (p.2 : Int), c19EncVec p.1] : C19V α) := by
    simp [c19Enumerate, List.zipIdx_map, List.map_map, Function.comp_def]
  unfold c19FftSum c19FftStore
  c19_run [henum]
  rw [c19MapM_map_ok _ _ (fun (p : List α × Nat) =>
      c19EncVec (c19VecScale ops.mul p.1 (c19Rp ops sign N1 (p.2 * k1)))) _ (by
    intro p _
    have hcast : (p.2 : Int) * ((k1 : Int) * 1) = ((p.2 * k1 : Nat) : Int) := by simp
    have hsc := c19Arith_vec_scale ops p.1 (ops.tw sign (N1 : Int) ((p.2 * k1 : Nat) : Int))
    unfold c19FftElt2
    c19_run [c19TwNum, hcast, c19Call_scalar_tp, c19_ext_scalar_tp_run, hstp]
    unfold c19EncVec at hsc ⊢
    rw [c19BinOp_vec, c19CxAt_ops, hsc]; rfl)]
  have hne : (S.zipIdx.map fun (p : List α × Nat) =>
      c19VecScale ops.mul p.1 (c19Rp ops sign N1 (p.2 * k1))) ≠ [] := by
    cases S with
    | nil => exact absurd rfl hS
    | cons a r => simp
  obtain ⟨t, ts, hts⟩ := List.exists_cons_of_ne_nil hne
  have hmm : (List.map (fun (p : List α × Nat) =>
        c19EncVec (c19VecScale ops.mul p.1 (c19Rp ops sign N1 (p.2 * k1)))) S.zipIdx)
      = (S.zipIdx.map fun (p : List α × Nat) =>
          c19VecScale ops.mul p.1 (c19Rp ops sign N1 (p.2 * k1))).map c19EncVec := by
    simp [List.map_map, Function.comp_def]
  c19_run [c19Call_sum, hmm]
  rw [hts]
  exact c19Sum_vecs ops t ts


theorem c19FftStore_get_N1 (x : List α) (sign : Int) (wi wil dt np : C19V α) (level : Int)
    (N1 N2 : Nat) :
    c19Get "N1" (c19FftStore x sign wi wil dt np level N1 N2) = some (.int N1) := by
  unfold c19FftStore; c19_run []

theorem c19FftStore_set_sub (x : List α) (sign : Int) (wi wil dt np : C19V α) (level : Int)
    (N1 N2 : Nat) (v : C19V α) :
    c19Set "sub_ffts" v (c19FftStore x sign wi wil dt np level N1 N2)
      = c19FftStore x sign wi wil dt np level N1 N2 ++ [("sub_ffts", v)] := by
  unfold c19FftStore; c19_run []

theorem c19FftStore_get_N1' (x : List α) (sign : Int) (wi wil dt np : C19V α) (level : Int)
    (N1 N2 : Nat) (v : C19V α) :
    c19Get "N1" (c19FftStore x sign wi wil dt np level N1 N2 ++ [("sub_ffts", v)])
      = some (.int N1) := by
  unfold c19FftStore; c19_run []

theorem c19_flatMap_map_id {β γ : Type} (l : List β) (f : β → List γ) :
    (l.map f).flatMap id = l.flatMap f := by
  induction l with
  | nil => rfl
  | cons a r ih => simp [ih]

include hwrap hstp in
/-- **`fft` as regenerated IS the recursion `c19FftAux` / `c19FftStep`**, for every length ≥ 1,
every carrier, every fuel of the model that is at least the length: `find_factors` splits, the
sub-transforms of the strided sub-vectors are multiplied elementwise by the twiddles
`tw sign (N1·N2) (n1·k2)`, and output block `k1` is the Python `sum` of the sub-results scaled by
`tw sign N1 (n1·k1)`. -/
theorem c19_fft_run_aux : ∀ (L : Nat) (x : List α), x.length = L → 1 ≤ L → ∀ (fuel : Nat), L ≤ fuel →
    ∀ (sign : Int) (wi wil dt np : C19V α) (level : Int) (n : Nat), 2 * L + 3 ≤ n →
    c19RunFn ops c19Table ext (n + 1) "algorithm.fft"
        [c19EncVec x, .int sign, wi, wil, dt, np, .int level]
      = .ok (c19EncVec (c19FftAux ops.add ops.mul (ops.ofInt 0) (c19Rp ops sign) fuel x)) := by
  intro L
  induction L using Nat.strongRecOn with
  | _ L ih =>
    intro x hL hpos fuel hfuel sign wi wil dt np level n hn
    obtain ⟨fuel, rfl⟩ : ∃ f', fuel = f' + 1 := ⟨fuel - 1, by omega⟩
    obtain ⟨n, rfl⟩ : ∃ n', n = n' + 1 := ⟨n - 1, by omega⟩
    have hlen : ((x.map C19V.elem : List (C19V α)).length : Int) = (L : Int) := by simp [hL]
    rw [c19RunFn_succ ops c19Table ext _ _ _ _ _ c19_find_fft (by rw [c19_fft_body_current]; rfl)]
    simp only [c19_fft_body_current]
    by_cases h1 : L = 1
    · subst h1
      have : c19FftAux ops.add ops.mul (ops.ofInt 0) (c19Rp ops sign) (fuel + 1) x = x := by
        simp [c19FftAux, hL]
      rw [this]
      unfold c19EncVec
      c19_run [hlen]
      rfl
    · have h2 : 2 ≤ L := by omega
      obtain ⟨hN1, hN2, hN2lt⟩ := findFactors_lt L h2
      have hmul := findFactors_mul L
      have hne : ((L : Int) == 1) = false := by simp; omega
      have hff := c19_find_factors_run ops ext L n (by
        have := Nat.sqrt_le_self L; omega)
      have hpy : findFactorsPy L = some (findFactors L) := by
        unfold findFactorsPy
        have : (findFactors L).1 ≠ 0 := by omega
        simp [this]
      rw [hpy] at hff
      simp only [c19EncFactors] at hff
      have haux : c19FftAux ops.add ops.mul (ops.ofInt 0) (c19Rp ops sign) (fuel + 1) x
          = c19FftStep ops.add ops.mul (ops.ofInt 0) (c19Rp ops sign)
              (c19FftAux ops.add ops.mul (ops.ofInt 0) (c19Rp ops sign) fuel) x := by
        simp [c19FftAux, hL, h1]
      -- the first comprehension
      have hcomp1 : c19EvalE (c19CxAt ops c19Table ext (n + 1) (n + 2))
          c19FftComp1
          (c19FftStore x sign wi wil dt np level (findFactors L).1 (findFactors L).2)
          = .ok (.tup (((List.range (findFactors L).1).map fun n1 =>
              c19VecMul ops.mul
                (c19FftAux ops.add ops.mul (ops.ofInt 0) (c19Rp ops sign) fuel
                  (stride x n1 (findFactors L).1))
                (c19Twiddles (c19Rp ops sign) (findFactors L).1 (findFactors L).2 n1)).map
              c19EncVec)) := by
        unfold c19FftComp1
        c19_run [c19FftStore_get_N1, c19Range_zero]
        rw [c19MapM_map_ok _ _ (fun n1 => c19EncVec (c19VecMul ops.mul
            (c19FftAux ops.add ops.mul (ops.ofInt 0) (c19Rp ops sign) fuel
              (stride x n1 (findFactors L).1))
            (c19Twiddles (c19Rp ops sign) (findFactors L).1 (findFactors L).2 n1))) _ (by
          intro n1 hn1
          have hn1' : n1 < (findFactors L).1 := List.mem_range.mp hn1
          have hsl := stride_length x (findFactors L).1 (findFactors L).2 n1 (by rw [hL, hmul]) hn1'
          have hrec := ih (findFactors L).2 hN2lt (stride x n1 (findFactors L).1) hsl hN2 fuel
            (by omega) sign wi .none dt np (level + 1) n (by omega)
          exact c19_fft_elt1 ops ext hwrap x sign wi wil dt np level _ _ n1 n (by omega) _ hrec)]
        simp [List.map_map, Function.comp_def]
      rw [haux]
      unfold c19FftStep
      simp only [hL]
      generalize hS : ((List.range (findFactors L).1).map fun n1 =>
              c19VecMul ops.mul
                (c19FftAux ops.add ops.mul (ops.ofInt 0) (c19Rp ops sign) fuel
                  (stride x n1 (findFactors L).1))
                (c19Twiddles (c19Rp ops sign) (findFactors L).1 (findFactors L).2 n1)) = S at hcomp1 ⊢
      have hSne : S ≠ [] := by
        rw [← hS]
        have : (findFactors L).1 ≠ 0 := by omega
        simp [this]
      have hcomp2 : c19EvalE (c19CxAt ops c19Table ext (n + 1) (n + 2))
          c19FftComp2
          (c19FftStore x sign wi wil dt np level (findFactors L).1 (findFactors L).2
            ++ [("sub_ffts", .tup (S.map c19EncVec))])
          = .ok (.tup (((List.range (findFactors L).1).map fun k1 =>
              c19PySum ops.add (ops.ofInt 0) (S.zipIdx.map fun (p : List α × Nat) =>
                c19VecScale ops.mul p.1 (c19Rp ops sign (findFactors L).1 (p.2 * k1)))).map
              c19EncVec)) := by
        unfold c19FftComp2
        c19_run [c19FftStore_get_N1', c19Range_zero]
        rw [c19MapM_map_ok _ _ (fun k1 => c19EncVec (c19PySum ops.add (ops.ofInt 0)
            (S.zipIdx.map fun (p : List α × Nat) =>
              c19VecScale ops.mul p.1 (c19Rp ops sign (findFactors L).1 (p.2 * k1))))) _ (by
          intro k1 _
          exact c19_fft_sum ops ext hstp x sign wi wil dt np level _ _ k1 n S hSne)]
        simp [List.map_map, Function.comp_def]
      have hst : ([("x", c19EncVec x), ("sign", .int sign), ("wrap_intermediate", wi),
          ("wrap_intermediate_with_level", wil), ("complex_dtype", dt), ("custom_np", np),
          ("level", .int level), ("n", .int L), ("N1", .int (findFactors L).1),
          ("N2", .int (findFactors L).2)] : C19Store α)
          = c19FftStore x sign wi wil dt np level (findFactors L).1 (findFactors L).2 := by
        unfold c19FftStore; rw [hL]
      unfold c19EncVec at hst ⊢
      c19_run [hlen, hne, c19Call_find_factors, hff, hst]
      unfold c19EncVec at hcomp1 hcomp2
      c19_run [hcomp1, c19FftStore_set_sub, hcomp2, c19Call_concatenate]
      have hcc := c19Concat_vecs ((List.range (findFactors L).1).map fun k1 =>
              c19PySum ops.add (ops.ofInt 0) (S.zipIdx.map fun (p : List α × Nat) =>
                c19VecScale ops.mul p.1 (c19Rp ops sign (findFactors L).1 (p.2 * k1))))
      unfold c19EncVec at hcc
      rw [hcc]
      c19_run [c19_flatMap_map_id]
      rfl


/-- what `fft` / `ifft` answer: the vector, or `ZeroDivisionError` -/
def c19EncVecOpt : Option (List α) → C19R (C19V α)
  | some y => .ok (c19EncVec y)
  | none => .raise "ZeroDivisionError"

include hwrap hstp in
/-- **`fft` as regenerated IS `c19FftPy`** (twiddles `tw sign`): the Cooley–Tukey recursion for
every length ≥ 1, `ZeroDivisionError` (from `find_factors(0)`) for the empty vector. -/
theorem c19_fft_run (x : List α) (sign : Int) (wi wil dt np : C19V α) (level : Int) (n : Nat)
    (hn : 2 * x.length + 3 ≤ n) :
    c19RunFn ops c19Table ext (n + 1) "algorithm.fft"
        [c19EncVec x, .int sign, wi, wil, dt, np, .int level]
      = c19EncVecOpt (c19FftPy ops.add ops.mul (ops.ofInt 0) (c19Rp ops sign) x) := by
  by_cases h0 : x.length = 0
  · have hx : x = [] := List.length_eq_zero_iff.mp h0
    subst hx
    obtain ⟨n, rfl⟩ : ∃ n', n = n' + 1 := ⟨n - 1, by omega⟩
    have hpy : findFactorsPy 0 = none := (findFactorsPy_eq_none_iff 0).mpr rfl
    have hff : c19RunFn ops c19Table ext (n + 1) "algorithm.find_factors" [(.int 0 : C19V α)]
        = .raise "ZeroDivisionError" := by
      have := c19_find_factors_run ops ext 0 n (by simp; omega)
      rw [hpy] at this
      simpa [c19EncFactors] using this
    rw [c19RunFn_succ ops c19Table ext _ _ _ _ _ c19_find_fft (by rw [c19_fft_body_current]; rfl)]
    simp only [c19_fft_body_current]
    unfold c19EncVec
    have hz : (((0 : Nat) : Int)) = 0 := rfl
    c19_run [c19Call_find_factors, hff, List.map_nil, hz]
    simp [c19FftPy, hpy, c19EncVecOpt]
  · have hpy : findFactorsPy x.length ≠ none := by
      rw [Ne, findFactorsPy_eq_none_iff]; exact h0
    rw [c19_fft_run_aux ops ext hwrap hstp x.length x rfl (by omega) x.length (Nat.le_refl _)
      sign wi wil dt np level n hn]
    unfold c19FftPy c19Fft
    cases h : findFactorsPy x.length with
    | none => exact absurd h hpy
    | some _ => rfl

theorem c19_find_ifft : c19FindFn c19Table "algorithm.ifft" = some c19Fn_algorithm_ifft := rfl

include hwrap hstp in
/-- **`ifft` as regenerated IS `c19IfftPy`**: `(1/len(x)) * fft(x, sign=-1, …)`, the scalar
multiplied from the left; `ZeroDivisionError` from `1/len(x)` for the empty vector. -/
theorem c19_ifft_run (x : List α) (wi wil dt np : C19V α) (n : Nat)
    (hn : 2 * x.length + 4 ≤ n) :
    c19RunFn ops c19Table ext (n + 1) "algorithm.ifft" [c19EncVec x, wi, wil, dt, np]
      = c19EncVecOpt (c19IfftPy ops.add ops.mul (ops.ofInt 0) (c19Rp ops (-1))
          (ops.ofFrac 1 x.length) x) := by
  obtain ⟨n, rfl⟩ : ∃ n', n = n' + 1 := ⟨n - 1, by omega⟩
  have hlen : ((x.map C19V.elem : List (C19V α)).length : Int) = (x.length : Int) := by simp
  rw [c19RunFn_succ ops c19Table ext _ _ _ _ _ c19_find_ifft rfl]
  simp only [c19Fn_algorithm_ifft]
  unfold c19IfftPy
  by_cases h0 : x.length = 0
  · have h0' : ((x.length : Int) = 0) := by omega
    unfold c19EncVec
    c19_run [hlen, h0']
    simp [h0, c19EncVecOpt]
  · have h0' : ((x.length : Int) ≠ 0) := by omega
    have hfft := c19_fft_run ops ext hwrap hstp x (-1) wi wil dt np 0 n (by omega)
    have hpy : findFactorsPy x.length ≠ none := by
      rw [Ne, findFactorsPy_eq_none_iff]; exact h0
    have hsome : c19FftPy ops.add ops.mul (ops.ofInt 0) (c19Rp ops (-1)) x
        = some (c19Fft ops.add ops.mul (ops.ofInt 0) (c19Rp ops (-1)) x) := by
      unfold c19FftPy
      cases h : findFactorsPy x.length with
      | none => exact absurd h hpy
      | some _ => rfl
    rw [hsome] at hfft
    simp only [c19EncVecOpt] at hfft
    have hmulv := c19Arith_frac_mul ops 1 (x.length : Int)
      (c19Fft ops.add ops.mul (ops.ofInt 0) (c19Rp ops (-1)) x)
    unfold c19EncVec at hfft hmulv ⊢
    c19_run [hlen, c19Scalar_truediv_ne _ _ _ h0', c19Call_fft, hfft, hmulv]
    simp [h0, c19EncVecOpt, c19Ifft, c19EncVec]

end

end PV.Algo
