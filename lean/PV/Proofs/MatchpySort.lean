import PV.Model.Matchpy
/-
  C16, matchpy bridge: the model of CPython's `list.sort()` (`pySort`) returns a permutation of its
  input, whatever the comparison is (the bridge's `<` is not a strict weak order).
-/
namespace PV.Matchpy
open PV

section
variable {α : Type} (lt : α → α → Bool)

theorem insertAt_perm (xs : List α) (i : Nat) (x : α) : (insertAt xs i x).Perm (x :: xs) := by
  unfold insertAt
  have h : (xs.take i ++ x :: xs.drop i).Perm (x :: (xs.take i ++ xs.drop i)) :=
    List.perm_middle
  simpa [List.take_append_drop] using h

theorem binInsertAll_perm : ∀ (xs sorted : List α),
    (binInsertAll lt sorted xs).Perm (sorted ++ xs)
  | [], sorted => by simp [binInsertAll]
  | x :: xs, sorted => by
    simp only [binInsertAll]
    refine (binInsertAll_perm xs _).trans ?_
    have h1 := insertAt_perm sorted (binPos lt x sorted (sorted.length + 1) 0 sorted.length) x
    have h2 : (x :: sorted ++ xs).Perm (sorted ++ x :: xs) := List.perm_middle.symm
    exact (List.Perm.append_right xs h1).trans h2

/-- **`list.sort()` only reorders**: for every comparison function the result is a permutation -/
theorem pySort_perm (xs : List α) : (pySort lt xs).Perm xs := by
  unfold pySort
  split
  · exact .refl _
  · simp only
    split
    · refine (binInsertAll_perm lt _ _).trans ?_
      have : ((List.take (countRun lt xs).1 xs).reverse ++ List.drop (countRun lt xs).1 xs).Perm
          (List.take (countRun lt xs).1 xs ++ List.drop (countRun lt xs).1 xs) :=
        List.Perm.append_right _ (List.reverse_perm _)
      simpa [List.take_append_drop] using this
    · refine (binInsertAll_perm lt _ _).trans ?_
      simp [List.take_append_drop]

theorem pySort_length (xs : List α) : (pySort lt xs).length = xs.length :=
  (pySort_perm lt xs).length_eq

theorem pySort_short {xs : List α} (h : xs.length < 2) : pySort lt xs = xs := by
  simp [pySort, h]

end
end PV.Matchpy
