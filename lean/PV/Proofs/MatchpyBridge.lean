import PV.Proofs.MatchpySort
/-
  C16, matchpy bridge: facts about `toM`, `fromM`, `mk` used by the round-trip theorems
  (import-free apart from the model).
-/
namespace PV.Matchpy
open PV

/-! ### `mk` on each class -/

/-- the seven classes declared commutative and associative -/
def MOp.isAC (o : MOp) : Bool := o.nary?.isSome

theorem mk_ac {o : MOp} (h : o.isAC = true) (args : List MTerm) :
    mk o args = .op o (pySort MTerm.lt (flattenOps o args)) none := by
  cases o <;> simp [MOp.isAC, MOp.nary?] at h <;> simp [mk, MOp.row, acRow]

theorem mk_plain {o : MOp} (h : o.isAC = false) (args : List MTerm) :
    mk o args = .op o args none := by
  cases o <;> simp [MOp.isAC, MOp.nary?] at h <;> simp [mk, MOp.row, binRow, unRow]

theorem mopOfNary_nary? {o : NaryOp} {mo : MOp} (h : mopOfNary o = some mo) : mo.nary? = some o := by
  cases o <;> simp [mopOfNary] at h <;> subst h <;> rfl

theorem nary?_mopOfNary {o : NaryOp} {mo : MOp} (h : mo.nary? = some o) : mopOfNary o = some mo := by
  cases mo <;> simp [MOp.nary?] at h <;> subst h <;> rfl

theorem mopOfNary_isAC {o : NaryOp} {mo : MOp} (h : mopOfNary o = some mo) : mo.isAC = true := by
  simp [MOp.isAC, mopOfNary_nary? h]

/-! ### `fromM` -/

theorem fromM_ac {mo : MOp} {o : NaryOp} (h : mo.nary? = some o) (as : List MTerm)
    (vn : Option String) : fromM (.op mo as vn) = (fromML as).map (.nary o) := by
  cases mo <;> simp [MOp.nary?] at h <;> subst h <;> simp only [fromM] <;>
    cases fromML as <;> rfl

theorem fromML_cons {t : MTerm} {ts : List MTerm} {es : List Expr}
    (h : fromML (t :: ts) = .ok es) : ∃ e es', es = e :: es' ∧ fromM t = .ok e ∧ fromML ts = .ok es' := by
  simp only [fromML] at h
  cases h1 : fromM t with
  | error err => simp [h1, bind, Except.bind] at h
  | ok e =>
    cases h2 : fromML ts with
    | error err => simp [h1, h2, bind, Except.bind] at h
    | ok es' =>
      simp [h1, h2, bind, Except.bind, pure, Except.pure] at h
      exact ⟨e, es', h.symm, rfl, rfl⟩

theorem fromML_cons_ok {t : MTerm} {ts : List MTerm} {e : Expr} {es : List Expr}
    (h1 : fromM t = .ok e) (h2 : fromML ts = .ok es) : fromML (t :: ts) = .ok (e :: es) := by
  simp [fromML, h1, h2, bind, Except.bind, pure, Except.pure]

theorem fromML_append : ∀ {as bs : List MTerm} {xs ys : List Expr},
    fromML as = .ok xs → fromML bs = .ok ys → fromML (as ++ bs) = .ok (xs ++ ys)
  | [], _, _, _, h1, h2 => by
    simp [fromML, pure, Except.pure] at h1; subst h1; simpa using h2
  | a :: as, bs, xs, ys, h1, h2 => by
    obtain ⟨e, es', rfl, ha, has⟩ := fromML_cons h1
    exact fromML_cons_ok ha (fromML_append has h2)

/-! ### permutations and `fromML` -/

theorem fromML_perm {ts ts' : List MTerm} (h : ts.Perm ts') :
    ∀ {es : List Expr}, fromML ts = .ok es → ∃ es', fromML ts' = .ok es' ∧ es.Perm es' := by
  induction h with
  | nil => intro es h; exact ⟨es, h, .refl _⟩
  | cons x _ ih =>
    intro es h
    obtain ⟨e, es0, rfl, hx, hl⟩ := fromML_cons h
    obtain ⟨es1, h1, hp⟩ := ih hl
    exact ⟨e :: es1, fromML_cons_ok hx h1, hp.cons e⟩
  | swap x y l =>
    intro es h
    obtain ⟨e1, es0, rfl, hy, hl⟩ := fromML_cons h
    obtain ⟨e2, es1, rfl, hx, hl'⟩ := fromML_cons hl
    exact ⟨e2 :: e1 :: es1, fromML_cons_ok hx (fromML_cons_ok hy hl'), .swap _ _ _⟩
  | trans _ _ ih1 ih2 =>
    intro es h
    obtain ⟨es1, h1, hp1⟩ := ih1 h
    obtain ⟨es2, h2, hp2⟩ := ih2 h1
    exact ⟨es2, h2, hp1.trans hp2⟩

end PV.Matchpy
