import PV.Proofs.CseTallyJoint
import PV.Proofs.CseTallyErase
/-
  C12 helper: assembling the end-to-end statement — tagging a fragment list, then evaluating all
  tagged expressions with one evaluator, performs a SUBLIST of the reference plan (one operation per
  normalised key), and exactly the reference plan when the canonical wrappers are pairwise distinct.
-/
namespace PV

/-- the canonical-wrapper table `tag_common_subexpressions` ends with -/
def c12Table (es : List Expr) : Tbl :=
  match useCountL es [] with
  | .ok cnt =>
    match cseMapL (elimKeys cnt) es [] with
    | .ok (_, T) => T
    | .error _ => []
  | .error _ => []

/-- the keys counted more than once -/
def c12Elim (es : List Expr) : List CKey :=
  match useCountL es [] with
  | .ok cnt => elimKeys cnt
  | .error _ => []

/-- no two canonical wrappers are structurally equal (they always are distinct unless two
operations with DIFFERENT keys, both repeated, have operands that were merged, i.e. differ only
in the order of the operands of a nested sum or product) -/
def c12NoCollapse (es : List Expr) : Prop := ((c12Table es).map Prod.snd).Nodup

instance (es : List Expr) : Decidable (c12NoCollapse es) :=
  inferInstanceAs (Decidable (List.Nodup _))

theorem applyTblL_length (elim : List CKey) (T : Tbl) : ∀ (cs : List Expr),
    (applyTblL elim T cs).length = cs.length
  | [] => rfl
  | c :: cs => by simp [applyTblL, applyTblL_length elim T cs]

theorem c12CostNode_rebuild (k : C12Kind) (elim : List CKey) (T : Tbl) (e : Expr) :
    c12CostNode k (c12Rebuild elim T e) = c12CostNode k e := by
  cases e <;> simp [c12Rebuild, c12CostNode, applyTblL_length]

theorem c12Cost_map_rebuild (k : C12Kind) (elim : List CKey) (T : Tbl) : ∀ (l : List Expr),
    c12Cost k (l.map (c12Rebuild elim T)) = c12Cost k l
  | [] => rfl
  | e :: l => by
    simp [c12Cost, c12CostNode_rebuild, c12Cost_map_rebuild k elim T l]

theorem c12Cost_sublist (k : C12Kind) {l1 l2 : List Expr} (h : l1.Sublist l2) :
    c12Cost k l1 ≤ c12Cost k l2 := by
  induction h with
  | slnil => exact Nat.le_refl _
  | cons a _ ih => simp only [c12Cost]; omega
  | cons_cons a _ ih => simp only [c12Cost]; omega

/-- tagging a fragment list, side by side with the schedule of the outputs and the reference plan
of the inputs -/
theorem tagAll_sched (es : List Expr) (hf : Expr.fragL es = true) :
    ∃ outs, tagAll es = .ok outs ∧ outs = applyTblL (c12Elim es) (c12Table es) es ∧
      Expr.tfragL outs = true ∧
      (c12SchedL outs []).1.Sublist
        ((c12PlanL es []).map (c12Rebuild (c12Elim es) (c12Table es))) ∧
      (c12NoCollapse es →
        (c12SchedL outs []).1 = (c12PlanL es []).map (c12Rebuild (c12Elim es) (c12Table es))) := by
  obtain ⟨cnt, hc, hH, hE⟩ := useCountL_hitsElim es hf
  obtain ⟨outs, X, dn, m, p, t, _, _, _, _, sub, eq⟩ := c12GoalL_all hE es hf [] [] [] hH
    ⟨by intro s hs; simp at hs, by intro p hp; simp at hp, by intro s hs; simp at hs,
      by intro p hp; simp at hp⟩
    ⟨by intro p hp; simp at hp, by intro w hw; simp at hw, by intro w hw; simp at hw⟩
  simp only [List.nil_append] at m p sub eq
  obtain ⟨cs'', T', m', _, _, ap⟩ := cseMapL_frag (elimKeys cnt) es [] hf
  rw [m] at m'
  injection m' with m'; injection m' with e1 e2; subst e1; subst e2
  have hT : c12Table es = X := by simp [c12Table, hc, m]
  have hEl : c12Elim es = elimKeys cnt := by simp [c12Elim, hc]
  refine ⟨outs, by simp [tagAll, hc, m, bind, Except.bind, pure, Except.pure], ?_, t, ?_, ?_⟩
  · rw [hT, hEl]; exact (ap X (Tbl.le_refl X)).symm
  · rw [hT, hEl, p]; exact sub X (Tbl.le_refl X)
  · intro hnc
    rw [hT, hEl, p]
    have := eq [] (by simpa [c12NoCollapse, hT] using hnc)
    simpa using this

end PV
