import PV.Proofs.DiffTable
import PV.Generated.Diff
/-
  C10, T-gen: the table regenerated from the source of `pymbolic/mapper/differentiator.py`
  (`PV.Generated.c10DiffTable`), interpreted, gives exactly the hand-written rules of
  `PV/Model/Diff.lean`.  Re-checked whenever the regenerated table changes: an edited derivative
  (`cos ↦ sin`), a lost minus sign in the quotient rule, a changed gate or a swapped child makes one
  of these proofs fail.
-/
namespace PV

open Generated

/-- the names of the table, or none of them -/
theorem c10_name_cases (n : String) :
    n = "sin" ∨ n = "cos" ∨ n = "tan" ∨ n = "log" ∨ n = "exp" ∨ n = "sinh" ∨ n = "cosh" ∨
    n = "tanh" ∨ n = "expm1" ∨ n = "fabs" ∨ n = "copysign" ∨
    (MathFn.ofName? n = none ∧ n ≠ "sin" ∧ n ≠ "cos" ∧ n ≠ "tan" ∧ n ≠ "log" ∧ n ≠ "exp" ∧
      n ≠ "sinh" ∧ n ≠ "cosh" ∧ n ≠ "tanh" ∧ n ≠ "expm1" ∧ n ≠ "fabs" ∧ n ≠ "copysign") := by
  by_cases h1 : n = "sin"; · exact Or.inl h1
  by_cases h2 : n = "cos"; · exact Or.inr (Or.inl h2)
  by_cases h3 : n = "tan"; · exact Or.inr (Or.inr (Or.inl h3))
  by_cases h4 : n = "log"; · exact Or.inr (Or.inr (Or.inr (Or.inl h4)))
  by_cases h5 : n = "exp"; · exact Or.inr (Or.inr (Or.inr (Or.inr (Or.inl h5))))
  by_cases h6 : n = "sinh"; · exact Or.inr (Or.inr (Or.inr (Or.inr (Or.inr (Or.inl h6)))))
  by_cases h7 : n = "cosh"
  · exact Or.inr (Or.inr (Or.inr (Or.inr (Or.inr (Or.inr (Or.inl h7))))))
  by_cases h8 : n = "tanh"
  · exact Or.inr (Or.inr (Or.inr (Or.inr (Or.inr (Or.inr (Or.inr (Or.inl h8)))))))
  by_cases h9 : n = "expm1"
  · exact Or.inr (Or.inr (Or.inr (Or.inr (Or.inr (Or.inr (Or.inr (Or.inr (Or.inl h9))))))))
  by_cases h10 : n = "fabs"
  · exact Or.inr (Or.inr (Or.inr (Or.inr (Or.inr (Or.inr (Or.inr (Or.inr (Or.inr (Or.inl h10)))))))))
  by_cases h11 : n = "copysign"
  · exact Or.inr (Or.inr (Or.inr (Or.inr (Or.inr (Or.inr (Or.inr (Or.inr (Or.inr (Or.inr
      (Or.inl h11))))))))))
  · refine Or.inr (Or.inr (Or.inr (Or.inr (Or.inr (Or.inr (Or.inr (Or.inr (Or.inr (Or.inr
      (Or.inr ⟨?_, h1, h2, h3, h4, h5, h6, h7, h8, h9, h10, h11⟩))))))))))
    unfold MathFn.ofName?
    split <;> simp_all

/-- the table's `func == make_f(name) and len(pars) == k` chain on a `math.<name>` look-up whose
name is one of the table's: by evaluation, one argument-list length at a time -/
theorem c10_funcMap_current (cfg : Smooth) (f : Expr) (pars : List Expr) :
    c10FuncMapT c10DiffTable.fnModule c10DiffTable.fnElse cfg f pars c10DiffTable.fns
      = funcMap cfg f pars := by
  cases f with
  | lookup a n =>
    cases a with
    | var m =>
      by_cases hm : m = "math"
      · subst hm
        rcases c10_name_cases n with rfl | rfl | rfl | rfl | rfl | rfl | rfl | rfl | rfl | rfl
          | rfl | ⟨hnone, hne⟩
        all_goals first
          | (obtain ⟨h1, h2, h3, h4, h5, h6, h7, h8, h9, h10, h11⟩ := hne
             simp [c10FuncMapT, c10DiffTable, c10IsMathF, funcMap, mathFn?, hnone,
               h1, h2, h3, h4, h5, h6, h7, h8, h9, h10, h11]
             done)
          | (match pars with
             | [] => rfl
             | [p] => cases cfg <;> rfl
             | [p, q] => cases cfg <;> rfl
             | p :: q :: r :: rest => rfl)
      · have hm' : (m == "math") = false := by simpa using hm
        simp [c10FuncMapT, c10DiffTable, c10IsMathF, funcMap, mathFn?, hm, hm']
    | _ => rfl
  | _ => rfl

theorem c10_quot_current (f g df dg : Expr) :
    c10RuleEval c10DiffTable.quot f g df dg = liftOp (quotRule f g df dg) := by
  unfold quotRule
  cases hdf : df.truthy <;> cases hdg : dg.truthy <;>
    simp [c10RuleEval, c10BranchEval, c10DiffTable, c10TmEval, C10Env.slot, hdf, hdg, liftOp_bind,
      liftOp_pure, two, zero, one] <;> rfl

theorem c10_pow_current (f g df dg : Expr) :
    c10RuleEval c10DiffTable.pow f g df dg = liftOp (powRule f g df dg) := by
  unfold powRule
  cases hdf : df.truthy <;> cases hdg : dg.truthy <;>
    simp [c10RuleEval, c10BranchEval, c10DiffTable, c10TmEval, C10Env.slot, hdf, hdg, liftOp_bind,
      liftOp_pure, two, zero, one, logCall] <;> rfl

/-- **the regenerated table denotes the hand-written rules** -/
theorem c10_rules_current : c10RulesOf c10DiffTable = c10ModelRules := by
  have h1 : (c10RulesOf c10DiffTable).fm = c10ModelRules.fm := by
    funext cfg f pars; exact c10_funcMap_current cfg f pars
  have h2 : (c10RulesOf c10DiffTable).quot = c10ModelRules.quot := by
    funext f g df dg; exact c10_quot_current f g df dg
  have h3 : (c10RulesOf c10DiffTable).pow = c10ModelRules.pow := by
    funext f g df dg; exact c10_pow_current f g df dg
  have h4 : (c10RulesOf c10DiffTable).ifErr = c10ModelRules.ifErr := by
    funext cfg; cases cfg <;> rfl
  have h8 : (c10RulesOf c10DiffTable).cseZero = c10ModelRules.cseZero := rfl
  have h5 : (c10RulesOf c10DiffTable).constD = c10ModelRules.constD := rfl
  have h6 : (c10RulesOf c10DiffTable).varHit = c10ModelRules.varHit := rfl
  have h7 : (c10RulesOf c10DiffTable).varMiss = c10ModelRules.varMiss := rfl
  cases hR : c10RulesOf c10DiffTable
  cases hM : c10ModelRules
  rw [hR, hM] at h1 h2 h3 h4 h5 h6 h7 h8
  simp only at h1 h2 h3 h4 h5 h6 h7 h8
  subst h1 h2 h3 h4 h5 h6 h7 h8
  rfl

/-- the table-driven differentiator IS the hand-written one -/
theorem c10DiffT_current (cfg : Smooth) (v e : Expr) :
    c10DiffT c10DiffTable cfg v e = diff cfg v e := by
  unfold c10DiffT
  rw [c10_rules_current]
  exact diffG_model cfg v e

end PV
