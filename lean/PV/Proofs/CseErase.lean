import PV.Model.Cse
/-
  C12 helper: forgetting the event log, the instrumented evaluator `evalTr` IS the plain evaluator
  `evalG false` of C02 (same result, same CSE cache), for every expression and every state.
-/
namespace PV

theorem withMemo_false (e : Expr) (k : EvM Value) : withMemo false e k = k := by
  funext s; simp [withMemo]

/-- `m` (on logs) and `k` (on evaluator states) compute the same result and the same cache -/
def Er {α : Type} (m : TrM α) (k : EvM α) : Prop :=
  ∀ (t : Log) (mem : List (Expr × Value)),
    (m t).1 = (k ⟨cacheOf t, mem⟩).1 ∧ (k ⟨cacheOf t, mem⟩).2 = ⟨cacheOf (m t).2, mem⟩

theorem Er.pure {α} (a : α) : Er (TrM.pure a) (EvM.pure a) := fun _ _ => ⟨rfl, rfl⟩
theorem Er.throw {α} (e : Err) : Er (TrM.throw e : TrM α) (EvM.throw e) := fun _ _ => ⟨rfl, rfl⟩
theorem Er.lift {α} (x : Except Err α) : Er (TrM.lift x) (EvM.lift x) := fun _ _ => ⟨rfl, rfl⟩

theorem Er.bind {α β} {m : TrM α} {k : EvM α} {f : α → TrM β} {g : α → EvM β}
    (h : Er m k) (hf : ∀ a, Er (f a) (g a)) : Er (m >>= f) (k >>= g) := by
  intro t mem
  obtain ⟨h1, h2⟩ := h t mem
  show (TrM.bind m f t).1 = (EvM.bind k g ⟨cacheOf t, mem⟩).1 ∧
    (EvM.bind k g ⟨cacheOf t, mem⟩).2 = ⟨cacheOf (TrM.bind m f t).2, mem⟩
  cases hm : m t with
  | mk r t1 =>
    cases hk : k ⟨cacheOf t, mem⟩ with
    | mk r' s1 =>
      rw [hm, hk] at h1 h2
      simp only at h1 h2
      subst h1; subst h2
      cases r with
      | error e => simp only [TrM.bind, EvM.bind, hm, hk]; exact ⟨trivial, trivial⟩
      | ok a =>
        simp only [TrM.bind, EvM.bind, hm, hk]
        exact hf a t1 mem

theorem Er.ite {α} {c : Bool} {m1 m2 : TrM α} {k1 k2 : EvM α} (h1 : Er m1 k1) (h2 : Er m2 k2) :
    Er (if c then m1 else m2) (if c then k1 else k2) := by
  cases c <;> simpa

theorem Er.call (fv : Value) (args : List Value) (ns : List String) (kvs : List Value) :
    Er (callTr fv args ns kvs) (EvM.lift (fv.call args ns kvs)) := by
  intro t mem
  unfold callTr
  cases fv <;> exact ⟨rfl, rfl⟩

theorem Er.cse {env : Env} {c : Expr} {p : Option String} {sc : String}
    (hc : Er (evalTr env c) (evalNode false env c)) :
    Er (evalTr env (.cse c p sc)) (evalNode false env (.cse c p sc)) := by
  intro t mem
  simp only [evalTr, evalNode, withMemo_false]
  by_cases hl : c.hasList = true
  · simp only [hl, if_true]; exact ⟨trivial, trivial⟩
  · simp only [hl, Bool.false_eq_true, if_false]
    cases hf : findBy Expr.pyEq (.cse c p sc) (cacheOf t) with
    | some v => exact ⟨rfl, rfl⟩
    | none =>
      obtain ⟨h1, h2⟩ := hc t mem
      cases hm : evalTr env c t with
      | mk r t1 =>
        cases hk : evalNode false env c ⟨cacheOf t, mem⟩ with
        | mk r' s1 =>
          rw [hm, hk] at h1 h2
          simp only at h1 h2
          subst h1; subst h2
          cases r with
          | error e => exact ⟨rfl, rfl⟩
          | ok v => exact ⟨rfl, rfl⟩

mutual
theorem node_er (env : Env) : ∀ e, Er (evalTr env e) (evalNode false env e)
  | .const c => by simp only [evalTr, evalNode]; exact Er.lift _
  | .var x => by
      simp only [evalTr, evalNode]
      cases env.get x with
      | none => exact Er.throw _
      | some v => exact Er.pure _
  | .nary .sum cs => by simp only [evalTr, evalNode]; exact fold_er env .sum (.int 0) cs
  | .nary .prod cs => by simp only [evalTr, evalNode]; exact fold_er env .prod (.int 1) cs
  | .nary .bor cs => by simp only [evalTr, evalNode]; exact reduce_er env .bor cs
  | .nary .bxor cs => by simp only [evalTr, evalNode]; exact reduce_er env .bxor cs
  | .nary .band cs => by simp only [evalTr, evalNode]; exact reduce_er env .band cs
  | .nary .lor cs => by simp only [evalTr, evalNode]; exact any_er env cs
  | .nary .land cs => by simp only [evalTr, evalNode]; exact all_er env cs
  | .nary .min cs => by simp only [evalTr, evalNode]; exact minmax_er env true none cs
  | .nary .max cs => by simp only [evalTr, evalNode]; exact minmax_er env false none cs
  | .bin o a b => by
      simp only [evalTr, evalNode, withMemo_false]
      exact Er.bind (node_er env a) fun x => Er.bind (node_er env b) fun y => Er.lift _
  | .un .bnot a => by
      simp only [evalTr, evalNode, withMemo_false]
      exact Er.bind (node_er env a) fun x => Er.lift _
  | .un .lnot a => by
      simp only [evalTr, evalNode, withMemo_false]
      exact Er.bind (node_er env a) fun x => Er.bind (Er.lift _) fun t => Er.pure _
  | .cmp o a b => by
      simp only [evalTr, evalNode, withMemo_false]
      exact Er.bind (node_er env a) fun x => Er.bind (node_er env b) fun y => Er.lift _
  | .ite c t e => by
      simp only [evalTr, evalNode, withMemo_false]
      exact Er.bind (node_er env c) fun cv => Er.bind (Er.lift _) fun tv =>
        Er.ite (node_er env t) (node_er env e)
  | .call f as => by
      simp only [evalTr, evalNode, withMemo_false]
      exact Er.bind (node_er env f) fun fv => Er.bind (list_er env as) fun avs => Er.call _ _ _ _
  | .callKw f as ns vs => by
      simp only [evalTr, evalNode, withMemo_false]
      exact Er.bind (list_er env as) fun avs => Er.bind (list_er env vs) fun kvs =>
        Er.bind (node_er env f) fun fv => Er.call _ _ _ _
  | .subscript a i => by
      simp only [evalTr, evalNode, withMemo_false]
      exact Er.bind (node_er env a) fun x => Er.bind (node_er env i) fun y => Er.lift _
  | .lookup a n => by
      simp only [evalTr, evalNode, withMemo_false]
      exact Er.bind (node_er env a) fun x => Er.lift _
  | .cse c p sc => Er.cse (node_er env c)
  | .subst .. => by simp only [evalTr, evalNode]; exact Er.throw _
  | .deriv .. => by simp only [evalTr, evalNode]; exact Er.throw _
  | .slice _ => by simp only [evalTr, evalNode]; exact Er.throw _
  | .nan => by simp only [evalTr, evalNode]; exact Er.pure _
  | .wildcard => by simp only [evalTr, evalNode]; exact Er.throw _
  | .dotWild _ => by simp only [evalTr, evalNode]; exact Er.throw _
  | .starWild _ => by simp only [evalTr, evalNode]; exact Er.throw _
  | .funcSym => by simp only [evalTr, evalNode]; exact Er.throw _
  | .tuple cs => by
      simp only [evalTr, evalNode]
      exact Er.bind (list_er env cs) fun vs => Er.pure _
  | .list cs => by
      simp only [evalTr, evalNode]
      exact Er.bind (list_er env cs) fun vs => Er.pure _
theorem fold_er (env : Env) (o : NaryOp) :
    ∀ (acc : Value) (cs : List Expr), Er (evalTrFold env o acc cs) (evalFold false env o acc cs)
  | acc, [] => by simp only [evalTrFold, evalFold]; exact Er.pure _
  | acc, c :: cs => by
      simp only [evalTrFold, evalFold, withMemo_false]
      exact Er.bind (node_er env c) fun v => Er.bind (Er.lift _) fun acc' => fold_er env o acc' cs
theorem reduce_er (env : Env) (o : NaryOp) :
    ∀ (cs : List Expr), Er (evalTrReduce env o cs) (evalReduce false env o cs)
  | [] => by simp only [evalTrReduce, evalReduce]; exact Er.throw _
  | c :: cs => by
      simp only [evalTrReduce, evalReduce, withMemo_false]
      exact Er.bind (node_er env c) fun v => fold_er env o v cs
theorem any_er (env : Env) : ∀ (cs : List Expr), Er (evalTrAny env cs) (evalAny false env cs)
  | [] => by simp only [evalTrAny, evalAny]; exact Er.pure _
  | c :: cs => by
      simp only [evalTrAny, evalAny, withMemo_false]
      exact Er.bind (node_er env c) fun v => Er.bind (Er.lift _) fun t =>
        Er.ite (Er.pure _) (any_er env cs)
theorem all_er (env : Env) : ∀ (cs : List Expr), Er (evalTrAll env cs) (evalAll false env cs)
  | [] => by simp only [evalTrAll, evalAll]; exact Er.pure _
  | c :: cs => by
      simp only [evalTrAll, evalAll, withMemo_false]
      exact Er.bind (node_er env c) fun v => Er.bind (Er.lift _) fun t =>
        Er.ite (all_er env cs) (Er.pure _)
theorem minmax_er (env : Env) (isMin : Bool) :
    ∀ (cur : Option Value) (cs : List Expr),
      Er (evalTrMinMax env isMin cur cs) (evalMinMax false env isMin cur cs)
  | cur, [] => by
      simp only [evalTrMinMax, evalMinMax]
      cases cur with
      | none => exact Er.throw _
      | some m => exact Er.pure _
  | cur, c :: cs => by
      simp only [evalTrMinMax, evalMinMax, withMemo_false]
      refine Er.bind (node_er env c) fun v => ?_
      cases cur with
      | none => exact minmax_er env isMin (some v) cs
      | some m => exact Er.bind (Er.lift _) fun better => minmax_er env isMin _ cs
theorem list_er (env : Env) : ∀ (cs : List Expr), Er (evalTrList env cs) (evalList false env cs)
  | [] => by simp only [evalTrList, evalList]; exact Er.pure _
  | c :: cs => by
      simp only [evalTrList, evalList, withMemo_false]
      exact Er.bind (node_er env c) fun v => Er.bind (list_er env cs) fun vs => Er.pure _
end

/-- the results of a history on the instrumented evaluator are those of C02's `runHist` -/
theorem runTr_eq_runHist (env : Env) : ∀ (es : List Expr) (t : Log) (mem : List (Expr × Value)),
    (runTr env es t).1 = runHist false env es ⟨cacheOf t, mem⟩
  | [], _, _ => rfl
  | e :: es, t, mem => by
    obtain ⟨h1, h2⟩ := node_er env e t mem
    simp only [runTr, runHist, evalG, withMemo_false]
    cases hm : evalTr env e t with
    | mk r t1 =>
      cases hk : evalNode false env e ⟨cacheOf t, mem⟩ with
      | mk r' s1 =>
        rw [hm, hk] at h1 h2
        simp only at h1 h2
        subst h1; subst h2
        simp only
        rw [← runTr_eq_runHist env es t1 mem]

end PV
