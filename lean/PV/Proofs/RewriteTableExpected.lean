import PV.Model.RewriteTable
/-
  C11 (T-gen).  The table the hand-written model of PV/Model/Rewrite.lean was written against: a
  frozen copy of what extract/rewrite.py produced from pymbolic/mapper/{flattener,constant_folder,
  collector,distributor}.py at the commit the proofs were made for.  PV/Proofs/RewriteTable*.lean
  prove that THIS table, interpreted, is the hand-written model for all inputs;
  PV/Properties/C11Table.lean checks (`rfl`) on every run that the table regenerated from the
  current source equals it.
-/
namespace PV.C11Expected

/-- `pymbolic.mapper.flattener.FlattenMapper.map_product` -/
def c11_FlattenMapper_map_product : C11Fn :=
  { name := "map_product", definedIn := "pymbolic.mapper.flattener.FlattenMapper.map_product",
    params := ["expr"], defaults := [],
    locals := [],
    defs := [],
    body := [
      .ret (.call (.glob .flattenedProduct) [(.comp (.selfCall "rec" [(.var "ch")]) ["ch"] (.attr (.var "expr") "children"))])] }

/-- `pymbolic.mapper.flattener.FlattenMapper.map_sum` -/
def c11_FlattenMapper_map_sum : C11Fn :=
  { name := "map_sum", definedIn := "pymbolic.mapper.flattener.FlattenMapper.map_sum",
    params := ["expr"], defaults := [],
    locals := [],
    defs := [],
    body := [
      .ret (.call (.glob .flattenedSum) [(.comp (.selfCall "rec" [(.var "ch")]) ["ch"] (.attr (.var "expr") "children"))])] }

/-- `pymbolic.mapper.constant_folder.ConstantFoldingMapperBase.evaluate` -/
def c11_ConstantFoldingMapperBase_evaluate : C11Fn :=
  { name := "evaluate", definedIn := "pymbolic.mapper.constant_folder.ConstantFoldingMapperBase.evaluate",
    params := ["expr"], defaults := [],
    locals := [],
    defs := [],
    body := [
      .tryRet (.call (.glob .evaluate) [(.var "expr")]) .valueError [
        .ret .pyNone]] }

/-- `pymbolic.mapper.constant_folder.ConstantFoldingMapperBase.fold` -/
def c11_ConstantFoldingMapperBase_fold : C11Fn :=
  { name := "fold", definedIn := "pymbolic.mapper.constant_folder.ConstantFoldingMapperBase.fold",
    params := ["expr", "klass", "op", "constructor"], defaults := [],
    locals := ["constants", "nonconstants", "queue", "queue.pop(0)", "child", "value", "constant"],
    defs := [],
    body := [
      .assign "constants" (.seq []),
      .assign "nonconstants" (.seq []),
      .assign "queue" (.call (.glob .pyList) [(.attr (.var "expr") "children")]),
      .while (.var "queue") [
        .popFront "queue.pop(0)" "queue",
        .assign "child" (.selfCall "rec" [(.var "queue.pop(0)")]),
        .ifThen (.call (.glob .pyIsinstance) [(.var "child"), (.var "klass")]) [
          .assign "queue" (.bin .add (.call (.glob .pyList) [(.attr (.var "child") "children")]) (.var "queue"))]
          [
          .ifThen (.selfCall "is_constant" [(.var "child")]) [
            .assign "value" (.selfCall "evaluate" [(.var "child")]),
            .ifThen (.cmp .is (.var "value") .pyNone) [
              .append "nonconstants" (.var "child")]
              [
              .append "constants" (.var "value")]]
            [
            .append "nonconstants" (.var "child")]]],
      .ifThen (.var "constants") [
        .assign "constant" (.call (.glob .reduce) [(.var "op"), (.var "constants")]),
        .ret (.call (.var "constructor") [(.seq [(.var "constant"), (.star (.var "nonconstants"))])])]
        [
        .ret (.call (.var "constructor") [(.call (.glob .pyTuple) [(.var "nonconstants")])])]] }

/-- `pymbolic.mapper.constant_folder.ConstantFoldingMapperBase.is_constant` -/
def c11_ConstantFoldingMapperBase_is_constant : C11Fn :=
  { name := "is_constant", definedIn := "pymbolic.mapper.constant_folder.ConstantFoldingMapperBase.is_constant",
    params := ["expr"], defaults := [],
    locals := [],
    defs := [],
    body := [
      .ret (.not (.call (.glob .pyBool) [(.call (.call (.glob .depMapper) []) [(.var "expr")])]))] }

/-- `pymbolic.mapper.constant_folder.ConstantFoldingMapperBase.map_sum` -/
def c11_ConstantFoldingMapperBase_map_sum : C11Fn :=
  { name := "map_sum", definedIn := "pymbolic.mapper.constant_folder.ConstantFoldingMapperBase.map_sum",
    params := ["expr"], defaults := [],
    locals := [],
    defs := [],
    body := [
      .ret (.selfCall "fold" [(.var "expr"), (.glob .clsSum), (.glob .opAdd), (.glob .flattenedSum)])] }

/-- `pymbolic.mapper.constant_folder.CommutativeConstantFoldingMapperBase.map_product` -/
def c11_CommutativeConstantFoldingMapperBase_map_product : C11Fn :=
  { name := "map_product", definedIn := "pymbolic.mapper.constant_folder.CommutativeConstantFoldingMapperBase.map_product",
    params := ["expr"], defaults := [],
    locals := [],
    defs := [],
    body := [
      .ret (.selfCall "fold" [(.var "expr"), (.glob .clsProduct), (.glob .opMul), (.glob .flattenedProduct)])] }

/-- `pymbolic.mapper.collector.TermCollector.__init__` -/
def c11_TermCollector___init__ : C11Fn :=
  { name := "__init__", definedIn := "pymbolic.mapper.collector.TermCollector.__init__",
    params := ["parameters"], defaults := [("parameters", .pyNone)],
    locals := [],
    defs := [],
    body := [
      .ifThen (.cmp .is (.var "parameters") .pyNone) [
        .assign "parameters" (.call (.glob .pySet) [])]
        [],
      .setSelf "parameters" (.var "parameters")] }

/-- `pymbolic.mapper.collector.TermCollector.get_dependencies` -/
def c11_TermCollector_get_dependencies : C11Fn :=
  { name := "get_dependencies", definedIn := "pymbolic.mapper.collector.TermCollector.get_dependencies",
    params := ["expr"], defaults := [],
    locals := [],
    defs := [],
    body := [
      .ret (.call (.call (.glob .depMapper) []) [(.var "expr")])] }

/-- `pymbolic.mapper.collector.TermCollector.map_sum` -/
def c11_TermCollector_map_sum : C11Fn :=
  { name := "map_sum", definedIn := "pymbolic.mapper.collector.TermCollector.map_sum",
    params := ["mysum"], defaults := [],
    locals := ["term2coeff", "child", "term", "coeff", "rep2term", "result"],
    defs := [
      { name := "rep2term", params := ["rep"], locals := [], recursive := false,
        body := [
          .ret (.call (.glob .flattenedProduct) [(.comp (.bin .pow (.var "base") (.var "exp")) ["base", "exp"] (.var "rep"))])] }],
    body := [
      .assign "term2coeff" .emptyDict,
      .for ["child"] (.attr (.var "mysum") "children") [
        .assign2 "term" "coeff" (.selfCall "split_term" [(.var "child")]),
        .setItem "term2coeff" (.var "term") (.bin .add (.method (.var "term2coeff") "get" [(.var "term"), (.int 0)]) (.var "coeff"))],
      .defFn "rep2term",
      .assign "result" (.call (.glob .flattenedSum) [(.comp (.bin .mul (.var "coeff") (.call (.var "rep2term") [(.var "termrep")])) ["termrep", "coeff"] (.method (.var "term2coeff") "items" []))]),
      .ret (.var "result")] }

/-- `pymbolic.mapper.collector.TermCollector.split_term` -/
def c11_TermCollector_split_term : C11Fn :=
  { name := "split_term", definedIn := "pymbolic.mapper.collector.TermCollector.split_term",
    params := ["mul_term"], defaults := [],
    locals := ["base", "exponent", "terms", "base2exp", "term", "mybase", "myexp", "coefficients", "cleaned_base2exp", "exp"],
    defs := [
      { name := "base", params := ["term"], locals := [], recursive := false,
        body := [
          .ifThen (.call (.glob .pyIsinstance) [(.var "term"), (.glob .clsPower)]) [
            .ret (.attr (.var "term") "base")]
            [
            .ret (.var "term")]] },
      { name := "exponent", params := ["term"], locals := [], recursive := false,
        body := [
          .ifThen (.call (.glob .pyIsinstance) [(.var "term"), (.glob .clsPower)]) [
            .ret (.attr (.var "term") "exponent")]
            [
            .ret (.int 1)]] }],
    body := [
      .defFn "base",
      .defFn "exponent",
      .ifThen (.call (.glob .pyIsinstance) [(.var "mul_term"), (.glob .clsProduct)]) [
        .assign "terms" (.attr (.var "mul_term") "children")]
        [
        .ifThen (.call (.glob .pyIsinstance) [(.var "mul_term"), (.seq [(.glob .clsPower), (.glob .clsAlgebraicLeaf)])]) [
          .assign "terms" (.seq [(.var "mul_term")])]
          [
          .ifThen (.not (.call (.glob .pyBool) [(.selfCall "get_dependencies" [(.var "mul_term")])])) [
            .assign "terms" (.seq [(.var "mul_term")])]
            [
            .raise .runtimeError]]],
      .assign "base2exp" .emptyDict,
      .for ["term"] (.var "terms") [
        .assign "mybase" (.call (.var "base") [(.var "term")]),
        .assign "myexp" (.call (.var "exponent") [(.var "term")]),
        .ifThen (.cmp .isIn (.var "mybase") (.var "base2exp")) [
          .augItem "base2exp" (.var "mybase") .add (.var "myexp")]
          [
          .setItem "base2exp" (.var "mybase") (.var "myexp")]],
      .assign "coefficients" (.seq []),
      .assign "cleaned_base2exp" .emptyDict,
      .for ["base", "exp"] (.method (.var "base2exp") "items" []) [
        .assign "term" (.bin .pow (.var "base") (.var "exp")),
        .ifThen (.cmp .le (.selfCall "get_dependencies" [(.var "term")]) (.selfAttr "parameters")) [
          .append "coefficients" (.var "term")]
          [
          .setItem "cleaned_base2exp" (.var "base") (.var "exp")]],
      .assign "term" (.call (.glob .pyFrozenset) [(.comp (.seq [(.var "base"), (.var "exp")]) ["base", "exp"] (.method (.var "cleaned_base2exp") "items" []))]),
      .ret (.seq [(.var "term"), (.selfCall "rec" [(.call (.glob .flattenedProduct) [(.var "coefficients")])])])] }

/-- `pymbolic.mapper.distributor.DistributeMapper.__init__` -/
def c11_DistributeMapper___init__ : C11Fn :=
  { name := "__init__", definedIn := "pymbolic.mapper.distributor.DistributeMapper.__init__",
    params := ["collector", "const_folder"], defaults := [("collector", .pyNone), ("const_folder", .pyNone)],
    locals := [],
    defs := [],
    body := [
      .ifThen (.cmp .is (.var "collector") .pyNone) [
        .assign "collector" (.call (.glob .termCollector) [])]
        [],
      .ifThen (.cmp .is (.var "const_folder") .pyNone) [
        .assign "const_folder" (.call (.glob .commFolder) [])]
        [],
      .setSelf "collector" (.var "collector"),
      .setSelf "const_folder" (.var "const_folder")] }

/-- `pymbolic.mapper.distributor.DistributeMapper.collect` -/
def c11_DistributeMapper_collect : C11Fn :=
  { name := "collect", definedIn := "pymbolic.mapper.distributor.DistributeMapper.collect",
    params := ["expr"], defaults := [],
    locals := [],
    defs := [],
    body := [
      .ret (.call (.selfAttr "collector") [(.call (.selfAttr "const_folder") [(.var "expr")])])] }

/-- `pymbolic.mapper.distributor.DistributeMapper.map_power` -/
def c11_DistributeMapper_map_power : C11Fn :=
  { name := "map_power", definedIn := "pymbolic.mapper.distributor.DistributeMapper.map_power",
    params := ["expr"], defaults := [],
    locals := ["newbase"],
    defs := [],
    body := [
      .assign "newbase" (.selfCall "rec" [(.attr (.var "expr") "base")]),
      .ifThen (.and (.call (.glob .pyIsinstance) [(.attr (.var "expr") "base"), (.glob .clsProduct)]) (.call (.glob .pyIsinstance) [(.var "newbase"), (.glob .clsProduct)])) [
        .ret (.selfCall "rec" [(.call (.glob .flattenedProduct) [(.comp (.bin .pow (.var "child") (.attr (.var "expr") "exponent")) ["child"] (.attr (.var "newbase") "children"))])])]
        [],
      .ifThen (.and (.call (.glob .pyIsinstance) [(.attr (.var "expr") "exponent"), (.glob .clsInt)]) (.cmp .gt (.attr (.var "expr") "exponent") (.int 0))) [
        .ifThen (.call (.glob .pyIsinstance) [(.var "newbase"), (.glob .clsSum)]) [
          .ret (.selfCall "map_product" [(.call (.glob .flattenedProduct) [(.bin .mul (.attr (.var "expr") "exponent") (.seq [(.var "newbase")]))])])]
          [
          .ret (.superCall .identityMapper "map_power" [(.var "expr")])]]
        [
        .ret (.superCall .identityMapper "map_power" [(.var "expr")])]] }

/-- `pymbolic.mapper.distributor.DistributeMapper.map_product` -/
def c11_DistributeMapper_map_product : C11Fn :=
  { name := "map_product", definedIn := "pymbolic.mapper.distributor.DistributeMapper.map_product",
    params := ["expr"], defaults := [],
    locals := ["dist"],
    defs := [
      { name := "dist", params := ["prod"], locals := ["leading", "i", "result", "sum", "rest"], recursive := true,
        body := [
          .ifThen (.not (.call (.glob .pyIsinstance) [(.var "prod"), (.glob .clsProduct)])) [
            .ret (.var "prod")]
            [],
          .assign "leading" (.seq []),
          .for ["i"] (.attr (.var "prod") "children") [
            .ifThen (.call (.glob .pyIsinstance) [(.var "i"), (.glob .clsSum)]) [
              .brk]
              [
              .append "leading" (.var "i")]],
          .ifThen (.cmp .eq (.call (.glob .pyLen) [(.var "leading")]) (.call (.glob .pyLen) [(.attr (.var "prod") "children")])) [
            .assign "result" (.call (.glob .flattenedProduct) [(.attr (.var "prod") "children")]),
            .ret (.var "result")]
            [
            .assign "sum" (.index (.attr (.var "prod") "children") (.call (.glob .pyLen) [(.var "leading")])),
            .assertS (.call (.glob .pyIsinstance) [(.var "sum"), (.glob .clsSum)]),
            .assign "rest" (.sliceFrom (.attr (.var "prod") "children") (.bin .add (.call (.glob .pyLen) [(.var "leading")]) (.int 1))),
            .ifThen (.var "rest") [
              .assign "rest" (.call (.var "dist") [(.call (.glob .clsProduct) [(.var "rest")])])]
              [
              .assign "rest" (.int 1)],
            .assign "result" (.selfCall "collect" [(.call (.glob .flattenedSum) [(.comp (.bin .mul (.call (.glob .flattenedProduct) [(.var "leading")]) (.call (.var "dist") [(.bin .mul (.var "sumchild") (.var "rest"))])) ["sumchild"] (.attr (.var "sum") "children"))])]),
            .ret (.var "result")]] }],
    body := [
      .defFn "dist",
      .ret (.call (.var "dist") [(.superCall .identityMapper "map_product" [(.var "expr")])])] }

/-- `pymbolic.mapper.distributor.DistributeMapper.map_quotient` -/
def c11_DistributeMapper_map_quotient : C11Fn :=
  { name := "map_quotient", definedIn := "pymbolic.mapper.distributor.DistributeMapper.map_quotient",
    params := ["expr"], defaults := [],
    locals := [],
    defs := [],
    body := [
      .ifThen (.isOneSub (.attr (.var "expr") "numerator")) [
        .ret (.var "expr")]
        [
        .ret (.call (.glob .flattenedProduct) [(.seq [(.call (.call (.glob .pyType) [(.var "expr")]) [(.int 1), (.selfCall "rec" [(.attr (.var "expr") "denominator")])]), (.selfCall "rec" [(.attr (.var "expr") "numerator")])])])]] }

/-- `pymbolic.mapper.distributor.DistributeMapper.map_sum` -/
def c11_DistributeMapper_map_sum : C11Fn :=
  { name := "map_sum", definedIn := "pymbolic.mapper.distributor.DistributeMapper.map_sum",
    params := ["expr"], defaults := [],
    locals := ["res"],
    defs := [],
    body := [
      .assign "res" (.superCall .identityMapper "map_sum" [(.var "expr")]),
      .ifThen (.call (.glob .pyIsinstance) [(.var "res"), (.glob .clsSum)]) [
        .ret (.selfCall "collect" [(.var "res")])]
        [
        .ret (.var "res")]] }

def c11Class_flatten : C11Class :=
  { name := "FlattenMapper",
    mro := ["FlattenMapper", "IdentityMapper", "Mapper", "object"],
    methods := [
    ⟨"map_product", "FlattenMapper", .own c11_FlattenMapper_map_product⟩,
    ⟨"map_sum", "FlattenMapper", .own c11_FlattenMapper_map_sum⟩],
    recIsDispatch := true }

def c11Class_plainFolder : C11Class :=
  { name := "ConstantFoldingMapper",
    mro := ["ConstantFoldingMapper", "CSECachingMapperMixin", "ABC", "ConstantFoldingMapperBase", "IdentityMapper", "Mapper", "object"],
    methods := [
    ⟨"evaluate", "ConstantFoldingMapperBase", .own c11_ConstantFoldingMapperBase_evaluate⟩,
    ⟨"fold", "ConstantFoldingMapperBase", .own c11_ConstantFoldingMapperBase_fold⟩,
    ⟨"is_constant", "ConstantFoldingMapperBase", .own c11_ConstantFoldingMapperBase_is_constant⟩,
    ⟨"map_common_subexpression", "CSECachingMapperMixin", .cseMixin⟩,
    ⟨"map_common_subexpression_uncached", "ConstantFoldingMapper", .identity "map_common_subexpression"⟩,
    ⟨"map_sum", "ConstantFoldingMapperBase", .own c11_ConstantFoldingMapperBase_map_sum⟩],
    recIsDispatch := true }

def c11Class_commFolder : C11Class :=
  { name := "CommutativeConstantFoldingMapper",
    mro := ["CommutativeConstantFoldingMapper", "CSECachingMapperMixin", "ABC", "CommutativeConstantFoldingMapperBase", "ConstantFoldingMapperBase", "IdentityMapper", "Mapper", "object"],
    methods := [
    ⟨"evaluate", "ConstantFoldingMapperBase", .own c11_ConstantFoldingMapperBase_evaluate⟩,
    ⟨"fold", "ConstantFoldingMapperBase", .own c11_ConstantFoldingMapperBase_fold⟩,
    ⟨"is_constant", "ConstantFoldingMapperBase", .own c11_ConstantFoldingMapperBase_is_constant⟩,
    ⟨"map_common_subexpression", "CSECachingMapperMixin", .cseMixin⟩,
    ⟨"map_common_subexpression_uncached", "CommutativeConstantFoldingMapper", .identity "map_common_subexpression"⟩,
    ⟨"map_product", "CommutativeConstantFoldingMapperBase", .own c11_CommutativeConstantFoldingMapperBase_map_product⟩,
    ⟨"map_sum", "ConstantFoldingMapperBase", .own c11_ConstantFoldingMapperBase_map_sum⟩],
    recIsDispatch := true }

def c11Class_collector : C11Class :=
  { name := "TermCollector",
    mro := ["TermCollector", "IdentityMapper", "Mapper", "object"],
    methods := [
    ⟨"__init__", "TermCollector", .own c11_TermCollector___init__⟩,
    ⟨"get_dependencies", "TermCollector", .own c11_TermCollector_get_dependencies⟩,
    ⟨"map_sum", "TermCollector", .own c11_TermCollector_map_sum⟩,
    ⟨"split_term", "TermCollector", .own c11_TermCollector_split_term⟩],
    recIsDispatch := true }

def c11Class_distributor : C11Class :=
  { name := "DistributeMapper",
    mro := ["DistributeMapper", "IdentityMapper", "Mapper", "object"],
    methods := [
    ⟨"__init__", "DistributeMapper", .own c11_DistributeMapper___init__⟩,
    ⟨"collect", "DistributeMapper", .own c11_DistributeMapper_collect⟩,
    ⟨"map_power", "DistributeMapper", .own c11_DistributeMapper_map_power⟩,
    ⟨"map_product", "DistributeMapper", .own c11_DistributeMapper_map_product⟩,
    ⟨"map_quotient", "DistributeMapper", .own c11_DistributeMapper_map_quotient⟩,
    ⟨"map_sum", "DistributeMapper", .own c11_DistributeMapper_map_sum⟩],
    recIsDispatch := true }

/-- `pymbolic.mapper.flattener.flatten` -/
def c11_entry_flatten : C11Fn :=
  { name := "flatten", definedIn := "pymbolic.mapper.flattener.flatten",
    params := ["expr"], defaults := [],
    locals := [],
    defs := [],
    body := [
      .ret (.call (.call (.glob .flattenMapper) []) [(.var "expr")])] }

/-- `pymbolic.mapper.distributor.distribute` -/
def c11_entry_distribute : C11Fn :=
  { name := "distribute", definedIn := "pymbolic.mapper.distributor.distribute",
    params := ["expr", "parameters", "commutative"], defaults := [("parameters", .pyNone), ("commutative", (.pyBool true))],
    locals := [],
    defs := [],
    body := [
      .ifThen (.cmp .is (.var "parameters") .pyNone) [
        .assign "parameters" (.call (.glob .pyFrozenset) [])]
        [],
      .ifThen (.var "commutative") [
        .ret (.call (.call (.glob .distributeMapper) [(.call (.glob .termCollector) [(.var "parameters")])]) [(.var "expr")])]
        [
        .ret (.call (.call (.glob .distributeMapper) [.lambdaId]) [(.var "expr")])]] }

def c11Table : C11Table :=
  { flatten := c11Class_flatten, plainFolder := c11Class_plainFolder,
    commFolder := c11Class_commFolder, collector := c11Class_collector,
    distributor := c11Class_distributor,
    entries := [c11_entry_flatten, c11_entry_distribute],
    aliases := [("flatten", "pymbolic.mapper.flattener.flatten"), ("expand", "pymbolic.mapper.distributor.distribute"), ("distribute", "pymbolic.mapper.distributor.distribute")] }

end PV.C11Expected
