import PV.Proofs.SyntaxPostfix
/-
  C06.  The main lemma by induction on the size of the tree, and the statement for `parseTop`.
-/
namespace PV.Syntax
open PV

variable {P : ParserPrec} {S : PrintPrec}

/-! ### the main lemma -/

theorem main_lemma : ∀ (n : Nat) (t : Expr), t.size ≤ n → Printable P S t = true → Goal P S t := by
  intro n
  induction n with
  | zero =>
    intro t hsz
    cases t <;> simp [Expr.size] at hsz
  | succ n ih =>
    intro t hsz hp
    have hall : ∀ (pos : Pos) (ds : List Expr), PrintableAll P S pos ds = true →
        ∀ e ∈ ds, Printable P S e = true := by
      intro pos ds
      induction ds with
      | nil => intro _ e he; cases he
      | cons d ds ihd =>
        intro h e he
        simp only [PrintableAll, Bool.and_eq_true] at h
        rcases List.mem_cons.mp he with rfl | he
        · exact h.1.2
        · exact ihd h.2 e he
    match hv : infixOf t with
    | some (o, a, b) =>
      obtain ⟨_, _, hpr, hsa, hsb⟩ := infixOf_facts (P := P) (S := S) hv
      have hp' := hp
      rw [hpr] at hp'
      simp only [Bool.and_eq_true] at hp'
      exact infix_case hv hp (ih a (by omega) hp'.1.2) (ih b (by omega) hp'.2)
    | none =>
      cases t with
      | const c =>
        cases c with
        | int n => exact int_case n
        | bool b => exact bool_case b
        | flt r m d =>
          simp only [Printable, Option.isSome_iff_exists] at hp
          obtain ⟨k, hk⟩ := hp
          exact flt_case r m d hk
        | _ => simp [Printable] at hp
      | var x => exact var_case x
      | un o a =>
        have hpa : Printable P S a = true := by
          simp only [Printable, Bool.and_eq_true] at hp; exact hp.2
        exact un_case hp (ih a (by simp only [Expr.size] at hsz; omega) hpa)
      | ite c t e =>
        have hp' := hp
        simp only [Printable, Bool.and_eq_true] at hp'
        simp only [Expr.size] at hsz
        exact ite_case hp (ih c (by omega) hp'.1.1.2) (ih t (by omega) hp'.1.2) (ih e (by omega) hp'.2)
      | bin o a b => simp [infixOf] at hv
      | cmp o a b => simp [infixOf] at hv
      | nary o cs =>
        have hprod : ∀ (ds : List Expr), PrintableProd P S ds = true →
            ∀ e ∈ ds, Printable P S e = true := by
          intro ds
          induction ds with
          | nil => intro _ e he; cases he
          | cons d ds ihd =>
            intro h e he
            cases ds with
            | nil =>
              simp only [PrintableProd, Bool.and_eq_true] at h
              rcases List.mem_cons.mp he with rfl | he
              · exact h.2
              · cases he
            | cons d' ds' =>
              have h' : (okAt P S (.left .times) d && Printable P S d
                  && PrintableProd P S (d' :: ds')) = true := by simpa [PrintableProd] using h
              simp only [Bool.and_eq_true] at h'
              rcases List.mem_cons.mp he with rfl | he
              · exact h'.1.2
              · exact ihd h'.2 e he
        have hszc : ∀ e ∈ cs, e.size ≤ n := by
          intro e he
          have := size_lt_of_mem he
          simp only [Expr.size] at hsz; omega
        cases o with
        | sum =>
          match cs, hp, hszc with
          | c :: d :: cs', hp, hszc =>
            refine sum_case hp (fun e he => ih e (hszc e he) ?_)
            simp only [Printable, Bool.and_eq_true] at hp
            rcases List.mem_cons.mp he with rfl | he
            · exact hp.1.2
            · exact hall _ _ hp.2 e he
          | [], hp, _ => simp [Printable] at hp
          | [_], hp, _ => simp [Printable] at hp
        | prod =>
          match cs, hp, hszc with
          | c :: d :: cs', hp, hszc =>
            refine prod_case hp (fun e he => ih e (hszc e he) ?_)
            simp only [Printable, Bool.and_eq_true] at hp
            exact hprod _ hp.1 e he
          | [], hp, _ => simp [Printable] at hp
          | [_], hp, _ => simp [Printable] at hp
        | bor | bxor | band | lor | land | min | max =>
          match cs, hp, hv with
          | [a, b], hp, hv => simp [infixOf, Printable, naryInfix] at hv hp
          | [], hp, _ => simp [Printable] at hp
          | [_], hp, _ => simp [Printable] at hp
          | _ :: _ :: _ :: _, hp, _ => simp [Printable] at hp
      | lookup a nm =>
        have hpa : Printable P S a = true := by
          simp only [Printable, Bool.and_eq_true] at hp; exact hp.2
        exact lookup_case hp (ih a (by simp only [Expr.size] at hsz; omega) hpa)
      | subscript a i =>
        simp only [Expr.size] at hsz
        by_cases hi : ∀ cs, i ≠ .tuple cs
        · have hp' := hp
          rw [printable_subscript hi] at hp'
          simp only [Bool.and_eq_true] at hp'
          exact subscript_case hi hp (ih a (by omega) hp'.1.1.2) (ih i (by omega) hp'.2)
        · have : ∃ cs, i = .tuple cs := by
            cases i <;> first | exact ⟨_, rfl⟩ | exact absurd (by intro cs h; cases h) hi
          obtain ⟨cs, rfl⟩ := this
          match cs, hp, hsz with
          | c :: d :: cs', hp, hsz =>
            have hp' := hp
            simp only [Printable, Bool.and_eq_true] at hp'
            simp only [Expr.size, Expr.sizeL] at hsz
            refine subscript_tuple_case hp (ih a (by omega) hp'.1.1.1.1.2)
              (ih c (by omega) hp'.1.1.2) (fun e he => ih e ?_ (hall _ _ hp'.1.2 e he))
            have := size_lt_of_mem he
            simp only [Expr.sizeL] at this; omega
          | [], hp, _ => simp [Printable] at hp
          | [_], hp, _ => simp [Printable] at hp
      | call f as =>
        have hp' := hp
        simp only [Printable, Bool.and_eq_true] at hp'
        simp only [Expr.size] at hsz
        refine call_case hp (ih f (by omega) hp'.1.2) (fun e he => ih e ?_ (hall _ _ hp'.2 e he))
        have := size_lt_of_mem he; omega
      | callKw f as ns vs =>
        have hp' := hp
        simp only [Printable, Bool.and_eq_true] at hp'
        simp only [Expr.size] at hsz
        refine callKw_case hp (ih f (by omega) hp'.1.1.1.1.1.2)
          (fun e he => ih e ?_ (hall _ _ hp'.1.1.1.1.2 e he))
          (fun e he => ih e ?_ (hall _ _ hp'.1.1.1.2 e he))
        · have := size_lt_of_mem he; omega
        · have := size_lt_of_mem he; omega
      | tuple cs =>
        simp only [Expr.size] at hsz
        refine tuple_case hp (fun e he => ih e ?_ ?_)
        · have := size_lt_of_mem he; omega
        · match cs, hp, he with
          | c :: cs', hp, he =>
            simp only [Printable, Bool.and_eq_true] at hp
            rcases List.mem_cons.mp he with rfl | he
            · exact hp.1.1.2
            · exact hall _ _ hp.1.2 e he
      | list cs =>
        simp only [Expr.size] at hsz
        refine list_case hp (fun e he => ih e ?_ ?_)
        · have := size_lt_of_mem he; omega
        · match cs, hp, he with
          | [c], hp, he =>
            simp only [Printable, Bool.and_eq_true] at hp
            rcases List.mem_cons.mp he with rfl | he
            · exact hp.2
            · cases he
          | c :: d :: cs', hp, he =>
            simp only [Printable, Bool.and_eq_true] at hp
            rcases List.mem_cons.mp he with rfl | he
            · exact hp.1.1.2
            · exact hall _ _ hp.1.2 e he
      | slice cs =>
        simp only [Expr.size] at hsz
        match cs, hp, hsz with
        | c :: d :: cs', hp, hsz =>
          refine slice_case hp (fun e he hn => ih e ?_ ?_)
          · have := size_lt_of_mem he; omega
          · simp only [Printable] at hp
            exact printableSlice_mem hp e he hn
        | [], hp, _ => simp [Printable] at hp
        | [_], hp, _ => simp [Printable] at hp
      | _ => simp [Printable] at hp


/-- the printed form of a tree of the fragment parses (with the fuel of `parseTop`) to its
normal form -/
theorem parseTop_str {e : Expr} {ps : Pieces} (hp : Printable P S e = true)
    (htop : okAt P S .top e = true) (hs : strTop S e = .ok ps) :
    parseTop P 0 (toks ps) = .ok (pnf e) := by
  obtain ⟨k, hk, hok⟩ := okAt_iff htop
  have h := operand (pos := .top) (main_lemma e.size e (Nat.le_refl _) hp) hk hok
    hp hs (m := 0) (R := [])
    (by simp [Pos.lge]) not_absorbs_nil (PL_stop not_absorbs_nil)
  simp only [Pos.forces, wrapT, Bool.false_eq_true, if_false, List.append_nil] at h
  have h' := h (2 * (toks ps).length + 8) (by simp only [G]; omega)
  simp [parseTop, h', pure, Except.pure]

end PV.Syntax
