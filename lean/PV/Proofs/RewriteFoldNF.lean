import PV.Proofs.RewriteFold
import Mathlib.Data.List.Basic
set_option linter.unusedSimpArgs false
/-
  C11, part 4: "constant folding leaves at most one constant operand in each folded sum or
  product".
-/
namespace PV

/-! ### without nested sums the queue loop only drops operands -/

theorem flattenedSumLoop_sublist : ∀ (fuel : Nat) (queue done : List Expr),
    (∀ q ∈ queue, isSum q = false) → (flattenedSumLoop fuel queue done).Sublist (done ++ queue)
  | 0, _, _, _ => by simp [flattenedSumLoop]
  | _ + 1, [], _, _ => by simp [flattenedSumLoop]
  | fuel + 1, item :: queue, done, h => by
      have hq : ∀ q ∈ queue, isSum q = false := fun q hq => h q (by simp [hq])
      simp only [flattenedSumLoop]
      split
      · exact (flattenedSumLoop_sublist fuel queue done hq).trans
          (List.Sublist.append_left (List.sublist_cons_self _ _) _)
      · split
        · have := h _ (List.mem_cons_self)
          simp [isSum] at this
        · have := flattenedSumLoop_sublist fuel queue (done ++ [item]) hq
          simpa using this

theorem flattenedProductLoop_sublist : ∀ (fuel : Nat) (queue done xs : List Expr),
    (∀ q ∈ queue, isProdE q = false) → flattenedProductLoop fuel queue done = some xs →
    xs.Sublist (done ++ queue)
  | 0, _, _, _, _, h => by
      simp only [flattenedProductLoop, Option.some.injEq] at h; subst h; simp
  | _ + 1, [], _, _, _, h => by
      simp only [flattenedProductLoop, Option.some.injEq] at h; subst h; simp
  | fuel + 1, item :: queue, done, xs, h, hx => by
      have hq : ∀ q ∈ queue, isProdE q = false := fun q hq => h q (by simp [hq])
      simp only [flattenedProductLoop] at hx
      split at hx
      · contradiction
      · split at hx
        · exact (flattenedProductLoop_sublist fuel queue done xs hq hx).trans
            (List.Sublist.append_left (List.sublist_cons_self _ _) _)
        · split at hx
          · have := h _ (List.mem_cons_self)
            simp [isProdE] at this
          · have := flattenedProductLoop_sublist fuel queue (done ++ [item]) xs hq hx
            simpa using this

/-! ### what `fold` puts into `nonconstants` is never a numeric literal -/

theorem classify_const_not_nonconstant (c : Const) : classify (.const c) ≠ .ok .nonconstant := by
  intro h
  cases c <;> simp [classify, depsR, deps, bind, Except.bind, pure, Except.pure, throw, throwThe,
    MonadExceptOf.throw, RwErr.ofDep, evalG, withMemo, Expr.hasList, findBy, evalNode, EvM.lift,
    Const.den] at h

theorem classify_nonconstant_not_const {x : Expr} (h : classify x = .ok .nonconstant) :
    x.isConstant = false := by
  cases x <;> simp only [Expr.isConstant] <;> try rfl
  all_goals exact absurd h (classify_const_not_nonconstant _)

theorem isSum_false_of {x : Expr} (h : ∀ cs, x = .nary .sum cs → False) : isSum x = false := by
  cases x <;> simp only [isSum]

theorem isProdE_false_of {x : Expr} (h : ∀ cs, x = .nary .prod cs → False) :
    isProdE x = false := by
  cases x <;> simp only [isProdE]

/-- not a numeric literal and not of the class being folded -/
def nonOk (p : Bool) (x : Expr) : Bool := !x.isConstant && !(if p then isProdE x else isSum x)

theorem foldLoop_non {rec : Expr → RwR} (p : Bool) :
    ∀ (fuel : Nat) (queue : List Expr) (consts : List Value) (non : List Expr)
      (cs' : List Value) (ns' : List Expr),
      foldLoop rec p fuel queue consts non = .ok (cs', ns') →
      (∀ x ∈ non, nonOk p x = true) → ∀ x ∈ ns', nonOk p x = true
  | 0, _, _, _, _, _, h, _ => by simp [foldLoop, throw, throwThe, MonadExceptOf.throw] at h
  | fuel + 1, [], consts, non, cs', ns', h, hn => by
      simp only [foldLoop, pure, Except.pure] at h
      injection h with h; injection h with h1 h2; subst h1; subst h2; exact hn
  | fuel + 1, item :: queue, consts, non, cs', ns', h, hn => by
      simp only [foldLoop] at h
      obtain ⟨child, _, h⟩ := bind_ok h
      split at h
      · exact foldLoop_non false fuel _ consts non cs' ns' h hn
      · exact foldLoop_non true fuel _ consts non cs' ns' h hn
      · rename_i hns hnp
        obtain ⟨cl, hcl, h⟩ := bind_ok h
        cases cl with
        | constant w => exact foldLoop_non p fuel queue _ non cs' ns' h hn
        | nonconstant =>
          refine foldLoop_non p fuel queue consts _ cs' ns' h ?_
          intro x hx
          simp only [List.mem_append, List.mem_singleton] at hx
          rcases hx with hx | rfl
          · exact hn x hx
          · have h1 : x.isConstant = false := classify_nonconstant_not_const hcl
            have h2 : (if p then isProdE x else isSum x) = false := by
              cases p
              · simp only [Bool.false_eq_true, if_false]
                exact isSum_false_of fun cs hc => hns cs rfl hc
              · simp only [if_true]
                exact isProdE_false_of fun cs hc => hnp cs rfl hc
            simp [nonOk, h1, h2]

theorem countP_const_non (p : Bool) : ∀ (non : List Expr), (∀ x ∈ non, nonOk p x = true) →
    non.countP Expr.isConstant = 0
  | [], _ => rfl
  | x :: xs, h => by
      have hx := h x (by simp)
      simp only [nonOk, Bool.and_eq_true, Bool.not_eq_true'] at hx
      rw [List.countP_cons_of_neg (by simp [hx.1])]
      exact countP_const_non p xs fun y hy => h y (by simp [hy])

theorem value_toExpr_not_sum {v : Value} {k : Expr} (h : v.toExpr? = some k) :
    isSum k = false ∧ isProdE k = false := by
  cases v <;> simp only [Value.toExpr?] at h <;> try contradiction
  all_goals (injection h with h; subst h; exact ⟨rfl, rfl⟩)

/-- **At most one constant operand in a folded sum** (both folders). -/
theorem foldM_one_const_sum (comm : Bool) (fuel : Nat) (cs ds : List Expr)
    (h : foldM comm fuel (.nary .sum cs) = .ok (.nary .sum ds)) :
    ds.countP Expr.isConstant ≤ 1 := by
  cases fuel with
  | zero => simp [foldM, throw, throwThe, MonadExceptOf.throw] at h
  | succ fuel =>
    simp only [foldM] at h
    obtain ⟨⟨consts, non⟩, hl, h⟩ := bind_ok h
    have hnon := foldLoop_non false fuel cs [] [] consts non hl (by simp)
    have hcnt := countP_const_non false non hnon
    have hns : ∀ x ∈ non, isSum x = false := by
      intro x hx
      have := hnon x hx
      simp only [nonOk, Bool.false_eq_true, if_false, Bool.and_eq_true, Bool.not_eq_true'] at this
      exact this.2
    -- the result is `flattenedSum items` with `items = non` or `k :: non`, `k` a literal
    have key : ∀ items : List Expr, (∀ q ∈ items, isSum q = false) →
        items.countP Expr.isConstant ≤ 1 → flattenedSum items = .nary .sum ds →
        ds.countP Expr.isConstant ≤ 1 := by
      intro items hi hc hf
      have hsub := flattenedSumLoop_sublist (Expr.sizeL items + items.length + 1) items [] hi
      simp only [flattenedSum] at hf
      generalize flattenedSumLoop (Expr.sizeL items + items.length + 1) items [] = L at hf hsub
      rcases L with _ | ⟨x, _ | ⟨y, ys⟩⟩
      · simp [zero] at hf
      · simp only at hf
        have := hi x (by simpa using hsub.subset (List.mem_cons_self))
        rw [hf] at this; simp [isSum] at this
      · simp only [Expr.nary.injEq, true_and] at hf
        subst hf
        exact (hsub.countP_le (p := Expr.isConstant)).trans (by simpa using hc)
    unfold foldFinish at h
    cases consts with
    | nil =>
      simp only [Bool.false_eq_true, if_false, pure, Except.pure] at h
      injection h with h
      exact key non hns (by omega) h
    | cons w ws =>
      simp only [Bool.false_eq_true, if_false] at h
      cases hr : reduceConsts false w ws with
      | error err => rw [hr] at h; simp only [throw, throwThe, MonadExceptOf.throw] at h; cases h
      | ok v =>
        rw [hr] at h
        simp only at h
        cases hk : v.toExpr? with
        | none => rw [hk] at h; simp only [throw, throwThe, MonadExceptOf.throw] at h; cases h
        | some k =>
          rw [hk] at h
          simp only [pure, Except.pure] at h
          injection h with h
          refine key (k :: non) ?_ ?_ h
          · intro q hq
            simp only [List.mem_cons] at hq
            rcases hq with rfl | hq
            · exact (value_toExpr_not_sum hk).1
            · exact hns q hq
          · rw [List.countP_cons, hcnt]; split <;> omega

/-- **At most one constant operand in a folded product** (commutative folder). -/
theorem foldM_one_const_prod (fuel : Nat) (cs ds : List Expr)
    (h : foldM true fuel (.nary .prod cs) = .ok (.nary .prod ds)) :
    ds.countP Expr.isConstant ≤ 1 := by
  cases fuel with
  | zero => simp [foldM, throw, throwThe, MonadExceptOf.throw] at h
  | succ fuel =>
    simp only [foldM, if_true] at h
    obtain ⟨⟨consts, non⟩, hl, h⟩ := bind_ok h
    have hnon := foldLoop_non true fuel cs [] [] consts non hl (by simp)
    have hcnt := countP_const_non true non hnon
    have hns : ∀ x ∈ non, isProdE x = false := by
      intro x hx
      have := hnon x hx
      simp only [nonOk, if_true, Bool.and_eq_true, Bool.not_eq_true'] at this
      exact this.2
    have key : ∀ items : List Expr, (∀ q ∈ items, isProdE q = false) →
        items.countP Expr.isConstant ≤ 1 → flatProd items = .ok (.nary .prod ds) →
        ds.countP Expr.isConstant ≤ 1 := by
      intro items hi hc hf
      simp only [flatProd] at hf
      split at hf
      · cases hf
      · simp only [pure, Except.pure] at hf
        injection hf with hf
        have hsub := flattenedProductLoop_sublist (Expr.sizeL items + items.length + 1) items []
        simp only [flattenedProduct] at hf
        generalize flattenedProductLoop (Expr.sizeL items + items.length + 1) items [] = L
          at hf hsub
        rcases L with _ | _ | ⟨x, _ | ⟨y, ys⟩⟩
        · simp [zero] at hf
        · simp [one] at hf
        · simp only at hf
          have := hi x (by simpa using (hsub _ hi rfl).subset (List.mem_cons_self))
          rw [hf] at this; simp [isProdE] at this
        · simp only [Expr.nary.injEq, true_and] at hf
          subst hf
          exact ((hsub _ hi rfl).countP_le (p := Expr.isConstant)).trans (by simpa using hc)
    unfold foldFinish at h
    cases consts with
    | nil =>
      simp only [if_true] at h
      exact key non hns (by omega) h
    | cons w ws =>
      simp only [if_true] at h
      cases hr : reduceConsts true w ws with
      | error err => rw [hr] at h; simp only [throw, throwThe, MonadExceptOf.throw] at h; cases h
      | ok v =>
        rw [hr] at h
        simp only at h
        cases hk : v.toExpr? with
        | none => rw [hk] at h; simp only [throw, throwThe, MonadExceptOf.throw] at h; cases h
        | some k =>
          rw [hk] at h
          simp only at h
          refine key (k :: non) ?_ ?_ h
          · intro q hq
            simp only [List.mem_cons] at hq
            rcases hq with rfl | hq
            · exact (value_toExpr_not_sum hk).2
            · exact hns q hq
          · rw [List.countP_cons, hcnt]; split <;> omega

end PV
