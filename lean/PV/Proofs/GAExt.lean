import PV.Proofs.GAMV
/-
  C18 — proofs about the model `PV/Model/GA.lean`, part 4: the unary operations and the
  operations built on the products — `norm_squared`, `inv`, `dual`, `I`, grade projections,
  `as_scalar`, `gen_blades` — over any commutative ring of coefficients.
-/
namespace PV.GA

/-! ## more bit-level facts -/

theorem pc_le_of_lt : ∀ (n k : Nat), k < 2 ^ n → pc k ≤ n := by
  intro n
  induction n with
  | zero => intro k h; have : k = 0 := by simpa using h
            subst this; simp
  | succ n ih =>
    intro k h
    rw [pc_eq]
    have := ih (k / 2) (by rw [Nat.pow_succ] at h; omega)
    omega

/-- the only bitmap below `2^n` with `n` set bits is the pseudoscalar `2^n - 1` -/
theorem eq_full_of_pc : ∀ (n k : Nat), k < 2 ^ n → pc k = n → k = 2 ^ n - 1 := by
  intro n
  induction n with
  | zero => intro k h _; have : k = 0 := by simpa using h
            subst this; simp
  | succ n ih =>
    intro k h hp
    rw [pc_eq] at hp
    have hk2 : k / 2 < 2 ^ n := by rw [Nat.pow_succ] at h; omega
    have hle := pc_le_of_lt n (k / 2) hk2
    have h1 : k % 2 = 1 := by omega
    have h2 := ih (k / 2) hk2 (by omega)
    have hpos : 0 < 2 ^ n := Nat.two_pow_pos n
    rw [Nat.pow_succ]; omega

theorem pc_full : ∀ n, pc (2 ^ n - 1) = n := by
  intro n
  induction n with
  | zero => simp
  | succ n ih =>
    have hpos : 0 < 2 ^ n := Nat.two_pow_pos n
    rw [pc_eq]
    have h1 : (2 ^ (n + 1) - 1) % 2 = 1 := by rw [Nat.pow_succ]; omega
    have h2 : (2 ^ (n + 1) - 1) / 2 = 2 ^ n - 1 := by rw [Nat.pow_succ]; omega
    rw [h1, h2, ih]; omega

/-- a grade-1 bitmap is a single basis vector -/
theorem exists_two_pow_of_pc_one : ∀ a, pc a = 1 → ∃ i, a = 2 ^ i := by
  intro a
  induction a using Nat.strongRecOn with
  | _ a ih =>
    intro h
    rw [pc_eq] at h
    rcases Nat.mod_two_eq_zero_or_one a with h1 | h1
    · have ha : a ≠ 0 := by intro e; subst e; simp at h
      obtain ⟨i, hi⟩ := ih (a / 2) (by omega) (by omega)
      exact ⟨i + 1, by rw [Nat.pow_succ]; omega⟩
    · have : pc (a / 2) = 0 := by omega
      have := (pc_eq_zero_iff _).1 this
      exact ⟨0, by omega⟩

theorem and_full_of_lt {n k : Nat} (h : k < 2 ^ n) : k &&& (2 ^ n - 1) = k := by
  rw [Nat.and_two_pow_sub_one_eq_mod, Nat.mod_eq_of_lt h]

/-- `k ⊆ f` implies `f \ k ⊆ f` -/
theorem xor_and_of_subset {k f : Nat} (h : k &&& f = k) : (k ^^^ f) &&& f = k ^^^ f := by
  apply Nat.eq_of_testBit_eq
  intro i
  have hi := congrArg (fun x => x.testBit i) h
  simp only [Nat.testBit_and] at hi
  simp only [Nat.testBit_and, Nat.testBit_xor]
  cases hk : k.testBit i <;> cases hf : f.testBit i <;> simp_all

theorem reorderSign_zero_right (a : Nat) : reorderSign a 0 = 1 := by
  rw [reorderSign_eq_sgn, reorderSignExp_zero_right]; rfl

theorem reorderSign_zero_left (a : Nat) : reorderSign 0 a = 1 := by
  rw [reorderSign_eq_sgn, reorderSignExp_zero_left]; rfl

theorem revSign_full (n : Nat) :
    revSign (2 ^ n - 1) = if n * (n - 1) / 2 % 2 = 0 then 1 else -1 := by
  unfold revSign
  simp only [bitCount_eq_popcount, pc_full]

theorem revSign_of_pc_le_one {a : Nat} (h : pc a ≤ 1) : revSign a = 1 := by
  unfold revSign
  simp only [bitCount_eq_popcount]
  have : pc a * (pc a - 1) / 2 = 0 := by
    rcases Nat.le_one_iff_eq_zero_or_eq_one.1 h with e | e <;> simp [e]
  simp [this]

section Monoid
variable {R : Type} [CommMonoid R] (g : Nat → R)

theorem prodBits_zero : prodBits g 0 = 1 := by simp [prodBits]

theorem prodFrom_full : ∀ (n i : Nat),
    prodFrom g i (2 ^ n - 1) = ((List.range n).map fun j => g (i + j)).prod := by
  intro n
  induction n with
  | zero => intro i; simp
  | succ n ih =>
    intro i
    have hpos : 0 < 2 ^ n := Nat.two_pow_pos n
    have h1 : (2 ^ (n + 1) - 1) % 2 = 1 := by rw [Nat.pow_succ]; omega
    have h2 : (2 ^ (n + 1) - 1) / 2 = 2 ^ n - 1 := by rw [Nat.pow_succ]; omega
    rw [prodFrom_eq, h1, h2, ih (i + 1), List.range_succ_eq_map, List.map_cons, List.prod_cons,
      List.map_map]
    simp only [↓reduceIte, Nat.add_zero]
    congr 2
    apply List.map_congr_left
    intro j _
    simp only [Function.comp, Nat.succ_eq_add_one]
    congr 1; omega

/-- the metric weight of the pseudoscalar is the determinant of the diagonal metric -/
theorem prodBits_full (n : Nat) : prodBits g (2 ^ n - 1) = ((List.range n).map g).prod := by
  unfold prodBits
  rw [prodFrom_full]
  simp

/-- `g(k) · g(f \ k) = g(f)` for `k ⊆ f` -/
theorem prodBits_split {k f : Nat} (h : k &&& f = k) :
    prodBits g k * prodBits g (k ^^^ f) = prodBits g f := by
  have := prodBits_cocycle g k f f
  rw [h, xor_and_of_subset h, Nat.and_self, Nat.xor_self, Nat.and_zero, prodBits_zero,
    mul_one] at this
  exact this

end Monoid

section Ring
variable {R : Type} [CommRing R]

theorem reorderSignR_zero_right (a : Nat) : (reorderSignR a 0 : R) = 1 := by
  rw [reorderSignR_eq_cast, reorderSign_zero_right]; simp

theorem reorderSignR_zero_left (a : Nat) : (reorderSignR 0 a : R) = 1 := by
  rw [reorderSignR_eq_cast, reorderSign_zero_left]; simp

theorem reorderSignR_self (a : Nat) : (reorderSignR a a : R) = ((revSign a : Int) : R) := by
  rw [reorderSignR_eq_cast, revSign_eq_reorderSign_self]

/-! ## (e) basis vectors at multivector level -/

/-- (e) `e_i * e_i = g i` as computed by `MultiVector.__mul__` (a zero metric entry gives the
    empty dict) -/
theorem basis_square_mv [DecidableEq R] (g : Nat → R) (i : Nat) :
    mvMul g [(2 ^ i, 1)] [(2 ^ i, 1)] = if g i = 0 then [] else [(0, g i)] := by
  unfold mvMul
  rw [genericProduct_blades, wGeometric_basis_self, reorderSignR_eq_cast, (basis_square_sign i).1,
    Nat.xor_self]
  simp

/-- (e) `e_i * e_j = -(e_j * e_i)` for `i ≠ j` as computed by `MultiVector.__mul__`, and the
    product is the single blade `e_i ∧ e_j` with coefficient `±1` -/
theorem basis_anticommute_mv [DecidableEq R] [Nontrivial R] (g : Nat → R) {i j : Nat}
    (h : i ≠ j) :
    mvMul g [(2 ^ i, 1)] [(2 ^ j, 1)] = [(2 ^ i ^^^ 2 ^ j, reorderSignR (2 ^ i) (2 ^ j))]
    ∧ mvMul g [(2 ^ i, 1)] [(2 ^ j, 1)] = mvNeg (mvMul g [(2 ^ j, 1)] [(2 ^ i, 1)]) := by
  unfold mvMul
  rw [genericProduct_blades, genericProduct_blades, wGeometric_basis_ne g h,
    wGeometric_basis_ne g (Ne.symm h)]
  have hs : ∀ a b : Nat, (reorderSignR a b : R) ≠ 0 := by
    intro a b h0
    have := reorderSignR_mul_self (R := R) a b
    rw [h0] at this; simp at this
  have hneg : (reorderSignR (2 ^ i) (2 ^ j) : R) = - reorderSignR (2 ^ j) (2 ^ i) := by
    simp only [reorderSignR_eq_cast, basis_anticommute_sign h, Int.cast_neg]
  simp [hs, mvNeg, Nat.xor_comm, hneg]

/-! ## `as_scalar` -/

/-- `as_scalar` of a dict whose only possible key is `0` returns its scalar coefficient -/
theorem asScalar_eq_coeff_zero {d : MVOf R} (hd : NodupKeys d) (h : ∀ k ∈ keys d, k = 0) :
    asScalar d = some (coeff d 0) := by
  match d, hd, h with
  | [], _, _ => rfl
  | [(k, v)], _, h =>
    have : k = 0 := h k (by simp)
    subst this
    simp [asScalar, coeff, dictGet]
  | (k1, v1) :: (k2, v2) :: rest, hd, h =>
    exfalso
    have e1 : k1 = 0 := h k1 (by simp)
    have e2 : k2 = 0 := h k2 (by simp)
    unfold NodupKeys at hd
    simp [e1, e2] at hd

omit [CommRing R] in
theorem asScalar_foldl_none (d : MVOf R) :
    d.foldl (fun r (p : Nat × R) => r.bind fun _ => if p.1 ≠ 0 then none else some p.2) none
      = none := by
  induction d with
  | nil => rfl
  | cons p d ih => simpa using ih

/-- `as_scalar` raises exactly when some stored key is not the scalar blade -/
theorem asScalar_eq_none_iff (d : MVOf R) : asScalar d = none ↔ ∃ k ∈ keys d, k ≠ 0 := by
  unfold asScalar
  suffices H : ∀ (r : R), d.foldl (fun r (p : Nat × R) =>
      r.bind fun _ => if p.1 ≠ 0 then none else some p.2) (some r) = none ↔ ∃ k ∈ keys d, k ≠ 0 from
    H 0
  induction d with
  | nil => intro r; simp
  | cons p d ih =>
    intro r
    obtain ⟨k, v⟩ := p
    simp only [List.foldl_cons, Option.bind_some, keys_cons, List.mem_cons, exists_eq_or_imp]
    by_cases hk : k = 0
    · subst hk; simp only [ne_eq, not_true_eq_false, ↓reduceIte, false_or]; exact ih v
    · simp only [ne_eq, hk, not_false_eq_true, ↓reduceIte, true_or, iff_true]
      exact asScalar_foldl_none d

/-! ## `scalar_product` and `norm_squared` -/

theorem wScalar_ne (g : Nat → R) {a b : Nat} (h : a ≠ b) : wScalar g a b = 0 := by
  simp [wScalar, h]

theorem wScalar_self (g : Nat → R) (a : Nat) : wScalar g a a = prodBits g a := by
  simp [wScalar, sharedMetricCoeff_eq_prodBits]

theorem wGeometric_self (g : Nat → R) (a : Nat) : wGeometric g a a = prodBits g a := by
  rw [wGeometric_eq_prodBits, Nat.and_self]

/-- the scalar product only has a scalar coefficient -/
theorem coeff_scalarProduct_ne {z : R → Bool} (hz : ZSound z) (g : Nat → R) (a b : MVOf R)
    {k : Nat} (hk : k ≠ 0) : coeff (genericProductZ z (wScalar g) a b) k = 0 := by
  rw [coeff_genericProductZ hz]
  apply lsum_eq_zero; intro s _
  apply lsum_eq_zero; intro o _
  split
  · next h =>
    have : s.1 ≠ o.1 := by
      intro e; rw [e, Nat.xor_self] at h; exact hk h.symm
    rw [wScalar_ne g this]; ring
  · rfl

/-- `scalar_product` never raises and returns the scalar coefficient of the `_ScalarProduct`
    (needs a sound and complete zero test: an unrecognised zero weight would be stored under a
    non-scalar key and make `as_scalar` raise) -/
theorem scalarProductZ_eq {z : R → Bool} (hz : ZSound z) (hc : ZComplete z) (g : Nat → R)
    (a b : MVOf R) :
    scalarProductZ z g a b = some (coeff (genericProductZ z (wScalar g) a b) 0) := by
  unfold scalarProductZ
  have hp := genericProductZ_pruned hc (wScalar g) a b
  apply asScalar_eq_coeff_zero hp.1
  intro k hk
  by_contra hne
  exact (mem_keys_iff_coeff_ne_zero hp k).1 hk (coeff_scalarProduct_ne hz g a b hne)

/-- the scalar product is the grade-0 part of the geometric product -/
theorem coeff_scalar_eq_geometric {z : R → Bool} (hz : ZSound z) (g : Nat → R) (a b : MVOf R) :
    coeff (genericProductZ z (wScalar g) a b) 0
      = coeff (genericProductZ z (wGeometric g) a b) 0 := by
  rw [coeff_genericProductZ hz, coeff_genericProductZ hz]
  apply lsum_congr; intro s _
  apply lsum_congr; intro o _
  split
  · next h =>
    have : s.1 = o.1 := (xor_eq_zero_iff _ _).1 h
    rw [this, wScalar_self, wGeometric_self]
  · rfl

/-- `rev(a) * a` has the scalar coefficient `Σ_k g(k) a_k²` (`g(k)` = product of the metric entries
    of the factors of blade `k`) -/
theorem coeff_rev_scalar_self {z : R → Bool} (hz : ZSound z) (g : Nat → R) {a : MVOf R}
    (ha : NodupKeys a) :
    coeff (genericProductZ z (wScalar g) (rev a) a) 0
      = lsum (fun p => prodBits g p.1 * p.2 * p.2) a := by
  rw [coeff_genericProductZ hz, rev_eq_map, lsum_map]
  apply lsum_congr; intro s hs
  simp only
  have hcs : coeff a s.1 = s.2 := coeff_of_mem ha (by cases s; exact hs)
  have := lsum_key_ind ha s.1
    (fun x => prodBits g s.1 * (((revSign s.1 : Int) : R) * ((revSign s.1 : Int) : R)) * s.2 * x)
    (by ring)
  rw [hcs, revSignR_mul_self] at this
  rw [show prodBits g s.1 * s.2 * s.2 = prodBits g s.1 * 1 * s.2 * s.2 by ring, ← this]
  apply lsum_congr; intro o _
  by_cases h : o.1 = s.1
  · have hx : s.1 ^^^ o.1 = 0 := by rw [h, Nat.xor_self]
    rw [if_pos hx, if_pos h, h, wScalar_self, reorderSignR_self]
    linear_combination (prodBits g s.1 * s.2 * o.2) * revSignR_mul_self (R := R) s.1
  · have hx : s.1 ^^^ o.1 ≠ 0 := fun e => h ((xor_eq_zero_iff _ _).1 e).symm
    rw [if_neg hx, if_neg h]

/-- `norm_squared` of any multivector: never raises, equals `Σ_k g(k) a_k²` -/
theorem normSquaredZ_eq {z : R → Bool} (hz : ZSound z) (hc : ZComplete z) (g : Nat → R)
    {a : MVOf R} (ha : NodupKeys a) :
    normSquaredZ z g a = some (lsum (fun p => prodBits g p.1 * p.2 * p.2) a) := by
  unfold normSquaredZ
  rw [scalarProductZ_eq hz hc, coeff_rev_scalar_self hz g ha]

theorem normSquaredZ_blade {z : R → Bool} (hz : ZSound z) (hc : ZComplete z) (g : Nat → R)
    (bits : Nat) (c : R) :
    normSquaredZ z g [(bits, c)] = some (sharedMetricCoeff g bits * c * c) := by
  rw [normSquaredZ_eq hz hc g (by simp [NodupKeys]), sharedMetricCoeff_eq_prodBits]
  simp [lsum]


/-! ## `inv` -/

/-- a double sum over a dict whose off-diagonal terms cancel in pairs is the sum of its diagonal
    (no division by 2: valid in every characteristic) -/
theorem lsum_antisymm (f : Nat × R → Nat × R → R) : ∀ {d : MVOf R}, NodupKeys d →
    (∀ s ∈ d, ∀ o ∈ d, s.1 ≠ o.1 → f s o + f o s = 0) →
    lsum (fun s => lsum (fun o => f s o) d) d = lsum (fun s => f s s) d := by
  intro d
  induction d with
  | nil => intro _ _; rfl
  | cons x xs ih =>
    intro hd h
    unfold NodupKeys at hd
    simp only [keys_cons, List.nodup_cons] at hd
    have ih' := ih hd.2 (fun s hs o ho => h s (List.mem_cons_of_mem _ hs) o
      (List.mem_cons_of_mem _ ho))
    have hcross : lsum (fun o => f x o + f o x) xs = 0 := by
      apply lsum_eq_zero
      intro o ho
      apply h x List.mem_cons_self o (List.mem_cons_of_mem _ ho)
      intro e
      exact hd.1 (e ▸ List.mem_map.2 ⟨o, ho, rfl⟩)
    rw [lsum_add] at hcross
    simp only [lsum]
    rw [lsum_add, ih']
    linear_combination hcross

omit [CommRing R] in
/-- all keys have grade `gr` -/
theorem getPureGrade_some {a : MVOf R} {gr : Nat} (h : getPureGrade a = some gr) (hne : a ≠ []) :
    ∀ k ∈ keys a, bitCount k = gr := by
  match a, hne with
  | (bits, c) :: rest, _ =>
    simp only [getPureGrade] at h
    split at h
    · next hall =>
      injection h with h
      intro k hk
      simp only [keys_cons, List.mem_cons] at hk
      rcases hk with hk | hk
      · rw [hk]; exact h
      · obtain ⟨v, hv⟩ := mem_keys_iff_exists.1 hk
        have := (List.all_eq_true.1 hall) (k, v) hv
        simp only [decide_eq_true_eq] at this
        rw [this]; exact h
    · cases h

/-- the square of a vector (all keys of grade 1) is the scalar `Σ g_i a_i²` -/
theorem coeff_vector_sq {z : R → Bool} (hz : ZSound z) (g : Nat → R) {a : MVOf R}
    (ha : NodupKeys a) (h1 : ∀ k ∈ keys a, pc k = 1) (k : Nat) :
    coeff (genericProductZ z (wGeometric g) a a) k
      = if k = 0 then lsum (fun p => prodBits g p.1 * p.2 * p.2) a else 0 := by
  rw [coeff_genericProductZ hz]
  rw [lsum_antisymm (fun s o => if s.1 ^^^ o.1 = k
    then wGeometric g s.1 o.1 * reorderSignR s.1 o.1 * s.2 * o.2 else 0) ha]
  · by_cases hk : k = 0
    · subst hk
      simp only [Nat.xor_self, ↓reduceIte]
      apply lsum_congr; intro s hs
      have h1s := h1 s.1 (List.mem_map.2 ⟨s, hs, rfl⟩)
      rw [wGeometric_self, reorderSignR_self, revSign_of_pc_le_one (by omega)]
      simp
    · rw [if_neg hk]
      apply lsum_eq_zero; intro s _
      rw [Nat.xor_self, if_neg (fun e => hk e.symm)]
  · intro s hs o ho hne
    obtain ⟨i, hi⟩ := exists_two_pow_of_pc_one _ (h1 s.1 (List.mem_map.2 ⟨s, hs, rfl⟩))
    obtain ⟨j, hj⟩ := exists_two_pow_of_pc_one _ (h1 o.1 (List.mem_map.2 ⟨o, ho, rfl⟩))
    have hij : i ≠ j := by intro e; apply hne; rw [hi, hj, e]
    rw [Nat.xor_comm o.1 s.1, hi, hj, wGeometric_basis_ne g hij,
      wGeometric_basis_ne g (Ne.symm hij), reorderSignR_eq_cast, reorderSignR_eq_cast,
      basis_anticommute_sign hij]
    split
    · simp only [Int.cast_neg]; ring
    · simp

variable [DecidableEq R]

theorem normSquared_eq (g : Nat → R) {a : MVOf R} (ha : NodupKeys a) :
    normSquared g a = some (lsum (fun p => prodBits g p.1 * p.2 * p.2) a) :=
  normSquaredZ_eq isZeroD_sound isZeroD_complete g ha

theorem normSquared_blade (g : Nat → R) (bits : Nat) (c : R) :
    normSquared g [(bits, c)] = some (sharedMetricCoeff g bits * c * c) :=
  normSquaredZ_blade isZeroD_sound isZeroD_complete g bits c

theorem genericProduct_pruned (w : Nat → Nat → R) (a b : MVOf R) :
    Pruned (genericProduct w a b) := genericProductZ_pruned isZeroD_complete w a b

theorem coeff_genericProduct (w : Nat → Nat → R) (a b : MVOf R) (k : Nat) :
    coeff (genericProduct w a b) k
      = lsum (fun s => lsum (fun o =>
          if s.1 ^^^ o.1 = k then w s.1 o.1 * reorderSignR s.1 o.1 * s.2 * o.2 else 0) b) a :=
  coeff_genericProductZ isZeroD_sound w a b k

/-- `MultiVector.inv` of a one-term multivector `{bits: c}`, in closed form -/
theorem inv_blade_eq (g : Nat → R) (dims bits : Nat) (c : R) :
    inv g dims [(bits, c)] =
      if sharedMetricCoeff g bits * c * c = 0 then .zeroDivision
      else .ok [(bits, ((revSign bits : Int) : R) * c)] (sharedMetricCoeff g bits * c * c) := by
  unfold inv invZ
  rw [normSquaredZ_blade isZeroD_sound isZeroD_complete]
  simp only [isZeroD, decide_eq_true_eq]
  split
  · rfl
  · congr 2
    unfold revSign
    simp only
    split <;> simp_all

omit [DecidableEq R] in
/-- the scalar `x` as a coefficient function -/
theorem coeff_scalar_blade (x : R) (k : Nat) : coeff [(0, x)] k = if k = 0 then x else 0 := by
  rw [coeff_cons]; simp [eq_comm]

/-- `blade_inv`: whenever `inv` succeeds on a blade, the result `numer / denom` is a two-sided
    inverse for the geometric product: `A * numer == denom == numer * A`, `denom ≠ 0` -/
theorem blade_inv (g : Nat → R) (dims bits : Nat) (c : R) (numer : MVOf R) (denom : R)
    (h : inv g dims [(bits, c)] = .ok numer denom) :
    denom ≠ 0 ∧ denom = sharedMetricCoeff g bits * c * c ∧
    mvMul g [(bits, c)] numer = [(0, denom)] ∧ mvMul g numer [(bits, c)] = [(0, denom)] := by
  rw [inv_blade_eq] at h
  split at h
  · cases h
  · next hne =>
    injection h with h1 h2
    subst h1 h2
    have hw : sharedMetricCoeff g bits ≠ 0 := by
      intro e; rw [e] at hne; simp at hne
    refine ⟨hne, rfl, ?_, ?_⟩
    · unfold mvMul
      rw [genericProduct_blades, wGeometric_eq_smc, Nat.and_self, Nat.xor_self, reorderSignR_self]
      have hv : sharedMetricCoeff g bits * ((revSign bits : Int) : R) * c
            * (((revSign bits : Int) : R) * c) = sharedMetricCoeff g bits * c * c := by
        linear_combination (sharedMetricCoeff g bits * c * c) * revSignR_mul_self (R := R) bits
      rw [hv]
      simp [hw, hne]
    · unfold mvMul
      rw [genericProduct_blades, wGeometric_eq_smc, Nat.and_self, Nat.xor_self, reorderSignR_self]
      have hv : sharedMetricCoeff g bits * ((revSign bits : Int) : R)
            * (((revSign bits : Int) : R) * c) * c = sharedMetricCoeff g bits * c * c := by
        linear_combination (sharedMetricCoeff g bits * c * c) * revSignR_mul_self (R := R) bits
      rw [hv]
      simp [hw, hne]

/-- the exact domain of `MultiVector.inv`, and the defining identity on it:
    whenever `inv` returns (`numer / denom`) on a well-formed dict (distinct keys, all below
    `2^dims`), `denom = norm_squared ≠ 0` and `numer * A = denom = A * numer` coefficient-wise -/
theorem inv_mul_self (g : Nat → R) (dims : Nat) {a : MVOf R} (numer : MVOf R) (denom : R)
    (ha : NodupKeys a) (hr : ∀ k ∈ keys a, k < 2 ^ dims)
    (h : inv g dims a = .ok numer denom) :
    denom ≠ 0 ∧ normSquared g a = some denom ∧ NodupKeys numer ∧
    (∀ k, coeff (mvMul g numer a) k = if k = 0 then denom else 0) ∧
    (∀ k, coeff (mvMul g a numer) k = if k = 0 then denom else 0) := by
  match a, ha, hr, h with
  | [], _, _, h =>
    unfold inv invZ at h
    cases hn : normSquaredZ isZeroD g ([] : MVOf R) <;> simp [hn] at h
  | [(bits, c)], _, _, h =>
    obtain ⟨h1, h2, h3, h4⟩ := blade_inv g dims bits c numer denom h
    have hnum : NodupKeys numer := by
      rw [inv_blade_eq] at h
      split at h
      · cases h
      · injection h with e1 e2; subst e1; simp [NodupKeys]
    refine ⟨h1, by rw [normSquared_blade, h2], hnum, fun k => ?_, fun k => ?_⟩
    · rw [h4, coeff_scalar_blade]
    · rw [h3, coeff_scalar_blade]
  | p :: q :: rest, ha, hr, h =>
    have hns := normSquared_eq g ha
    unfold inv invZ at h
    unfold normSquared at hns
    rw [hns] at h
    simp only at h
    cases hpg : getPureGrade (p :: q :: rest) with
    | none => simp [hpg] at h
    | some gr =>
      simp only [hpg] at h
      split at h
      · next hgr =>
        split at h
        · cases h
        · next hnz =>
          injection h with e1 e2
          subst e1
          have hne : denom ≠ 0 := by
            intro e; apply hnz; rw [e2, e]; simp [isZeroD]
          have hall := getPureGrade_some hpg (by simp)
          simp only [bitCount_eq_popcount] at hall
          -- the keys are distinct
          have hk12 : p.1 ≠ q.1 := by
            unfold NodupKeys at ha
            simp only [keys_cons, List.nodup_cons, List.mem_cons, not_or] at ha
            exact ha.1.1
          have hp := hall p.1 (by simp)
          have hq := hall q.1 (by simp)
          have hgr1 : gr = 1 := by
            rcases hgr with e | e | e
            · exfalso; subst e
              exact hk12 (((pc_eq_zero_iff _).1 hp).trans ((pc_eq_zero_iff _).1 hq).symm)
            · exact e
            · exfalso; subst e
              have e1 := eq_full_of_pc gr p.1 (hr p.1 (by simp)) hp
              have e2 := eq_full_of_pc gr q.1 (hr q.1 (by simp)) hq
              exact hk12 (e1.trans e2.symm)
          subst hgr1
          have hsq := coeff_vector_sq isZeroD_sound g ha hall
          refine ⟨hne, by unfold normSquared; rw [hns, e2], ha, fun k => ?_, fun k => ?_⟩
          · rw [← e2]; exact hsq k
          · rw [← e2]; exact hsq k
      · cases h

omit [CommRing R] [DecidableEq R] in
/-- among well-formed dicts with at least two items, a single grade 0, 1 or `dims` can only be
    grade 1 (there is one scalar blade and one pseudoscalar blade) -/
theorem pure_grade_multi {dims gr : Nat} {p q : Nat × R} {rest : MVOf R}
    (ha : NodupKeys (p :: q :: rest)) (hr : ∀ k ∈ keys (p :: q :: rest), k < 2 ^ dims)
    (hall : ∀ k ∈ keys (p :: q :: rest), pc k = gr) (hgr : gr = 0 ∨ gr = 1 ∨ gr = dims) :
    gr = 1 := by
  have hk12 : p.1 ≠ q.1 := by
    unfold NodupKeys at ha
    simp only [keys_cons, List.nodup_cons, List.mem_cons, not_or] at ha
    exact ha.1.1
  have hp := hall p.1 (by simp)
  have hq := hall q.1 (by simp)
  rcases hgr with e | e | e
  · exfalso; subst e
    exact hk12 (((pc_eq_zero_iff _).1 hp).trans ((pc_eq_zero_iff _).1 hq).symm)
  · exact e
  · exfalso; subst e
    have e1 := eq_full_of_pc gr p.1 (hr p.1 (by simp)) hp
    have e2 := eq_full_of_pc gr q.1 (hr q.1 (by simp)) hq
    exact hk12 (e1.trans e2.symm)

omit [CommRing R] [DecidableEq R] in
theorem getPureGrade_of_all {a : MVOf R} {gr : Nat} (hne : a ≠ [])
    (h : ∀ k ∈ keys a, bitCount k = gr) : getPureGrade a = some gr := by
  match a, hne with
  | (bits, c) :: rest, _ =>
    have hb : bitCount bits = gr := h bits (by simp)
    simp only [getPureGrade]
    rw [if_pos]
    · rw [hb]
    · rw [List.all_eq_true]
      rintro ⟨k, v⟩ hv
      simp only [decide_eq_true_eq]
      rw [hb]
      exact h k (List.mem_cons_of_mem _ (mem_keys_iff_exists.2 ⟨v, hv⟩))

/-- the exact domain of `MultiVector.inv` on well-formed dicts: it returns iff norm² is non-zero
    and the dict has exactly one item, or at least two items that are all basis VECTORS (grade 1);
    everything else raises (`ZeroDivisionError` for zero norm², `NotImplementedError` otherwise) -/
theorem inv_ok_iff (g : Nat → R) (dims : Nat) {a : MVOf R}
    (ha : NodupKeys a) (hr : ∀ k ∈ keys a, k < 2 ^ dims) :
    (∃ numer denom, inv g dims a = .ok numer denom) ↔
      (∃ q, normSquared g a = some q ∧ q ≠ 0)
      ∧ (a.length = 1 ∨ (2 ≤ a.length ∧ ∀ k ∈ keys a, bitCount k = 1)) := by
  constructor
  · rintro ⟨numer, denom, h⟩
    obtain ⟨h1, h2, _, _, _⟩ := inv_mul_self g dims numer denom ha hr h
    refine ⟨⟨denom, h2, h1⟩, ?_⟩
    match a, ha, hr, h with
    | [], _, _, h =>
      unfold inv invZ at h
      cases hn : normSquaredZ isZeroD g ([] : MVOf R) <;> simp [hn] at h
    | [_], _, _, _ => left; rfl
    | p :: q :: rest, ha, hr, h =>
      right
      refine ⟨by simp, ?_⟩
      have hns := normSquared_eq g ha
      unfold inv invZ at h
      unfold normSquared at hns
      rw [hns] at h
      simp only at h
      cases hpg : getPureGrade (p :: q :: rest) with
      | none => simp [hpg] at h
      | some gr =>
        simp only [hpg] at h
        split at h
        · next hgr =>
          have hall := getPureGrade_some hpg (by simp)
          have hall' : ∀ k ∈ keys (p :: q :: rest), pc k = gr := by
            intro k hk; rw [← bitCount_eq_popcount]; exact hall k hk
          have := pure_grade_multi ha hr hall' hgr
          subst this
          exact hall
        · cases h
  · rintro ⟨⟨q, hq, hq0⟩, hshape⟩
    match a, ha, hshape, hq with
    | [], _, hshape, _ => simp at hshape
    | [(bits, c)], _, _, hq =>
      rw [normSquared_blade] at hq
      injection hq with hq
      rw [inv_blade_eq, if_neg (by rw [hq]; exact hq0)]
      exact ⟨_, _, rfl⟩
    | p :: q' :: rest, ha, hshape, hq =>
      have hall : ∀ k ∈ keys (p :: q' :: rest), bitCount k = 1 := by
        rcases hshape with h | h
        · simp at h
        · exact h.2
      have hpg := getPureGrade_of_all (gr := 1) (by simp) hall
      unfold normSquared at hq
      unfold inv invZ
      rw [hq]
      simp only [hpg]
      have hnz : ¬ isZeroD q = true := fun hz => hq0 (isZeroD_sound _ hz)
      rw [if_pos (Or.inr (Or.inl trivial)), if_neg hnz]
      exact ⟨_, _, rfl⟩

/-! ## `dual`, the pseudoscalar -/

omit [DecidableEq R] in
/-- the product with a one-term right operand `{m: r}` -/
theorem coeff_genericProductZ_single_right {z : R → Bool} (hz : ZSound z) (w : Nat → Nat → R)
    {a : MVOf R} (ha : NodupKeys a) (m : Nat) (r : R) (k : Nat) :
    coeff (genericProductZ z w a [(m, r)]) k
      = w (k ^^^ m) m * reorderSignR (k ^^^ m) m * coeff a (k ^^^ m) * r := by
  rw [coeff_genericProductZ hz]
  have := lsum_key_ind ha (k ^^^ m)
    (fun x => w (k ^^^ m) m * reorderSignR (k ^^^ m) m * x * r) (by ring)
  rw [← this]
  apply lsum_congr; intro s _
  simp only [lsum, add_zero]
  by_cases h : s.1 = k ^^^ m
  · have hx : s.1 ^^^ m = k := by rw [h, Nat.xor_assoc, Nat.xor_self, Nat.xor_zero]
    rw [if_pos hx, if_pos h, h]
  · have hx : s.1 ^^^ m ≠ k := by
      intro e; apply h; rw [← e, Nat.xor_assoc, Nat.xor_self, Nat.xor_zero]
    rw [if_neg hx, if_neg h]

omit [DecidableEq R] in
theorem rev_pseudoscalar (dims : Nat) :
    rev (pseudoscalar dims : MVOf R)
      = [(2 ^ dims - 1, ((revSign (2 ^ dims - 1) : Int) : R) * 1)] := by
  rw [rev_eq_map]; rfl

omit [DecidableEq R] in
/-- the coefficients of `dual`: `A.dual()[k] = g(k') σ(k', I) rev(I) A[k']`, `k' = k ⊕ I` -/
theorem coeff_dualZ {z : R → Bool} (hz : ZSound z) (g : Nat → R) (dims : Nat) {a : MVOf R}
    (ha : NodupKeys a) (k : Nat) :
    coeff (dualZ z g dims a) k
      = wInner g (k ^^^ (2 ^ dims - 1)) (2 ^ dims - 1)
        * reorderSignR (k ^^^ (2 ^ dims - 1)) (2 ^ dims - 1)
        * coeff a (k ^^^ (2 ^ dims - 1)) * (((revSign (2 ^ dims - 1) : Int) : R) * 1) := by
  unfold dualZ
  rw [rev_pseudoscalar, coeff_genericProductZ_single_right hz _ ha]

omit [DecidableEq R] in
theorem wInner_of_subset (g : Nat → R) {k f : Nat} (h : k &&& f = k) :
    wInner g k f = prodBits g k := by
  unfold wInner
  simp only [h, true_or, ↓reduceIte, sharedMetricCoeff_eq_prodBits]

omit [DecidableEq R] in
/-- `dual(dual(A)) = (-1)^(n(n-1)/2) · det(g) · A` on every well-formed multivector
    (coefficient level, sound zero test) -/
theorem coeff_dualZ_dualZ {z : R → Bool} (hz : ZSound z) (g : Nat → R) (dims : Nat) {a : MVOf R}
    (ha : NodupKeys a) (hr : ∀ k ∈ keys a, k < 2 ^ dims) (k : Nat) :
    coeff (dualZ z g dims (dualZ z g dims a)) k
      = ((revSign (2 ^ dims - 1) : Int) : R) * prodBits g (2 ^ dims - 1) * coeff a k := by
  have hnd : NodupKeys (dualZ z g dims a) := genericProductZ_nodup _ _ _ _
  rw [coeff_dualZ hz g dims hnd, coeff_dualZ hz g dims ha, Nat.xor_assoc, Nat.xor_self,
    Nat.xor_zero]
  by_cases hk : k ∈ keys a
  · have hsub : k &&& (2 ^ dims - 1) = k := and_full_of_lt (hr k hk)
    have hsub' := xor_and_of_subset hsub
    rw [wInner_of_subset g hsub, wInner_of_subset g hsub']
    have hs : (reorderSignR (k ^^^ (2 ^ dims - 1)) (2 ^ dims - 1) : R)
        * reorderSignR k (2 ^ dims - 1) = ((revSign (2 ^ dims - 1) : Int) : R) := by
      have := sign_cocycle k (2 ^ dims - 1) (2 ^ dims - 1)
      rw [Nat.xor_self, reorderSign_zero_right, mul_one, ← revSign_eq_reorderSign_self] at this
      simp only [reorderSignR_eq_cast, ← Int.cast_mul]
      rw [mul_comm, this]
    have hg := prodBits_split g hsub
    have hr2 := revSignR_mul_self (R := R) (2 ^ dims - 1)
    linear_combination
      (((revSign (2 ^ dims - 1) : Int) : R) * ((revSign (2 ^ dims - 1) : Int) : R)
          * prodBits g (k ^^^ (2 ^ dims - 1)) * prodBits g k * coeff a k) * hs
      + (((revSign (2 ^ dims - 1) : Int) : R) * ((revSign (2 ^ dims - 1) : Int) : R)
          * ((revSign (2 ^ dims - 1) : Int) : R) * coeff a k) * hg
      + (((revSign (2 ^ dims - 1) : Int) : R) * prodBits g (2 ^ dims - 1) * coeff a k) * hr2
  · rw [coeff_eq_zero_of_not_mem hk]; ring

omit [DecidableEq R] in
/-- on well-formed multivectors `dual` (coded as the inner product `A | I.rev()`) is the
    geometric product `A * I.rev()` -/
theorem coeff_dualZ_eq_mul {z : R → Bool} (hz : ZSound z) (g : Nat → R) (dims : Nat) {a : MVOf R}
    (hr : ∀ k ∈ keys a, k < 2 ^ dims) (k : Nat) :
    coeff (dualZ z g dims a) k
      = coeff (genericProductZ z (wGeometric g) a (rev (pseudoscalar dims))) k := by
  unfold dualZ
  apply coeff_genericProductZ_congr_weight hz
  intro s hs o ho
  rw [rev_pseudoscalar] at ho
  simp only [keys_cons, keys_nil, List.mem_singleton] at ho
  subst ho
  rw [wInner_of_subset g (and_full_of_lt (hr s hs)), wGeometric_eq_prodBits,
    and_full_of_lt (hr s hs)]

/-- `I * I = (-1)^(n(n-1)/2) · det(g)` -/
theorem pseudoscalar_sq (g : Nat → R) (dims : Nat) :
    mvMul g (pseudoscalar dims) (pseudoscalar dims)
      = ofScalar (((revSign (2 ^ dims - 1) : Int) : R) * prodBits g (2 ^ dims - 1)) := by
  unfold mvMul pseudoscalar
  rw [genericProduct_blades, wGeometric_self, reorderSignR_self, Nat.xor_self]
  unfold ofScalar ofScalarZ
  by_cases h0 : prodBits g (2 ^ dims - 1) = 0
  · simp [h0, isZeroD]
  · by_cases h1 : prodBits g (2 ^ dims - 1) * ((revSign (2 ^ dims - 1) : Int) : R) = 0
    · simp [h0, h1, isZeroD, mul_comm]
    · have h1' : ¬ ((revSign (2 ^ dims - 1) : Int) : R) * prodBits g (2 ^ dims - 1) = 0 := by
        rw [mul_comm]; exact h1
      simp [h0, h1, isZeroD, mul_comm]

/-! ## grade projections, `gen_blades` -/

omit [DecidableEq R] in
/-- selecting items by a predicate on the key -/
theorem coeff_filter_keys (P : Nat → Bool) (a : MVOf R) (k : Nat) :
    coeff (a.filter fun p => P p.1) k = if P k then coeff a k else 0 := by
  induction a with
  | nil => simp
  | cons p d ih =>
    obtain ⟨k0, v0⟩ := p
    rw [List.filter_cons]
    by_cases hp : P k0 = true
    · simp only [hp, ↓reduceIte, coeff_cons, ih]
      by_cases hk : k0 = k
      · subst hk; simp [hp]
      · simp [hk]
    · simp only [hp, Bool.false_eq_true, ↓reduceIte, ih, coeff_cons]
      by_cases hk : k0 = k
      · subst hk; simp [hp]
      · simp [hk]

omit [CommRing R] [DecidableEq R] in
theorem nodupKeys_filter (P : Nat × R → Bool) {a : MVOf R} (ha : NodupKeys a) :
    NodupKeys (a.filter P) := by
  unfold NodupKeys keys at *
  exact (List.filter_sublist.map _).nodup ha

omit [CommRing R] [DecidableEq R] in
theorem project_eq_filter (a : MVOf R) (r : Nat) :
    project a r = a.filter fun p => decide (bitCount p.1 = r) := rfl

omit [DecidableEq R] in
/-- `project(r)` keeps exactly the coefficients of the grade-`r` blades -/
theorem coeff_project (a : MVOf R) (r k : Nat) :
    coeff (project a r) k = if bitCount k = r then coeff a k else 0 := by
  rw [project_eq_filter, coeff_filter_keys (fun k => decide (bitCount k = r))]
  simp

omit [DecidableEq R] in
theorem coeff_even (a : MVOf R) (k : Nat) :
    coeff (even a) k = if bitCount k % 2 = 0 then coeff a k else 0 := by
  have : even a = a.filter fun p => decide (bitCount p.1 % 2 = 0) := rfl
  rw [this, coeff_filter_keys (fun k => decide (bitCount k % 2 = 0))]
  simp

omit [DecidableEq R] in
theorem coeff_odd (a : MVOf R) (k : Nat) :
    coeff (odd a) k = if bitCount k % 2 ≠ 0 then coeff a k else 0 := by
  have : odd a = a.filter fun p => decide (bitCount p.1 % 2 ≠ 0) := rfl
  rw [this, coeff_filter_keys (fun k => decide (bitCount k % 2 ≠ 0))]
  simp

omit [CommRing R] [DecidableEq R] in
theorem project_project (a : MVOf R) (r s : Nat) :
    project (project a r) s = if r = s then project a r else [] := by
  simp only [project_eq_filter, List.filter_filter]
  split
  · next h => subst h; simp
  · next h =>
    rw [List.filter_eq_nil_iff]
    intro p _
    simp only [Bool.and_eq_true, decide_eq_true_eq, not_and]
    intro h1 h2; exact h (h2.symm.trans h1)

omit [DecidableEq R] in
/-- the grade projections sum to the identity -/
theorem lsum_coeff_project {a : MVOf R} {dims : Nat} (hr : ∀ k ∈ keys a, k < 2 ^ dims) (k : Nat) :
    lsum (fun r => coeff (project a r) k) (List.range (dims + 1)) = coeff a k := by
  simp only [coeff_project]
  by_cases hk : k ∈ keys a
  · have hb : bitCount k < dims + 1 := by
      rw [bitCount_eq_popcount]
      have := pc_le_of_lt dims k (hr k hk)
      omega
    exact lsum_range_ind (fun _ => coeff a k) (bitCount k) (dims + 1) hb
  · rw [coeff_eq_zero_of_not_mem hk]
    apply lsum_eq_zero; intro r _; simp

/-- `sum(l)` as Python evaluates it on multivectors: `((0 + l₀) + l₁) + …` -/
def mvSum (l : List (MVOf R)) : MVOf R := l.foldl mvAdd []

theorem mvSum_spec (l : List (MVOf R)) (hl : ∀ m ∈ l, NodupKeys m) :
    ∀ acc : MVOf R, NodupKeys acc →
      NodupKeys (l.foldl mvAdd acc) ∧
      ∀ k, coeff (l.foldl mvAdd acc) k = coeff acc k + lsum (fun m => coeff m k) l := by
  induction l with
  | nil => intro acc h; exact ⟨h, fun k => by simp [lsum]⟩
  | cons m l ih =>
    intro acc hacc
    have hm := hl m List.mem_cons_self
    have h1 : NodupKeys (mvAdd acc m) := mvAddZ_nodup _ hacc hm
    obtain ⟨h2, h3⟩ := ih (fun x hx => hl x (List.mem_cons_of_mem _ hx)) _ h1
    refine ⟨h2, fun k => ?_⟩
    rw [List.foldl_cons, h3 k, coeff_mvAddZ isZeroD_sound hacc hm, lsum]; ring

theorem coeff_mvSum (l : List (MVOf R)) (hl : ∀ m ∈ l, NodupKeys m) (k : Nat) :
    coeff (mvSum l) k = lsum (fun m => coeff m k) l := by
  unfold mvSum
  rw [(mvSum_spec l hl [] nodupKeys_nil).2 k]; simp

theorem mvAdd_pruned {a b : MVOf R} (ha : NodupKeys a) (hb : NodupKeys b) :
    Pruned (mvAdd a b) := mvAddZ_pruned isZeroD_complete ha hb

theorem mvSum_pruned (l : List (MVOf R)) (hl : ∀ m ∈ l, NodupKeys m) : Pruned (mvSum l) := by
  unfold mvSum
  rcases List.eq_nil_or_concat l with h | ⟨l', m, h⟩
  · subst h; exact pruned_nil
  · subst h
    rw [List.concat_eq_append, List.foldl_append]
    simp only [List.foldl_cons, List.foldl_nil]
    apply mvAdd_pruned
    · exact (mvSum_spec l' (fun x hx => hl x (by simp [hx])) [] nodupKeys_nil).1
    · exact hl m (by simp)

omit [CommRing R] [DecidableEq R] in
theorem genBladesGrade_eq (a : MVOf R) (r : Nat) : genBladesGrade a r = genBlades (project a r) :=
  rfl

omit [DecidableEq R] in
/-- the blades generated by `gen_blades` add up to the multivector -/
theorem lsum_coeff_genBlades {a : MVOf R} (ha : NodupKeys a) (k : Nat) :
    lsum (fun m => coeff m k) (genBlades a) = coeff a k := by
  have : genBlades a = a.map fun p => [(p.1, p.2)] := rfl
  rw [this, lsum_map]
  have h := lsum_key_ind ha k (fun x => x) rfl
  rw [← h]
  apply lsum_congr; intro p _
  rw [coeff_cons]; simp

end Ring

end PV.GA
