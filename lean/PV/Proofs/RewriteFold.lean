import PV.Proofs.RewriteNF
import PV.Properties.C02
import PV.Proofs.PyEqEquiv
set_option linter.unusedSimpArgs false
/-
  C11, part 3: the constant folders.  `fold` partitions the (re-)mapped operands into constants —
  no dependencies and the evaluator returns a value — and the rest; the constants are reduced
  with Python integer arithmetic.  Tie to the value semantics: on the fragment of `evalK` the
  standard meaning `den [] e` of a closed expression, when it is an `int`, is the value `evalK`.
-/
namespace PV

universe u
variable {K : Type u} [Field K] [DecidableEq K]

section
variable (ρ : String → K)

/-! ### the fragment of `evalK` is inside the "simple" universe of C02 -/

theorem simpleL_of_forall : ∀ {cs : List Expr}, (∀ c ∈ cs, c.simple = true) → Expr.simpleL cs = true
  | [], _ => rfl
  | c :: cs, h => by
      simp only [Expr.simpleL, Bool.and_eq_true]
      exact ⟨h c (by simp), simpleL_of_forall fun d hd => h d (by simp [hd])⟩

theorem evalKL_mem {p : Bool} : ∀ {cs : List Expr} {v : K}, evalKL ρ p cs = some v →
    ∀ c ∈ cs, ∃ a, evalK ρ c = some a
  | [], _, _, c, hc => by simp at hc
  | d :: ds, v, h, c, hc => by
      obtain ⟨a, b, ha, hb, _⟩ := evalKL_cons ρ h
      simp only [List.mem_cons] at hc
      rcases hc with rfl | hc
      · exact ⟨a, ha⟩
      · exact evalKL_mem hb c hc

theorem evalK_simple : ∀ (e : Expr) (k : K), evalK ρ e = some k → e.simple = true := by
  intro e
  induction e using Expr.induct with
  | h e ih =>
    intro k hk
    cases e with
    | const c => obtain ⟨n, rfl, _⟩ := evalK_const ρ hk; rfl
    | var x => rfl
    | nary o cs =>
      simp only [Expr.simple]
      apply simpleL_of_forall
      intro c hc
      cases o <;> simp only [evalK] at hk <;> try contradiction
      all_goals
        obtain ⟨a, ha⟩ := evalKL_mem ρ hk c hc
        exact ih c (by simp [Expr.children, hc]) a ha
    | bin o a b =>
      cases o <;> simp only [evalK] at hk <;> try contradiction
      · obtain ⟨x, y, hx, hy, _, _⟩ := divK_some hk
        simp only [Expr.simple, Bool.and_eq_true]
        exact ⟨ih a (by simp [Expr.children]) x hx, ih b (by simp [Expr.children]) y hy⟩
      · obtain ⟨x, n, hx, hn, _, _⟩ := powK_some hk
        have := expInt?_some hn; subst this
        simp only [Expr.simple, Bool.and_eq_true]
        exact ⟨ih a (by simp [Expr.children]) x hx, rfl⟩
    | cse c p s =>
      simp only [evalK] at hk
      simp only [Expr.simple]
      exact ih c (by simp [Expr.children]) k hk
    | _ => simp [evalK] at hk

/-! ### Python integer arithmetic on `Value`s -/

theorem Value.add_int (a b : Int) : Value.add (.int a) (.int b) = .ok (.int (a + b)) := rfl
theorem Value.mul_int (a b : Int) : Value.mul (.int a) (.int b) = .ok (.int (a * b)) := rfl
theorem Value.add_inexact (a : Int) : Value.add (.int a) .inexact = .error .noClaim := rfl
theorem Value.mul_inexact (a : Int) : Value.mul (.int a) .inexact = .error .noClaim := rfl
theorem Value.div_inexact_left (w : Value) : Value.div .inexact w = .error .noClaim := rfl
theorem Value.div_inexact_right (a : Int) : Value.div (.int a) .inexact = .error .noClaim := rfl
theorem Value.pow_inexact_left (w : Value) : Value.pow .inexact w = .error .noClaim := rfl

theorem Value.div_int (a b : Int) (w : Value) (h : Value.div (.int a) (.int b) = .ok w) :
    w = .inexact := by
  simp only [Value.div, arith, Value.isInexact, Value.isSeq, Value.num?, divN, Bool.or_self,
    Bool.false_eq_true, if_false] at h
  split at h
  · cases h
  · simp only [pure, Except.pure] at h; injection h with h; exact h.symm

theorem Value.pow_int (a b : Int) (w : Value) (h : Value.pow (.int a) (.int b) = .ok w) :
    (0 ≤ b ∧ w = .int (a ^ b.toNat)) ∨ (b < 0 ∧ a ≠ 0 ∧ w = .inexact) := by
  simp only [Value.pow, arith, Value.isInexact, Value.isSeq, Value.num?, powN, Bool.or_self,
    Bool.false_eq_true, if_false] at h
  split at h
  · cases h
  · split at h
    · simp only [pure, Except.pure] at h; injection h with h
      exact .inl ⟨by omega, h.symm⟩
    · split at h
      · cases h
      · simp only [pure, Except.pure] at h; injection h with h
        exact .inr ⟨by omega, ‹_›, h.symm⟩

/-! ### the standard meaning of a closed expression agrees with `evalK` -/

def naryOf (p : Bool) : NaryOp := if p then .prod else .sum

theorem apply_naryOf_int (p : Bool) (a b : Int) :
    (naryOf p).apply (.int a) (.int b) = .ok (.int (if p then a * b else a + b)) := by
  cases p <;> rfl

theorem apply_naryOf_inexact (p : Bool) (a : Int) :
    (naryOf p).apply (.int a) .inexact = .error .noClaim := by
  cases p <;> rfl

mutual
theorem den_evalK : ∀ (e : Expr) (w : Value) (k : K), den [] e = .ok w → evalK ρ e = some k →
    (∃ n : Int, w = .int n ∧ k = (n : K)) ∨ w = .inexact
  | .const c, w, k, hd, hk => by
      obtain ⟨n, rfl, rfl⟩ := evalK_const ρ hk
      simp only [den, Const.den, pure, Except.pure] at hd
      injection hd with hd; subst hd
      exact .inl ⟨n, rfl, rfl⟩
  | .var x, w, k, hd, hk => by
      simp only [den, Env.get] at hd
      cases hd
  | .nary .sum cs, w, k, hd, hk => by
      simp only [den] at hd; rw [evalK_sum] at hk
      obtain ⟨n, hn, hk⟩ := denFold_evalK false cs 0 w k hd hk
      simp only [opK_false, Int.cast_zero, zero_add] at hk
      exact .inl ⟨n, hn, hk⟩
  | .nary .prod cs, w, k, hd, hk => by
      simp only [den] at hd; rw [evalK_prod] at hk
      obtain ⟨n, hn, hk⟩ := denFold_evalK true cs 1 w k hd hk
      simp only [opK_true, Int.cast_one, one_mul] at hk
      exact .inl ⟨n, hn, hk⟩
  | .bin .quot a b, w, k, hd, hk => by
      simp only [evalK] at hk
      obtain ⟨x, y, hx, hy, _, _⟩ := divK_some hk
      simp only [den] at hd
      obtain ⟨wa, ha, hd⟩ := bind_ok hd
      obtain ⟨wb, hb, hd⟩ := bind_ok hd
      right
      rcases den_evalK a wa x ha hx with ⟨n, rfl, _⟩ | rfl
      · rcases den_evalK b wb y hb hy with ⟨m, rfl, _⟩ | rfl
        · exact Value.div_int _ _ _ hd
        · rw [show BinOp.quot.apply = Value.div from rfl, Value.div_inexact_right] at hd; cases hd
      · rw [show BinOp.quot.apply = Value.div from rfl, Value.div_inexact_left] at hd; cases hd
  | .bin .pow a b, w, k, hd, hk => by
      simp only [evalK] at hk
      obtain ⟨x, n, hx, hn, hdef, rfl⟩ := powK_some hk
      have := expInt?_some hn; subst this
      simp only [den] at hd
      obtain ⟨wa, ha, hd⟩ := bind_ok hd
      obtain ⟨wb, hb, hd⟩ := bind_ok hd
      simp only [den, Const.den, pure, Except.pure] at hb
      injection hb with hb; subst hb
      rcases den_evalK a wa x ha hx with ⟨m, rfl, rfl⟩ | rfl
      · rcases Value.pow_int m n w hd with ⟨h0, rfl⟩ | ⟨_, _, rfl⟩
        · left
          refine ⟨m ^ n.toNat, rfl, ?_⟩
          have : n = (n.toNat : Int) := (Int.toNat_of_nonneg h0).symm
          rw [Int.cast_pow]
          conv_lhs => rw [this]
          exact zpow_natCast _ _
        · exact .inr rfl
      · rw [show BinOp.pow.apply = Value.pow from rfl, Value.pow_inexact_left] at hd; cases hd
  | .cse c _ _, w, k, hd, hk => by
      simp only [den] at hd; simp only [evalK] at hk
      exact den_evalK c w k hd hk
  | .nary .bor _, _, _, _, hk | .nary .bxor _, _, _, _, hk | .nary .band _, _, _, _, hk
  | .nary .lor _, _, _, _, hk | .nary .land _, _, _, _, hk | .nary .min _, _, _, _, hk
  | .nary .max _, _, _, _, hk => by simp [evalK] at hk
  | .bin .floordiv _ _, _, _, _, hk | .bin .rem _ _, _, _, _, hk | .bin .lshift _ _, _, _, _, hk
  | .bin .rshift _ _, _, _, _, hk => by simp [evalK] at hk
  | .un .., _, _, _, hk | .cmp .., _, _, _, hk | .ite .., _, _, _, hk
  | .call .., _, _, _, hk | .callKw .., _, _, _, hk | .subscript .., _, _, _, hk
  | .lookup .., _, _, _, hk | .subst .., _, _, _, hk | .deriv .., _, _, _, hk
  | .slice .., _, _, _, hk | .nan, _, _, _, hk | .wildcard, _, _, _, hk | .dotWild .., _, _, _, hk
  | .starWild .., _, _, _, hk | .funcSym, _, _, _, hk | .tuple .., _, _, _, hk
  | .list .., _, _, _, hk => by simp [evalK] at hk
theorem denFold_evalK (p : Bool) : ∀ (cs : List Expr) (a : Int) (w : Value) (k : K),
    denFold [] (naryOf p) (.int a) cs = .ok w → evalKL ρ p cs = some k →
    ∃ n : Int, w = .int n ∧ opK p (a : K) k = (n : K)
  | [], a, w, k, hd, hk => by
      simp only [denFold, pure, Except.pure] at hd
      injection hd with hd; subst hd
      simp only [evalKL, Option.some.injEq] at hk; subst hk
      exact ⟨a, rfl, opK_unit_right p _⟩
  | c :: cs, a, w, k, hd, hk => by
      obtain ⟨x, y, hx, hy, rfl⟩ := evalKL_cons ρ hk
      simp only [denFold] at hd
      obtain ⟨wc, hc, hd⟩ := bind_ok hd
      obtain ⟨acc', hacc, hd⟩ := bind_ok hd
      rcases den_evalK c wc x hc hx with ⟨m, rfl, rfl⟩ | rfl
      · rw [apply_naryOf_int] at hacc
        injection hacc with hacc; subst hacc
        obtain ⟨n, hn, hk⟩ := denFold_evalK p cs _ w y hd hy
        refine ⟨n, hn, ?_⟩
        rw [← hk, ← opK_assoc]
        cases p <;> simp
      · rw [apply_naryOf_inexact] at hacc; cases hacc
end


/-! ### `classify`: a constant operand has the value its evaluation returns -/

theorem classify_constant {child : Expr} {w : Value} {k : K}
    (h : classify child = .ok (.constant w)) (hk : evalK ρ child = some k) :
    ∃ n : Int, w = .int n ∧ k = (n : K) := by
  unfold classify at h
  obtain ⟨d, _, h⟩ := bind_ok h
  split at h
  · simp only [pure, Except.pure] at h; cases h
  · rw [C02.evalG_eq_den_simple true child (evalK_simple ρ child k hk)] at h
    cases hd : den [] child with
    | error err =>
      rw [hd] at h
      cases err <;> simp only [pure, Except.pure, throw, throwThe, MonadExceptOf.throw] at h <;>
        cases h
    | ok w' =>
      rw [hd] at h
      rcases den_evalK ρ child w' k hd hk with ⟨n, rfl, rfl⟩ | rfl
      · simp only [pure, Except.pure] at h
        injection h with h; injection h with h; subst h
        exact ⟨n, rfl, rfl⟩
      · simp only [throw, throwThe, MonadExceptOf.throw] at h; cases h

/-! ### the loop of `fold` -/

/-- value of the list of evaluated constants (all of them are `int`s on the fragment) -/
def valsK (p : Bool) : List Value → Option K
  | [] => some (unitK p)
  | .int n :: vs => (valsK p vs).map (opK p (n : K))
  | _ :: _ => none

omit [DecidableEq K] in
theorem valsK_snoc (p : Bool) (n : Int) : ∀ (vs : List Value) (c : K), valsK p vs = some c →
    valsK (K := K) p (vs ++ [.int n]) = some (opK p c (n : K))
  | [], c, h => by
      simp only [valsK, Option.some.injEq] at h; subst h
      simp [valsK, opK_unit_left, opK_unit_right]
  | v :: vs, c, h => by
      cases v <;> simp only [valsK] at h <;> try contradiction
      rename_i m
      cases hv : valsK (K := K) p vs with
      | none => rw [hv] at h; simp at h
      | some c' =>
        rw [hv] at h; simp only [Option.map_some, Option.some.injEq] at h; subst h
        simp only [List.cons_append, valsK, valsK_snoc p n vs c' hv, Option.map_some, opK_assoc]

theorem foldLoop_value {rec : Expr → RwR}
    (hrec : ∀ c c' v, rec c = .ok c' → evalK ρ c = some v → evalK ρ c' = some v) (p : Bool) :
    ∀ (fuel : Nat) (queue : List Expr) (consts : List Value) (non : List Expr)
      (cs' : List Value) (ns' : List Expr) (q c n : K),
      foldLoop rec p fuel queue consts non = .ok (cs', ns') →
      evalKL ρ p queue = some q → valsK p consts = some c → evalKL ρ p non = some n →
      ∃ c' n', valsK p cs' = some c' ∧ evalKL ρ p ns' = some n' ∧
        opK p c' n' = opK p q (opK p c n)
  | 0, _, _, _, _, _, _, _, _, h, _, _, _ => by
      simp [foldLoop, throw, throwThe, MonadExceptOf.throw] at h
  | fuel + 1, [], consts, non, cs', ns', q, c, n, h, hq, hc, hn => by
      simp only [foldLoop, pure, Except.pure] at h
      injection h with h; injection h with h1 h2; subst h1; subst h2
      simp only [evalKL, Option.some.injEq] at hq; subst hq
      exact ⟨c, n, hc, hn, (opK_unit_left p _).symm⟩
  | fuel + 1, item :: queue, consts, non, cs', ns', q, c, n, h, hq, hc, hn => by
      obtain ⟨x, q', hx, hq', rfl⟩ := evalKL_cons ρ hq
      simp only [foldLoop] at h
      obtain ⟨child, hch, h⟩ := bind_ok h
      have hx' := hrec _ _ _ hch hx
      split at h
      · -- a Sum result: its operands are re-queued
        rw [evalK_sum] at hx'
        obtain ⟨c', n', h1, h2, h3⟩ := foldLoop_value hrec false fuel _ consts non cs' ns' _ c n h
          (evalKL_append_mk ρ hx' hq') hc hn
        exact ⟨c', n', h1, h2, h3⟩
      · rw [evalK_prod] at hx'
        obtain ⟨c', n', h1, h2, h3⟩ := foldLoop_value hrec true fuel _ consts non cs' ns' _ c n h
          (evalKL_append_mk ρ hx' hq') hc hn
        exact ⟨c', n', h1, h2, h3⟩
      · obtain ⟨cl, hcl, h⟩ := bind_ok h
        cases cl with
        | constant w =>
          obtain ⟨m, rfl, rfl⟩ := classify_constant ρ hcl hx'
          obtain ⟨c', n', h1, h2, h3⟩ := foldLoop_value hrec p fuel queue _ non cs' ns' q' _ n h
            hq' (valsK_snoc p m consts c hc) hn
          refine ⟨c', n', h1, h2, ?_⟩
          rw [h3]
          cases p <;> simp only [opK_false, opK_true] <;> ring
        | nonconstant =>
          obtain ⟨c', n', h1, h2, h3⟩ := foldLoop_value hrec p fuel queue consts _ cs' ns' q' c _ h
            hq' hc (evalKL_append_mk ρ hn (evalKL_singleton ρ hx'))
          refine ⟨c', n', h1, h2, ?_⟩
          rw [h3]
          cases p <;> simp only [opK_false, opK_true] <;> ring

omit [DecidableEq K] in
theorem reduceConsts_value (p : Bool) : ∀ (vs : List Value) (a : Int) (v : Value) (c : K),
    reduceConsts p (.int a) vs = .ok v → valsK p vs = some c →
    ∃ m : Int, v = .int m ∧ (m : K) = opK p (a : K) c
  | [], a, v, c, h, hc => by
      simp only [reduceConsts, pure, Except.pure] at h
      injection h with h; subst h
      simp only [valsK, Option.some.injEq] at hc; subst hc
      exact ⟨a, rfl, (opK_unit_right p _).symm⟩
  | w :: vs, a, v, c, h, hc => by
      cases w <;> simp only [valsK] at hc <;> try contradiction
      rename_i b
      cases hv : valsK (K := K) p vs with
      | none => rw [hv] at hc; simp at hc
      | some c' =>
        rw [hv] at hc; simp only [Option.map_some, Option.some.injEq] at hc; subst hc
        simp only [reduceConsts] at h
        obtain ⟨acc', hacc, h⟩ := bind_ok h
        have : acc' = .int (if p then a * b else a + b) := by
          cases p
          · simp only [Bool.false_eq_true, if_false] at hacc ⊢
            rw [Value.add_int] at hacc; injection hacc with hacc; exact hacc.symm
          · simp only [if_true] at hacc ⊢
            rw [Value.mul_int] at hacc; injection hacc with hacc; exact hacc.symm
        subst this
        obtain ⟨m, hm, hm'⟩ := reduceConsts_value p vs _ v c' h hv
        refine ⟨m, hm, ?_⟩
        rw [hm', ← opK_assoc]
        cases p <;> simp

theorem foldFinish_value (p : Bool) {consts : List Value} {non : List Expr} {e : Expr} {c n : K}
    (h : foldFinish p consts non = .ok e) (hc : valsK p consts = some c)
    (hn : evalKL ρ p non = some n) : evalK ρ e = some (opK p c n) := by
  have build : ∀ (items : List Expr) (e : Expr) (v : K),
      (if p then flatProd items else pure (flattenedSum items)) = Except.ok e →
      evalKL ρ p items = some v → evalK ρ e = some v := by
    intro items e v hb hv
    cases p
    · simp only [Bool.false_eq_true, if_false, pure, Except.pure] at hb
      injection hb with hb; subst hb; exact flattenedSum_value ρ hv
    · simp only [if_true] at hb; exact flatProd_value ρ hb hv
  unfold foldFinish at h
  cases consts with
  | nil =>
    simp only [valsK, Option.some.injEq] at hc; subst hc
    rw [opK_unit_left]
    exact build _ _ _ h hn
  | cons w ws =>
    cases w <;> simp only [valsK] at hc <;> try contradiction
    rename_i a
    cases hv : valsK (K := K) p ws with
    | none => rw [hv] at hc; simp at hc
    | some c' =>
      rw [hv] at hc; simp only [Option.map_some, Option.some.injEq] at hc; subst hc
      simp only at h
      cases hr : reduceConsts p (.int a) ws with
      | error err => rw [hr] at h; simp only [throw, throwThe, MonadExceptOf.throw] at h; cases h
      | ok v =>
        rw [hr] at h
        obtain ⟨m, rfl, hm⟩ := reduceConsts_value p ws a v c' hr hv
        simp only [Value.toExpr?] at h
        rw [← hm]
        exact build _ _ _ h (evalKL_cons_mk ρ (by simp only [evalK]) hn)

/-! ### the folders -/

theorem foldM_const (comm : Bool) : ∀ (fuel : Nat) (c : Const) (r : Expr),
    foldM comm fuel (.const c) = .ok r → r = .const c
  | 0, _, _, h => by simp [foldM, throw, throwThe, MonadExceptOf.throw] at h
  | fuel + 1, c, r, h => by
      cases c <;> simp only [foldM, idMap, pure, Except.pure, throw, throwThe,
        MonadExceptOf.throw] at h <;> first | contradiction | (injection h with h; exact h.symm)

/-- **Constant folding preserves the value** (plain folder `comm = false`, commutative folder
`comm = true`): wherever the input has a value, the folded expression has the same value. -/
theorem foldM_value (comm : Bool) : ∀ (fuel : Nat) (e e' : Expr) (v : K),
    foldM comm fuel e = .ok e' → evalK ρ e = some v → evalK ρ e' = some v
  | 0, _, _, _, h, _ => by simp [foldM, throw, throwThe, MonadExceptOf.throw] at h
  | fuel + 1, e, e', v, h, hv => by
      have ih := foldM_value comm fuel
      have hc := foldM_const comm fuel
      cases e with
      | nary o cs =>
        cases o with
        | sum =>
          simp only [foldM] at h
          obtain ⟨⟨consts, non⟩, hl, h⟩ := bind_ok h
          rw [evalK_sum] at hv
          obtain ⟨c', n', h1, h2, h3⟩ := foldLoop_value ρ ih false fuel cs [] [] consts non v 0 0 hl
            hv rfl rfl
          have := foldFinish_value ρ false h h1 h2
          rw [this, h3]; simp
        | prod =>
          simp only [foldM] at h
          split at h
          · obtain ⟨⟨consts, non⟩, hl, h⟩ := bind_ok h
            rw [evalK_prod] at hv
            obtain ⟨c', n', h1, h2, h3⟩ := foldLoop_value ρ ih true fuel cs [] [] consts non v 1 1 hl
              hv rfl rfl
            have := foldFinish_value ρ true h h1 h2
            rw [this, h3]; simp
          · exact idMap_value ρ hc ih h hv
        | _ => simp [evalK] at hv
      | cse c p s =>
        simp only [foldM] at h
        split at h
        · simp only [throw, throwThe, MonadExceptOf.throw] at h; cases h
        · exact idMap_value ρ hc ih h hv
      | _ =>
        simp only [foldM] at h
        exact idMap_value ρ hc ih h hv

end

end PV
