import PV.Model.StrTable
import PV.Generated.Stringifier
/-
  C06, T-gen tie — helper lemmas for PV/Properties/C06Table.lean.

  * what the regenerated table `PV.Generated.c06tTable` says, entry by entry: which handler every
    node class reaches, the body of every reached handler, the helper parameters, the pieces of
    every literal — each proved by evaluation of the table (`rfl` / `decide`), so an edit of the
    source that changes an entry breaks the lemma of that entry;
  * the recursion schemes of the interpreter over child lists (`c06tRunAll`, `c06tRunAllOpt`) are
    the list printers of the hand-written model (`strL`, `strForceL`, `strSliceL`);
  * the class tuples under `force_parens_around` are the predicates `isDivision` /
    `isMultiplicative` of the model.
-/
namespace PV.C06T
open PV

/-- the table regenerated from the working tree -/
abbrev tableCurrent : C06TTable := Generated.c06tTable

/-! ### what the regenerated table says, entry by entry (each checked by evaluation) -/

theorem c06t_cls_Variable : tableCurrent.classHandler "Variable" = some (some "map_variable") := by rfl
theorem c06t_cls_Sum : tableCurrent.classHandler "Sum" = some (some "map_sum") := by rfl
theorem c06t_cls_Product : tableCurrent.classHandler "Product" = some (some "map_product") := by rfl
theorem c06t_cls_BitwiseOr : tableCurrent.classHandler "BitwiseOr" = some (some "map_bitwise_or") := by rfl
theorem c06t_cls_BitwiseXor : tableCurrent.classHandler "BitwiseXor" = some (some "map_bitwise_xor") := by rfl
theorem c06t_cls_BitwiseAnd : tableCurrent.classHandler "BitwiseAnd" = some (some "map_bitwise_and") := by rfl
theorem c06t_cls_LogicalOr : tableCurrent.classHandler "LogicalOr" = some (some "map_logical_or") := by rfl
theorem c06t_cls_LogicalAnd : tableCurrent.classHandler "LogicalAnd" = some (some "map_logical_and") := by rfl
theorem c06t_cls_Min : tableCurrent.classHandler "Min" = some (some "map_min") := by rfl
theorem c06t_cls_Max : tableCurrent.classHandler "Max" = some (some "map_max") := by rfl
theorem c06t_cls_Quotient : tableCurrent.classHandler "Quotient" = some (some "map_quotient") := by rfl
theorem c06t_cls_FloorDiv : tableCurrent.classHandler "FloorDiv" = some (some "map_floor_div") := by rfl
theorem c06t_cls_Remainder : tableCurrent.classHandler "Remainder" = some (some "map_remainder") := by rfl
theorem c06t_cls_Power : tableCurrent.classHandler "Power" = some (some "map_power") := by rfl
theorem c06t_cls_LeftShift : tableCurrent.classHandler "LeftShift" = some (some "map_left_shift") := by rfl
theorem c06t_cls_RightShift : tableCurrent.classHandler "RightShift" = some (some "map_right_shift") := by rfl
theorem c06t_cls_BitwiseNot : tableCurrent.classHandler "BitwiseNot" = some (some "map_bitwise_not") := by rfl
theorem c06t_cls_LogicalNot : tableCurrent.classHandler "LogicalNot" = some (some "map_logical_not") := by rfl
theorem c06t_cls_Comparison : tableCurrent.classHandler "Comparison" = some (some "map_comparison") := by rfl
theorem c06t_cls_If : tableCurrent.classHandler "If" = some (some "map_if") := by rfl
theorem c06t_cls_Call : tableCurrent.classHandler "Call" = some (some "map_call") := by rfl
theorem c06t_cls_CallWithKwargs : tableCurrent.classHandler "CallWithKwargs" = some (some "map_call_with_kwargs") := by rfl
theorem c06t_cls_Subscript : tableCurrent.classHandler "Subscript" = some (some "map_subscript") := by rfl
theorem c06t_cls_Lookup : tableCurrent.classHandler "Lookup" = some (some "map_lookup") := by rfl
theorem c06t_cls_CommonSubexpression : tableCurrent.classHandler "CommonSubexpression" = some (some "map_common_subexpression") := by rfl
theorem c06t_cls_Substitution : tableCurrent.classHandler "Substitution" = some (some "map_substitution") := by rfl
theorem c06t_cls_Derivative : tableCurrent.classHandler "Derivative" = some (some "map_derivative") := by rfl
theorem c06t_cls_Slice : tableCurrent.classHandler "Slice" = some (some "map_slice") := by rfl
theorem c06t_cls_NaN : tableCurrent.classHandler "NaN" = some (some "map_nan") := by rfl
theorem c06t_cls_Wildcard : tableCurrent.classHandler "Wildcard" = some (some "map_wildcard") := by rfl
theorem c06t_cls_DotWildcard : tableCurrent.classHandler "DotWildcard" = some (some "map_algebraic_leaf") := by rfl
theorem c06t_cls_StarWildcard : tableCurrent.classHandler "StarWildcard" = some (some "map_algebraic_leaf") := by rfl
theorem c06t_cls_FunctionSymbol : tableCurrent.classHandler "FunctionSymbol" = some (some "map_function_symbol") := by rfl

theorem c06t_body_map_algebraic_leaf : tableCurrent.handlerBody "map_algebraic_leaf" = some
    (.raise "NotImplementedError") := by rfl
theorem c06t_body_map_bitwise_and : tableCurrent.handlerBody "map_bitwise_and" = some
    (.ret (.parenIf (.join " & " (.recEach (.field "children") ⟨"PREC_BITWISE_AND", 0⟩ true)) ⟨"PREC_BITWISE_AND", 0⟩)) := by rfl
theorem c06t_body_map_bitwise_not : tableCurrent.handlerBody "map_bitwise_not" = some
    (.ret (.parenIf (.cat (.lit "~") (.recF "child" ⟨"PREC_UNARY", 0⟩ false)) ⟨"PREC_UNARY", 0⟩)) := by rfl
theorem c06t_body_map_bitwise_or : tableCurrent.handlerBody "map_bitwise_or" = some
    (.ret (.parenIf (.join " | " (.recEach (.field "children") ⟨"PREC_BITWISE_OR", 0⟩ true)) ⟨"PREC_BITWISE_OR", 0⟩)) := by rfl
theorem c06t_body_map_bitwise_xor : tableCurrent.handlerBody "map_bitwise_xor" = some
    (.ret (.parenIf (.join " ^ " (.recEach (.field "children") ⟨"PREC_BITWISE_XOR", 0⟩ true)) ⟨"PREC_BITWISE_XOR", 0⟩)) := by rfl
theorem c06t_body_map_call : tableCurrent.handlerBody "map_call" = some
    (.ret (.fmt [.hole, .lit "(", .hole, .lit ")"] [(.recF "function" ⟨"PREC_CALL", 0⟩ false), (.join ", " (.recEach (.field "parameters") ⟨"PREC_NONE", 0⟩ true))])) := by rfl
theorem c06t_body_map_call_with_kwargs : tableCurrent.handlerBody "map_call_with_kwargs" = some
    (.assign "args_strings" (.append (.recEach (.field "parameters") ⟨"PREC_NONE", 0⟩ false) (.kwEach [.hole, .lit "=", .hole] "kw_parameters" ⟨"PREC_NONE", 0⟩))
      (.ret (.fmt [.hole, .lit "(", .hole, .lit ")"] [(.recF "function" ⟨"PREC_CALL", 0⟩ false), (.join ", " (.var "args_strings"))]))) := by rfl
theorem c06t_body_map_common_subexpression : tableCurrent.handlerBody "map_common_subexpression" = some
    (.assign "type_name" (.cond (.typeIs "CommonSubexpression") (.lit "CSE") (.clsName false))
      (.ret (.fmt [.hole, .lit "(", .hole, .lit ")"] [(.var "type_name"), (.recF "child" ⟨"PREC_NONE", 0⟩ false)]))) := by rfl
theorem c06t_body_map_comparison : tableCurrent.handlerBody "map_comparison" = some
    (.ret (.parenIf (.fmt [.hole, .lit " ", .hole, .lit " ", .hole] [(.recF "left" ⟨"PREC_COMPARISON", 1⟩ false), (.attr "operator"), (.recF "right" ⟨"PREC_COMPARISON", 1⟩ false)]) ⟨"PREC_COMPARISON", 0⟩)) := by rfl
theorem c06t_body_map_constant : tableCurrent.handlerBody "map_constant" = some
    (.assign "result" (.strSelf false)
      (.ite (.and (.not (.and (.startsWith "result" "(") (.endsWith "result" ")"))) (.and (.or (.litIn "-" "result") (.litIn "+" "result")) (.precCmp .gt ⟨"enclosing_prec", 0⟩ ⟨"PREC_SUM", 0⟩)))
        (.ret (.parens (.var "result")))
        (.ret (.var "result")))) := by rfl
theorem c06t_body_map_derivative : tableCurrent.handlerBody "map_derivative" = some
    (.assign "derivs" (.join " " (.strEach [.lit "d/d", .hole] "variables"))
      (.ret (.fmt [.hole, .lit " ", .hole] [(.var "derivs"), (.recF "child" ⟨"PREC_PRODUCT", 0⟩ false)]))) := by rfl
theorem c06t_body_map_floor_div : tableCurrent.handlerBody "map_floor_div" = some
    (.setForce ["Product", "Quotient", "FloorDiv", "Remainder"] ["Product", "Quotient", "FloorDiv", "Remainder"]
      (.ret (.parenIf (.fmt [.hole, .lit " // ", .hole] [(.recF "numerator" ⟨"PREC_PRODUCT", 0⟩ true), (.recF "denominator" ⟨"PREC_PRODUCT", 0⟩ true)]) ⟨"PREC_PRODUCT", 0⟩))) := by rfl
theorem c06t_body_map_function_symbol : tableCurrent.handlerBody "map_function_symbol" = some
    (.ret (.clsName false)) := by rfl
theorem c06t_body_map_if : tableCurrent.handlerBody "map_if" = some
    (.ret (.parenIf (.fmt [.hole, .lit " if ", .hole, .lit " else ", .hole] [(.recF "then" ⟨"PREC_LOGICAL_OR", 0⟩ false), (.recF "condition" ⟨"PREC_LOGICAL_OR", 0⟩ false), (.recF "else_" ⟨"PREC_LOGICAL_OR", 0⟩ false)]) ⟨"PREC_IF", 0⟩)) := by rfl
theorem c06t_body_map_left_shift : tableCurrent.handlerBody "map_left_shift" = some
    (.ret (.parenIf (.fmt [.hole, .lit " << ", .hole] [(.recF "shiftee" ⟨"PREC_SHIFT", 1⟩ false), (.recF "shift" ⟨"PREC_SHIFT", 1⟩ false)]) ⟨"PREC_SHIFT", 0⟩)) := by rfl
theorem c06t_body_map_list : tableCurrent.handlerBody "map_list" = some
    (.ret (.fmt [.lit "[", .hole, .lit "]"] [(.join ", " (.recEach .self ⟨"PREC_NONE", 0⟩ true))])) := by rfl
theorem c06t_body_map_logical_and : tableCurrent.handlerBody "map_logical_and" = some
    (.ret (.parenIf (.join " and " (.recEach (.field "children") ⟨"PREC_LOGICAL_AND", 0⟩ true)) ⟨"PREC_LOGICAL_AND", 0⟩)) := by rfl
theorem c06t_body_map_logical_not : tableCurrent.handlerBody "map_logical_not" = some
    (.ret (.parenIf (.cat (.lit "not ") (.recF "child" ⟨"PREC_UNARY", 0⟩ false)) ⟨"PREC_UNARY", 0⟩)) := by rfl
theorem c06t_body_map_logical_or : tableCurrent.handlerBody "map_logical_or" = some
    (.ret (.parenIf (.join " or " (.recEach (.field "children") ⟨"PREC_LOGICAL_OR", 0⟩ true)) ⟨"PREC_LOGICAL_OR", 0⟩)) := by rfl
theorem c06t_body_map_lookup : tableCurrent.handlerBody "map_lookup" = some
    (.ret (.parenIf (.fmt [.hole, .lit ".", .hole] [(.recF "aggregate" ⟨"PREC_CALL", 0⟩ false), (.attr "name")]) ⟨"PREC_CALL", 0⟩)) := by rfl
theorem c06t_body_map_max : tableCurrent.handlerBody "map_max" = some
    (.assign "what" (.clsName true)
      (.ret (.fmt [.hole, .lit "(", .hole, .lit ")"] [(.var "what"), (.join ", " (.recEach (.field "children") ⟨"PREC_NONE", 0⟩ true))]))) := by rfl
theorem c06t_body_map_min : tableCurrent.handlerBody "map_min" = some
    (.assign "what" (.clsName true)
      (.ret (.fmt [.hole, .lit "(", .hole, .lit ")"] [(.var "what"), (.join ", " (.recEach (.field "children") ⟨"PREC_NONE", 0⟩ true))]))) := by rfl
theorem c06t_body_map_nan : tableCurrent.handlerBody "map_nan" = some
    (.ret (.lit "NaN")) := by rfl
theorem c06t_body_map_power : tableCurrent.handlerBody "map_power" = some
    (.ret (.parenIf (.fmt [.hole, .lit "**", .hole] [(.recF "base" ⟨"PREC_POWER", 1⟩ false), (.recF "exponent" ⟨"PREC_POWER", 0⟩ false)]) ⟨"PREC_POWER", 0⟩)) := by rfl
theorem c06t_body_map_product : tableCurrent.handlerBody "map_product" = some
    (.setForce ["Quotient", "FloorDiv", "Remainder"] ["Quotient", "FloorDiv", "Remainder"]
      (.ret (.parenIf (.join "*" (.recEach (.field "children") ⟨"PREC_PRODUCT", 0⟩ true)) ⟨"PREC_PRODUCT", 0⟩))) := by rfl
theorem c06t_body_map_quotient : tableCurrent.handlerBody "map_quotient" = some
    (.setForce ["Product", "Quotient", "FloorDiv", "Remainder"] ["Product", "Quotient", "FloorDiv", "Remainder"]
      (.ret (.parenIf (.fmt [.hole, .lit " / ", .hole] [(.recF "numerator" ⟨"PREC_PRODUCT", 0⟩ true), (.recF "denominator" ⟨"PREC_PRODUCT", 0⟩ true)]) ⟨"PREC_PRODUCT", 0⟩))) := by rfl
theorem c06t_body_map_remainder : tableCurrent.handlerBody "map_remainder" = some
    (.setForce ["Product", "Quotient", "FloorDiv", "Remainder"] ["Product", "Quotient", "FloorDiv", "Remainder"]
      (.ret (.parenIf (.fmt [.hole, .lit " % ", .hole] [(.recF "numerator" ⟨"PREC_PRODUCT", 0⟩ true), (.recF "denominator" ⟨"PREC_PRODUCT", 0⟩ true)]) ⟨"PREC_PRODUCT", 0⟩))) := by rfl
theorem c06t_body_map_right_shift : tableCurrent.handlerBody "map_right_shift" = some
    (.ret (.parenIf (.fmt [.hole, .lit " >> ", .hole] [(.recF "shiftee" ⟨"PREC_SHIFT", 1⟩ false), (.recF "shift" ⟨"PREC_SHIFT", 1⟩ false)]) ⟨"PREC_SHIFT", 0⟩)) := by rfl
theorem c06t_body_map_slice : tableCurrent.handlerBody "map_slice" = some
    (.assign "children" (.recEachOpt (.field "children") ⟨"PREC_NONE", 0⟩ "")
      (.ret (.parenIf (.join ":" (.var "children")) ⟨"PREC_NONE", 0⟩))) := by rfl
theorem c06t_body_map_subscript : tableCurrent.handlerBody "map_subscript" = some
    (.assign "index_str" (.cond (.isTuple "index") (.join ", " (.recEach (.field "index") ⟨"PREC_NONE", 0⟩ true)) (.recF "index" ⟨"PREC_NONE", 0⟩ false))
      (.ret (.parenIf (.fmt [.hole, .lit "[", .hole, .lit "]"] [(.recF "aggregate" ⟨"PREC_CALL", 0⟩ false), (.var "index_str")]) ⟨"PREC_CALL", 0⟩))) := by rfl
theorem c06t_body_map_substitution : tableCurrent.handlerBody "map_substitution" = some
    (.assign "substs" (.join ", " (.zipEach [.hole, .lit "=", .hole] "variables" "values" ⟨"PREC_NONE", 0⟩))
      (.ret (.fmt [.lit "[", .hole, .lit "]{", .hole, .lit "}"] [(.recF "child" ⟨"PREC_NONE", 0⟩ false), (.var "substs")]))) := by rfl
theorem c06t_body_map_sum : tableCurrent.handlerBody "map_sum" = some
    (.ret (.parenIf (.join " + " (.recEach (.field "children") ⟨"PREC_SUM", 0⟩ true)) ⟨"PREC_SUM", 0⟩)) := by rfl
theorem c06t_body_map_tuple : tableCurrent.handlerBody "map_tuple" = some
    (.assign "el_str" (.join ", " (.recEach .self ⟨"PREC_NONE", 0⟩ false))
      (.assign "el_str" (.cond (.lenEq .self 1) (.cat (.var "el_str") (.lit ",")) (.var "el_str"))
      (.ret (.fmt [.lit "(", .hole, .lit ")"] [(.var "el_str")])))) := by rfl
theorem c06t_body_map_variable : tableCurrent.handlerBody "map_variable" = some
    (.ret (.attr "name")) := by rfl
theorem c06t_body_map_wildcard : tableCurrent.handlerBody "map_wildcard" = some
    (.ret (.lit "*")) := by rfl

theorem c06t_lit_0 : c06tLit "(" = some [sy ("(")] := by decide
theorem c06t_lit_1 : c06tLit ")" = some [sy (")")] := by decide
theorem c06t_lit_2 : c06tLit " & " = some [.sp, sy ("&"), .sp] := by decide
theorem c06t_lit_3 : c06tLit "~" = some [sy ("~")] := by decide
theorem c06t_lit_4 : c06tLit " | " = some [.sp, sy ("|"), .sp] := by decide
theorem c06t_lit_5 : c06tLit " ^ " = some [.sp, sy ("^"), .sp] := by decide
theorem c06t_lit_6 : c06tLit ", " = some [sy (","), .sp] := by decide
theorem c06t_lit_7 : c06tLit "=" = some [sy ("=")] := by decide
theorem c06t_lit_8 : c06tLit "CSE" = some [.tok (.ident "CSE")] := by decide
theorem c06t_lit_9 : c06tLit " " = some [.sp] := by decide
theorem c06t_lit_10 : c06tLit "-" = some [sy ("-")] := by decide
theorem c06t_lit_11 : c06tLit "+" = some [sy ("+")] := by decide
theorem c06t_lit_12 : c06tLit "d/d" = some [.tok (.ident "d"), sy ("/"), .tok (.ident "d")] := by decide
theorem c06t_lit_13 : c06tLit " // " = some [.sp, sy ("//"), .sp] := by decide
theorem c06t_lit_14 : c06tLit " if " = some [.sp, sy ("if"), .sp] := by decide
theorem c06t_lit_15 : c06tLit " else " = some [.sp, sy ("else"), .sp] := by decide
theorem c06t_lit_16 : c06tLit " << " = some [.sp, sy ("<<"), .sp] := by decide
theorem c06t_lit_17 : c06tLit "[" = some [sy ("[")] := by decide
theorem c06t_lit_18 : c06tLit "]" = some [sy ("]")] := by decide
theorem c06t_lit_19 : c06tLit " and " = some [.sp, sy ("and"), .sp] := by decide
theorem c06t_lit_20 : c06tLit "not " = some [sy ("not"), .sp] := by decide
theorem c06t_lit_21 : c06tLit " or " = some [.sp, sy ("or"), .sp] := by decide
theorem c06t_lit_22 : c06tLit "." = some [sy (".")] := by decide
theorem c06t_lit_23 : c06tLit "NaN" = some [.tok (.ident "NaN")] := by decide
theorem c06t_lit_24 : c06tLit "**" = some [sy ("**")] := by decide
theorem c06t_lit_25 : c06tLit "*" = some [sy ("*")] := by decide
theorem c06t_lit_26 : c06tLit " / " = some [.sp, sy ("/"), .sp] := by decide
theorem c06t_lit_27 : c06tLit " % " = some [.sp, sy ("%"), .sp] := by decide
theorem c06t_lit_28 : c06tLit " >> " = some [.sp, sy (">>"), .sp] := by decide
theorem c06t_lit_29 : c06tLit "" = some [] := by decide
theorem c06t_lit_30 : c06tLit ":" = some [sy (":")] := by decide
theorem c06t_lit_31 : c06tLit "]{" = some [sy ("]"), sy ("{")] := by decide
theorem c06t_lit_32 : c06tLit "}" = some [sy ("}")] := by decide
theorem c06t_lit_33 : c06tLit " + " = some [.sp, sy ("+"), .sp] := by decide
theorem c06t_lit_34 : c06tLit "," = some [sy (",")] := by decide
theorem c06t_lit_35 : c06tLit " > 0 else " = some [.sp, sy (">"), .sp, .tok (.ident "0"), .sp, sy ("else"), .sp] := by decide

theorem c06t_helpers : tableCurrent.helpers =
    { parenthesize := [.lit "(", .hole, .lit ")"], parenIfCmp := .gt,
      parenIfWrap := [.lit "(", .hole, .lit ")"], forceKw := "force_parens_around",
      forceDefault := [], forceWrap := [.lit "(", .hole, .lit ")"] } := by rfl

theorem c06t_h_parenthesize :
    tableCurrent.helpers.parenthesize = [.lit "(", .hole, .lit ")"] := by rfl
theorem c06t_h_parenIfCmp : tableCurrent.helpers.parenIfCmp = .gt := by rfl
theorem c06t_h_parenIfWrap :
    tableCurrent.helpers.parenIfWrap = [.lit "(", .hole, .lit ")"] := by rfl
theorem c06t_h_forceDefault : tableCurrent.helpers.forceDefault = [] := by rfl
theorem c06t_h_forceWrap :
    tableCurrent.helpers.forceWrap = [.lit "(", .hole, .lit ")"] := by rfl

theorem c06t_foreign_int :
    c06tForeignRule tableCurrent.constKinds "int" tableCurrent.foreign = some "map_constant" := by rfl
theorem c06t_foreign_bool :
    c06tForeignRule tableCurrent.constKinds "bool" tableCurrent.foreign = some "map_constant" := by rfl
theorem c06t_foreign_float :
    c06tForeignRule tableCurrent.constKinds "float" tableCurrent.foreign = some "map_constant" := by rfl
theorem c06t_foreign_str :
    c06tForeignRule tableCurrent.constKinds "str" tableCurrent.foreign = none := by rfl
theorem c06t_foreign_none :
    c06tForeignRule tableCurrent.constKinds "NoneType" tableCurrent.foreign = none := by rfl

theorem c06t_foreign_tuple :
    c06tForeignRule tableCurrent.constKinds "tuple" tableCurrent.foreign = some "map_tuple" := by rfl

theorem c06t_foreign_list :
    c06tForeignRule tableCurrent.constKinds "list" tableCurrent.foreign = some "map_list" := by rfl

theorem c06t_foreign_else : tableCurrent.foreignElse = "ValueError" := by rfl

/-! ### child lists -/

/-- the children of a tuple-valued attribute as the hand-written model prints them -/
def kidsOf (S : PrintPrec) : List Expr → List C06TChild
  | [] => []
  | c :: cs => ⟨c.c06tCls, strE S c⟩ :: kidsOf S cs

theorem kidsOf_length (S : PrintPrec) : ∀ cs, (kidsOf S cs).length = cs.length
  | [] => rfl
  | _ :: cs => by simp [kidsOf, kidsOf_length S cs]

/-- plain recursion over a child list = `strL` -/
theorem runAll_plain (H : C06THelpers) (S : PrintPrec) (p : Nat) :
    ∀ cs, c06tRunAll H none (kidsOf S cs) p = strL S cs p
  | [] => rfl
  | c :: cs => by simp [kidsOf, c06tRunAll, strL, runAll_plain H S p cs]

/-! ### the class tuples under `force_parens_around` -/

/-- `(Quotient, FloorDiv, Remainder)` (what `map_product` forces) is the model's `isDivision` -/
theorem div_classes (e : Expr) :
    ["Quotient", "FloorDiv", "Remainder"].contains e.c06tCls = isDivision e := by
  cases e with
  | const c => cases c <;> rfl
  | nary o _ => cases o <;> rfl
  | bin o _ _ => cases o <;> rfl
  | un o _ => cases o <;> rfl
  | _ => rfl

/-- `multiplicative_primitives` (what the three divisions force) is the model's
`isMultiplicative` -/
theorem mult_classes (e : Expr) :
    ["Product", "Quotient", "FloorDiv", "Remainder"].contains e.c06tCls = isMultiplicative e := by
  cases e with
  | const c => cases c <;> rfl
  | nary o _ => cases o <;> rfl
  | bin o _ _ => cases o <;> rfl
  | un o _ => cases o <;> rfl
  | _ => rfl

/-- `rec_with_force_parens_around` of the current source on a child of the model -/
theorem recForce_eq (S : PrintPrec) (fp : List String) (c : Expr) (p : Nat) :
    c06tRecForce tableCurrent.helpers fp ⟨c.c06tCls, strE S c⟩ p = (do
      let r ← strE S c p
      pure (if fp.contains c.c06tCls then parens r else r)) := by
  simp [c06tRecForce, c06t_h_forceWrap, c06tFill, c06t_lit_0, c06t_lit_1, parens]

theorem recForce_div (S : PrintPrec) (c : Expr) (p : Nat) :
    c06tRecForce tableCurrent.helpers ["Quotient", "FloorDiv", "Remainder"] ⟨c.c06tCls, strE S c⟩ p
      = (do let r ← strE S c p; pure (forceWrap false c r)) := by
  rw [recForce_eq, div_classes]; rfl

theorem recForce_mult (S : PrintPrec) (c : Expr) (p : Nat) :
    c06tRecForce tableCurrent.helpers ["Product", "Quotient", "FloorDiv", "Remainder"]
        ⟨c.c06tCls, strE S c⟩ p
      = (do let r ← strE S c p; pure (forceWrap true c r)) := by
  rw [recForce_eq, mult_classes]; rfl

theorem recForce_nil (S : PrintPrec) (c : Expr) (p : Nat) :
    c06tRecForce tableCurrent.helpers [] ⟨c.c06tCls, strE S c⟩ p = strE S c p := by
  rw [recForce_eq]; simp

/-- `join_rec` without forced classes = `strL` -/
theorem runAll_force_nil (S : PrintPrec) (p : Nat) :
    ∀ cs, c06tRunAll tableCurrent.helpers (some []) (kidsOf S cs) p = strL S cs p
  | [] => rfl
  | c :: cs => by
      simp only [kidsOf, c06tRunAll, strL, runAll_force_nil S p cs, recForce_nil]

/-- `join_rec` under `map_product` = `strForceL … false` -/
theorem runAll_force_div (S : PrintPrec) (p : Nat) :
    ∀ cs, c06tRunAll tableCurrent.helpers (some ["Quotient", "FloorDiv", "Remainder"])
        (kidsOf S cs) p = strForceL S false cs p
  | [] => rfl
  | c :: cs => by
      simp only [kidsOf, c06tRunAll, strForceL, runAll_force_div S p cs, recForce_div]
      simp

theorem cls_none_iff (c : Expr) : c.c06tCls = "NoneType" ↔ c = .const .none := by
  cases c with
  | const k => cases k <;> simp [Expr.c06tCls, Const.c06tKind]
  | nary o _ => cases o <;> simp [Expr.c06tCls, NaryOp.name]
  | bin o _ _ => cases o <;> simp [Expr.c06tCls, BinOp.name]
  | un o _ => cases o <;> simp [Expr.c06tCls, UnOp.name]
  | _ => simp [Expr.c06tCls]

/-- the loop of `map_slice` = `strSliceL` -/
theorem runAllOpt_eq (S : PrintPrec) :
    ∀ cs, c06tRunAllOpt [] (kidsOf S cs) S.none = strSliceL S cs
  | [] => rfl
  | c :: cs => by
      by_cases h : c = .const .none
      · subst h
        simp [kidsOf, c06tRunAllOpt, strSliceL, runAllOpt_eq S cs, Expr.c06tCls, Const.c06tKind]
      · have h' : ¬ c.c06tCls = "NoneType" := fun hc => h ((cls_none_iff c).mp hc)
        rw [strSliceL]
        · simp [kidsOf, c06tRunAllOpt, h', runAllOpt_eq S cs]
        · exact h


/-- the keyword arguments: `"{}={}".format(name, value)` for every pair -/
theorem fillPairs_kw : ∀ (ns : List String) (xs : List Pieces),
    c06tFillPairs [.hole, .lit "=", .hole] ((c06tIdents ns).zip xs)
      = pure ((ns.zip xs).map fun p => (.tok (.ident p.1) : Piece) :: sy "=" :: p.2)
  | [], _ => rfl
  | _ :: _, [] => rfl
  | n :: ns, x :: xs => by
      have ih := fillPairs_kw ns xs
      simp only [c06tIdents] at ih
      simp [c06tIdents, c06tFillPairs, c06tFill, c06t_lit_7, ih]

theorem cls_ne_tuple (i : Expr) (hi : ∀ cs, i ≠ .tuple cs) : i.c06tCls ≠ "tuple" := by
  cases i with
  | const k => cases k <;> simp [Expr.c06tCls, Const.c06tKind]
  | nary o _ => cases o <;> simp [Expr.c06tCls, NaryOp.name]
  | bin o _ _ => cases o <;> simp [Expr.c06tCls, BinOp.name]
  | un o _ => cases o <;> simp [Expr.c06tCls, UnOp.name]
  | tuple cs => exact absurd rfl (hi cs)
  | _ => simp [Expr.c06tCls]

theorem ite_pure_eq {α : Type} (c : Prop) [Decidable c] (a b : α) :
    (if c then (pure a : Except SErr α) else pure b) = pure (if c then a else b) := by
  split <;> rfl

end PV.C06T
