import PV.Model.Eval
/-
  Helper lemmas for C02: the stateful evaluator simulates the denotation.
-/
namespace PV

/-- A set of expressions closed under taking children, on which Python `==` coincides with
structural identity, and free of (unhashable) Python lists. -/
structure Universe (U : Expr → Prop) : Prop where
  closed : ∀ e, U e → ∀ c ∈ e.children, U c
  coherent : ∀ a b, U a → U b → a.pyEq b = true → a = b
  nolist : ∀ e, U e → e.hasList = false

/-- Cache invariant: every stored result is the denotation of its key. -/
def EvInv (env : Env) (U : Expr → Prop) (s : EvState) : Prop :=
  (∀ k v, (k, v) ∈ s.cse → U k ∧ den env k = .ok v) ∧
  (∀ k v, (k, v) ∈ s.memo → U k ∧ den env k = .ok v)

theorem findBy_some {eq : Expr → Expr → Bool} {e : Expr} {l : List (Expr × Value)} {v : Value}
    (h : findBy eq e l = some v) : ∃ k, (k, v) ∈ l ∧ eq k e = true := by
  induction l with
  | nil => simp [findBy] at h
  | cons p rest ih =>
    obtain ⟨k', v'⟩ := p
    simp only [findBy] at h
    by_cases hk : eq k' e = true
    · simp [hk] at h; subst h; exact ⟨k', by simp, hk⟩
    · simp [hk] at h
      obtain ⟨k, hm, he⟩ := ih h
      exact ⟨k, by simp [hm], he⟩

/-- `m` computes `d` from every state satisfying the invariant and re-establishes it. -/
def Sim (env : Env) (U : Expr → Prop) {α : Type} (m : EvM α) (d : Except Err α) : Prop :=
  ∀ s, EvInv env U s → ∃ s', m s = (d, s') ∧ EvInv env U s'

variable {env : Env} {U : Expr → Prop}

theorem Sim.pure {α} (a : α) : Sim env U (EvM.pure a) (.ok a) :=
  fun s h => ⟨s, rfl, h⟩

theorem Sim.throw {α} (e : Err) : Sim env U (EvM.throw e : EvM α) (.error e) :=
  fun s h => ⟨s, rfl, h⟩

theorem Sim.lift {α} (x : Except Err α) : Sim env U (EvM.lift x) x :=
  fun s h => ⟨s, rfl, h⟩

theorem Sim.bind {α β} {m : EvM α} {d : Except Err α} {f : α → EvM β} {g : α → Except Err β}
    (hm : Sim env U m d) (hf : ∀ a, Sim env U (f a) (g a)) :
    Sim env U (m >>= f) (d >>= g) := by
  intro s hs
  obtain ⟨s1, h1, i1⟩ := hm s hs
  cases d with
  | error e =>
    refine ⟨s1, ?_, i1⟩
    show EvM.bind m f s = _
    simp only [EvM.bind, h1]; rfl
  | ok a =>
    obtain ⟨s2, h2, i2⟩ := hf a s1 i1
    refine ⟨s2, ?_, i2⟩
    show EvM.bind m f s = _
    simp only [EvM.bind, h1, h2]; rfl

theorem Sim.ite {α} {c : Bool} {m1 m2 : EvM α} {d1 d2 : Except Err α}
    (h1 : Sim env U m1 d1) (h2 : Sim env U m2 d2) :
    Sim env U (if c then m1 else m2) (if c then d1 else d2) := by
  cases c <;> simpa

theorem keyEq_pyEq {a b : Expr} (h : a.keyEq b = true) : a.pyEq b = true := by
  simp only [Expr.keyEq, Bool.and_eq_true] at h; exact h.2

/-- The memoising dispatch wrapper is transparent. -/
theorem Sim.memo (hU : Universe U) {cached : Bool} {e : Expr} {k : EvM Value}
    (he : U e) (hk : Sim env U k (den env e)) :
    Sim env U (withMemo cached e k) (den env e) := by
  intro s hs
  unfold withMemo
  cases cached with
  | false => simpa using hk s hs
  | true =>
    simp only [if_true, hU.nolist e he, Bool.false_eq_true, if_false]
    cases hf : findBy Expr.keyEq e s.memo with
    | some v =>
      obtain ⟨k', hmem, heq⟩ := findBy_some hf
      obtain ⟨hUk, hden⟩ := hs.2 k' v hmem
      have : k' = e := hU.coherent k' e hUk he (keyEq_pyEq heq)
      subst this
      exact ⟨s, by simp [hden], hs⟩
    | none =>
      obtain ⟨s1, h1, i1⟩ := hk s hs
      cases hd : den env e with
      | error err =>
        refine ⟨s1, ?_, i1⟩
        simp [h1, hd]
      | ok v =>
        refine ⟨{ s1 with memo := (e, v) :: s1.memo }, ?_, ?_⟩
        · simp [h1, hd]
        · refine ⟨i1.1, ?_⟩
          intro k' v' hm
          simp only [List.mem_cons, Prod.mk.injEq] at hm
          rcases hm with ⟨rfl, rfl⟩ | hm
          · exact ⟨he, hd⟩
          · exact i1.2 k' v' hm

/-- The CSE result cache of `CSECachingMapperMixin` is transparent. -/
theorem Sim.cse (hU : Universe U) {cached : Bool} {c : Expr} {p : Option String} {sc : String}
    (he : U (.cse c p sc)) (hk : Sim env U (withMemo cached c (evalNode cached env c)) (den env c)) :
    Sim env U (evalNode cached env (.cse c p sc)) (den env (.cse c p sc)) := by
  intro s hs
  have hl : c.hasList = false := by
    have := hU.nolist _ he; simpa [Expr.hasList] using this
  simp only [evalNode, hl, Bool.false_eq_true, if_false]
  cases hf : findBy Expr.pyEq (.cse c p sc) s.cse with
  | some v =>
    obtain ⟨k', hmem, heq⟩ := findBy_some hf
    obtain ⟨hUk, hden⟩ := hs.1 k' v hmem
    have : k' = .cse c p sc := hU.coherent k' _ hUk he heq
    subst this
    exact ⟨s, by simp [hden], hs⟩
  | none =>
    obtain ⟨s1, h1, i1⟩ := hk s hs
    have hd' : den env (.cse c p sc) = den env c := by simp [den]
    cases hd : den env c with
    | error err =>
      refine ⟨s1, ?_, i1⟩
      simp [h1, hd, hd']
    | ok v =>
      refine ⟨{ s1 with cse := (.cse c p sc, v) :: s1.cse }, ?_, ?_⟩
      · simp [h1, hd, hd']
      · refine ⟨?_, i1.2⟩
        intro k' v' hm
        simp only [List.mem_cons, Prod.mk.injEq] at hm
        rcases hm with ⟨rfl, rfl⟩ | hm
        · exact ⟨he, by rw [hd', hd]⟩
        · exact i1.1 k' v' hm

end PV
