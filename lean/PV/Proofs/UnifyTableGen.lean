import PV.Proofs.UnifyTable
/-
  C16 (T-gen), part 2: the nested generator functions of `map_commut_assoc` (`subsets`,
  `partitions`, `match_plain_var_candidates`, `match_children`) and `map_commut_assoc` itself, as
  the table `c16Expected` has them, run by the table interpreter: closed forms = the functions
  `subsetsUpTo`, `partitions`, `bindParts`, `matchPlain`, `matchChildren`, `candTable` of the model.
-/
open PV PV.Unify
namespace PV.Unify

abbrev c16N_subsets : String :=
  "UnidirectionalUnifier.map_commut_assoc.match_plain_var_candidates.subsets"
abbrev c16N_partitions : String :=
  "UnidirectionalUnifier.map_commut_assoc.match_plain_var_candidates.partitions"
abbrev c16N_match_plain : String :=
  "UnidirectionalUnifier.map_commut_assoc.match_plain_var_candidates"
abbrev c16N_match_children : String :=
  "UnidirectionalUnifier.map_commut_assoc.match_children"

/-! ### `subsets(s, max_size)` -/

def ssBody : List C16S :=
  [(.yieldFrom (.builtin .combinations [(.name "s"), (.name "size")]))]

def ssSt (s : List Nat) (m : Int) (sz : C16Val) (out : List C16Val) : C16St :=
  { env := [("s", .idxs s), ("max_size", .int m), ("size", sz)], attrs := [], out := out, ctl := .run }

theorem c16Loop_subsets (cx : C16Ctx) (s : List Nat) (m : Int) :
    ∀ (L : List Nat) (sz : C16Val) (out : List C16Val),
      ∃ sz', c16Loop (c16LoopBody cx ["size"] ssBody) (L.map fun i => .int (Int.ofNat (i + 1)))
          (ssSt s m sz out)
        = ssSt s m sz' (out ++ (L.flatMap fun i => combinations s (i + 1)).map .idxs) := by
  intro L
  induction L with
  | nil => intro sz out; exact ⟨sz, by simp [c16Loop]⟩
  | cons i L ih =>
    intro sz out
    simp only [List.map_cons, c16Loop]
    have hstep : c16LoopBody cx ["size"] ssBody (.int (Int.ofNat (i + 1))) (ssSt s m sz out)
        = ssSt s m (.int (Int.ofNat (i + 1))) (out ++ (combinations s (i + 1)).map .idxs) := by
      simp only [c16LoopBody, ssBody, ssSt]
      have h0 : (0 : Int) ≤ (i : Int) + 1 := by omega
      have h1 : ((i : Int) + 1).toNat = i + 1 := by omega
      c16eval [h0, h1]
    rw [hstep]
    obtain ⟨sz', h⟩ := ih (.int (Int.ofNat (i + 1))) (out ++ (combinations s (i + 1)).map .idxs)
    refine ⟨sz', ?_⟩
    simp only [ssSt] at h ⊢
    rw [h]; simp

theorem c16Range_one (m : Int) :
    (c16Range 1 (m + 1)).map (fun i => C16Val.int ((i : Nat) : Int))
      = (List.range m.toNat).map fun i => C16Val.int (Int.ofNat (i + 1)) := by
  simp [c16Range, List.map_map, Function.comp_def]

theorem c16Gen_subsets (cx : C16Ctx) (s : List Nat) (m : Int) :
    c16CallGen cx c16X_Uni_mca_mpv_subsets [.idxs s, .int m]
      = .ok ((subsetsUpTo s m.toNat).map .idxs) := by
  obtain ⟨sz', hl⟩ := c16Loop_subsets cx s m (List.range m.toNat) .unbound []
  simp only [ssSt, ssBody, List.nil_append] at hl
  simp only [c16CallGen, c16X_Uni_mca_mpv_subsets, c16RunFn, c16BindParams, Option.map, List.map]
  simp only [C16S.execList, exec_forIn]
  c16eval []
  rw [c16Range_one, hl]
  simp [c16ForEnd, C16S.execList, subsetsUpTo]

/-! ### what the nested functions see of `map_commut_assoc`, and what the generators mean -/

/-- the factory never makes a tuple / list out of operands of the target (then
`unification_record_from_equation` would return `None` and `result.unify(None)` raise) -/
def c16Safe (o : NaryOp) (ds : List Expr) : Prop :=
  ∀ sub : List Nat, c16IsSeq (factory o (sub.map fun i => ds.getD i zero)) = false

/-- the variables of `map_commut_assoc` when the nested functions run: the free-variable operands
`names`, the other operands `nv`, the candidate table `t` (one row per element of `nv`), the incoming
records `us`, the operands `ds` of the target, the factory `o` -/
structure C16Clo (cl : C16Env) (cands : List String) (o : NaryOp) (names : List String)
    (nv : List Expr) (t : List (List (Nat × List URec))) (us : List URec) (ds : List Expr) : Prop where
  other : ∃ oth, C16Env.get "other" cl = some (.obj oth) ∧
    oth.c16Attr "children" = some (.obj (.tuple ds))
  urecs : ∃ v, C16Env.get "urecs" cl = some v ∧ v.asRecs = some us
  factory : C16Env.get "factory" cl = some (.factory o)
  plain : C16Env.get "plain_var_candidates" cl = some (.objs (names.map .var))
  nonvar : C16Env.get "non_var_children" cl = some (.objs nv)
  table : ∃ tv, C16Env.get "unification_candidates" cl = some tv ∧ tv.asTable = some t
  self : C16Env.get "self" cl = some .self
  len : nv.length = t.length
  names_in : ∀ x ∈ names, x ∈ cands
  safe : c16Safe o ds
  twf : ∀ row ∈ t, ∀ p ∈ row, ∀ r ∈ p.2, r.WF

/-- what the generator callees mean: the functions of the model (`recur` is `self.rec`) -/
structure C16GenSpec (cands : List String)
    (gen : C16Env → C16Callee → List C16Val → Option (List C16Val)) : Prop where
  subsets : ∀ cl s (m : Int),
    gen cl (.nested c16N_subsets) [.idxs s, .int m] = some ((subsetsUpTo s m.toNat).map .idxs)
  partitions : ∀ cl s (k : Int),
    gen cl (.nested c16N_partitions) [.idxs s, .int k] = some ((partitions k.toNat s).map .parts)
  match_plain : ∀ cl o names nv t us ds u left, C16Clo cl cands o names nv t us ds → u.WF →
    gen cl (.nested c16N_match_plain) [.urec u, .idxs left]
      = some ((matchPlain cands o names (!nv.isEmpty) ds us u left).map .urec)
  match_children : ∀ cl o names nv t us ds u (i : Nat) left, C16Clo cl cands o names nv t us ds →
    u.WF →
    gen cl (.nested c16N_match_children) [.urec u, .int ((i : Nat) : Int), .idxs left]
      = some ((matchChildren cands o names (!nv.isEmpty) ds us (t.drop i) u left).map .urec)

/-! ### `partitions(s, k)` -/

def ptInner : List C16S :=
  [(.yield_ (.listStar (.name "subset") (.name "partition")))]

def ptSt (s : List Nat) (k : Int) (sub p : C16Val) (out : List C16Val) : C16St :=
  { env := [("s", .idxs s), ("k", .int k), ("subset", sub), ("partition", p)], attrs := [],
    out := out, ctl := .run }

theorem c16Loop_pt_inner (cx : C16Ctx) (s : List Nat) (k : Int) (sub : List Nat) :
    ∀ (P : List (List (List Nat))) (p : C16Val) (out : List C16Val),
      ∃ p', c16Loop (c16LoopBody cx ["partition"] ptInner) (P.map .parts) (ptSt s k (.idxs sub) p out)
        = ptSt s k (.idxs sub) p' (out ++ P.map fun q => .parts (sub :: q)) := by
  intro P
  induction P with
  | nil => intro p out; exact ⟨p, by simp [c16Loop]⟩
  | cons q P ih =>
    intro p out
    simp only [List.map_cons, c16Loop]
    have hstep : c16LoopBody cx ["partition"] ptInner (.parts q) (ptSt s k (.idxs sub) p out)
        = ptSt s k (.idxs sub) (.parts q) (out ++ [.parts (sub :: q)]) := by
      simp only [c16LoopBody, ptInner, ptSt]
      c16eval []
    rw [hstep]
    obtain ⟨p', h⟩ := ih (.parts q) (out ++ [.parts (sub :: q)])
    refine ⟨p', ?_⟩
    simp only [ptSt] at h ⊢
    rw [h]; simp

def ptOuter : List C16S :=
  [(.forIn ["partition"] (.localCall c16N_partitions [(.arith .sub (.name "s") (.name "subset")), (.arith .sub (.name "k") (.int 1))]) ptInner [])]

theorem c16Loop_pt_outer (cands : List String) (cx : C16Ctx) (hg : C16GenSpec cands cx.gen)
    (s : List Nat) (k : Int) :
    ∀ (L : List (List Nat)) (sub p : C16Val) (out : List C16Val),
      ∃ sub' p', c16Loop (c16LoopBody cx ["subset"] ptOuter) (L.map .idxs) (ptSt s k sub p out)
        = ptSt s k sub' p' (out ++ (L.flatMap fun c =>
            (partitions (k.toNat - 1) (s.filter fun i => !decide (i ∈ c))).map (c :: ·)).map .parts) := by
  intro L
  induction L with
  | nil => intro sub p out; exact ⟨sub, p, by simp [c16Loop]⟩
  | cons c L ih =>
    intro sub p out
    simp only [List.map_cons, c16Loop]
    obtain ⟨p1, hin⟩ := c16Loop_pt_inner cx s k c
      (partitions (k.toNat - 1) (s.filter fun i => !decide (i ∈ c))) p out
    have hstep : c16LoopBody cx ["subset"] ptOuter (.idxs c) (ptSt s k sub p out)
        = ptSt s k (.idxs c) p1 (out ++ (partitions (k.toNat - 1)
            (s.filter fun i => !decide (i ∈ c))).map fun q => .parts (c :: q)) := by
      simp only [c16LoopBody, ptOuter, ptSt]
      simp only [C16S.execList, exec_forIn]
      simp only [ptSt] at hin
      c16eval [hg.partitions, hin, c16ForEnd]
    rw [hstep]
    obtain ⟨sub', p', h⟩ := ih (.idxs c) p1 (out ++ (partitions (k.toNat - 1)
            (s.filter fun i => !decide (i ∈ c))).map fun q => .parts (c :: q))
    refine ⟨sub', p', ?_⟩
    simp only [ptSt] at h ⊢
    rw [h]; simp [List.map_map, Function.comp_def]

theorem partitions_unfold (s : List Nat) (k : Int) (hk : k ≠ 1) :
    partitions k.toNat s
      = (subsetsUpTo s ((s.length : Int) - k + 1).toNat).flatMap fun c =>
          (partitions (k.toNat - 1) (s.filter fun i => !decide (i ∈ c))).map (c :: ·) := by
  by_cases h : k < 1
  · have h0 : k.toNat = 0 := by omega
    simp [h0, partitions]
  · have h2 : 2 ≤ k := by omega
    obtain ⟨n, hn⟩ : ∃ n : Nat, k.toNat = n + 2 := ⟨k.toNat - 2, by omega⟩
    have hm : ((s.length : Int) - k + 1).toNat = s.length + 1 - (n + 2) := by omega
    rw [hn, hm]
    simp [partitions]

theorem c16Gen_partitions (cands : List String) (cx : C16Ctx) (hg : C16GenSpec cands cx.gen)
    (s : List Nat) (k : Int) :
    c16CallGen cx c16X_Uni_mca_mpv_partitions [.idxs s, .int k]
      = .ok ((partitions k.toNat s).map .parts) := by
  simp only [c16CallGen, c16X_Uni_mca_mpv_partitions, c16RunFn, c16BindParams, Option.map, List.map]
  by_cases hk : k = 1
  · subst hk
    c16eval [c16Collect, partitions]
  · obtain ⟨sub', p', hl⟩ := c16Loop_pt_outer cands cx hg s k
      (subsetsUpTo s ((s.length : Int) - k + 1).toNat) .unbound .unbound []
    simp only [ptSt, ptOuter, ptInner, List.nil_append] at hl
    simp only [C16S.execList, exec_forIn]
    have hk' : (k == 1) = false := by simpa using hk
    c16eval [hk', hg.subsets]
    rw [hl]
    simp [c16ForEnd, C16S.execList, partitions_unfold s k hk]

/-! ### well-formed records stay well-formed -/

theorem unifyMapGo_nodup (a : AMap) : ∀ (rest res out : AMap), res.keys.Nodup → rest.keys.Nodup →
    (∀ k ∈ rest.keys, k ∉ res.keys ∨ k ∈ a.keys) → unifyMapGo a res rest = some out →
    out.keys.Nodup := by
  intro rest
  induction rest with
  | nil => intro res out hr _ _ h; simp [unifyMapGo] at h; subst h; exact hr
  | cons p rest ih =>
    intro res out hr hnd hk h
    obtain ⟨k, v⟩ := p
    simp only [AMap.keys, List.map_cons, List.nodup_cons] at hnd
    simp only [unifyMapGo] at h
    cases hg : AMap.get a k with
    | some v1 =>
      simp only [hg] at h
      split at h
      · exact ih res out hr hnd.2 (fun k' hk' => hk k' (by simp [AMap.keys] at hk' ⊢; exact Or.inr hk')) h
      · cases h
    | none =>
      simp only [hg] at h
      have hnm : k ∉ a.keys := AMap.get_none_iff'.1 hg
      have hres : k ∉ res.keys := by
        rcases hk k (by simp [AMap.keys]) with h' | h'
        · exact h'
        · exact absurd h' hnm
      refine ih (res ++ [(k, v)]) out ?_ hnd.2 ?_ h
      · simp only [AMap.keys, List.map_append, List.map_cons, List.map_nil] at hres ⊢
        exact List.nodup_append.2 ⟨hr, by simp, by
          intro x hx y hy; simp at hy; subst hy; intro e; subst e; exact hres hx⟩
      · intro k' hk'
        have hne : k' ≠ k := fun e => hnd.1 (by simpa [AMap.keys, e] using hk')
        rcases hk k' (by simp [AMap.keys] at hk' ⊢; exact Or.inr hk') with h' | h'
        · left; simp [AMap.keys] at h' ⊢; exact ⟨h', hne⟩
        · exact Or.inr h'

theorem unifyMap_nodup {a b m : AMap} (ha : a.keys.Nodup) (hb : b.keys.Nodup)
    (h : unifyMap a b = some m) : m.keys.Nodup :=
  unifyMapGo_nodup a b a m ha hb (fun k _ => by
    by_cases hk : k ∈ a.keys
    · exact Or.inr hk
    · exact Or.inl hk) h

theorem unify_wf {a b r : URec} (ha : a.WF) (hb : b.WF) (h : a.unify b = some r) : r.WF := by
  simp only [URec.unify] at h
  cases h1 : unifyMap a.lmap b.lmap with
  | none => simp [h1] at h
  | some l =>
    cases h2 : unifyMap a.rmap b.rmap with
    | none => simp [h1, h2] at h
    | some m =>
      simp [h1, h2] at h
      subst h
      exact ⟨unifyMap_nodup ha.1 hb.1 h1, unifyMap_nodup ha.2 hb.2 h2⟩

theorem wf_empty : URec.empty.WF := by simp [URec.WF, URec.empty, AMap.keys]

theorem rec1_wf (l r : Expr) : (c16Rec1 l r).WF := by
  simp only [URec.WF, c16Rec1]
  cases c16VarName l <;> cases c16VarName r <;> simp [AMap.keys]

theorem unifyMany_wf {us : List URec} {n r : URec} (hus : ∀ u ∈ us, u.WF) (hn : n.WF)
    (h : r ∈ unifyMany us n) : r.WF := by
  simp only [unifyMany, List.mem_filterMap] at h
  obtain ⟨u, hu, hr⟩ := h
  exact unify_wf (hus u hu) hn hr

/-! ### `match_plain_var_candidates(urec, other_leftovers)` -/

theorem c16Collect_objs : ∀ l : List Expr, c16Collect (l.map .obj) = some (.objs l)
  | [] => rfl
  | e :: l => by simp [c16Collect, c16Collect_objs l]

theorem c16Zip_map {α β : Type} (f : α → C16Val) (g : β → C16Val) :
    ∀ (as : List α) (bs : List β),
      c16Zip (as.map f) (bs.map g) = (as.zip bs).map fun p => .tup (f p.1) (g p.2)
  | [], _ => by simp [c16Zip]
  | _ :: _, [] => by simp [c16Zip]
  | a :: as, b :: bs => by simp [c16Zip, c16Zip_map f g as bs]

/-- for a free variable the general `unification_record_from_equation` is the model's -/
theorem recFromEqG_var {cands : List String} {x : String} {rhs : Expr} (hx : x ∈ cands)
    (hr : c16IsSeq rhs = false) :
    c16RecFromEqG cands (.var x) rhs = some (c16Rec1 (.var x) rhs) := by
  have hv : c16IsSeq (Expr.var x) = false := rfl
  simp [c16RecFromEqG, hv, hr, hx]

theorem C16Env.get_set_same (x : String) (v : C16Val) : ∀ env : C16Env,
    C16Env.get x (C16Env.set x v env) = some v
  | [] => by simp [C16Env.set, C16Env.get]
  | (n, w) :: rest => by
    by_cases h : n = x
    · simp [C16Env.set, C16Env.get, h]
    · simp [C16Env.set, C16Env.get, h, C16Env.get_set_same x v rest]

theorem C16Env.get_set_other {x y : String} (h : x ≠ y) (v : C16Val) : ∀ env : C16Env,
    C16Env.get y (C16Env.set x v env) = C16Env.get y env
  | [] => by simp [C16Env.set, C16Env.get, h]
  | (n, w) :: rest => by
    by_cases hn : n = x
    · subst hn; simp [C16Env.set, C16Env.get, h]
    · by_cases hy : n = y
      · subst hy
        have h' : ¬ n = x := hn
        simp [C16Env.set, C16Env.get, h']
      · simp [C16Env.set, C16Env.get, hn, hy, C16Env.get_set_other h v rest]

/-- `(other.children[i] for i in subset)` -/
theorem c16Eval_share (cx : C16Ctx) (cl : C16Env) (hcl : cx.closure = some cl) (oth : Expr)
    (ds : List Expr) (ho : C16Env.get "other" cl = some (.obj oth))
    (hch : oth.c16Attr "children" = some (.obj (.tuple ds)))
    (env : C16Env) (hno : C16Env.get "other" env = none) :
    ∀ sub : List Nat,
      (sub.map fun j => C16Val.int ((j : Nat) : Int)).mapM
        (fun i => C16E.eval cx (C16Env.set "i" i env)
          (.index (.attr (.name "other") "children") (.name "i")))
      = some (sub.map fun j => .obj (ds.getD j zero)) := by
  intro sub
  induction sub with
  | nil => rfl
  | cons j sub ih =>
    have hne : ("i" : String) ≠ "other" := by decide
    have h1 : C16E.eval cx (C16Env.set "i" (.int (j : Int)) env)
        (.index (.attr (.name "other") "children") (.name "i")) = some (.obj (ds.getD j zero)) := by
      simp [C16E.eval, c16Lookup, C16Env.get_set_other hne, hno, hcl, ho, C16Val.attr, hch,
        C16Env.get_set_same, c16Index, c16Elems]
    simp only [List.map_cons, List.mapM_cons, h1, ih]
    rfl

theorem mapM_some' {α β : Type} (g : α → Option β) (h : α → β) :
    ∀ l : List α, (∀ a ∈ l, g a = some (h a)) → l.mapM g = some (l.map h)
  | [], _ => rfl
  | a :: l, hl => by
    have h1 := hl a (by simp)
    have h2 := mapM_some' g h l (fun b hb => hl b (by simp [hb]))
    simp only [List.mapM_cons, h1, h2, List.map_cons]
    rfl

/-- the share expression `factory(other.children[i] for i in subset)` -/
def c16ShareE : C16E :=
  .varCall "factory" [(.gen (.index (.attr (.name "other") "children") (.name "i")) "i" (.name "subset"))]

theorem c16Eval_shareE (cx : C16Ctx) (cl : C16Env) (hcl : cx.closure = some cl) (oth : Expr)
    (ds : List Expr) (o : NaryOp) (ho : C16Env.get "other" cl = some (.obj oth))
    (hch : oth.c16Attr "children" = some (.obj (.tuple ds)))
    (hf : C16Env.get "factory" cl = some (.factory o))
    (env : C16Env) (hno : C16Env.get "other" env = none) (hnf : C16Env.get "factory" env = none)
    (sub : List Nat) (hsub : C16Env.get "subset" env = some (.idxs sub)) :
    c16ShareE.eval cx env = some (.obj (factory o (sub.map fun j => ds.getD j zero))) := by
  have hshare := c16Eval_share cx cl hcl oth ds ho hch env hno sub
  generalize hE : (C16E.index (.attr (.name "other") "children") (.name "i")) = elt at hshare
  have hg : C16E.eval cx env (.gen elt "i" (.name "subset"))
      = some (.seq (sub.map fun j => .obj (ds.getD j zero))) := by
    simp only [C16E.eval, c16Lookup, hsub, isUnbound_idxs, C16Val.iter]
    simp [hshare]
  simp only [c16ShareE, hE]
  generalize C16E.gen elt "i" (.name "subset") = G at hg
  simp only [C16E.eval, C16E.evalArgs, hg, c16Lookup, hnf, hcl, Option.getD, hf,
    isUnbound_factory, C16Val.iter, c16Factory]
  have hc := c16Collect_objs (sub.map fun j => ds.getD j zero)
  simp only [List.map_map, Function.comp_def] at hc
  simp only [List.getD_eq_getElem?_getD] at hc ⊢
  simp [hc]

def mpInner (E : C16E) : List C16S :=
  [(.assign "rec" (.selfCall "unification_record_from_equation" [(.name "var"), E])),
   (.assign "result" (.meth (.name "result") "unify" [(.name "rec")])),
   (.ifThen (.not_ (.name "result")) [.brk] [])]

def mpEnv (u : URec) (left : List Nat) (part res sub var rc : C16Val) : C16Env :=
  [("urec", .urec u), ("other_leftovers", .idxs left), ("partition", part), ("result", res),
   ("subset", sub), ("var", var), ("rec", rc)]

def mpSt (u : URec) (left : List Nat) (part res sub var rc : C16Val) (out : List C16Val)
    (ctl : C16Ctl) : C16St :=
  { env := mpEnv u left part res sub var rc, attrs := [], out := out, ctl := ctl }

theorem c16Step_mp_inner (cands : List String) (cx : C16Ctx) (hs : C16FnSpec cands cx.fn)
    (E : C16E) (u : URec) (left : List Nat) (part subv var rc : C16Val) (out : List C16Val)
    (cur : URec) (sub : List Nat) (x : String) (rhs : Expr) (hx : x ∈ cands)
    (hr : c16IsSeq rhs = false)
    (hE : E.eval cx (mpEnv u left part (.urec cur) (.idxs sub) (.obj (.var x)) rc)
      = some (.obj rhs)) :
    c16LoopBody cx ["subset", "var"] (mpInner E) (.tup (.idxs sub) (.obj (.var x)))
        (mpSt u left part (.urec cur) subv var rc out .run)
      = match cur.unify (c16Rec1 (.var x) rhs) with
        | some u' => mpSt u left part (.urec u') (.idxs sub) (.obj (.var x))
            (.urec (c16Rec1 (.var x) rhs)) out .run
        | none => mpSt u left part .none (.idxs sub) (.obj (.var x))
            (.urec (c16Rec1 (.var x) rhs)) out .brk := by
  simp only [mpEnv] at hE
  have h1 := hs.rec_from_eq (.var x) rhs
  rw [recFromEqG_var hx hr] at h1
  have h2 := hs.unify cur (c16Rec1 (.var x) rhs) (rec1_wf _ _)
  simp only [c16LoopBody, mpInner, mpSt, mpEnv]
  cases hu : cur.unify (c16Rec1 (.var x) rhs) with
  | none =>
    simp only [hu, C16Val.ofOptRec] at h2
    c16evalA [hE, h1, h2, C16Val.ofOptRec, C16Val.truthy]
  | some u' =>
    simp only [hu, C16Val.ofOptRec] at h2
    c16evalA [hE, h1, h2, C16Val.ofOptRec, C16Val.truthy]

theorem c16_recFromEq_var {cands : List String} {x : String} {rhs : Expr} (hx : x ∈ cands)
    (hr : c16IsSeq rhs = false) : recFromEq cands x rhs = some (c16Rec1 (.var x) rhs) := by
  rw [recFromEq_eq_G, recFromEqG_var hx hr]

theorem c16Loop_mp_inner (cands : List String) (cx : C16Ctx) (hs : C16FnSpec cands cx.fn)
    (cl : C16Env) (hcl : cx.closure = some cl) (oth : Expr) (ds : List Expr) (o : NaryOp)
    (ho : C16Env.get "other" cl = some (.obj oth))
    (hch : oth.c16Attr "children" = some (.obj (.tuple ds)))
    (hf : C16Env.get "factory" cl = some (.factory o)) (hsafe : c16Safe o ds)
    (u : URec) (left : List Nat) (part : C16Val) (out : List C16Val) :
    ∀ (zs : List (List Nat × String)) (cur : URec) (subv var rc : C16Val),
      (∀ p ∈ zs, p.2 ∈ cands) →
      ∃ s' v' r', c16Loop (c16LoopBody cx ["subset", "var"] (mpInner c16ShareE))
          (zs.map fun p => .tup (.idxs p.1) (.obj (.var p.2)))
          (mpSt u left part (.urec cur) subv var rc out .run)
        = match bindParts cands o ds cur zs with
          | some u' => mpSt u left part (.urec u') s' v' r' out .run
          | none => mpSt u left part .none s' v' r' out .brk := by
  intro zs
  induction zs with
  | nil => intro cur subv var rc _; exact ⟨subv, var, rc, by simp [c16Loop, bindParts]⟩
  | cons p zs ih =>
    intro cur subv var rc hz
    obtain ⟨sub, x⟩ := p
    have hx : x ∈ cands := hz (sub, x) (by simp)
    have hr := hsafe sub
    have hE := c16Eval_shareE cx cl hcl oth ds o ho hch hf
      (mpEnv u left part (.urec cur) (.idxs sub) (.obj (.var x)) rc) (by simp [mpEnv, C16Env.get])
      (by simp [mpEnv, C16Env.get]) sub (by simp [mpEnv, C16Env.get])
    have hstep := c16Step_mp_inner cands cx hs c16ShareE u left part subv var rc out cur sub x _ hx hr hE
    simp only [List.map_cons, c16Loop, hstep, bindParts, c16_recFromEq_var hx hr]
    cases hu : cur.unify (c16Rec1 (.var x) (factory o (sub.map fun i => ds.getD i zero))) with
    | none =>
      exact ⟨.idxs sub, .obj (.var x), .urec (c16Rec1 (.var x) (factory o (sub.map fun i => ds.getD i zero))),
        by simp [mpSt]⟩
    | some u' =>
      obtain ⟨s', v', r', h⟩ := ih u' (.idxs sub) (.obj (.var x))
        (.urec (c16Rec1 (.var x) (factory o (sub.map fun i => ds.getD i zero))))
        (fun q hq => hz q (by simp [hq]))
      exact ⟨s', v', r', by simpa [mpSt] using h⟩

theorem recFromEq_wf {cands : List String} {x : String} {rhs : Expr} {n : URec}
    (h : recFromEq cands x rhs = some n) : n.WF := by
  cases rhs <;> simp only [recFromEq] at h <;>
    first
    | (split at h <;> first | (cases h; simp [URec.WF, AMap.keys]) | cases h)
    | cases h

theorem bindParts_wf {cands : List String} {o : NaryOp} {ds : List Expr} :
    ∀ (zs : List (List Nat × String)) (cur u' : URec), cur.WF →
      bindParts cands o ds cur zs = some u' → u'.WF := by
  intro zs
  induction zs with
  | nil => intro cur u' hc h; simp [bindParts] at h; subst h; exact hc
  | cons p zs ih =>
    intro cur u' hc h
    obtain ⟨sub, x⟩ := p
    simp only [bindParts] at h
    split at h
    · cases h
    · rename_i n hn
      split at h
      · cases h
      · rename_i w hw
        exact ih w u' (unify_wf hc (recFromEq_wf hn) hw) h

def mpOuter : List C16S :=
  [(.assign "result" (.name "urec")),
   (.forIn ["subset", "var"] (.builtin .zip [(.name "partition"), (.name "plain_var_candidates")])
      (mpInner c16ShareE)
      [(.ifThen (.cmp .ne (.builtin .len [(.name "non_var_children")]) (.int 0))
          [(.yield_ (.name "result")), (.ret none)] []),
       (.yieldFrom (.fnCall "unify_many" [(.name "urecs"), (.name "result")]))])]

/-- one iteration of the loop over the partitions -/
theorem c16Step_mp_outer (cands : List String) (cx : C16Ctx) (hs : C16FnSpec cands cx.fn)
    (cl : C16Env) (hcl : cx.closure = some cl) (o : NaryOp) (names : List String) (nv : List Expr)
    (t : List (List (Nat × List URec))) (us : List URec) (ds : List Expr)
    (hc : C16Clo cl cands o names nv t us ds) (u : URec) (hu : u.WF) (left : List Nat)
    (part : List (List Nat)) (pv res subv var rc : C16Val) (out : List C16Val) :
    ∃ res' s' v' r', c16LoopBody cx ["partition"] mpOuter (.parts part)
        (mpSt u left pv res subv var rc out .run)
      = match bindParts cands o ds u (part.zip names) with
        | none => mpSt u left (.parts part) res' s' v' r' out .run
        | some u' =>
          if nv.isEmpty then
            mpSt u left (.parts part) res' s' v' r' (out ++ (unifyMany us u').map .urec) .run
          else mpSt u left (.parts part) res' s' v' r' (out ++ [.urec u']) (.ret .none) := by
  obtain ⟨oth, ho, hch⟩ := hc.other
  obtain ⟨uv, huv, hus⟩ := hc.urecs
  obtain ⟨s', v', r', hin⟩ := c16Loop_mp_inner cands cx hs cl hcl oth ds o ho hch hc.factory hc.safe
    u left (.parts part) out (part.zip names) u subv var rc
    (fun p hp => hc.names_in _ (List.of_mem_zip hp).2)
  have hzip : c16Zip (part.map C16Val.idxs) (names.map (C16Val.obj ∘ Expr.var))
      = (part.zip names).map fun p => .tup (.idxs p.1) (.obj (.var p.2)) := by
    rw [c16Zip_map]; rfl
  have huvu : uv.isUnbound = false := by cases uv <;> simp_all [C16Val.asRecs]
  simp only [mpSt, mpEnv] at hin
  simp only [c16LoopBody, mpOuter, mpSt, mpEnv]
  simp only [C16S.execList, exec_forIn]
  c16evalA [hcl, hc.plain, C16Val.iter, hzip, hin]
  cases hb : bindParts cands o ds u (part.zip names) with
  | none =>
    refine ⟨.none, s', v', r', ?_⟩
    simp [c16ForEnd, mpSt, mpEnv]
  | some u' =>
    have hw : u'.WF := bindParts_wf _ _ _ hu hb
    have hm := hs.unify_many uv us u' hus hw
    by_cases hnv : nv = []
    · subst hnv
      refine ⟨.urec u', s', v', r', ?_⟩
      c16evalA [c16ForEnd, mpSt, mpEnv, hcl, hc.nonvar, C16Val.len, c16Cmp, C16Val.truthy, huv, huvu,
        hm, iter_of_asRecs (asRecs_ofRecs _)]
    · have hne : nv.isEmpty = false := by cases nv <;> simp_all
      have hlen : ((nv.length : Int) != 0) = true := by
        cases nv <;> simp_all
        omega
      refine ⟨.urec u', s', v', r', ?_⟩
      c16evalA [c16ForEnd, mpSt, mpEnv, hcl, hc.nonvar, C16Val.len, c16Cmp, C16Val.truthy, hne, hlen, hnv]

theorem c16Loop_mp_outer (cands : List String) (cx : C16Ctx) (hs : C16FnSpec cands cx.fn)
    (cl : C16Env) (hcl : cx.closure = some cl) (o : NaryOp) (names : List String) (nv : List Expr)
    (t : List (List (Nat × List URec))) (us : List URec) (ds : List Expr)
    (hc : C16Clo cl cands o names nv t us ds) (u : URec) (hu : u.WF) (left : List Nat) :
    ∀ (Ps : List (List (List Nat))) (pv res subv var rc : C16Val) (out : List C16Val),
      ∃ pv' res' s' v' r', c16Loop (c16LoopBody cx ["partition"] mpOuter) (Ps.map .parts)
          (mpSt u left pv res subv var rc out .run)
        = if nv.isEmpty then
            mpSt u left pv' res' s' v' r' (out ++ ((Ps.filterMap fun part =>
              bindParts cands o ds u (part.zip names)).flatMap fun w => unifyMany us w).map .urec) .run
          else match (Ps.filterMap fun part => bindParts cands o ds u (part.zip names)).head? with
            | some w => mpSt u left pv' res' s' v' r' (out ++ [.urec w]) (.ret .none)
            | none => mpSt u left pv' res' s' v' r' out .run := by
  intro Ps
  induction Ps with
  | nil =>
    intro pv res subv var rc out
    exact ⟨pv, res, subv, var, rc, by cases nv <;> simp [c16Loop]⟩
  | cons part Ps ih =>
    intro pv res subv var rc out
    obtain ⟨res1, s1, v1, r1, hstep⟩ := c16Step_mp_outer cands cx hs cl hcl o names nv t us ds hc u hu
      left part pv res subv var rc out
    simp only [List.map_cons, c16Loop, hstep, List.filterMap_cons]
    cases hb : bindParts cands o ds u (part.zip names) with
    | none =>
      obtain ⟨pv', res', s', v', r', h⟩ := ih (.parts part) res1 s1 v1 r1 out
      exact ⟨pv', res', s', v', r', by simpa [mpSt] using h⟩
    | some w =>
      by_cases hnv : nv.isEmpty = true
      · obtain ⟨pv', res', s', v', r', h⟩ := ih (.parts part) res1 s1 v1 r1
          (out ++ (unifyMany us w).map .urec)
        refine ⟨pv', res', s', v', r', ?_⟩
        simp only [hnv, if_true, mpSt] at h ⊢
        rw [h]; simp
      · exact ⟨.parts part, res1, s1, v1, r1, by simp [hnv, mpSt]⟩

/-- **`match_plain_var_candidates` is `matchPlain`.** -/
theorem c16Gen_match_plain (cands : List String) (cx : C16Ctx) (hs : C16FnSpec cands cx.fn)
    (hg : C16GenSpec cands cx.gen)
    (cl : C16Env) (hcl : cx.closure = some cl) (o : NaryOp) (names : List String) (nv : List Expr)
    (t : List (List (Nat × List URec))) (us : List URec) (ds : List Expr)
    (hc : C16Clo cl cands o names nv t us ds) (u : URec) (hu : u.WF) (left : List Nat) :
    c16CallGen cx c16X_Uni_mca_match_plain_var_candidates [.urec u, .idxs left]
      = .ok ((matchPlain cands o names (!nv.isEmpty) ds us u left).map .urec) := by
  obtain ⟨pv', res', s', v', r', hl⟩ := c16Loop_mp_outer cands cx hs cl hcl o names nv t us ds hc u hu
    left (partitions names.length left) .unbound .unbound .unbound .unbound .unbound []
  simp only [mpSt, mpEnv, mpOuter, mpInner, c16ShareE, List.nil_append] at hl
  simp only [c16CallGen, c16X_Uni_mca_match_plain_var_candidates, c16RunFn, c16BindParams, Option.map,
    List.map]
  simp only [C16S.execList, exec_forIn]
  by_cases h0 : names = [] ∧ left = []
  · obtain ⟨rfl, rfl⟩ := h0
    c16evalA [hcl, hc.plain, C16Val.len, c16Cmp, C16Val.truthy, matchPlain]
  · have hmp : (names.isEmpty && left.isEmpty) = false := by
      cases names <;> cases left <;> simp_all
    cases hq : ((names.length : Int) == (left.length : Int)) with
    | false =>
      c16evalA [hcl, hc.plain, C16Val.len, c16Cmp, C16Val.truthy, hq, hg.partitions, C16Val.iter]
      simp only [hl]
      by_cases hnv : nv.isEmpty = true
      · simp [hnv, c16ForEnd, C16S.execList, matchPlain, hmp]
      · simp only [hnv]
        cases hh : (List.filterMap (fun part => bindParts cands o ds u (part.zip names))
            (partitions names.length left)).head? with
        | none => simp [c16ForEnd, C16S.execList, matchPlain, hmp, hnv, hh]
        | some w => simp [c16ForEnd, C16S.execList, matchPlain, hmp, hnv, hh]
    | true =>
      have hz : ((left.length : Int) == 0) = false := by
        have h1 : (names.length : Int) = left.length := by simpa using hq
        cases left with
        | nil =>
          have h2 : names = [] := by
            cases names with
            | nil => rfl
            | cons a l => simp at h1; omega
          exact absurd ⟨h2, rfl⟩ h0
        | cons a l => simp; omega
      c16evalA [hcl, hc.plain, C16Val.len, c16Cmp, C16Val.truthy, hq, hz, hg.partitions, C16Val.iter]
      simp only [hl]
      by_cases hnv : nv.isEmpty = true
      · simp [hnv, c16ForEnd, C16S.execList, matchPlain, hmp]
      · simp only [hnv]
        cases hh : (List.filterMap (fun part => bindParts cands o ds u (part.zip names))
            (partitions names.length left)).head? with
        | none => simp [c16ForEnd, C16S.execList, matchPlain, hmp, hnv, hh]
        | some w => simp [c16ForEnd, C16S.execList, matchPlain, hmp, hnv, hh]

/-! ### `match_children(urec, next_cand_idx, other_leftovers)` -/

def mcSt (u : URec) (i : Nat) (left : List Nat) (oi pu nu nl cu : C16Val) (out : List C16Val) : C16St :=
  { env := [("urec", .urec u), ("next_cand_idx", .int ((i : Nat) : Int)), ("other_leftovers", .idxs left),
            ("other_idx", oi), ("pair_urecs", pu), ("new_urecs", nu), ("new_rhs_leftovers", nl),
            ("cand_urec", cu)],
    attrs := [], out := out, ctl := .run }

def mcInner : List C16S :=
  [(.yieldFrom (.localCall c16N_match_children [(.name "cand_urec"), (.arith .add (.name "next_cand_idx") (.int 1)), (.name "new_rhs_leftovers")]))]

theorem c16Loop_mc_inner (cands : List String) (cx : C16Ctx) (hg : C16GenSpec cands cx.gen)
    (cl : C16Env) (hcl : cx.closure = some cl) (o : NaryOp) (names : List String) (nv : List Expr)
    (t : List (List (Nat × List URec))) (us : List URec) (ds : List Expr)
    (hc : C16Clo cl cands o names nv t us ds) (u : URec) (i : Nat) (left left' : List Nat)
    (oi pu nu : C16Val) :
    ∀ (cus : List URec) (cu : C16Val) (out : List C16Val), (∀ c ∈ cus, c.WF) →
      ∃ cu', c16Loop (c16LoopBody cx ["cand_urec"] mcInner) (cus.map .urec)
          (mcSt u i left oi pu nu (.idxs left') cu out)
        = mcSt u i left oi pu nu (.idxs left') cu' (out ++ (cus.flatMap fun c =>
            matchChildren cands o names (!nv.isEmpty) ds us (t.drop (i + 1)) c left').map .urec) := by
  intro cus
  induction cus with
  | nil => intro cu out _; exact ⟨cu, by simp [c16Loop]⟩
  | cons c cus ih =>
    intro cu out hw
    have hmc := hg.match_children cl o names nv t us ds c (i + 1) left' hc (hw c (by simp))
    simp only [Int.natCast_add, Int.natCast_one] at hmc
    have hstep : c16LoopBody cx ["cand_urec"] mcInner (.urec c) (mcSt u i left oi pu nu (.idxs left') cu out)
        = mcSt u i left oi pu nu (.idxs left') (.urec c) (out ++
            (matchChildren cands o names (!nv.isEmpty) ds us (t.drop (i + 1)) c left').map .urec) := by
      simp only [c16LoopBody, mcInner, mcSt]
      c16eval [hcl, hmc]
    simp only [List.map_cons, c16Loop, hstep]
    obtain ⟨cu', h⟩ := ih (.urec c) (out ++
      (matchChildren cands o names (!nv.isEmpty) ds us (t.drop (i + 1)) c left').map .urec)
      (fun c' hc' => hw c' (by simp [hc']))
    refine ⟨cu', ?_⟩
    simp only [mcSt] at h ⊢
    rw [h]; simp

def mcMiddle : List C16S :=
  [(.ifThen (.cmp .notIn (.name "other_idx") (.name "other_leftovers")) [.cont] []),
   (.assign "new_urecs" (.fnCall "unify_many" [(.name "pair_urecs"), (.name "urec")])),
   (.assign "new_rhs_leftovers" (.arith .sub (.name "other_leftovers") (.setLit [(.name "other_idx")]))),
   (.forIn ["cand_urec"] (.name "new_urecs") mcInner [])]

theorem c16Loop_mc_middle (cands : List String) (cx : C16Ctx) (hs : C16FnSpec cands cx.fn)
    (hg : C16GenSpec cands cx.gen)
    (cl : C16Env) (hcl : cx.closure = some cl) (o : NaryOp) (names : List String) (nv : List Expr)
    (t : List (List (Nat × List URec))) (us : List URec) (ds : List Expr)
    (hc : C16Clo cl cands o names nv t us ds) (u : URec) (hu : u.WF) (i : Nat) (left : List Nat) :
    ∀ (row : List (Nat × List URec)) (oi pu nu nl cu : C16Val) (out : List C16Val),
      (∀ p ∈ row, ∀ r ∈ p.2, r.WF) →
      ∃ oi' pu' nu' nl' cu', c16Loop (c16LoopBody cx ["other_idx", "pair_urecs"] mcMiddle)
          (row.map fun p => .tup (.int ((p.1 : Nat) : Int)) (.recs p.2))
          (mcSt u i left oi pu nu nl cu out)
        = mcSt u i left oi' pu' nu' nl' cu' (out ++ (row.flatMap fun p =>
            if left.contains p.1 then
              (p.2.filterMap fun q => q.unify u).flatMap fun c =>
                matchChildren cands o names (!nv.isEmpty) ds us (t.drop (i + 1)) c
                  (left.filter (· != p.1))
            else []).map .urec) := by
  intro row
  induction row with
  | nil => intro oi pu nu nl cu out _; exact ⟨oi, pu, nu, nl, cu, by simp [c16Loop]⟩
  | cons p row ih =>
    intro oi pu nu nl cu out hw
    obtain ⟨j, pairs⟩ := p
    have hj0 : (0 : Int) ≤ (j : Int) := by omega
    by_cases hj : j ∈ left
    · have hum := hs.unify_many (.recs pairs) pairs u rfl hu
      have hwf : ∀ c ∈ unifyMany pairs u, c.WF := fun c hc' =>
        unifyMany_wf (fun q hq => hw (j, pairs) (by simp) q hq) hu hc'
      obtain ⟨cu1, hin⟩ := c16Loop_mc_inner cands cx hg cl hcl o names nv t us ds hc u i left
        (left.filter fun x => !decide (x = j)) (.int (j : Int)) (.recs pairs)
        (C16Val.ofRecs (unifyMany pairs u)) (unifyMany pairs u) cu out hwf
      have hstep : c16LoopBody cx ["other_idx", "pair_urecs"] mcMiddle
            (.tup (.int (j : Int)) (.recs pairs)) (mcSt u i left oi pu nu nl cu out)
          = mcSt u i left (.int (j : Int)) (.recs pairs) (C16Val.ofRecs (unifyMany pairs u))
              (.idxs (left.filter fun x => !decide (x = j))) cu1
              (out ++ ((unifyMany pairs u).flatMap fun c =>
                matchChildren cands o names (!nv.isEmpty) ds us (t.drop (i + 1)) c
                  (left.filter fun x => !decide (x = j))).map .urec) := by
        simp only [c16LoopBody, mcMiddle, mcSt]
        simp only [C16S.execList, exec_forIn]
        simp only [mcSt] at hin
        c16evalA [hj0, hj, hum, c16Cmp, C16Val.truthy, c16Arith, ofRecs_isUnbound,
          iter_of_asRecs (asRecs_ofRecs _), hin, c16ForEnd]
      simp only [List.map_cons, c16Loop, hstep]
      obtain ⟨oi', pu', nu', nl', cu', h⟩ := ih (.int (j : Int)) (.recs pairs)
        (C16Val.ofRecs (unifyMany pairs u)) (.idxs (left.filter fun x => !decide (x = j))) cu1
        (out ++ ((unifyMany pairs u).flatMap fun c =>
                matchChildren cands o names (!nv.isEmpty) ds us (t.drop (i + 1)) c
                  (left.filter fun x => !decide (x = j))).map .urec)
        (fun q hq => hw q (by simp [hq]))
      refine ⟨oi', pu', nu', nl', cu', ?_⟩
      simp only [mcSt] at h ⊢
      rw [h]
      have hf : (fun x : Nat => !decide (x = j)) = (fun x => !x == j) := by
        funext x; by_cases hx : x = j <;> simp [hx]
      simp [hj, unifyMany, bne, hf]
    · have hstep : c16LoopBody cx ["other_idx", "pair_urecs"] mcMiddle
            (.tup (.int (j : Int)) (.recs pairs)) (mcSt u i left oi pu nu nl cu out)
          = { mcSt u i left (.int (j : Int)) (.recs pairs) nu nl cu out with ctl := .cont } := by
        simp only [c16LoopBody, mcMiddle, mcSt]
        c16evalA [hj0, hj, c16Cmp, C16Val.truthy]
      simp only [List.map_cons, c16Loop, hstep]
      obtain ⟨oi', pu', nu', nl', cu', h⟩ := ih (.int (j : Int)) (.recs pairs) nu nl cu out
        (fun q hq => hw q (by simp [hq]))
      refine ⟨oi', pu', nu', nl', cu', ?_⟩
      simp only [mcSt] at h ⊢
      rw [h]
      simp [hj]

/-- **`match_children` is `matchChildren`** (on the rows of the candidate table from
`next_cand_idx` on). -/
theorem c16Gen_match_children (cands : List String) (cx : C16Ctx) (hs : C16FnSpec cands cx.fn)
    (hg : C16GenSpec cands cx.gen)
    (cl : C16Env) (hcl : cx.closure = some cl) (o : NaryOp) (names : List String) (nv : List Expr)
    (t : List (List (Nat × List URec))) (us : List URec) (ds : List Expr)
    (hc : C16Clo cl cands o names nv t us ds) (u : URec) (hu : u.WF) (i : Nat) (left : List Nat) :
    c16CallGen cx c16X_Uni_mca_match_children [.urec u, .int ((i : Nat) : Int), .idxs left]
      = .ok ((matchChildren cands o names (!nv.isEmpty) ds us (t.drop i) u left).map .urec) := by
  simp only [c16CallGen, c16X_Uni_mca_match_children, c16RunFn, c16BindParams, Option.map, List.map]
  simp only [C16S.execList, exec_forIn]
  by_cases hi : nv.length ≤ i
  · have hd : t.drop i = [] := List.drop_eq_nil_of_le (by rw [← hc.len]; exact hi)
    have hmp := hg.match_plain cl o names nv t us ds u left hc hu
    c16evalA [hcl, hc.nonvar, C16Val.len, c16Cmp, C16Val.truthy, hi, hmp, C16Val.iter, hd, matchChildren]
  · have hlt : i < t.length := by rw [← hc.len]; omega
    obtain ⟨tv, htv, hta⟩ := hc.table
    have htab : tv = .table t := by
      cases tv <;> simp_all [C16Val.asTable]
      rename_i l
      cases l <;> simp_all [C16Val.asTable]
    subst htab
    have hrow : t[i]? = some t[i] := List.getElem?_eq_getElem hlt
    obtain ⟨oi', pu', nu', nl', cu', hl⟩ := c16Loop_mc_middle cands cx hs hg cl hcl o names nv t us ds
      hc u hu i left t[i] .unbound .unbound .unbound .unbound .unbound []
      (fun p hp r hr => hc.twf t[i] (List.getElem_mem hlt) p hp r hr)
    simp only [mcSt, mcMiddle, mcInner, List.nil_append] at hl
    have hi0 : (0 : Int) ≤ (i : Int) := by omega
    c16evalA [hcl, hc.nonvar, C16Val.len, c16Cmp, C16Val.truthy, hi, htv, c16Index, hi0, hrow, C16Val.iter]
    rw [hl]
    rw [List.drop_eq_getElem_cons hlt]
    simp [c16ForEnd, C16S.execList, matchChildren]

end PV.Unify
