import PV.Proofs.MatchpyInj
/-
  C16, matchpy bridge: every term `toM` builds from a wildcard-free tree is well-formed and
  name-free (`MTerm.wf`), so the multiplicity law of `ToFromReplacement` applies to everything
  captured from a converted subject.
-/
namespace PV.Matchpy
open PV

/-- the specification of `MTerm.wf` -/
def W (t : MTerm) : Prop := ∃ e, fromM t = .ok e ∧ frag e = true ∧ toRaw e = t

mutual
theorem MTerm.beq_refl : ∀ t : MTerm, MTerm.beq t t = true
  | .scalar c v => by simp [MTerm.beq]
  | .id s v => by simp [MTerm.beq]
  | .cmpOp s v => by simp [MTerm.beq]
  | .wild k n => by simp [MTerm.beq]
  | .op o as v => by simp [MTerm.beq, MTerm.beqL_refl as]
theorem MTerm.beqL_refl : ∀ ts : List MTerm, MTerm.beqL ts ts = true
  | [] => rfl
  | t :: ts => by simp [MTerm.beqL, MTerm.beq_refl t, MTerm.beqL_refl ts]
end

theorem wf_of_W {t : MTerm} (h : W t) : t.wf = true := by
  obtain ⟨e, he, fe, re⟩ := h
  simp [MTerm.wf, he, fe, re, MTerm.beq_refl]

theorem W_of_wf {t : MTerm} (h : t.wf = true) : W t := MTerm.wf_spec h

theorem WL : ∀ {ts : List MTerm}, (∀ t ∈ ts, W t) →
    ∃ es, fromML ts = .ok es ∧ fragL es = true ∧ toRawL es = ts
  | [], _ => ⟨[], rfl, rfl, rfl⟩
  | t :: ts, h => by
    obtain ⟨e, he, fe, re⟩ := h t (by simp)
    obtain ⟨es, hes, fes, res⟩ := WL (ts := ts) (fun u hu => h u (List.mem_cons_of_mem _ hu))
    exact ⟨e :: es, fromML_cons_ok he hes, by simp [fragL, fe, fes], by simp [toRawL, re, res]⟩

theorem WL_elim : ∀ {ts : List MTerm} {es : List Expr}, fromML ts = .ok es → fragL es = true →
    toRawL es = ts → ∀ t ∈ ts, W t
  | [], _, _, _, _, t, ht => by cases ht
  | t :: ts, es, h, fes, res, u, hu => by
    obtain ⟨e, es', rfl, ht, hts⟩ := fromML_cons h
    simp only [fragL, Bool.and_eq_true] at fes
    simp only [toRawL, List.cons.injEq] at res
    rcases List.mem_cons.1 hu with rfl | hu'
    · exact ⟨e, ht, fes.1, res.1⟩
    · exact WL_elim hts fes.2 res.2 u hu'

theorem W_ac_intro {mo : MOp} {o : NaryOp} (hn : mo.nary? = some o) {ts : List MTerm}
    (h : ∀ t ∈ ts, W t) : W (.op mo ts none) := by
  obtain ⟨es, hes, fes, res⟩ := WL h
  refine ⟨.nary o es, by rw [fromM_ac hn, hes]; rfl, ?_, ?_⟩
  · simp [frag, nary?_mopOfNary hn, fes]
  · simp [toRaw, nary?_mopOfNary hn, res]

theorem W_ac_elim {mo : MOp} {o : NaryOp} (hn : mo.nary? = some o) {as : List MTerm}
    {vn : Option String} (h : W (.op mo as vn)) : ∀ a ∈ as, W a := by
  obtain ⟨e, he, fe, re⟩ := h
  rw [fromM_ac hn] at he
  cases hl : fromML as with
  | error err => simp [hl, Except.map] at he
  | ok as' =>
    simp [hl, Except.map] at he
    subst he
    simp only [frag, Bool.and_eq_true] at fe
    simp only [toRaw, nary?_mopOfNary hn, MTerm.op.injEq] at re
    exact WL_elim hl fe.2 re.2.1

theorem W_flatten {mo : MOp} {o : NaryOp} (hn : mo.nary? = some o) :
    ∀ {ts : List MTerm}, (∀ t ∈ ts, W t) → ∀ u ∈ flattenOps mo ts, W u
  | [], _, u, hu => by simp [flattenOps] at hu
  | t :: ts, h, u, hu => by
    have ih := W_flatten hn (ts := ts) (fun x hx => h x (List.mem_cons_of_mem _ hx))
    have keep : u ∈ t :: flattenOps mo ts → W u := by
      intro hu'
      rcases List.mem_cons.1 hu' with rfl | hu''
      · exact h u (by simp)
      · exact ih u hu''
    cases t with
    | op o' as vn =>
      by_cases ho : o' = mo
      · subst ho
        simp only [flattenOps, beq_self_eq_true, if_true, List.mem_append] at hu
        rcases hu with hu | hu
        · exact W_ac_elim hn (h (.op o' as vn) (List.mem_cons_self)) u hu
        · exact ih u hu
      · have : (o' == mo) = false := by simpa using ho
        simp only [flattenOps, this, Bool.false_eq_true, if_false] at hu
        exact keep hu
    | scalar c vn => exact keep (by simpa [flattenOps] using hu)
    | id s vn => exact keep (by simpa [flattenOps] using hu)
    | cmpOp s vn => exact keep (by simpa [flattenOps] using hu)
    | wild k n => exact keep (by simpa [flattenOps] using hu)

/-- every term `toM` builds from a wildcard-free tree satisfies `W` -/
theorem toM_W_aux : ∀ n : Nat,
    (∀ e : Expr, e.size ≤ n → ∀ t, toM e = .ok t → hasWild e = false → W t) ∧
    (∀ es : List Expr, Expr.sizeL es ≤ n → ∀ ts, toML es = .ok ts → hasWildL es = false →
      ∀ t ∈ ts, W t) := by
  intro n
  induction n with
  | zero =>
    refine ⟨fun e he => ?_, fun es hes ts h _ => ?_⟩
    · cases e <;> simp [Expr.size] at he <;> omega
    · cases es with
      | nil =>
        simp [toML, pure, Except.pure] at h; subst h
        intro t ht; cases ht
      | cons c cs =>
        simp [Expr.sizeL] at hes
        cases c <;> simp [Expr.size] at hes <;> omega
  | succ n ih =>
    obtain ⟨ihE, ihL⟩ := ih
    have treeCase : ∀ e : Expr, e.size ≤ n + 1 → ∀ t, toM e = .ok t → hasWild e = false →
        W t := by
      intro e he t h hw
      cases e with
      | const c =>
        cases c <;> simp [toM, pure, Except.pure, throw, throwThe, MonadExceptOf.throw] at h <;>
          subst h <;> exact ⟨_, rfl, rfl, rfl⟩
      | var x =>
        simp [toM, pure, Except.pure] at h; subst h
        exact ⟨.var x, by rw [mk_plain (by rfl)]; rfl, rfl, by rw [mk_plain (by rfl)]; rfl⟩
      | nary o cs =>
        simp only [toM] at h
        cases hm : mopOfNary o with
        | none => simp [hm, throw, throwThe, MonadExceptOf.throw] at h
        | some mo =>
          simp only [hm] at h
          obtain ⟨ts, hts, h⟩ := MR.bind_ok h
          have := MR.pure_ok h; subst this
          simp only [hasWild] at hw
          simp only [Expr.size] at he
          have hall := ihL cs (by omega) ts hts hw
          have hn := mopOfNary_nary? hm
          rw [mk_ac (mopOfNary_isAC hm)]
          refine W_ac_intro hn (fun u hu => ?_)
          exact W_flatten hn hall u ((pySort_perm MTerm.lt _).mem_iff.1 hu)
      | bin o a b =>
        simp only [toM] at h
        obtain ⟨a', ha, h⟩ := MR.bind_ok h
        obtain ⟨b', hb, h⟩ := MR.bind_ok h
        have := MR.pure_ok h; subst this
        simp only [hasWild, Bool.or_eq_false_iff] at hw
        simp only [Expr.size] at he
        obtain ⟨ea, hfa, fa, ra⟩ := ihE a (by omega) a' ha hw.1
        obtain ⟨eb, hfb, fb, rb⟩ := ihE b (by omega) b' hb hw.2
        refine ⟨.bin o ea eb, ?_, by simp [frag, fa, fb], ?_⟩
        · cases o <;> rw [mk_plain (by rfl)] <;>
            simp [mopOfBin, fromM, hfa, hfb, bind, Except.bind, pure, Except.pure]
        · rw [mk_plain (by cases o <;> rfl)]; simp [toRaw, ra, rb]
      | un o a =>
        simp only [toM] at h
        obtain ⟨a', ha, h⟩ := MR.bind_ok h
        have := MR.pure_ok h; subst this
        simp only [hasWild] at hw
        simp only [Expr.size] at he
        obtain ⟨ea, hfa, fa, ra⟩ := ihE a (by omega) a' ha hw
        refine ⟨.un o ea, ?_, by simp [frag, fa], ?_⟩
        · cases o <;> rw [mk_plain (by rfl)] <;>
            simp [mopOfUn, fromM, hfa, bind, Except.bind, pure, Except.pure]
        · rw [mk_plain (by cases o <;> rfl)]; simp [toRaw, ra]
      | cmp o a b =>
        simp only [toM] at h
        obtain ⟨a', ha, h⟩ := MR.bind_ok h
        obtain ⟨b', hb, h⟩ := MR.bind_ok h
        have := MR.pure_ok h; subst this
        simp only [hasWild, Bool.or_eq_false_iff] at hw
        simp only [Expr.size] at he
        obtain ⟨ea, hfa, fa, ra⟩ := ihE a (by omega) a' ha hw.1
        obtain ⟨eb, hfb, fb, rb⟩ := ihE b (by omega) b' hb hw.2
        refine ⟨.cmp o ea eb, ?_, by simp [frag, fa, fb], ?_⟩
        · rw [mk_plain (by rfl)]
          simp [fromM, hfa, hfb, cmp_ofSym_sym, bind, Except.bind, pure, Except.pure]
        · rw [mk_plain (by rfl)]; simp [toRaw, ra, rb]
      | ite c x y =>
        simp only [toM] at h
        obtain ⟨c', hc, h⟩ := MR.bind_ok h
        obtain ⟨x', hx, h⟩ := MR.bind_ok h
        obtain ⟨y', hy, h⟩ := MR.bind_ok h
        have := MR.pure_ok h; subst this
        simp only [hasWild, Bool.or_eq_false_iff] at hw
        simp only [Expr.size] at he
        obtain ⟨ec, hfc, fc, rc⟩ := ihE c (by omega) c' hc hw.1.1
        obtain ⟨ex, hfx, fx, rx⟩ := ihE x (by omega) x' hx hw.1.2
        obtain ⟨ey, hfy, fy, ry⟩ := ihE y (by omega) y' hy hw.2
        refine ⟨.ite ec ex ey, ?_, by simp [frag, fc, fx, fy], ?_⟩
        · rw [mk_plain (by rfl)]
          simp [fromM, hfc, hfx, hfy, bind, Except.bind, pure, Except.pure]
        · rw [mk_plain (by rfl)]; simp [toRaw, rc, rx, ry]
      | call f as =>
        simp only [toM] at h
        obtain ⟨f', hf, h⟩ := MR.bind_ok h
        obtain ⟨as', has, h⟩ := MR.bind_ok h
        have := MR.pure_ok h; subst this
        simp only [hasWild, Bool.or_eq_false_iff] at hw
        simp only [Expr.size] at he
        obtain ⟨ef, hff, ff, rf⟩ := ihE f (by omega) f' hf hw.1
        obtain ⟨eas, hfas, fas, ras⟩ := WL (ihL as (by omega) as' has hw.2)
        refine ⟨.call ef eas, ?_, by simp [frag, ff, fas], ?_⟩
        · rw [mk_plain (by rfl), mk_plain (by rfl)]
          simp [fromM, hff, hfas, bind, Except.bind, pure, Except.pure]
        · rw [mk_plain (by rfl), mk_plain (by rfl)]; simp [toRaw, rf, ras]
      | subscript a i =>
        simp only [hasWild, Bool.or_eq_false_iff] at hw
        simp only [Expr.size] at he
        by_cases hi : ∃ cs, i = .tuple cs
        · obtain ⟨cs, rfl⟩ := hi
          simp only [toM] at h
          obtain ⟨a', ha, h⟩ := MR.bind_ok h
          obtain ⟨is', his, h⟩ := MR.bind_ok h
          have := MR.pure_ok h; subst this
          simp only [Expr.size] at he
          simp only [hasWild] at hw
          obtain ⟨ea, hfa, fa, ra⟩ := ihE a (by omega) a' ha hw.1
          obtain ⟨eis, hfis, fis, ris⟩ := WL (ihL cs (by omega) is' his hw.2)
          refine ⟨.subscript ea (.tuple eis), ?_, by simp [frag, fa, fis], ?_⟩
          · rw [mk_plain (by rfl), mk_plain (by rfl)]
            simp [fromM, hfa, hfis, bind, Except.bind, pure, Except.pure]
          · rw [mk_plain (by rfl), mk_plain (by rfl)]; simp [toRaw, ra, ris]
        · have hi' : ∀ cs, i ≠ .tuple cs := fun cs hc => hi ⟨cs, hc⟩
          have hto : toM (.subscript a i) = (do
              let a' ← toM a
              let i' ← toM i
              pure (mk .subscript [a', mk .tupleOp [i']])) := by
            cases i <;> first | rfl | (exact absurd rfl (hi' _))
          rw [hto] at h
          obtain ⟨a', ha, h⟩ := MR.bind_ok h
          obtain ⟨i', hi2, h⟩ := MR.bind_ok h
          have := MR.pure_ok h; subst this
          obtain ⟨ea, hfa, fa, ra⟩ := ihE a (by omega) a' ha hw.1
          obtain ⟨ei, hfi, fi, ri⟩ := ihE i (by omega) i' hi2 hw.2
          refine ⟨.subscript ea (.tuple [ei]), ?_, by simp [frag, fragL, fa, fi], ?_⟩
          · rw [mk_plain (by rfl), mk_plain (by rfl)]
            simp [fromM, fromML, hfa, hfi, bind, Except.bind, pure, Except.pure]
          · rw [mk_plain (by rfl), mk_plain (by rfl)]; simp [toRaw, toRawL, ra, ri]
      | dotWild s => simp [hasWild] at hw
      | starWild s => simp [hasWild] at hw
      | callKw f as ns vs => simp [toM, throw, throwThe, MonadExceptOf.throw] at h
      | lookup a s => simp [toM, throw, throwThe, MonadExceptOf.throw] at h
      | cse c p s => simp [toM, throw, throwThe, MonadExceptOf.throw] at h
      | subst c vs xs => simp [toM, throw, throwThe, MonadExceptOf.throw] at h
      | deriv c vs => simp [toM, throw, throwThe, MonadExceptOf.throw] at h
      | slice cs => simp [toM, throw, throwThe, MonadExceptOf.throw] at h
      | nan => simp [toM, throw, throwThe, MonadExceptOf.throw] at h
      | wildcard => simp [toM, throw, throwThe, MonadExceptOf.throw] at h
      | funcSym => simp [toM, throw, throwThe, MonadExceptOf.throw] at h
      | tuple cs => simp [toM, throw, throwThe, MonadExceptOf.throw] at h
      | list cs => simp [toM, throw, throwThe, MonadExceptOf.throw] at h
    refine ⟨treeCase, fun es => ?_⟩
    induction es with
    | nil =>
      intro _ ts h _ t ht
      simp [toML, pure, Except.pure] at h; subst h; cases ht
    | cons c cs ihcs =>
      intro hs ts h hw t ht
      simp only [toML] at h
      obtain ⟨c', hc, h⟩ := MR.bind_ok h
      obtain ⟨cs', hcs, h⟩ := MR.bind_ok h
      have := MR.pure_ok h; subst this
      simp only [hasWildL, Bool.or_eq_false_iff] at hw
      simp only [Expr.sizeL] at hs
      rcases List.mem_cons.1 ht with rfl | ht'
      · exact treeCase c (by omega) _ hc hw.1
      · exact ihcs (by omega) cs' hcs hw.2 t ht'

/-- **a converted subject consists of well-formed name-free terms** -/
theorem toM_wf {e : Expr} {t : MTerm} (h : toM e = .ok t) (hw : hasWild e = false) :
    t.wf = true :=
  wf_of_W ((toM_W_aux e.size).1 e (Nat.le_refl _) t h hw)

end PV.Matchpy
