import PV.Model.Compile
import PV.Model.Eval
/-
  C13.  `CompileMapper.map_common_subexpression` prints a wrapper as its child at the enclosing
  precedence, and its `rec_with_force_parens_around` looks through wrappers before the type test.
  `strG … true` (the direct mirror of these two overrides) on a tree = `strG … false` (the base
  class's recursion) on the tree with every wrapper erased (`stripCse`), except in the two places
  where the base class still looks at the node TYPE of a child: the index of a subscript (a tuple
  index prints without its parentheses, a wrapper around a tuple prints `a[(b, c)]` — the same
  Python value) and the parts of a slice (`None` prints as nothing, a wrapper around `None` is a
  foreign object — no value either way) — `cseShapeOk` excludes these two shapes.  A wrapper means its child: `den_stripCse`.
  (The case enumerations are generated text; the file is plain Lean.)
-/
namespace PV.C13
open PV

def isCse : Expr → Bool
  | .cse .. => true
  | _ => false
def isTupleE : Expr → Bool
  | .tuple _ => true
  | _ => false
def isNoneE : Expr → Bool
  | .const .none => true
  | _ => false

mutual
/-- no wrapper (chain) stands directly around a tuple in index position or around `None` as a
part of a slice -/
def cseShapeOk : Expr → Bool
  | .cse c _ _ => cseShapeOk c
  | .nary _ cs => cseShapeOkL cs
  | .bin _ a b => cseShapeOk a && cseShapeOk b
  | .un _ a => cseShapeOk a
  | .cmp _ a b => cseShapeOk a && cseShapeOk b
  | .ite c t e => cseShapeOk c && cseShapeOk t && cseShapeOk e
  | .call f as => cseShapeOk f && cseShapeOkL as
  | .callKw f as _ vs => cseShapeOk f && cseShapeOkL as && cseShapeOkL vs
  | .subscript a i => cseShapeOk a && cseShapeOk i && !(isCse i && isTupleE (stripCse i))
  | .lookup a _ => cseShapeOk a
  | .slice cs => cseShapeOkSlice cs
  | .tuple cs => cseShapeOkL cs
  | .list cs => cseShapeOkL cs
  | _ => true
def cseShapeOkL : List Expr → Bool
  | [] => true
  | c :: cs => cseShapeOk c && cseShapeOkL cs
def cseShapeOkSlice : List Expr → Bool
  | [] => true
  | c :: cs => cseShapeOk c && !(isCse c && isNoneE (stripCse c)) && cseShapeOkSlice cs
end

variable (S : PrintPrec) (cf : Const → Nat → Except SErr Pieces)

theorem strG_subscript_nt (bare : Bool) (a i : Expr) (enc : Nat) (hi : ∀ cs, i ≠ .tuple cs) :
    strG S cf bare (.subscript a i) enc = (do
      let ip ← strG S cf bare i S.none
      let ap ← strG S cf bare a S.call
      pure (parenIf (ap ++ [sy "["] ++ ip ++ [sy "]"]) enc S.call)) := by
  rw [strG]
  intro cs h; exact hi cs h

theorem strGSliceL_cons_nn (bare : Bool) (c : Expr) (cs : List Expr) (hc : c ≠ .const .none) :
    strGSliceL S cf bare (c :: cs) = (do
      let x ← strG S cf bare c S.none
      let xs ← strGSliceL S cf bare cs
      pure (x :: xs)) := by
  rw [strGSliceL]
  intro h; exact hc h

omit S cf in
theorem peel_strip_mult : ∀ c : Expr, isMultiplicative (stripCse c) = isMultiplicative (peelCse c) ∧
    isDivision (stripCse c) = isDivision (peelCse c)
  | .cse c _ _ => by simp only [stripCse, peelCse]; exact peel_strip_mult c
  | .nary o cs => by cases o <;> simp [stripCse, peelCse, isMultiplicative, isDivision]
  | .bin o a b => by cases o <;> simp [stripCse, peelCse, isMultiplicative, isDivision]
  | .const _ | .var _ | .un _ _ | .cmp _ _ _ | .ite _ _ _ | .call _ _ | .callKw _ _ _ _
  | .subscript _ _ | .lookup _ _ | .subst _ _ _ | .deriv _ _ | .slice _ | .nan | .wildcard
  | .dotWild _ | .starWild _ | .funcSym | .tuple _ | .list _ => by
      simp [stripCse, peelCse, isMultiplicative, isDivision]

omit S cf in
/-- the forced parentheses of `CompileMapper` are those of the base class on the wrapper-free
operand -/
theorem forceWrapG_strip (all : Bool) (c : Expr) (x : Pieces) :
    forceWrapG true all c x = forceWrapG false all (stripCse c) x := by
  simp only [forceWrapG, if_true, Bool.false_eq_true, if_false, forceWrap, (peel_strip_mult c).1,
    (peel_strip_mult c).2]

theorem isTupleE_false {e : Expr} (h : isTupleE e = false) : ∀ cs, e ≠ .tuple cs := by
  intro cs he; subst he; simp [isTupleE] at h
theorem isNoneE_false {e : Expr} (h : isNoneE e = false) : e ≠ .const .none := by
  intro he; subst he; simp [isNoneE] at h

omit S cf in
theorem stripCseL_length : ∀ cs : List Expr, (stripCseL cs).length = cs.length
  | [] => by simp [stripCseL]
  | c :: cs => by simp [stripCseL, stripCseL_length cs]

mutual
/-- **`CompileMapper` prints a tree as the base class prints the tree without its wrappers** -/
theorem strG_bare_eq : ∀ (e : Expr) (enc : Nat), cseShapeOk e = true →
    strG S cf true e enc = strG S cf false (stripCse e) enc
  | .const c, _, _ => by simp only [strG, stripCse]
  | .var x, _, _ => by simp only [strG, stripCse]
  | .wildcard, _, _ => by simp only [strG, stripCse]
  | .nan, _, _ => by simp only [strG, stripCse]
  | .funcSym, _, _ => by simp only [strG, stripCse]
  | .dotWild n, _, _ => by simp only [strG, stripCse]
  | .starWild n, _, _ => by simp only [strG, stripCse]
  | .subst x vs xs, _, _ => by simp only [strG, stripCse]
  | .deriv x vs, _, _ => by simp only [strG, stripCse]
  | .cse c p s, enc, h => by
      simp only [cseShapeOk] at h
      simp only [strG, stripCse, if_true, strG_bare_eq c enc h]
  | .call f as, _, h => by
      simp only [cseShapeOk, Bool.and_eq_true] at h
      simp only [strG, stripCse, strG_bare_eq f _ h.1, strGL_bare_eq as _ h.2]
  | .callKw f as ns vs, _, h => by
      simp only [cseShapeOk, Bool.and_eq_true] at h
      simp only [strG, stripCse, strG_bare_eq f _ h.1.1, strGL_bare_eq as _ h.1.2,
        strGL_bare_eq vs _ h.2]
  | .subscript a (.const (.int n)), enc, h => by
      rw [cseShapeOk] at h
      simp only [Bool.and_eq_true, Bool.not_eq_true'] at h
      have hnt : ∀ cs, stripCse (.const (.int n)) ≠ .tuple cs := (by intro cs hh; simp [stripCse] at hh)
      rw [show stripCse (.subscript a (.const (.int n))) = .subscript (stripCse a) (stripCse (.const (.int n))) by simp only [stripCse],
        strG_subscript_nt S cf true a (.const (.int n)) enc (by intro cs hh; cases hh),
        strG_subscript_nt S cf false _ _ enc hnt,
        strG_bare_eq a _ h.1.1, strG_bare_eq (.const (.int n)) _ h.1.2]
  | .subscript a (.const (.bool n)), enc, h => by
      rw [cseShapeOk] at h
      simp only [Bool.and_eq_true, Bool.not_eq_true'] at h
      have hnt : ∀ cs, stripCse (.const (.bool n)) ≠ .tuple cs := (by intro cs hh; simp [stripCse] at hh)
      rw [show stripCse (.subscript a (.const (.bool n))) = .subscript (stripCse a) (stripCse (.const (.bool n))) by simp only [stripCse],
        strG_subscript_nt S cf true a (.const (.bool n)) enc (by intro cs hh; cases hh),
        strG_subscript_nt S cf false _ _ enc hnt,
        strG_bare_eq a _ h.1.1, strG_bare_eq (.const (.bool n)) _ h.1.2]
  | .subscript a (.const (.flt r n d)), enc, h => by
      rw [cseShapeOk] at h
      simp only [Bool.and_eq_true, Bool.not_eq_true'] at h
      have hnt : ∀ cs, stripCse (.const (.flt r n d)) ≠ .tuple cs := (by intro cs hh; simp [stripCse] at hh)
      rw [show stripCse (.subscript a (.const (.flt r n d))) = .subscript (stripCse a) (stripCse (.const (.flt r n d))) by simp only [stripCse],
        strG_subscript_nt S cf true a (.const (.flt r n d)) enc (by intro cs hh; cases hh),
        strG_subscript_nt S cf false _ _ enc hnt,
        strG_bare_eq a _ h.1.1, strG_bare_eq (.const (.flt r n d)) _ h.1.2]
  | .subscript a (.const (.str n)), enc, h => by
      rw [cseShapeOk] at h
      simp only [Bool.and_eq_true, Bool.not_eq_true'] at h
      have hnt : ∀ cs, stripCse (.const (.str n)) ≠ .tuple cs := (by intro cs hh; simp [stripCse] at hh)
      rw [show stripCse (.subscript a (.const (.str n))) = .subscript (stripCse a) (stripCse (.const (.str n))) by simp only [stripCse],
        strG_subscript_nt S cf true a (.const (.str n)) enc (by intro cs hh; cases hh),
        strG_subscript_nt S cf false _ _ enc hnt,
        strG_bare_eq a _ h.1.1, strG_bare_eq (.const (.str n)) _ h.1.2]
  | .subscript a (.const .none), enc, h => by
      rw [cseShapeOk] at h
      simp only [Bool.and_eq_true, Bool.not_eq_true'] at h
      have hnt : ∀ cs, stripCse (.const .none) ≠ .tuple cs := (by intro cs hh; simp [stripCse] at hh)
      rw [show stripCse (.subscript a (.const .none)) = .subscript (stripCse a) (stripCse (.const .none)) by simp only [stripCse],
        strG_subscript_nt S cf true a (.const .none) enc (by intro cs hh; cases hh),
        strG_subscript_nt S cf false _ _ enc hnt,
        strG_bare_eq a _ h.1.1, strG_bare_eq (.const .none) _ h.1.2]
  | .subscript a (.var x), enc, h => by
      rw [cseShapeOk] at h
      simp only [Bool.and_eq_true, Bool.not_eq_true'] at h
      have hnt : ∀ cs, stripCse (.var x) ≠ .tuple cs := (by intro cs hh; simp [stripCse] at hh)
      rw [show stripCse (.subscript a (.var x)) = .subscript (stripCse a) (stripCse (.var x)) by simp only [stripCse],
        strG_subscript_nt S cf true a (.var x) enc (by intro cs hh; cases hh),
        strG_subscript_nt S cf false _ _ enc hnt,
        strG_bare_eq a _ h.1.1, strG_bare_eq (.var x) _ h.1.2]
  | .subscript a (.nary o xs), enc, h => by
      rw [cseShapeOk] at h
      simp only [Bool.and_eq_true, Bool.not_eq_true'] at h
      have hnt : ∀ cs, stripCse (.nary o xs) ≠ .tuple cs := (by intro cs hh; simp [stripCse] at hh)
      rw [show stripCse (.subscript a (.nary o xs)) = .subscript (stripCse a) (stripCse (.nary o xs)) by simp only [stripCse],
        strG_subscript_nt S cf true a (.nary o xs) enc (by intro cs hh; cases hh),
        strG_subscript_nt S cf false _ _ enc hnt,
        strG_bare_eq a _ h.1.1, strG_bare_eq (.nary o xs) _ h.1.2]
  | .subscript a (.bin o x y), enc, h => by
      rw [cseShapeOk] at h
      simp only [Bool.and_eq_true, Bool.not_eq_true'] at h
      have hnt : ∀ cs, stripCse (.bin o x y) ≠ .tuple cs := (by intro cs hh; simp [stripCse] at hh)
      rw [show stripCse (.subscript a (.bin o x y)) = .subscript (stripCse a) (stripCse (.bin o x y)) by simp only [stripCse],
        strG_subscript_nt S cf true a (.bin o x y) enc (by intro cs hh; cases hh),
        strG_subscript_nt S cf false _ _ enc hnt,
        strG_bare_eq a _ h.1.1, strG_bare_eq (.bin o x y) _ h.1.2]
  | .subscript a (.un o x), enc, h => by
      rw [cseShapeOk] at h
      simp only [Bool.and_eq_true, Bool.not_eq_true'] at h
      have hnt : ∀ cs, stripCse (.un o x) ≠ .tuple cs := (by intro cs hh; simp [stripCse] at hh)
      rw [show stripCse (.subscript a (.un o x)) = .subscript (stripCse a) (stripCse (.un o x)) by simp only [stripCse],
        strG_subscript_nt S cf true a (.un o x) enc (by intro cs hh; cases hh),
        strG_subscript_nt S cf false _ _ enc hnt,
        strG_bare_eq a _ h.1.1, strG_bare_eq (.un o x) _ h.1.2]
  | .subscript a (.cmp o x y), enc, h => by
      rw [cseShapeOk] at h
      simp only [Bool.and_eq_true, Bool.not_eq_true'] at h
      have hnt : ∀ cs, stripCse (.cmp o x y) ≠ .tuple cs := (by intro cs hh; simp [stripCse] at hh)
      rw [show stripCse (.subscript a (.cmp o x y)) = .subscript (stripCse a) (stripCse (.cmp o x y)) by simp only [stripCse],
        strG_subscript_nt S cf true a (.cmp o x y) enc (by intro cs hh; cases hh),
        strG_subscript_nt S cf false _ _ enc hnt,
        strG_bare_eq a _ h.1.1, strG_bare_eq (.cmp o x y) _ h.1.2]
  | .subscript a (.ite x y z), enc, h => by
      rw [cseShapeOk] at h
      simp only [Bool.and_eq_true, Bool.not_eq_true'] at h
      have hnt : ∀ cs, stripCse (.ite x y z) ≠ .tuple cs := (by intro cs hh; simp [stripCse] at hh)
      rw [show stripCse (.subscript a (.ite x y z)) = .subscript (stripCse a) (stripCse (.ite x y z)) by simp only [stripCse],
        strG_subscript_nt S cf true a (.ite x y z) enc (by intro cs hh; cases hh),
        strG_subscript_nt S cf false _ _ enc hnt,
        strG_bare_eq a _ h.1.1, strG_bare_eq (.ite x y z) _ h.1.2]
  | .subscript a (.call f as), enc, h => by
      rw [cseShapeOk] at h
      simp only [Bool.and_eq_true, Bool.not_eq_true'] at h
      have hnt : ∀ cs, stripCse (.call f as) ≠ .tuple cs := (by intro cs hh; simp [stripCse] at hh)
      rw [show stripCse (.subscript a (.call f as)) = .subscript (stripCse a) (stripCse (.call f as)) by simp only [stripCse],
        strG_subscript_nt S cf true a (.call f as) enc (by intro cs hh; cases hh),
        strG_subscript_nt S cf false _ _ enc hnt,
        strG_bare_eq a _ h.1.1, strG_bare_eq (.call f as) _ h.1.2]
  | .subscript a (.callKw f as ns vs), enc, h => by
      rw [cseShapeOk] at h
      simp only [Bool.and_eq_true, Bool.not_eq_true'] at h
      have hnt : ∀ cs, stripCse (.callKw f as ns vs) ≠ .tuple cs := (by intro cs hh; simp [stripCse] at hh)
      rw [show stripCse (.subscript a (.callKw f as ns vs)) = .subscript (stripCse a) (stripCse (.callKw f as ns vs)) by simp only [stripCse],
        strG_subscript_nt S cf true a (.callKw f as ns vs) enc (by intro cs hh; cases hh),
        strG_subscript_nt S cf false _ _ enc hnt,
        strG_bare_eq a _ h.1.1, strG_bare_eq (.callKw f as ns vs) _ h.1.2]
  | .subscript a (.subscript x y), enc, h => by
      rw [cseShapeOk] at h
      simp only [Bool.and_eq_true, Bool.not_eq_true'] at h
      have hnt : ∀ cs, stripCse (.subscript x y) ≠ .tuple cs := (by intro cs hh; simp [stripCse] at hh)
      rw [show stripCse (.subscript a (.subscript x y)) = .subscript (stripCse a) (stripCse (.subscript x y)) by simp only [stripCse],
        strG_subscript_nt S cf true a (.subscript x y) enc (by intro cs hh; cases hh),
        strG_subscript_nt S cf false _ _ enc hnt,
        strG_bare_eq a _ h.1.1, strG_bare_eq (.subscript x y) _ h.1.2]
  | .subscript a (.lookup x n), enc, h => by
      rw [cseShapeOk] at h
      simp only [Bool.and_eq_true, Bool.not_eq_true'] at h
      have hnt : ∀ cs, stripCse (.lookup x n) ≠ .tuple cs := (by intro cs hh; simp [stripCse] at hh)
      rw [show stripCse (.subscript a (.lookup x n)) = .subscript (stripCse a) (stripCse (.lookup x n)) by simp only [stripCse],
        strG_subscript_nt S cf true a (.lookup x n) enc (by intro cs hh; cases hh),
        strG_subscript_nt S cf false _ _ enc hnt,
        strG_bare_eq a _ h.1.1, strG_bare_eq (.lookup x n) _ h.1.2]
  | .subscript a (.cse x p s), enc, h => by
      rw [cseShapeOk] at h
      simp only [Bool.and_eq_true, Bool.not_eq_true'] at h
      have hnt : ∀ cs, stripCse (.cse x p s) ≠ .tuple cs := isTupleE_false (by simpa [isCse] using h.2)
      rw [show stripCse (.subscript a (.cse x p s)) = .subscript (stripCse a) (stripCse (.cse x p s)) by simp only [stripCse],
        strG_subscript_nt S cf true a (.cse x p s) enc (by intro cs hh; cases hh),
        strG_subscript_nt S cf false _ _ enc hnt,
        strG_bare_eq a _ h.1.1, strG_bare_eq (.cse x p s) _ h.1.2]
  | .subscript a (.subst x vs xs), enc, h => by
      rw [cseShapeOk] at h
      simp only [Bool.and_eq_true, Bool.not_eq_true'] at h
      have hnt : ∀ cs, stripCse (.subst x vs xs) ≠ .tuple cs := (by intro cs hh; simp [stripCse] at hh)
      rw [show stripCse (.subscript a (.subst x vs xs)) = .subscript (stripCse a) (stripCse (.subst x vs xs)) by simp only [stripCse],
        strG_subscript_nt S cf true a (.subst x vs xs) enc (by intro cs hh; cases hh),
        strG_subscript_nt S cf false _ _ enc hnt,
        strG_bare_eq a _ h.1.1, strG_bare_eq (.subst x vs xs) _ h.1.2]
  | .subscript a (.deriv x vs), enc, h => by
      rw [cseShapeOk] at h
      simp only [Bool.and_eq_true, Bool.not_eq_true'] at h
      have hnt : ∀ cs, stripCse (.deriv x vs) ≠ .tuple cs := (by intro cs hh; simp [stripCse] at hh)
      rw [show stripCse (.subscript a (.deriv x vs)) = .subscript (stripCse a) (stripCse (.deriv x vs)) by simp only [stripCse],
        strG_subscript_nt S cf true a (.deriv x vs) enc (by intro cs hh; cases hh),
        strG_subscript_nt S cf false _ _ enc hnt,
        strG_bare_eq a _ h.1.1, strG_bare_eq (.deriv x vs) _ h.1.2]
  | .subscript a (.slice xs), enc, h => by
      rw [cseShapeOk] at h
      simp only [Bool.and_eq_true, Bool.not_eq_true'] at h
      have hnt : ∀ cs, stripCse (.slice xs) ≠ .tuple cs := (by intro cs hh; simp [stripCse] at hh)
      rw [show stripCse (.subscript a (.slice xs)) = .subscript (stripCse a) (stripCse (.slice xs)) by simp only [stripCse],
        strG_subscript_nt S cf true a (.slice xs) enc (by intro cs hh; cases hh),
        strG_subscript_nt S cf false _ _ enc hnt,
        strG_bare_eq a _ h.1.1, strG_bare_eq (.slice xs) _ h.1.2]
  | .subscript a .nan, enc, h => by
      rw [cseShapeOk] at h
      simp only [Bool.and_eq_true, Bool.not_eq_true'] at h
      have hnt : ∀ cs, stripCse .nan ≠ .tuple cs := (by intro cs hh; simp [stripCse] at hh)
      rw [show stripCse (.subscript a .nan) = .subscript (stripCse a) (stripCse .nan) by simp only [stripCse],
        strG_subscript_nt S cf true a .nan enc (by intro cs hh; cases hh),
        strG_subscript_nt S cf false _ _ enc hnt,
        strG_bare_eq a _ h.1.1, strG_bare_eq .nan _ h.1.2]
  | .subscript a .wildcard, enc, h => by
      rw [cseShapeOk] at h
      simp only [Bool.and_eq_true, Bool.not_eq_true'] at h
      have hnt : ∀ cs, stripCse .wildcard ≠ .tuple cs := (by intro cs hh; simp [stripCse] at hh)
      rw [show stripCse (.subscript a .wildcard) = .subscript (stripCse a) (stripCse .wildcard) by simp only [stripCse],
        strG_subscript_nt S cf true a .wildcard enc (by intro cs hh; cases hh),
        strG_subscript_nt S cf false _ _ enc hnt,
        strG_bare_eq a _ h.1.1, strG_bare_eq .wildcard _ h.1.2]
  | .subscript a (.dotWild n), enc, h => by
      rw [cseShapeOk] at h
      simp only [Bool.and_eq_true, Bool.not_eq_true'] at h
      have hnt : ∀ cs, stripCse (.dotWild n) ≠ .tuple cs := (by intro cs hh; simp [stripCse] at hh)
      rw [show stripCse (.subscript a (.dotWild n)) = .subscript (stripCse a) (stripCse (.dotWild n)) by simp only [stripCse],
        strG_subscript_nt S cf true a (.dotWild n) enc (by intro cs hh; cases hh),
        strG_subscript_nt S cf false _ _ enc hnt,
        strG_bare_eq a _ h.1.1, strG_bare_eq (.dotWild n) _ h.1.2]
  | .subscript a (.starWild n), enc, h => by
      rw [cseShapeOk] at h
      simp only [Bool.and_eq_true, Bool.not_eq_true'] at h
      have hnt : ∀ cs, stripCse (.starWild n) ≠ .tuple cs := (by intro cs hh; simp [stripCse] at hh)
      rw [show stripCse (.subscript a (.starWild n)) = .subscript (stripCse a) (stripCse (.starWild n)) by simp only [stripCse],
        strG_subscript_nt S cf true a (.starWild n) enc (by intro cs hh; cases hh),
        strG_subscript_nt S cf false _ _ enc hnt,
        strG_bare_eq a _ h.1.1, strG_bare_eq (.starWild n) _ h.1.2]
  | .subscript a .funcSym, enc, h => by
      rw [cseShapeOk] at h
      simp only [Bool.and_eq_true, Bool.not_eq_true'] at h
      have hnt : ∀ cs, stripCse .funcSym ≠ .tuple cs := (by intro cs hh; simp [stripCse] at hh)
      rw [show stripCse (.subscript a .funcSym) = .subscript (stripCse a) (stripCse .funcSym) by simp only [stripCse],
        strG_subscript_nt S cf true a .funcSym enc (by intro cs hh; cases hh),
        strG_subscript_nt S cf false _ _ enc hnt,
        strG_bare_eq a _ h.1.1, strG_bare_eq .funcSym _ h.1.2]
  | .subscript a (.tuple cs), enc, h => by
      simp only [cseShapeOk, isCse, Bool.false_and, Bool.not_false, Bool.and_true, Bool.and_eq_true] at h
      simp only [strG, stripCse, strG_bare_eq a _ h.1, strGL_bare_eq cs _ h.2]
  | .subscript a (.list xs), enc, h => by
      rw [cseShapeOk] at h
      simp only [Bool.and_eq_true, Bool.not_eq_true'] at h
      have hnt : ∀ cs, stripCse (.list xs) ≠ .tuple cs := (by intro cs hh; simp [stripCse] at hh)
      rw [show stripCse (.subscript a (.list xs)) = .subscript (stripCse a) (stripCse (.list xs)) by simp only [stripCse],
        strG_subscript_nt S cf true a (.list xs) enc (by intro cs hh; cases hh),
        strG_subscript_nt S cf false _ _ enc hnt,
        strG_bare_eq a _ h.1.1, strG_bare_eq (.list xs) _ h.1.2]
  | .lookup a n, enc, h => by
      simp only [cseShapeOk] at h
      simp only [strG, stripCse, strG_bare_eq a _ h]
  | .nary .sum cs, enc, h => by
      simp only [cseShapeOk] at h
      simp only [strG, stripCse, strGL_bare_eq cs _ h]
  | .nary .bor cs, enc, h => by
      simp only [cseShapeOk] at h
      simp only [strG, stripCse, strGL_bare_eq cs _ h]
  | .nary .bxor cs, enc, h => by
      simp only [cseShapeOk] at h
      simp only [strG, stripCse, strGL_bare_eq cs _ h]
  | .nary .band cs, enc, h => by
      simp only [cseShapeOk] at h
      simp only [strG, stripCse, strGL_bare_eq cs _ h]
  | .nary .lor cs, enc, h => by
      simp only [cseShapeOk] at h
      simp only [strG, stripCse, strGL_bare_eq cs _ h]
  | .nary .land cs, enc, h => by
      simp only [cseShapeOk] at h
      simp only [strG, stripCse, strGL_bare_eq cs _ h]
  | .nary .min cs, enc, h => by
      simp only [cseShapeOk] at h
      simp only [strG, stripCse, strGL_bare_eq cs _ h]
  | .nary .max cs, enc, h => by
      simp only [cseShapeOk] at h
      simp only [strG, stripCse, strGL_bare_eq cs _ h]
  | .nary .prod cs, enc, h => by
      simp only [cseShapeOk] at h
      simp only [strG, stripCse, strGForceL_bare_eq false cs _ h]
  | .bin .quot a b, enc, h => by
      simp only [cseShapeOk, Bool.and_eq_true] at h
      simp only [strG, stripCse, strG_bare_eq a _ h.1, strG_bare_eq b _ h.2, forceWrapG_strip]
  | .bin .floordiv a b, enc, h => by
      simp only [cseShapeOk, Bool.and_eq_true] at h
      simp only [strG, stripCse, strG_bare_eq a _ h.1, strG_bare_eq b _ h.2, forceWrapG_strip]
  | .bin .rem a b, enc, h => by
      simp only [cseShapeOk, Bool.and_eq_true] at h
      simp only [strG, stripCse, strG_bare_eq a _ h.1, strG_bare_eq b _ h.2, forceWrapG_strip]
  | .bin .pow a b, enc, h => by
      simp only [cseShapeOk, Bool.and_eq_true] at h
      simp only [strG, stripCse, strG_bare_eq a _ h.1, strG_bare_eq b _ h.2]
  | .bin .lshift a b, enc, h => by
      simp only [cseShapeOk, Bool.and_eq_true] at h
      simp only [strG, stripCse, strG_bare_eq a _ h.1, strG_bare_eq b _ h.2]
  | .bin .rshift a b, enc, h => by
      simp only [cseShapeOk, Bool.and_eq_true] at h
      simp only [strG, stripCse, strG_bare_eq a _ h.1, strG_bare_eq b _ h.2]
  | .un .bnot a, enc, h => by
      simp only [cseShapeOk] at h
      simp only [strG, stripCse, strG_bare_eq a _ h]
  | .un .lnot a, enc, h => by
      simp only [cseShapeOk] at h
      simp only [strG, stripCse, strG_bare_eq a _ h]
  | .cmp o a b, enc, h => by
      simp only [cseShapeOk, Bool.and_eq_true] at h
      simp only [strG, stripCse, strG_bare_eq a _ h.1, strG_bare_eq b _ h.2]
  | .ite c t e, enc, h => by
      simp only [cseShapeOk, Bool.and_eq_true] at h
      simp only [strG, stripCse, strG_bare_eq t _ h.1.2, strG_bare_eq c _ h.1.1,
        strG_bare_eq e _ h.2]
  | .tuple cs, _, h => by
      simp only [cseShapeOk] at h
      simp only [strG, stripCse, strGL_bare_eq cs _ h, stripCseL_length]
  | .list cs, _, h => by
      simp only [cseShapeOk] at h
      simp only [strG, stripCse, strGL_bare_eq cs _ h]
  | .slice cs, enc, h => by
      simp only [cseShapeOk] at h
      simp only [strG, stripCse, strGSliceL_bare_eq cs h]
theorem strGL_bare_eq : ∀ (cs : List Expr) (enc : Nat), cseShapeOkL cs = true →
    strGL S cf true cs enc = strGL S cf false (stripCseL cs) enc
  | [], _, _ => by simp only [strGL, stripCseL]
  | c :: cs, enc, h => by
      simp only [cseShapeOkL, Bool.and_eq_true] at h
      simp only [strGL, stripCseL, strG_bare_eq c _ h.1, strGL_bare_eq cs _ h.2]
theorem strGForceL_bare_eq (all : Bool) : ∀ (cs : List Expr) (enc : Nat), cseShapeOkL cs = true →
    strGForceL S cf true all cs enc = strGForceL S cf false all (stripCseL cs) enc
  | [], _, _ => by simp only [strGForceL, stripCseL]
  | c :: cs, enc, h => by
      simp only [cseShapeOkL, Bool.and_eq_true] at h
      simp only [strGForceL, stripCseL, strG_bare_eq c _ h.1, strGForceL_bare_eq all cs _ h.2,
        forceWrapG_strip]
theorem strGSliceL_bare_eq : ∀ (cs : List Expr), cseShapeOkSlice cs = true →
    strGSliceL S cf true cs = strGSliceL S cf false (stripCseL cs)
  | [], _ => by simp only [strGSliceL, stripCseL]
  | .const (.int n) :: cs, h => by
      rw [cseShapeOkSlice] at h
      simp only [Bool.and_eq_true, Bool.not_eq_true'] at h
      have hnn : stripCse (.const (.int n)) ≠ .const .none := (by simp [stripCse])
      rw [show stripCseL (.const (.int n) :: cs) = stripCse (.const (.int n)) :: stripCseL cs by simp only [stripCseL],
        strGSliceL_cons_nn S cf true (.const (.int n)) cs (by intro hh; cases hh),
        strGSliceL_cons_nn S cf false _ _ hnn,
        strG_bare_eq (.const (.int n)) _ h.1.1, strGSliceL_bare_eq cs h.2]
  | .const (.bool n) :: cs, h => by
      rw [cseShapeOkSlice] at h
      simp only [Bool.and_eq_true, Bool.not_eq_true'] at h
      have hnn : stripCse (.const (.bool n)) ≠ .const .none := (by simp [stripCse])
      rw [show stripCseL (.const (.bool n) :: cs) = stripCse (.const (.bool n)) :: stripCseL cs by simp only [stripCseL],
        strGSliceL_cons_nn S cf true (.const (.bool n)) cs (by intro hh; cases hh),
        strGSliceL_cons_nn S cf false _ _ hnn,
        strG_bare_eq (.const (.bool n)) _ h.1.1, strGSliceL_bare_eq cs h.2]
  | .const (.flt r n d) :: cs, h => by
      rw [cseShapeOkSlice] at h
      simp only [Bool.and_eq_true, Bool.not_eq_true'] at h
      have hnn : stripCse (.const (.flt r n d)) ≠ .const .none := (by simp [stripCse])
      rw [show stripCseL (.const (.flt r n d) :: cs) = stripCse (.const (.flt r n d)) :: stripCseL cs by simp only [stripCseL],
        strGSliceL_cons_nn S cf true (.const (.flt r n d)) cs (by intro hh; cases hh),
        strGSliceL_cons_nn S cf false _ _ hnn,
        strG_bare_eq (.const (.flt r n d)) _ h.1.1, strGSliceL_bare_eq cs h.2]
  | .const (.str n) :: cs, h => by
      rw [cseShapeOkSlice] at h
      simp only [Bool.and_eq_true, Bool.not_eq_true'] at h
      have hnn : stripCse (.const (.str n)) ≠ .const .none := (by simp [stripCse])
      rw [show stripCseL (.const (.str n) :: cs) = stripCse (.const (.str n)) :: stripCseL cs by simp only [stripCseL],
        strGSliceL_cons_nn S cf true (.const (.str n)) cs (by intro hh; cases hh),
        strGSliceL_cons_nn S cf false _ _ hnn,
        strG_bare_eq (.const (.str n)) _ h.1.1, strGSliceL_bare_eq cs h.2]
  | .const .none :: cs, h => by
      simp only [cseShapeOkSlice, Bool.and_eq_true] at h
      simp only [strGSliceL, stripCseL, stripCse, strGSliceL_bare_eq cs h.2]
  | .var x :: cs, h => by
      rw [cseShapeOkSlice] at h
      simp only [Bool.and_eq_true, Bool.not_eq_true'] at h
      have hnn : stripCse (.var x) ≠ .const .none := (by simp [stripCse])
      rw [show stripCseL (.var x :: cs) = stripCse (.var x) :: stripCseL cs by simp only [stripCseL],
        strGSliceL_cons_nn S cf true (.var x) cs (by intro hh; cases hh),
        strGSliceL_cons_nn S cf false _ _ hnn,
        strG_bare_eq (.var x) _ h.1.1, strGSliceL_bare_eq cs h.2]
  | .nary o xs :: cs, h => by
      rw [cseShapeOkSlice] at h
      simp only [Bool.and_eq_true, Bool.not_eq_true'] at h
      have hnn : stripCse (.nary o xs) ≠ .const .none := (by simp [stripCse])
      rw [show stripCseL (.nary o xs :: cs) = stripCse (.nary o xs) :: stripCseL cs by simp only [stripCseL],
        strGSliceL_cons_nn S cf true (.nary o xs) cs (by intro hh; cases hh),
        strGSliceL_cons_nn S cf false _ _ hnn,
        strG_bare_eq (.nary o xs) _ h.1.1, strGSliceL_bare_eq cs h.2]
  | .bin o x y :: cs, h => by
      rw [cseShapeOkSlice] at h
      simp only [Bool.and_eq_true, Bool.not_eq_true'] at h
      have hnn : stripCse (.bin o x y) ≠ .const .none := (by simp [stripCse])
      rw [show stripCseL (.bin o x y :: cs) = stripCse (.bin o x y) :: stripCseL cs by simp only [stripCseL],
        strGSliceL_cons_nn S cf true (.bin o x y) cs (by intro hh; cases hh),
        strGSliceL_cons_nn S cf false _ _ hnn,
        strG_bare_eq (.bin o x y) _ h.1.1, strGSliceL_bare_eq cs h.2]
  | .un o x :: cs, h => by
      rw [cseShapeOkSlice] at h
      simp only [Bool.and_eq_true, Bool.not_eq_true'] at h
      have hnn : stripCse (.un o x) ≠ .const .none := (by simp [stripCse])
      rw [show stripCseL (.un o x :: cs) = stripCse (.un o x) :: stripCseL cs by simp only [stripCseL],
        strGSliceL_cons_nn S cf true (.un o x) cs (by intro hh; cases hh),
        strGSliceL_cons_nn S cf false _ _ hnn,
        strG_bare_eq (.un o x) _ h.1.1, strGSliceL_bare_eq cs h.2]
  | .cmp o x y :: cs, h => by
      rw [cseShapeOkSlice] at h
      simp only [Bool.and_eq_true, Bool.not_eq_true'] at h
      have hnn : stripCse (.cmp o x y) ≠ .const .none := (by simp [stripCse])
      rw [show stripCseL (.cmp o x y :: cs) = stripCse (.cmp o x y) :: stripCseL cs by simp only [stripCseL],
        strGSliceL_cons_nn S cf true (.cmp o x y) cs (by intro hh; cases hh),
        strGSliceL_cons_nn S cf false _ _ hnn,
        strG_bare_eq (.cmp o x y) _ h.1.1, strGSliceL_bare_eq cs h.2]
  | .ite x y z :: cs, h => by
      rw [cseShapeOkSlice] at h
      simp only [Bool.and_eq_true, Bool.not_eq_true'] at h
      have hnn : stripCse (.ite x y z) ≠ .const .none := (by simp [stripCse])
      rw [show stripCseL (.ite x y z :: cs) = stripCse (.ite x y z) :: stripCseL cs by simp only [stripCseL],
        strGSliceL_cons_nn S cf true (.ite x y z) cs (by intro hh; cases hh),
        strGSliceL_cons_nn S cf false _ _ hnn,
        strG_bare_eq (.ite x y z) _ h.1.1, strGSliceL_bare_eq cs h.2]
  | .call f as :: cs, h => by
      rw [cseShapeOkSlice] at h
      simp only [Bool.and_eq_true, Bool.not_eq_true'] at h
      have hnn : stripCse (.call f as) ≠ .const .none := (by simp [stripCse])
      rw [show stripCseL (.call f as :: cs) = stripCse (.call f as) :: stripCseL cs by simp only [stripCseL],
        strGSliceL_cons_nn S cf true (.call f as) cs (by intro hh; cases hh),
        strGSliceL_cons_nn S cf false _ _ hnn,
        strG_bare_eq (.call f as) _ h.1.1, strGSliceL_bare_eq cs h.2]
  | .callKw f as ns vs :: cs, h => by
      rw [cseShapeOkSlice] at h
      simp only [Bool.and_eq_true, Bool.not_eq_true'] at h
      have hnn : stripCse (.callKw f as ns vs) ≠ .const .none := (by simp [stripCse])
      rw [show stripCseL (.callKw f as ns vs :: cs) = stripCse (.callKw f as ns vs) :: stripCseL cs by simp only [stripCseL],
        strGSliceL_cons_nn S cf true (.callKw f as ns vs) cs (by intro hh; cases hh),
        strGSliceL_cons_nn S cf false _ _ hnn,
        strG_bare_eq (.callKw f as ns vs) _ h.1.1, strGSliceL_bare_eq cs h.2]
  | .subscript x y :: cs, h => by
      rw [cseShapeOkSlice] at h
      simp only [Bool.and_eq_true, Bool.not_eq_true'] at h
      have hnn : stripCse (.subscript x y) ≠ .const .none := (by simp [stripCse])
      rw [show stripCseL (.subscript x y :: cs) = stripCse (.subscript x y) :: stripCseL cs by simp only [stripCseL],
        strGSliceL_cons_nn S cf true (.subscript x y) cs (by intro hh; cases hh),
        strGSliceL_cons_nn S cf false _ _ hnn,
        strG_bare_eq (.subscript x y) _ h.1.1, strGSliceL_bare_eq cs h.2]
  | .lookup x n :: cs, h => by
      rw [cseShapeOkSlice] at h
      simp only [Bool.and_eq_true, Bool.not_eq_true'] at h
      have hnn : stripCse (.lookup x n) ≠ .const .none := (by simp [stripCse])
      rw [show stripCseL (.lookup x n :: cs) = stripCse (.lookup x n) :: stripCseL cs by simp only [stripCseL],
        strGSliceL_cons_nn S cf true (.lookup x n) cs (by intro hh; cases hh),
        strGSliceL_cons_nn S cf false _ _ hnn,
        strG_bare_eq (.lookup x n) _ h.1.1, strGSliceL_bare_eq cs h.2]
  | .cse x p s :: cs, h => by
      rw [cseShapeOkSlice] at h
      simp only [Bool.and_eq_true, Bool.not_eq_true'] at h
      have hnn : stripCse (.cse x p s) ≠ .const .none := isNoneE_false (by simpa [isCse] using h.1.2)
      rw [show stripCseL (.cse x p s :: cs) = stripCse (.cse x p s) :: stripCseL cs by simp only [stripCseL],
        strGSliceL_cons_nn S cf true (.cse x p s) cs (by intro hh; cases hh),
        strGSliceL_cons_nn S cf false _ _ hnn,
        strG_bare_eq (.cse x p s) _ h.1.1, strGSliceL_bare_eq cs h.2]
  | .subst x vs xs :: cs, h => by
      rw [cseShapeOkSlice] at h
      simp only [Bool.and_eq_true, Bool.not_eq_true'] at h
      have hnn : stripCse (.subst x vs xs) ≠ .const .none := (by simp [stripCse])
      rw [show stripCseL (.subst x vs xs :: cs) = stripCse (.subst x vs xs) :: stripCseL cs by simp only [stripCseL],
        strGSliceL_cons_nn S cf true (.subst x vs xs) cs (by intro hh; cases hh),
        strGSliceL_cons_nn S cf false _ _ hnn,
        strG_bare_eq (.subst x vs xs) _ h.1.1, strGSliceL_bare_eq cs h.2]
  | .deriv x vs :: cs, h => by
      rw [cseShapeOkSlice] at h
      simp only [Bool.and_eq_true, Bool.not_eq_true'] at h
      have hnn : stripCse (.deriv x vs) ≠ .const .none := (by simp [stripCse])
      rw [show stripCseL (.deriv x vs :: cs) = stripCse (.deriv x vs) :: stripCseL cs by simp only [stripCseL],
        strGSliceL_cons_nn S cf true (.deriv x vs) cs (by intro hh; cases hh),
        strGSliceL_cons_nn S cf false _ _ hnn,
        strG_bare_eq (.deriv x vs) _ h.1.1, strGSliceL_bare_eq cs h.2]
  | .slice xs :: cs, h => by
      rw [cseShapeOkSlice] at h
      simp only [Bool.and_eq_true, Bool.not_eq_true'] at h
      have hnn : stripCse (.slice xs) ≠ .const .none := (by simp [stripCse])
      rw [show stripCseL (.slice xs :: cs) = stripCse (.slice xs) :: stripCseL cs by simp only [stripCseL],
        strGSliceL_cons_nn S cf true (.slice xs) cs (by intro hh; cases hh),
        strGSliceL_cons_nn S cf false _ _ hnn,
        strG_bare_eq (.slice xs) _ h.1.1, strGSliceL_bare_eq cs h.2]
  | .nan :: cs, h => by
      rw [cseShapeOkSlice] at h
      simp only [Bool.and_eq_true, Bool.not_eq_true'] at h
      have hnn : stripCse .nan ≠ .const .none := (by simp [stripCse])
      rw [show stripCseL (.nan :: cs) = stripCse .nan :: stripCseL cs by simp only [stripCseL],
        strGSliceL_cons_nn S cf true .nan cs (by intro hh; cases hh),
        strGSliceL_cons_nn S cf false _ _ hnn,
        strG_bare_eq .nan _ h.1.1, strGSliceL_bare_eq cs h.2]
  | .wildcard :: cs, h => by
      rw [cseShapeOkSlice] at h
      simp only [Bool.and_eq_true, Bool.not_eq_true'] at h
      have hnn : stripCse .wildcard ≠ .const .none := (by simp [stripCse])
      rw [show stripCseL (.wildcard :: cs) = stripCse .wildcard :: stripCseL cs by simp only [stripCseL],
        strGSliceL_cons_nn S cf true .wildcard cs (by intro hh; cases hh),
        strGSliceL_cons_nn S cf false _ _ hnn,
        strG_bare_eq .wildcard _ h.1.1, strGSliceL_bare_eq cs h.2]
  | .dotWild n :: cs, h => by
      rw [cseShapeOkSlice] at h
      simp only [Bool.and_eq_true, Bool.not_eq_true'] at h
      have hnn : stripCse (.dotWild n) ≠ .const .none := (by simp [stripCse])
      rw [show stripCseL (.dotWild n :: cs) = stripCse (.dotWild n) :: stripCseL cs by simp only [stripCseL],
        strGSliceL_cons_nn S cf true (.dotWild n) cs (by intro hh; cases hh),
        strGSliceL_cons_nn S cf false _ _ hnn,
        strG_bare_eq (.dotWild n) _ h.1.1, strGSliceL_bare_eq cs h.2]
  | .starWild n :: cs, h => by
      rw [cseShapeOkSlice] at h
      simp only [Bool.and_eq_true, Bool.not_eq_true'] at h
      have hnn : stripCse (.starWild n) ≠ .const .none := (by simp [stripCse])
      rw [show stripCseL (.starWild n :: cs) = stripCse (.starWild n) :: stripCseL cs by simp only [stripCseL],
        strGSliceL_cons_nn S cf true (.starWild n) cs (by intro hh; cases hh),
        strGSliceL_cons_nn S cf false _ _ hnn,
        strG_bare_eq (.starWild n) _ h.1.1, strGSliceL_bare_eq cs h.2]
  | .funcSym :: cs, h => by
      rw [cseShapeOkSlice] at h
      simp only [Bool.and_eq_true, Bool.not_eq_true'] at h
      have hnn : stripCse .funcSym ≠ .const .none := (by simp [stripCse])
      rw [show stripCseL (.funcSym :: cs) = stripCse .funcSym :: stripCseL cs by simp only [stripCseL],
        strGSliceL_cons_nn S cf true .funcSym cs (by intro hh; cases hh),
        strGSliceL_cons_nn S cf false _ _ hnn,
        strG_bare_eq .funcSym _ h.1.1, strGSliceL_bare_eq cs h.2]
  | .tuple xs :: cs, h => by
      rw [cseShapeOkSlice] at h
      simp only [Bool.and_eq_true, Bool.not_eq_true'] at h
      have hnn : stripCse (.tuple xs) ≠ .const .none := (by simp [stripCse])
      rw [show stripCseL (.tuple xs :: cs) = stripCse (.tuple xs) :: stripCseL cs by simp only [stripCseL],
        strGSliceL_cons_nn S cf true (.tuple xs) cs (by intro hh; cases hh),
        strGSliceL_cons_nn S cf false _ _ hnn,
        strG_bare_eq (.tuple xs) _ h.1.1, strGSliceL_bare_eq cs h.2]
  | .list xs :: cs, h => by
      rw [cseShapeOkSlice] at h
      simp only [Bool.and_eq_true, Bool.not_eq_true'] at h
      have hnn : stripCse (.list xs) ≠ .const .none := (by simp [stripCse])
      rw [show stripCseL (.list xs :: cs) = stripCse (.list xs) :: stripCseL cs by simp only [stripCseL],
        strGSliceL_cons_nn S cf true (.list xs) cs (by intro hh; cases hh),
        strGSliceL_cons_nn S cf false _ _ hnn,
        strG_bare_eq (.list xs) _ h.1.1, strGSliceL_bare_eq cs h.2]
end


/-! ### a wrapper means its child -/

mutual
/-- **erasing the wrappers does not change the value** (nor the error) -/
theorem den_stripCse (env : Env) : ∀ e : Expr, den env (stripCse e) = den env e
  | .cse c _ _ => by simp only [stripCse, den, den_stripCse env c]
  | .const _ | .var _ | .subst .. | .deriv .. | .nan | .wildcard | .dotWild _ | .starWild _
  | .funcSym => by simp only [stripCse]
  | .nary .sum cs => by simp only [stripCse, den, denFold_stripCse env .sum _ cs]
  | .nary .prod cs => by simp only [stripCse, den, denFold_stripCse env .prod _ cs]
  | .nary .bor cs => by simp only [stripCse, den, denReduce_stripCse env .bor cs]
  | .nary .bxor cs => by simp only [stripCse, den, denReduce_stripCse env .bxor cs]
  | .nary .band cs => by simp only [stripCse, den, denReduce_stripCse env .band cs]
  | .nary .lor cs => by simp only [stripCse, den, denAny_stripCse env cs]
  | .nary .land cs => by simp only [stripCse, den, denAll_stripCse env cs]
  | .nary .min cs => by simp only [stripCse, den, denMinMax_stripCse env true none cs]
  | .nary .max cs => by simp only [stripCse, den, denMinMax_stripCse env false none cs]
  | .bin o a b => by simp only [stripCse, den, den_stripCse env a, den_stripCse env b]
  | .un .bnot a => by simp only [stripCse, den, den_stripCse env a]
  | .un .lnot a => by simp only [stripCse, den, den_stripCse env a]
  | .cmp o a b => by simp only [stripCse, den, den_stripCse env a, den_stripCse env b]
  | .ite c t e => by
      simp only [stripCse, den, den_stripCse env c, den_stripCse env t, den_stripCse env e]
  | .call f as => by simp only [stripCse, den, den_stripCse env f, denList_stripCse env as]
  | .callKw f as ns vs => by
      simp only [stripCse, den, den_stripCse env f, denList_stripCse env as,
        denList_stripCse env vs]
  | .subscript a i => by simp only [stripCse, den, den_stripCse env a, den_stripCse env i]
  | .lookup a n => by simp only [stripCse, den, den_stripCse env a]
  | .slice cs => by simp only [stripCse, den]
  | .tuple cs => by simp only [stripCse, den, denList_stripCse env cs]
  | .list cs => by simp only [stripCse, den, denList_stripCse env cs]
theorem denFold_stripCse (env : Env) (o : NaryOp) : ∀ (acc : Value) (cs : List Expr),
    denFold env o acc (stripCseL cs) = denFold env o acc cs
  | _, [] => by simp only [stripCseL]
  | acc, c :: cs => by
      simp only [stripCseL, denFold, den_stripCse env c]
      congr 1; funext v; congr 1; funext acc'; exact denFold_stripCse env o acc' cs
theorem denReduce_stripCse (env : Env) (o : NaryOp) : ∀ (cs : List Expr),
    denReduce env o (stripCseL cs) = denReduce env o cs
  | [] => by simp only [stripCseL]
  | c :: cs => by
      simp only [stripCseL, denReduce, den_stripCse env c]
      congr 1; funext v; exact denFold_stripCse env o v cs
theorem denAny_stripCse (env : Env) : ∀ (cs : List Expr),
    denAny env (stripCseL cs) = denAny env cs
  | [] => by simp only [stripCseL]
  | c :: cs => by simp only [stripCseL, denAny, den_stripCse env c, denAny_stripCse env cs]
theorem denAll_stripCse (env : Env) : ∀ (cs : List Expr),
    denAll env (stripCseL cs) = denAll env cs
  | [] => by simp only [stripCseL]
  | c :: cs => by simp only [stripCseL, denAll, den_stripCse env c, denAll_stripCse env cs]
theorem denMinMax_stripCse (env : Env) (isMin : Bool) : ∀ (cur : Option Value) (cs : List Expr),
    denMinMax env isMin cur (stripCseL cs) = denMinMax env isMin cur cs
  | _, [] => by simp only [stripCseL]
  | cur, c :: cs => by
      simp only [stripCseL, denMinMax, den_stripCse env c]
      congr 1; funext v
      cases cur with
      | none => exact denMinMax_stripCse env isMin (some v) cs
      | some m =>
        simp only []
        congr 1; funext better; exact denMinMax_stripCse env isMin _ cs
theorem denList_stripCse (env : Env) : ∀ (cs : List Expr),
    denList env (stripCseL cs) = denList env cs
  | [] => by simp only [stripCseL]
  | c :: cs => by simp only [stripCseL, denList, den_stripCse env c, denList_stripCse env cs]
end

end PV.C13
