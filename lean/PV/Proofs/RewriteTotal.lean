import PV.Proofs.RewriteNF
set_option linter.unusedSimpArgs false
/-
  C11, part 9: `flatten` does not fail on the rational fragment (and stays inside it), given fuel
  beyond the size of the input.
-/
namespace PV

mutual
/-- the polynomial / rational fragment, syntactically: integer constants, variables, sums,
products, quotients, powers with an integer-literal exponent, CSE wrappers -/
def Expr.isRat : Expr → Bool
  | .const (.int _) => true
  | .var _ => true
  | .nary .sum cs => Expr.isRatL cs
  | .nary .prod cs => Expr.isRatL cs
  | .bin .quot a b => a.isRat && b.isRat
  | .bin .pow a (.const (.int _)) => a.isRat
  | .cse c _ _ => c.isRat
  | _ => false
def Expr.isRatL : List Expr → Bool
  | [] => true
  | c :: cs => c.isRat && Expr.isRatL cs
end

theorem isRatL_append : ∀ (as bs : List Expr),
    Expr.isRatL (as ++ bs) = (Expr.isRatL as && Expr.isRatL bs)
  | [], bs => by simp [Expr.isRatL]
  | a :: as, bs => by simp [Expr.isRatL, isRatL_append as bs, Bool.and_assoc]

mutual
theorem isRat_seqItem : ∀ e : Expr, e.isRat = true → seqItem e = false
  | .nary .prod cs, h => by
      simp only [Expr.isRat] at h; simp only [seqItem]; exact isRatL_seqItemL cs h
  | .tuple _, h | .list _, h => by simp [Expr.isRat] at h
  | .const _, _ | .var _, _ | .nary .sum _, _ | .nary .bor _, _ | .nary .bxor _, _
  | .nary .band _, _ | .nary .lor _, _ | .nary .land _, _ | .nary .min _, _ | .nary .max _, _
  | .bin .., _ | .un .., _ | .cmp .., _ | .ite .., _ | .call .., _ | .callKw .., _
  | .subscript .., _ | .lookup .., _ | .cse .., _ | .subst .., _ | .deriv .., _ | .slice .., _
  | .nan, _ | .wildcard, _ | .dotWild .., _ | .starWild .., _ | .funcSym, _ => by
      simp [seqItem]
theorem isRatL_seqItemL : ∀ cs : List Expr, Expr.isRatL cs = true → seqItemL cs = false
  | [], _ => rfl
  | c :: cs, h => by
      simp only [Expr.isRatL, Bool.and_eq_true] at h
      simp [seqItemL, isRat_seqItem c h.1, isRatL_seqItemL cs h.2]
end

theorem flattenedSumLoop_isRat : ∀ (fuel : Nat) (queue done : List Expr),
    Expr.isRatL queue = true → Expr.isRatL done = true →
    Expr.isRatL (flattenedSumLoop fuel queue done) = true
  | 0, _, _, _, hd => by simpa only [flattenedSumLoop] using hd
  | _ + 1, [], _, _, hd => by simpa only [flattenedSumLoop] using hd
  | fuel + 1, item :: queue, done, hq, hd => by
      simp only [Expr.isRatL, Bool.and_eq_true] at hq
      simp only [flattenedSumLoop]
      split
      · exact flattenedSumLoop_isRat fuel queue done hq.2 hd
      · split
        · apply flattenedSumLoop_isRat fuel _ done _ hd
          have := hq.1
          simp only [Expr.isRat] at this
          rw [isRatL_append, hq.2, this]; rfl
        · apply flattenedSumLoop_isRat fuel queue _ hq.2
          rw [isRatL_append, hd]; simp [Expr.isRatL, hq.1]

theorem flattenedSum_isRat {terms : List Expr} (h : Expr.isRatL terms = true) :
    (flattenedSum terms).isRat = true := by
  have := flattenedSumLoop_isRat (Expr.sizeL terms + terms.length + 1) terms [] h rfl
  simp only [flattenedSum]
  generalize flattenedSumLoop (Expr.sizeL terms + terms.length + 1) terms [] = L at this ⊢
  rcases L with _ | ⟨x, _ | ⟨y, ys⟩⟩
  · rfl
  · simpa [Expr.isRatL] using this
  · simpa only [Expr.isRat] using this

theorem flattenedProductLoop_isRat : ∀ (fuel : Nat) (queue done : List Expr),
    Expr.isRatL queue = true → Expr.isRatL done = true →
    ∀ xs, flattenedProductLoop fuel queue done = some xs → Expr.isRatL xs = true
  | 0, _, _, _, hd, xs, h => by
      simp only [flattenedProductLoop, Option.some.injEq] at h; subst h; exact hd
  | _ + 1, [], _, _, hd, xs, h => by
      simp only [flattenedProductLoop, Option.some.injEq] at h; subst h; exact hd
  | fuel + 1, item :: queue, done, hq, hd, xs, h => by
      simp only [Expr.isRatL, Bool.and_eq_true] at hq
      simp only [flattenedProductLoop] at h
      split at h
      · contradiction
      · split at h
        · exact flattenedProductLoop_isRat fuel queue done hq.2 hd xs h
        · split at h
          · refine flattenedProductLoop_isRat fuel _ done ?_ hd xs h
            have := hq.1
            simp only [Expr.isRat] at this
            rw [isRatL_append, hq.2, this]; rfl
          · refine flattenedProductLoop_isRat fuel queue _ hq.2 ?_ xs h
            rw [isRatL_append, hd]; simp [Expr.isRatL, hq.1]

theorem flattenedProduct_isRat {terms : List Expr} (h : Expr.isRatL terms = true) :
    (flattenedProduct terms).isRat = true := by
  have := flattenedProductLoop_isRat (Expr.sizeL terms + terms.length + 1) terms [] h rfl
  simp only [flattenedProduct]
  generalize flattenedProductLoop (Expr.sizeL terms + terms.length + 1) terms [] = L at this ⊢
  rcases L with _ | _ | ⟨x, _ | ⟨y, ys⟩⟩
  · rfl
  · rfl
  · simpa [Expr.isRatL] using this _ rfl
  · simpa only [Expr.isRat] using this _ rfl

theorem size_le_sizeL : ∀ {cs : List Expr} {c : Expr}, c ∈ cs → c.size ≤ Expr.sizeL cs
  | d :: ds, c, h => by
      simp only [List.mem_cons] at h
      simp only [Expr.sizeL]
      rcases h with rfl | h
      · omega
      · have := size_le_sizeL h; omega

/-- mapping a total, fragment-preserving function over a list of fragment expressions -/
theorem mapM_total {f : Expr → RwR} : ∀ (cs : List Expr),
    (∀ c ∈ cs, ∃ c', f c = .ok c' ∧ c'.isRat = true) →
    ∃ cs', cs.mapM f = .ok cs' ∧ Expr.isRatL cs' = true
  | [], _ => ⟨[], rfl, rfl⟩
  | c :: cs, h => by
      obtain ⟨c', hc, hr⟩ := h c (by simp)
      obtain ⟨cs', hcs, hrs⟩ := mapM_total cs fun d hd => h d (by simp [hd])
      refine ⟨c' :: cs', ?_, by simp [Expr.isRatL, hr, hrs]⟩
      rw [List.mapM_cons, hc, hcs]; rfl

theorem isRatL_mem : ∀ {cs : List Expr}, Expr.isRatL cs = true → ∀ c ∈ cs, c.isRat = true
  | d :: ds, h, c, hc => by
      simp only [Expr.isRatL, Bool.and_eq_true] at h
      simp only [List.mem_cons] at hc
      rcases hc with rfl | hc
      · exact h.1
      · exact isRatL_mem h.2 c hc

/-- **`flatten` does not fail on the rational fragment** and its result is again in the
fragment, for every amount of fuel beyond the size of the input. -/
theorem flattenM_total : ∀ (fuel : Nat) (e : Expr), e.isRat = true → e.size < fuel →
    ∃ e', flattenM fuel e = .ok e' ∧ e'.isRat = true
  | 0, _, _, hf => by omega
  | fuel + 1, e, he, hf => by
      have ih := flattenM_total fuel
      have kids : ∀ cs : List Expr, Expr.isRatL cs = true → Expr.sizeL cs < fuel →
          ∃ cs', cs.mapM (flattenM fuel) = .ok cs' ∧ Expr.isRatL cs' = true := by
        intro cs hcs hsz
        exact mapM_total cs fun c hc =>
          ih c (isRatL_mem hcs c hc) (by have := size_le_sizeL hc; omega)
      match e, he, hf with
      | .const (.int n), _, _ => exact ⟨_, rfl, rfl⟩
      | .var v, _, _ => exact ⟨_, rfl, rfl⟩
      | .nary .sum cs, he, hf =>
        simp only [Expr.isRat] at he
        simp only [Expr.size] at hf
        obtain ⟨cs', hcs, hr⟩ := kids cs he (by omega)
        refine ⟨flattenedSum cs', ?_, flattenedSum_isRat hr⟩
        simp only [flattenM, hcs]; rfl
      | .nary .prod cs, he, hf =>
        simp only [Expr.isRat] at he
        simp only [Expr.size] at hf
        obtain ⟨cs', hcs, hr⟩ := kids cs he (by omega)
        refine ⟨flattenedProduct cs', ?_, flattenedProduct_isRat hr⟩
        have hs := isRatL_seqItemL cs' hr
        simp only [flattenM, hcs, flatProd, bind, Except.bind, hs, Bool.false_eq_true, if_false]
        rfl
      | .bin .quot a b, he, hf =>
        simp only [Expr.isRat, Bool.and_eq_true] at he
        simp only [Expr.size] at hf
        obtain ⟨a', ha, hra⟩ := ih a he.1 (by omega)
        obtain ⟨b', hb, hrb⟩ := ih b he.2 (by omega)
        refine ⟨.bin .quot a' b', ?_, by simp [Expr.isRat, hra, hrb]⟩
        simp only [flattenM, idMap, ha, hb]; rfl
      | .bin .pow a (.const (.int n)), he, hf =>
        simp only [Expr.isRat] at he
        simp only [Expr.size] at hf
        obtain ⟨a', ha, hra⟩ := ih a he (by omega)
        have hb : flattenM fuel (.const (.int n)) = .ok (.const (.int n)) := by
          cases fuel with
          | zero => omega
          | succ k => rfl
        refine ⟨.bin .pow a' (.const (.int n)), ?_, by simp [Expr.isRat, hra]⟩
        simp only [flattenM, idMap, ha, hb]; rfl
      | .cse c p s, he, hf =>
        simp only [Expr.isRat] at he
        simp only [Expr.size] at hf
        obtain ⟨c', hc, hrc⟩ := ih c he (by omega)
        by_cases hz : c'.isZero = true
        · refine ⟨zero, ?_, rfl⟩
          simp only [flattenM, idMap, hc, bind, Except.bind, hz, if_true]; rfl
        · refine ⟨.cse c' p s, ?_, by simp [Expr.isRat, hrc]⟩
          simp only [flattenM, idMap, hc, bind, Except.bind, hz, if_false]; rfl

end PV
