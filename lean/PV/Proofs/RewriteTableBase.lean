import PV.Proofs.RewriteTableExpected
import PV.Properties.C04
set_option linter.unusedSimpArgs false
set_option linter.unusedVariables false
/-
  C11 (T-gen), part 1: lemmas every symbolic execution of a table program uses — the inherited
  handlers (`c11IdentRow` on the regenerated C04 rows IS `idMap`), lists of expression values,
  lifting between the result types, loops.
-/
namespace PV
open PV.Generated (c04Classes c04IdentityTable)

/-! ### dispatch and inherited handlers -/

theorem c11Dispatch_resolve {classes : List C04NodeClass} {tbl : List C04Handler} {e : Expr}
    {n : String} (h : c11Dispatch classes tbl e = .ok n) :
    c04Resolve classes tbl e =
      (match c04BodyOf tbl 4 n with
       | some b => .ok b
       | none => .error .unsupported) := by
  unfold c11Dispatch at h
  unfold c04Resolve
  split at h <;> simp_all [throw, throwThe, MonadExceptOf.throw, pure, Except.pure] <;>
    (cases c04BodyOf tbl 4 n <;> rfl)

/-- the name `Mapper.__call__` reaches for every node of the model, on the regenerated class table
and handler names of `IdentityMapper` -/
def c11HandlerOf : Expr → Except RwErr String
  | .const (.str _) => .error .foreign
  | .const .none => .error .foreign
  | .const _ => .ok "map_constant"
  | .var _ => .ok "map_variable"
  | .nary .sum _ => .ok "map_sum"
  | .nary .prod _ => .ok "map_product"
  | .nary .bor _ => .ok "map_bitwise_or"
  | .nary .bxor _ => .ok "map_bitwise_xor"
  | .nary .band _ => .ok "map_bitwise_and"
  | .nary .lor _ => .ok "map_logical_or"
  | .nary .land _ => .ok "map_logical_and"
  | .nary .min _ => .ok "map_min"
  | .nary .max _ => .ok "map_max"
  | .bin .quot _ _ => .ok "map_quotient"
  | .bin .floordiv _ _ => .ok "map_floor_div"
  | .bin .rem _ _ => .ok "map_remainder"
  | .bin .pow _ _ => .ok "map_power"
  | .bin .lshift _ _ => .ok "map_left_shift"
  | .bin .rshift _ _ => .ok "map_right_shift"
  | .un .bnot _ => .ok "map_bitwise_not"
  | .un .lnot _ => .ok "map_logical_not"
  | .cmp .. => .ok "map_comparison"
  | .ite .. => .ok "map_if"
  | .call .. => .ok "map_call"
  | .callKw .. => .ok "map_call_with_kwargs"
  | .subscript .. => .ok "map_subscript"
  | .lookup .. => .ok "map_lookup"
  | .cse .. => .ok "map_common_subexpression"
  | .subst .. => .ok "map_substitution"
  | .deriv .. => .ok "map_derivative"
  | .slice _ => .ok "map_slice"
  | .nan => .ok "map_nan"
  | .wildcard => .ok "map_wildcard"
  | .dotWild _ => .ok "map_dot_wildcard"
  | .starWild _ => .ok "map_star_wildcard"
  | .funcSym => .ok "map_function_symbol"
  | .tuple _ => .ok "map_tuple"
  | .list _ => .ok "map_list"

theorem c11Dispatch_current (e : Expr) :
    c11Dispatch c04Classes c04IdentityTable e = c11HandlerOf e := by
  cases e with
  | const k => cases k <;> rfl
  | nary o cs => cases o <;> rfl
  | bin o a b => cases o <;> rfl
  | un o a => cases o <;> rfl
  | _ => rfl

/-- the C04 row the dispatch of `e` reaches, by the theorem of C04 about the regenerated rows -/
theorem c11_bodyOf {e : Expr} {n : String} {b : C04Body}
    (hd : c11Dispatch c04Classes c04IdentityTable e = .ok n) (hb : c04IdentBody e = .ok b) :
    c04BodyOf c04IdentityTable 4 n = some b := by
  have h1 := c11Dispatch_resolve hd
  rw [PV.C04.identity_resolve_current, hb] at h1
  cases h : c04BodyOf c04IdentityTable 4 n with
  | none => rw [h] at h1; cases h1
  | some b' => rw [h] at h1; injection h1 with h1; rw [h1]

/-- one inherited handler call on the row of the node's own class is `idMap` -/
theorem c11IdentStepB_idMap (rec : Expr → RwR) (e : Expr) (b : C04Body)
    (hb : c04IdentBody e = .ok b) : c11IdentStepB (some b) rec e = idMap rec e := by
  cases e with
  | const k =>
    cases k <;> simp only [c04IdentBody, Except.ok.injEq, reduceCtorEq] at hb <;> subst hb <;> rfl
  | bin o a b =>
    cases o <;> (simp only [c04IdentBody, Except.ok.injEq] at hb; subst hb) <;>
    simp [c11IdentStepB, c11MapRecs, c11MapRec, Expr.c04Field, Expr.c04Fields, c04Assoc, idMap,
      c04Rebuild, c04ArgVal, c04OptSeq, Expr.c04Construct, bind_assoc]
  | cse c p s =>
    simp only [c04IdentBody, Except.ok.injEq] at hb; subst hb
    simp [c11IdentStepB, c11MapRecs, c11MapRec, Expr.c04Field, Expr.c04Fields, c04Assoc, idMap,
      c04Rebuild, c04ArgVal, c04OptSeq, Expr.c04Construct, bind_assoc]
  | _ =>
    simp only [c04IdentBody, Except.ok.injEq] at hb; subst hb
    simp [c11IdentStepB, c11MapRecs, c11MapRec, Expr.c04Field, Expr.c04Fields, c04Assoc, idMap,
      c04Rebuild, c04ArgVal, c04OptSeq, Expr.c04Construct, bind_assoc]

/-- **An inherited handler is `idMap`**: the handler the dispatch reaches on `IdentityMapper`,
read from the regenerated C04 row, run with any `self.rec`. -/
theorem c11_inherited (rec : Expr → RwR) (e : Expr) (n : String)
    (hd : c11Dispatch c04Classes c04IdentityTable e = .ok n) :
    c11IdentRow c04IdentityTable n rec e = idMap rec e := by
  cases hb : c04IdentBody e with
  | error err =>
    exfalso
    rw [c11Dispatch_current] at hd
    cases e with
    | const k => cases k <;> simp [c04IdentBody, c11HandlerOf] at hb hd
    | bin o a b => cases o <;> simp [c04IdentBody] at hb
    | _ => simp [c04IdentBody] at hb
  | ok b =>
    rw [c11IdentRow, c11_bodyOf hd hb]
    exact c11IdentStepB_idMap rec e b hb

/-- the rows `IdentityMapper.map_sum / map_product / map_power / map_common_subexpression` called
directly (`IdentityMapper.map_x(self, expr)`) -/
theorem c11_row_map_sum :
    c04BodyOf c04IdentityTable 4 "map_sum" = some (.rebuild [⟨"children", .each, true⟩] true
      ["children"] false (.sameClass [.rebuilt "children"] false)) :=
  c11_bodyOf (e := .nary .sum []) (by rw [c11Dispatch_current]; rfl) rfl

theorem c11_row_map_product :
    c04BodyOf c04IdentityTable 4 "map_product" = some (.rebuild [⟨"children", .each, true⟩] true
      ["children"] false (.sameClass [.rebuilt "children"] false)) :=
  c11_bodyOf (e := .nary .prod []) (by rw [c11Dispatch_current]; rfl) rfl

theorem c11_row_map_power :
    c04BodyOf c04IdentityTable 4 "map_power" = some (.rebuild
      [⟨"base", .one, true⟩, ⟨"exponent", .one, true⟩] true ["base", "exponent"] false
      (.sameClass [.rebuilt "base", .rebuilt "exponent"] false)) :=
  c11_bodyOf (e := .bin .pow zero zero) (by rw [c11Dispatch_current]; rfl) rfl

theorem c11_row_map_cse :
    c04BodyOf c04IdentityTable 4 "map_common_subexpression" = some (.rebuild
      [⟨"child", .one, true⟩] true ["child"] true
      (.sameClass [.rebuilt "child", .copied "prefix", .copied "scope"] true)) :=
  c11_bodyOf (e := .cse zero none "") (by rw [c11Dispatch_current]; rfl) rfl

/-- `IdentityMapper.map_sum(self, e)` / `map_product` on any n-ary node -/
theorem c11IdentRow_nary (rec : Expr → RwR) (row : String) (o : NaryOp) (cs : List Expr)
    (hrow : c04BodyOf c04IdentityTable 4 row = some (.rebuild [⟨"children", .each, true⟩] true
      ["children"] false (.sameClass [.rebuilt "children"] false))) :
    c11IdentRow c04IdentityTable row rec (.nary o cs) = idMap rec (.nary o cs) := by
  rw [c11IdentRow, hrow]
  exact c11IdentStepB_idMap rec (.nary o cs) _ rfl

theorem c11IdentRow_pow (rec : Expr → RwR) (a b : Expr) :
    c11IdentRow c04IdentityTable "map_power" rec (.bin .pow a b) = idMap rec (.bin .pow a b) := by
  rw [c11IdentRow, c11_row_map_power]
  exact c11IdentStepB_idMap rec (.bin .pow a b) _ rfl

theorem c11IdentRow_cse (rec : Expr → RwR) (c : Expr) (p : Option String) (s : String) :
    c11IdentRow c04IdentityTable "map_common_subexpression" rec (.cse c p s)
      = idMap rec (.cse c p s) := by
  rw [c11IdentRow, c11_row_map_cse]
  exact c11IdentStepB_idMap rec (.cse c p s) _ rfl

/-! ### lists of values, lifting -/

theorem c11MapM_map {α β γ : Type} (f : β → C11R γ) (g : α → β) : ∀ l : List α,
    c11MapM f (l.map g) = c11MapM (fun a => f (g a)) l
  | [] => rfl
  | a :: l => by simp only [List.map_cons, c11MapM, c11MapM_map f g l]

theorem c11MapM_congr {α β : Type} {f g : α → C11R β} (h : ∀ a, f a = g a) (l : List α) :
    c11MapM f l = c11MapM g l := by
  have : f = g := funext h
  rw [this]

/-- a list of expressions mapped through `self.rec` (or any function of the tree model) -/
theorem c11MapM_lift (f : Expr → RwR) : ∀ cs : List Expr,
    c11MapM (fun c => C11Val.expr <$> c11Lift (f c)) cs =
      (match cs.mapM f with
       | .ok rs => .ok (rs.map .expr)
       | .error e => .error (.py e))
  | [] => rfl
  | c :: cs => by
    rw [c11MapM, c11MapM_lift f cs, List.mapM_cons]
    cases hc : f c with
    | error e => rfl
    | ok r =>
      cases hcs : cs.mapM f with
      | error e => rfl
      | ok rs => rfl

theorem c11AsExprs_exprs (rs : List Expr) : c11AsExprs (.list (rs.map .expr)) = .ok rs := by
  simp only [c11AsExprs, c11Items, pure, Except.pure, bind, Except.bind]
  induction rs with
  | nil => rfl
  | cons r rs ih =>
    simp only [List.map_cons, List.mapM_cons, c11AsExpr, pure, Except.pure, bind, Except.bind, ih]


theorem c11ToRw_lift (r : RwR) : c11ToRw (C11Val.expr <$> c11Lift r) = r := by
  cases r <;> rfl

theorem c11ToRw_lift' (r : RwR) : c11ToRw (do pure (C11Val.expr (← c11Lift r))) = r := by
  cases r <;> rfl

/-! ### one handler call of a class -/

/-- the context the methods of an instance run in -/
def c11CtxOf (S : C11Self) (fuel depth : Nat) : C11Ctx :=
  { recur := S.recur, selfAttrs := S.selfAttrs, callSelf := c11CallSelf S fuel depth,
    callLocal := fun _ _ => throw .stuck,
    sup := fun c row e =>
      match c with
      | .identityMapper => c11IdentRow S.ident row S.recur e
      | _ => throw .noClaim,
    applyInst := S.applyInst, construct := fun _ _ => throw .stuck }

theorem c11CallSelf_own (S : C11Self) (fuel depth : Nat) (m : String) (args : List C11Val)
    (n b : String) (fn : C11Fn) (h : c11FindMethod m S.cls.methods = some ⟨n, b, .own fn⟩) :
    c11CallSelf S fuel (depth + 1) m args = c11RunFn (c11CtxOf S fuel depth) fuel fn args := by
  simp only [c11CallSelf, h]; rfl

theorem c11CallSelf_inherited (S : C11Self) (fuel depth : Nat) (m : String) (e : Expr)
    (h : c11FindMethod m S.cls.methods = none) :
    c11CallSelf S fuel (depth + 1) m [.expr e] =
      (do pure (.expr (← c11Lift (c11IdentRow S.ident m S.recur e)))) := by
  simp only [c11CallSelf, h]

theorem c11Handle_eq (S : C11Self) (hc : S.classes = c04Classes) (hi : S.ident = c04IdentityTable)
    (fuel : Nat) (e : Expr) :
    c11Handle S fuel e =
      (match c11HandlerOf e with
       | .error err => .error err
       | .ok n => c11ToRw (c11CallSelf S fuel c11Depth n [.expr e])) := by
  rw [c11Handle, hc, hi, c11Dispatch_current]
  cases c11HandlerOf e <;> rfl

/-- a node whose handler the class does not override goes through the C04 row: `idMap` -/
theorem c11Handle_inherited (S : C11Self) (hc : S.classes = c04Classes)
    (hi : S.ident = c04IdentityTable) (fuel : Nat) (e : Expr) (n : String)
    (hn : c11HandlerOf e = .ok n) (hm : c11FindMethod n S.cls.methods = none) :
    c11Handle S fuel e = idMap S.recur e := by
  rw [c11Handle_eq S hc hi, hn]
  simp only [c11Depth, c11CallSelf_inherited S fuel 3 n e hm, hi]
  rw [c11_inherited S.recur e n (by rw [c11Dispatch_current, hn])]
  exact c11ToRw_lift' _

theorem c11Handle_foreign (S : C11Self) (hc : S.classes = c04Classes)
    (hi : S.ident = c04IdentityTable) (fuel : Nat) (e : Expr) (err : RwErr)
    (hn : c11HandlerOf e = .error err) : c11Handle S fuel e = .error err := by
  rw [c11Handle_eq S hc hi, hn]

end PV
