import PV.Proofs.UnifyTableWF
/-
  C16 (T-gen), part 7: the context in which every callee MEANS the hand-written model
  (`c16ModelCtx`), the proof that it is a solution of the table's equations, and uniqueness of
  `unifyE` as solution of the dispatch equation.
-/
open PV PV.Unify
namespace PV.Unify

/-- the callees that return a value, as the model has them -/
def c16ModelFn (cands : List String) : C16Callee → List C16Val → Option C16Val
  | .modfn "unify_map", [.dict a, .dict b] => some (c16OptMap (unifyMap a b))
  | .modfn "UnificationRecord", [.objs []] => some (.urec URec.empty)
  | .modfn "UnificationRecord", [.eqs [(l, r)]] => some (.urec (c16Rec1 l r))
  | .modfn "UnificationRecord", [.eqSet, .dict l, .dict r] => some (.urec ⟨l, r⟩)
  | .meth "UnificationRecord" "unify", [.urec a, .urec b] => some (.ofOptRec (a.unify b))
  | .modfn "unify_many", [v, .urec n] => v.asRecs.map fun us => C16Val.ofRecs (unifyMany us n)
  | .self "unification_record_from_equation", [.obj l, .obj r] =>
    some (.ofOptRec (c16RecFromEqG cands l r))
  | .self "treat_mismatch", [.obj _, .obj _, _] => some (.objs [])
  | _, _ => none

theorem c16ModelFn_spec (cands : List String) : C16FnSpec cands (c16ModelFn cands) where
  unify_map _ _ _ := rfl
  ctor0 := rfl
  ctor1 _ _ := rfl
  ctor3 _ _ := rfl
  unify _ _ _ := rfl
  unify_many v us n hv _ := by simp [c16ModelFn, hv]
  rec_from_eq _ _ := rfl
  treat_mismatch _ _ _ _ := rfl

/-- the variables of `map_commut_assoc` a nested function sees, read back from the environment -/
def c16ReadClo (cl : C16Env) :
    Option (NaryOp × List String × List Expr × List (List (Nat × List URec)) × List URec × List Expr) :=
  match C16Env.get "factory" cl, C16Env.get "plain_var_candidates" cl,
      C16Env.get "non_var_children" cl, C16Env.get "unification_candidates" cl,
      C16Env.get "urecs" cl, C16Env.get "other" cl with
  | some (.factory o), some (.objs pl), some (.objs nv), some tv, some uv, some (.obj oth) =>
    match pl.mapM c16VarName, tv.asTable, uv.asRecs, oth.c16Attr "children" with
    | some names, some t, some us, some (.obj (.tuple ds)) => some (o, names, nv, t, us, ds)
    | _, _, _, _ => none
  | _, _, _, _, _, _ => none

theorem mapM_varName (names : List String) : (names.map Expr.var).mapM c16VarName = some names := by
  induction names with
  | nil => rfl
  | cons x xs ih => simp [List.mapM_cons, ih]

theorem mapM_varName' (names : List String) :
    List.mapM (c16VarName ∘ Expr.var) names = some names := by
  induction names with
  | nil => rfl
  | cons x xs ih => simp [List.mapM_cons, ih]

theorem c16ReadClo_of {cl : C16Env} {cands : List String} {o : NaryOp} {names : List String}
    {nv : List Expr} {t : List (List (Nat × List URec))} {us : List URec} {ds : List Expr}
    (hc : C16Clo cl cands o names nv t us ds) : c16ReadClo cl = some (o, names, nv, t, us, ds) := by
  obtain ⟨oth, ho, hch⟩ := hc.other
  obtain ⟨uv, huv, hus⟩ := hc.urecs
  obtain ⟨tv, htv, hta⟩ := hc.table
  simp [c16ReadClo, hc.factory, hc.plain, hc.nonvar, htv, huv, ho, mapM_varName', hta, hus, hch]

/-- the generator callees, as the model has them (`recur` is `self.rec`) -/
def c16ModelGen (cands : List String) (recur : Expr → Expr → List URec → List URec) (cl : C16Env) :
    C16Callee → List C16Val → Option (List C16Val)
  | .nested q, args =>
    if q = c16N_subsets then
      match args with
      | [.idxs s, .int m] => some ((subsetsUpTo s m.toNat).map .idxs)
      | _ => none
    else if q = c16N_partitions then
      match args with
      | [.idxs s, .int k] => some ((partitions k.toNat s).map .parts)
      | _ => none
    else if q = c16N_match_plain then
      match args, c16ReadClo cl with
      | [.urec u, .idxs left], some (o, names, nv, _, us, ds) =>
        some ((matchPlain cands o names (!nv.isEmpty) ds us u left).map .urec)
      | _, _ => none
    else if q = c16N_match_children then
      match args, c16ReadClo cl with
      | [.urec u, .int i, .idxs left], some (o, names, nv, t, us, ds) =>
        some ((matchChildren cands o names (!nv.isEmpty) ds us (t.drop i.toNat) u left).map .urec)
      | _, _ => none
    else none
  | .self "map_commut_assoc", [.obj e, .obj oth, uv, .factory o] =>
    match e.c16Attr "children", uv.asRecs with
    | some (.obj (.tuple cs)), some us =>
      if oth.kind = e.kind then
        match oth.c16Attr "children" with
        | some (.obj (.tuple ds)) => some ((c16CommutF cands recur o cs ds us).map .urec)
        | _ => none
      else some []
    | _, _ => none
  | _, _ => none

theorem c16ModelGen_spec (cands : List String) (recur : Expr → Expr → List URec → List URec) :
    C16GenSpec cands (c16ModelGen cands recur) where
  subsets _ _ _ := by simp [c16ModelGen]
  partitions _ _ _ := by
    have h : ¬ c16N_partitions = c16N_subsets := by decide
    simp [c16ModelGen, h]
  match_plain cl o names nv t us ds u left hc _ := by
    have h1 : ¬ c16N_match_plain = c16N_subsets := by decide
    have h2 : ¬ c16N_match_plain = c16N_partitions := by decide
    simp [c16ModelGen, h1, h2, c16ReadClo_of hc]
  match_children cl o names nv t us ds u i left hc _ := by
    have h1 : ¬ c16N_match_children = c16N_subsets := by decide
    have h2 : ¬ c16N_match_children = c16N_partitions := by decide
    have h3 : ¬ c16N_match_children = c16N_match_plain := by decide
    simp [c16ModelGen, h1, h2, h3, c16ReadClo_of hc]

theorem c16ModelGen_ca (cands : List String) (recur : Expr → Expr → List URec → List URec) :
    C16CASpec cands recur (c16ModelGen cands recur) := by
  intro cl e oth cs ds uv us o he ho hus _ _
  by_cases hk : oth.kind = e.kind
  · simp [c16ModelGen, he, hus, hk, ho hk]
  · simp [c16ModelGen, he, hus, hk]

/-- **the model as a context**: every callee means the corresponding function of
PV/Model/Unify.lean -/
def c16ModelCtx (cands : List String) (recur : Expr → Expr → List URec → List URec)
    (closure : Option C16Env) : C16Ctx :=
  { recur := recur, fn := c16ModelFn cands, gen := c16ModelGen cands recur, closure := closure,
    selfAttrs := c16ModelAttrs cands }

theorem c16ModelCtx_ok (cands : List String) (recur : Expr → Expr → List URec → List URec)
    (closure : Option C16Env) : C16CxOk cands (c16ModelCtx cands recur closure) where
  fn := c16ModelFn_spec cands
  ca := c16ModelGen_ca cands recur
  attrs := rfl

end PV.Unify
