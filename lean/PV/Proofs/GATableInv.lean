import PV.Proofs.GATableProd
/-
  C18 (T-gen), part 3b: `as_scalar`, `scalar_product`, `norm_squared`, `I`, `dual`,
  `get_pure_grade`, `inv`, `__bool__`, `__eq__`, `__hash__` of the expected function table.
-/
set_option linter.unusedSectionVars false
set_option linter.unusedVariables false
set_option linter.unusedSimpArgs false
namespace PV.GA.C18T

section
variable {R : Type} [Add R] [Mul R] [Neg R] [OfNat R 0] [OfNat R 1]
variable (Γ : C18Ctx R) (fuel : Nat) (callee : C18Callee R)

/-! ## `as_scalar` -/

/-- the loop of `as_scalar` on values: `none` = `ValueError` -/
def asScalarVal : MVOf R → C18Val R → Option (C18Val R)
  | [], rv => some rv
  | (k, c) :: rest, _ => if k ≠ 0 then none else asScalarVal rest (.coef c)

theorem as_scalar_loop (rt : C18Rt R) (sv : C18Val R) : ∀ (a : MVOf R) (rv b c : C18Val R),
    (match asScalarVal a rv with
      | none => c18For (c18BindNames ["bits", "coeff"]) (c18ExecList rt [
            .ifThen (.cmp .ne (.name "bits") (.nat 0)) [.raise "ValueError"] [],
            .assign [.name "result"] false (.name "coeff")]) (c18Items a)
          [("self", sv), ("result", rv), ("bits", b), ("coeff", c)] = .raise "ValueError"
      | some rv' => ∃ b' c', c18For (c18BindNames ["bits", "coeff"]) (c18ExecList rt [
            .ifThen (.cmp .ne (.name "bits") (.nat 0)) [.raise "ValueError"] [],
            .assign [.name "result"] false (.name "coeff")]) (c18Items a)
          [("self", sv), ("result", rv), ("bits", b), ("coeff", c)]
          = .normal [("self", sv), ("result", rv'), ("bits", b'), ("coeff", c')]) := by
  intro a
  induction a with
  | nil => intro rv b c; exact ⟨b, c, rfl⟩
  | cons p a ih =>
    intro rv b c
    obtain ⟨k, x⟩ := p
    by_cases hk : k = 0
    · subst hk
      have hstep : c18For (c18BindNames ["bits", "coeff"]) (c18ExecList rt [
            .ifThen (.cmp .ne (.name "bits") (.nat 0)) [.raise "ValueError"] [],
            .assign [.name "result"] false (.name "coeff")]) (c18Items ((0, x) :: a))
          [("self", sv), ("result", rv), ("bits", b), ("coeff", c)]
          = c18For (c18BindNames ["bits", "coeff"]) (c18ExecList rt [
            .ifThen (.cmp .ne (.name "bits") (.nat 0)) [.raise "ValueError"] [],
            .assign [.name "result"] false (.name "coeff")]) (c18Items a)
          [("self", sv), ("result", .coef x), ("bits", .nat 0), ("coeff", .coef x)] := by
        simp only [c18Items, List.map_cons]
        rw [c18For_iter (env1 := [("self", sv), ("result", rv), ("bits", .nat 0), ("coeff", .coef x)])
          (env2 := [("self", sv), ("result", .coef x), ("bits", .nat 0), ("coeff", .coef x)])
          (by simp [c18BindNames, c18Set]) (by c18sym)]
      simp only [asScalarVal, ne_eq, not_true_eq_false, if_false]
      have := ih (.coef x) (.nat 0) (.coef x)
      rw [hstep]
      exact this
    · simp only [asScalarVal, ne_eq, hk, not_false_eq_true, if_true]
      have hk' : (k == 0) = false := by simp [hk]
      simp only [c18Items, List.map_cons, c18For]
      c18sym [c18BindNames, hk']

theorem c18_as_scalar (a : MVOf R) :
    c18RunFn c18ExpectedModule Γ fuel callee c18X_MultiVector_as_scalar [.mv a] []
      = match asScalarVal a (.nat 0) with
        | none => .raise "ValueError"
        | some v => .ok v := by
  simp only [c18RunFn, c18X_MultiVector_as_scalar, c18BindArgs, List.nil_append, List.cons_append,
    List.map_cons, List.map_nil]
  have hl := as_scalar_loop (c18Rt Γ fuel callee) (.mv a) a (.nat 0) .unbound .unbound
  cases hv : asScalarVal a (.nat 0) with
  | none =>
    rw [hv] at hl
    c18sym [hl]
  | some v =>
    rw [hv] at hl
    obtain ⟨b', c', hl⟩ := hl
    have hvk : v = .nat 0 ∨ ∃ r, v = .coef r := by
      clear hl
      have : ∀ (a : MVOf R) (rv : C18Val R), (rv = .nat 0 ∨ ∃ r, rv = .coef r) →
          ∀ v, asScalarVal a rv = some v → (v = .nat 0 ∨ ∃ r, v = .coef r) := by
        intro a
        induction a with
        | nil => intro rv h v hv; simp [asScalarVal] at hv; subst hv; exact h
        | cons p a ih =>
          intro rv h v hv
          obtain ⟨k, x⟩ := p
          by_cases hk : k = 0
          · simp [asScalarVal, hk] at hv; exact ih _ (Or.inr ⟨x, rfl⟩) v hv
          · simp [asScalarVal, hk] at hv
      exact this a _ (Or.inl rfl) v hv
    rcases hvk with rfl | ⟨r, rfl⟩ <;> c18sym [hl]

/-- the model's `asScalar` is the value of the loop -/
theorem asScalarVal_model (a : MVOf R) :
    (asScalarVal a (.nat 0 : C18Val R)).map c18ValR = asScalar a := by
  have hnone : ∀ (f : Option R → Nat × R → Option R), (∀ p, f none p = none) →
      ∀ (a : MVOf R), a.foldl f none = none := by
    intro f hf a; induction a with
    | nil => rfl
    | cons p a ih => simp [hf, ih]
  have : ∀ (a : MVOf R) (rv : C18Val R), (asScalarVal a rv).map c18ValR
      = a.foldl (fun (r : Option R) (p : Nat × R) =>
          r.bind fun _ => if p.1 ≠ 0 then none else some p.2) (some (c18ValR rv)) := by
    intro a
    induction a with
    | nil => intro rv; rfl
    | cons p a ih =>
      intro rv
      obtain ⟨k, x⟩ := p
      by_cases hk : k = 0
      · simp [asScalarVal, hk, ih, c18ValR]
      · simp only [asScalarVal, ne_eq, hk, not_false_eq_true, if_true, Option.map_none,
          List.foldl_cons, Option.bind_some]
        exact (hnone _ (fun p => rfl) a).symm
  have h := this a (.nat 0)
  simp only [c18ValR, c18OfNat_zero] at h
  rw [h]; rfl

/-! ## `scalar_product`, `norm_squared`, `I`, `dual` -/

@[simp] theorem c18CallMethod_obj_as_scalar (rt : C18Rt R) (hM : rt.M = c18ExpectedModule)
    (s : Bool) (d : Option (MVOf R)) :
    c18CallMethod rt (.obj s d) "as_scalar" [] []
      = rt.callee "MultiVector.as_scalar" [.obj s d] [] := by
  simp only [c18CallMethod, hM]; rfl
@[simp] theorem c18CallMethod_obj_rev (rt : C18Rt R) (hM : rt.M = c18ExpectedModule)
    (s : Bool) (d : Option (MVOf R)) :
    c18CallMethod rt (.obj s d) "rev" [] [] = rt.callee "MultiVector.rev" [.obj s d] [] := by
  simp only [c18CallMethod, hM]; rfl
@[simp] theorem c18CallMethod_obj_scalar_product (rt : C18Rt R) (hM : rt.M = c18ExpectedModule)
    (s : Bool) (d : Option (MVOf R)) (v : C18Val R) :
    c18CallMethod rt (.obj s d) "scalar_product" [v] []
      = rt.callee "MultiVector.scalar_product" [.obj s d, v] [] := by
  simp only [c18CallMethod, hM]; rfl

/-- `scalar_product`: the scalar product handed to `as_scalar` -/
theorem c18_scalar_product (hc : C18HasCast Γ callee) (x : MVOf R) (v : C18Val R) (y p : MVOf R)
    (hv : c18CastOf Γ.z v = some y)
    (hgp : callee "MultiVector._generic_product" [.mv x, .mv y, .cls "_ScalarProduct"] []
      = .ok (.mv p)) :
    c18RunFn c18ExpectedModule Γ fuel callee c18X_MultiVector_scalar_product [.mv x, v] []
      = callee "MultiVector.as_scalar" [.mv p] [] := by
  have hcast := hc v y hv
  have hvv : v = .mv y ∨ ∃ c, v = .coef c := by
    cases v <;> simp [c18CastOf] at hv
    · right; exact ⟨_, rfl⟩
    · rename_i s d
      cases s <;> cases d <;> simp [c18CastOf] at hv
      left; subst hv; rfl
  simp only [c18RunFn, c18X_MultiVector_scalar_product, c18BindArgs, List.nil_append,
    List.cons_append, List.map_cons, List.map_nil]
  rcases hvv with rfl | ⟨c, rfl⟩ <;> c18sym [hcast, hgp] <;>
    cases callee "MultiVector.as_scalar" _ [] <;> rfl

/-- `norm_squared`: `self.rev().scalar_product(self)` -/
theorem c18_norm_squared (a : MVOf R)
    (hrev : callee "MultiVector.rev" [.mv a] [] = .ok (.mv (rev a))) :
    c18RunFn c18ExpectedModule Γ fuel callee c18X_MultiVector_norm_squared [.mv a] []
      = callee "MultiVector.scalar_product" [.mv (rev a), .mv a] [] := by
  simp only [c18RunFn, c18X_MultiVector_norm_squared, c18BindArgs, List.nil_append,
    List.cons_append, List.map_cons, List.map_nil]
  c18sym [hrev]
  cases callee "MultiVector.scalar_product" _ [] <;> rfl

/-- `I`: the pseudoscalar `{2**dims - 1: 1}` -/
theorem c18_I (hinit : C18HasInit callee) (a : MVOf R) :
    c18RunFn c18ExpectedModule Γ fuel callee c18X_MultiVector_I [.mv a] []
      = .ok (.mv (pseudoscalar Γ.dims)) := by
  simp only [c18RunFn, c18X_MultiVector_I, c18BindArgs, List.nil_append,
    List.cons_append, List.map_cons, List.map_nil]
  have h1 : 1 ≤ 2 ^ Γ.dims := Nat.one_le_two_pow
  c18sym [h1, c18DictPut, dictSet, hinit _, pseudoscalar]

/-! ## `get_pure_grade` -/

/-- the loop of `get_pure_grade` on values: `none` = the early `return None` -/
def pgVal : List Nat → Option Nat → Option (Option Nat)
  | [], r => some r
  | k :: ks, none => pgVal ks (some (bitCount k))
  | k :: ks, some g => if g = bitCount k then pgVal ks (some g) else none

def pgResVal : Option Nat → C18Val R
  | none => .none
  | some g => .nat g

def pgBody : List C18Stmt := [
  .assign [.name "grade"] false (.call (.name "bit_count") [(.name "bits")] [] []),
  .ifThen (.cmp .is (.name "result") .none)
    [.assign [.name "result"] false (.name "grade")]
    [.ifThen (.cmp .eq (.name "result") (.name "grade")) [.pass] [.ret .none]]]

theorem pg_loop (hbc : C18HasBitCount fuel callee) (sv : C18Val R) :
    ∀ (ks : List Nat), (∀ k ∈ ks, k < fuel) → ∀ (r : Option Nat) (b g : C18Val R),
    (match pgVal ks r with
      | none => c18For (c18BindNames ["bits"]) (c18ExecList (c18Rt Γ fuel callee) pgBody)
          (ks.map fun k => (.nat k : C18Val R))
          [("self", sv), ("result", pgResVal r), ("bits", b), ("grade", g)] = .ret .none
      | some r' => ∃ b' g', c18For (c18BindNames ["bits"])
          (c18ExecList (c18Rt Γ fuel callee) pgBody) (ks.map fun k => (.nat k : C18Val R))
          [("self", sv), ("result", pgResVal r), ("bits", b), ("grade", g)]
          = .normal [("self", sv), ("result", pgResVal r'), ("bits", b'), ("grade", g')]) := by
  intro ks
  induction ks with
  | nil => intro _ r b g; exact ⟨b, g, rfl⟩
  | cons k ks ih =>
    intro hk r b g
    have hkf : k < fuel := hk k (List.mem_cons_self)
    have hks : ∀ k' ∈ ks, k' < fuel := fun k' h => hk k' (List.mem_cons_of_mem _ h)
    cases r with
    | none =>
      simp only [pgVal, List.map_cons]
      rw [c18For_iter (env1 := [("self", sv), ("result", .none), ("bits", .nat k), ("grade", g)])
        (env2 := [("self", sv), ("result", .nat (bitCount k)), ("bits", .nat k),
          ("grade", .nat (bitCount k))])
        (by simp [c18BindNames, c18Set, pgResVal]) (by c18sym [pgBody, hbc k hkf])]
      exact ih hks (some (bitCount k)) _ _
    | some g0 =>
      simp only [pgVal, List.map_cons]
      by_cases hg : g0 = bitCount k
      · subst hg
        simp only [if_true]
        rw [c18For_iter (env1 := [("self", sv), ("result", .nat (bitCount k)), ("bits", .nat k),
            ("grade", g)])
          (env2 := [("self", sv), ("result", .nat (bitCount k)), ("bits", .nat k),
            ("grade", .nat (bitCount k))])
          (by simp [c18BindNames, c18Set, pgResVal]) (by c18sym [pgBody, hbc k hkf])]
        exact ih hks (some (bitCount k)) (.nat k) (.nat (bitCount k))
      · have hg' : (g0 == bitCount k) = false := by simp [hg]
        simp only [hg, if_false]
        simp only [c18For, pgResVal]
        c18sym [c18BindNames, pgBody, hbc k hkf, hg']

theorem pgVal_model (a : MVOf R) (hne : a ≠ []) :
    (match pgVal (dkeys a) none with
      | none => (none : Option Nat)
      | some r => r) = getPureGrade a := by
  cases a with
  | nil => exact absurd rfl hne
  | cons p rest =>
    obtain ⟨k, c⟩ := p
    simp only [dkeys, List.map_cons, pgVal, getPureGrade]
    have : ∀ (ks : MVOf R), (match pgVal (ks.map (·.1)) (some (bitCount k)) with
        | none => (none : Option Nat) | some r => r)
        = if ks.all (fun x => decide (bitCount x.1 = bitCount k)) then some (bitCount k)
          else none := by
      intro ks
      induction ks with
      | nil => simp [pgVal]
      | cons q ks ih =>
        obtain ⟨k', c'⟩ := q
        by_cases h : bitCount k = bitCount k'
        · simp only [List.map_cons, pgVal, h, if_true, List.all_cons, decide_true, Bool.true_and]
          rw [← h]; exact ih
        · have h' : ¬ bitCount k' = bitCount k := fun e => h e.symm
          simp [pgVal, h, h']
    have h2 := this rest
    simp only [h2]

/-- **`get_pure_grade` of the table is `getPureGrade`** (Python `None` = the model's `none`) -/
theorem c18_get_pure_grade (hbc : C18HasBitCount fuel callee) (a : MVOf R)
    (hk : ∀ k ∈ dkeys a, k < fuel) :
    c18RunFn c18ExpectedModule Γ fuel callee c18X_MultiVector_get_pure_grade [.mv a] []
      = .ok (pgResVal (getPureGrade a)) := by
  simp only [c18RunFn, c18X_MultiVector_get_pure_grade, c18BindArgs, List.nil_append,
    List.cons_append, List.map_cons, List.map_nil]
  cases a with
  | nil => c18sym [getPureGrade, pgResVal]
  | cons p rest =>
    have hl := pg_loop Γ fuel callee hbc (.mv (p :: rest)) (dkeys (p :: rest)) hk none
      .unbound .unbound
    have hm := pgVal_model (p :: rest) (by simp)
    simp only [pgBody, pgResVal] at hl
    simp only [dkeys, List.map_cons, List.map_map] at hl hm
    have hmap : (List.map (fun (x : Nat × R) => (C18Val.nat x.1 : C18Val R)) (p :: rest))
        = (dkeys (p :: rest)).map fun k => (.nat k : C18Val R) := by
      simp [dkeys, List.map_map]
    cases hv : pgVal (p.1 :: List.map (fun x => x.1) rest) none with
    | none =>
      rw [hv] at hl hm
      dsimp only at hl hm
      c18sym [hmap, hl, ← hm, pgResVal]
    | some r =>
      rw [hv] at hl hm
      dsimp only at hl hm
      obtain ⟨b', g', hl⟩ := hl
      cases r with
      | none => c18sym [hmap, hl, ← hm, pgResVal]
      | some g => c18sym [hmap, hl, ← hm, pgResVal]

/-! ## `__bool__`, `__hash__` -/

@[simp] theorem c18Global_bool :
    (c18Global c18ExpectedModule "bool" : C18Res (C18Val R)) = .ok (.prim "bool") := rfl
@[simp] theorem c18Prim_bool_dict (rt : C18Rt R) (d : MVOf R) :
    c18Prim rt "bool" [.dict d] [] = .ok (.bool (!d.isEmpty)) := rfl

/-- **`__bool__` of the table is `mvBool`** -/
theorem c18_bool (a : MVOf R) :
    c18RunFn c18ExpectedModule Γ fuel callee c18X_MultiVector___bool__ [.mv a] []
      = .ok (.bool (mvBool a)) := by
  simp only [c18RunFn, c18X_MultiVector___bool__, c18BindArgs, List.nil_append,
    List.cons_append, List.map_cons, List.map_nil]
  c18sym [mvBool]

theorem hash_fold (hb : Nat → Nat) (hc : R → Nat) (a : MVOf R) (h0 : Nat) :
    (c18Items a).foldl (fun h (x : C18Val R) => match x with
      | .tuple [.nat k, .coef c] => h ^^^ (hb k ^^^ hc c)
      | _ => h) h0 = a.foldl (fun r (p : Nat × R) => r ^^^ (hb p.1 ^^^ hc p.2)) h0 := by
  induction a generalizing h0 with
  | nil => rfl
  | cons p a ih =>
    obtain ⟨k, c⟩ := p
    simp only [c18Items, List.map_cons, List.foldl_cons] at ih ⊢
    exact ih _

/-- **`__hash__` of the table is `mvHash`**: `hash(space)` XOR-ed with `hash(bits) ^ hash(coeff)`
of every item -/
theorem c18_hash (a : MVOf R) :
    c18RunFn c18ExpectedModule Γ fuel callee c18X_MultiVector___hash__ [.mv a] []
      = .ok (.hash (a.foldl (fun r (p : Nat × R) => r ^^^ (Γ.hb p.1 ^^^ Γ.hc p.2)) Γ.hspace)) := by
  simp only [c18RunFn, c18X_MultiVector___hash__, c18BindArgs, List.nil_append,
    List.cons_append, List.map_cons, List.map_nil]
  obtain ⟨env', hfor, b, c, rfl⟩ := c18For_fold
    (bind := c18BindNames ["bits", "coeff"])
    (body := c18ExecList (c18Rt Γ fuel callee) [
      .aug (.name "result") .bxor (.bin .bxor (.call (.name "hash") [(.name "bits")] [] [])
        (.call (.name "hash") [(.name "coeff")] [] []))])
    (fun env (h : Nat) => ∃ b c, env = [("self", .mv a), ("result", .hash h), ("bits", b),
      ("coeff", c)])
    (fun h x => match x with
      | .tuple [.nat k, .coef c] => h ^^^ (Γ.hb k ^^^ Γ.hc c)
      | _ => h) (c18Items a)
    [("self", .mv a), ("result", .hash Γ.hspace), ("bits", .unbound), ("coeff", .unbound)]
    Γ.hspace ⟨_, _, rfl⟩
    (by
      intro env h x hx ⟨b, c', henv⟩
      obtain ⟨k, c, hmem, rfl⟩ := mem_c18Items hx
      subst henv
      refine ⟨[("self", .mv a), ("result", .hash h), ("bits", .nat k), ("coeff", .coef c)],
        [("self", .mv a), ("result", .hash (h ^^^ (Γ.hb k ^^^ Γ.hc c))), ("bits", .nat k),
          ("coeff", .coef c)], ?_, ?_, ⟨_, _, rfl⟩⟩
      · simp [c18BindNames, c18Set]
      · c18sym)
  c18sym [hfor, hash_fold]

/-! ## `inv` -/

@[simp] theorem c18CallMethod_obj_norm_squared (rt : C18Rt R) (hM : rt.M = c18ExpectedModule)
    (s : Bool) (d : Option (MVOf R)) :
    c18CallMethod rt (.obj s d) "norm_squared" [] []
      = rt.callee "MultiVector.norm_squared" [.obj s d] [] := by
  simp only [c18CallMethod, hM]; rfl
@[simp] theorem c18CallMethod_obj_get_pure_grade (rt : C18Rt R) (hM : rt.M = c18ExpectedModule)
    (s : Bool) (d : Option (MVOf R)) :
    c18CallMethod rt (.obj s d) "get_pure_grade" [] []
      = rt.callee "MultiVector.get_pure_grade" [.obj s d] [] := by
  simp only [c18CallMethod, hM]; rfl

/-- what `inv` returns, given the value of `norm_squared` -/
def invRes (Γ : C18Ctx R) (a : MVOf R) (nsqr : R) : C18Res (C18Val R) :=
  match a with
  | [] => .raise "ZeroDivisionError"
  | [(bits, coeff)] =>
    if Γ.z nsqr then .raise "ZeroDivisionError"
    else .ok (.mv [(bits, Γ.div (if bitCount bits * (bitCount bits - 1) / 2 % 2 ≠ 0 then -coeff
      else coeff) nsqr)])
  | _ =>
    match getPureGrade a with
    | some gr =>
      if gr = 0 ∨ gr = 1 ∨ gr = Γ.dims then
        if Γ.z nsqr then .raise "ZeroDivisionError"
        else .ok (.mv (a.map fun (p : Nat × R) => (p.1, Γ.div p.2 nsqr)))
      else .raise "NotImplementedError"
    | none => .raise "NotImplementedError"

/-- the dict comprehension `{bits: coeff/nsqr for bits, coeff in self.data.items()}` -/
theorem inv_comp_fold (rt : C18Rt R) (sv nv g : C18Val R) (n : R)
    (hnv : nv = .coef n ∨ (nv = .nat 0 ∧ n = 0)) (hz0 : rt.Γ.z 0 = true) :
    ∀ (a acc : MVOf R),
    (c18Items a).foldl (c18DictCompStep (c18Eval rt (.name "bits"))
        (c18Eval rt (.bin .truediv (.name "coeff") (.name "nsqr"))) ["bits", "coeff"]
        [("self", sv), ("nsqr", nv), ("bits", .unbound), ("coeff", .unbound), ("grade", g)])
      (.ok (.dict acc))
      = if rt.Γ.z n = true ∧ a ≠ [] then .raise "ZeroDivisionError"
        else .ok (.dict (a.foldl (fun acc (p : Nat × R) => dictSet acc p.1 (rt.Γ.div p.2 n)) acc)) := by
  intro a
  induction a with
  | nil => intro acc; simp [c18Items]
  | cons p a ih =>
    intro acc
    obtain ⟨k, c⟩ := p
    simp only [c18Items, List.map_cons, List.foldl_cons]
    cases hz : rt.Γ.z n
    · have hstep : c18DictCompStep (c18Eval rt (.name "bits"))
          (c18Eval rt (.bin .truediv (.name "coeff") (.name "nsqr"))) ["bits", "coeff"]
          [("self", sv), ("nsqr", nv), ("bits", .unbound), ("coeff", .unbound), ("grade", g)]
          (.ok (.dict acc)) (.tuple [.nat k, .coef c])
          = .ok (.dict (dictSet acc k (rt.Γ.div c n))) := by
        rcases hnv with rfl | ⟨rfl, rfl⟩
        · simp only [c18DictCompStep, c18BindNames]
          c18sym [hz, c18DictPut]
        · rw [hz0] at hz; cases hz
      rw [hstep]
      have := ih (dictSet acc k (rt.Γ.div c n))
      simp only [c18Items, hz] at this
      simp [this]
    · have hstep : c18DictCompStep (c18Eval rt (.name "bits"))
          (c18Eval rt (.bin .truediv (.name "coeff") (.name "nsqr"))) ["bits", "coeff"]
          [("self", sv), ("nsqr", nv), ("bits", .unbound), ("coeff", .unbound), ("grade", g)]
          (.ok (.dict acc)) (.tuple [.nat k, .coef c]) = .raise "ZeroDivisionError" := by
        rcases hnv with rfl | ⟨rfl, rfl⟩
        · simp only [c18DictCompStep, c18BindNames]
          c18sym [hz]
        · simp only [c18DictCompStep, c18BindNames]
          c18sym [hz0]
      rw [hstep]
      have hraise : ∀ (xs : List (C18Val R)), xs.foldl (c18DictCompStep (c18Eval rt (.name "bits"))
          (c18Eval rt (.bin .truediv (.name "coeff") (.name "nsqr"))) ["bits", "coeff"]
          [("self", sv), ("nsqr", nv), ("bits", .unbound), ("coeff", .unbound), ("grade", g)])
          (.raise "ZeroDivisionError") = .raise "ZeroDivisionError" := by
        intro xs
        induction xs with
        | nil => rfl
        | cons x xs ih' => simp [c18DictCompStep, ih']
      rw [hraise]
      simp

theorem foldl_dictSet_map (f : R → R) (a : MVOf R) (hnd : (dkeys a).Nodup) :
    a.foldl (fun acc (p : Nat × R) => dictSet acc p.1 (f p.2)) [] = a.map fun p => (p.1, f p.2) := by
  have h := foldl_dictSet_filterMap (fun _ c => some (f c)) a [] hnd (by simp [dkeys])
  simp only [List.nil_append, Option.map_some] at h
  rw [List.filterMap_eq_map'] at h
  · exact h
  
/-- **`inv` of the table** -/
theorem c18_inv (hz0 : Γ.z 0 = true) (hbc : C18HasBitCount fuel callee) (hinit : C18HasInit callee)
    (a : MVOf R) (hnd : (dkeys a).Nodup) (hk : ∀ k ∈ dkeys a, k < fuel) (nv : C18Val R) (n : R)
    (hnv : nv = .coef n ∨ (nv = .nat 0 ∧ n = 0))
    (hns : callee "MultiVector.norm_squared" [.mv a] [] = .ok nv)
    (hpg : callee "MultiVector.get_pure_grade" [.mv a] [] = .ok (pgResVal (getPureGrade a))) :
    c18RunFn c18ExpectedModule Γ fuel callee c18X_MultiVector_inv [.mv a] [] = invRes Γ a n := by
  simp only [c18RunFn, c18X_MultiVector_inv, c18BindArgs, List.nil_append, List.cons_append,
    List.map_cons, List.map_nil]
  have hnv' : (nv = .coef n ∨ nv = .nat 0) := by
    rcases hnv with h | ⟨h, _⟩
    · exact Or.inl h
    · exact Or.inr h
  match a, hnd, hk, hns, hpg with
  | [], _, _, hns, _ =>
    rcases hnv' with rfl | rfl <;> c18sym [hns, invRes]
  | [(k, c)], _, hk, hns, _ =>
    have hkf : k < fuel := hk k (by simp [dkeys])
    rcases hnv with rfl | ⟨rfl, rfl⟩
    · by_cases hg0 : bitCount k = 0
      · cases hz : Γ.z n <;>
          c18sym [hns, invRes, c18Items, c18BindNames, hbc k hkf, hg0, hz, c18DictPut, dictSet,
            hinit _]
      · have h1 : 1 ≤ bitCount k := by omega
        rcases Nat.mod_two_eq_zero_or_one (bitCount k * (bitCount k - 1) / 2) with hg | hg <;>
        cases hz : Γ.z n <;>
          c18sym [hns, invRes, c18Items, c18BindNames, hbc k hkf, h1, hg, hz, c18DictPut, dictSet,
            hinit _]
    · by_cases hg0 : bitCount k = 0
      · c18sym [hns, invRes, c18Items, c18BindNames, hbc k hkf, hg0, hz0, c18DictPut, dictSet,
          hinit _]
      · have h1 : 1 ≤ bitCount k := by omega
        rcases Nat.mod_two_eq_zero_or_one (bitCount k * (bitCount k - 1) / 2) with hg | hg <;>
          c18sym [hns, invRes, c18Items, c18BindNames, hbc k hkf, h1, hg, hz0, c18DictPut, dictSet,
            hinit _]
  | p :: q :: rest, hnd, hk, hns, hpg =>
    have hlen : ((p :: q :: rest).length > 1) = True := by simp
    have hcomp := inv_comp_fold (c18Rt Γ fuel callee) (.mv (p :: q :: rest)) nv .unbound n hnv hz0
      (p :: q :: rest) []
    have hmap := foldl_dictSet_map (fun c => Γ.div c n) (p :: q :: rest) hnd
    cases hpgv : getPureGrade (p :: q :: rest) with
    | none =>
      rw [hpgv] at hpg
      rcases hnv' with rfl | rfl <;>
        c18sym [hns, invRes, hpg, pgResVal, hpgv, c18CmpOp, c18ValEq]
    | some gr =>
      rw [hpgv] at hpg
      by_cases hgr : gr = 0 ∨ gr = 1 ∨ gr = Γ.dims
      · have hin : ((gr == 0) || ((gr == 1) || (gr == Γ.dims))) = true := by
          rcases hgr with h | h | h <;> simp [h]
        cases hz : Γ.z n
        · have hcomp' := hcomp
          simp only [hz, Bool.false_eq_true, false_and, if_false] at hcomp'
          rcases hnv' with rfl | rfl <;>
            c18sym [hns, invRes, hpg, pgResVal, hpgv, c18CmpOp, c18ValEq, hin, hgr, hz, hcomp',
              hmap, hinit _, Bool.or_assoc]
        · have hcomp' := hcomp
          simp only [hz, true_and, ne_eq, reduceCtorEq, not_false_eq_true, if_true] at hcomp'
          rcases hnv' with rfl | rfl <;>
            c18sym [hns, invRes, hpg, pgResVal, hpgv, c18CmpOp, c18ValEq, hin, hgr, hz, hcomp',
              Bool.or_assoc]
      · have hin : ((gr == 0) || ((gr == 1) || (gr == Γ.dims))) = false := by
          simp only [not_or] at hgr
          simp [hgr.1, hgr.2.1, hgr.2.2]
        rcases hnv' with rfl | rfl <;>
          c18sym [hns, invRes, hpg, pgResVal, hpgv, c18CmpOp, c18ValEq, hin, hgr, Bool.or_assoc]

/-! ## `dual`, `__truediv__`, `__eq__`, `__neg__`, `__sub__` -/

theorem c18GetAttr_obj_I (rt : C18Rt R) (hM : rt.M = c18ExpectedModule) (d : MVOf R) :
    c18GetAttr rt (.obj true (some d)) "I" = rt.callee "MultiVector.I" [.obj true (some d)] [] := by
  simp only [c18GetAttr, hM]
  rfl

/-- an operator whose left operand is a `MultiVector`: the dunder method of the table, a
`NotImplemented` result becomes `TypeError` -/
theorem c18BinOp_obj (rt : C18Rt R) (hM : rt.M = c18ExpectedModule) (op : C18Bin) (q : String)
    (hq : c18ClassAttr c18ExpectedModule "MultiVector" ("__" ++ c18DunderOf op ++ "__")
      = some (.method q "plain")) (s : Bool) (d : Option (MVOf R)) (b : C18Val R) :
    c18BinOp rt op (.obj s d) b
      = match rt.callee q [.obj s d, b] [] with
        | .ok .notImplemented => .raise "TypeError"
        | r => r := by
  simp only [c18BinOp, hM, hq]
  rfl

/-- `dual`: `self | self.I.rev()` -/
theorem c18_dual (a i0 i1 r : MVOf R) (hI : callee "MultiVector.I" [.mv a] [] = .ok (.mv i0))
    (hrev : callee "MultiVector.rev" [.mv i0] [] = .ok (.mv i1))
    (hor : callee "MultiVector.__or__" [.mv a, .mv i1] [] = .ok (.mv r)) :
    c18RunFn c18ExpectedModule Γ fuel callee c18X_MultiVector_dual [.mv a] [] = .ok (.mv r) := by
  simp only [c18RunFn, c18X_MultiVector_dual, c18BindArgs, List.nil_append, List.cons_append,
    List.map_cons, List.map_nil]
  c18sym [c18GetAttr_obj_I (c18Rt Γ fuel callee) rfl, hI, hrev,
    c18BinOp_obj (c18Rt Γ fuel callee) rfl .bor "MultiVector.__or__" rfl, hor]

@[simp] theorem c18CallMethod_obj_inv (rt : C18Rt R) (hM : rt.M = c18ExpectedModule)
    (s : Bool) (d : Option (MVOf R)) :
    c18CallMethod rt (.obj s d) "inv" [] [] = rt.callee "MultiVector.inv" [.obj s d] [] := by
  simp only [c18CallMethod, hM]; rfl

/-- `__truediv__`: `self * other.inv()`; an exception of `inv` propagates -/
theorem c18_truediv (hc : C18HasCast Γ callee) (x : MVOf R) (v : C18Val R) (y : MVOf R)
    (hv : c18CastOf Γ.z v = some y) :
    (∀ yi r, callee "MultiVector.inv" [.mv y] [] = .ok (.mv yi) →
      callee "MultiVector.__mul__" [.mv x, .mv yi] [] = .ok (.mv r) →
      c18RunFn c18ExpectedModule Γ fuel callee c18X_MultiVector___truediv__ [.mv x, v] []
        = .ok (.mv r)) ∧
    (∀ e, callee "MultiVector.inv" [.mv y] [] = .raise e →
      c18RunFn c18ExpectedModule Γ fuel callee c18X_MultiVector___truediv__ [.mv x, v] []
        = .raise e) := by
  have hcast := hc v y hv
  have hvv : v = .mv y ∨ ∃ c, v = .coef c := by
    cases v <;> simp [c18CastOf] at hv
    · right; exact ⟨_, rfl⟩
    · rename_i s d
      cases s <;> cases d <;> simp [c18CastOf] at hv
      left; subst hv; rfl
  constructor
  · intro yi r hinv hmul
    simp only [c18RunFn, c18X_MultiVector___truediv__, c18BindArgs, List.nil_append,
      List.cons_append, List.map_cons, List.map_nil]
    rcases hvv with rfl | ⟨c, rfl⟩ <;>
      c18sym [hcast, hinv, c18BinOp_obj (c18Rt Γ fuel callee) rfl .mul "MultiVector.__mul__" rfl,
        hmul]
  · intro e hinv
    simp only [c18RunFn, c18X_MultiVector___truediv__, c18BindArgs, List.nil_append,
      List.cons_append, List.map_cons, List.map_nil]
    rcases hvv with rfl | ⟨c, rfl⟩ <;> c18sym [hcast, hinv]

@[simp] theorem c18CmpOp_eq_dict (rt : C18Rt R) (a b : MVOf R) :
    c18CmpOp rt .eq (.dict a) (.dict b)
      = .ok (.bool (a.length == b.length && a.all fun (p : Nat × R) =>
          match dictGet b p.1 with | some w => rt.Γ.ceq p.2 w | none => false)) := rfl

/-- `__eq__`: the dicts compared with Python's dict `==` -/
theorem c18_eq (hc : C18HasCast Γ callee) (x : MVOf R) (v : C18Val R) (y : MVOf R)
    (hv : c18CastOf Γ.z v = some y) :
    c18RunFn c18ExpectedModule Γ fuel callee c18X_MultiVector___eq__ [.mv x, v] []
      = .ok (.bool (x.length == y.length && x.all fun (p : Nat × R) =>
          match dictGet y p.1 with | some w => Γ.ceq p.2 w | none => false)) := by
  have hcast := hc v y hv
  have hvv : v = .mv y ∨ ∃ c, v = .coef c := by
    cases v <;> simp [c18CastOf] at hv
    · right; exact ⟨_, rfl⟩
    · rename_i s d
      cases s <;> cases d <;> simp [c18CastOf] at hv
      left; subst hv; rfl
  simp only [c18RunFn, c18X_MultiVector___eq__, c18BindArgs, List.nil_append,
    List.cons_append, List.map_cons, List.map_nil]
  rcases hvv with rfl | ⟨c, rfl⟩ <;> c18sym [hcast]

/-- with `==` on coefficients deciding equality, that is the model's `mvEq` -/
theorem eq_val_model [DecidableEq R] (x y : MVOf R) :
    (x.length == y.length && x.all fun (p : Nat × R) =>
      match dictGet y p.1 with | some w => decide (p.2 = w) | none => false) = mvEq x y := by
  simp only [mvEq, dictEq]
  congr 1
  apply List.all_congr rfl
  intro p
  cases h : dictGet y p.1 with
  | none => simp
  | some w =>
    by_cases hw : p.2 = w
    · subst hw; simp
    · have hw' : ¬ w = p.2 := fun e => hw e.symm
      simp [hw, hw']

/-- the dict comprehension of `__neg__` -/
theorem neg_comp_fold (rt : C18Rt R) (sv : C18Val R) : ∀ (a acc : MVOf R),
    (c18Items a).foldl (c18DictCompStep (c18Eval rt (.name "bits"))
        (c18Eval rt (.un .neg (.name "coeff"))) ["bits", "coeff"] [("self", sv)])
      (.ok (.dict acc))
      = .ok (.dict (a.foldl (fun acc (p : Nat × R) => dictSet acc p.1 (-p.2)) acc)) := by
  intro a
  induction a with
  | nil => intro acc; rfl
  | cons p a ih =>
    intro acc
    obtain ⟨k, c⟩ := p
    simp only [c18Items, List.map_cons, List.foldl_cons]
    have hstep : c18DictCompStep (c18Eval rt (.name "bits")) (c18Eval rt (.un .neg (.name "coeff")))
        ["bits", "coeff"] [("self", sv)] (.ok (.dict acc)) (.tuple [.nat k, .coef c])
        = .ok (.dict (dictSet acc k (-c))) := by
      simp only [c18DictCompStep, c18BindNames]
      c18sym [c18DictPut]
    rw [hstep]
    exact ih _

/-- **`__neg__` of the table is `mvNeg`** -/
theorem c18_neg (hinit : C18HasInit callee) (a : MVOf R) (hnd : (dkeys a).Nodup) :
    c18RunFn c18ExpectedModule Γ fuel callee c18X_MultiVector___neg__ [.mv a] []
      = .ok (.mv (mvNeg a)) := by
  simp only [c18RunFn, c18X_MultiVector___neg__, c18BindArgs, List.nil_append,
    List.cons_append, List.map_cons, List.map_nil]
  have h := neg_comp_fold (c18Rt Γ fuel callee) (.mv a) a []
  have hm := foldl_dictSet_map (fun c => -c) a hnd
  c18sym [h, hm, hinit _, mvNeg]

/-- `__sub__`: `self + (-other)` -/
theorem c18_sub (x y ny r : MVOf R) (hneg : callee "MultiVector.__neg__" [.mv y] [] = .ok (.mv ny))
    (hadd : callee "MultiVector.__add__" [.mv x, .mv ny] [] = .ok (.mv r)) :
    c18RunFn c18ExpectedModule Γ fuel callee c18X_MultiVector___sub__ [.mv x, .mv y] []
      = .ok (.mv r) := by
  simp only [c18RunFn, c18X_MultiVector___sub__, c18BindArgs, List.nil_append,
    List.cons_append, List.map_cons, List.map_nil]
  have hun : c18UnOp (c18Rt Γ fuel callee) .neg (.mv y)
      = callee "MultiVector.__neg__" [.mv y] [] := by
    simp only [c18UnOp]; rfl
  c18sym [hun, hneg, c18BinOp_obj (c18Rt Γ fuel callee) rfl .add "MultiVector.__add__" rfl, hadd]

end
end PV.GA.C18T
