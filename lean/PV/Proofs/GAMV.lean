import PV.Proofs.GA
import Mathlib.Data.List.Perm.Subperm
import Mathlib.Tactic.Ring
import Mathlib.Tactic.LinearCombination
/-
  C18 — proofs about the model `PV/Model/GA.lean`, part 3: multivectors as dictionaries, over ANY
  commutative ring `R` of coefficients.

  A dictionary denotes the finitely supported function `coeff d : Nat → R`.  `_generic_product`
  is characterised through *every* linear functional `evalLin F` of its result; bilinearity and
  associativity follow from the blade cocycle.

  The zero test `z : R → Bool` the code prunes with (`pymbolic.primitives.is_zero`) is a parameter:
  * `ZSound z` (`z x → x = 0`: the test never calls a non-zero coefficient zero) is all that the
    COEFFICIENT-LEVEL statements need (what the result denotes: formula, bilinearity,
    associativity, (anti)automorphisms);
  * `ZComplete z` (`x = 0 → z x`: every zero is recognised) is what the REPRESENTATION statements
    need in addition (`Pruned`: no stored zero), and with them everything phrased with Python's
    `==`, `bool` and `hash`, because those compare the stored dictionaries.
  `isZeroD` (`x == 0` decides equality with zero — ints, `Fraction`s, any ring with decidable
  equality) is both.
-/
namespace PV.GA

/-! ## dictionaries -/

section Keys
variable {R : Type}

/-- the keys of the dict, in order -/
def keys (d : MVOf R) : List Nat := d.map (·.1)

/-- a well-formed Python dict has distinct keys -/
def NodupKeys (d : MVOf R) : Prop := (keys d).Nodup

@[simp] theorem keys_nil : keys ([] : MVOf R) = [] := rfl
@[simp] theorem keys_cons (p : Nat × R) (d : MVOf R) : keys (p :: d) = p.1 :: keys d := rfl

theorem length_keys (d : MVOf R) : (keys d).length = d.length := by simp [keys]

theorem mem_keys_iff_exists {d : MVOf R} {k : Nat} : k ∈ keys d ↔ ∃ v, (k, v) ∈ d := by
  unfold keys
  simp only [List.mem_map]
  constructor
  · rintro ⟨⟨k', v⟩, h, rfl⟩; exact ⟨v, h⟩
  · rintro ⟨v, h⟩; exact ⟨(k, v), h, rfl⟩

theorem dictGet_eq_none_iff (d : MVOf R) (k : Nat) : dictGet d k = none ↔ k ∉ keys d := by
  induction d with
  | nil => simp [dictGet]
  | cons p d ih =>
    obtain ⟨k', v⟩ := p
    simp only [dictGet, keys_cons, List.mem_cons]
    by_cases h : k' = k
    · simp [h]
    · simp only [h, ↓reduceIte, ih]
      constructor
      · intro h1 h2; rcases h2 with h2 | h2
        · exact h h2.symm
        · exact h1 h2
      · intro h1 h2; exact h1 (Or.inr h2)

theorem dictGet_mem {d : MVOf R} {k : Nat} {v : R} (h : dictGet d k = some v) : (k, v) ∈ d := by
  induction d with
  | nil => simp [dictGet] at h
  | cons p d ih =>
    obtain ⟨k', v'⟩ := p
    simp only [dictGet] at h
    by_cases hk : k' = k
    · simp only [hk, ↓reduceIte, Option.some.injEq] at h
      subst hk h; exact List.mem_cons_self
    · simp only [hk, ↓reduceIte] at h
      exact List.mem_cons_of_mem _ (ih h)

theorem dictGet_of_mem {d : MVOf R} (hd : NodupKeys d) {k : Nat} {v : R} (h : (k, v) ∈ d) :
    dictGet d k = some v := by
  induction d with
  | nil => simp at h
  | cons p d ih =>
    obtain ⟨k', v'⟩ := p
    unfold NodupKeys at hd
    simp only [keys_cons, List.nodup_cons] at hd
    simp only [dictGet]
    rcases List.mem_cons.1 h with h | h
    · injection h with h1 h2; subst h1 h2; simp
    · have hk : k' ≠ k := by
        intro e; subst e
        exact hd.1 (List.mem_map.2 ⟨_, h, rfl⟩)
      simp only [hk, ↓reduceIte]
      exact ih hd.2 h

theorem keys_dictDel (d : MVOf R) (k : Nat) : keys (dictDel d k) = (keys d).erase k := by
  induction d with
  | nil => rfl
  | cons p d ih =>
    obtain ⟨k', v'⟩ := p
    simp only [dictDel, keys_cons]
    by_cases h : k' = k
    · simp [h]
    · simp only [h, ↓reduceIte, keys_cons, ih]
      rw [List.erase_cons_tail]; simpa using h

theorem keys_dictSet (d : MVOf R) (k : Nat) (v : R) :
    keys (dictSet d k v) = if k ∈ keys d then keys d else keys d ++ [k] := by
  induction d with
  | nil => simp [dictSet]
  | cons p d ih =>
    obtain ⟨k', v'⟩ := p
    simp only [dictSet, keys_cons, List.mem_cons]
    by_cases h : k' = k
    · simp [h]
    · have h' : ¬ k = k' := fun e => h e.symm
      simp only [h, ↓reduceIte, keys_cons, ih, h', false_or]
      split <;> simp

theorem nodupKeys_dictDel {d : MVOf R} (hd : NodupKeys d) (k : Nat) :
    NodupKeys (dictDel d k) := by
  unfold NodupKeys at *; rw [keys_dictDel]; exact hd.erase k

theorem nodupKeys_dictSet {d : MVOf R} (hd : NodupKeys d) (k : Nat) (v : R) :
    NodupKeys (dictSet d k v) := by
  unfold NodupKeys at *; rw [keys_dictSet]
  split
  · exact hd
  · next h =>
    rw [List.nodup_append]
    refine ⟨hd, by simp, ?_⟩
    intro a ha b hb
    simp only [List.mem_singleton] at hb
    subst hb; intro e; subst e; exact h ha

theorem nodupKeys_nil : NodupKeys ([] : MVOf R) := List.nodup_nil

end Keys

section Ring
variable {R : Type} [CommRing R]

/-- the coefficient function denoted by a dict: `d.get(k, 0)` -/
def coeff (d : MVOf R) (k : Nat) : R := (dictGet d k).getD 0

/-- a linear functional of the dict: `Σ_{(k, v) ∈ d} F k * v` -/
def evalLin (F : Nat → R) : MVOf R → R
  | [] => 0
  | (k, v) :: d => F k * v + evalLin F d

/-- sum of `f` over a list -/
def lsum {α : Type} (f : α → R) : List α → R
  | [] => 0
  | x :: xs => f x + lsum f xs

/-- no stored coefficient is zero -/
def NoZero (d : MVOf R) : Prop := ∀ p ∈ d, p.2 ≠ 0

/-- distinct keys and no stored zero: the representation invariant under which a dict is
    determined by the function it denotes -/
def Pruned (d : MVOf R) : Prop := NodupKeys d ∧ NoZero d

/-- the zero test never calls a non-zero coefficient zero -/
def ZSound (z : R → Bool) : Prop := ∀ x, z x = true → x = 0

/-- the zero test recognises every zero -/
def ZComplete (z : R → Bool) : Prop := ∀ x, x = 0 → z x = true

theorem isZeroD_sound [DecidableEq R] : ZSound (isZeroD : R → Bool) := by
  intro x h; simpa [isZeroD] using h

theorem isZeroD_complete [DecidableEq R] : ZComplete (isZeroD : R → Bool) := by
  intro x h; simpa [isZeroD] using h

@[simp] theorem coeff_nil (k : Nat) : coeff ([] : MVOf R) k = 0 := rfl
theorem coeff_cons (k' : Nat) (v : R) (d : MVOf R) (k : Nat) :
    coeff ((k', v) :: d) k = if k' = k then v else coeff d k := by
  unfold coeff; simp only [dictGet]; split <;> simp

theorem coeff_eq_zero_of_not_mem {d : MVOf R} {k : Nat} (h : k ∉ keys d) : coeff d k = 0 := by
  unfold coeff; rw [(dictGet_eq_none_iff d k).2 h]; rfl

theorem coeff_of_mem {d : MVOf R} (hd : NodupKeys d) {k : Nat} {v : R} (h : (k, v) ∈ d) :
    coeff d k = v := by
  unfold coeff; rw [dictGet_of_mem hd h]; rfl

/-! ### the three dict updates -/

theorem noZero_dictDel {d : MVOf R} (hd : NoZero d) (k : Nat) : NoZero (dictDel d k) := by
  induction d with
  | nil => exact hd
  | cons p d ih =>
    obtain ⟨k', v'⟩ := p
    simp only [dictDel]
    have hd' : NoZero d := fun q hq => hd q (List.mem_cons_of_mem _ hq)
    split
    · exact hd'
    · intro q hq
      rcases List.mem_cons.1 hq with hq | hq
      · subst hq; exact hd _ List.mem_cons_self
      · exact ih hd' q hq

theorem noZero_dictSet {d : MVOf R} (hd : NoZero d) (k : Nat) {v : R} (hv : v ≠ 0) :
    NoZero (dictSet d k v) := by
  induction d with
  | nil => intro q hq; simp [dictSet] at hq; subst hq; exact hv
  | cons p d ih =>
    obtain ⟨k', v'⟩ := p
    simp only [dictSet]
    have hd' : NoZero d := fun q hq => hd q (List.mem_cons_of_mem _ hq)
    split
    · intro q hq
      rcases List.mem_cons.1 hq with hq | hq
      · subst hq; exact hv
      · exact hd' q hq
    · intro q hq
      rcases List.mem_cons.1 hq with hq | hq
      · subst hq; exact hd _ List.mem_cons_self
      · exact ih hd' q hq

theorem evalLin_dictDel (F : Nat → R) (d : MVOf R) (k : Nat) :
    evalLin F (dictDel d k) = evalLin F d - F k * coeff d k := by
  induction d with
  | nil => simp [dictDel, evalLin]
  | cons p d ih =>
    obtain ⟨k', v'⟩ := p
    simp only [dictDel, coeff_cons]
    by_cases h : k' = k
    · subst h; simp [evalLin]
    · simp only [h, ↓reduceIte, evalLin, ih]; ring

theorem evalLin_dictSet (F : Nat → R) (d : MVOf R) (k : Nat) (v : R) :
    evalLin F (dictSet d k v) = evalLin F d - F k * coeff d k + F k * v := by
  induction d with
  | nil => simp [dictSet, evalLin]
  | cons p d ih =>
    obtain ⟨k', v'⟩ := p
    simp only [dictSet, coeff_cons]
    by_cases h : k' = k
    · subst h; simp [evalLin]; ring
    · simp only [h, ↓reduceIte, evalLin, ih]; ring

/-- the accumulate-and-prune step adds `coeff` at `bits`, seen through any linear functional;
    needs only a SOUND zero test -/
theorem evalLin_dictAccumZ {z : R → Bool} (hz : ZSound z) (F : Nat → R) (d : MVOf R) (k : Nat)
    (c : R) : evalLin F (dictAccumZ z d k c) = evalLin F d + F k * c := by
  unfold dictAccumZ
  simp only
  split
  · next h =>
    rw [evalLin_dictDel]
    have h0 := hz _ h
    have : coeff d k = -c := by unfold coeff; exact eq_neg_of_add_eq_zero_left h0
    rw [this]; ring
  · rw [evalLin_dictSet]; unfold coeff; ring

theorem nodupKeys_dictAccumZ (z : R → Bool) {d : MVOf R} (hd : NodupKeys d) (k : Nat) (c : R) :
    NodupKeys (dictAccumZ z d k c) := by
  unfold dictAccumZ; simp only
  split
  · exact nodupKeys_dictDel hd k
  · exact nodupKeys_dictSet hd k _

/-- no zero is ever stored — needs a COMPLETE zero test -/
theorem noZero_dictAccumZ {z : R → Bool} (hc : ZComplete z) {d : MVOf R} (hd : NoZero d) (k : Nat)
    (c : R) : NoZero (dictAccumZ z d k c) := by
  unfold dictAccumZ; simp only
  split
  · exact noZero_dictDel hd k
  · next h => exact noZero_dictSet hd k (fun e => h (hc _ e))

theorem pruned_nil : Pruned ([] : MVOf R) := ⟨List.nodup_nil, fun _ h => by simp at h⟩

/-- with distinct keys, the coefficient at `k` is the linear functional "indicator of `k`" -/
theorem coeff_eq_evalLin {d : MVOf R} (hd : NodupKeys d) (k : Nat) :
    coeff d k = evalLin (fun m => if m = k then 1 else 0) d := by
  induction d with
  | nil => rfl
  | cons p d ih =>
    obtain ⟨k', v'⟩ := p
    unfold NodupKeys at hd
    simp only [keys_cons, List.nodup_cons] at hd
    rw [coeff_cons, evalLin, ← ih hd.2]
    by_cases h : k' = k
    · subst h; simp [coeff_eq_zero_of_not_mem hd.1]
    · simp [h]

/-! ### list sums -/

section lsum
variable {α : Type}

theorem lsum_congr {f g : α → R} (l : List α) (h : ∀ x ∈ l, f x = g x) :
    lsum f l = lsum g l := by
  induction l with
  | nil => rfl
  | cons x xs ih =>
    simp only [lsum]
    rw [h x List.mem_cons_self, ih fun y hy => h y (List.mem_cons_of_mem _ hy)]

theorem lsum_add (f g : α → R) (l : List α) :
    lsum (fun x => f x + g x) l = lsum f l + lsum g l := by
  induction l with
  | nil => simp [lsum]
  | cons x xs ih => simp only [lsum, ih]; ring

theorem lsum_mul_left (c : R) (f : α → R) (l : List α) :
    lsum (fun x => c * f x) l = c * lsum f l := by
  induction l with
  | nil => simp [lsum]
  | cons x xs ih => simp only [lsum, ih]; ring

theorem lsum_mul_right (c : R) (f : α → R) (l : List α) :
    lsum (fun x => f x * c) l = lsum f l * c := by
  induction l with
  | nil => simp [lsum]
  | cons x xs ih => simp only [lsum, ih]; ring

theorem lsum_zero (l : List α) : lsum (fun _ => (0 : R)) l = 0 := by
  induction l with
  | nil => rfl
  | cons x xs ih => simp [lsum, ih]

theorem lsum_eq_zero {f : α → R} (l : List α) (h : ∀ x ∈ l, f x = 0) : lsum f l = 0 := by
  rw [lsum_congr l h, lsum_zero]

theorem lsum_append (f : α → R) (l₁ l₂ : List α) :
    lsum f (l₁ ++ l₂) = lsum f l₁ + lsum f l₂ := by
  induction l₁ with
  | nil => simp [lsum]
  | cons x xs ih => simp only [List.cons_append, lsum, ih]; ring

theorem lsum_map {β : Type} (f : β → R) (h : α → β) (l : List α) :
    lsum f (l.map h) = lsum (fun x => f (h x)) l := by
  induction l with
  | nil => rfl
  | cons x xs ih => simp only [List.map_cons, lsum, ih]

theorem lsum_comm {β : Type} (f : α → β → R) (l₁ : List α) (l₂ : List β) :
    lsum (fun x => lsum (fun y => f x y) l₂) l₁ = lsum (fun y => lsum (fun x => f x y) l₁) l₂ := by
  induction l₁ with
  | nil => simp [lsum, lsum_zero]
  | cons x xs ih => simp only [lsum, ih, lsum_add]

theorem lsum_filter (f : α → R) (p : α → Bool) (l : List α) :
    lsum f (l.filter p) = lsum (fun x => if p x then f x else 0) l := by
  induction l with
  | nil => rfl
  | cons x xs ih =>
    rw [List.filter_cons]
    split <;> simp_all [lsum]

end lsum

theorem evalLin_eq_lsum (F : Nat → R) (d : MVOf R) :
    evalLin F d = lsum (fun p => F p.1 * p.2) d := by
  induction d with
  | nil => rfl
  | cons p d ih => obtain ⟨k, v⟩ := p; simp only [evalLin, lsum, ih]

/-- with distinct keys, summing an indicator of the key over the items picks the coefficient -/
theorem lsum_key_ind {d : MVOf R} (hd : NodupKeys d) (k : Nat) (G : R → R) (hG : G 0 = 0) :
    lsum (fun p : Nat × R => if p.1 = k then G p.2 else 0) d = G (coeff d k) := by
  induction d with
  | nil => simp [lsum, hG]
  | cons p d ih =>
    obtain ⟨k', v'⟩ := p
    unfold NodupKeys at hd
    simp only [keys_cons, List.nodup_cons] at hd
    rw [lsum, ih hd.2, coeff_cons]
    by_cases h : k' = k
    · subst h; simp [coeff_eq_zero_of_not_mem hd.1, hG]
    · simp [h]

/-! ## `_generic_product` -/

/-- the coefficient contributed by the pair of terms `(sbits, scoeff)`, `(obits, ocoeff)` -/
def termCoeff (w : Nat → Nat → R) (s o : Nat × R) : R :=
  w s.1 o.1 * reorderSignR s.1 o.1 * s.2 * o.2

/-- body of the inner `for` loop -/
def innerStep (z : R → Bool) (w : Nat → Nat → R) (s : Nat × R) (acc : MVOf R) (o : Nat × R) :
    MVOf R :=
  if z (w s.1 o.1) then acc else dictAccumZ z acc (s.1 ^^^ o.1) (termCoeff w s o)

theorem genericProductZ_eq_foldl (z : R → Bool) (w : Nat → Nat → R) (a b : MVOf R) :
    genericProductZ z w a b = a.foldl (fun acc s => b.foldl (innerStep z w s) acc) [] := rfl

theorem inner_spec (z : R → Bool) (w : Nat → Nat → R) (s : Nat × R) (b : MVOf R) :
    ∀ acc : MVOf R, NodupKeys acc →
      NodupKeys (b.foldl (innerStep z w s) acc) ∧
      (ZSound z → ∀ F, evalLin F (b.foldl (innerStep z w s) acc)
        = evalLin F acc + lsum (fun o => F (s.1 ^^^ o.1) * termCoeff w s o) b) ∧
      (ZComplete z → NoZero acc → NoZero (b.foldl (innerStep z w s) acc)) := by
  induction b with
  | nil => intro acc h; exact ⟨h, fun _ F => by simp [lsum], fun _ h => h⟩
  | cons o b ih =>
    intro acc hacc
    simp only [List.foldl_cons, lsum]
    have hstep : NodupKeys (innerStep z w s acc o) ∧
        (ZSound z → ∀ F, evalLin F (innerStep z w s acc o)
          = evalLin F acc + F (s.1 ^^^ o.1) * termCoeff w s o) ∧
        (ZComplete z → NoZero acc → NoZero (innerStep z w s acc o)) := by
      unfold innerStep
      split
      · next h0 =>
        refine ⟨hacc, fun hz F => ?_, fun _ h => h⟩
        simp [termCoeff, hz _ h0]
      · exact ⟨nodupKeys_dictAccumZ z hacc _ _, fun hz F => evalLin_dictAccumZ hz F _ _ _,
          fun hc h => noZero_dictAccumZ hc h _ _⟩
    obtain ⟨h1, h2, h3⟩ := ih _ hstep.1
    refine ⟨h1, fun hz F => ?_, fun hc h => h3 hc (hstep.2.2 hc h)⟩
    rw [h2 hz F, hstep.2.1 hz F]; ring

theorem outer_spec (z : R → Bool) (w : Nat → Nat → R) (b : MVOf R) (a : MVOf R) :
    ∀ acc : MVOf R, NodupKeys acc →
      NodupKeys (a.foldl (fun acc s => b.foldl (innerStep z w s) acc) acc) ∧
      (ZSound z → ∀ F, evalLin F (a.foldl (fun acc s => b.foldl (innerStep z w s) acc) acc)
        = evalLin F acc
          + lsum (fun s => lsum (fun o => F (s.1 ^^^ o.1) * termCoeff w s o) b) a) ∧
      (ZComplete z → NoZero acc →
        NoZero (a.foldl (fun acc s => b.foldl (innerStep z w s) acc) acc)) := by
  induction a with
  | nil => intro acc h; exact ⟨h, fun _ F => by simp [lsum], fun _ h => h⟩
  | cons s a ih =>
    intro acc hacc
    simp only [List.foldl_cons, lsum]
    obtain ⟨h1, h2, h3⟩ := inner_spec z w s b acc hacc
    obtain ⟨h4, h5, h6⟩ := ih _ h1
    refine ⟨h4, fun hz F => ?_, fun hc h => h6 hc (h3 hc h)⟩
    rw [h5 hz F, h2 hz F]; ring

/-- the result of `_generic_product` has distinct keys — whatever the operands and the zero test -/
theorem genericProductZ_nodup (z : R → Bool) (w : Nat → Nat → R) (a b : MVOf R) :
    NodupKeys (genericProductZ z w a b) := by
  rw [genericProductZ_eq_foldl]; exact (outer_spec z w b a [] nodupKeys_nil).1

/-- with a complete zero test the result of `_generic_product` never stores a zero — whatever the
    operands look like -/
theorem genericProductZ_pruned {z : R → Bool} (hc : ZComplete z) (w : Nat → Nat → R)
    (a b : MVOf R) : Pruned (genericProductZ z w a b) := by
  refine ⟨genericProductZ_nodup z w a b, ?_⟩
  rw [genericProductZ_eq_foldl]
  exact (outer_spec z w b a [] nodupKeys_nil).2.2 hc pruned_nil.2

/-- every linear functional of the product is the double sum over the operand terms
    (sound zero test) -/
theorem evalLin_genericProductZ {z : R → Bool} (hz : ZSound z) (w : Nat → Nat → R) (a b : MVOf R)
    (F : Nat → R) :
    evalLin F (genericProductZ z w a b)
      = lsum (fun s => lsum (fun o => F (s.1 ^^^ o.1) * termCoeff w s o) b) a := by
  have := (outer_spec z w b a [] nodupKeys_nil).2.1 hz F
  rw [genericProductZ_eq_foldl, this]; simp [evalLin]

/-- (h) the coefficient of blade `k` in `_generic_product`: the textbook formula
    `Σ_{s ∈ a} Σ_{o ∈ b} [s ⊕ o = k] w(s,o) σ(s,o) a_s b_o` (sound zero test) -/
theorem coeff_genericProductZ {z : R → Bool} (hz : ZSound z) (w : Nat → Nat → R) (a b : MVOf R)
    (k : Nat) :
    coeff (genericProductZ z w a b) k
      = lsum (fun s => lsum (fun o =>
          if s.1 ^^^ o.1 = k then w s.1 o.1 * reorderSignR s.1 o.1 * s.2 * o.2 else 0) b) a := by
  rw [coeff_eq_evalLin (genericProductZ_nodup z w a b), evalLin_genericProductZ hz]
  apply lsum_congr; intro s _
  apply lsum_congr; intro o _
  unfold termCoeff
  split <;> simp


/-! ## Python equality of multivectors -/

theorem mem_keys_iff_coeff_ne_zero {d : MVOf R} (hd : Pruned d) (k : Nat) :
    k ∈ keys d ↔ coeff d k ≠ 0 := by
  constructor
  · intro h
    obtain ⟨v, hv⟩ := mem_keys_iff_exists.1 h
    have := dictGet_of_mem hd.1 hv
    unfold coeff; rw [this]; exact hd.2 _ hv
  · intro h; by_contra hk; exact h (coeff_eq_zero_of_not_mem hk)

/-- `eq_iff_coeffwise`: on pruned dicts (distinct keys, no stored zero) Python's `==` is equality
    of the denoted coefficient functions.  Without `Pruned` this FAILS
    (`PV.C18.eq_needs_complete_zero_test_cex`). -/
theorem mvEq_iff_coeffwise [DecidableEq R] {a b : MVOf R} (ha : Pruned a) (hb : Pruned b) :
    mvEq a b = true ↔ ∀ k, coeff a k = coeff b k := by
  unfold mvEq dictEq
  simp only [Bool.and_eq_true, beq_iff_eq, List.all_eq_true]
  constructor
  · rintro ⟨hlen, hall⟩ k
    have hsub : keys a ⊆ keys b := by
      intro k hk
      obtain ⟨v, hv⟩ := mem_keys_iff_exists.1 hk
      have := hall (k, v) hv
      exact mem_keys_iff_exists.2 ⟨v, dictGet_mem this⟩
    have hperm : (keys a).Perm (keys b) :=
      (List.subperm_of_subset ha.1 hsub).perm_of_length_le
        (by rw [length_keys, length_keys, hlen])
    by_cases hk : k ∈ keys a
    · obtain ⟨v, hv⟩ := mem_keys_iff_exists.1 hk
      have h1 := dictGet_of_mem ha.1 hv
      have h2 := hall (k, v) hv
      unfold coeff; rw [h1, h2]
    · have hk' : k ∉ keys b := fun h => hk (hperm.mem_iff.2 h)
      rw [coeff_eq_zero_of_not_mem hk, coeff_eq_zero_of_not_mem hk']
  · intro h
    have hperm : (keys a).Perm (keys b) := by
      rw [List.perm_ext_iff_of_nodup ha.1 hb.1]
      intro k
      rw [mem_keys_iff_coeff_ne_zero ha, mem_keys_iff_coeff_ne_zero hb, h k]
    refine ⟨by rw [← length_keys, ← length_keys]; exact hperm.length_eq, ?_⟩
    rintro ⟨k, v⟩ hv
    have h1 := dictGet_of_mem ha.1 hv
    have h2 : coeff a k = v := by unfold coeff; rw [h1]; rfl
    have h3 : v ≠ 0 := ha.2 _ hv
    have h4 : coeff b k = v := by rw [← h k]; exact h2
    unfold coeff at h4
    cases hg : dictGet b k with
    | none => rw [hg] at h4; exact absurd h4.symm h3
    | some x => rw [hg] at h4; simp at h4; simp [h4]

/-! ## (h) associativity -/

/-- the 2-cocycle condition on a blade weight (including the reordering sign) under which
    `_generic_product` is associative -/
def Cocycle (w : Nat → Nat → R) : Prop :=
  ∀ a b c : Nat,
    (w a b * reorderSignR a b) * (w (a ^^^ b) c * reorderSignR (a ^^^ b) c)
      = (w b c * reorderSignR b c) * (w a (b ^^^ c) * reorderSignR a (b ^^^ c))

theorem coeff_genericProductZ_left {z : R → Bool} (hz : ZSound z) (w : Nat → Nat → R)
    (x c : MVOf R) (k : Nat) :
    coeff (genericProductZ z w x c) k
      = evalLin (fun m => lsum (fun t : Nat × R =>
          if m ^^^ t.1 = k then w m t.1 * reorderSignR m t.1 * t.2 else 0) c) x := by
  rw [coeff_genericProductZ hz, evalLin_eq_lsum]
  apply lsum_congr; intro s _
  rw [← lsum_mul_right]
  apply lsum_congr; intro t _
  split <;> ring

theorem coeff_genericProductZ_right {z : R → Bool} (hz : ZSound z) (w : Nat → Nat → R)
    (a y : MVOf R) (k : Nat) :
    coeff (genericProductZ z w a y) k
      = lsum (fun s : Nat × R => evalLin (fun m =>
          if s.1 ^^^ m = k then w s.1 m * reorderSignR s.1 m * s.2 else 0) y) a := by
  rw [coeff_genericProductZ hz]
  apply lsum_congr; intro s _
  rw [evalLin_eq_lsum]
  apply lsum_congr; intro t _
  split <;> ring

/-- (h) associativity of `_generic_product` for every weight satisfying the blade cocycle:
    both bracketings denote the same coefficient function.  No hypothesis on the operands; the
    zero test only has to be sound. -/
theorem coeff_genericProductZ_assoc {z : R → Bool} (hz : ZSound z) {w : Nat → Nat → R}
    (hw : Cocycle w) (a b c : MVOf R) (k : Nat) :
    coeff (genericProductZ z w (genericProductZ z w a b) c) k
      = coeff (genericProductZ z w a (genericProductZ z w b c)) k := by
  rw [coeff_genericProductZ_left hz, evalLin_genericProductZ hz, coeff_genericProductZ_right hz]
  apply lsum_congr; intro s _
  rw [evalLin_genericProductZ hz]
  apply lsum_congr; intro o _
  rw [← lsum_mul_right]
  apply lsum_congr; intro t _
  unfold termCoeff
  rw [Nat.xor_assoc]
  have := hw s.1 o.1 t.1
  split
  · linear_combination (s.2 * o.2 * t.2) * this
  · simp

theorem cocycle_wGeometric (g : Nat → R) : Cocycle (wGeometric g) :=
  fun a b c => blade_cocycle_R g a b c


/-! ## (h) bilinearity -/

theorem lsum_range_ind (c : Nat → R) (k0 : Nat) : ∀ N, k0 < N →
    lsum (fun k => if k0 = k then c k else 0) (List.range N) = c k0 := by
  intro N
  induction N with
  | zero => intro h; omega
  | succ n ih =>
    intro h
    rw [List.range_succ, lsum_append]
    by_cases hk : k0 < n
    · rw [ih hk]
      have : k0 ≠ n := by omega
      simp [lsum, this]
    · have hk' : k0 = n := by omega
      subst hk'
      have e : lsum (fun k => if k0 = k then c k else 0) (List.range k0)
          = lsum (fun _ => (0 : R)) (List.range k0) := by
        apply lsum_congr
        intro x hx
        have : x < k0 := List.mem_range.1 hx
        have : k0 ≠ x := by omega
        simp [this]
      rw [e, lsum_zero]; simp [lsum]

/-- with distinct keys, a linear functional of a dict only depends on the coefficient function -/
theorem evalLin_eq_range (H : Nat → R) (N : Nat) : ∀ d : MVOf R, NodupKeys d →
    (∀ k ∈ keys d, k < N) →
    evalLin H d = lsum (fun k => H k * coeff d k) (List.range N) := by
  intro d
  induction d with
  | nil => intro _ _; simp [evalLin, lsum_zero]
  | cons p d ih =>
    obtain ⟨k0, v0⟩ := p
    intro hd hN
    unfold NodupKeys at hd
    simp only [keys_cons, List.nodup_cons] at hd
    have hN' : ∀ k ∈ keys d, k < N := fun k hk => hN k (List.mem_cons_of_mem _ hk)
    have hk0 : k0 < N := hN k0 List.mem_cons_self
    rw [evalLin, ih hd.2 hN']
    have : (fun k => H k * coeff ((k0, v0) :: d) k)
        = fun k => (if k0 = k then H k * v0 else 0) + H k * coeff d k := by
      funext k
      rw [coeff_cons]
      by_cases h : k0 = k
      · subst h; simp [coeff_eq_zero_of_not_mem hd.1]
      · simp [h]
    rw [this, lsum_add, lsum_range_ind (fun k => H k * v0) k0 N hk0]

def keyBound (l : List Nat) : Nat := l.foldr max 0 + 1

theorem lt_keyBound {l : List Nat} {k : Nat} (h : k ∈ l) : k < keyBound l := by
  unfold keyBound
  induction l with
  | nil => simp at h
  | cons x xs ih =>
    simp only [List.foldr_cons]
    rcases List.mem_cons.1 h with h | h
    · subst h; omega
    · have := ih h; omega

/-- linear functionals respect linear combinations of the denoted functions -/
theorem evalLin_lin (H : Nat → R) {a a1 a2 : MVOf R} (x y : R)
    (ha : NodupKeys a) (ha1 : NodupKeys a1) (ha2 : NodupKeys a2)
    (h : ∀ k, coeff a k = x * coeff a1 k + y * coeff a2 k) :
    evalLin H a = x * evalLin H a1 + y * evalLin H a2 := by
  let N := keyBound (keys a ++ keys a1 ++ keys a2)
  have hb : ∀ (d : MVOf R), (∀ k ∈ keys d, k ∈ keys a ++ keys a1 ++ keys a2) →
      ∀ k ∈ keys d, k < N := fun d hd k hk => lt_keyBound (hd k hk)
  rw [evalLin_eq_range H N a ha (hb a (by intro k hk; simp [hk])),
    evalLin_eq_range H N a1 ha1 (hb a1 (by intro k hk; simp [hk])),
    evalLin_eq_range H N a2 ha2 (hb a2 (by intro k hk; simp [hk])),
    ← lsum_mul_left, ← lsum_mul_left, ← lsum_add]
  apply lsum_congr; intro k _
  rw [h k]; ring

theorem evalLin_ext (H : Nat → R) {a b : MVOf R} (ha : NodupKeys a) (hb : NodupKeys b)
    (h : ∀ k, coeff a k = coeff b k) : evalLin H a = evalLin H b := by
  have := evalLin_lin H 1 0 ha hb hb (by intro k; rw [h k]; ring)
  rw [this]; ring

/-- (h) `_generic_product` is linear in its left operand (as a function of the denoted
    coefficient functions; any weight; sound zero test) -/
theorem coeff_genericProductZ_lin_left {z : R → Bool} (hz : ZSound z) (w : Nat → Nat → R)
    {a a1 a2 : MVOf R} (x y : R) (c : MVOf R)
    (ha : NodupKeys a) (ha1 : NodupKeys a1) (ha2 : NodupKeys a2)
    (h : ∀ k, coeff a k = x * coeff a1 k + y * coeff a2 k) (k : Nat) :
    coeff (genericProductZ z w a c) k
      = x * coeff (genericProductZ z w a1 c) k + y * coeff (genericProductZ z w a2 c) k := by
  simp only [coeff_genericProductZ_left hz]
  exact evalLin_lin _ x y ha ha1 ha2 h

/-- (h) `_generic_product` is linear in its right operand -/
theorem coeff_genericProductZ_lin_right {z : R → Bool} (hz : ZSound z) (w : Nat → Nat → R)
    (a : MVOf R) {c c1 c2 : MVOf R} (x y : R)
    (hc : NodupKeys c) (hc1 : NodupKeys c1) (hc2 : NodupKeys c2)
    (h : ∀ k, coeff c k = x * coeff c1 k + y * coeff c2 k) (k : Nat) :
    coeff (genericProductZ z w a c) k
      = x * coeff (genericProductZ z w a c1) k + y * coeff (genericProductZ z w a c2) k := by
  simp only [coeff_genericProductZ_right hz]
  rw [← lsum_mul_left, ← lsum_mul_left, ← lsum_add]
  apply lsum_congr; intro s _
  exact evalLin_lin _ x y hc hc1 hc2 h

/-- the product only depends on the functions denoted by its operands (so stored zeros and the
    order of the dict entries are irrelevant to the result up to `==`) -/
theorem coeff_genericProductZ_congr {z : R → Bool} (hz : ZSound z) (w : Nat → Nat → R)
    {a a' c c' : MVOf R}
    (ha : NodupKeys a) (ha' : NodupKeys a') (hc : NodupKeys c) (hc' : NodupKeys c')
    (h1 : ∀ k, coeff a k = coeff a' k) (h2 : ∀ k, coeff c k = coeff c' k) (k : Nat) :
    coeff (genericProductZ z w a c) k = coeff (genericProductZ z w a' c') k := by
  rw [coeff_genericProductZ_lin_left hz w 1 0 c ha ha' ha' (by intro k; rw [h1 k]; ring),
    coeff_genericProductZ_lin_right hz w a' 1 0 hc hc' hc' (by intro k; rw [h2 k]; ring)]
  ring

/-- the product only depends on the weights of the pairs of keys that occur -/
theorem coeff_genericProductZ_congr_weight {z : R → Bool} (hz : ZSound z)
    (w w' : Nat → Nat → R) (a b : MVOf R)
    (h : ∀ s ∈ keys a, ∀ o ∈ keys b, w s o = w' s o) (k : Nat) :
    coeff (genericProductZ z w a b) k = coeff (genericProductZ z w' a b) k := by
  rw [coeff_genericProductZ hz, coeff_genericProductZ hz]
  apply lsum_congr; intro s hs
  apply lsum_congr; intro o ho
  rw [h s.1 (List.mem_map.2 ⟨s, hs, rfl⟩) o.1 (List.mem_map.2 ⟨o, ho, rfl⟩)]

/-! ### `__add__`, `__neg__` -/

theorem coeff_dictSet (d : MVOf R) (k : Nat) (v : R) (k' : Nat) :
    coeff (dictSet d k v) k' = if k = k' then v else coeff d k' := by
  induction d with
  | nil => simp [dictSet, coeff_cons]
  | cons p d ih =>
    obtain ⟨k0, v0⟩ := p
    simp only [dictSet]
    by_cases h : k0 = k
    · subst h; simp only [↓reduceIte, coeff_cons]
      by_cases h2 : k0 = k' <;> simp [h2]
    · simp only [h, ↓reduceIte, coeff_cons, ih]
      by_cases h2 : k0 = k'
      · subst h2
        have h' : ¬ k = k0 := fun e => h e.symm
        simp [h']
      · simp [h2]

/-- body of the loop of `__add__` -/
def addStep (z : R → Bool) (a b : MVOf R) (acc : MVOf R) (bits : Nat) : MVOf R :=
  if z (coeff a bits + coeff b bits) then acc
  else dictSet acc bits (coeff a bits + coeff b bits)

theorem mvAddZ_eq (z : R → Bool) (a b : MVOf R) :
    mvAddZ z a b
      = (keys a ++ (keys b).filter fun k => (dictGet a k).isNone).foldl (addStep z a b) [] :=
  rfl

theorem addLoop_spec (z : R → Bool) (a b : MVOf R) : ∀ (K : List Nat) (acc : MVOf R), K.Nodup →
    (∀ k ∈ K, k ∉ keys acc) → NodupKeys acc →
    NodupKeys (K.foldl (addStep z a b) acc) ∧
    (ZSound z → ∀ k, coeff (K.foldl (addStep z a b) acc) k
      = if k ∈ K then coeff a k + coeff b k else coeff acc k) ∧
    (ZComplete z → NoZero acc → NoZero (K.foldl (addStep z a b) acc)) := by
  intro K
  induction K with
  | nil => intro acc _ _ h; exact ⟨h, fun _ k => by simp, fun _ h => h⟩
  | cons bits K ih =>
    intro acc hK hfresh hacc
    simp only [List.nodup_cons] at hK
    have hb : bits ∉ keys acc := hfresh bits List.mem_cons_self
    have hstep : NodupKeys (addStep z a b acc bits) ∧
        (∀ k ∈ K, k ∉ keys (addStep z a b acc bits)) ∧
        (ZSound z → ∀ k, coeff (addStep z a b acc bits) k
          = if bits = k then coeff a k + coeff b k else coeff acc k) ∧
        (ZComplete z → NoZero acc → NoZero (addStep z a b acc bits)) := by
      unfold addStep
      split
      · next h0 =>
        refine ⟨hacc, fun k hk => hfresh k (List.mem_cons_of_mem _ hk), fun hz k => ?_,
          fun _ h => h⟩
        by_cases h : bits = k
        · subst h; simp [hz _ h0, coeff_eq_zero_of_not_mem hb]
        · simp [h]
      · next h0 =>
        refine ⟨nodupKeys_dictSet hacc _ _, fun k hk => ?_, fun _ k => ?_,
          fun hc h => noZero_dictSet h _ (fun e => h0 (hc _ e))⟩
        · rw [keys_dictSet]
          simp only [hb, ↓reduceIte, List.mem_append, List.mem_singleton, not_or]
          refine ⟨hfresh k (List.mem_cons_of_mem _ hk), ?_⟩
          intro e; subst e; exact hK.1 hk
        · rw [coeff_dictSet]
          by_cases h : bits = k
          · subst h; simp
          · simp [h]
    obtain ⟨h1, h2, h3⟩ := ih _ hK.2 hstep.2.1 hstep.1
    refine ⟨h1, fun hz k => ?_, fun hc h => h3 hc (hstep.2.2.2 hc h)⟩
    rw [List.foldl_cons, h2 hz k, hstep.2.2.1 hz k]
    by_cases hk : k ∈ K
    · simp [hk]
    · by_cases hkb : bits = k
      · subst hkb; simp
      · have hkb' : ¬ k = bits := fun e => hkb e.symm
        simp [hk, hkb, hkb']

omit [CommRing R] in
theorem mvAddZ_keys_nodup {a b : MVOf R} (ha : NodupKeys a) (hb : NodupKeys b) :
    (keys a ++ (keys b).filter fun k => (dictGet a k).isNone).Nodup := by
  rw [List.nodup_append]
  refine ⟨ha, hb.filter _, ?_⟩
  intro x hx y hy
  simp only [List.mem_filter, Option.isNone_iff_eq_none, dictGet_eq_none_iff] at hy
  intro e; subst e; exact hy.2 hx

theorem mvAddZ_nodup (z : R → Bool) {a b : MVOf R} (ha : NodupKeys a) (hb : NodupKeys b) :
    NodupKeys (mvAddZ z a b) := by
  rw [mvAddZ_eq]
  exact (addLoop_spec z a b _ [] (mvAddZ_keys_nodup ha hb) (by simp) nodupKeys_nil).1

/-- `__add__` denotes the pointwise sum (sound zero test) -/
theorem coeff_mvAddZ {z : R → Bool} (hz : ZSound z) {a b : MVOf R} (ha : NodupKeys a)
    (hb : NodupKeys b) (k : Nat) : coeff (mvAddZ z a b) k = coeff a k + coeff b k := by
  rw [mvAddZ_eq]
  rw [(addLoop_spec z a b _ [] (mvAddZ_keys_nodup ha hb) (by simp) nodupKeys_nil).2.1 hz k]
  split
  · rfl
  · next hk =>
    simp only [List.mem_append, List.mem_filter, Option.isNone_iff_eq_none, dictGet_eq_none_iff,
      not_or, not_and, not_not] at hk
    have hka : k ∉ keys a := hk.1
    have hkb : k ∉ keys b := fun h => hka (hk.2 h)
    simp [coeff_eq_zero_of_not_mem hka, coeff_eq_zero_of_not_mem hkb]

/-- `__add__` returns a pruned dict (complete zero test) -/
theorem mvAddZ_pruned {z : R → Bool} (hc : ZComplete z) {a b : MVOf R} (ha : NodupKeys a)
    (hb : NodupKeys b) : Pruned (mvAddZ z a b) := by
  refine ⟨mvAddZ_nodup z ha hb, ?_⟩
  rw [mvAddZ_eq]
  exact (addLoop_spec z a b _ [] (mvAddZ_keys_nodup ha hb) (by simp) nodupKeys_nil).2.2 hc
    pruned_nil.2

theorem keys_mvNeg (a : MVOf R) : keys (mvNeg a) = keys a := by
  unfold mvNeg keys; simp [Function.comp_def]

theorem nodupKeys_mvNeg {a : MVOf R} (ha : NodupKeys a) : NodupKeys (mvNeg a) := by
  unfold NodupKeys; rw [keys_mvNeg]; exact ha

theorem coeff_mvNeg (a : MVOf R) (k : Nat) : coeff (mvNeg a) k = - coeff a k := by
  induction a with
  | nil => simp [mvNeg]
  | cons p d ih =>
    obtain ⟨k0, v0⟩ := p
    have : mvNeg ((k0, v0) :: d) = (k0, -v0) :: mvNeg d := rfl
    rw [this, coeff_cons, coeff_cons, ih]
    split <;> rfl

theorem coeff_mvSubZ {z : R → Bool} (hz : ZSound z) {a b : MVOf R} (ha : NodupKeys a)
    (hb : NodupKeys b) (k : Nat) : coeff (mvSubZ z a b) k = coeff a k - coeff b k := by
  unfold mvSubZ
  rw [coeff_mvAddZ hz ha (nodupKeys_mvNeg hb), coeff_mvNeg]; ring

/-! ## the outer product is associative as well -/

theorem eq_zero_iff_mod2_div2 (n : Nat) : n = 0 ↔ n % 2 = 0 ∧ n / 2 = 0 := by omega

/-- pairwise disjointness of three blades, bracketed either way -/
theorem disjoint3_iff : ∀ (n a b c : Nat), a + b + c ≤ n →
    ((a &&& b = 0 ∧ (a ^^^ b) &&& c = 0) ↔ (b &&& c = 0 ∧ a &&& (b ^^^ c) = 0)) := by
  intro n
  induction n using Nat.strongRecOn with
  | _ n ih =>
    intro a b c hn
    by_cases h0 : a + b + c = 0
    · have ha : a = 0 := by omega
      have hb : b = 0 := by omega
      have hc : c = 0 := by omega
      subst ha hb hc; simp
    · have ih' := ih (a / 2 + b / 2 + c / 2) (by omega) (a / 2) (b / 2) (c / 2) (Nat.le_refl _)
      rw [eq_zero_iff_mod2_div2 (a &&& b), eq_zero_iff_mod2_div2 ((a ^^^ b) &&& c),
        eq_zero_iff_mod2_div2 (b &&& c), eq_zero_iff_mod2_div2 (a &&& (b ^^^ c))]
      simp only [and_div2, xor_div2, and_mod2, xor_mod2]
      rcases Nat.mod_two_eq_zero_or_one a with h1 | h1 <;>
      rcases Nat.mod_two_eq_zero_or_one b with h2 | h2 <;>
      rcases Nat.mod_two_eq_zero_or_one c with h3 | h3 <;>
      simp only [h1, h2, h3] <;> simp <;> tauto

theorem cocycle_wOuter (g : Nat → R) : Cocycle (wOuter g) := by
  intro a b c
  have h := disjoint3_iff _ a b c (Nat.le_refl _)
  have hs : (reorderSignR a b : R) * reorderSignR (a ^^^ b) c
      = reorderSignR b c * reorderSignR a (b ^^^ c) := by
    simp only [reorderSignR_eq_cast, ← Int.cast_mul, sign_cocycle]
  unfold wOuter
  by_cases h1 : a &&& b = 0 ∧ (a ^^^ b) &&& c = 0
  · have h2 := h.1 h1
    simp only [h1.1, h1.2, h2.1, h2.2, ne_eq, not_true_eq_false, ↓reduceIte, one_mul]
    exact hs
  · have h2 : ¬ (b &&& c = 0 ∧ a &&& (b ^^^ c) = 0) := fun e => h1 (h.2 e)
    have l : (if a &&& b ≠ 0 then (0 : R) else 1) * reorderSignR a b
        * ((if (a ^^^ b) &&& c ≠ 0 then (0 : R) else 1) * reorderSignR (a ^^^ b) c) = 0 := by
      by_cases e1 : a &&& b = 0
      · have e2 : (a ^^^ b) &&& c ≠ 0 := fun e => h1 ⟨e1, e⟩
        simp [e2]
      · simp [e1]
    have r : (if b &&& c ≠ 0 then (0 : R) else 1) * reorderSignR b c
        * ((if a &&& (b ^^^ c) ≠ 0 then (0 : R) else 1) * reorderSignR a (b ^^^ c)) = 0 := by
      by_cases e1 : b &&& c = 0
      · have e2 : a &&& (b ^^^ c) ≠ 0 := fun e => h2 ⟨e1, e⟩
        simp [e2]
      · simp [e1]
    rw [l, r]


/-! ## `rev` and `invol` on multivectors -/

/-- the integer signs `±1` as ring elements -/
theorem intCast_sgn_mul_self (n : Nat) : ((sgn n : Int) : R) * ((sgn n : Int) : R) = 1 := by
  rw [← Int.cast_mul, sgn_mul_self]; simp

theorem revSign_mul_self (a : Nat) : revSign a * revSign a = 1 := by
  rw [revSign_eq_sgn]; exact sgn_mul_self _

theorem involSign_mul_self (a : Nat) : involSign a * involSign a = 1 := by
  rw [involSign_eq_sgn]; exact sgn_mul_self _

theorem rev_eq_map (a : MVOf R) :
    rev a = a.map fun p => (p.1, ((revSign p.1 : Int) : R) * p.2) := by
  unfold rev
  apply List.map_congr_left
  rintro ⟨bits, c⟩ _
  simp only [revSign]
  split <;> simp

theorem invol_eq_map (a : MVOf R) :
    invol a = a.map fun p => (p.1, ((involSign p.1 : Int) : R) * p.2) := by
  unfold invol
  apply List.map_congr_left
  rintro ⟨bits, c⟩ _
  simp only [involSign]
  split <;> simp

/-- a blade-wise sign change `(bits, c) ↦ (bits, σ bits * c)` -/
def signMap (σ : Nat → R) (a : MVOf R) : MVOf R := a.map fun p => (p.1, σ p.1 * p.2)

theorem keys_signMap (σ : Nat → R) (a : MVOf R) : keys (signMap σ a) = keys a := by
  unfold signMap keys; simp [Function.comp_def]

theorem nodupKeys_signMap (σ : Nat → R) {a : MVOf R} (ha : NodupKeys a) :
    NodupKeys (signMap σ a) := by
  unfold NodupKeys; rw [keys_signMap]; exact ha

theorem coeff_signMap (σ : Nat → R) (a : MVOf R) (k : Nat) :
    coeff (signMap σ a) k = σ k * coeff a k := by
  induction a with
  | nil => simp [signMap]
  | cons p d ih =>
    obtain ⟨k0, v0⟩ := p
    have : signMap σ ((k0, v0) :: d) = (k0, σ k0 * v0) :: signMap σ d := rfl
    rw [this, coeff_cons, coeff_cons, ih]
    split
    · next h => subst h; rfl
    · rfl

theorem pruned_signMap {σ : Nat → R} (hσ : ∀ k, σ k * σ k = 1) {a : MVOf R} (ha : Pruned a) :
    Pruned (signMap σ a) := by
  refine ⟨nodupKeys_signMap σ ha.1, ?_⟩
  intro p hp
  unfold signMap at hp
  obtain ⟨q, hq, rfl⟩ := List.mem_map.1 hp
  have h1 := ha.2 q hq
  have h2 := hσ q.1
  intro h0
  simp only at h0
  have : q.2 = σ q.1 * (σ q.1 * q.2) := by rw [← mul_assoc, h2, one_mul]
  rw [h0, mul_zero] at this
  exact h1 this

theorem rev_eq_signMap (a : MVOf R) : rev a = signMap (fun k => ((revSign k : Int) : R)) a :=
  rev_eq_map a

theorem invol_eq_signMap (a : MVOf R) : invol a = signMap (fun k => ((involSign k : Int) : R)) a :=
  invol_eq_map a

theorem coeff_rev (a : MVOf R) (k : Nat) : coeff (rev a) k = ((revSign k : Int) : R) * coeff a k := by
  rw [rev_eq_signMap, coeff_signMap]

theorem coeff_invol (a : MVOf R) (k : Nat) :
    coeff (invol a) k = ((involSign k : Int) : R) * coeff a k := by
  rw [invol_eq_signMap, coeff_signMap]

theorem keys_rev (a : MVOf R) : keys (rev a) = keys a := by rw [rev_eq_signMap, keys_signMap]

theorem nodupKeys_rev {a : MVOf R} (ha : NodupKeys a) : NodupKeys (rev a) := by
  unfold NodupKeys; rw [keys_rev]; exact ha

theorem revSignR_mul_self (k : Nat) : ((revSign k : Int) : R) * ((revSign k : Int) : R) = 1 := by
  rw [← Int.cast_mul, revSign_mul_self]; simp

theorem involSignR_mul_self (k : Nat) :
    ((involSign k : Int) : R) * ((involSign k : Int) : R) = 1 := by
  rw [← Int.cast_mul, involSign_mul_self]; simp

theorem coeff_genericProductZ_signMap {z : R → Bool} (hz : ZSound z) (w : Nat → Nat → R)
    (σ : Nat → R) (a b : MVOf R) (k : Nat) :
    coeff (genericProductZ z w (signMap σ a) (signMap σ b)) k
      = lsum (fun s => lsum (fun o =>
          if s.1 ^^^ o.1 = k
          then w s.1 o.1 * reorderSignR s.1 o.1 * (σ s.1 * s.2) * (σ o.1 * o.2) else 0) b) a := by
  rw [coeff_genericProductZ hz]
  unfold signMap
  rw [lsum_map]
  apply lsum_congr; intro s _
  rw [lsum_map]

/-- (g) anti-automorphism, generic form (coefficient level, sound zero test): if
    `σ (a ⊕ b) sign(a,b) = sign(b,a) σ b σ a` on blades, then `σ(A · B) = σ(B) ·ᵒᵖ σ(A)` where `·ᵒᵖ`
    uses the transposed weight -/
theorem coeff_signMap_antiauto {z : R → Bool} (hz : ZSound z) (w : Nat → Nat → R) {σ : Nat → R}
    (h : ∀ a b, σ (a ^^^ b) * reorderSignR a b = reorderSignR b a * (σ b * σ a))
    (a b : MVOf R) (k : Nat) :
    coeff (signMap σ (genericProductZ z w a b)) k
      = coeff (genericProductZ z (fun x y => w y x) (signMap σ b) (signMap σ a)) k := by
  rw [coeff_signMap, coeff_genericProductZ hz, coeff_genericProductZ_signMap hz, lsum_comm,
    ← lsum_mul_left]
  apply lsum_congr; intro s _
  rw [← lsum_mul_left]
  apply lsum_congr; intro o _
  rw [Nat.xor_comm s.1 o.1]
  split
  · next hk =>
    subst hk
    linear_combination (w o.1 s.1 * s.2 * o.2) * h o.1 s.1
  · simp

/-- automorphism, generic form (coefficient level, sound zero test) -/
theorem coeff_signMap_auto {z : R → Bool} (hz : ZSound z) (w : Nat → Nat → R) {σ : Nat → R}
    (h : ∀ a b, σ (a ^^^ b) = σ a * σ b) (a b : MVOf R) (k : Nat) :
    coeff (signMap σ (genericProductZ z w a b)) k
      = coeff (genericProductZ z w (signMap σ a) (signMap σ b)) k := by
  rw [coeff_signMap, coeff_genericProductZ hz, coeff_genericProductZ_signMap hz, ← lsum_mul_left]
  apply lsum_congr; intro s _
  rw [← lsum_mul_left]
  apply lsum_congr; intro o _
  split
  · next hk =>
    subst hk
    rw [h s.1 o.1]; ring
  · simp

theorem revSignR_antiauto (a b : Nat) :
    ((revSign (a ^^^ b) : Int) : R) * reorderSignR a b
      = reorderSignR b a * (((revSign b : Int) : R) * ((revSign a : Int) : R)) := by
  simp only [reorderSignR_eq_cast, ← Int.cast_mul, rev_antiauto_sign]

theorem involSignR_auto (a b : Nat) :
    ((involSign (a ^^^ b) : Int) : R) = ((involSign a : Int) : R) * ((involSign b : Int) : R) := by
  rw [← Int.cast_mul, invol_auto_sign]

/-- (g) `(A * B).rev() = B.rev() * A.rev()`, coefficient level, sound zero test -/
theorem coeff_rev_mul {z : R → Bool} (hz : ZSound z) (g : Nat → R) (a b : MVOf R) (k : Nat) :
    coeff (rev (genericProductZ z (wGeometric g) a b)) k
      = coeff (genericProductZ z (wGeometric g) (rev b) (rev a)) k := by
  have := coeff_signMap_antiauto hz (wGeometric g) (σ := fun k => ((revSign k : Int) : R))
    revSignR_antiauto a b k
  have hw : (fun x y => wGeometric g y x) = wGeometric g := by
    funext x y; exact wGeometric_comm g y x
  rw [hw] at this
  simpa only [rev_eq_signMap] using this

/-- (g) `(A ^ B).rev() = B.rev() ^ A.rev()` -/
theorem coeff_rev_outer {z : R → Bool} (hz : ZSound z) (g : Nat → R) (a b : MVOf R) (k : Nat) :
    coeff (rev (genericProductZ z (wOuter g) a b)) k
      = coeff (genericProductZ z (wOuter g) (rev b) (rev a)) k := by
  have := coeff_signMap_antiauto hz (wOuter g) (σ := fun k => ((revSign k : Int) : R))
    revSignR_antiauto a b k
  have hw : (fun x y => wOuter g y x) = wOuter g := by
    funext x y; unfold wOuter; rw [Nat.and_comm]
  rw [hw] at this
  simpa only [rev_eq_signMap] using this

/-- (g) `rev` exchanges the two contractions:  `(A << B).rev() = B.rev() >> A.rev()` -/
theorem coeff_rev_leftContraction {z : R → Bool} (hz : ZSound z) (g : Nat → R) (a b : MVOf R)
    (k : Nat) :
    coeff (rev (genericProductZ z (wLeftContraction g) a b)) k
      = coeff (genericProductZ z (wRightContraction g) (rev b) (rev a)) k := by
  have := coeff_signMap_antiauto hz (wLeftContraction g)
    (σ := fun k => ((revSign k : Int) : R)) revSignR_antiauto a b k
  have hw : (fun x y => wLeftContraction g y x) = wRightContraction g := by
    funext x y; unfold wLeftContraction wRightContraction; rw [Nat.and_comm]
  rw [hw] at this
  simpa only [rev_eq_signMap] using this

/-- (g) `(A · B).invol() = A.invol() · B.invol()` for every product of the family -/
theorem coeff_invol_genericProductZ {z : R → Bool} (hz : ZSound z) (w : Nat → Nat → R)
    (a b : MVOf R) (k : Nat) :
    coeff (invol (genericProductZ z w a b)) k
      = coeff (genericProductZ z w (invol a) (invol b)) k := by
  have := coeff_signMap_auto hz w (σ := fun k => ((involSign k : Int) : R)) involSignR_auto a b k
  simpa only [invol_eq_signMap] using this

theorem pruned_rev {a : MVOf R} (ha : Pruned a) : Pruned (rev a) := by
  rw [rev_eq_signMap]; exact pruned_signMap revSignR_mul_self ha

theorem pruned_invol {a : MVOf R} (ha : Pruned a) : Pruned (invol a) := by
  rw [invol_eq_signMap]; exact pruned_signMap involSignR_mul_self ha

/-- `rev` is an involution -/
theorem rev_rev (a : MVOf R) : rev (rev a) = a := by
  rw [rev_eq_map, rev_eq_map, List.map_map]
  conv => rhs; rw [← List.map_id a]
  apply List.map_congr_left
  rintro ⟨k, v⟩ _
  simp only [Function.comp, id]
  rw [← mul_assoc, revSignR_mul_self, one_mul]

/-- `invol` is an involution -/
theorem invol_invol (a : MVOf R) : invol (invol a) = a := by
  rw [invol_eq_map, invol_eq_map, List.map_map]
  conv => rhs; rw [← List.map_id a]
  apply List.map_congr_left
  rintro ⟨k, v⟩ _
  simp only [Function.comp, id]
  rw [← mul_assoc, involSignR_mul_self, one_mul]

/-! ## products of single blades at multivector level -/

/-- `_generic_product` of two one-term multivectors `{a: x}` and `{b: y}` -/
theorem genericProductZ_blades (z : R → Bool) (w : Nat → Nat → R) (a b : Nat) (x y : R) :
    genericProductZ z w [(a, x)] [(b, y)] =
      if z (w a b) = true ∨ z (w a b * reorderSignR a b * x * y) = true then []
      else [(a ^^^ b, w a b * reorderSignR a b * x * y)] := by
  by_cases h1 : z (w a b) = true
  · simp [genericProductZ, h1]
  · by_cases h2 : z (w a b * reorderSignR a b * x * y) = true
    · simp [genericProductZ, h1, h2, dictAccumZ, dictGet, dictDel]
    · simp [genericProductZ, h1, h2, dictAccumZ, dictGet, dictSet]

/-- the same with the deciding zero test -/
theorem genericProduct_blades [DecidableEq R] (w : Nat → Nat → R) (a b : Nat) (x y : R) :
    genericProduct w [(a, x)] [(b, y)] =
      if w a b = 0 ∨ w a b * reorderSignR a b * x * y = 0 then []
      else [(a ^^^ b, w a b * reorderSignR a b * x * y)] := by
  unfold genericProduct
  rw [genericProductZ_blades]
  simp [isZeroD]

end Ring

end PV.GA
