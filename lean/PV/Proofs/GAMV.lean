import PV.Proofs.GA
import Mathlib.Data.List.Perm.Subperm
import Mathlib.Tactic.Ring
import Mathlib.Tactic.LinearCombination
/-
  C18 — proofs about the model `PV/Model/GA.lean`, part 3: multivectors as dictionaries.

  A dictionary denotes the finitely supported function `coeff d : Nat → Int`.  `_generic_product`
  is characterised through *every* linear functional `evalLin F` of its result; bilinearity and
  associativity follow from the blade cocycle.
-/
namespace PV.GA

/-! ## dictionaries -/

/-- the keys of the dict, in order -/
def keys (d : MV) : List Nat := d.map (·.1)

/-- the coefficient function denoted by a dict: `d.get(k, 0)` -/
def coeff (d : MV) (k : Nat) : Int := (dictGet d k).getD 0

/-- a linear functional of the dict: `Σ_{(k, v) ∈ d} F k * v` -/
def evalLin (F : Nat → Int) : MV → Int
  | [] => 0
  | (k, v) :: d => F k * v + evalLin F d

/-- sum of `f` over a list -/
def lsum {α : Type} (f : α → Int) : List α → Int
  | [] => 0
  | x :: xs => f x + lsum f xs

/-- no stored coefficient is zero -/
def NoZero (d : MV) : Prop := ∀ p ∈ d, p.2 ≠ 0

/-- a well-formed Python dict has distinct keys -/
def NodupKeys (d : MV) : Prop := (keys d).Nodup

/-- distinct keys and no stored zero: the representation invariant under which a dict is
    determined by the function it denotes -/
def Pruned (d : MV) : Prop := NodupKeys d ∧ NoZero d

@[simp] theorem keys_nil : keys [] = [] := rfl
@[simp] theorem keys_cons (p : Nat × Int) (d : MV) : keys (p :: d) = p.1 :: keys d := rfl
@[simp] theorem coeff_nil (k : Nat) : coeff [] k = 0 := rfl
theorem coeff_cons (k' : Nat) (v : Int) (d : MV) (k : Nat) :
    coeff ((k', v) :: d) k = if k' = k then v else coeff d k := by
  unfold coeff; simp only [dictGet]; split <;> simp

theorem dictGet_eq_none_iff (d : MV) (k : Nat) : dictGet d k = none ↔ k ∉ keys d := by
  induction d with
  | nil => simp [dictGet]
  | cons p d ih =>
    obtain ⟨k', v⟩ := p
    simp only [dictGet, keys_cons, List.mem_cons]
    by_cases h : k' = k
    · simp [h]
    · simp only [h, ↓reduceIte, ih]
      constructor
      · intro h1 h2; rcases h2 with h2 | h2
        · exact h h2.symm
        · exact h1 h2
      · intro h1 h2; exact h1 (Or.inr h2)

theorem coeff_eq_zero_of_not_mem {d : MV} {k : Nat} (h : k ∉ keys d) : coeff d k = 0 := by
  unfold coeff; rw [(dictGet_eq_none_iff d k).2 h]; rfl

theorem dictGet_mem {d : MV} {k : Nat} {v : Int} (h : dictGet d k = some v) : (k, v) ∈ d := by
  induction d with
  | nil => simp [dictGet] at h
  | cons p d ih =>
    obtain ⟨k', v'⟩ := p
    simp only [dictGet] at h
    by_cases hk : k' = k
    · simp only [hk, ↓reduceIte, Option.some.injEq] at h
      subst hk h; exact List.mem_cons_self
    · simp only [hk, ↓reduceIte] at h
      exact List.mem_cons_of_mem _ (ih h)

theorem dictGet_of_mem {d : MV} (hd : NodupKeys d) {k : Nat} {v : Int} (h : (k, v) ∈ d) :
    dictGet d k = some v := by
  induction d with
  | nil => simp at h
  | cons p d ih =>
    obtain ⟨k', v'⟩ := p
    unfold NodupKeys at hd
    simp only [keys_cons, List.nodup_cons] at hd
    simp only [dictGet]
    rcases List.mem_cons.1 h with h | h
    · injection h with h1 h2; subst h1 h2; simp
    · have hk : k' ≠ k := by
        intro e; subst e
        exact hd.1 (List.mem_map.2 ⟨_, h, rfl⟩)
      simp only [hk, ↓reduceIte]
      exact ih hd.2 h

/-! ### the three dict updates -/

theorem keys_dictDel (d : MV) (k : Nat) : keys (dictDel d k) = (keys d).erase k := by
  induction d with
  | nil => rfl
  | cons p d ih =>
    obtain ⟨k', v'⟩ := p
    simp only [dictDel, keys_cons]
    by_cases h : k' = k
    · simp [h]
    · simp only [h, ↓reduceIte, keys_cons, ih]
      rw [List.erase_cons_tail]; simpa using h

theorem keys_dictSet (d : MV) (k : Nat) (v : Int) :
    keys (dictSet d k v) = if k ∈ keys d then keys d else keys d ++ [k] := by
  induction d with
  | nil => simp [dictSet]
  | cons p d ih =>
    obtain ⟨k', v'⟩ := p
    simp only [dictSet, keys_cons, List.mem_cons]
    by_cases h : k' = k
    · simp [h]
    · have h' : ¬ k = k' := fun e => h e.symm
      simp only [h, ↓reduceIte, keys_cons, ih, h', false_or]
      split <;> simp

theorem nodupKeys_dictDel {d : MV} (hd : NodupKeys d) (k : Nat) : NodupKeys (dictDel d k) := by
  unfold NodupKeys at *; rw [keys_dictDel]; exact hd.erase k

theorem nodupKeys_dictSet {d : MV} (hd : NodupKeys d) (k : Nat) (v : Int) :
    NodupKeys (dictSet d k v) := by
  unfold NodupKeys at *; rw [keys_dictSet]
  split
  · exact hd
  · next h =>
    rw [List.nodup_append]
    refine ⟨hd, by simp, ?_⟩
    intro a ha b hb
    simp only [List.mem_singleton] at hb
    subst hb; intro e; subst e; exact h ha

theorem noZero_dictDel {d : MV} (hd : NoZero d) (k : Nat) : NoZero (dictDel d k) := by
  induction d with
  | nil => exact hd
  | cons p d ih =>
    obtain ⟨k', v'⟩ := p
    simp only [dictDel]
    have hd' : NoZero d := fun q hq => hd q (List.mem_cons_of_mem _ hq)
    split
    · exact hd'
    · intro q hq
      rcases List.mem_cons.1 hq with hq | hq
      · subst hq; exact hd _ List.mem_cons_self
      · exact ih hd' q hq

theorem noZero_dictSet {d : MV} (hd : NoZero d) (k : Nat) {v : Int} (hv : v ≠ 0) :
    NoZero (dictSet d k v) := by
  induction d with
  | nil => intro q hq; simp [dictSet] at hq; subst hq; exact hv
  | cons p d ih =>
    obtain ⟨k', v'⟩ := p
    simp only [dictSet]
    have hd' : NoZero d := fun q hq => hd q (List.mem_cons_of_mem _ hq)
    split
    · intro q hq
      rcases List.mem_cons.1 hq with hq | hq
      · subst hq; exact hv
      · exact hd' q hq
    · intro q hq
      rcases List.mem_cons.1 hq with hq | hq
      · subst hq; exact hd _ List.mem_cons_self
      · exact ih hd' q hq

theorem evalLin_dictDel (F : Nat → Int) (d : MV) (k : Nat) :
    evalLin F (dictDel d k) = evalLin F d - F k * coeff d k := by
  induction d with
  | nil => simp [dictDel, evalLin]
  | cons p d ih =>
    obtain ⟨k', v'⟩ := p
    simp only [dictDel, coeff_cons]
    by_cases h : k' = k
    · subst h; simp [evalLin]
    · simp only [h, ↓reduceIte, evalLin, ih]; ring

theorem evalLin_dictSet (F : Nat → Int) (d : MV) (k : Nat) (v : Int) :
    evalLin F (dictSet d k v) = evalLin F d - F k * coeff d k + F k * v := by
  induction d with
  | nil => simp [dictSet, evalLin]
  | cons p d ih =>
    obtain ⟨k', v'⟩ := p
    simp only [dictSet, coeff_cons]
    by_cases h : k' = k
    · subst h; simp [evalLin]; ring
    · simp only [h, ↓reduceIte, evalLin, ih]; ring

/-- the accumulate-and-prune step adds `coeff` at `bits`, seen through any linear functional -/
theorem evalLin_dictAccum (F : Nat → Int) (d : MV) (k : Nat) (c : Int) :
    evalLin F (dictAccum d k c) = evalLin F d + F k * c := by
  unfold dictAccum
  simp only
  split
  · next h =>
    rw [evalLin_dictDel]
    have : coeff d k = -c := by unfold coeff; omega
    rw [this]; ring
  · rw [evalLin_dictSet]; unfold coeff; ring

theorem nodupKeys_dictAccum {d : MV} (hd : NodupKeys d) (k : Nat) (c : Int) :
    NodupKeys (dictAccum d k c) := by
  unfold dictAccum; simp only
  split
  · exact nodupKeys_dictDel hd k
  · exact nodupKeys_dictSet hd k _

theorem noZero_dictAccum {d : MV} (hd : NoZero d) (k : Nat) (c : Int) :
    NoZero (dictAccum d k c) := by
  unfold dictAccum; simp only
  split
  · exact noZero_dictDel hd k
  · next h => exact noZero_dictSet hd k h

theorem pruned_dictAccum {d : MV} (hd : Pruned d) (k : Nat) (c : Int) :
    Pruned (dictAccum d k c) :=
  ⟨nodupKeys_dictAccum hd.1 k c, noZero_dictAccum hd.2 k c⟩

theorem pruned_nil : Pruned [] := ⟨List.nodup_nil, fun _ h => by simp at h⟩

/-- with distinct keys, the coefficient at `k` is the linear functional "indicator of `k`" -/
theorem coeff_eq_evalLin {d : MV} (hd : NodupKeys d) (k : Nat) :
    coeff d k = evalLin (fun m => if m = k then 1 else 0) d := by
  induction d with
  | nil => rfl
  | cons p d ih =>
    obtain ⟨k', v'⟩ := p
    unfold NodupKeys at hd
    simp only [keys_cons, List.nodup_cons] at hd
    rw [coeff_cons, evalLin, ← ih hd.2]
    by_cases h : k' = k
    · subst h; simp [coeff_eq_zero_of_not_mem hd.1]
    · simp [h]


/-! ### list sums -/

section lsum
variable {α : Type}

theorem lsum_congr {f g : α → Int} (l : List α) (h : ∀ x ∈ l, f x = g x) :
    lsum f l = lsum g l := by
  induction l with
  | nil => rfl
  | cons x xs ih =>
    simp only [lsum]
    rw [h x List.mem_cons_self, ih fun y hy => h y (List.mem_cons_of_mem _ hy)]

theorem lsum_add (f g : α → Int) (l : List α) :
    lsum (fun x => f x + g x) l = lsum f l + lsum g l := by
  induction l with
  | nil => rfl
  | cons x xs ih => simp only [lsum, ih]; ring

theorem lsum_mul_left (c : Int) (f : α → Int) (l : List α) :
    lsum (fun x => c * f x) l = c * lsum f l := by
  induction l with
  | nil => simp [lsum]
  | cons x xs ih => simp only [lsum, ih]; ring

theorem lsum_mul_right (c : Int) (f : α → Int) (l : List α) :
    lsum (fun x => f x * c) l = lsum f l * c := by
  induction l with
  | nil => simp [lsum]
  | cons x xs ih => simp only [lsum, ih]; ring

theorem lsum_zero (l : List α) : lsum (fun _ => (0 : Int)) l = 0 := by
  induction l with
  | nil => rfl
  | cons x xs ih => simp [lsum, ih]

theorem lsum_append (f : α → Int) (l₁ l₂ : List α) :
    lsum f (l₁ ++ l₂) = lsum f l₁ + lsum f l₂ := by
  induction l₁ with
  | nil => simp [lsum]
  | cons x xs ih => simp only [List.cons_append, lsum, ih]; ring

end lsum

theorem evalLin_eq_lsum (F : Nat → Int) (d : MV) :
    evalLin F d = lsum (fun p => F p.1 * p.2) d := by
  induction d with
  | nil => rfl
  | cons p d ih => obtain ⟨k, v⟩ := p; simp only [evalLin, lsum, ih]

/-! ## `_generic_product` -/

/-- the coefficient contributed by the pair of terms `(sbits, scoeff)`, `(obits, ocoeff)` -/
def termCoeff (w : Nat → Nat → Int) (s o : Nat × Int) : Int :=
  w s.1 o.1 * reorderSign s.1 o.1 * s.2 * o.2

/-- body of the inner `for` loop -/
def innerStep (w : Nat → Nat → Int) (s : Nat × Int) (acc : MV) (o : Nat × Int) : MV :=
  if w s.1 o.1 = 0 then acc else dictAccum acc (s.1 ^^^ o.1) (termCoeff w s o)

theorem genericProduct_eq_foldl (w : Nat → Nat → Int) (a b : MV) :
    genericProduct w a b = a.foldl (fun acc s => b.foldl (innerStep w s) acc) [] := rfl

theorem inner_spec (w : Nat → Nat → Int) (s : Nat × Int) (b : MV) :
    ∀ acc : MV, Pruned acc →
      Pruned (b.foldl (innerStep w s) acc) ∧
      ∀ F, evalLin F (b.foldl (innerStep w s) acc)
        = evalLin F acc + lsum (fun o => F (s.1 ^^^ o.1) * termCoeff w s o) b := by
  induction b with
  | nil => intro acc h; exact ⟨h, fun F => by simp [lsum]⟩
  | cons o b ih =>
    intro acc hacc
    simp only [List.foldl_cons, lsum]
    have hstep : Pruned (innerStep w s acc o) ∧
        ∀ F, evalLin F (innerStep w s acc o)
          = evalLin F acc + F (s.1 ^^^ o.1) * termCoeff w s o := by
      unfold innerStep
      split
      · next h0 =>
        refine ⟨hacc, fun F => ?_⟩
        simp [termCoeff, h0]
      · exact ⟨pruned_dictAccum hacc _ _, fun F => evalLin_dictAccum F _ _ _⟩
    obtain ⟨h1, h2⟩ := ih _ hstep.1
    refine ⟨h1, fun F => ?_⟩
    rw [h2 F, hstep.2 F]; ring

theorem outer_spec (w : Nat → Nat → Int) (b : MV) (a : MV) :
    ∀ acc : MV, Pruned acc →
      Pruned (a.foldl (fun acc s => b.foldl (innerStep w s) acc) acc) ∧
      ∀ F, evalLin F (a.foldl (fun acc s => b.foldl (innerStep w s) acc) acc)
        = evalLin F acc
          + lsum (fun s => lsum (fun o => F (s.1 ^^^ o.1) * termCoeff w s o) b) a := by
  induction a with
  | nil => intro acc h; exact ⟨h, fun F => by simp [lsum]⟩
  | cons s a ih =>
    intro acc hacc
    simp only [List.foldl_cons, lsum]
    obtain ⟨h1, h2⟩ := inner_spec w s b acc hacc
    obtain ⟨h3, h4⟩ := ih _ h1
    refine ⟨h3, fun F => ?_⟩
    rw [h4 F, h2 F]; ring

/-- the result of `_generic_product` never stores a zero and has distinct keys — whatever the
    operands look like -/
theorem genericProduct_pruned (w : Nat → Nat → Int) (a b : MV) :
    Pruned (genericProduct w a b) := by
  rw [genericProduct_eq_foldl]; exact (outer_spec w b a [] pruned_nil).1

/-- every linear functional of the product is the double sum over the operand terms -/
theorem evalLin_genericProduct (w : Nat → Nat → Int) (a b : MV) (F : Nat → Int) :
    evalLin F (genericProduct w a b)
      = lsum (fun s => lsum (fun o => F (s.1 ^^^ o.1) * termCoeff w s o) b) a := by
  have := (outer_spec w b a [] pruned_nil).2 F
  rw [genericProduct_eq_foldl, this]; simp [evalLin]

/-- (h) the coefficient of blade `k` in `_generic_product`: the textbook formula
    `Σ_{s ∈ a} Σ_{o ∈ b} [s ⊕ o = k] w(s,o) σ(s,o) a_s b_o` -/
theorem coeff_genericProduct (w : Nat → Nat → Int) (a b : MV) (k : Nat) :
    coeff (genericProduct w a b) k
      = lsum (fun s => lsum (fun o =>
          if s.1 ^^^ o.1 = k then w s.1 o.1 * reorderSign s.1 o.1 * s.2 * o.2 else 0) b) a := by
  rw [coeff_eq_evalLin (genericProduct_pruned w a b).1, evalLin_genericProduct]
  apply lsum_congr; intro s _
  apply lsum_congr; intro o _
  unfold termCoeff
  split <;> simp


/-! ## Python equality of multivectors -/

theorem mem_keys_iff_exists {d : MV} {k : Nat} : k ∈ keys d ↔ ∃ v, (k, v) ∈ d := by
  unfold keys
  simp only [List.mem_map]
  constructor
  · rintro ⟨⟨k', v⟩, h, rfl⟩; exact ⟨v, h⟩
  · rintro ⟨v, h⟩; exact ⟨(k, v), h, rfl⟩

theorem mem_keys_iff_coeff_ne_zero {d : MV} (hd : Pruned d) (k : Nat) :
    k ∈ keys d ↔ coeff d k ≠ 0 := by
  constructor
  · intro h
    obtain ⟨v, hv⟩ := mem_keys_iff_exists.1 h
    have := dictGet_of_mem hd.1 hv
    unfold coeff; rw [this]; exact hd.2 _ hv
  · intro h; by_contra hk; exact h (coeff_eq_zero_of_not_mem hk)

theorem length_keys (d : MV) : (keys d).length = d.length := by simp [keys]

/-- `eq_iff_coeffwise`: on pruned dicts (distinct keys, no stored zero) Python's `==` is equality
    of the denoted coefficient functions.  Without `Pruned` this FAILS: see
    `PV.C18.eq_scalar_zero_discrepancy`. -/
theorem mvEq_iff_coeffwise {a b : MV} (ha : Pruned a) (hb : Pruned b) :
    mvEq a b = true ↔ ∀ k, coeff a k = coeff b k := by
  unfold mvEq dictEq
  simp only [Bool.and_eq_true, beq_iff_eq, List.all_eq_true]
  constructor
  · rintro ⟨hlen, hall⟩ k
    have hsub : keys a ⊆ keys b := by
      intro k hk
      obtain ⟨v, hv⟩ := mem_keys_iff_exists.1 hk
      have := hall (k, v) hv
      exact mem_keys_iff_exists.2 ⟨v, dictGet_mem this⟩
    have hperm : (keys a).Perm (keys b) :=
      (List.subperm_of_subset ha.1 hsub).perm_of_length_le
        (by rw [length_keys, length_keys, hlen])
    by_cases hk : k ∈ keys a
    · obtain ⟨v, hv⟩ := mem_keys_iff_exists.1 hk
      have h1 := dictGet_of_mem ha.1 hv
      have h2 := hall (k, v) hv
      unfold coeff; rw [h1, h2]
    · have hk' : k ∉ keys b := fun h => hk (hperm.mem_iff.2 h)
      rw [coeff_eq_zero_of_not_mem hk, coeff_eq_zero_of_not_mem hk']
  · intro h
    have hperm : (keys a).Perm (keys b) := by
      rw [List.perm_ext_iff_of_nodup ha.1 hb.1]
      intro k
      rw [mem_keys_iff_coeff_ne_zero ha, mem_keys_iff_coeff_ne_zero hb, h k]
    refine ⟨by rw [← length_keys, ← length_keys]; exact hperm.length_eq, ?_⟩
    rintro ⟨k, v⟩ hv
    have h1 := dictGet_of_mem ha.1 hv
    have h2 : coeff a k = v := by unfold coeff; rw [h1]; rfl
    have h3 : v ≠ 0 := ha.2 _ hv
    have h4 : coeff b k = v := by rw [← h k]; exact h2
    unfold coeff at h4
    cases hg : dictGet b k with
    | none => rw [hg] at h4; exact absurd h4.symm h3
    | some x => rw [hg] at h4; simp at h4; simp [h4]

/-! ## (h) associativity -/

/-- the 2-cocycle condition on a blade weight (including the reordering sign) under which
    `_generic_product` is associative -/
def Cocycle (w : Nat → Nat → Int) : Prop :=
  ∀ a b c : Nat,
    (w a b * reorderSign a b) * (w (a ^^^ b) c * reorderSign (a ^^^ b) c)
      = (w b c * reorderSign b c) * (w a (b ^^^ c) * reorderSign a (b ^^^ c))

theorem coeff_genericProduct_left (w : Nat → Nat → Int) (x c : MV) (k : Nat) :
    coeff (genericProduct w x c) k
      = evalLin (fun m => lsum (fun t : Nat × Int =>
          if m ^^^ t.1 = k then w m t.1 * reorderSign m t.1 * t.2 else 0) c) x := by
  rw [coeff_genericProduct, evalLin_eq_lsum]
  apply lsum_congr; intro s _
  rw [← lsum_mul_right]
  apply lsum_congr; intro t _
  split <;> ring

theorem coeff_genericProduct_right (w : Nat → Nat → Int) (a y : MV) (k : Nat) :
    coeff (genericProduct w a y) k
      = lsum (fun s : Nat × Int => evalLin (fun m =>
          if s.1 ^^^ m = k then w s.1 m * reorderSign s.1 m * s.2 else 0) y) a := by
  rw [coeff_genericProduct]
  apply lsum_congr; intro s _
  rw [evalLin_eq_lsum]
  apply lsum_congr; intro t _
  split <;> ring

/-- (h) associativity of `_generic_product` for every weight satisfying the blade cocycle:
    both bracketings denote the same coefficient function.  No hypothesis on the operands. -/
theorem coeff_genericProduct_assoc {w : Nat → Nat → Int} (hw : Cocycle w) (a b c : MV) (k : Nat) :
    coeff (genericProduct w (genericProduct w a b) c) k
      = coeff (genericProduct w a (genericProduct w b c)) k := by
  rw [coeff_genericProduct_left, evalLin_genericProduct, coeff_genericProduct_right]
  apply lsum_congr; intro s _
  rw [evalLin_genericProduct]
  apply lsum_congr; intro o _
  rw [← lsum_mul_right]
  apply lsum_congr; intro t _
  unfold termCoeff
  rw [Nat.xor_assoc]
  have := hw s.1 o.1 t.1
  split
  · linear_combination (s.2 * o.2 * t.2) * this
  · simp

/-- (h) associativity, as Python's `==` sees it -/
theorem genericProduct_assoc {w : Nat → Nat → Int} (hw : Cocycle w) (a b c : MV) :
    mvEq (genericProduct w (genericProduct w a b) c) (genericProduct w a (genericProduct w b c))
      = true :=
  (mvEq_iff_coeffwise (genericProduct_pruned _ _ _) (genericProduct_pruned _ _ _)).2
    (coeff_genericProduct_assoc hw a b c)

theorem cocycle_wGeometric (g : Nat → Int) : Cocycle (wGeometric g) :=
  fun a b c => blade_cocycle_int g a b c

/-- (h) `(A * B) * C == A * (B * C)` for the geometric product as coded, any diagonal metric, any
    multivectors, any dimension -/
theorem mvMul_assoc (g : Nat → Int) (a b c : MV) :
    mvEq (mvMul g (mvMul g a b) c) (mvMul g a (mvMul g b c)) = true :=
  genericProduct_assoc (cocycle_wGeometric g) a b c


/-! ## (h) bilinearity -/

theorem lsum_range_ind (c : Nat → Int) (k0 : Nat) : ∀ N, k0 < N →
    lsum (fun k => if k0 = k then c k else 0) (List.range N) = c k0 := by
  intro N
  induction N with
  | zero => intro h; omega
  | succ n ih =>
    intro h
    rw [List.range_succ, lsum_append]
    by_cases hk : k0 < n
    · rw [ih hk]
      have : k0 ≠ n := by omega
      simp [lsum, this]
    · have hk' : k0 = n := by omega
      subst hk'
      have e : lsum (fun k => if k0 = k then c k else 0) (List.range k0)
          = lsum (fun _ => (0 : Int)) (List.range k0) := by
        apply lsum_congr
        intro x hx
        have : x < k0 := List.mem_range.1 hx
        have : k0 ≠ x := by omega
        simp [this]
      rw [e, lsum_zero]; simp [lsum]

/-- with distinct keys, a linear functional of a dict only depends on the coefficient function -/
theorem evalLin_eq_range (H : Nat → Int) (N : Nat) : ∀ d : MV, NodupKeys d →
    (∀ k ∈ keys d, k < N) →
    evalLin H d = lsum (fun k => H k * coeff d k) (List.range N) := by
  intro d
  induction d with
  | nil => intro _ _; simp [evalLin, lsum_zero]
  | cons p d ih =>
    obtain ⟨k0, v0⟩ := p
    intro hd hN
    unfold NodupKeys at hd
    simp only [keys_cons, List.nodup_cons] at hd
    have hN' : ∀ k ∈ keys d, k < N := fun k hk => hN k (List.mem_cons_of_mem _ hk)
    have hk0 : k0 < N := hN k0 List.mem_cons_self
    rw [evalLin, ih hd.2 hN']
    have : (fun k => H k * coeff ((k0, v0) :: d) k)
        = fun k => (if k0 = k then H k * v0 else 0) + H k * coeff d k := by
      funext k
      rw [coeff_cons]
      by_cases h : k0 = k
      · subst h; simp [coeff_eq_zero_of_not_mem hd.1]
      · simp [h]
    rw [this, lsum_add, lsum_range_ind (fun k => H k * v0) k0 N hk0]

def keyBound (l : List Nat) : Nat := l.foldr max 0 + 1

theorem lt_keyBound {l : List Nat} {k : Nat} (h : k ∈ l) : k < keyBound l := by
  unfold keyBound
  induction l with
  | nil => simp at h
  | cons x xs ih =>
    simp only [List.foldr_cons]
    rcases List.mem_cons.1 h with h | h
    · subst h; omega
    · have := ih h; omega

/-- linear functionals respect linear combinations of the denoted functions -/
theorem evalLin_lin (H : Nat → Int) {a a1 a2 : MV} (x y : Int)
    (ha : NodupKeys a) (ha1 : NodupKeys a1) (ha2 : NodupKeys a2)
    (h : ∀ k, coeff a k = x * coeff a1 k + y * coeff a2 k) :
    evalLin H a = x * evalLin H a1 + y * evalLin H a2 := by
  let N := keyBound (keys a ++ keys a1 ++ keys a2)
  have hb : ∀ (d : MV), (∀ k ∈ keys d, k ∈ keys a ++ keys a1 ++ keys a2) →
      ∀ k ∈ keys d, k < N := fun d hd k hk => lt_keyBound (hd k hk)
  rw [evalLin_eq_range H N a ha (hb a (by intro k hk; simp [hk])),
    evalLin_eq_range H N a1 ha1 (hb a1 (by intro k hk; simp [hk])),
    evalLin_eq_range H N a2 ha2 (hb a2 (by intro k hk; simp [hk])),
    ← lsum_mul_left, ← lsum_mul_left, ← lsum_add]
  apply lsum_congr; intro k _
  rw [h k]; ring

theorem evalLin_ext (H : Nat → Int) {a b : MV} (ha : NodupKeys a) (hb : NodupKeys b)
    (h : ∀ k, coeff a k = coeff b k) : evalLin H a = evalLin H b := by
  have := evalLin_lin H 1 0 ha hb hb (by intro k; rw [h k]; ring)
  rw [this]; ring

/-- (h) `_generic_product` is linear in its left operand (as a function of the denoted
    coefficient functions; any weight) -/
theorem coeff_genericProduct_lin_left (w : Nat → Nat → Int) {a a1 a2 : MV} (x y : Int) (c : MV)
    (ha : NodupKeys a) (ha1 : NodupKeys a1) (ha2 : NodupKeys a2)
    (h : ∀ k, coeff a k = x * coeff a1 k + y * coeff a2 k) (k : Nat) :
    coeff (genericProduct w a c) k
      = x * coeff (genericProduct w a1 c) k + y * coeff (genericProduct w a2 c) k := by
  simp only [coeff_genericProduct_left]
  exact evalLin_lin _ x y ha ha1 ha2 h

/-- (h) `_generic_product` is linear in its right operand -/
theorem coeff_genericProduct_lin_right (w : Nat → Nat → Int) (a : MV) {c c1 c2 : MV} (x y : Int)
    (hc : NodupKeys c) (hc1 : NodupKeys c1) (hc2 : NodupKeys c2)
    (h : ∀ k, coeff c k = x * coeff c1 k + y * coeff c2 k) (k : Nat) :
    coeff (genericProduct w a c) k
      = x * coeff (genericProduct w a c1) k + y * coeff (genericProduct w a c2) k := by
  simp only [coeff_genericProduct_right]
  rw [← lsum_mul_left, ← lsum_mul_left, ← lsum_add]
  apply lsum_congr; intro s _
  exact evalLin_lin _ x y hc hc1 hc2 h

/-- the product only depends on the functions denoted by its operands (so stored zeros and the
    order of the dict entries are irrelevant to the result up to `==`) -/
theorem coeff_genericProduct_congr (w : Nat → Nat → Int) {a a' c c' : MV}
    (ha : NodupKeys a) (ha' : NodupKeys a') (hc : NodupKeys c) (hc' : NodupKeys c')
    (h1 : ∀ k, coeff a k = coeff a' k) (h2 : ∀ k, coeff c k = coeff c' k) (k : Nat) :
    coeff (genericProduct w a c) k = coeff (genericProduct w a' c') k := by
  rw [coeff_genericProduct_lin_left w 1 0 c ha ha' ha' (by intro k; rw [h1 k]; ring),
    coeff_genericProduct_lin_right w a' 1 0 hc hc' hc' (by intro k; rw [h2 k]; ring)]
  ring

/-! ### `__add__`, `__neg__` -/

theorem coeff_dictSet (d : MV) (k : Nat) (v : Int) (k' : Nat) :
    coeff (dictSet d k v) k' = if k = k' then v else coeff d k' := by
  induction d with
  | nil => simp [dictSet, coeff_cons]
  | cons p d ih =>
    obtain ⟨k0, v0⟩ := p
    simp only [dictSet]
    by_cases h : k0 = k
    · subst h; simp only [↓reduceIte, coeff_cons]
      by_cases h2 : k0 = k' <;> simp [h2]
    · simp only [h, ↓reduceIte, coeff_cons, ih]
      by_cases h2 : k0 = k'
      · subst h2
        have h' : ¬ k = k0 := fun e => h e.symm
        simp [h']
      · simp [h2]

/-- body of the loop of `__add__` -/
def addStep (a b : MV) (acc : MV) (bits : Nat) : MV :=
  if coeff a bits + coeff b bits = 0 then acc else dictSet acc bits (coeff a bits + coeff b bits)

theorem mvAdd_eq (a b : MV) :
    mvAdd a b = (keys a ++ (keys b).filter fun k => (dictGet a k).isNone).foldl (addStep a b) [] :=
  rfl

theorem addLoop_spec (a b : MV) : ∀ (K : List Nat) (acc : MV), K.Nodup →
    (∀ k ∈ K, k ∉ keys acc) → Pruned acc →
    Pruned (K.foldl (addStep a b) acc) ∧
    ∀ k, coeff (K.foldl (addStep a b) acc) k
      = if k ∈ K then coeff a k + coeff b k else coeff acc k := by
  intro K
  induction K with
  | nil => intro acc _ _ h; exact ⟨h, fun k => by simp⟩
  | cons bits K ih =>
    intro acc hK hfresh hacc
    simp only [List.nodup_cons] at hK
    have hb : bits ∉ keys acc := hfresh bits List.mem_cons_self
    have hstep : Pruned (addStep a b acc bits) ∧ (∀ k ∈ K, k ∉ keys (addStep a b acc bits)) ∧
        ∀ k, coeff (addStep a b acc bits) k
          = if bits = k then coeff a k + coeff b k else coeff acc k := by
      unfold addStep
      split
      · next h0 =>
        refine ⟨hacc, fun k hk => hfresh k (List.mem_cons_of_mem _ hk), fun k => ?_⟩
        by_cases h : bits = k
        · subst h; simp [h0, coeff_eq_zero_of_not_mem hb]
        · simp [h]
      · next h0 =>
        refine ⟨⟨nodupKeys_dictSet hacc.1 _ _, noZero_dictSet hacc.2 _ h0⟩, fun k hk => ?_,
          fun k => ?_⟩
        · rw [keys_dictSet]
          simp only [hb, ↓reduceIte, List.mem_append, List.mem_singleton, not_or]
          refine ⟨hfresh k (List.mem_cons_of_mem _ hk), ?_⟩
          intro e; subst e; exact hK.1 hk
        · rw [coeff_dictSet]
          by_cases h : bits = k
          · subst h; simp
          · simp [h]
    obtain ⟨h1, h2⟩ := ih _ hK.2 hstep.2.1 hstep.1
    refine ⟨h1, fun k => ?_⟩
    rw [List.foldl_cons, h2 k, hstep.2.2 k]
    by_cases hk : k ∈ K
    · simp [hk]
    · by_cases hkb : bits = k
      · subst hkb; simp
      · have hkb' : ¬ k = bits := fun e => hkb e.symm
        simp [hk, hkb, hkb']

/-- `__add__` returns a pruned dict denoting the pointwise sum -/
theorem mvAdd_spec {a b : MV} (ha : NodupKeys a) (hb : NodupKeys b) :
    Pruned (mvAdd a b) ∧ ∀ k, coeff (mvAdd a b) k = coeff a k + coeff b k := by
  rw [mvAdd_eq]
  have hK : (keys a ++ (keys b).filter fun k => (dictGet a k).isNone).Nodup := by
    rw [List.nodup_append]
    refine ⟨ha, hb.filter _, ?_⟩
    intro x hx y hy
    simp only [List.mem_filter, Option.isNone_iff_eq_none, dictGet_eq_none_iff] at hy
    intro e; subst e; exact hy.2 hx
  obtain ⟨h1, h2⟩ := addLoop_spec a b _ [] hK (by simp) pruned_nil
  refine ⟨h1, fun k => ?_⟩
  rw [h2 k]
  split
  · rfl
  · next hk =>
    simp only [List.mem_append, List.mem_filter, Option.isNone_iff_eq_none, dictGet_eq_none_iff,
      not_or, not_and, not_not] at hk
    have hka : k ∉ keys a := hk.1
    have hkb : k ∉ keys b := fun h => hka (hk.2 h)
    simp [coeff_eq_zero_of_not_mem hka, coeff_eq_zero_of_not_mem hkb]

theorem keys_mvNeg (a : MV) : keys (mvNeg a) = keys a := by
  unfold mvNeg keys; simp [Function.comp_def]

theorem coeff_mvNeg (a : MV) (k : Nat) : coeff (mvNeg a) k = - coeff a k := by
  induction a with
  | nil => simp [mvNeg]
  | cons p d ih =>
    obtain ⟨k0, v0⟩ := p
    have : mvNeg ((k0, v0) :: d) = (k0, -v0) :: mvNeg d := rfl
    rw [this, coeff_cons, coeff_cons, ih]
    split <;> rfl

/-- (h) left distributivity as Python's `==` sees it:  `(A + B) * C == A * C + B * C` for every
    product of the family -/
theorem genericProduct_add_left (w : Nat → Nat → Int) {a b : MV} (c : MV)
    (ha : NodupKeys a) (hb : NodupKeys b) :
    mvEq (genericProduct w (mvAdd a b) c) (mvAdd (genericProduct w a c) (genericProduct w b c))
      = true := by
  obtain ⟨hp, hs⟩ := mvAdd_spec ha hb
  obtain ⟨hp', hs'⟩ := mvAdd_spec (genericProduct_pruned w a c).1 (genericProduct_pruned w b c).1
  rw [mvEq_iff_coeffwise (genericProduct_pruned _ _ _) hp']
  intro k
  rw [hs' k, coeff_genericProduct_lin_left w 1 1 c hp.1 ha hb (by intro k; rw [hs k]; ring)]
  ring

/-- (h) right distributivity as Python's `==` sees it:  `A * (B + C) == A * B + A * C` -/
theorem genericProduct_add_right (w : Nat → Nat → Int) (a : MV) {b c : MV}
    (hb : NodupKeys b) (hc : NodupKeys c) :
    mvEq (genericProduct w a (mvAdd b c)) (mvAdd (genericProduct w a b) (genericProduct w a c))
      = true := by
  obtain ⟨hp, hs⟩ := mvAdd_spec hb hc
  obtain ⟨hp', hs'⟩ := mvAdd_spec (genericProduct_pruned w a b).1 (genericProduct_pruned w a c).1
  rw [mvEq_iff_coeffwise (genericProduct_pruned _ _ _) hp']
  intro k
  rw [hs' k, coeff_genericProduct_lin_right w a 1 1 hp.1 hb hc (by intro k; rw [hs k]; ring)]
  ring


/-! ## the outer product is associative as well -/

theorem eq_zero_iff_mod2_div2 (n : Nat) : n = 0 ↔ n % 2 = 0 ∧ n / 2 = 0 := by omega

/-- pairwise disjointness of three blades, bracketed either way -/
theorem disjoint3_iff : ∀ (n a b c : Nat), a + b + c ≤ n →
    ((a &&& b = 0 ∧ (a ^^^ b) &&& c = 0) ↔ (b &&& c = 0 ∧ a &&& (b ^^^ c) = 0)) := by
  intro n
  induction n using Nat.strongRecOn with
  | _ n ih =>
    intro a b c hn
    by_cases h0 : a + b + c = 0
    · have ha : a = 0 := by omega
      have hb : b = 0 := by omega
      have hc : c = 0 := by omega
      subst ha hb hc; simp
    · have ih' := ih (a / 2 + b / 2 + c / 2) (by omega) (a / 2) (b / 2) (c / 2) (Nat.le_refl _)
      rw [eq_zero_iff_mod2_div2 (a &&& b), eq_zero_iff_mod2_div2 ((a ^^^ b) &&& c),
        eq_zero_iff_mod2_div2 (b &&& c), eq_zero_iff_mod2_div2 (a &&& (b ^^^ c))]
      simp only [and_div2, xor_div2, and_mod2, xor_mod2]
      rcases Nat.mod_two_eq_zero_or_one a with h1 | h1 <;>
      rcases Nat.mod_two_eq_zero_or_one b with h2 | h2 <;>
      rcases Nat.mod_two_eq_zero_or_one c with h3 | h3 <;>
      simp only [h1, h2, h3] <;> simp <;> tauto

theorem cocycle_wOuter (g : Nat → Int) : Cocycle (wOuter g) := by
  intro a b c
  have h := disjoint3_iff _ a b c (Nat.le_refl _)
  have hs := sign_cocycle a b c
  unfold wOuter
  by_cases h1 : a &&& b = 0 ∧ (a ^^^ b) &&& c = 0
  · have h2 := h.1 h1
    simp only [h1.1, h1.2, h2.1, h2.2, ne_eq, not_true_eq_false, ↓reduceIte, one_mul]
    exact hs
  · have h2 : ¬ (b &&& c = 0 ∧ a &&& (b ^^^ c) = 0) := fun e => h1 (h.2 e)
    have l : (if a &&& b ≠ 0 then (0 : Int) else 1) * reorderSign a b
        * ((if (a ^^^ b) &&& c ≠ 0 then (0 : Int) else 1) * reorderSign (a ^^^ b) c) = 0 := by
      by_cases e1 : a &&& b = 0
      · have e2 : (a ^^^ b) &&& c ≠ 0 := fun e => h1 ⟨e1, e⟩
        simp [e2]
      · simp [e1]
    have r : (if b &&& c ≠ 0 then (0 : Int) else 1) * reorderSign b c
        * ((if a &&& (b ^^^ c) ≠ 0 then (0 : Int) else 1) * reorderSign a (b ^^^ c)) = 0 := by
      by_cases e1 : b &&& c = 0
      · have e2 : a &&& (b ^^^ c) ≠ 0 := fun e => h2 ⟨e1, e⟩
        simp [e2]
      · simp [e1]
    rw [l, r]

/-- (h) `(A ^ B) ^ C == A ^ (B ^ C)` for the outer product as coded -/
theorem mvOuter_assoc (g : Nat → Int) (a b c : MV) :
    mvEq (mvOuter g (mvOuter g a b) c) (mvOuter g a (mvOuter g b c)) = true :=
  genericProduct_assoc (cocycle_wOuter g) a b c


/-! ## `rev` and `invol` on multivectors -/

theorem lsum_map {α β : Type} (f : β → Int) (h : α → β) (l : List α) :
    lsum f (l.map h) = lsum (fun x => f (h x)) l := by
  induction l with
  | nil => rfl
  | cons x xs ih => simp only [List.map_cons, lsum, ih]

theorem lsum_comm {α β : Type} (f : α → β → Int) (l₁ : List α) (l₂ : List β) :
    lsum (fun x => lsum (fun y => f x y) l₂) l₁ = lsum (fun y => lsum (fun x => f x y) l₁) l₂ := by
  induction l₁ with
  | nil => simp [lsum, lsum_zero]
  | cons x xs ih => simp only [lsum, ih, lsum_add]

theorem revSign_mul_self (a : Nat) : revSign a * revSign a = 1 := by
  rw [revSign_eq_sgn]; exact sgn_mul_self _

theorem involSign_mul_self (a : Nat) : involSign a * involSign a = 1 := by
  rw [involSign_eq_sgn]; exact sgn_mul_self _

theorem rev_eq_map (a : MV) : rev a = a.map fun p => (p.1, revSign p.1 * p.2) := by
  unfold rev
  apply List.map_congr_left
  rintro ⟨bits, c⟩ _
  simp only [revSign]
  split <;> simp

theorem invol_eq_map (a : MV) : invol a = a.map fun p => (p.1, involSign p.1 * p.2) := by
  unfold invol
  apply List.map_congr_left
  rintro ⟨bits, c⟩ _
  simp only [involSign]
  split <;> simp

/-- a blade-wise sign change `(bits, c) ↦ (bits, σ bits * c)` -/
def signMap (σ : Nat → Int) (a : MV) : MV := a.map fun p => (p.1, σ p.1 * p.2)

theorem keys_signMap (σ : Nat → Int) (a : MV) : keys (signMap σ a) = keys a := by
  unfold signMap keys; simp [Function.comp_def]

theorem coeff_signMap (σ : Nat → Int) (a : MV) (k : Nat) :
    coeff (signMap σ a) k = σ k * coeff a k := by
  induction a with
  | nil => simp [signMap]
  | cons p d ih =>
    obtain ⟨k0, v0⟩ := p
    have : signMap σ ((k0, v0) :: d) = (k0, σ k0 * v0) :: signMap σ d := rfl
    rw [this, coeff_cons, coeff_cons, ih]
    split
    · next h => subst h; rfl
    · rfl

theorem pruned_signMap {σ : Nat → Int} (hσ : ∀ k, σ k * σ k = 1) {a : MV} (ha : Pruned a) :
    Pruned (signMap σ a) := by
  refine ⟨by unfold NodupKeys; rw [keys_signMap]; exact ha.1, ?_⟩
  intro p hp
  unfold signMap at hp
  obtain ⟨q, hq, rfl⟩ := List.mem_map.1 hp
  have h1 := ha.2 q hq
  have h2 := hσ q.1
  intro h0
  simp only at h0
  have : q.2 = σ q.1 * (σ q.1 * q.2) := by rw [← mul_assoc, h2, one_mul]
  rw [h0, mul_zero] at this
  exact h1 this

theorem coeff_genericProduct_signMap (w : Nat → Nat → Int) (σ : Nat → Int) (a b : MV) (k : Nat) :
    coeff (genericProduct w (signMap σ a) (signMap σ b)) k
      = lsum (fun s => lsum (fun o =>
          if s.1 ^^^ o.1 = k
          then w s.1 o.1 * reorderSign s.1 o.1 * (σ s.1 * s.2) * (σ o.1 * o.2) else 0) b) a := by
  rw [coeff_genericProduct]
  unfold signMap
  rw [lsum_map]
  apply lsum_congr; intro s _
  rw [lsum_map]

/-- (g) anti-automorphism, generic form: if `σ (a ⊕ b) sign(a,b) = sign(b,a) σ b σ a` on blades,
    then `σ(A · B) == σ(B) ·ᵒᵖ σ(A)` where `·ᵒᵖ` uses the transposed weight -/
theorem signMap_antiauto (w : Nat → Nat → Int) {σ : Nat → Int} (hσ : ∀ k, σ k * σ k = 1)
    (h : ∀ a b, σ (a ^^^ b) * reorderSign a b = reorderSign b a * (σ b * σ a)) (a b : MV) :
    mvEq (signMap σ (genericProduct w a b))
      (genericProduct (fun x y => w y x) (signMap σ b) (signMap σ a)) = true := by
  rw [mvEq_iff_coeffwise (pruned_signMap hσ (genericProduct_pruned _ _ _))
    (genericProduct_pruned _ _ _)]
  intro k
  rw [coeff_signMap, coeff_genericProduct, coeff_genericProduct_signMap, lsum_comm,
    ← lsum_mul_left]
  apply lsum_congr; intro s _
  rw [← lsum_mul_left]
  apply lsum_congr; intro o _
  rw [Nat.xor_comm s.1 o.1]
  split
  · next hk =>
    subst hk
    linear_combination (w o.1 s.1 * s.2 * o.2) * h o.1 s.1
  · simp

/-- automorphism, generic form -/
theorem signMap_auto (w : Nat → Nat → Int) {σ : Nat → Int} (hσ : ∀ k, σ k * σ k = 1)
    (h : ∀ a b, σ (a ^^^ b) = σ a * σ b) (a b : MV) :
    mvEq (signMap σ (genericProduct w a b))
      (genericProduct w (signMap σ a) (signMap σ b)) = true := by
  rw [mvEq_iff_coeffwise (pruned_signMap hσ (genericProduct_pruned _ _ _))
    (genericProduct_pruned _ _ _)]
  intro k
  rw [coeff_signMap, coeff_genericProduct, coeff_genericProduct_signMap, ← lsum_mul_left]
  apply lsum_congr; intro s _
  rw [← lsum_mul_left]
  apply lsum_congr; intro o _
  split
  · next hk =>
    subst hk
    rw [h s.1 o.1]; ring
  · simp

/-- (g) `(A * B).rev() == B.rev() * A.rev()` -/
theorem rev_mvMul (g : Nat → Int) (a b : MV) :
    mvEq (rev (mvMul g a b)) (mvMul g (rev b) (rev a)) = true := by
  have := signMap_antiauto (wGeometric g) revSign_mul_self rev_antiauto_sign a b
  have hw : (fun x y => wGeometric g y x) = wGeometric g := by
    funext x y; exact wGeometric_comm g y x
  rw [hw] at this
  simpa [mvMul, rev_eq_map, signMap] using this

/-- (g) `(A ^ B).rev() == B.rev() ^ A.rev()` -/
theorem rev_mvOuter (g : Nat → Int) (a b : MV) :
    mvEq (rev (mvOuter g a b)) (mvOuter g (rev b) (rev a)) = true := by
  have := signMap_antiauto (wOuter g) revSign_mul_self rev_antiauto_sign a b
  have hw : (fun x y => wOuter g y x) = wOuter g := by
    funext x y; unfold wOuter; rw [Nat.and_comm]
  rw [hw] at this
  simpa [mvOuter, rev_eq_map, signMap] using this

/-- (g) `rev` exchanges the two contractions:  `(A << B).rev() == B.rev() >> A.rev()` -/
theorem rev_mvLeftContraction (g : Nat → Int) (a b : MV) :
    mvEq (rev (mvLeftContraction g a b)) (mvRightContraction g (rev b) (rev a)) = true := by
  have := signMap_antiauto (wLeftContraction g) revSign_mul_self rev_antiauto_sign a b
  have hw : (fun x y => wLeftContraction g y x) = wRightContraction g := by
    funext x y; unfold wLeftContraction wRightContraction; rw [Nat.and_comm]
  rw [hw] at this
  simpa [mvLeftContraction, mvRightContraction, rev_eq_map, signMap] using this

/-- (g) `(A · B).invol() == A.invol() · B.invol()` for every product of the family -/
theorem invol_genericProduct (w : Nat → Nat → Int) (a b : MV) :
    mvEq (invol (genericProduct w a b)) (genericProduct w (invol a) (invol b)) = true := by
  have := signMap_auto w involSign_mul_self invol_auto_sign a b
  simpa [invol_eq_map, signMap] using this

/-- `rev` is an involution -/
theorem rev_rev (a : MV) : rev (rev a) = a := by
  rw [rev_eq_map, rev_eq_map, List.map_map]
  conv => rhs; rw [← List.map_id a]
  apply List.map_congr_left
  rintro ⟨k, v⟩ _
  simp only [Function.comp, id]
  rw [← mul_assoc, revSign_mul_self, one_mul]

/-! ## `norm_squared` and `inv` of a single blade -/

theorem normSquared_blade (g : Nat → Int) (bits : Nat) (c : Int) :
    normSquared g [(bits, c)] = some (sharedMetricCoeff g bits * c * c) := by
  unfold normSquared scalarProduct
  rw [rev_eq_map]
  simp only [List.map_cons, List.map_nil]
  rw [genericProduct_blades]
  have hw : wScalar g bits bits = sharedMetricCoeff g bits := by simp [wScalar]
  have hv : wScalar g bits bits * reorderSign bits bits * (revSign bits * c) * c
      = sharedMetricCoeff g bits * c * c := by
    rw [hw, ← revSign_eq_reorderSign_self]
    linear_combination (sharedMetricCoeff g bits * c * c) * revSign_mul_self bits
  rw [hv, hw]
  split
  · next h =>
    rcases h with h | h
    · simp [asScalar, h]
    · simp [asScalar, h]
  · simp [asScalar]

/-- `MultiVector.inv` of a one-term multivector `{bits: c}`, in closed form -/
theorem inv_blade_eq (g : Nat → Int) (dims bits : Nat) (c : Int) :
    inv g dims [(bits, c)] =
      if sharedMetricCoeff g bits * c * c = 0 then .zeroDivision
      else .ok [(bits, revSign bits * c)] (sharedMetricCoeff g bits * c * c) := by
  unfold inv
  rw [normSquared_blade]
  simp only
  split
  · rfl
  · congr 2
    unfold revSign
    simp only
    split <;> simp_all

/-- `blade_inv`: whenever `inv` succeeds on a blade, the result `numer / denom` is a two-sided
    inverse for the geometric product: `A * numer == denom == numer * A`, `denom ≠ 0` -/
theorem blade_inv (g : Nat → Int) (dims bits : Nat) (c : Int) (numer : MV) (denom : Int)
    (h : inv g dims [(bits, c)] = .ok numer denom) :
    denom ≠ 0 ∧ denom = sharedMetricCoeff g bits * c * c ∧
    mvMul g [(bits, c)] numer = [(0, denom)] ∧ mvMul g numer [(bits, c)] = [(0, denom)] := by
  rw [inv_blade_eq] at h
  split at h
  · cases h
  · next hne =>
    injection h with h1 h2
    subst h1 h2
    refine ⟨hne, rfl, ?_, ?_⟩
    · unfold mvMul
      rw [genericProduct_blades, wGeometric_eq_smc, Nat.and_self, Nat.xor_self,
        ← revSign_eq_reorderSign_self]
      have hv : sharedMetricCoeff g bits * revSign bits * c * (revSign bits * c)
          = sharedMetricCoeff g bits * c * c := by
        linear_combination (sharedMetricCoeff g bits * c * c) * revSign_mul_self bits
      rw [hv]
      have hw : sharedMetricCoeff g bits ≠ 0 := by
        intro e; rw [e] at hne; simp at hne
      simp [hw, hne]
    · unfold mvMul
      rw [genericProduct_blades, wGeometric_eq_smc, Nat.and_self, Nat.xor_self,
        ← revSign_eq_reorderSign_self]
      have hv : sharedMetricCoeff g bits * revSign bits * (revSign bits * c) * c
          = sharedMetricCoeff g bits * c * c := by
        linear_combination (sharedMetricCoeff g bits * c * c) * revSign_mul_self bits
      rw [hv]
      have hw : sharedMetricCoeff g bits ≠ 0 := by
        intro e; rw [e] at hne; simp at hne
      simp [hw, hne]


/-! ## the zero multivector and scalars: how `==`, `bool` and stored zeros interact -/

/-- a pruned dict denoting the zero function is the empty dict -/
theorem pruned_eq_nil {d : MV} (hd : Pruned d) (h : ∀ k, coeff d k = 0) : d = [] := by
  cases d with
  | nil => rfl
  | cons p d =>
    exfalso
    have : p.1 ∈ keys (p :: d) := by simp
    exact (mem_keys_iff_coeff_ne_zero hd p.1).1 this (h p.1)

/-- `MultiVector(0)` is the empty dict, so products with it are empty -/
theorem genericProduct_ofScalar_zero (w : Nat → Nat → Int) (a : MV) :
    genericProduct w (ofScalar 0) a = [] ∧ genericProduct w a (ofScalar 0) = [] := by
  constructor
  · apply pruned_eq_nil (genericProduct_pruned _ _ _)
    intro k
    rw [coeff_genericProduct]
    simp [ofScalar, lsum]
  · apply pruned_eq_nil (genericProduct_pruned _ _ _)
    intro k
    rw [coeff_genericProduct]
    simp [ofScalar, lsum, lsum_zero]

/-- every scalar constructor result is pruned -/
theorem ofScalar_pruned (x : Int) : Pruned (ofScalar x) := by
  unfold ofScalar
  split
  · exact pruned_nil
  · rename_i hx
    refine ⟨by simp [NodupKeys, keys], ?_⟩
    intro p hp
    simp at hp
    subst hp
    exact hx

/-- on a pruned dict — in particular on every result of `+`, `-`, and of the six products —
    `x == 0` is exactly "every coefficient is zero" -/
theorem mvEqScalar_zero_iff_of_pruned {a : MV} (ha : Pruned a) :
    mvEqScalar a 0 = true ↔ ∀ k, coeff a k = 0 := by
  unfold mvEqScalar
  rw [mvEq_iff_coeffwise ha (ofScalar_pruned 0)]
  simp [ofScalar, coeff, dictGet]

/-- `bool(x)` on a pruned dict is the documented "has a non-zero coefficient" -/
theorem mvBool_iff_of_pruned {a : MV} (ha : Pruned a) :
    mvBool a = true ↔ ∃ k, coeff a k ≠ 0 := by
  cases a with
  | nil => simp [mvBool]
  | cons p d =>
    simp only [mvBool, List.isEmpty_cons, Bool.not_false, true_iff]
    exact ⟨p.1, (mem_keys_iff_coeff_ne_zero ha p.1).1 (by simp)⟩

/-! ## `permutation_sign` and `bits_and_sign` -/

theorem permSignLoop_range (n : Nat) : ∀ (m i : Nat) (s : Int), i + m ≤ n →
    permSignLoop m i (List.range n) s = some s := by
  intro m
  induction m with
  | zero => intro i s _; rfl
  | succ m ih =>
    intro i s h
    have hi : i < n := by omega
    have hf : findFrom (List.range n) i ((List.range n).length + 1) i = some i := by
      simp [findFrom, hi]
    simp only [permSignLoop, hf, ne_eq, not_true_eq_false, ↓reduceIte]
    exact ih (i + 1) s (by omega)

/-- the identity permutation is even -/
theorem permutationSign_range (n : Nat) : permutationSign? (List.range n) = some 1 := by
  unfold permutationSign?
  rw [List.length_range]
  exact permSignLoop_range n n 0 1 (by omega)

/-- the tuple-key constructor agrees with the product: `MultiVector({(i, j): c})` stores
    `e_i e_j` with the sign `canonical_reordering_sign` gives to that product -/
theorem bitsAndSign_pair {i j : Nat} (h : i ≠ j) :
    bitsAndSign [i, j] = (2 ^ i ||| 2 ^ j, reorderSign (2 ^ i) (2 ^ j)) := by
  have hs : reorderSign (2 ^ i) (2 ^ j) = if j < i then -1 else 1 := by
    rw [reorderSign_eq_sgn, reorderSignExp_two_pow]; split <;> rfl
  rw [hs]
  unfold bitsAndSign
  by_cases hlt : i < j
  · have h1 : ¬ j < i := by omega
    simp [sortPairs, enumFrom', insertPair, hlt, h1]
    decide
  · have h1 : j < i := by omega
    have h2 : ¬ i = j := h
    simp [sortPairs, enumFrom', insertPair, hlt, h1, h2]
    decide

end PV.GA
