import PV.Proofs.OpsRing
/-
  C03: `flattened_sum` / `flattened_product` keep the ORDER of the terms.

  The two loops splice the children of a nested Sum / Product in place (`queue[0:0] =
  item.children`), so what they collect is the in-order list of the terms of the argument:

    * `sumTermsL terms` / `prodFactorsL terms` say, without any queue, which terms are to be kept
      and in which order (a plain left-to-right descent into nested sums / products, zeros — and
      ones — dropped, a zero factor collapsing the product);
    * `flattenedSumLoop_terms` / `flattenedProductLoop_factors`: the loops compute exactly that;
    * `flattenedProductLoop_ring` / `flattenedSumLoop_ring`: over an arbitrary — possibly
      non-commutative — ring the left-to-right value of `done ++ queue` is an invariant of the
      loop.
-/
namespace PV
universe u

namespace FlatOrder

theorem size_pos (e : Expr) : 0 < e.size := by
  cases e <;> simp only [Expr.size] <;> omega

theorem sizeL_append : ∀ (xs ys : List Expr),
    Expr.sizeL (xs ++ ys) = Expr.sizeL xs + Expr.sizeL ys
  | [], ys => by simp [Expr.sizeL]
  | x :: xs, ys => by simp only [List.cons_append, Expr.sizeL, sizeL_append xs ys]; omega

end FlatOrder

/-! ### the terms in order, without a queue -/

mutual
/-- the terms `flattened_sum` keeps of one item, in order: nothing of a zero, the kept terms of
the children of a (non-zero) `Sum`, left to right, and the item itself otherwise -/
def sumTerms : Expr → List Expr
  | .nary .sum cs => if (Expr.nary .sum cs).isZero then [] else sumTermsL cs
  | e => if e.isZero then [] else [e]
/-- … of a list of items: the concatenation, in the order of the list -/
def sumTermsL : List Expr → List Expr
  | [] => []
  | c :: cs => sumTerms c ++ sumTermsL cs
end

mutual
/-- the factors `flattened_product` keeps of one item, in order (`none`: a zero was met, the
product collapses to `0`): nothing of a one, the kept factors of the children of a (non-zero)
`Product`, left to right, and the item itself otherwise -/
def prodFactors : Expr → Option (List Expr)
  | .nary .prod cs =>
    if (Expr.nary .prod cs).isZero then none else prodFactorsL cs
  | e => if e.isZero then none else if e.isOne then some [] else some [e]
/-- … of a list of items: the concatenation, in the order of the list -/
def prodFactorsL : List Expr → Option (List Expr)
  | [] => some []
  | c :: cs => (prodFactors c).bind fun xs => (prodFactorsL cs).map fun ys => xs ++ ys
end

theorem sumTermsL_append : ∀ (as bs : List Expr),
    sumTermsL (as ++ bs) = sumTermsL as ++ sumTermsL bs
  | [], bs => by simp [sumTermsL]
  | a :: as, bs => by
      simp only [List.cons_append, sumTermsL, sumTermsL_append as bs, List.append_assoc]

theorem prodFactorsL_append : ∀ (as bs : List Expr),
    prodFactorsL (as ++ bs) =
      (prodFactorsL as).bind fun xs => (prodFactorsL bs).map fun ys => xs ++ ys
  | [], bs => by
      simp only [List.nil_append, prodFactorsL, Option.bind_some]
      cases prodFactorsL bs <;> simp
  | a :: as, bs => by
      simp only [List.cons_append, prodFactorsL, prodFactorsL_append as bs]
      cases prodFactors a with
      | none => simp
      | some xs =>
        cases prodFactorsL as with
        | none => simp
        | some ys =>
          cases prodFactorsL bs with
          | none => simp
          | some zs => simp [List.append_assoc]

theorem sumTerms_of_isZero {e : Expr} (hz : e.isZero = true) : sumTerms e = [] := by
  unfold sumTerms
  split <;> simp [hz]

theorem sumTerms_sum {cs : List Expr} (hz : ¬ (Expr.nary .sum cs).isZero = true) :
    sumTerms (.nary .sum cs) = sumTermsL cs := by
  simp [sumTerms, hz]

theorem sumTerms_other {e : Expr} (hz : ¬ e.isZero = true)
    (hs : ∀ cs, e = .nary .sum cs → False) : sumTerms e = [e] := by
  unfold sumTerms
  split
  · exact absurd rfl (hs _)
  · simp [hz]

theorem prodFactors_of_isZero {e : Expr} (hz : e.isZero = true) : prodFactors e = none := by
  unfold prodFactors
  split <;> simp [hz]

theorem prodFactors_of_isOne {e : Expr} (hz : ¬ e.isZero = true) (h1 : e.isOne = true) :
    prodFactors e = some [] := by
  unfold prodFactors
  split
  · simp [Expr.isOne] at h1
  · simp [hz, h1]

theorem prodFactors_prod {cs : List Expr} (hz : ¬ (Expr.nary .prod cs).isZero = true) :
    prodFactors (.nary .prod cs) = prodFactorsL cs := by
  simp [prodFactors, hz]

theorem prodFactors_other {e : Expr} (hz : ¬ e.isZero = true) (h1 : ¬ e.isOne = true)
    (hs : ∀ cs, e = .nary .prod cs → False) : prodFactors e = some [e] := by
  unfold prodFactors
  split
  · exact absurd rfl (hs _)
  · simp [hz, h1]

/-! ### the loops compute the in-order terms -/

/-- with enough fuel the loop of `flattened_sum` appends the in-order terms of the queue to `done` -/
theorem flattenedSumLoop_terms : ∀ (fuel : Nat) (queue done : List Expr),
    Expr.sizeL queue < fuel → flattenedSumLoop fuel queue done = done ++ sumTermsL queue
  | 0, _, _, h => by omega
  | _ + 1, [], done, _ => by simp [flattenedSumLoop, sumTermsL]
  | fuel + 1, item :: queue, done, h => by
      have hp := FlatOrder.size_pos item
      simp only [Expr.sizeL] at h
      simp only [flattenedSumLoop, sumTermsL]
      split
      · rename_i hz
        rw [flattenedSumLoop_terms fuel queue done (by omega), sumTerms_of_isZero hz,
          List.nil_append]
      · rename_i hz
        split
        · rename_i cs
          simp only [Expr.size] at h
          rw [flattenedSumLoop_terms fuel (cs ++ queue) done
            (by rw [FlatOrder.sizeL_append]; omega), sumTermsL_append, sumTerms_sum hz]
        · rename_i hs
          rw [flattenedSumLoop_terms fuel queue (done ++ [item]) (by omega),
            sumTerms_other hz (fun cs h => hs cs h)]
          simp

/-- with enough fuel the loop of `flattened_product` appends the in-order factors of the queue to
`done`, or returns early (`none`) exactly when a zero is among them -/
theorem flattenedProductLoop_factors : ∀ (fuel : Nat) (queue done : List Expr),
    Expr.sizeL queue < fuel →
    flattenedProductLoop fuel queue done = (prodFactorsL queue).map fun xs => done ++ xs
  | 0, _, _, h => by omega
  | _ + 1, [], done, _ => by simp [flattenedProductLoop, prodFactorsL]
  | fuel + 1, item :: queue, done, h => by
      have hp := FlatOrder.size_pos item
      simp only [Expr.sizeL] at h
      simp only [flattenedProductLoop, prodFactorsL]
      split
      · rename_i hz
        simp [prodFactors_of_isZero hz]
      · rename_i hz
        split
        · rename_i h1
          rw [flattenedProductLoop_factors fuel queue done (by omega),
            prodFactors_of_isOne hz h1]
          cases prodFactorsL queue <;> simp
        · rename_i h1
          split
          · rename_i cs
            simp only [Expr.size] at h
            rw [flattenedProductLoop_factors fuel (cs ++ queue) done
              (by rw [FlatOrder.sizeL_append]; omega), prodFactorsL_append, prodFactors_prod hz]
          · rename_i hs
            rw [flattenedProductLoop_factors fuel queue (done ++ [item]) (by omega),
              prodFactors_other hz h1 (fun cs h => hs cs h)]
            cases prodFactorsL queue <;> simp

/-- **`flattened_sum` is the in-order list of the kept terms.** -/
theorem flattenedSum_eq_terms (terms : List Expr) :
    flattenedSum terms =
      match sumTermsL terms with
      | [] => zero
      | [x] => x
      | xs => .nary .sum xs := by
  unfold flattenedSum
  rw [flattenedSumLoop_terms _ terms [] (by omega), List.nil_append]
  generalize sumTermsL terms = l
  match l with
  | [] => rfl
  | [x] => rfl
  | x :: y :: r => rfl

/-- **`flattened_product` is the in-order list of the kept factors.** -/
theorem flattenedProduct_eq_factors (terms : List Expr) :
    flattenedProduct terms =
      match prodFactorsL terms with
      | none => zero
      | some [] => one
      | some [x] => x
      | some xs => .nary .prod xs := by
  unfold flattenedProduct
  rw [flattenedProductLoop_factors _ terms [] (by omega)]
  generalize prodFactorsL terms = l
  match l with
  | none => rfl
  | some [] => rfl
  | some [x] => rfl
  | some (x :: y :: r) => rfl

/-! ### values in a non-commutative ring -/

section
variable {K : Type u} [Ring K] (ρ : String → K)

theorem fold_cons_some {f : K → K → K} {acc k : K} {c : Expr} {cs : List Expr}
    (h : evalRingFold ρ f acc (c :: cs) = some k) :
    ∃ x, evalRing ρ c = some x ∧ evalRingFold ρ f (f acc x) cs = some k := by
  simp only [evalRingFold] at h
  cases hc : evalRing ρ c with
  | none => rw [hc] at h; contradiction
  | some x => rw [hc] at h; exact ⟨x, rfl, h⟩

theorem fold_append_some {f : K → K → K} {acc k : K} {cs ds : List Expr}
    (h : evalRingFold ρ f acc (cs ++ ds) = some k) :
    ∃ r, evalRingFold ρ f acc cs = some r ∧ evalRingFold ρ f r ds = some k := by
  rw [fold_append] at h
  cases hc : evalRingFold ρ f acc cs with
  | none => rw [hc] at h; simp at h
  | some r => rw [hc] at h; exact ⟨r, rfl, by simpa using h⟩

theorem fold_append_mk {f : K → K → K} {acc r k : K} {cs ds : List Expr}
    (h1 : evalRingFold ρ f acc cs = some r) (h2 : evalRingFold ρ f r ds = some k) :
    evalRingFold ρ f acc (cs ++ ds) = some k := by
  rw [fold_append, h1]; simpa using h2

/-- outcome of the product loop: early `return 0` (then the value is 0) or the factors, whose
LEFT-TO-RIGHT product is the value -/
def RingProdOK (v : K) : Option (List Expr) → Prop
  | none => v = 0
  | some xs => evalRingFold ρ (· * ·) 1 xs = some v

/-- the left-to-right product of `done ++ queue` is an invariant of the loop of
`flattened_product`, in ANY ring -/
theorem flattenedProductLoop_ring : ∀ (fuel : Nat) (queue done : List Expr) (v : K),
    Expr.sizeL queue < fuel → evalRingFold ρ (· * ·) 1 (done ++ queue) = some v →
    RingProdOK ρ v (flattenedProductLoop fuel queue done)
  | 0, _, _, _, hf, _ => by omega
  | _ + 1, [], done, v, _, h => by
      simpa only [flattenedProductLoop, List.append_nil, RingProdOK] using h
  | fuel + 1, item :: queue, done, v, hf, h => by
      obtain ⟨d, hd, hr⟩ := fold_append_some ρ h
      obtain ⟨x, hx, hq⟩ := fold_cons_some ρ hr
      have hpos := FlatOrder.size_pos item
      simp only [Expr.sizeL] at hf
      simp only [flattenedProductLoop]
      split
      · rename_i hz
        have := isZero_ring ρ hz hx; subst this
        rw [mul_zero] at hq
        exact fold_mul_zero ρ queue v hq
      · split
        · rename_i h1
          have := isOne_ring ρ h1 hx; subst this
          rw [mul_one] at hq
          exact flattenedProductLoop_ring fuel queue done v (by omega) (fold_append_mk ρ hd hq)
        · split
          · rename_i cs _ _
            simp only [evalRing] at hx
            refine flattenedProductLoop_ring fuel (cs ++ queue) done v
              (by simp only [FlatOrder.sizeL_append, Expr.size] at hf ⊢; omega) ?_
            exact fold_append_mk ρ hd (fold_append_mk ρ (prod_acc ρ d hx) hq)
          · refine flattenedProductLoop_ring fuel queue (done ++ [item]) v (by omega) ?_
            refine fold_append_mk ρ (fold_append_mk ρ hd ?_) hq
            simp only [evalRingFold, hx]

/-- the same for `flattened_sum` -/
theorem flattenedSumLoop_ring : ∀ (fuel : Nat) (queue done : List Expr) (v : K),
    Expr.sizeL queue < fuel → evalRingFold ρ (· + ·) 0 (done ++ queue) = some v →
    evalRingFold ρ (· + ·) 0 (flattenedSumLoop fuel queue done) = some v
  | 0, _, _, _, hf, _ => by omega
  | _ + 1, [], done, v, _, h => by
      simpa only [flattenedSumLoop, List.append_nil] using h
  | fuel + 1, item :: queue, done, v, hf, h => by
      obtain ⟨d, hd, hr⟩ := fold_append_some ρ h
      obtain ⟨x, hx, hq⟩ := fold_cons_some ρ hr
      have hpos := FlatOrder.size_pos item
      simp only [Expr.sizeL] at hf
      simp only [flattenedSumLoop]
      split
      · rename_i hz
        have := isZero_ring ρ hz hx; subst this
        rw [add_zero] at hq
        exact flattenedSumLoop_ring fuel queue done v (by omega) (fold_append_mk ρ hd hq)
      · split
        · rename_i cs _
          simp only [evalRing] at hx
          refine flattenedSumLoop_ring fuel (cs ++ queue) done v
            (by simp only [FlatOrder.sizeL_append, Expr.size] at hf ⊢; omega) ?_
          exact fold_append_mk ρ hd (fold_append_mk ρ (sum_acc ρ d hx) hq)
        · refine flattenedSumLoop_ring fuel queue (done ++ [item]) v (by omega) ?_
          refine fold_append_mk ρ (fold_append_mk ρ hd ?_) hq
          simp only [evalRingFold, hx]

theorem evalRing_one : evalRing ρ one = some 1 := by
  simp only [one, evalRing, Int.cast_one]

/-- **`flattened_product` never reorders**: in any ring the result has the left-to-right product
of the terms as its value. -/
theorem flattenedProduct_ring {terms : List Expr} {k : K}
    (h : evalRingFold ρ (· * ·) 1 terms = some k) : evalRing ρ (flattenedProduct terms) = some k := by
  have := flattenedProductLoop_ring ρ (Expr.sizeL terms + terms.length + 1) terms [] k (by omega)
    (by simpa using h)
  simp only [flattenedProduct]
  split
  · rename_i heq; rw [heq] at this
    simp only [RingProdOK] at this; subst this; exact evalRing_zero ρ
  · rename_i heq; rw [heq] at this
    simp only [RingProdOK, evalRingFold, Option.some.injEq] at this
    subst this; exact evalRing_one ρ
  · rename_i x heq; rw [heq] at this
    simp only [RingProdOK] at this
    obtain ⟨a, ha, hb⟩ := fold_cons_some ρ this
    simp only [evalRingFold, Option.some.injEq, one_mul] at hb
    subst hb; exact ha
  · rename_i xs _ _ heq; rw [heq] at this
    simpa only [RingProdOK, evalRing] using this

/-- `flattened_sum` keeps the (left-to-right) sum of the terms, in any ring -/
theorem flattenedSum_ring {terms : List Expr} {k : K}
    (h : evalRingFold ρ (· + ·) 0 terms = some k) : evalRing ρ (flattenedSum terms) = some k := by
  have := flattenedSumLoop_ring ρ (Expr.sizeL terms + terms.length + 1) terms [] k (by omega)
    (by simpa using h)
  simp only [flattenedSum]
  split
  · rename_i heq; rw [heq] at this
    simp only [evalRingFold, Option.some.injEq] at this
    subst this; exact evalRing_zero ρ
  · rename_i x heq; rw [heq] at this
    obtain ⟨a, ha, hb⟩ := fold_cons_some ρ this
    simp only [evalRingFold, Option.some.injEq, zero_add] at hb
    subst hb; exact ha
  · simpa only [evalRing] using this

end

end PV
