import PV.Proofs.SyntaxFlatten
/-
  C06.  The stringifier does not see the nesting of sums and products: `str(flattenAssoc e)` and
  `str(e)` are the same pieces, provided no n-ary node is empty.  Consequences: the round trip
  for trees with arbitrarily nested sums/products, and "printing the reparsed tree gives the
  first string".
-/
namespace PV.Syntax
open PV

/-! ### `joinWith` and splicing -/

theorem joinWith_cons_cons (sep x y : Pieces) (ys : List Pieces) :
    joinWith sep (x :: y :: ys) = x ++ sep ++ joinWith sep (y :: ys) := by
  simp [joinWith]

/-- `joinWith` of a list depends on the tail only through its `joinWith` and its emptiness -/
theorem joinWith_cons_congr (sep x : Pieces) {ys zs : List Pieces}
    (h1 : joinWith sep ys = joinWith sep zs) (h2 : ys.isEmpty = zs.isEmpty) :
    joinWith sep (x :: ys) = joinWith sep (x :: zs) := by
  cases ys with
  | nil => cases zs with
    | nil => rfl
    | cons z zs => simp at h2
  | cons y ys => cases zs with
    | nil => simp at h2
    | cons z zs => simp only [joinWith_cons_cons, h1]

theorem joinWith_splice_head (sep : Pieces) : ∀ (ys zs : List Pieces), ys ≠ [] →
    joinWith sep (joinWith sep ys :: zs) = joinWith sep (ys ++ zs)
  | [], _, h => absurd rfl h
  | [y], zs, _ => by simp [joinWith]
  | y :: y' :: ys, zs, _ => by
    have ih := joinWith_splice_head sep (y' :: ys) zs (by simp)
    cases zs with
    | nil => simp [joinWith]
    | cons z zs =>
      simp only [List.cons_append, joinWith_cons_cons] at ih ⊢
      rw [← ih]
      simp [List.append_assoc]

theorem joinWith_splice (sep : Pieces) : ∀ (xs ys zs : List Pieces), ys ≠ [] →
    joinWith sep (xs ++ joinWith sep ys :: zs) = joinWith sep (xs ++ (ys ++ zs))
  | [], ys, zs, h => joinWith_splice_head sep ys zs h
  | x :: xs, ys, zs, h => by
    simp only [List.cons_append]
    apply joinWith_cons_congr
    · exact joinWith_splice sep xs ys zs h
    · cases xs <;> cases ys <;> simp_all

/-! ### a generic child-list printer -/

def mapE (f : Expr → Except SErr Pieces) : List Expr → Except SErr (List Pieces)
  | [] => pure []
  | c :: cs => do
      let x ← f c
      let xs ← mapE f cs
      pure (x :: xs)

theorem strL_eq_mapE (S : PrintPrec) (enc : Nat) : ∀ cs,
    strL S cs enc = mapE (fun c => strE S c enc) cs
  | [] => by simp [strL, mapE]
  | c :: cs => by simp [strL, mapE, strL_eq_mapE S enc cs]

theorem strForceL_eq_mapE (S : PrintPrec) (all : Bool) (enc : Nat) : ∀ cs,
    strForceL S all cs enc = mapE (fun c => (strE S c enc).map (forceWrap all c)) cs
  | [] => by simp [strForceL, mapE]
  | c :: cs => by
    simp only [strForceL, mapE, strForceL_eq_mapE S all enc cs]
    cases strE S c enc <;> simp [Except.map, bind, Except.bind]

theorem mapE_append (f : Expr → Except SErr Pieces) : ∀ (as bs : List Expr),
    mapE f (as ++ bs) = (do let xs ← mapE f as; let ys ← mapE f bs; pure (xs ++ ys))
  | [], bs => by simp [mapE]
  | a :: as, bs => by
    simp only [List.cons_append, mapE, mapE_append f as bs]
    cases f a <;> simp [bind, Except.bind]
    cases mapE f as <;> simp
    cases mapE f bs <;> simp [pure, Except.pure]

theorem mapE_isEmpty {f : Expr → Except SErr Pieces} {cs : List Expr} {xs : List Pieces}
    (h : mapE f cs = .ok xs) : xs.isEmpty = cs.isEmpty := by
  cases cs with
  | nil => simp only [mapE, pure, Except.pure, Except.ok.injEq] at h; subst h; rfl
  | cons c cs =>
    simp only [mapE, bind_eq_ok, pure, Except.pure, Except.ok.injEq] at h
    obtain ⟨_, _, _, _, rfl⟩ := h; rfl

theorem mapE_congr {f g : Expr → Except SErr Pieces} : ∀ {cs : List Expr},
    (∀ c ∈ cs, f c = g c) → mapE f cs = mapE g cs
  | [], _ => rfl
  | c :: cs, h => by
    simp only [mapE, h c (List.mem_cons_self ..),
      mapE_congr (cs := cs) (fun d hd => h d (List.mem_cons_of_mem _ hd))]

/-- the flattened operand list prints to the same joined pieces -/
theorem mapE_flattenInto (op : NaryOp) (f : Expr → Except SErr Pieces) (sep : Pieces) :
    ∀ (cs : List Expr),
    (∀ c ∈ cs, (∀ ds, flattenAssoc c = .nary op ds →
        ds ≠ [] ∧ f c = (mapE f ds).map (joinWith sep)) ∧
      ((∀ ds, flattenAssoc c ≠ .nary op ds) → f (flattenAssoc c) = f c)) →
    ∀ xs0 : List Pieces,
      (mapE f (flattenInto op cs)).map (fun ys => joinWith sep (xs0 ++ ys))
        = (mapE f cs).map (fun zs => joinWith sep (xs0 ++ zs))
  | [], _, xs0 => by simp [flattenInto_nil]
  | c :: cs, h, xs0 => by
    have ih := mapE_flattenInto op f sep cs (fun d hd => h d (List.mem_cons_of_mem _ hd))
    obtain ⟨h2, h1⟩ := h c (List.mem_cons_self ..)
    rw [flattenInto_cons, mapE_append]
    by_cases hop : ∃ ds, flattenAssoc c = .nary op ds
    · obtain ⟨ds, hds⟩ := hop
      obtain ⟨hne, hfc⟩ := h2 ds hds
      simp only [hds, flatOne, beq_self_eq_true, if_true, mapE, hfc]
      cases hm : mapE f ds with
      | error e => simp [Except.map, bind, Except.bind]
      | ok xs =>
        have hxs : xs ≠ [] := by
          have := mapE_isEmpty hm
          cases xs <;> cases ds <;> simp_all
        have ih' := ih (xs0 ++ xs)
        simp only [Except.map, bind, Except.bind, pure, Except.pure] at ih' ⊢
        cases hm1 : mapE f (flattenInto op cs) <;> cases hm2 : mapE f cs <;>
          simp only [hm1, hm2] at ih' ⊢ <;> simp_all [joinWith_splice]
    · have hno : ∀ ds, flattenAssoc c ≠ .nary op ds := fun ds hds => hop ⟨ds, hds⟩
      have hflat : flatOne op (flattenAssoc c) = [flattenAssoc c] := by
        unfold flatOne
        split
        · rename_i o ds heq
          split
          · rename_i ho
            have : o = op := by simpa using ho
            subst this
            exact absurd heq (hno ds)
          · rw [heq]
        · rfl
      simp only [hflat, mapE, h1 hno]
      cases hx : f c with
      | error e => simp [Except.map, bind, Except.bind]
      | ok x =>
        have ih' := ih (xs0 ++ [x])
        simp only [Except.map, bind, Except.bind, pure, Except.pure] at ih' ⊢
        cases hm1 : mapE f (flattenInto op cs) <;> cases hm2 : mapE f cs <;>
          simp only [hm1, hm2] at ih' ⊢ <;> simp_all


/-! ### what `flattenAssoc` preserves at the top of a tree -/

theorem fA_nary (o : NaryOp) (cs : List Expr) : ∃ ds, flattenAssoc (.nary o cs) = .nary o ds := by
  cases o <;> simp [flattenAssoc]

theorem fA_nary_inv {c : Expr} {op : NaryOp} {ds : List Expr} (h : flattenAssoc c = .nary op ds) :
    ∃ cs0, c = .nary op cs0 := by
  cases c with
  | nary o cs =>
    obtain ⟨ds', hds'⟩ := fA_nary o cs
    rw [hds'] at h
    simp only [Expr.nary.injEq] at h
    exact ⟨cs, by rw [h.1]⟩
  | _ => simp [flattenAssoc] at h

theorem fA_isDivision (c : Expr) : isDivision (flattenAssoc c) = isDivision c := by
  cases c with
  | nary o cs => obtain ⟨ds, hds⟩ := fA_nary o cs; rw [hds]; rfl
  | bin o a b => cases o <;> simp [flattenAssoc, isDivision]
  | _ => simp [flattenAssoc, isDivision]

theorem fA_isMultiplicative (c : Expr) :
    isMultiplicative (flattenAssoc c) = isMultiplicative c := by
  cases c with
  | nary o cs => cases o <;> simp [flattenAssoc, isMultiplicative]
  | bin o a b => cases o <;> simp [flattenAssoc, isMultiplicative]
  | _ => simp [flattenAssoc, isMultiplicative]

theorem fA_not_tuple {i : Expr} (hi : ∀ cs, i ≠ .tuple cs) : ∀ cs, flattenAssoc i ≠ .tuple cs := by
  intro cs
  cases i with
  | tuple ds => exact absurd rfl (hi ds)
  | nary o ds => obtain ⟨ds', hds'⟩ := fA_nary o ds; rw [hds']; simp
  | _ => simp [flattenAssoc]

theorem fA_not_none {c : Expr} (hc : c ≠ .const .none) : flattenAssoc c ≠ .const .none := by
  cases c with
  | const k => simpa [flattenAssoc] using hc
  | nary o ds => obtain ⟨ds', hds'⟩ := fA_nary o ds; rw [hds']; simp
  | _ => simp [flattenAssoc]

/-! ### no empty n-ary node -/

mutual
/-- every n-ary node has at least one operand -/
def nonemptyNary : Expr → Bool
  | .nary _ cs => !cs.isEmpty && nonemptyNaryL cs
  | .bin _ a b => nonemptyNary a && nonemptyNary b
  | .un _ a => nonemptyNary a
  | .cmp _ a b => nonemptyNary a && nonemptyNary b
  | .ite c t e => nonemptyNary c && nonemptyNary t && nonemptyNary e
  | .call f as => nonemptyNary f && nonemptyNaryL as
  | .callKw f as _ vs => nonemptyNary f && nonemptyNaryL as && nonemptyNaryL vs
  | .subscript a i => nonemptyNary a && nonemptyNary i
  | .lookup a _ => nonemptyNary a
  | .slice cs => nonemptyNaryL cs
  | .tuple cs => nonemptyNaryL cs
  | .list cs => nonemptyNaryL cs
  | _ => true
def nonemptyNaryL : List Expr → Bool
  | [] => true
  | c :: cs => nonemptyNary c && nonemptyNaryL cs
end

theorem nonemptyNaryL_mem : ∀ {cs : List Expr}, nonemptyNaryL cs = true →
    ∀ c ∈ cs, nonemptyNary c = true
  | [], _, c, hc => by cases hc
  | d :: ds, h, c, hc => by
    simp only [nonemptyNaryL, Bool.and_eq_true] at h
    rcases List.mem_cons.mp hc with rfl | hc
    · exact h.1
    · exact nonemptyNaryL_mem h.2 c hc

theorem parenIf_self (p : Pieces) (a : Nat) : parenIf p a a = p := by simp [parenIf]

theorem strE_sum_eq (S : PrintPrec) (cs : List Expr) (enc : Nat) :
    strE S (.nary .sum cs) enc =
      ((mapE (fun c => strE S c S.sum) cs).map (joinWith [.sp, sy "+", .sp])).map
        (fun p => parenIf p enc S.sum) := by
  simp only [strE, strL_eq_mapE]
  cases mapE (fun c => strE S c S.sum) cs <;> simp [Except.map, bind, Except.bind, pure, Except.pure]

theorem strE_prod_eq (S : PrintPrec) (cs : List Expr) (enc : Nat) :
    strE S (.nary .prod cs) enc =
      ((mapE (fun c => (strE S c S.product).map (forceWrap false c)) cs).map
        (joinWith [sy "*"])).map (fun p => parenIf p enc S.product) := by
  simp only [strE, strForceL_eq_mapE]
  cases mapE (fun c => (strE S c S.product).map (forceWrap false c)) cs <;>
    simp [Except.map, bind, Except.bind, pure, Except.pure]

theorem flatOne_ne_nil {op : NaryOp} {y : Expr} (h : ∀ ds, y = .nary op ds → ds ≠ []) :
    flatOne op y ≠ [] := by
  unfold flatOne
  split
  · rename_i o ds
    split
    · rename_i ho
      have : o = op := by simpa using ho
      subst this
      exact h ds rfl
    · simp
  · simp

theorem strL_fAL (S : PrintPrec) (enc : Nat) : ∀ (cs : List Expr),
    (∀ c ∈ cs, strE S (flattenAssoc c) enc = strE S c enc) →
    strL S (flattenAssocL cs) enc = strL S cs enc
  | [], _ => by simp [flattenAssocL]
  | c :: cs, h => by
    simp only [flattenAssocL, strL, h c (List.mem_cons_self ..),
      strL_fAL S enc cs (fun d hd => h d (List.mem_cons_of_mem _ hd))]

theorem fAL_ne_nil : ∀ {cs : List Expr}, cs ≠ [] → flattenAssocL cs ≠ []
  | [], h => absurd rfl h
  | _ :: _, _ => by simp [flattenAssocL]

theorem strSliceL_fAL (S : PrintPrec) : ∀ (cs : List Expr),
    (∀ c ∈ cs, strE S (flattenAssoc c) S.none = strE S c S.none) →
    strSliceL S (flattenAssocL cs) = strSliceL S cs
  | [], _ => by simp [flattenAssocL]
  | c :: cs, h => by
    have ih := strSliceL_fAL S cs (fun d hd => h d (List.mem_cons_of_mem _ hd))
    by_cases hc : c = .const .none
    · subst hc
      simp only [flattenAssocL, flattenAssoc, strSliceL, ih]
    · have hc' := fA_not_none hc
      simp only [flattenAssocL]
      rw [strSliceL, strSliceL, ih, h c (List.mem_cons_self ..)]
      · exact fun h' => hc h'
      · exact fun h' => hc' h'


theorem forceWrap_fA (all : Bool) (c : Expr) :
    forceWrap all (flattenAssoc c) = forceWrap all c := by
  funext x; simp [forceWrap, fA_isDivision, fA_isMultiplicative]

/-- what is proved about a tree by induction on its size -/
def FlatOK (S : PrintPrec) (e : Expr) : Prop :=
  (∀ enc, strE S (flattenAssoc e) enc = strE S e enc) ∧
  (∀ op ds, flattenAssoc e = .nary op ds → ds ≠ [])

theorem str_flatten_aux (S : PrintPrec) : ∀ (n : Nat) (e : Expr), e.size ≤ n →
    nonemptyNary e = true → FlatOK S e := by
  intro n
  induction n with
  | zero => intro e hsz; cases e <;> simp [Expr.size] at hsz
  | succ n ih =>
    intro e hsz hne
    have ihL : ∀ cs : List Expr, Expr.sizeL cs ≤ n → nonemptyNaryL cs = true →
        ∀ c ∈ cs, FlatOK S c := fun cs hcs hn c hc =>
      ih c (by have := size_lt_of_mem hc; omega) (nonemptyNaryL_mem hn c hc)
    cases e with
    | nary o cs =>
      simp only [nonemptyNary, Bool.and_eq_true, Bool.not_eq_true', List.isEmpty_eq_false_iff] at hne
      simp only [Expr.size] at hsz
      have hch := ihL cs (by omega) hne.2
      have hcs : cs ≠ [] := hne.1
      cases o with
      | sum =>
        refine ⟨fun enc => ?_, fun op ds h => ?_⟩
        · rw [flattenAssoc_sum, strE_sum_eq, strE_sum_eq]
          have := mapE_flattenInto .sum (fun c => strE S c S.sum) [.sp, sy "+", .sp] cs
            (fun c hc => ⟨fun ds hds => ⟨(hch c hc).2 _ _ hds, by
                rw [← (hch c hc).1 S.sum, hds, strE_sum_eq]
                cases (mapE (fun c => strE S c S.sum) ds) <;> simp [Except.map, parenIf_self]⟩,
              fun _ => (hch c hc).1 S.sum⟩) []
          simp only [List.nil_append] at this
          rw [this]
        · rw [flattenAssoc_sum] at h
          simp only [Expr.nary.injEq] at h
          obtain ⟨c0, cs0, rfl⟩ : ∃ c0 cs0, cs = c0 :: cs0 := by
            cases cs with
            | nil => exact absurd rfl hcs
            | cons c0 cs0 => exact ⟨c0, cs0, rfl⟩
          rw [← h.2, flattenInto_cons]
          intro hnil
          have := List.append_eq_nil_iff.mp hnil
          exact flatOne_ne_nil (fun ds hds => (hch c0 (List.mem_cons_self ..)).2 _ ds hds) this.1
      | prod =>
        refine ⟨fun enc => ?_, fun op ds h => ?_⟩
        · rw [flattenAssoc_prod, strE_prod_eq, strE_prod_eq]
          have := mapE_flattenInto .prod (fun c => (strE S c S.product).map (forceWrap false c))
            [sy "*"] cs
            (fun c hc => ⟨fun ds hds => ⟨(hch c hc).2 _ _ hds, by
                obtain ⟨cs0, rfl⟩ := fA_nary_inv hds
                rw [← (hch _ hc).1 S.product, hds, strE_prod_eq]
                cases (mapE (fun c => (strE S c S.product).map (forceWrap false c)) ds) <;>
                  simp [Except.map, parenIf_self, forceWrap, isDivision]⟩,
              fun _ => by
                simp only [(hch c hc).1 S.product, forceWrap_fA]⟩) []
          simp only [List.nil_append] at this
          rw [this]
        · rw [flattenAssoc_prod] at h
          simp only [Expr.nary.injEq] at h
          obtain ⟨c0, cs0, rfl⟩ : ∃ c0 cs0, cs = c0 :: cs0 := by
            cases cs with
            | nil => exact absurd rfl hcs
            | cons c0 cs0 => exact ⟨c0, cs0, rfl⟩
          rw [← h.2, flattenInto_cons]
          intro hnil
          have := List.append_eq_nil_iff.mp hnil
          exact flatOne_ne_nil (fun ds hds => (hch c0 (List.mem_cons_self ..)).2 _ ds hds) this.1
      | bor | bxor | band | lor | land | min | max =>
        refine ⟨fun enc => ?_, fun op ds h => ?_⟩
        · simp only [flattenAssoc, strE]
          rw [strL_fAL S _ cs (fun c hc => (hch c hc).1 _)]
        · simp only [flattenAssoc, Expr.nary.injEq] at h
          rw [← h.2]; exact fAL_ne_nil hcs
    | bin o a b =>
      simp only [nonemptyNary, Bool.and_eq_true] at hne
      simp only [Expr.size] at hsz
      have ha := ih a (by omega) hne.1
      have hb := ih b (by omega) hne.2
      refine ⟨fun enc => ?_, fun op ds h => by simp [flattenAssoc] at h⟩
      cases o <;> simp only [flattenAssoc, strE, ha.1, hb.1, forceWrap_fA]
    | un o a =>
      simp only [nonemptyNary] at hne
      simp only [Expr.size] at hsz
      have ha := ih a (by omega) hne
      refine ⟨fun enc => ?_, fun op ds h => by simp [flattenAssoc] at h⟩
      cases o <;> simp only [flattenAssoc, strE, ha.1]
    | cmp o a b =>
      simp only [nonemptyNary, Bool.and_eq_true] at hne
      simp only [Expr.size] at hsz
      have ha := ih a (by omega) hne.1
      have hb := ih b (by omega) hne.2
      exact ⟨fun enc => by simp only [flattenAssoc, strE, ha.1, hb.1],
        fun op ds h => by simp [flattenAssoc] at h⟩
    | ite c t e =>
      simp only [nonemptyNary, Bool.and_eq_true] at hne
      simp only [Expr.size] at hsz
      have hc := ih c (by omega) hne.1.1
      have ht := ih t (by omega) hne.1.2
      have he := ih e (by omega) hne.2
      exact ⟨fun enc => by simp only [flattenAssoc, strE, hc.1, ht.1, he.1],
        fun op ds h => by simp [flattenAssoc] at h⟩
    | call f as =>
      simp only [nonemptyNary, Bool.and_eq_true] at hne
      simp only [Expr.size] at hsz
      have hf := ih f (by omega) hne.1
      have has := ihL as (by omega) hne.2
      exact ⟨fun enc => by
          simp only [flattenAssoc, strE, hf.1, strL_fAL S _ as (fun c hc => (has c hc).1 _)],
        fun op ds h => by simp [flattenAssoc] at h⟩
    | callKw f as ns vs =>
      simp only [nonemptyNary, Bool.and_eq_true] at hne
      simp only [Expr.size] at hsz
      have hf := ih f (by omega) hne.1.1
      have has := ihL as (by omega) hne.1.2
      have hvs := ihL vs (by omega) hne.2
      exact ⟨fun enc => by
          simp only [flattenAssoc, strE, hf.1, strL_fAL S _ as (fun c hc => (has c hc).1 _),
            strL_fAL S _ vs (fun c hc => (hvs c hc).1 _)],
        fun op ds h => by simp [flattenAssoc] at h⟩
    | lookup a nm =>
      simp only [nonemptyNary] at hne
      simp only [Expr.size] at hsz
      have ha := ih a (by omega) hne
      exact ⟨fun enc => by simp only [flattenAssoc, strE, ha.1],
        fun op ds h => by simp [flattenAssoc] at h⟩
    | subscript a i =>
      simp only [nonemptyNary, Bool.and_eq_true] at hne
      simp only [Expr.size] at hsz
      have ha := ih a (by omega) hne.1
      have hi := ih i (by omega) hne.2
      refine ⟨fun enc => ?_, fun op ds h => by simp [flattenAssoc] at h⟩
      by_cases hit : ∃ cs, i = .tuple cs
      · obtain ⟨cs, rfl⟩ := hit
        simp only [nonemptyNary] at hne
        simp only [Expr.size] at hsz
        have hcs := ihL cs (by omega) hne.2
        simp only [flattenAssoc, strE, ha.1, strL_fAL S _ cs (fun c hc => (hcs c hc).1 _)]
      · have hnt : ∀ cs, i = .tuple cs → False := fun cs h => hit ⟨cs, h⟩
        have hnt' : ∀ cs, flattenAssoc i = .tuple cs → False :=
          fun cs h => fA_not_tuple (fun cs h => hnt cs h) cs h
        simp only [flattenAssoc]
        rw [strE, strE, ha.1, hi.1]
        · exact hnt
        · exact hnt'
    | slice cs =>
      simp only [nonemptyNary] at hne
      simp only [Expr.size] at hsz
      have hcs := ihL cs (by omega) hne
      exact ⟨fun enc => by
          simp only [flattenAssoc, strE, strSliceL_fAL S cs (fun c hc => (hcs c hc).1 _)],
        fun op ds h => by simp [flattenAssoc] at h⟩
    | tuple cs =>
      simp only [nonemptyNary] at hne
      simp only [Expr.size] at hsz
      have hcs := ihL cs (by omega) hne
      refine ⟨fun enc => ?_, fun op ds h => by simp [flattenAssoc] at h⟩
      have hlen : (flattenAssocL cs).length = cs.length := by
        clear hcs hne hsz
        induction cs with
        | nil => rfl
        | cons c cs ihc => simp [flattenAssocL, ihc]
      simp only [flattenAssoc, strE, strL_fAL S _ cs (fun c hc => (hcs c hc).1 _), hlen]
    | list cs =>
      simp only [nonemptyNary] at hne
      simp only [Expr.size] at hsz
      have hcs := ihL cs (by omega) hne
      exact ⟨fun enc => by
          simp only [flattenAssoc, strE, strL_fAL S _ cs (fun c hc => (hcs c hc).1 _)],
        fun op ds h => by simp [flattenAssoc] at h⟩
    | _ => exact ⟨fun enc => by simp only [flattenAssoc], fun op ds h => by simp [flattenAssoc] at h⟩

/-- **The stringifier does not see the nesting of sums and products.** -/
theorem str_flatten (S : PrintPrec) {e : Expr} (h : nonemptyNary e = true) (enc : Nat) :
    strE S (flattenAssoc e) enc = strE S e enc :=
  (str_flatten_aux S e.size e (Nat.le_refl _) h).1 enc


/-! ### `flattenAssoc` is idempotent -/

theorem flattenInto_flatOne (op : NaryOp) (hop : op = .sum ∨ op = .prod) {c : Expr}
    (hI : flattenAssoc (flattenAssoc c) = flattenAssoc c) :
    flattenInto op (flatOne op (flattenAssoc c)) = flatOne op (flattenAssoc c) := by
  by_cases h : ∃ ds, flattenAssoc c = .nary op ds
  · obtain ⟨ds, hds⟩ := h
    rw [hds] at hI
    have : flattenInto op ds = ds := by
      rcases hop with rfl | rfl
      · rw [flattenAssoc_sum] at hI; simpa using hI
      · rw [flattenAssoc_prod] at hI; simpa using hI
    simp [hds, flatOne, this]
  · have hflat : flatOne op (flattenAssoc c) = [flattenAssoc c] := by
      unfold flatOne
      split
      · rename_i o ds heq
        split
        · rename_i ho
          have : o = op := by simpa using ho
          subst this
          exact absurd ⟨ds, heq⟩ h
        · rw [heq]
      · rfl
    rw [hflat, flattenInto_cons, hI, hflat, flattenInto_nil]; rfl

theorem flattenInto_idem (op : NaryOp) (hop : op = .sum ∨ op = .prod) : ∀ (cs : List Expr),
    (∀ c ∈ cs, flattenAssoc (flattenAssoc c) = flattenAssoc c) →
    flattenInto op (flattenInto op cs) = flattenInto op cs
  | [], _ => by simp [flattenInto_nil]
  | c :: cs, h => by
    rw [flattenInto_cons, flattenInto_append,
      flattenInto_flatOne op hop (h c (List.mem_cons_self ..)),
      flattenInto_idem op hop cs (fun d hd => h d (List.mem_cons_of_mem _ hd))]

theorem fAL_idem : ∀ (cs : List Expr),
    (∀ c ∈ cs, flattenAssoc (flattenAssoc c) = flattenAssoc c) →
    flattenAssocL (flattenAssocL cs) = flattenAssocL cs
  | [], _ => by simp [flattenAssocL]
  | c :: cs, h => by
    simp only [flattenAssocL, h c (List.mem_cons_self ..),
      fAL_idem cs (fun d hd => h d (List.mem_cons_of_mem _ hd))]

theorem flattenAssoc_idem_aux : ∀ (n : Nat) (e : Expr), e.size ≤ n →
    flattenAssoc (flattenAssoc e) = flattenAssoc e := by
  intro n
  induction n with
  | zero => intro e hsz; cases e <;> simp [Expr.size] at hsz
  | succ n ih =>
    intro e hsz
    have ihL : ∀ cs : List Expr, Expr.sizeL cs ≤ n →
        ∀ c ∈ cs, flattenAssoc (flattenAssoc c) = flattenAssoc c := fun cs hcs c hc =>
      ih c (by have := size_lt_of_mem hc; omega)
    cases e with
    | nary o cs =>
      simp only [Expr.size] at hsz
      have hch := ihL cs (by omega)
      cases o with
      | sum => rw [flattenAssoc_sum, flattenAssoc_sum, flattenInto_idem .sum (Or.inl rfl) cs hch]
      | prod => rw [flattenAssoc_prod, flattenAssoc_prod, flattenInto_idem .prod (Or.inr rfl) cs hch]
      | _ => simp only [flattenAssoc, fAL_idem cs hch]
    | bin o a b =>
      simp only [Expr.size] at hsz
      simp only [flattenAssoc, ih a (by omega), ih b (by omega)]
    | un o a => simp only [Expr.size] at hsz; simp only [flattenAssoc, ih a (by omega)]
    | cmp o a b =>
      simp only [Expr.size] at hsz
      simp only [flattenAssoc, ih a (by omega), ih b (by omega)]
    | ite c t e =>
      simp only [Expr.size] at hsz
      simp only [flattenAssoc, ih c (by omega), ih t (by omega), ih e (by omega)]
    | call f as =>
      simp only [Expr.size] at hsz
      simp only [flattenAssoc, ih f (by omega), fAL_idem as (ihL as (by omega))]
    | callKw f as ns vs =>
      simp only [Expr.size] at hsz
      simp only [flattenAssoc, ih f (by omega), fAL_idem as (ihL as (by omega)),
        fAL_idem vs (ihL vs (by omega))]
    | subscript a i =>
      simp only [Expr.size] at hsz
      simp only [flattenAssoc, ih a (by omega), ih i (by omega)]
    | lookup a nm => simp only [Expr.size] at hsz; simp only [flattenAssoc, ih a (by omega)]
    | slice cs =>
      simp only [Expr.size] at hsz; simp only [flattenAssoc, fAL_idem cs (ihL cs (by omega))]
    | tuple cs =>
      simp only [Expr.size] at hsz; simp only [flattenAssoc, fAL_idem cs (ihL cs (by omega))]
    | list cs =>
      simp only [Expr.size] at hsz; simp only [flattenAssoc, fAL_idem cs (ihL cs (by omega))]
    | _ => simp only [flattenAssoc]

theorem flattenAssoc_idem (e : Expr) : flattenAssoc (flattenAssoc e) = flattenAssoc e :=
  flattenAssoc_idem_aux e.size e (Nat.le_refl _)


/-! ### trees of the fragment and their normal forms have no empty n-ary node -/

theorem nonemptyNaryL_of_mem : ∀ {cs : List Expr}, (∀ c ∈ cs, nonemptyNary c = true) →
    nonemptyNaryL cs = true
  | [], _ => rfl
  | c :: cs, h => by
    simp only [nonemptyNaryL, Bool.and_eq_true]
    exact ⟨h c (List.mem_cons_self ..),
      nonemptyNaryL_of_mem (fun d hd => h d (List.mem_cons_of_mem _ hd))⟩

theorem nonemptyNaryL_append {as bs : List Expr} (ha : nonemptyNaryL as = true)
    (hb : nonemptyNaryL bs = true) : nonemptyNaryL (as ++ bs) = true :=
  nonemptyNaryL_of_mem (fun c hc => by
    rcases List.mem_append.mp hc with h | h
    · exact nonemptyNaryL_mem ha c h
    · exact nonemptyNaryL_mem hb c h)

theorem printable_nonempty_aux {P : ParserPrec} {S : PrintPrec} : ∀ (n : Nat) (e : Expr),
    e.size ≤ n → Printable P S e = true → nonemptyNary e = true := by
  intro n
  induction n with
  | zero => intro e hsz; cases e <;> simp [Expr.size] at hsz
  | succ n ih =>
    intro e hsz hp
    have hch : ∀ c ∈ e.children, nonemptyNary c = true := fun c hc =>
      (printable_children' hp c hc).elim (fun h => by subst h; rfl)
        (fun h => ih c (by have := children_size hc; omega) h)
    cases e with
    | nary o cs =>
      simp only [Expr.children] at hch
      have hne : cs ≠ [] := by
        rintro rfl
        cases o <;> simp [Printable] at hp
      simp only [nonemptyNary, Bool.and_eq_true, Bool.not_eq_true', List.isEmpty_eq_false_iff]
      exact ⟨hne, nonemptyNaryL_of_mem hch⟩
    | bin o a b => simp only [Expr.children] at hch; simp [nonemptyNary, hch]
    | un o a => simp only [Expr.children] at hch; simp [nonemptyNary, hch]
    | cmp o a b => simp only [Expr.children] at hch; simp [nonemptyNary, hch]
    | ite c t e => simp only [Expr.children] at hch; simp [nonemptyNary, hch]
    | call f as =>
      simp only [Expr.children] at hch
      simp only [nonemptyNary, Bool.and_eq_true]
      exact ⟨hch f (by simp), nonemptyNaryL_of_mem (fun c hc => hch c (by simp [hc]))⟩
    | callKw f as ns vs =>
      simp only [Expr.children] at hch
      simp only [nonemptyNary, Bool.and_eq_true]
      exact ⟨⟨hch f (by simp), nonemptyNaryL_of_mem (fun c hc => hch c (by simp [hc]))⟩,
        nonemptyNaryL_of_mem (fun c hc => hch c (by simp [hc]))⟩
    | subscript a i => simp only [Expr.children] at hch; simp [nonemptyNary, hch]
    | lookup a nm => simp only [Expr.children] at hch; simp [nonemptyNary, hch]
    | tuple cs => simp only [Expr.children] at hch; exact nonemptyNaryL_of_mem hch
    | list cs => simp only [Expr.children] at hch; exact nonemptyNaryL_of_mem hch
    | slice cs => simp only [Expr.children] at hch; exact nonemptyNaryL_of_mem hch
    | _ => rfl

theorem printable_nonempty {P : ParserPrec} {S : PrintPrec} {e : Expr}
    (hp : Printable P S e = true) : nonemptyNary e = true :=
  printable_nonempty_aux e.size e (Nat.le_refl _) hp

theorem nn_splice (op : NaryOp) {l r : Expr} (hl : nonemptyNary l = true)
    (hr : nonemptyNary r = true) : nonemptyNary (spliceNary op l r) = true := by
  unfold spliceNary
  split
  · rename_i o cs
    split
    · simp only [nonemptyNary, Bool.and_eq_true, Bool.not_eq_true'] at hl ⊢
      exact ⟨by simp, nonemptyNaryL_append hl.2 (by simp [nonemptyNaryL, hr])⟩
    · simp only [nonemptyNary, nonemptyNaryL, hr, Bool.and_true] at hl ⊢
      simpa using hl
  · simp [nonemptyNary, nonemptyNaryL, hl, hr]

theorem nn_pnfSum : ∀ (cs : List Expr) (acc : Expr), nonemptyNary acc = true →
    (∀ c ∈ cs, nonemptyNary (pnf c) = true) → nonemptyNary (pnfSum acc cs) = true
  | [], acc, h, _ => by simpa [pnfSum] using h
  | c :: cs, acc, h, hc => by
    simp only [pnfSum]
    exact nn_pnfSum cs _ (nn_splice .sum h (hc c (List.mem_cons_self ..)))
      (fun d hd => hc d (List.mem_cons_of_mem _ hd))

theorem nn_pnfProd : ∀ (c : Expr) (cs : List Expr),
    (∀ d ∈ c :: cs, nonemptyNary (pnf d) = true) → nonemptyNary (pnfProd (c :: cs)) = true
  | c, [], h => by rw [pnfProd_one]; exact h c (List.mem_cons_self ..)
  | c, d :: ds, h => by
    rw [pnfProd_cons2]
    exact nn_splice .prod (h c (List.mem_cons_self ..))
      (nn_pnfProd d ds (fun e he => h e (List.mem_cons_of_mem _ he)))

theorem nn_pnfL : ∀ {cs : List Expr}, (∀ c ∈ cs, nonemptyNary (pnf c) = true) →
    nonemptyNaryL (pnfL cs) = true
  | [], _ => rfl
  | c :: cs, h => by
    simp only [pnfL, nonemptyNaryL, Bool.and_eq_true]
    exact ⟨h c (List.mem_cons_self ..), nn_pnfL (fun d hd => h d (List.mem_cons_of_mem _ hd))⟩

theorem pnf_nonempty_aux {P : ParserPrec} {S : PrintPrec} : ∀ (n : Nat) (e : Expr),
    e.size ≤ n → Printable P S e = true → nonemptyNary (pnf e) = true := by
  intro n
  induction n with
  | zero => intro e hsz; cases e <;> simp [Expr.size] at hsz
  | succ n ih =>
    intro e hsz hp
    have hch : ∀ c ∈ e.children, nonemptyNary (pnf c) = true := fun c hc =>
      (printable_children' hp c hc).elim (fun h => by subst h; rfl)
        (fun h => ih c (by have := children_size hc; omega) h)
    cases e with
    | nary o cs =>
      simp only [Expr.children] at hch
      cases o with
      | sum =>
        match cs, hp, hch with
        | c :: d :: cs', _, hch =>
          simp only [pnf, pnfSum]
          exact nn_pnfSum cs' _ (nn_splice .sum (hch c (by simp)) (hch d (by simp)))
            (fun e he => hch e (by simp [he]))
        | [], hp, _ => simp [Printable] at hp
        | [_], hp, _ => simp [Printable] at hp
      | prod =>
        match cs, hp, hch with
        | c :: d :: cs', _, hch => simp only [pnf]; exact nn_pnfProd c (d :: cs') hch
        | [], hp, _ => simp [Printable] at hp
        | [_], hp, _ => simp [Printable] at hp
      | bor | bxor | band | lor | land | min | max =>
        match cs, hp, hch with
        | [a, b], _, hch => simp [pnf, pnfL, nonemptyNary, nonemptyNaryL, hch]
        | [], hp, _ => simp [Printable] at hp
        | [_], hp, _ => simp [Printable] at hp
        | _ :: _ :: _ :: _, hp, _ => simp [Printable] at hp
    | bin o a b => simp only [Expr.children] at hch; simp [pnf, nonemptyNary, hch]
    | un o a => simp only [Expr.children] at hch; simp [pnf, nonemptyNary, hch]
    | cmp o a b => simp only [Expr.children] at hch; simp [pnf, nonemptyNary, hch]
    | ite c t e => simp only [Expr.children] at hch; simp [pnf, nonemptyNary, hch]
    | call f as =>
      simp only [Expr.children] at hch
      simp only [pnf, nonemptyNary, Bool.and_eq_true]
      exact ⟨hch f (by simp), nn_pnfL (fun c hc => hch c (by simp [hc]))⟩
    | callKw f as ns vs =>
      simp only [Expr.children] at hch
      simp only [pnf, nonemptyNary, Bool.and_eq_true]
      exact ⟨⟨hch f (by simp), nn_pnfL (fun c hc => hch c (by simp [hc]))⟩,
        nn_pnfL (fun c hc => hch c (by simp [hc]))⟩
    | subscript a i => simp only [Expr.children] at hch; simp [pnf, nonemptyNary, hch]
    | lookup a nm => simp only [Expr.children] at hch; simp [pnf, nonemptyNary, hch]
    | tuple cs => simp only [Expr.children] at hch; simp only [pnf, nonemptyNary]; exact nn_pnfL hch
    | list cs => simp only [Expr.children] at hch; simp only [pnf, nonemptyNary]; exact nn_pnfL hch
    | slice cs => simp only [Expr.children] at hch; simp only [pnf, nonemptyNary]; exact nn_pnfL hch
    | const => simp [pnf, nonemptyNary]
    | var => simp [pnf, nonemptyNary]
    | _ => simp [Printable] at hp

theorem pnf_nonempty {P : ParserPrec} {S : PrintPrec} {e : Expr}
    (hp : Printable P S e = true) : nonemptyNary (pnf e) = true :=
  pnf_nonempty_aux e.size e (Nat.le_refl _) hp

/-- **Printing the reparsed tree gives the first printed form** (pieces, hence string) -/
theorem str_pnf {P : ParserPrec} {S : PrintPrec} {e : Expr} (hp : Printable P S e = true)
    (enc : Nat) : strE S (pnf e) enc = strE S e enc := by
  rw [← str_flatten S (pnf_nonempty hp), flatten_pnf hp, str_flatten S (printable_nonempty hp)]


/-! ### printing never fails on the fragment -/

theorem strL_total {S : PrintPrec} {enc : Nat} : ∀ {cs : List Expr},
    (∀ c ∈ cs, ∃ ps, strE S c enc = .ok ps) → ∃ xs, strL S cs enc = .ok xs
  | [], _ => ⟨[], rfl⟩
  | c :: cs, h => by
    obtain ⟨x, hx⟩ := h c (List.mem_cons_self ..)
    obtain ⟨xs, hxs⟩ := strL_total (cs := cs) (fun d hd => h d (List.mem_cons_of_mem _ hd))
    exact ⟨x :: xs, by simp [strL, hx, hxs, bind, Except.bind, pure, Except.pure]⟩

theorem strForceL_total {S : PrintPrec} {all : Bool} {enc : Nat} : ∀ {cs : List Expr},
    (∀ c ∈ cs, ∃ ps, strE S c enc = .ok ps) → ∃ xs, strForceL S all cs enc = .ok xs
  | [], _ => ⟨[], rfl⟩
  | c :: cs, h => by
    obtain ⟨x, hx⟩ := h c (List.mem_cons_self ..)
    obtain ⟨xs, hxs⟩ := strForceL_total (all := all) (cs := cs)
      (fun d hd => h d (List.mem_cons_of_mem _ hd))
    exact ⟨forceWrap all c x :: xs,
      by simp [strForceL, hx, hxs, bind, Except.bind, pure, Except.pure]⟩

def IsOk {ε α : Type} (x : Except ε α) : Prop := ∃ a, x = .ok a

theorem isOk_bind {ε α β : Type} {x : Except ε α} {f : α → Except ε β} (hx : IsOk x)
    (hf : ∀ a, IsOk (f a)) : IsOk (x >>= f) := by
  obtain ⟨a, rfl⟩ := hx
  exact hf a

set_option hygiene false in
macro "ok_tac" : tactic => `(tactic| repeat' (first
  | exact ⟨_, rfl⟩
  | exact hch _ (by simp) _
  | exact strL_total (fun c hc => hch c (by simp [hc]) _)
  | exact strForceL_total (fun c hc => hch c (by simp [hc]) _)
  | (refine isOk_bind ?_ ?_)
  | intro _))

theorem str_total_aux {P : ParserPrec} {S : PrintPrec} : ∀ (n : Nat) (e : Expr), e.size ≤ n →
    Printable P S e = true → ∀ enc, IsOk (strE S e enc) := by
  intro n
  induction n with
  | zero => intro e hsz; cases e <;> simp [Expr.size] at hsz
  | succ n ih =>
    intro e hsz hp enc
    by_cases hs : ∃ cs, e = .slice cs
    · obtain ⟨cs, rfl⟩ := hs
      have hparts : ∀ c ∈ cs, c ≠ .const .none → IsOk (strE S c S.none) := fun c hc hn =>
        (printable_children' hp c (by simpa [Expr.children] using hc)).elim
          (fun h => absurd h hn)
          (fun h => ih c (by
            have := size_lt_of_mem hc
            simp only [Expr.size] at hsz; omega) h _)
      have hsl : ∀ ds : List Expr, (∀ c ∈ ds, c ≠ .const .none → IsOk (strE S c S.none)) →
          IsOk (strSliceL S ds) := by
        intro ds
        induction ds with
        | nil => intro _; exact ⟨_, rfl⟩
        | cons d ds ihd =>
          intro h
          have ih' := ihd (fun c hc => h c (List.mem_cons_of_mem _ hc))
          by_cases hd : d = .const .none
          · subst hd
            simp only [strSliceL]
            exact isOk_bind ih' (fun _ => ⟨_, rfl⟩)
          · rw [strSliceL]
            · exact isOk_bind (h d (List.mem_cons_self ..) hd)
                (fun _ => isOk_bind ih' (fun _ => ⟨_, rfl⟩))
            · exact fun h' => hd h'
      simp only [strE]
      exact isOk_bind (hsl cs hparts) (fun _ => ⟨_, rfl⟩)
    have hns : ∀ cs, e ≠ .slice cs := fun cs h => hs ⟨cs, h⟩
    have hch : ∀ c ∈ e.children, ∀ enc, IsOk (strE S c enc) := fun c hc =>
      ih c (by have := children_size hc; omega) (printable_children hp hns c hc)
    cases e with
    | const k =>
      cases k with
      | int i => simp only [strE, constPieces]; split <;> exact ⟨_, rfl⟩
      | bool b => exact ⟨_, rfl⟩
      | flt r m d =>
        have hd : d ≠ 0 := by
          intro hd; simp [Printable, fltKind, hd] at hp
        simp only [strE, constPieces, hd, if_false]
        exact ⟨_, rfl⟩
      | _ => simp [Printable] at hp
    | var x => exact ⟨_, rfl⟩
    | nary o cs =>
      simp only [Expr.children] at hch
      cases o with
      | min | max =>
        match cs, hp with
        | [], hp => simp [Printable] at hp
        | [_], hp => simp [Printable] at hp
        | [_, _], hp => simp [Printable, naryInfix] at hp
        | _ :: _ :: _ :: _, hp => simp [Printable] at hp
      | _ => simp only [strE]; ok_tac
    | bin o a b => simp only [Expr.children] at hch; cases o <;> simp only [strE] <;> ok_tac
    | un o a => simp only [Expr.children] at hch; cases o <;> simp only [strE] <;> ok_tac
    | cmp o a b => simp only [Expr.children] at hch; simp only [strE]; ok_tac
    | ite c t e => simp only [Expr.children] at hch; simp only [strE]; ok_tac
    | call f as => simp only [Expr.children] at hch; simp only [strE]; ok_tac
    | callKw f as ns vs => simp only [Expr.children] at hch; simp only [strE]; ok_tac
    | lookup a nm => simp only [Expr.children] at hch; simp only [strE]; ok_tac
    | subscript a i =>
      simp only [Expr.children] at hch
      by_cases hit : ∃ cs, i = .tuple cs
      · obtain ⟨cs, rfl⟩ := hit
        have hpi := printable_children hp hns (.tuple cs) (by simp [Expr.children])
        have hcs : ∀ c ∈ cs, IsOk (strE S c S.none) := fun c hc =>
          ih c (by
            have h1 := size_lt_of_mem hc
            simp only [Expr.size] at hsz; omega)
            (printable_children hpi (by intro cs h; cases h) c
              (by simpa [Expr.children] using hc)) _
        simp only [strE]
        refine isOk_bind (strL_total hcs) (fun _ => isOk_bind (hch _ (by simp) _) fun _ => ?_)
        exact ⟨_, rfl⟩
      · have hnt : ∀ cs, i = .tuple cs → False := fun cs h => hit ⟨cs, h⟩
        rw [strE]
        · ok_tac
        · exact hnt
    | tuple cs => simp only [Expr.children] at hch; simp only [strE]; ok_tac
    | list cs => simp only [Expr.children] at hch; simp only [strE]; ok_tac
    | slice cs => exact absurd rfl (hns cs)
    | _ => simp [Printable] at hp

/-- **printing never fails on the fragment** -/
theorem str_total {P : ParserPrec} {S : PrintPrec} {e : Expr} (hp : Printable P S e = true)
    (enc : Nat) : ∃ ps, strE S e enc = .ok ps :=
  str_total_aux e.size e (Nat.le_refl _) hp enc

/-! ### the two fragments of the round-trip theorems -/

/-- the fragment: every node has a covered shape (variables, integer constants, finite float
constants, `True`/`False`,
sums and products with at least two operands, the six binary nodes, comparisons, two-operand
bitwise/logical nodes, `~`/`not`, conditionals, calls, calls with at least one keyword argument
and pairwise different keywords, subscripts whose index is not a tuple or is a tuple of at least
two elements, attribute look-ups, tuples, lists) and every child passes `okTriple` in its
position; the root passes it in position `top` -/
def InFragment (P : ParserPrec) (S : PrintPrec) (e : Expr) : Bool :=
  Printable P S e && okAt P S .top e

/-- the larger fragment: sums and products may be nested in any way (the local conditions are
checked on the flattened tree); no n-ary node is empty -/
def InFragmentFlat (P : ParserPrec) (S : PrintPrec) (e : Expr) : Bool :=
  nonemptyNary e && InFragment P S (flattenAssoc e)

end PV.Syntax
