import PV.Model.Cse
import PV.Proofs.Simple
import PV.Proofs.PyEqEquiv
/-
  C12 helper: the instrumented evaluator `evalTr` never computes the child of a wrapper that is
  already in its cache, so the wrappers of the `child` events of a log are pairwise distinct.
-/
namespace PV

mutual
theorem simple_wf : ∀ (e : Expr), e.simple = true → e.wf = true
  | .const c, h => by cases c <;> simp_all [Expr.simple, Const.simple, Expr.wf, Const.wf]
  | .var _, _ => by simp [Expr.wf]
  | .nary _ cs, h => by
      simp only [Expr.simple] at h; simp only [Expr.wf]; exact simpleL_wf cs h
  | .bin _ a b, h => by
      simp only [Expr.simple, Bool.and_eq_true] at h
      simp [Expr.wf, simple_wf a h.1, simple_wf b h.2]
  | .un _ a, h => by
      simp only [Expr.simple] at h; simp [Expr.wf, simple_wf a h]
  | .cmp _ a b, h => by
      simp only [Expr.simple, Bool.and_eq_true] at h
      simp [Expr.wf, simple_wf a h.1, simple_wf b h.2]
  | .ite c t e, h => by
      simp only [Expr.simple, Bool.and_eq_true] at h
      simp [Expr.wf, simple_wf c h.1.1, simple_wf t h.1.2, simple_wf e h.2]
  | .call f as, h => by
      simp only [Expr.simple, Bool.and_eq_true] at h
      simp [Expr.wf, simple_wf f h.1, simpleL_wf as h.2]
  | .callKw .., h => by simp [Expr.simple] at h
  | .subscript a i, h => by
      simp only [Expr.simple, Bool.and_eq_true] at h
      simp [Expr.wf, simple_wf a h.1, simple_wf i h.2]
  | .lookup a _, h => by
      simp only [Expr.simple] at h; simp [Expr.wf, simple_wf a h]
  | .cse c _ _, h => by
      simp only [Expr.simple] at h; simp [Expr.wf, simple_wf c h]
  | .subst c _ xs, h => by
      simp only [Expr.simple, Bool.and_eq_true] at h
      simp [Expr.wf, simple_wf c h.1, simpleL_wf xs h.2]
  | .deriv c _, h => by
      simp only [Expr.simple] at h; simp [Expr.wf, simple_wf c h]
  | .slice cs, h => by
      simp only [Expr.simple] at h; simp only [Expr.wf]; exact simpleL_wf cs h
  | .tuple cs, h => by
      simp only [Expr.simple] at h; simp only [Expr.wf]; exact simpleL_wf cs h
  | .list _, h => by simp [Expr.simple] at h
  | .nan, _ => by simp [Expr.wf]
  | .wildcard, _ => by simp [Expr.wf]
  | .dotWild _, _ => by simp [Expr.wf]
  | .starWild _, _ => by simp [Expr.wf]
  | .funcSym, _ => by simp [Expr.wf]
theorem simpleL_wf : ∀ (cs : List Expr), Expr.simpleL cs = true → Expr.wfL cs = true
  | [], _ => rfl
  | c :: cs, h => by
      simp only [Expr.simpleL, Bool.and_eq_true] at h
      simp [Expr.wfL, simple_wf c h.1, simpleL_wf cs h.2]
end

theorem pyEq_self_simple (e : Expr) (h : e.simple = true) : e.pyEq e = true :=
  pyEq_refl e (simple_wf e h)

theorem pyEq_iff_eq_simple {a b : Expr} (ha : a.simple = true) (hb : b.simple = true) :
    a.pyEq b = true ↔ a = b :=
  ⟨pyEq_eq_of_simple a b ha hb, fun h => h ▸ pyEq_self_simple a ha⟩

/-! ### the cache read off a log -/

theorem cacheOf_append : ∀ (a b : Log), cacheOf (a ++ b) = cacheOf a ++ cacheOf b
  | [], _ => rfl
  | .child w v :: a, b => by simp [cacheOf, cacheOf_append a b]
  | .call .. :: a, b => by simp [cacheOf, cacheOf_append a b]

theorem mem_cacheOf : ∀ {t : Log} {w : Expr} {v : Value}, (w, v) ∈ cacheOf t ↔ EvEvent.child w v ∈ t
  | [], _, _ => by simp [cacheOf]
  | .child w' v' :: t, w, v => by
      simp only [cacheOf, List.mem_cons, mem_cacheOf (t := t), Prod.mk.injEq, EvEvent.child.injEq]
  | .call .. :: t, w, v => by
      simp only [cacheOf, List.mem_cons, mem_cacheOf (t := t)]
      constructor
      · intro h; exact Or.inr h
      · intro h; rcases h with h | h
        · cases h
        · exact h

/-- the wrappers whose child has been computed, newest first -/
def computed (t : Log) : List Expr := (cacheOf t).map Prod.fst

theorem computed_append (a b : Log) : computed (a ++ b) = computed a ++ computed b := by
  simp [computed, cacheOf_append]

theorem mem_computed {t : Log} {w : Expr} : w ∈ computed t ↔ ∃ v, EvEvent.child w v ∈ t := by
  simp only [computed, List.mem_map, Prod.exists, exists_and_right, exists_eq_right]
  constructor
  · rintro ⟨v, h⟩; exact ⟨v, mem_cacheOf.mp h⟩
  · rintro ⟨v, h⟩; exact ⟨v, mem_cacheOf.mpr h⟩

theorem findBy_none {eq : Expr → Expr → Bool} {k : Expr} : ∀ {l : List (Expr × Value)},
    findBy eq k l = none → ∀ p ∈ l, eq p.1 k = false
  | [], _, p, hp => by simp at hp
  | (k', v) :: rest, h, p, hp => by
    simp only [findBy] at h
    by_cases hk : eq k' k = true
    · simp [hk] at h
    · simp only [hk, Bool.false_eq_true, if_false] at h
      simp only [List.mem_cons] at hp
      rcases hp with rfl | hp
      · simpa using hk
      · exact findBy_none h p hp

/-- invariant of a log: the computed wrappers are pairwise different simple expressions -/
def GoodLog (t : Log) : Prop := (computed t).Nodup ∧ ∀ w ∈ computed t, w.simple = true

/-- `m` only extends the log, keeps the invariant, and computes only wrappers of size ≤ `B` -/
def Tr (B : Nat) {α : Type} (m : TrM α) : Prop :=
  ∀ t, GoodLog t → ∃ new, (m t).2 = new ++ t ∧ GoodLog (new ++ t) ∧ ∀ w ∈ computed new, w.size ≤ B

theorem Tr.pure {B : Nat} {α} (a : α) : Tr B (TrM.pure a) :=
  fun t h => ⟨[], rfl, h, by simp [computed, cacheOf]⟩

theorem Tr.throw {B : Nat} {α} (e : Err) : Tr B (TrM.throw e : TrM α) :=
  fun t h => ⟨[], rfl, h, by simp [computed, cacheOf]⟩

theorem Tr.lift {B : Nat} {α} (x : Except Err α) : Tr B (TrM.lift x) :=
  fun t h => ⟨[], rfl, h, by simp [computed, cacheOf]⟩

theorem Tr.mono {B B' : Nat} {α} {m : TrM α} (hB : B ≤ B') (h : Tr B m) : Tr B' m := by
  intro t ht
  obtain ⟨new, h1, h2, h3⟩ := h t ht
  exact ⟨new, h1, h2, fun w hw => Nat.le_trans (h3 w hw) hB⟩

theorem Tr.bind {B : Nat} {α β} {m : TrM α} {f : α → TrM β} (hm : Tr B m) (hf : ∀ a, Tr B (f a)) :
    Tr B (m >>= f) := by
  intro t ht
  obtain ⟨n1, h1, g1, s1⟩ := hm t ht
  show ∃ new, (TrM.bind m f t).2 = new ++ t ∧ _
  cases hr : m t with
  | mk r t1 =>
    rw [hr] at h1; simp only at h1; subst h1
    cases r with
    | error e =>
      refine ⟨n1, ?_, g1, s1⟩
      simp only [TrM.bind, hr]
    | ok a =>
      obtain ⟨n2, h2, g2, s2⟩ := hf a (n1 ++ t) g1
      refine ⟨n2 ++ n1, ?_, ?_, ?_⟩
      · simp only [TrM.bind, hr, h2, List.append_assoc]
      · simpa [List.append_assoc] using g2
      · intro w hw
        rw [computed_append] at hw
        rcases List.mem_append.mp hw with hw | hw
        · exact s2 w hw
        · exact s1 w hw

theorem Tr.ite {B : Nat} {α} {c : Bool} {m1 m2 : TrM α} (h1 : Tr B m1) (h2 : Tr B m2) :
    Tr B (if c then m1 else m2) := by
  cases c <;> simpa

theorem Tr.call {B : Nat} (fv : Value) (args : List Value) (ns : List String) (kvs : List Value) :
    Tr B (callTr fv args ns kvs) := by
  intro t ht
  unfold callTr
  cases fv
  case func name =>
    refine ⟨[.call name args ns kvs], rfl, ?_, by simp [computed, cacheOf]⟩
    simpa [GoodLog, computed, cacheOf] using ht
  all_goals exact ⟨[], rfl, ht, by simp [computed, cacheOf]⟩

/-- the wrapper case: a cached wrapper is not recomputed; a computed one is new -/
theorem Tr.cse {env : Env} {c : Expr} {p : Option String} {sc : String}
    (hs : (Expr.cse c p sc).simple = true) (hc : Tr c.size (evalTr env c)) :
    Tr (Expr.cse c p sc).size (evalTr env (.cse c p sc)) := by
  intro t ht
  have hl : c.hasList = false := by
    have := simple_nolist _ hs; simpa [Expr.hasList] using this
  simp only [evalTr, hl, Bool.false_eq_true, if_false]
  cases hf : findBy Expr.pyEq (.cse c p sc) (cacheOf t) with
  | some v => exact ⟨[], rfl, ht, by simp [computed, cacheOf]⟩
  | none =>
    obtain ⟨n1, h1, g1, s1⟩ := hc t ht
    have hsz : ∀ w ∈ computed n1, w.size ≤ (Expr.cse c p sc).size := fun w hw =>
      Nat.le_trans (s1 w hw) (by simp only [Expr.size]; omega)
    cases hr : evalTr env c t with
    | mk r t1 =>
      rw [hr] at h1; simp only at h1; subst h1
      cases r with
      | error e => exact ⟨n1, rfl, g1, hsz⟩
      | ok v =>
        refine ⟨.child (.cse c p sc) v :: n1, rfl, ?_, ?_⟩
        · have hnew : Expr.cse c p sc ∉ computed (n1 ++ t) := by
            rw [computed_append]
            intro hmem
            rcases List.mem_append.mp hmem with hmem | hmem
            · have := s1 _ hmem
              simp only [Expr.size] at this; omega
            · simp only [computed, List.mem_map] at hmem
              obtain ⟨q, hq, hq1⟩ := hmem
              have := findBy_none hf q hq
              rw [hq1, pyEq_self_simple _ hs] at this
              cases this
          constructor
          · show (computed (EvEvent.child (Expr.cse c p sc) v :: (n1 ++ t))).Nodup
            simp only [computed, cacheOf, List.map_cons, List.nodup_cons]
            exact ⟨hnew, g1.1⟩
          · intro w hw
            simp only [List.cons_append, computed, cacheOf, List.map_cons, List.mem_cons] at hw
            rcases hw with rfl | hw
            · exact hs
            · exact g1.2 w hw
        · intro w hw
          simp only [computed, cacheOf, List.map_cons, List.mem_cons] at hw
          rcases hw with rfl | hw
          · exact Nat.le_refl _
          · exact hsz w hw

mutual
theorem evalTr_tr (env : Env) : ∀ e, e.simple = true → Tr e.size (evalTr env e)
  | .const c, _ => by simp only [evalTr]; exact Tr.lift _
  | .var x, _ => by
      simp only [evalTr]
      cases env.get x with
      | none => exact Tr.throw _
      | some v => exact Tr.pure _
  | .nary .sum cs, h => by
      simp only [evalTr]
      exact Tr.mono (by simp only [Expr.size]; omega) (fold_tr env .sum (.int 0) cs h)
  | .nary .prod cs, h => by
      simp only [evalTr]
      exact Tr.mono (by simp only [Expr.size]; omega) (fold_tr env .prod (.int 1) cs h)
  | .nary .bor cs, h => by
      simp only [evalTr]
      exact Tr.mono (by simp only [Expr.size]; omega) (reduce_tr env .bor cs h)
  | .nary .bxor cs, h => by
      simp only [evalTr]
      exact Tr.mono (by simp only [Expr.size]; omega) (reduce_tr env .bxor cs h)
  | .nary .band cs, h => by
      simp only [evalTr]
      exact Tr.mono (by simp only [Expr.size]; omega) (reduce_tr env .band cs h)
  | .nary .lor cs, h => by
      simp only [evalTr]
      exact Tr.mono (by simp only [Expr.size]; omega) (any_tr env cs h)
  | .nary .land cs, h => by
      simp only [evalTr]
      exact Tr.mono (by simp only [Expr.size]; omega) (all_tr env cs h)
  | .nary .min cs, h => by
      simp only [evalTr]
      exact Tr.mono (by simp only [Expr.size]; omega) (minmax_tr env true none cs h)
  | .nary .max cs, h => by
      simp only [evalTr]
      exact Tr.mono (by simp only [Expr.size]; omega) (minmax_tr env false none cs h)
  | .bin o a b, h => by
      simp only [Expr.simple, Bool.and_eq_true] at h
      simp only [evalTr]
      exact Tr.bind (Tr.mono (by simp only [Expr.size]; omega) (evalTr_tr env a h.1)) fun x =>
        Tr.bind (Tr.mono (by simp only [Expr.size]; omega) (evalTr_tr env b h.2)) fun y => Tr.lift _
  | .un .bnot a, h => by
      simp only [Expr.simple] at h
      simp only [evalTr]
      exact Tr.bind (Tr.mono (by simp only [Expr.size]; omega) (evalTr_tr env a h)) fun x => Tr.lift _
  | .un .lnot a, h => by
      simp only [Expr.simple] at h
      simp only [evalTr]
      exact Tr.bind (Tr.mono (by simp only [Expr.size]; omega) (evalTr_tr env a h)) fun x =>
        Tr.bind (Tr.lift _) fun t => Tr.pure _
  | .cmp o a b, h => by
      simp only [Expr.simple, Bool.and_eq_true] at h
      simp only [evalTr]
      exact Tr.bind (Tr.mono (by simp only [Expr.size]; omega) (evalTr_tr env a h.1)) fun x =>
        Tr.bind (Tr.mono (by simp only [Expr.size]; omega) (evalTr_tr env b h.2)) fun y => Tr.lift _
  | .ite c t e, h => by
      simp only [Expr.simple, Bool.and_eq_true] at h
      simp only [evalTr]
      exact Tr.bind (Tr.mono (by simp only [Expr.size]; omega) (evalTr_tr env c h.1.1)) fun cv =>
        Tr.bind (Tr.lift _) fun tv =>
          Tr.ite (Tr.mono (by simp only [Expr.size]; omega) (evalTr_tr env t h.1.2))
            (Tr.mono (by simp only [Expr.size]; omega) (evalTr_tr env e h.2))
  | .call f as, h => by
      simp only [Expr.simple, Bool.and_eq_true] at h
      simp only [evalTr]
      exact Tr.bind (Tr.mono (by simp only [Expr.size]; omega) (evalTr_tr env f h.1)) fun fv =>
        Tr.bind (Tr.mono (by simp only [Expr.size]; omega) (list_tr env as h.2)) fun avs =>
          Tr.call _ _ _ _
  | .callKw .., h => by simp [Expr.simple] at h
  | .subscript a i, h => by
      simp only [Expr.simple, Bool.and_eq_true] at h
      simp only [evalTr]
      exact Tr.bind (Tr.mono (by simp only [Expr.size]; omega) (evalTr_tr env a h.1)) fun x =>
        Tr.bind (Tr.mono (by simp only [Expr.size]; omega) (evalTr_tr env i h.2)) fun y => Tr.lift _
  | .lookup a n, h => by
      simp only [Expr.simple] at h
      simp only [evalTr]
      exact Tr.bind (Tr.mono (by simp only [Expr.size]; omega) (evalTr_tr env a h)) fun x => Tr.lift _
  | .cse c p sc, h => by
      have hc : c.simple = true := by simpa [Expr.simple] using h
      exact Tr.cse h (evalTr_tr env c hc)
  | .subst .., _ => by simp only [evalTr]; exact Tr.throw _
  | .deriv .., _ => by simp only [evalTr]; exact Tr.throw _
  | .slice _, _ => by simp only [evalTr]; exact Tr.throw _
  | .nan, _ => by simp only [evalTr]; exact Tr.pure _
  | .wildcard, _ => by simp only [evalTr]; exact Tr.throw _
  | .dotWild _, _ => by simp only [evalTr]; exact Tr.throw _
  | .starWild _, _ => by simp only [evalTr]; exact Tr.throw _
  | .funcSym, _ => by simp only [evalTr]; exact Tr.throw _
  | .tuple cs, h => by
      simp only [Expr.simple] at h
      simp only [evalTr]
      exact Tr.bind (Tr.mono (by simp only [Expr.size]; omega) (list_tr env cs h)) fun vs => Tr.pure _
  | .list cs, h => by simp [Expr.simple] at h
theorem fold_tr (env : Env) (o : NaryOp) :
    ∀ (acc : Value) (cs : List Expr), Expr.simpleL cs = true →
      Tr (Expr.sizeL cs) (evalTrFold env o acc cs)
  | acc, [], _ => by simp only [evalTrFold]; exact Tr.pure _
  | acc, c :: cs, h => by
      simp only [Expr.simpleL, Bool.and_eq_true] at h
      simp only [evalTrFold]
      exact Tr.bind (Tr.mono (by simp only [Expr.sizeL]; omega) (evalTr_tr env c h.1)) fun v =>
        Tr.bind (Tr.lift _) fun acc' =>
          Tr.mono (by simp only [Expr.sizeL]; omega) (fold_tr env o acc' cs h.2)
theorem reduce_tr (env : Env) (o : NaryOp) :
    ∀ (cs : List Expr), Expr.simpleL cs = true → Tr (Expr.sizeL cs) (evalTrReduce env o cs)
  | [], _ => by simp only [evalTrReduce]; exact Tr.throw _
  | c :: cs, h => by
      simp only [Expr.simpleL, Bool.and_eq_true] at h
      simp only [evalTrReduce]
      exact Tr.bind (Tr.mono (by simp only [Expr.sizeL]; omega) (evalTr_tr env c h.1)) fun v =>
        Tr.mono (by simp only [Expr.sizeL]; omega) (fold_tr env o v cs h.2)
theorem any_tr (env : Env) :
    ∀ (cs : List Expr), Expr.simpleL cs = true → Tr (Expr.sizeL cs) (evalTrAny env cs)
  | [], _ => by simp only [evalTrAny]; exact Tr.pure _
  | c :: cs, h => by
      simp only [Expr.simpleL, Bool.and_eq_true] at h
      simp only [evalTrAny]
      exact Tr.bind (Tr.mono (by simp only [Expr.sizeL]; omega) (evalTr_tr env c h.1)) fun v =>
        Tr.bind (Tr.lift _) fun t =>
          Tr.ite (Tr.pure _) (Tr.mono (by simp only [Expr.sizeL]; omega) (any_tr env cs h.2))
theorem all_tr (env : Env) :
    ∀ (cs : List Expr), Expr.simpleL cs = true → Tr (Expr.sizeL cs) (evalTrAll env cs)
  | [], _ => by simp only [evalTrAll]; exact Tr.pure _
  | c :: cs, h => by
      simp only [Expr.simpleL, Bool.and_eq_true] at h
      simp only [evalTrAll]
      exact Tr.bind (Tr.mono (by simp only [Expr.sizeL]; omega) (evalTr_tr env c h.1)) fun v =>
        Tr.bind (Tr.lift _) fun t =>
          Tr.ite (Tr.mono (by simp only [Expr.sizeL]; omega) (all_tr env cs h.2)) (Tr.pure _)
theorem minmax_tr (env : Env) (isMin : Bool) :
    ∀ (cur : Option Value) (cs : List Expr), Expr.simpleL cs = true →
      Tr (Expr.sizeL cs) (evalTrMinMax env isMin cur cs)
  | cur, [], _ => by
      simp only [evalTrMinMax]
      cases cur with
      | none => exact Tr.throw _
      | some m => exact Tr.pure _
  | cur, c :: cs, h => by
      simp only [Expr.simpleL, Bool.and_eq_true] at h
      simp only [evalTrMinMax]
      refine Tr.bind (Tr.mono (by simp only [Expr.sizeL]; omega) (evalTr_tr env c h.1)) fun v => ?_
      cases cur with
      | none => exact Tr.mono (by simp only [Expr.sizeL]; omega) (minmax_tr env isMin (some v) cs h.2)
      | some m =>
        exact Tr.bind (Tr.lift _) fun better =>
          Tr.mono (by simp only [Expr.sizeL]; omega) (minmax_tr env isMin _ cs h.2)
theorem list_tr (env : Env) :
    ∀ (cs : List Expr), Expr.simpleL cs = true → Tr (Expr.sizeL cs) (evalTrList env cs)
  | [], _ => by simp only [evalTrList]; exact Tr.pure _
  | c :: cs, h => by
      simp only [Expr.simpleL, Bool.and_eq_true] at h
      simp only [evalTrList]
      exact Tr.bind (Tr.mono (by simp only [Expr.sizeL]; omega) (evalTr_tr env c h.1)) fun v =>
        Tr.bind (Tr.mono (by simp only [Expr.sizeL]; omega) (list_tr env cs h.2)) fun vs => Tr.pure _
end

theorem goodLog_nil : GoodLog [] := by simp [GoodLog, computed, cacheOf]

/-- any history of evaluations on one evaluator keeps the invariant -/
theorem runTr_good (env : Env) : ∀ (es : List Expr) (t : Log), (∀ e ∈ es, e.simple = true) →
    GoodLog t → GoodLog (runTr env es t).2
  | [], t, _, ht => by simpa [runTr] using ht
  | e :: es, t, h, ht => by
    obtain ⟨new, h1, g1, _⟩ := evalTr_tr env e (h e (by simp)) t ht
    simp only [runTr]
    cases hr : evalTr env e t with
    | mk r t1 =>
      rw [hr] at h1; simp only at h1; subst h1
      simp only
      cases hr2 : runTr env es (new ++ t) with
      | mk rs t2 =>
        have := runTr_good env es (new ++ t) (fun x hx => h x (by simp [hx])) g1
        rw [hr2] at this
        exact this

end PV
